(* IoOp_proofs.v — theorems about Model/IoOp.v for every sequence of system call results and every placement of
   close / stop / timer ticks / cleanup (induction over the event list; no bound on sizes). *)
From Coq Require Import ZArith List Bool Lia.
From Verif Require Import Word IoOp.
Import ListNotations.
Local Open Scope Z_scope.

(* ------------------------------------------------------------------ lists *)
Lemma zlen_nil {A} : zlen (@nil A) = 0. Proof. reflexivity. Qed.
Lemma zlen_app {A} (a b : list A) : zlen (a ++ b) = zlen a + zlen b.
Proof. unfold zlen. rewrite app_length. lia. Qed.
Lemma zlen_nonneg {A} (a : list A) : 0 <= zlen a. Proof. unfold zlen. lia. Qed.
Lemma zlen_0_nil {A} (a : list A) : zlen a = 0 -> a = [].
Proof. destruct a; auto. unfold zlen; simpl; lia. Qed.
Lemma flat_app a b : flat (a ++ b) = flat a ++ flat b.
Proof. unfold flat. apply concat_app. Qed.
Lemma flat_snoc a b : flat (a ++ [b]) = flat a ++ b.
Proof. rewrite flat_app. unfold flat. simpl. now rewrite app_nil_r. Qed.
Lemma dsize_snoc a b : dsize (a ++ [b]) = dsize a + zlen b.
Proof. unfold dsize. now rewrite flat_snoc, zlen_app. Qed.
Lemma dsize_nonneg d : 0 <= dsize d. Proof. apply zlen_nonneg. Qed.
Lemma dsize_nil : dsize [] = 0. Proof. reflexivity. Qed.
Lemma dsize_0_flat d : dsize d = 0 -> flat d = [].
Proof. apply zlen_0_nil. Qed.

Lemma zlen_firstn {A} n (l : list A) : 0 <= n -> zlen (firstn (Z.to_nat n) l) = Z.min n (zlen l).
Proof. intros. unfold zlen. rewrite firstn_length. lia. Qed.
Lemma zlen_skipn {A} n (l : list A) : 0 <= n -> zlen (skipn (Z.to_nat n) l) = Z.max 0 (zlen l - n).
Proof. intros. unfold zlen. rewrite skipn_length. lia. Qed.

Lemma flat_rdrop : forall d n, 0 <= n -> flat (rdrop n d) = skipn (Z.to_nat n) (flat d).
Proof.
  induction d as [|r t IH]; intros n Hn; simpl.
  - now rewrite skipn_nil.
  - destruct (Z.leb_spec n 0).
    + replace n with 0 by lia. reflexivity.
    + destruct (Z.leb_spec (zlen r) n).
      * rewrite IH by lia. unfold flat. simpl. fold (flat t).
        rewrite skipn_app. unfold zlen in *.
        rewrite (skipn_all2 r) by lia. simpl.
        f_equal. lia.
      * unfold flat. simpl. fold (flat t). rewrite skipn_app. unfold zlen in *.
        replace (Z.to_nat n - length r)%nat with 0%nat by lia. reflexivity.
Qed.

Lemma flat_rtake : forall d n, 0 <= n -> flat (rtake n d) = firstn (Z.to_nat n) (flat d).
Proof.
  induction d as [|r t IH]; intros n Hn; simpl.
  - now rewrite firstn_nil.
  - destruct (Z.leb_spec n 0).
    + replace n with 0 by lia. reflexivity.
    + destruct (Z.leb_spec (zlen r) n).
      * unfold flat. simpl. fold (flat t) (flat (rtake (n - zlen r) t)). rewrite IH by lia.
        rewrite firstn_app. unfold zlen in *. rewrite (firstn_all2 r) by lia. f_equal. f_equal. lia.
      * unfold flat. simpl. fold (flat t). rewrite app_nil_r. rewrite firstn_app. unfold zlen in *.
        replace (Z.to_nat n - length r)%nat with 0%nat by lia. simpl. now rewrite app_nil_r.
Qed.

Lemma flat_dsub d off len : 0 <= off -> 0 <= len ->
  flat (dsub d off len) = firstn (Z.to_nat len) (skipn (Z.to_nat off) (flat d)).
Proof. intros. unfold dsub. rewrite flat_rtake, flat_rdrop; auto. Qed.

Lemma firstn_ge_all {A} n (l : list A) : zlen l <= n -> firstn (Z.to_nat n) l = l.
Proof. intros. apply firstn_all2. unfold zlen in *. lia. Qed.

Lemma firstn_add_skipn {A} (a b : nat) (l : list A) : firstn a l ++ firstn b (skipn a l) = firstn (a + b) l.
Proof.
  revert l. induction a; intros l; simpl; auto.
  destruct l; simpl. now rewrite firstn_nil. now rewrite IHa.
Qed.

(* ------------------------------------------------------------------ handler invocations *)
Definition cbytes (k : call) : list Z := match c_data k with Some l => l | None => [] end.
Definition cdata (cs : list call) : list Z := concat (map cbytes cs).
Lemma cdata_app a b : cdata (a ++ b) = cdata a ++ cdata b.
Proof. unfold cdata. now rewrite map_app, concat_app. Qed.

Definition all_notdone (cs : list call) : Prop := Forall (fun k => c_done k = false) cs.
Definition done_last (cs : list call) : Prop :=
  exists pre k, cs = pre ++ [k] /\ c_done k = true /\ all_notdone pre.

Lemma handler_calls_notdone w fl forced d err tot :
  f_done fl = false -> all_notdone (handler_calls w fl forced d err tot).
Proof. intros H. unfold handler_calls. rewrite H. repeat constructor. Qed.

Lemma handler_calls_done w fl forced d err tot :
  f_done fl = true -> done_last (handler_calls w fl forced d err tot).
Proof.
  intros H. unfold handler_calls, done_last. rewrite H.
  destruct (negb w && negb (err =? 0)).
  - destruct (negb (dsize d =? 0)).
    + exists [mkCall false (Some (flat d)) 0 tot forced], (mkCall true None err tot forced).
      repeat split; auto. repeat constructor.
    + exists [], (mkCall true None err tot forced). repeat split; auto. constructor.
  - destruct (w && (err =? 0)).
    + exists [], (mkCall true None err tot forced). repeat split; auto. constructor.
    + exists [], (mkCall true (Some (flat d)) err tot forced). repeat split; auto. constructor.
Qed.

(* deliver_data without DOP_DONE never sets done; with DOP_DONE it always invokes the handler, done on the last call *)
Lemma deliver_notdone stp fl o : f_done fl = false -> all_notdone (snd (deliver_data stp fl o)).
Proof.
  intros H. unfold deliver_data.
  destruct (dd_decide _ _ _ _) as [[[ret deliver] err] o1].
  destruct ret; [constructor|].
  destruct (dd_data deliver o1) as [d o2]. unfold dd_finish.
  destruct (negb deliver || _); [constructor|]. now apply handler_calls_notdone.
Qed.

Lemma deliver_done stp o : done_last (snd (deliver_data stp FL_DONE o)).
Proof.
  unfold deliver_data. cbn [f_deliver f_done FL_DONE orb].
  unfold dd_decide. cbn [negb].
  destruct ((o_err (set_flagd o false) =? 0) && stp);
    (destruct (dd_data true _) as [d o2]; unfold dd_finish; cbn [negb orb f_noempty FL_DONE andb];
     now apply handler_calls_done).
Qed.

(* ------------------------------------------------------------------ done exactly once, on the last invocation *)
Definition DoneInv (s : st) : Prop :=
  match s_phase s with Completed => done_last (s_calls s) | _ => all_notdone (s_calls s) end.

Lemma complete_phase s : s_phase (complete s) = Completed.
Proof. unfold complete. now destruct (deliver_data _ _ _). Qed.
Lemma complete_done s : all_notdone (s_calls s) -> done_last (s_calls (complete s)).
Proof.
  intros H. unfold complete. pose proof (deliver_done (s_stopped s) (s_op s)) as D.
  destruct (deliver_data _ _ _) as [o cs]. cbn in *.
  destruct D as (pre & k & -> & Hk & Hp). exists (s_calls s ++ pre), k.
  rewrite app_assoc. repeat split; auto. apply Forall_app; auto.
Qed.
Lemma complete_DoneInv s : all_notdone (s_calls s) -> DoneInv (complete s).
Proof. intros. unfold DoneInv. rewrite complete_phase. now apply complete_done. Qed.

Lemma with_deliver_phase s fl ph : s_phase (with_deliver s fl ph) = ph.
Proof. unfold with_deliver. now destruct (deliver_data _ _ _). Qed.
Lemma with_deliver_notdone s fl ph : f_done fl = false -> all_notdone (s_calls s) ->
  all_notdone (s_calls (with_deliver s fl ph)).
Proof.
  intros Hf H. unfold with_deliver. pose proof (deliver_notdone (s_stopped s) fl (s_op s) Hf) as D.
  destruct (deliver_data _ _ _) as [o cs]. cbn in *. apply Forall_app; auto.
Qed.
Lemma with_deliver_DoneInv s fl ph : ph <> Completed -> f_done fl = false -> all_notdone (s_calls s) ->
  DoneInv (with_deliver s fl ph).
Proof.
  intros. unfold DoneInv. rewrite with_deliver_phase. destruct ph; try congruence; now apply with_deliver_notdone.
Qed.

Lemma step_DoneInv c s e : DoneInv s -> DoneInv (step c s e).
Proof.
  intros H. unfold DoneInv in H.
  destruct e; cbn [step]; try exact H.
  - (* Check *) destruct (s_phase s) eqn:P; try (unfold DoneInv; now rewrite P).
    destruct (negb _).
    + apply complete_DoneInv. exact H.
    + destruct (_ && _).
      * apply with_deliver_DoneInv; auto; discriminate.
      * unfold DoneInv. cbn. exact H.
  - (* Perform *) destruct (s_phase s) eqn:P; try (unfold DoneInv; now rewrite P).
    destruct (perform _ _ _ _ _ _) as [[[o r] f] moved]. unfold DoneInv. cbn. exact H.
  - (* Act *) destruct (s_phase s) eqn:P; try (unfold DoneInv; now rewrite P).
    assert (Hw : forall fl, f_done fl = false -> all_notdone (s_calls (with_deliver s fl Idle)))
      by (intros; now apply with_deliver_notdone).
    repeat (match goal with |- context [if ?b then _ else _] => destruct b end);
      try (apply complete_DoneInv; auto; fail);
      try (apply with_deliver_DoneInv; auto; discriminate);
      try (unfold DoneInv; cbn; exact H).
  - (* Timer *) destruct (s_phase s) eqn:P; try (unfold DoneInv; now rewrite P);
    (destruct (negb _); [unfold DoneInv; now rewrite P|]);
    (destruct (_ && _); [unfold DoneInv; cbn; try rewrite P; exact H|]);
    (apply with_deliver_DoneInv; [try rewrite P; discriminate| now destruct (o_strict _) | exact H]).
  - (* Cleanup *) destruct (s_phase s) eqn:P; try (unfold DoneInv; now rewrite P);
    (destruct (is_active s); [unfold DoneInv; now rewrite P|]);
    (destruct fd_wide;
      [destruct (s_fderr s =? 0); [unfold DoneInv; now rewrite P| apply complete_DoneInv; exact H]
      |destruct (s_stopped s); [apply complete_DoneInv; exact H | unfold DoneInv; now rewrite P]]).
Qed.

Lemma run_DoneInv c evs : forall s, DoneInv s -> DoneInv (run c s evs).
Proof. induction evs; intros; simpl; auto. apply IHevs. now apply step_DoneInv. Qed.

(* once completed the operation is inert: the handler is never invoked again *)
Lemma step_completed c s e : s_phase s = Completed ->
  s_phase (step c s e) = Completed /\ s_calls (step c s e) = s_calls s /\ s_io (step c s e) = s_io s.
Proof. intros P. destruct e; cbn [step]; rewrite ?P; cbn; auto. Qed.

Theorem done_exactly_once_last : forall c o evs,
  let s := run c (st_init o) evs in
  (s_phase s = Completed -> done_last (s_calls s)) /\
  (s_phase s <> Completed -> all_notdone (s_calls s)) /\
  (forall e, s_phase s = Completed -> s_calls (step c s e) = s_calls s).
Proof.
  intros. assert (D : DoneInv s) by (apply run_DoneInv; unfold DoneInv; cbn; constructor).
  unfold DoneInv in D. repeat split.
  - intros P. now rewrite P in D.
  - intros P. destruct (s_phase s); try congruence; exact D.
  - intros e P. now apply step_completed.
Qed.

(* ------------------------------------------------------------------ reads: conservation and high water *)
Definition pending (o : op) : list Z := flat (o_data o) ++ o_buf o.
Definition small (hi : Z) (cs : list call) : Prop := Forall (fun k => zlen (cbytes k) <= hi) cs.

Definition RInv (o : op) : Prop :=
  o_write o = false /\
  o_buf_len o = zlen (o_buf o) /\
  o_undelivered o = dsize (o_data o) /\
  (o_hasbuf o = false -> o_buf o = []) /\
  (o_hasbuf o = true -> zlen (o_buf o) <= o_buf_siz o /\ dsize (o_data o) + o_buf_siz o <= o_high o) /\
  (dsize (o_data o) = 0 \/ dsize (o_data o) < o_low o) /\
  (0 <= o_low o <= o_high o /\ 1 <= o_high o <= SIZE_MAX) /\
  (o_length o < SIZE_MAX -> o_total o <= o_length o /\
     (o_hasbuf o = true -> o_total o - zlen (o_buf o) + o_buf_siz o <= o_length o)).

Ltac bd :=
  match goal with
  | H : context [?a >=? ?b] |- _ => rewrite (Z.geb_leb a b) in H
  | H : context [?a >? ?b] |- _ => rewrite (Z.gtb_ltb a b) in H
  | H : context [?a <=? ?b] |- _ => destruct (Z.leb_spec a b)
  | H : context [?a <? ?b] |- _ => destruct (Z.ltb_spec a b)
  | H : context [?a =? ?b] |- _ => destruct (Z.eqb_spec a b)
  end.

Lemma cdata_handler_read fl forced d err tot :
  cdata (handler_calls false fl forced d err tot) = flat d /\ small (dsize d) (handler_calls false fl forced d err tot).
Proof.
  unfold handler_calls, small. cbn [negb andb].
  destruct (f_done fl).
  - destruct (Z.eqb_spec err 0); cbn [negb].
    + unfold cdata, cbytes; cbn. rewrite app_nil_r. split; auto. repeat constructor. cbn. unfold dsize. lia.
    + destruct (Z.eqb_spec (dsize d) 0); cbn [negb].
      * pose proof (dsize_0_flat d e) as F. rewrite F. unfold cdata, cbytes; cbn. split; auto.
        repeat constructor. cbn. unfold zlen; simpl; lia.
      * unfold cdata, cbytes; cbn. rewrite app_nil_r. split; auto.
        pose proof (zlen_nonneg (flat d)). repeat constructor; cbn; unfold dsize, zlen in *; simpl; try lia.
  - unfold cdata, cbytes; cbn. rewrite app_nil_r. split; auto. repeat constructor. cbn. unfold dsize. lia.
Qed.

Ltac fin Hb Htot :=
  repeat split; auto; try lia; try discriminate;
  try (match goal with HH : o_hasbuf _ = true |- _ => destruct (Hb HH); lia end);
  try (intros; apply Htot; auto; fail);
  try (match goal with HH : o_length _ < SIZE_MAX |- _ => destruct (Htot HH) as [? ?]; try lia; try (split; [lia|discriminate]) end);
  try constructor.

Lemma deliver_read stp fl o o' cs : RInv o -> deliver_data stp fl o = (o', cs) ->
  RInv o' /\ cdata cs ++ pending o' = pending o /\ small (o_high o) cs /\
  o_total o' = o_total o /\ o_high o' = o_high o /\ o_length o' = o_length o /\ o_low o' = o_low o.
Proof.
  intros (Hd & Hl & Hu & Hnb & Hb & Hdat & Hpar & Htot) E.
  unfold deliver_data in E.
  set (und := o_undelivered o + o_buf_len o) in *.
  set (forced := f_deliver fl || f_done fl || o_flagd o) in *.
  assert (Hund : und = dsize (o_data o) + zlen (o_buf o)) by (unfold und; lia).
  pose proof (dsize_nonneg (o_data o)) as Hdn. pose proof (zlen_nonneg (o_buf o)) as Hzn.
  assert (Hsz : dsize (o_data o) + zlen (o_buf o) <= o_high o).
  { destruct (o_hasbuf o) eqn:HB.
    - destruct (Hb eq_refl). lia.
    - rewrite (Hnb eq_refl), zlen_nil. lia. }
  (* what the data stage does, for either value of deliver and any err *)
  assert (K : forall deliver err o1, 
     (o1 = set_flagd o false \/ o1 = set_err (set_flagd o false) err) ->
     (deliver = false -> und < o_low o /\ ~ (zlen (o_buf o) < o_buf_siz o)) ->
     forall err', (let '(d, o2) := dd_data deliver o1 in dd_finish fl forced deliver err' und d o2) = (o', cs) ->
     RInv o' /\ cdata cs ++ pending o' = pending o /\ small (o_high o) cs /\
     o_total o' = o_total o /\ o_high o' = o_high o /\ o_length o' = o_length o /\ o_low o' = o_low o).
  { intros deliver err o1 Ho1 Hnd err' E1.
    unfold dd_data in E1.
    assert (W : o_write o1 = false) by (destruct Ho1; subst; cbn; auto). rewrite W in E1. cbn [negb] in E1.
    assert (BL : o_buf_len o1 = zlen (o_buf o)) by (destruct Ho1; subst; cbn; auto). rewrite BL in E1.
    destruct (Z.eqb_spec (zlen (o_buf o)) 0) as [Z0|Z0]; cbn [negb] in E1.
    - (* no buffered bytes *)
      pose proof (zlen_0_nil _ Z0) as Bn.
      unfold dd_finish in E1.
      destruct deliver; cbn [negb orb] in E1.
      + destruct (f_noempty fl && (dsize (o_data o1) =? 0)) eqn:NE.
        * inversion E1; subst o' cs; clear E1.
          apply andb_prop in NE. destruct NE as [_ NE]. apply Z.eqb_eq in NE.
          assert (DD : dsize (o_data o) = 0) by (destruct Ho1; subst; cbn in NE; auto).
          unfold RInv, pending. destruct Ho1; subst o1; cbn; rewrite ?Bn, ?zlen_nil, ?dsize_nil in *;
            (fin Hb Htot; try (rewrite (dsize_0_flat _ DD); reflexivity)).
        * inversion E1; subst o' cs; clear E1.
          assert (OD : o_data o1 = o_data o) by (destruct Ho1; subst; cbn; auto).
          match goal with |- context [handler_calls ?w fl forced ?d err' ?t] =>
            assert (W2 : w = false) by (destruct Ho1; subst; cbn; auto); rewrite W2;
            destruct (cdata_handler_read fl forced d err' t) as [C1 C2] end.
          rewrite C1, OD. rewrite OD in C2.
          unfold RInv, pending. destruct Ho1; subst o1; cbn; rewrite ?Bn, ?zlen_nil, ?dsize_nil, ?app_nil_r in *;
            (try (split; [|split; [|split; [eapply Forall_impl; [|exact C2]; cbn; intros; lia|]]]); fin Hb Htot).
      + (* buffer used up, nothing to move *)
        inversion E1; subst o' cs; clear E1.
        destruct (Hnd eq_refl) as [Hlow _].
        unfold RInv, pending. destruct Ho1; subst o1; cbn; rewrite ?Bn, ?zlen_nil in *;
          (fin Hb Htot).
    - (* buffered bytes move into the data object *)
      unfold dd_finish in E1.
      assert (OD : o_data o1 = o_data o) by (destruct Ho1; subst; cbn; auto).
      assert (OB : o_buf o1 = o_buf o) by (destruct Ho1; subst; cbn; auto).
      rewrite OD, OB in E1.
      destruct deliver; cbn [negb orb] in E1.
      + destruct (f_noempty fl && (dsize (o_data o ++ [o_buf o]) =? 0)) eqn:NE.
        * apply andb_prop in NE. destruct NE as [_ NE]. apply Z.eqb_eq in NE. rewrite dsize_snoc in NE.
          pose proof (dsize_nonneg (o_data o)). pose proof (zlen_nonneg (o_buf o)). lia.
        * inversion E1; subst o' cs; clear E1.
          match goal with |- context [handler_calls ?w fl forced ?d err' ?t] =>
            assert (W2 : w = false) by (destruct Ho1; subst; cbn; auto); rewrite W2;
            destruct (cdata_handler_read fl forced d err' t) as [C1 C2] end.
          rewrite C1. rewrite dsize_snoc in C2.
          unfold RInv, pending. destruct Ho1; subst o1; cbn; rewrite ?flat_snoc, ?zlen_nil, ?dsize_nil, ?app_nil_r in *;
            (try (split; [|split; [|split; [eapply Forall_impl; [|exact C2]; cbn; intros; lia|]]]); fin Hb Htot).
      + inversion E1; subst o' cs; clear E1.
        destruct (Hnd eq_refl) as [Hlow _].
        unfold RInv, pending. destruct Ho1; subst o1; cbn; rewrite ?flat_snoc, ?dsize_snoc, ?zlen_nil, ?app_nil_r in *;
          (fin Hb Htot). }
  unfold dd_decide in E.
  destruct (negb forced).
  - cbn [o_low set_flagd o_buf_len o_buf_siz] in E.
    rewrite Z.geb_leb in E. destruct (Z.leb_spec (o_low o) und).
    + eapply (K true 0 (set_flagd o false)); eauto. discriminate.
    + destruct (Z.ltb_spec (o_buf_len o) (o_buf_siz o)).
      * inversion E; subst o' cs. unfold RInv, pending, small. cbn.
        fin Hb Htot.
      * eapply (K false 0 (set_flagd o false)); eauto. intros _. split; lia.
  - destruct ((o_err (set_flagd o false) =? 0) && stp).
    + eapply (K true ECANCELED (set_err (set_flagd o false) ECANCELED)); eauto. discriminate.
    + eapply (K true 0 (set_flagd o false)); eauto. discriminate.
Qed.

Lemma RInv_set_err o e : RInv o -> RInv (set_err o e).
Proof. unfold RInv. cbn. auto. Qed.

Lemma alloc_read c o : RInv o -> 1 <= chunk_size c ->
  RInv (alloc_buf c o) /\ pending (alloc_buf c o) = pending o /\ o_hasbuf (alloc_buf c o) = true /\
  o_total (alloc_buf c o) = o_total o /\ o_high (alloc_buf c o) = o_high o /\
  o_length (alloc_buf c o) = o_length o /\ o_low (alloc_buf c o) = o_low o /\ o_write (alloc_buf c o) = false /\
  o_buf_len (alloc_buf c o) = zlen (o_buf (alloc_buf c o)).
Proof.
  intros (Hd & Hl & Hu & Hnb & Hb & Hdat & Hpar & Htot) Hc.
  pose proof (dsize_nonneg (o_data o)) as Hdn.
  unfold alloc_buf. destruct (o_hasbuf o) eqn:HB.
  - unfold RInv. repeat split; auto; try (apply Hb; auto); try (apply Htot; auto); try lia;
      try (rewrite HB; discriminate).
  - rewrite Hd. cbn [negb].
    pose proof (Hnb eq_refl) as Bn. rewrite Bn in *. change (zlen (@nil Z)) with 0 in *.
    set (max1 := if dsize (o_data o) =? 0 then o_high o else u64 (o_high o - dsize (o_data o))).
    assert (M1 : 1 <= max1 /\ dsize (o_data o) + max1 <= o_high o).
    { unfold max1. destruct (Z.eqb_spec (dsize (o_data o)) 0). lia.
      rewrite u64_id; unfold SIZE_MAX in *; lia. }
    set (max2 := if max1 >? chunk_size c then chunk_size c else max1).
    assert (M2 : 1 <= max2 <= max1) by (unfold max2; rewrite Z.gtb_ltb; destruct (Z.ltb_spec (chunk_size c) max1); lia).
    set (bs := if o_length o <? SIZE_MAX then
                 let b := o_length o - o_total o in if b >? max2 then max2 else b else max2).
    assert (B : 0 <= bs <= max2 /\ (o_length o < SIZE_MAX -> o_total o + bs <= o_length o)).
    { unfold bs. destruct (Z.ltb_spec (o_length o) SIZE_MAX).
      - destruct (Htot H) as [T _]. cbn zeta. rewrite Z.gtb_ltb. destruct (Z.ltb_spec max2 (o_length o - o_total o)); lia.
      - lia. }
    unfold RInv, pending. cbn. rewrite ?Bn. change (zlen (@nil Z)) with 0.
    repeat split; auto; try lia; try discriminate.
    all: try (intros HH; destruct (Htot HH); lia).
Qed.

Lemma perform_error_read o fd e o' r f : RInv o -> perform_error o fd e = (o', r, f) ->
  RInv o' /\ pending o' = pending o /\ o_total o' = o_total o /\ o_high o' = o_high o /\
  o_length o' = o_length o /\ o_low o' = o_low o.
Proof.
  intros R E. unfold perform_error in E.
  repeat (match type of E with context [if ?b then _ else _] => destruct b end);
    inversion E; subst; auto 10; (split; [now apply RInv_set_err|cbn; auto 10]).
Qed.

Lemma perform_read c cl stp fd o rs o' r f moved :
  RInv o -> 1 <= chunk_size c ->
  (match first_result rs with Some (Got bs) => zlen bs <= req_len c o | _ => True end) ->
  perform c cl stp fd o rs = (o', r, f, moved) ->
  RInv o' /\ pending o' = pending o ++ moved /\ o_total o' = o_total o + zlen moved /\ o_high o' = o_high o /\
  o_length o' = o_length o /\ o_low o' = o_low o.
Proof.
  intros R Hc Hok E. unfold perform in E.
  destruct (negb (get_error cl stp fd true =? 0)).
  - destruct (perform_error o fd _) as [[o1 r1] f1] eqn:PE. inversion E; subst.
    rewrite app_nil_r, zlen_nil, Z.add_0_r. eapply perform_error_read; eauto.
  - destruct (alloc_read c o R Hc) as (RA & PA & HA & TA & HiA & LeA & LoA & WA & BLA).
    destruct (first_result rs) as [[bs|e]|].
    + destruct (Z.eqb_spec (zlen bs) 0).
      * inversion E; subst. rewrite app_nil_r, zlen_nil, Z.add_0_r. auto 10.
      * rewrite WA in E.
        assert (E' : (set_total (set_buf (alloc_buf c o) (o_hasbuf (alloc_buf c o)) (o_buf_siz (alloc_buf c o))
                        (o_buf_len (alloc_buf c o) + zlen bs) (o_buf (alloc_buf c o) ++ bs))
                        (o_total (alloc_buf c o) + zlen bs), moved) = (o', bs)).
        { cbn [o_total set_buf set_total o_length] in E.
          destruct (_ =? _) in E; inversion E; subst; auto. }
        inversion E'; subst o' moved; clear E E'.
        unfold req_len in Hok.
        destruct RA as (Hd & Hl & Hu & Hnb & Hb & Hdat & Hpar & Htot).
        destruct (Hb HA) as [B1 B2].
        pose proof (zlen_nonneg bs).
        unfold RInv, pending in *. cbn. rewrite HA, !zlen_app, <- PA, <- TA, <- HiA, <- LeA, <- LoA.
        repeat split; auto; try lia; try discriminate.
        all: try (unfold flat; rewrite app_assoc; reflexivity).
        all: intros; try (match goal with HH : o_length _ < SIZE_MAX |- _ =>
                            destruct (Htot HH) as [T1 T2]; specialize (T2 HA); lia end).
    + destruct (perform_error (alloc_buf c o) fd e) as [[o1 r1] f1] eqn:PE. inversion E; subst.
      rewrite app_nil_r, zlen_nil, Z.add_0_r.
      destruct (perform_error_read _ _ _ _ _ _ RA PE) as (A1 & A2 & A3 & A4 & A5 & A6).
      split; [exact A1|]. repeat split; congruence.
    + inversion E; subst. rewrite app_nil_r, zlen_nil, Z.add_0_r. auto 10.
Qed.

(* state invariant for a read operation with high-water mark hi and requested length len *)
Definition RS (hi len : Z) (o : op) (calls : list call) (io : list Z) : Prop :=
  RInv o /\ cdata calls ++ pending o = io /\ o_total o = zlen io /\ small hi calls /\ o_high o = hi /\ o_length o = len.
Definition RSt hi len (s : st) : Prop := RS hi len (s_op s) (s_calls s) (s_io s).

Lemma RS_deliver hi len stp fl o calls io o' cs :
  RS hi len o calls io -> deliver_data stp fl o = (o', cs) -> RS hi len o' (calls ++ cs) io.
Proof.
  intros (R & P & T & S & H & L) E.
  destruct (deliver_read _ _ _ _ _ R E) as (R' & P' & S' & T' & H' & L' & _).
  unfold RS. rewrite cdata_app, <- app_assoc, P'.
  split; [exact R'|]. split; [exact P|]. split; [congruence|].
  split; [apply Forall_app; split; auto; now rewrite <- H|]. split; congruence.
Qed.
Lemma RSt_with_deliver hi len s fl ph : RSt hi len s -> RSt hi len (with_deliver s fl ph).
Proof.
  intros H. unfold with_deliver. destruct (deliver_data _ _ _) as [o cs] eqn:E. unfold RSt. cbn.
  eapply RS_deliver; eauto.
Qed.
Lemma RSt_complete hi len s : RSt hi len s -> RSt hi len (complete s).
Proof.
  intros H. unfold complete. destruct (deliver_data _ _ _) as [o cs] eqn:E. unfold RSt. cbn.
  eapply RS_deliver; eauto.
Qed.
Lemma RS_set_err hi len o calls io e : RS hi len o calls io -> RS hi len (set_err o e) calls io.
Proof. intros (R & P & T & S & H & L). unfold RS. split; [now apply RInv_set_err|]. cbn. auto. Qed.

Lemma step_RSt c hi len s e : 1 <= chunk_size c -> RSt hi len s -> result_ok c s e = true -> RSt hi len (step c s e).
Proof.
  intros Hc H Hok.
  destruct e; cbn [step]; try exact H.
  - destruct (s_phase s); try exact H.
    destruct (negb _).
    + apply RSt_complete. unfold RSt. cbn. apply RS_set_err. exact H.
    + destruct (_ && _); [now apply RSt_with_deliver | exact H].
  - unfold result_ok in Hok. destruct (s_phase s); try exact H.
    destruct (perform _ _ _ _ _ _) as [[[o r] f] moved] eqn:E.
    destruct H as (R & P & T & S & Hh & L).
    assert (OK : match first_result rs with Some (Got bs) => zlen bs <= req_len c (s_op s) | _ => True end).
    { destruct (first_result rs) as [[bs|]|]; auto. now apply Z.leb_le. }
    destruct (perform_read _ _ _ _ _ _ _ _ _ _ R Hc OK E) as (R' & P' & T' & H' & L' & _).
    unfold RSt, RS. cbn [s_op s_calls s_io]. rewrite P', app_assoc, P, zlen_app.
    split; [exact R'|]. split; [reflexivity|]. split; [congruence|]. split; [exact S|]. split; congruence.
  - destruct (s_phase s); try exact H.
    repeat (match goal with |- context [if ?b then _ else _] => destruct b end);
      try (apply RSt_complete); try (apply RSt_with_deliver); try exact H.
  - destruct (s_phase s); try exact H;
    (destruct (negb _); [exact H|]); (destruct (_ && _); [unfold RSt; cbn; destruct H as (R & P & T & S & Hh & L);
       unfold RS; (split; [unfold RInv in *; cbn; exact R|]); cbn; auto | now apply RSt_with_deliver]).
  - destruct (s_phase s); try exact H;
    (destruct (is_active s); [exact H|]);
    (destruct fd_wide; [destruct (s_fderr s =? 0); [exact H|apply RSt_complete; unfold RSt; cbn;
        destruct (o_err (s_op s) =? 0); [apply RS_set_err|]; exact H]
      | destruct (s_stopped s); [now apply RSt_complete | exact H]]).
Qed.

Lemma run_RSt c hi len evs : 1 <= chunk_size c -> forall s, RSt hi len s -> run_ok c s evs = true -> RSt hi len (run c s evs).
Proof.
  intros Hc. induction evs as [|e t IH]; intros s H Hok; simpl; auto.
  simpl in Hok. apply andb_prop in Hok. destruct Hok. apply IH; auto. now apply step_RSt.
Qed.

Definition read_params_ok (p : params) : Prop := 0 <= p_low p <= p_high p /\ 1 <= p_high p <= SIZE_MAX.

Lemma RSt_init disk conv len p iv strict : read_params_ok p -> 0 <= len ->
  RSt (p_high p) len (st_init (op_init false disk conv len [] p iv strict)).
Proof.
  intros (A & B) L. unfold RSt, RS, RInv, pending, small, st_init, op_init. cbn.
  repeat split; auto; try lia; try discriminate; constructor.
Qed.

(* completed: nothing is left in the operation *)
Lemma complete_pending_read hi len s : RSt hi len s -> pending (s_op (complete s)) = [].
Proof.
  intros (R & _). unfold complete. destruct (deliver_data _ _ _) as [o cs] eqn:E. cbn.
  unfold deliver_data in E. cbn [f_deliver f_done FL_DONE orb] in E. unfold dd_decide in E. cbn [negb] in E.
  destruct R as (Hd & Hl & Hu & Hnb & Hb & _).
  assert (K : forall err o1, o_write o1 = false -> o_buf_len o1 = zlen (o_buf o1) ->
     (let '(d, o2) := dd_data true o1 in dd_finish FL_DONE true true err (o_undelivered (s_op s) + o_buf_len (s_op s)) d o2) = (o, cs) ->
     pending o = []).
  { intros err o1 W BL E1. unfold dd_data in E1. rewrite W in E1. cbn [negb] in E1.
    destruct (Z.eqb_spec (o_buf_len o1) 0); cbn [negb] in E1; unfold dd_finish in E1; cbn in E1;
      inversion E1; subst; unfold pending; cbn; auto.
    rewrite BL in e. now rewrite (zlen_0_nil _ e). }
  destruct (_ && _); (eapply K; [| |exact E]; cbn; auto).
Qed.

Theorem read_conservation_high_water : forall c disk conv len p iv strict evs,
  1 <= chunk_size c -> read_params_ok p -> 0 <= len ->
  let s0 := st_init (op_init false disk conv len [] p iv strict) in
  run_ok c s0 evs = true ->
  let s := run c s0 evs in
  cdata (s_calls s) ++ pending (s_op s) = s_io s /\
  (len < SIZE_MAX -> zlen (s_io s) <= len) /\
  small (p_high p) (s_calls s).
Proof.
  intros c disk conv len p iv strict evs Hc Hp Hl s0 Hok s.
  assert (R : RSt (p_high p) len s) by (apply run_RSt; auto; now apply RSt_init).
  destruct R as ((Hd & _ & _ & _ & _ & _ & _ & Htot) & P & T & S & Hh & L).
  repeat split; auto. intros HH. rewrite <- T. rewrite L in Htot. destruct (Htot HH). lia.
Qed.

Theorem high_water : forall c disk conv len p iv strict evs,
  1 <= chunk_size c -> read_params_ok p -> 0 <= len ->
  let s0 := st_init (op_init false disk conv len [] p iv strict) in
  run_ok c s0 evs = true ->
  Forall (fun k => zlen (cbytes k) <= p_high p) (s_calls (run c s0 evs)).
Proof. intros. now apply read_conservation_high_water. Qed.

(* the step that completes a read flushes everything that was buffered *)
Theorem read_completion_flushes : forall c disk conv len p iv strict evs,
  1 <= chunk_size c -> read_params_ok p -> 0 <= len ->
  let s0 := st_init (op_init false disk conv len [] p iv strict) in
  run_ok c s0 evs = true ->
  let s := run c s0 evs in
  pending (s_op (complete s)) = [] /\ cdata (s_calls (complete s)) = s_io s.
Proof.
  intros c disk conv len p iv strict evs Hc Hp Hl s0 Hok s.
  assert (R : RSt (p_high p) len s) by (apply run_RSt; auto; now apply RSt_init).
  pose proof (complete_pending_read _ _ _ R) as E. split; auto.
  destruct (RSt_complete _ _ _ R) as (_ & P & _). rewrite E, app_nil_r in P.
  unfold complete in *. destruct (deliver_data _ _ _); cbn in *. exact P.
Qed.

(* ------------------------------------------------------------------ low water, as coded *)
Lemma deliver_unforced_low stp fl o : f_deliver fl = false -> f_done fl = false -> o_flagd o = false ->
  snd (deliver_data stp fl o) <> [] -> o_low o <= o_undelivered o + o_buf_len o.
Proof.
  intros A B C. unfold deliver_data. rewrite A, B, C. cbn [orb]. unfold dd_decide. cbn [negb o_low set_flagd o_buf_len o_buf_siz].
  rewrite Z.geb_leb. destruct (Z.leb_spec (o_low o) (o_undelivered o + o_buf_len o)); auto.
  destruct (_ <? _); cbn; try congruence.
  destruct (dd_data false _) as [d o2]. unfold dd_finish. cbn. congruence.
Qed.

(* ------------------------------------------------------------------ ECANCELED *)
Theorem canceled_when_scheduled_after_close : forall closed stopped write len d,
  closed || stopped = true ->
  create_or_enqueue closed stopped 0 write len d =
    Some (mkCall true (if write then Some (flat d) else None) ECANCELED 0 true).
Proof. intros [|] [|] [|] len d H; try discriminate; reflexivity. Qed.

Lemma handler_calls_done_err w fl forced d err tot : f_done fl = true ->
  exists pre k, handler_calls w fl forced d err tot = pre ++ [k] /\ c_done k = true /\ c_err k = err /\
    (w = true -> c_data k = if err =? 0 then None else Some (flat d)) /\ c_total k = tot.
Proof.
  intros H. unfold handler_calls. rewrite H.
  destruct w; cbn [negb andb].
  - destruct (err =? 0).
    + exists [], (mkCall true None err tot forced). auto 6.
    + exists [], (mkCall true (Some (flat d)) err tot forced). auto 6.
  - destruct (negb (err =? 0)).
    + destruct (negb (dsize d =? 0)).
      * exists [mkCall false (Some (flat d)) 0 tot forced], (mkCall true None err tot forced). repeat split; auto; discriminate.
      * exists [], (mkCall true None err tot forced). repeat split; auto; discriminate.
    + exists [], (mkCall true (Some (flat d)) err tot forced). repeat split; auto; discriminate.
Qed.

Lemma deliver_done_err stp o : exists pre k, snd (deliver_data stp FL_DONE o) = pre ++ [k] /\ c_done k = true /\
  c_err k = (if (o_err o =? 0) && stp then ECANCELED else o_err o).
Proof.
  unfold deliver_data. cbn [f_deliver f_done FL_DONE orb]. unfold dd_decide. cbn [negb o_err set_flagd].
  destruct ((o_err o =? 0) && stp);
    (destruct (dd_data true _) as [d o2]; unfold dd_finish; cbn [negb orb f_noempty FL_DONE andb];
     match goal with |- context [handler_calls ?w FL_DONE ?f ?dd ?e ?t] =>
       destruct (handler_calls_done_err w FL_DONE f dd e t eq_refl) as (pre & k & E & D & Er & _) end;
     exists pre, k; cbn [snd]; auto).
Qed.

(* an operation picked (or cleaned up) after the stop became visible completes with ECANCELED without touching
   the descriptor, unless a descriptor error had already been recorded in the operation *)
Theorem canceled_after_stop : forall c s e,
  s_stopped s = true -> s_phase s = Idle -> (e = EvCheck \/ e = EvCleanup false) -> o_disk (s_op s) = false ->
  let s' := step c s e in
  s_phase s' = Completed /\ s_io s' = s_io s /\
  exists pre k, s_calls s' = s_calls s ++ pre ++ [k] /\ c_done k = true /\
    c_err k = (match e with EvCheck => ECANCELED | _ => if o_err (s_op s) =? 0 then ECANCELED else o_err (s_op s) end).
Proof.
  intros c s e St Ph He Hd s'. subst s'.
  destruct He; subst e; cbn [step]; rewrite Ph.
  - unfold get_error. rewrite St, orb_true_r. cbn [negb orb]. change (negb (ECANCELED =? 0)) with true. cbn iota.
    unfold complete. cbn [s_stopped s_op].
    pose proof (deliver_done_err (s_stopped s) (set_err (s_op s) ECANCELED)) as D.
    destruct (deliver_data _ _ _) as [o cs]. cbn in *. destruct D as (pre & k & -> & Dk & Ek).
    repeat split; auto. exists pre, k. repeat split; auto.
  - unfold is_active. rewrite Hd, Ph. cbn [andb]. rewrite St.
    unfold complete.
    pose proof (deliver_done_err (s_stopped s) (s_op s)) as D.
    destruct (deliver_data _ _ _) as [o cs]. cbn in *. destruct D as (pre & k & -> & Dk & Ek).
    repeat split; auto. exists pre, k. repeat split; auto.
    rewrite Ek, St. destruct (o_err (s_op s) =? 0); auto.
Qed.

(* ------------------------------------------------------------------ stream order *)
Lemma pick_keeps_current q op : q_cur q = Some op -> so_random op = false -> pick_next q = Some op.
Proof. intros H R. unfold pick_next. now rewrite H, R. Qed.
Lemma pick_first q h t : q_cur q = None -> q_s q = h :: t -> pick_next q = Some h.
Proof. intros H R. unfold pick_next. now rewrite H, R. Qed.

Definition nonrandom (l : list sop) : list sop := filter (fun op => negb (so_random op)) l.
Definition fch (c : Z) (l : list sop) : list sop := filter (fun op => so_chan op =? c) l.
Definition ids (l : list sop) : list Z := map so_id l.

(* enqueued operations are distinct objects *)
Definition senq_ok (q : stream) (e : sevent) : Prop :=
  match e with SEnq op => ~ In (so_id op) (ids (q_enq q)) | _ => True end.
Fixpoint srun_ok (q : stream) (evs : list sevent) : Prop :=
  match evs with [] => True | e :: t => senq_ok q e /\ srun_ok (sstep q e) t end.

Definition SInv (q : stream) : Prop :=
  Forall (fun op => so_random op = false) (q_s q) /\
  Forall (fun op => so_random op = true) (q_r q) /\
  (forall op, q_cur q = Some op -> so_random op = false -> exists t, q_s q = op :: t) /\
  (forall c, fch c (nonrandom (q_done q)) ++ fch c (q_s q) = fch c (nonrandom (q_enq q))) /\
  NoDup (ids (q_s q)) /\
  (* an operation behind the head of the STREAM list has not performed any I/O yet *)
  Forall (fun op => ~ In (so_id op) (q_io q)) (tl (q_s q)) /\
  (* a completed STREAM operation is on no list any more *)
  (forall op, In op (nonrandom (q_done q)) -> ~ In (so_id op) (ids (q_s q))) /\
  (* bookkeeping: everything is made of enqueued operations, which are distinct objects *)
  NoDup (ids (q_enq q)) /\ incl (q_s q) (q_enq q) /\ incl (q_r q) (q_enq q) /\
  incl (q_io q) (ids (q_enq q)) /\ incl (q_done q) (q_enq q).

Lemma same_op_refl a : same_op a a = true. Proof. apply Z.eqb_refl. Qed.
Lemma nonrandom_app a b : nonrandom (a ++ b) = nonrandom a ++ nonrandom b.
Proof. apply filter_app. Qed.
Lemma fch_app c a b : fch c (a ++ b) = fch c a ++ fch c b.
Proof. apply filter_app. Qed.
Lemma nonrandom_id l : Forall (fun op => so_random op = false) l -> nonrandom l = l.
Proof. induction 1; simpl; auto. rewrite H. simpl. now f_equal. Qed.
Lemma nonrandom_none l : Forall (fun op => so_random op = true) l -> nonrandom l = [].
Proof. induction 1; simpl; auto. rewrite H. simpl. auto. Qed.
Lemma next_after_In : forall l a n, next_after a l = Some n -> In n l.
Proof.
  induction l as [|h t IH]; cbn; intros a n H; try discriminate.
  destruct (same_op a h).
  - destruct t; inversion H; subst; cbn; auto.
  - right. eapply IH; eauto.
Qed.
Lemma filter_sub_Forall {A} (P : A -> Prop) f (l : list A) : Forall P l -> Forall P (filter f l).
Proof. induction 1; simpl; auto. destruct (f x); auto. Qed.
Lemma filter_incl {A} f (l : list A) : incl (filter f l) l.
Proof. intros x H. apply filter_In in H. tauto. Qed.
Lemma ids_incl a b : incl a b -> incl (ids a) (ids b).
Proof. intros H x Hx. unfold ids in *. apply in_map_iff in Hx. destruct Hx as (y & <- & Hy). apply in_map. auto. Qed.
Lemma NoDup_ids_filter f l : NoDup (ids l) -> NoDup (ids (filter f l)).
Proof.
  induction l as [|h t IH]; simpl; intros H; auto. inversion H; subst.
  destruct (f h); simpl; auto. constructor; auto. intros X. apply H2. now apply (ids_incl _ _ (filter_incl f t)).
Qed.
Lemma remove_first_incl a l : incl (remove_first a l) l.
Proof. induction l as [|h t IH]; cbn; [apply incl_refl|]. destruct (same_op a h); [apply incl_tl, incl_refl|]. intros x [->|H]; cbn; auto. Qed.
Lemma same_id_eq l a b : NoDup (ids l) -> In a l -> In b l -> so_id a = so_id b -> a = b.
Proof.
  induction l as [|h t IH]; [contradiction|]. cbn. intros ND Ha Hb E. inversion ND; subst.
  destruct Ha as [->|Ha], Hb as [->|Hb]; auto.
  - exfalso. apply H1. rewrite E. now apply in_map.
  - exfalso. apply H1. rewrite <- E. now apply in_map.
Qed.
Lemma NoDup_snoc {A} (l : list A) x : NoDup l -> ~ In x l -> NoDup (l ++ [x]).
Proof.
  induction l as [|h t IH]; cbn; intros ND H; [constructor; auto; constructor|].
  inversion ND; subst. constructor.
  - intros X. apply in_app_or in X. destruct X as [X|[X|[]]]; auto.
  - apply IH; auto.
Qed.

(* two filters that agree / disagree on the elements a third one selects *)
Lemma filter_split_yes {A} (f m : A -> bool) l : (forall x, f x = true -> m x = true) ->
  filter f (filter m l) = filter f l /\ filter f (filter (fun x => negb (m x)) l) = [].
Proof.
  intros H. induction l as [|h t [I1 I2]]; simpl; auto.
  destruct (f h) eqn:F.
  - rewrite (H h F). simpl. rewrite F, I1. auto.
  - destruct (m h); simpl; rewrite ?F; auto.
Qed.
Lemma filter_split_no {A} (f m : A -> bool) l : (forall x, f x = true -> m x = false) ->
  filter f (filter m l) = [] /\ filter f (filter (fun x => negb (m x)) l) = filter f l.
Proof.
  intros H. induction l as [|h t [I1 I2]]; simpl; auto.
  destruct (f h) eqn:F.
  - rewrite (H h F). simpl. rewrite F, I2. auto.
  - destruct (m h); simpl; rewrite ?F; auto.
Qed.
Lemma fch_cleanup c ch l :
  fch c (filter (chan_match ch) l) ++ fch c (filter (fun op => negb (chan_match ch op)) l) = fch c l.
Proof.
  unfold fch. destruct ch as [c0|].
  - destruct (Z.eqb_spec c0 c).
    + subst. destruct (filter_split_yes (fun op => so_chan op =? c) (chan_match (Some c)) l) as [A B]; [cbn; auto|].
      rewrite A, B. apply app_nil_r.
    + destruct (filter_split_no (fun op => so_chan op =? c) (chan_match (Some c0)) l) as [A B].
      { cbn. intros x Hx. apply Z.eqb_eq in Hx. apply Z.eqb_neq. congruence. }
      rewrite A, B. reflexivity.
  - destruct (filter_split_yes (fun op => so_chan op =? c) (chan_match None) l) as [A B]; [cbn; auto|].
    rewrite A, B. apply app_nil_r.
Qed.

(* the operation the handler picks is on a list; when it is a STREAM operation it is the head of the STREAM list *)
Lemma pick_In q op : SInv q -> pick_next q = Some op ->
  (so_random op = false -> exists t, q_s q = op :: t) /\ In op (q_enq q).
Proof.
  intros (F & FR & C & _ & _ & _ & _ & _ & IS & IR & _) P. unfold pick_next in P.
  destruct (q_cur q) as [cu|] eqn:E.
  - destruct (so_random cu) eqn:RC; cbn [negb] in P.
    + assert (X : In op (q_r q)).
      { destruct (next_after cu (q_r q)) eqn:N.
        - inversion P; subst. eapply next_after_In; eauto.
        - destruct (q_r q); inversion P; subst; cbn; auto. }
      split; [|now apply IR]. intros R. rewrite Forall_forall in FR. specialize (FR op X). congruence.
    + inversion P; subst. destruct (C op eq_refl RC) as [t S]. split; [eauto|]. apply IS. rewrite S. now left.
  - destruct (q_s q) as [|h t] eqn:S.
    + destruct (q_r q) as [|h t] eqn:S2; inversion P; subst.
      split; [|apply IR; now left]. intros R.
      rewrite Forall_forall in FR. specialize (FR op (or_introl eq_refl)). congruence.
    + inversion P; subst. split; [eauto|]. apply IS. now left.
Qed.

Lemma SInv_complete q op : SInv q -> (so_random op = false -> exists t, q_s q = op :: t) -> In op (q_enq q) ->
  SInv (complete_op q op).
Proof.
  intros I Hhead Hin. pose proof I as (F & FR & C & O & ND & IO & DN & NE & IS & IR & II & ID).
  destruct (so_random op) eqn:R.
  - (* a RANDOM operation: the STREAM side is untouched *)
    unfold SInv, complete_op. rewrite R. cbn [q_s q_r q_cur q_done q_enq q_io].
    assert (NR : nonrandom (q_done q ++ [op]) = nonrandom (q_done q)).
    { rewrite nonrandom_app. cbn. rewrite R. cbn. apply app_nil_r. }
    rewrite NR. repeat split; auto.
    + clear - FR. induction FR; cbn; auto. destruct (same_op op x); auto.
    + intros o2 H2 R2. destruct (q_cur q) as [cu|]; try discriminate.
      destruct (same_op op cu); inversion H2; subst. now apply C.
    + eapply incl_tran; [apply remove_first_incl|exact IR].
    + apply incl_app; auto. intros x [<-|[]]; auto.
  - destruct (Hhead eq_refl) as [t S].
    unfold SInv, complete_op. rewrite R, S. cbn [remove_first]. rewrite same_op_refl. cbn [q_s q_r q_cur q_done q_enq q_io].
    rewrite S in *. inversion F as [|? ? Fh Ft]; subst. cbn in ND. inversion ND as [|? ? Nh Nt]; subst. cbn in IO.
    assert (NR : nonrandom (q_done q ++ [op]) = nonrandom (q_done q) ++ [op]).
    { rewrite nonrandom_app. cbn. rewrite R. reflexivity. }
    rewrite NR. repeat split; auto.
    + intros o2 H2 R2. destruct (q_cur q) as [cu|] eqn:Ecu; try discriminate.
      destruct (same_op op cu) eqn:SO; inversion H2; subst.
      destruct (C o2 eq_refl R2) as [t' E']. inversion E'; subst. rewrite same_op_refl in SO. discriminate.
    + intros c. specialize (O c). rewrite fch_app. cbn in O |- *.
      destruct (so_chan op =? c); cbn; rewrite <- O, <- ?app_assoc; reflexivity.
    + destruct t; cbn; auto. inversion IO; auto.
    + intros o2 H2. apply in_app_or in H2. destruct H2 as [H2|[H2|[]]].
      * intros X. apply (DN o2 H2). now right.
      * subst. assumption.
    + intros x Hx. apply IS. now right.
    + apply incl_app; auto. intros x [<-|[]]; auto.
Qed.

Lemma SInv_cleanup q ch : SInv q -> SInv (cleanup_ops q ch).
Proof.
  intros (F & FR & C & O & ND & IO & DN & NE & IS & IR & II & ID). unfold SInv, cleanup_ops. cbn [q_s q_r q_cur q_done q_enq q_io].
  assert (NR : nonrandom (q_done q ++ filter (chan_match ch) (q_r q) ++ filter (chan_match ch) (q_s q)) =
               nonrandom (q_done q) ++ filter (chan_match ch) (q_s q)).
  { rewrite !nonrandom_app. rewrite (nonrandom_none (filter _ (q_r q))) by now apply filter_sub_Forall.
    rewrite (nonrandom_id (filter _ (q_s q))) by now apply filter_sub_Forall. reflexivity. }
  rewrite NR. repeat split; auto.
  - now apply filter_sub_Forall.
  - now apply filter_sub_Forall.
  - intros o2 H2 R2. destruct (q_cur q) as [cu|] eqn:Ecu; try discriminate.
    destruct (chan_match ch cu) eqn:M; inversion H2; subst.
    destruct (C o2 eq_refl R2) as [t E']. rewrite E'. cbn. rewrite M. cbn. eauto.
  - intros c. rewrite fch_app, <- app_assoc, fch_cleanup. apply O.
  - now apply NoDup_ids_filter.
  - destruct (q_s q) as [|h t]; cbn; auto. cbn in IO.
    destruct (negb (chan_match ch h)); cbn.
    + now apply filter_sub_Forall.
    + assert (X : Forall (fun op => ~ In (so_id op) (q_io q)) (filter (fun op => negb (chan_match ch op)) t))
        by now apply filter_sub_Forall.
      destruct (filter _ t); cbn; auto. inversion X; auto.
  - intros o2 H2 X. apply in_app_or in H2. destruct H2 as [H2|H2].
    + apply (DN o2 H2). eapply ids_incl; [apply filter_incl|exact X].
    + (* o2 matched the channel, what stays does not: the same id would be the same operation *)
      apply filter_In in H2. destruct H2 as [H2 M].
      unfold ids in X. apply in_map_iff in X. destruct X as (y & Ey & Hy). apply filter_In in Hy. destruct Hy as [Hy My].
      assert (y = o2) by (eapply same_id_eq; eauto). subst. rewrite M in My. discriminate.
  - eapply incl_tran; [apply filter_incl|exact IS].
  - eapply incl_tran; [apply filter_incl|exact IR].
  - apply incl_app; auto. apply incl_app; (eapply incl_tran; [apply filter_incl|]); auto.
Qed.

(* stream->op = op; _dispatch_operation_perform(op) *)
Lemma SInv_perform q op : SInv q -> pick_next q = Some op ->
  SInv (mkStream (q_s q) (q_r q) (Some op) (q_done q) (q_enq q) (q_io q ++ [so_id op])).
Proof.
  intros I P. destruct (pick_In q op I P) as [Hhead Hin].
  pose proof I as (F & FR & C & O & ND & IO & DN & NE & IS & IR & II & ID).
  unfold SInv. cbn [q_s q_r q_cur q_done q_enq q_io]. repeat split; auto.
  - intros o2 H2 R2. inversion H2; subst. auto.
  - (* nobody behind the head has the picked operation's id *)
    rewrite Forall_forall in *. intros x Hx X. apply in_app_or in X. destruct X as [X|[X|[]]]; [now apply (IO x Hx)|].
    assert (Hxs : In x (q_s q)) by (destruct (q_s q); [contradiction|now right]).
    assert (x = op) by (eapply (same_id_eq (q_enq q)); eauto). subst x.
    destruct (Hhead (F op Hxs)) as [t S]. rewrite S in ND, Hx. cbn in ND, Hx. inversion ND; subst.
    apply H1. now apply in_map.
  - apply incl_app; auto. intros x [<-|[]]. now apply in_map.
Qed.

Lemma step_SInv q e : SInv q -> senq_ok q e -> SInv (sstep q e).
Proof.
  intros I Hok. pose proof I as (F & FR & C & O & ND & IO & DN & NE & IS & IR & II & ID).
  destruct e as [op|r|ch]; cbn [sstep].
  - (* enqueue *) cbn in Hok. unfold SInv. cbn [q_s q_r q_cur q_done q_enq q_io].
    assert (NE' : NoDup (ids (q_enq q ++ [op]))) by (unfold ids; rewrite map_app; cbn; now apply NoDup_snoc).
    assert (Fresh : forall x, In x (q_enq q) -> so_id x <> so_id op)
      by (intros x Hx E; apply Hok; rewrite <- E; now apply in_map).
    destruct (so_random op) eqn:R.
    + assert (NR : nonrandom (q_enq q ++ [op]) = nonrandom (q_enq q)) by (rewrite nonrandom_app; cbn; rewrite R; apply app_nil_r).
      rewrite NR. repeat split; auto; try (apply incl_appl; auto; fail).
      * apply Forall_app; split; auto.
      * apply incl_app; [apply incl_appl; auto|apply incl_appr, incl_refl].
      * unfold ids. rewrite map_app. apply incl_appl. exact II.
    + assert (NR : nonrandom (q_enq q ++ [op]) = nonrandom (q_enq q) ++ [op]) by (rewrite nonrandom_app; cbn; now rewrite R).
      rewrite NR. repeat split; auto; try (apply incl_appl; auto; fail).
      * apply Forall_app; split; auto.
      * intros o2 H2 R2. destruct (C o2 H2 R2) as [t E']. rewrite E'. cbn. eauto.
      * intros c. rewrite !fch_app, app_assoc, O. reflexivity.
      * unfold ids. rewrite map_app. cbn. apply NoDup_snoc; auto. intros X. apply Hok. now apply (ids_incl _ _ IS).
      * destruct (q_s q) as [|h t] eqn:S; cbn; [constructor|]. cbn in IO. apply Forall_app. split; auto;
        try (constructor; [|constructor]; intros X; apply Hok; now apply II).
      * intros o2 H2 X. unfold ids in X. rewrite map_app in X. apply in_app_or in X. destruct X as [X|X].
        -- now apply (DN o2 H2).
        -- cbn in X. destruct X as [X|[]]. apply (Fresh o2); auto. apply ID. eapply filter_incl; eauto.
      * apply incl_app; [apply incl_appl; auto|apply incl_appr, incl_refl].
      * unfold ids. rewrite map_app. apply incl_appl. exact II.
  - destruct (pick_next q) as [op|] eqn:P; auto.
    destruct (pick_In q op I P) as [Hhead Hin].
    pose proof (SInv_perform q op I P) as I1.
    destruct r.
    + now apply SInv_complete.
    + exact I1.
    + apply SInv_complete; auto.
    + now apply SInv_cleanup.
  - now apply SInv_cleanup.
Qed.

Lemma run_SInv evs : forall q, SInv q -> srun_ok q evs -> SInv (srun q evs).
Proof. induction evs as [|e t IH]; intros q I H; simpl; auto. destruct H. apply IH; auto. now apply step_SInv. Qed.

Lemma SInv_init : SInv stream_init.
Proof.
  unfold SInv, stream_init. cbn. repeat split; auto; try apply NoDup_nil; try apply Forall_nil; try apply incl_refl;
    try discriminate; try (intros; contradiction).
Qed.

(* STREAM operations of one channel complete in the order they were enqueued, whatever the handler results, however
   cleanups (stop, descriptor errors) interleave, and whatever other channels and RANDOM operations do *)
Theorem stream_order : forall evs c,
  srun_ok stream_init evs ->
  let q := srun stream_init evs in
  fch c (nonrandom (q_done q)) ++ fch c (q_s q) = fch c (nonrandom (q_enq q)).
Proof. intros evs c H q. assert (I : SInv q) by (apply run_SInv; auto; apply SInv_init). now destruct I as (_ & _ & _ & O & _). Qed.

(* ... and the data of an operation comes entirely before the data of the next: the handler performs I/O only on the
   head of the STREAM list (the oldest STREAM operation that has not completed); an operation behind the head has not
   performed any I/O yet, and a completed one is never picked again *)
Theorem stream_io_one_at_a_time : forall evs,
  srun_ok stream_init evs ->
  let q := srun stream_init evs in
  (forall op, pick_next q = Some op -> so_random op = false -> exists t, q_s q = op :: t) /\
  Forall (fun op => ~ In (so_id op) (q_io q)) (tl (q_s q)) /\
  (forall op d, pick_next q = Some op -> In d (nonrandom (q_done q)) -> so_id op <> so_id d).
Proof.
  intros evs H q. assert (I : SInv q) by (apply run_SInv; auto; apply SInv_init).
  pose proof I as (F & FR & C & O & ND & IO & DN & NE & IS & IR & II & ID).
  split; [intros op P R; now apply (pick_In q op I P)|]. split; auto.
  intros op d P Hd E. destruct (pick_In q op I P) as [Hh Hin].
  assert (d = op).
  { eapply (same_id_eq (q_enq q)); eauto. apply ID. eapply filter_incl; eauto. }
  subst d. apply filter_In in Hd. destruct Hd as [Hd R]. apply negb_true_iff in R.
  destruct (Hh R) as [t S]. apply (DN op). { apply filter_In. split; auto. now rewrite R. }
  rewrite S. cbn. now left.
Qed.

(* ------------------------------------------------------------------ channel parameters *)
Lemma params_ok : forall chunk l,
  0 <= chunk <= SIZE_MAX -> Forall (fun s => match s with SetLow v | SetHigh v => 0 <= v <= SIZE_MAX end) l ->
  read_params_ok (apply_setters (params_init chunk 1) l).
Proof.
  intros chunk l Hc Hl. unfold apply_setters.
  assert (I : read_params_ok (params_init chunk 1)).
  { unfold read_params_ok, params_init. cbn [p_low p_high]. replace (1 * chunk) with chunk by lia.
    rewrite u64_id; unfold SIZE_MAX in *; lia. }
  revert I. generalize (params_init chunk 1). induction Hl as [|x l Hx Hl IH]; intros p I; simpl; auto.
  apply IH. unfold read_params_ok in *. destruct x; unfold set_low_water, set_high_water; cbn.
  - destruct (Z.ltb_spec (p_high p) v); destruct (Z.eqb_spec v 0); lia.
  - rewrite Z.gtb_ltb. destruct (Z.ltb_spec v (p_low p)); destruct (Z.eqb_spec v 0); lia.
Qed.

(* ================================================================== writes: conservation *)
Local Arguments flat : simpl never.
Local Arguments dsize : simpl never.
Local Arguments dsub : simpl never.
Lemma skipn_skipn_nat {A} (a b : nat) (l : list A) : skipn a (skipn b l) = skipn (b + a) l.
Proof.
  revert l. induction b; intros l; simpl; auto. destruct l; simpl; auto. now rewrite skipn_nil.
Qed.
Lemma zskip_skip {A} a b (l : list A) : 0 <= a -> 0 <= b ->
  skipn (Z.to_nat a) (skipn (Z.to_nat b) l) = skipn (Z.to_nat (b + a)) l.
Proof. intros. rewrite skipn_skipn_nat. f_equal. lia. Qed.
Lemma ztake_app_skip {A} a b (l : list A) : 0 <= a -> 0 <= b ->
  firstn (Z.to_nat a) l ++ firstn (Z.to_nat b) (skipn (Z.to_nat a) l) = firstn (Z.to_nat (a + b)) l.
Proof. intros. rewrite firstn_add_skipn. f_equal. lia. Qed.
Lemma zskip_take {A} m n (l : list A) : 0 <= m <= n ->
  skipn (Z.to_nat m) (firstn (Z.to_nat n) l) = firstn (Z.to_nat (n - m)) (skipn (Z.to_nat m) l).
Proof. intros. rewrite skipn_firstn_comm. f_equal. lia. Qed.
Lemma ztake_take {A} i j (l : list A) : 0 <= i <= j ->
  firstn (Z.to_nat i) (firstn (Z.to_nat j) l) = firstn (Z.to_nat i) l.
Proof. intros. rewrite firstn_firstn. f_equal. lia. Qed.

Lemma wbuf_scan_bounds : forall d ch acc, 0 <= acc -> acc <= wbuf_scan ch acc d <= acc + dsize d.
Proof.
  induction d as [|r t IH]; intros ch acc Ha; simpl.
  - unfold dsize, flat; simpl. change (zlen (@nil Z)) with 0. lia.
  - assert (D : dsize (r :: t) = zlen r + dsize t) by (unfold dsize, flat; simpl; now rewrite zlen_app).
    pose proof (zlen_nonneg r). pose proof (dsize_nonneg t).
    set (acc' := if (acc =? 0) || (acc + zlen r <=? ch) then acc + zlen r else acc).
    assert (A' : acc <= acc' <= acc + zlen r) by (unfold acc'; destruct (_ || _); lia).
    destruct (acc + zlen r <? ch).
    + specialize (IH ch acc' ltac:(lia)). lia.
    + lia.
Qed.

Definition WInv (sub : list Z) (o : op) : Prop :=
  o_write o = true /\ o_length o = zlen sub /\
  0 <= o_buf_len o <= o_total o /\ o_total o <= zlen sub /\
  flat (o_data o) = skipn (Z.to_nat (o_total o - o_buf_len o)) sub /\
  (o_hasbuf o = false -> o_buf_len o = 0) /\
  (o_hasbuf o = true -> o_buf o = firstn (Z.to_nat (o_buf_siz o)) (flat (o_data o)) /\
                        o_buf_len o <= o_buf_siz o <= dsize (o_data o)) /\
  0 <= o_high o.

(* what a write delivery reports: the unwritten remainder at the current position *)
Definition wcall_ok (sub : list Z) (tot : Z) (k : call) : Prop :=
  c_total k = tot /\ forall l, c_data k = Some l -> l = skipn (Z.to_nat tot) sub.

Lemma handler_calls_write fl forced d err tot sub :
  flat d = skipn (Z.to_nat tot) sub -> Forall (wcall_ok sub tot) (handler_calls true fl forced d err tot).
Proof.
  intros F. unfold handler_calls. cbn [negb andb].
  destruct (f_done fl); [destruct (err =? 0)|]; repeat constructor; cbn; intros l E; inversion E; subst; auto.
Qed.

Lemma unwritten_flat sub o : WInv sub o ->
  flat (dsub (o_data o) (o_buf_len o) (o_length o)) = skipn (Z.to_nat (o_total o)) sub.
Proof.
  intros (W & L & B & T & D & _). rewrite flat_dsub by (rewrite ?L; try apply zlen_nonneg; lia).
  rewrite D, zskip_skip by lia. replace (o_total o - o_buf_len o + o_buf_len o) with (o_total o) by lia.
  apply firstn_ge_all. rewrite L, zlen_skipn by lia. pose proof (zlen_nonneg sub). lia.
Qed.

Lemma deliver_write sub stp fl o o' cs : WInv sub o -> deliver_data stp fl o = (o', cs) ->
  WInv sub o' /\ o_total o' = o_total o /\ Forall (wcall_ok sub (o_total o)) cs /\
  (o_err o <> 0 -> o_err o' <> 0).
Proof.
  intros WI E. pose proof WI as (W & L & B & T & D & Hnb & Hb & Hhi).
  unfold deliver_data in E.
  set (und := o_undelivered o + o_buf_len o) in *.
  set (forced := f_deliver fl || f_done fl || o_flagd o) in *.
  assert (K : forall deliver err o1 err',
     (o1 = set_flagd o false \/ o1 = set_err (set_flagd o false) err) -> (o_err o <> 0 -> o_err o1 <> 0) ->
     (let '(d, o2) := dd_data deliver o1 in dd_finish fl forced deliver err' und d o2) = (o', cs) ->
     WInv sub o' /\ o_total o' = o_total o /\ Forall (wcall_ok sub (o_total o)) cs /\ (o_err o <> 0 -> o_err o' <> 0)).
  { intros deliver err o1 err' Ho1 He E1.
    assert (WI1 : WInv sub o1) by (destruct Ho1; subst; unfold WInv in *; cbn; auto 10).
    assert (F1 : o_write o1 = true /\ o_data o1 = o_data o /\ o_buf_len o1 = o_buf_len o /\ o_length o1 = o_length o /\
                 o_hasbuf o1 = o_hasbuf o /\ o_buf_siz o1 = o_buf_siz o /\ o_total o1 = o_total o)
      by (destruct Ho1; subst; cbn; auto 10).
    destruct F1 as (W1 & D1 & BL1 & L1 & HB1 & BS1 & T1).
    pose proof (unwritten_flat sub o WI) as U.
    unfold dd_data in E1. rewrite W1, D1, BL1, L1, HB1, BS1 in E1. cbn [negb] in E1.
    destruct (o_hasbuf o && (o_buf_len o =? o_buf_siz o)) eqn:Full.
    - apply andb_prop in Full. destruct Full as [HB Full]. apply Z.eqb_eq in Full.
      destruct (Hb HB) as [Bf [B1 B2]].
      assert (U2 : flat (dsub (o_data o) (o_buf_siz o) (o_length o)) = skipn (Z.to_nat (o_total o)) sub)
        by (rewrite <- Full; exact U).
      unfold dd_finish in E1.
      destruct deliver; cbn [negb orb] in E1.
      + destruct (f_noempty fl && _) in E1; inversion E1; subst o' cs; clear E1;
          (split; [unfold WInv; destruct Ho1; subst o1; cbn; rewrite U, Z.sub_0_r; repeat split; auto; try lia; discriminate|]);
          (split; [destruct Ho1; subst; cbn; auto|]); (split; [|destruct Ho1; subst; cbn in *; auto]); try constructor.
        assert (Wx : forall x, o_write (set_data (set_buf o1 false (o_buf_siz o) 0 []) x) = true) by (intros; cbn; auto).
        cbn [o_write set_data set_buf o_total]. rewrite W1, T1. now apply handler_calls_write.
      + inversion E1; subst o' cs; clear E1.
        split; [unfold WInv; destruct Ho1; subst o1; cbn; rewrite U2, Z.sub_0_r; repeat split; auto; try lia; discriminate|].
        split; [destruct Ho1; subst; cbn; auto|]. split; [constructor|destruct Ho1; subst; cbn in *; auto].
    - unfold dd_finish in E1.
      destruct deliver; cbn [negb orb] in E1.
      + destruct (f_noempty fl && _) in E1; inversion E1; subst o' cs; clear E1;
          (split; [unfold WInv in *; destruct Ho1; subst o1; cbn; auto 10|]);
          (split; [destruct Ho1; subst; cbn; auto|]); (split; [|destruct Ho1; subst; cbn in *; auto]); try constructor.
        cbn [o_write o_total]. rewrite W1, T1. now apply handler_calls_write.
      + inversion E1; subst o' cs; clear E1.
        split; [unfold WInv in *; destruct Ho1; subst o1; cbn; auto 10|].
        split; [destruct Ho1; subst; cbn; auto|]. split; [constructor|destruct Ho1; subst; cbn in *; auto]. }
  unfold dd_decide in E.
  destruct (negb forced).
  - cbn [o_low set_flagd o_buf_len o_buf_siz] in E.
    destruct (und >=? o_low o).
    + eapply (K true 0 (set_flagd o false)); eauto.
    + destruct (o_buf_len o <? o_buf_siz o).
      * inversion E; subst o' cs. split; [unfold WInv in *; cbn; auto 10|]. cbn. repeat split; auto; try constructor.
      * eapply (K false 0 (set_flagd o false)); eauto.
  - destruct ((o_err (set_flagd o false) =? 0) && stp).
    + eapply (K true ECANCELED (set_err (set_flagd o false) ECANCELED)); eauto. intros _. cbn. discriminate.
    + eapply (K true 0 (set_flagd o false)); eauto.
Qed.

Lemma WInv_set_err sub o e : WInv sub o -> WInv sub (set_err o e).
Proof. unfold WInv. cbn. auto. Qed.
Lemma WInv_set_flagd sub o b : WInv sub o -> WInv sub (set_flagd o b).
Proof. unfold WInv. cbn. auto. Qed.

Lemma alloc_write c sub o : WInv sub o -> 0 <= o_high o ->
  WInv sub (alloc_buf c o) /\ o_hasbuf (alloc_buf c o) = true /\ o_total (alloc_buf c o) = o_total o /\
  o_err (alloc_buf c o) = o_err o /\ o_buf_len (alloc_buf c o) = o_buf_len o.
Proof.
  intros WI Hh. pose proof WI as (W & L & B & T & D & Hnb & Hb & Hhi).
  unfold alloc_buf. destruct (o_hasbuf o) eqn:HB; [auto 10|].
  rewrite W. cbn [negb].
  set (ch := if chunk_size c >? o_high o then o_high o else chunk_size c).
  pose proof (wbuf_scan_bounds (o_data o) ch 0 ltac:(lia)) as WB.
  set (bs0 := wbuf_scan ch 0 (o_data o)) in *.
  set (bs := if bs0 >? o_high o then o_high o else bs0).
  assert (BS : 0 <= bs <= dsize (o_data o)) by (unfold bs; rewrite Z.gtb_ltb; destruct (Z.ltb_spec (o_high o) bs0); lia).
  pose proof (Hnb eq_refl) as BL0.
  unfold WInv. cbn. repeat split; auto; try lia.
  rewrite flat_dsub by lia. reflexivity.
Qed.

(* facts about the result code that the action table relies on (writes) *)
Definition RQ (o : op) (r : Z) : Prop :=
  (r = DISPATCH_OP_COMPLETE -> o_total o = o_length o \/ o_err o <> 0) /\
  (r = DISPATCH_OP_ERR \/ r = DISPATCH_OP_FD_ERR -> o_err o <> 0) /\
  r <> DISPATCH_OP_DELIVER_AND_COMPLETE /\ r <> DISPATCH_OP_COMPLETE_RESUME.

Ltac rq := unfold RQ; cbn; repeat split; auto;
  try solve [discriminate | let X := fresh in intro X; discriminate X | let X := fresh in intros [X|X]; discriminate X ].

Lemma perform_error_write sub o fd e o' r f : WInv sub o -> e <> 0 -> perform_error o fd e = (o', r, f) ->
  WInv sub o' /\ o_total o' = o_total o /\ RQ o' r /\ (o_err o <> 0 -> o_err o' <> 0).
Proof.
  intros WI He E. pose proof WI as (W & _). unfold perform_error in E. rewrite W in E. cbn [negb andb] in E.
  destruct (e =? EAGAIN).
  - inversion E; subst. split; auto. split; auto. split; auto. rq.
  - destruct (e =? ECANCELED); [|destruct (e =? EBADF)]; inversion E; subst;
      (split; [now apply WInv_set_err|]); (split; [reflexivity|]); (split; [rq|cbn; auto]).
Qed.

(* the kernel's side for writes: at most the requested length, never 0 for a non-zero length, errno <> 0 on failure *)
Definition wres_ok (c : cfg) (o : op) (rs : list sysres) : Prop :=
  match first_result rs with
  | Some (Got bs) => 0 < zlen bs <= req_len c o
  | Some (Fail e) => e <> 0
  | None => True
  end.

Lemma perform_write c sub cl stp fd o rs o' r f moved :
  WInv sub o -> 0 <= o_high o -> wres_ok c o rs ->
  perform c cl stp fd o rs = (o', r, f, moved) ->
  WInv sub o' /\ o_total o' = o_total o + zlen moved /\
  firstn (Z.to_nat (o_total o)) sub ++ moved = firstn (Z.to_nat (o_total o')) sub /\
  RQ o' r /\ (o_err o <> 0 -> o_err o' <> 0).
Proof.
  intros WI Hh Hok E. unfold perform in E.
  assert (NIL : forall t, firstn (Z.to_nat t) sub ++ [] = firstn (Z.to_nat (t + zlen (@nil Z))) sub)
    by (intros; change (zlen (@nil Z)) with 0; now rewrite app_nil_r, Z.add_0_r).
  destruct (Z.eqb_spec (get_error cl stp fd true) 0) as [GE|GE]; cbn [negb] in E.
  - destruct (alloc_write c sub o WI Hh) as (WA & HA & TA & EA & BLA).
    unfold wres_ok in Hok.
    destruct (first_result rs) as [[bs|e]|].
    + destruct Hok as [P1 P2]. destruct (Z.eqb_spec (zlen bs) 0); [lia|].
      pose proof WA as (W & L & B & T & D & Hnb & Hb & Hhi). destruct (Hb HA) as (Bf & B1 & B2).
      unfold req_len in P2.
      assert (TOT : o_total (alloc_buf c o) - o_buf_len (alloc_buf c o) + o_buf_siz (alloc_buf c o) <= zlen sub).
      { unfold dsize in B2. rewrite D, zlen_skipn in B2 by lia. lia. }
      rewrite W in E.
      set (o2 := set_total (set_buf (alloc_buf c o) (o_hasbuf (alloc_buf c o)) (o_buf_siz (alloc_buf c o))
                   (o_buf_len (alloc_buf c o) + zlen bs) (o_buf (alloc_buf c o))) (o_total (alloc_buf c o) + zlen bs)) in *.
      set (mv := firstn (Z.to_nat (zlen bs)) (skipn (Z.to_nat (o_buf_len (alloc_buf c o))) (o_buf (alloc_buf c o)))) in *.
      assert (MV : mv = firstn (Z.to_nat (zlen bs)) (skipn (Z.to_nat (o_total o)) sub)).
      { unfold mv. rewrite Bf, D, zskip_take by lia. rewrite ztake_take by lia. rewrite zskip_skip by lia.
        do 2 f_equal. lia. }
      assert (ZM : zlen mv = zlen bs).
      { rewrite MV, zlen_firstn, zlen_skipn by lia. lia. }
      assert (E' : o' = o2 /\ moved = mv /\ RQ o2 r).
      { cbn [o_total set_total o_length set_buf] in E.
        destruct (Z.eqb_spec (o_total (alloc_buf c o) + zlen bs) (o_length (alloc_buf c o))); inversion E; subst;
          (split; [reflexivity|split; [reflexivity|rq]]). }
      destruct E' as (-> & -> & Q).
      split; [unfold WInv, o2; cbn; rewrite HA; repeat split; auto; try lia; try discriminate;
              rewrite D; do 2 f_equal; lia|].
      split; [unfold o2; cbn; lia|]. split; [|split; [exact Q|unfold o2; cbn; congruence]].
      unfold o2; cbn [o_total set_total]. rewrite MV, TA, ztake_app_skip by lia. reflexivity.
    + destruct (perform_error (alloc_buf c o) fd e) as [[o1 r1] f1] eqn:PE. inversion E; subst.
      destruct (perform_error_write _ _ _ _ _ _ _ WA Hok PE) as (A1 & A2 & A3 & A4).
      rewrite A2, TA. split; auto. split; [change (zlen (@nil Z)) with 0; lia|]. split; [now rewrite app_nil_r|].
      split; auto. intros X. apply A4. congruence.
    + inversion E; subst. rewrite TA. split; auto. split; [change (zlen (@nil Z)) with 0; lia|]. split; [now rewrite app_nil_r|].
      split; [rq|congruence].
  - destruct (perform_error o fd _) as [[o1 r1] f1] eqn:PE. inversion E; subst.
    destruct (perform_error_write _ _ _ _ _ _ _ WI GE PE) as (A1 & A2 & A3 & A4).
    rewrite A2. split; auto. split; [change (zlen (@nil Z)) with 0; lia|]. split; [now rewrite app_nil_r|]. auto.
Qed.

Lemma WInv_high sub o : WInv sub o -> 0 <= o_high o.
Proof. intros (_ & _ & _ & _ & _ & _ & _ & H). exact H. Qed.

Lemma dd_data_write o1 d o2 : o_write o1 = true -> dd_data true o1 = (d, o2) ->
  d = dsub (o_data o1) (o_buf_len o1) (o_length o1) /\ o_write o2 = true /\ o_total o2 = o_total o1.
Proof.
  intros W E. unfold dd_data in E. rewrite W in E. cbn [negb] in E.
  destruct (_ && _) in E; inversion E; subst; cbn; auto.
Qed.

Lemma deliver_done_write sub stp o : WInv sub o ->
  let E := if (o_err o =? 0) && stp then ECANCELED else o_err o in
  exists pre k, snd (deliver_data stp FL_DONE o) = pre ++ [k] /\ c_done k = true /\ c_total k = o_total o /\
    c_err k = E /\ c_data k = if E =? 0 then None else Some (skipn (Z.to_nat (o_total o)) sub).
Proof.
  intros WI E. pose proof (unwritten_flat sub o WI) as U. pose proof WI as (W & _).
  unfold deliver_data. cbn [f_deliver f_done FL_DONE orb]. unfold dd_decide. cbn [negb o_err set_flagd].
  subst E.
  destruct ((o_err o =? 0) && stp);
    (destruct (dd_data true _) as [d o2] eqn:DD; apply dd_data_write in DD; [|cbn; exact W];
     destruct DD as (Dd & W2 & T2); cbn in Dd, T2;
     unfold dd_finish; cbn [negb orb f_noempty FL_DONE andb];
     match goal with |- context [handler_calls ?w FL_DONE ?f ?dd ?e ?t] =>
       destruct (handler_calls_done_err w FL_DONE f dd e t eq_refl) as (pre & k & EE & D & Er & Dk & Tk) end;
     exists pre, k; cbn [snd]; rewrite Dk by exact W2; rewrite Dd, U; repeat split; auto; congruence).
Qed.

Definition wcalls_ok (sub : list Z) (tot : Z) (cs : list call) : Prop :=
  Forall (fun k => wcall_ok sub (c_total k) k /\ 0 <= c_total k <= tot) cs.

Definition WFin (sub : list Z) (s : st) : Prop :=
  exists pre k, s_calls s = pre ++ [k] /\ c_done k = true /\ c_total k = o_total (s_op s) /\
    ((c_err k <> 0 /\ c_data k = Some (skipn (Z.to_nat (o_total (s_op s))) sub)) \/
     (c_err k = 0 /\ c_data k = None /\ o_total (s_op s) = zlen sub)).

Definition WB (sub : list Z) (o : op) (calls : list call) (io : list Z) : Prop :=
  WInv sub o /\ io = firstn (Z.to_nat (o_total o)) sub /\ wcalls_ok sub (o_total o) calls.

Definition WS (sub : list Z) (s : st) : Prop :=
  WB sub (s_op s) (s_calls s) (s_io s) /\
  match s_phase s with Performed r => RQ (s_op s) r | Completed => WFin sub s | _ => True end.

Lemma wcalls_new sub tot cs : 0 <= tot -> Forall (wcall_ok sub tot) cs -> wcalls_ok sub tot cs.
Proof.
  intros Ht H. unfold wcalls_ok. eapply Forall_impl; [|exact H]. cbn. intros k (A & B).
  unfold wcall_ok. rewrite A. repeat split; auto; lia.
Qed.

Lemma WB_deliver sub stp fl o calls io o' cs : WB sub o calls io -> deliver_data stp fl o = (o', cs) ->
  WB sub o' (calls ++ cs) io /\ o_total o' = o_total o /\ (o_err o <> 0 -> o_err o' <> 0) /\ o_length o' = o_length o.
Proof.
  intros (WI & IO & CS) E.
  destruct (deliver_write _ _ _ _ _ _ WI E) as (WI' & T' & C' & E').
  pose proof WI as (_ & L & B & _). pose proof WI' as (_ & L' & _).
  split; [|repeat split; auto; congruence].
  unfold WB. rewrite T'. split; [exact WI'|]. split; [exact IO|].
  apply Forall_app. split; auto. apply wcalls_new; auto. lia.
Qed.

Lemma RQ_keep o o' r : RQ o r -> o_total o' = o_total o -> o_length o' = o_length o -> (o_err o <> 0 -> o_err o' <> 0) ->
  RQ o' r.
Proof.
  intros (A & B & C & D) T L E. unfold RQ. rewrite T, L. repeat split; auto.
  intros X. destruct (A X); auto.
Qed.

Lemma WS_with_deliver sub s fl ph : WS sub s -> s_phase s <> Completed ->
  (match ph with Performed r => s_phase s = Performed r | Completed => False | _ => True end) ->
  WS sub (with_deliver s fl ph).
Proof.
  intros (B & P) NC Hph. unfold with_deliver. destruct (deliver_data _ _ _) as [o cs] eqn:E.
  destruct (WB_deliver _ _ _ _ _ _ _ _ B E) as (B' & T & Er & L).
  unfold WS. cbn. split; auto.
  destruct ph; auto; try contradiction. rewrite Hph in P. eapply RQ_keep; eauto.
Qed.

Lemma WS_complete sub s : WB sub (s_op s) (s_calls s) (s_io s) ->
  (o_total (s_op s) = o_length (s_op s) \/ o_err (s_op s) <> 0 \/ s_stopped s = true) ->
  WS sub (complete s).
Proof.
  intros B Cond. unfold complete. destruct (deliver_data _ _ _) as [o cs] eqn:E.
  destruct (WB_deliver _ _ _ _ _ _ _ _ B E) as (B' & T & Er & L).
  unfold WS. cbn. split; auto.
  destruct B as (WI & _). pose proof WI as (_ & Len & _).
  destruct (deliver_done_write sub (s_stopped s) (s_op s) WI) as (pre & k & Ek & Dk & Tk & Erk & Dak).
  rewrite E in Ek. cbn in Ek. subst cs.
  unfold WFin. cbn. exists (s_calls s ++ pre), k. rewrite app_assoc. rewrite T.
  repeat split; auto.
  cbv zeta in Erk, Dak. rewrite <- Erk in Dak.
  destruct (Z.eqb_spec (c_err k) 0) as [Z0|Z0].
  - right. repeat split; auto. rewrite <- Len.
    rewrite Erk in Z0. destruct ((o_err (s_op s) =? 0) && s_stopped s) eqn:C1; [discriminate|].
    destruct Cond as [C|[C|C]]; auto; [congruence|].
    rewrite C, andb_true_r in C1. apply Z.eqb_neq in C1. congruence.
  - left. split; auto.
Qed.

Definition wresult_ok (c : cfg) (s : st) (e : event) : Prop :=
  match e, s_phase s with
  | EvPerform rs, Picked => wres_ok c (s_op s) rs
  | EvFdErr x, _ => x <> 0
  | _, _ => True
  end.
Fixpoint wrun_ok (c : cfg) (s : st) (evs : list event) : Prop :=
  match evs with [] => True | e :: t => wresult_ok c s e /\ wrun_ok c (step c s e) t end.

Lemma WB_set_err sub o calls io e : WB sub o calls io -> WB sub (set_err o e) calls io.
Proof. intros (A & B & C). unfold WB. split; [now apply WInv_set_err|]. cbn. auto. Qed.
Lemma WB_set_flagd sub o calls io b : WB sub o calls io -> WB sub (set_flagd o b) calls io.
Proof. intros (A & B & C). unfold WB. split; [now apply WInv_set_flagd|]. cbn. auto. Qed.

Lemma WS_phase sub s ph : WS sub s -> s_phase s <> Completed ->
  (match ph with Performed r => RQ (s_op s) r | Completed => False | _ => True end) -> WS sub (set_phase s ph).
Proof. intros (B & _) _ H. unfold WS. cbn. split; auto. destruct ph; auto; contradiction. Qed.

Lemma step_WS c sub s e : WS sub s -> wresult_ok c s e -> WS sub (step c s e).
Proof.
  intros H Hok. pose proof H as (B & P).
  destruct e; cbn [step]; try exact H.
  - (* Check *) destruct (s_phase s) eqn:Ph; try exact H.
    destruct (Z.eqb_spec (get_error (s_closed s) (s_stopped s) (s_fderr s) true) 0) as [G|G]; cbn [negb].
    + destruct (_ && _).
      * apply WS_with_deliver; auto; rewrite Ph; auto; discriminate.
      * apply WS_phase; auto; rewrite Ph; auto; discriminate.
    + apply WS_complete; cbn; [now apply WB_set_err|auto].
  - (* Perform *) destruct (s_phase s) eqn:Ph; try exact H.
    unfold wresult_ok in Hok. rewrite Ph in Hok.
    destruct (perform _ _ _ _ _ _) as [[[o r] f] moved] eqn:E.
    destruct B as (WI & IO & CS).
    destruct (perform_write _ _ _ _ _ _ _ _ _ _ _ WI (WInv_high _ _ WI) Hok E) as (WI' & T' & IO' & Q & _).
    unfold WS, WB. cbn. split; [|exact Q]. split; [exact WI'|]. split; [rewrite IO, IO'; reflexivity|].
    pose proof (zlen_nonneg moved).
    eapply Forall_impl; [|exact CS]. cbn. intros k (A1 & A2). split; auto. lia.
  - (* Act *) destruct (s_phase s) eqn:Ph; try exact H.
    destruct P as (Q1 & Q2 & Q3 & Q4).
    destruct (Z.eqb_spec result DISPATCH_OP_DELIVER); [apply WS_with_deliver; auto; rewrite Ph; discriminate|].
    destruct (Z.eqb_spec result DISPATCH_OP_DELIVER_AND_COMPLETE); [contradiction|].
    destruct (Z.eqb_spec result DISPATCH_OP_COMPLETE); [apply WS_complete; auto; destruct (Q1 e); auto|].
    destruct (Z.eqb_spec result DISPATCH_OP_COMPLETE_RESUME); [contradiction|].
    destruct (Z.eqb_spec result DISPATCH_OP_RESUME); [apply WS_phase; auto; rewrite Ph; discriminate|].
    destruct (Z.eqb_spec result DISPATCH_OP_ERR); [apply WS_complete; auto|].
    destruct (Z.eqb_spec result DISPATCH_OP_FD_ERR).
    + destruct (o_disk (s_op s)); [apply WS_complete; auto | apply WS_phase; auto; rewrite Ph; discriminate].
    + apply WS_phase; auto; rewrite Ph; discriminate.
  - (* Timer *) destruct (s_phase s) eqn:Ph; try exact H;
    (destruct (negb _); [exact H|]);
    (destruct (_ && _);
      [unfold WS; cbn; rewrite ?Ph; (split; [now apply WB_set_flagd|]); try exact I; try (unfold RQ in *; cbn; exact P)
      |apply WS_with_deliver; auto; rewrite Ph; auto; discriminate]).
  - (* Cleanup *) destruct (s_phase s) eqn:Ph; try exact H;
    (destruct (is_active s); [exact H|]);
    (destruct fd_wide;
      [destruct (Z.eqb_spec (s_fderr s) 0); [exact H|];
       apply WS_complete; cbn;
         [destruct (Z.eqb_spec (o_err (s_op s)) 0); [now apply WB_set_err|exact B]
         |destruct (Z.eqb_spec (o_err (s_op s)) 0); cbn; auto]
      |destruct (s_stopped s) eqn:St; [apply WS_complete; auto|exact H]]).
Qed.

Lemma run_WS c sub evs : forall s, WS sub s -> wrun_ok c s evs -> WS sub (run c s evs).
Proof.
  induction evs as [|e t IH]; intros s H Hok; simpl; auto.
  destruct Hok as [H1 H2]. apply IH; auto. apply step_WS; auto.
Qed.

Lemma WS_init disk conv d p iv strict : 0 <= p_high p ->
  WS (flat d) (st_init (op_init true disk conv (zlen (flat d)) d p iv strict)).
Proof.
  intros Hh. unfold WS, WB, WInv, wcalls_ok, st_init, op_init. cbn.
  pose proof (zlen_nonneg (flat d)).
  repeat split; auto; try lia; try discriminate; constructor.
Qed.

(* the property's write clause, for every sequence of write() results and every placement of close/stop/timer/cleanup:
   (1) the bytes the descriptor accepted are, in order, a prefix of the submitted data;
   (2) every handler invocation that carries data reports exactly the remainder after the bytes accepted at that moment,
       which never exceeds what has been accepted since (a progress report never claims more than was written);
   (3) a completed operation's last invocation has done; accepted bytes ++ its data = submitted data; with error 0 the
       data is NULL and everything was accepted, with an error the data is exactly the unwritten remainder *)
Theorem write_conservation : forall c disk conv d p iv strict evs,
  0 <= p_high p ->
  let sub := flat d in
  let s0 := st_init (op_init true disk conv (zlen sub) d p iv strict) in
  wrun_ok c s0 evs ->
  let s := run c s0 evs in
  s_io s = firstn (Z.to_nat (zlen (s_io s))) sub /\
  Forall (fun k => 0 <= c_total k <= zlen (s_io s) /\
                   forall l, c_data k = Some l -> firstn (Z.to_nat (c_total k)) sub ++ l = sub) (s_calls s) /\
  (s_phase s = Completed ->
     exists pre k, s_calls s = pre ++ [k] /\ c_done k = true /\ s_io s ++ cbytes k = sub /\
       (c_err k = 0 -> c_data k = None /\ s_io s = sub) /\
       (c_err k <> 0 -> c_data k = Some (skipn (Z.to_nat (zlen (s_io s))) sub))).
Proof.
  intros c disk conv d p iv strict evs Hh sub s0 Hok s.
  assert (W : WS sub s) by (apply run_WS; auto; now apply WS_init).
  destruct W as ((WI & IO & CS) & P). pose proof WI as (_ & L & B & T & _).
  assert (ZIO : zlen (s_io s) = o_total (s_op s)).
  { rewrite IO, zlen_firstn by lia. lia. }
  rewrite ZIO. split; [exact IO|]. split.
  - eapply Forall_impl; [|exact CS]. cbn. intros k ((A1 & A2) & A3). split; auto.
    intros l El. rewrite (A2 l El). apply firstn_skipn.
  - intros Ph. rewrite Ph in P. destruct P as (pre & k & Ec & Dk & Tk & Hk). exists pre, k.
    split; auto. split; auto.
    destruct Hk as [(E1 & E2)|(E1 & E2 & E3)].
    + unfold cbytes. rewrite E2, IO. split; [apply firstn_skipn|]. split; [congruence|auto].
    + assert (FULL : s_io s = sub) by (rewrite IO, E3; apply firstn_ge_all; lia).
      unfold cbytes. rewrite E2, app_nil_r. split; auto. split; [auto|congruence].
Qed.

(* ================================================================== dispatch_io_barrier *)
Definition bsub_ok (s : bst) (e : bevent) : Prop :=
  match e with BSubmit i => ~ In i (b_sub s) | _ => True end.      (* submitted blocks are distinct objects *)
Fixpoint brun_ok (a : bool) (s : bst) (evs : list bevent) : Prop :=
  match evs with [] => True | e :: t => bsub_ok s e /\ brun_ok a (bstep a s e) t end.

Definition BI (s : bst) : Prop :=
  NoDup (b_sub s) /\
  (forall op, In (LEnq op) (b_log s) -> In (IEnq op) (b_exec s)) /\
  (forall op, In (IEnq op) (b_exec s) -> In op (b_out s) \/ In (LDone op) (b_log s)) /\
  ((b_wake s <= 1)%nat /\ (b_wake s = 1%nat -> b_out s = [] /\ b_notifs s <> [] /\ b_fired s = [])) /\
  (length (b_notifs s ++ b_fired s) = b_susp s /\ (b_susp s <= 1)%nat) /\
  (forall id, In id (b_notifs s ++ b_fired s) -> exists pre, b_exec s = pre ++ [IBar id]) /\
  (b_fired s <> [] -> b_out s = []).

Lemma zmem_In x l : zmem x l = true <-> In x l.
Proof.
  induction l as [|h t IH]; cbn; [split; [discriminate|contradiction]|].
  rewrite orb_true_iff, IH, Z.eqb_eq. tauto.
Qed.
Lemma zremove_other x y l : In x l -> x <> y -> In x (zremove y l).
Proof.
  induction l as [|h t IH]; cbn; auto. intros [->|H] N.
  - destruct (Z.eqb_spec x y); [contradiction|now left].
  - destruct (Z.eqb_spec h y); auto. right. auto.
Qed.

Lemma step_BI a s e : BI s -> bsub_ok s e -> BI (bstep a s e).
Proof.
  intros I Hok. pose proof I as (ND & L1 & L2 & (W1 & W2) & (P1 & P2) & P3 & F).
  destruct e as [i| |op| |id]; cbn [bstep].
  - (* submit *) unfold BI, b_sub in *. cbn. repeat split; auto; try (apply W2; auto).
    rewrite app_assoc. apply NoDup_snoc; auto.
  - (* the barrier queue runs a block *)
    destruct (b_susp s) eqn:S; [|exact I].
    destruct (b_notifs s) as [|n0 nt] eqn:N; [|cbn in P1; discriminate].
    destruct (b_fired s) as [|f0 ft] eqn:Fi; [|cbn in P1; discriminate].
    assert (Wz : b_wake s = 0%nat).
    { destruct (b_wake s) as [|[|w]] eqn:E; auto; [|lia]. destruct (W2 eq_refl) as (_ & X & _). now contradiction X. }
    destruct (b_q s) as [|[op|id] rest] eqn:Q.
    + exact I.
    + unfold BI, b_sub in *. cbn. rewrite Q in ND. rewrite Wz. repeat split; auto; try lia; try discriminate;
        try (now rewrite <- app_assoc); try (intros ? []; fail); try (intros X; now contradiction X).
      * intros o H. apply in_app_or in H. apply in_or_app. destruct H as [H|[H|[]]]; [left; auto|inversion H; subst; right; now left].
      * intros o H. apply in_app_or in H. destruct H as [H|[H|[]]].
        -- destruct (L2 o H); [left; apply in_or_app; now left | right; apply in_or_app; now left].
        -- inversion H; subst. left. apply in_or_app. right. now left.
    + unfold BI, b_sub in *. rewrite Q in ND.
      destruct (b_out s) as [|o0 ot] eqn:O; cbn; rewrite ?Wz; cbn; repeat split; auto; try lia; try discriminate;
        try (now rewrite <- app_assoc);
        try (intros o H; apply in_or_app; left; auto; fail);
        try (intros o H; apply in_app_or in H; destruct H as [H|[H|[]]]; [rewrite ?O in *; now apply L2|discriminate]);
        try (intros x [<-|[]]; eauto);
        try (intros X; now contradiction X).
  - (* dispatch_group_leave *)
    destruct (zmem op (b_out s)) eqn:M; [|exact I].
    apply zmem_In in M.
    assert (Fi : b_fired s = []).
    { destruct (b_fired s) eqn:E; auto. rewrite F in M by discriminate. contradiction. }
    assert (Wz : b_wake s = 0%nat).
    { destruct (b_wake s) as [|[|w]] eqn:E; auto; [|lia]. destruct (W2 eq_refl) as (X & _). rewrite X in M. contradiction. }
    assert (K : forall o, In (IEnq o) (b_exec s) -> In o (zremove op (b_out s)) \/ In (LDone o) (b_log s ++ [LDone op])).
    { intros o H. destruct (L2 o H) as [H1|H1].
      - destruct (Z.eq_dec o op) as [->|NE]; [right; apply in_or_app; right; now left|left; now apply zremove_other].
      - right. apply in_or_app. now left. }
    assert (L1' : forall o, In (LEnq o) (b_log s ++ [LDone op]) -> In (IEnq o) (b_exec s)).
    { intros o H. apply in_app_or in H. destruct H as [H|[H|[]]]; auto. discriminate. }
    destruct (zremove op (b_out s)) as [|r0 rt] eqn:R.
    + assert (K0 : forall o, In (IEnq o) (b_exec s) -> In o [] \/ In (LDone o) (b_log s ++ [LDone op])) by exact K.
      destruct a; [|destruct (b_notifs s) as [|n0 nt] eqn:N];
        unfold BI, b_sub in *; cbn; rewrite ?Fi, ?Wz in *; cbn; rewrite ?app_nil_r in *;
        (repeat split; auto; try lia; try discriminate; try (intros X; now contradiction X)).
    + unfold BI, b_sub in *. cbn. rewrite Fi, Wz in *. repeat split; auto; try lia; try discriminate;
        try (intros X; now contradiction X).
  - (* the detaching step of a leave that observed zero *)
    destruct (b_wake s) as [|w] eqn:E; [exact I|].
    assert (w = 0%nat) by lia. subst w.
    destruct (W2 eq_refl) as (O & Nn & Fi).
    unfold BI, b_sub in *. cbn. rewrite Fi, O in *. cbn in *. rewrite app_nil_r in *.
    repeat split; auto; try lia; try discriminate.
  - (* the barrier block *)
    destruct (zmem id (b_fired s)) eqn:M; [|exact I].
    apply zmem_In in M.
    assert (Wz : b_wake s = 0%nat).
    { destruct (b_wake s) as [|[|w]] eqn:E; auto; [|lia]. destruct (W2 eq_refl) as (_ & _ & X). rewrite X in M. contradiction. }
    assert (Sh : b_notifs s = [] /\ b_fired s = [id] /\ b_susp s = 1%nat).
    { destruct (b_notifs s) as [|n0 nt]; destruct (b_fired s) as [|f0 ft]; cbn in *; try contradiction.
      - destruct ft; cbn in *; [|lia]. destruct M as [->|[]]. auto.
      - rewrite app_length in P1. cbn in P1. lia. }
    destruct Sh as (N & Fi & S).
    unfold BI, b_sub in *. cbn. rewrite N, Fi, S, Wz in *. cbn. rewrite Z.eqb_refl. cbn. repeat split; auto; try lia;
      try discriminate; try (intros ? []; fail); try (intros X; now contradiction X).
    + intros o H. apply in_app_or in H. destruct H as [H|[H|[]]]; auto. discriminate.
    + intros o H. destruct (L2 o H); auto. right. apply in_or_app. now left.
Qed.

Lemma run_BI a evs : forall s, BI s -> brun_ok a s evs -> BI (brun a s evs).
Proof. induction evs as [|e t IH]; intros s I H; simpl; auto. destruct H. apply IH; auto. now apply step_BI. Qed.
Lemma BI_init : BI b_init.
Proof.
  unfold BI, b_init, b_sub. cbn. repeat split; auto; try constructor; try contradiction; try discriminate;
    intros; contradiction.
Qed.

Lemma NoDup_app_disj {A} (a b : list A) x : NoDup (a ++ b) -> In x a -> In x b -> False.
Proof.
  induction a as [|h t IH]; cbn; [contradiction|]. intros ND [->|Ha] Hb; inversion ND; subst.
  - apply H1. apply in_or_app. now right.
  - eauto.
Qed.

(* the barrier clause, for the group as coded (a = false: the leave that observed zero with HAS_NOTIFS detaches the
   notify list in a later step) and for the ideal group (a = true), for every interleaving of submissions, barrier
   queue steps, operation completions and block executions: in every reachable state in which a barrier block has been
   submitted (it runs at the next BBlock, which appends LBar to the log) every operation submitted before the barrier has
   been enqueued AND disposed (its LDone, hence all of its I/O, is already in the log), and nothing submitted after the
   barrier has even been enqueued (no LEnq, hence no I/O).  Queue facts used as the semantics of the model: the channel
   queue and the barrier queue are FIFO (C02), a suspended queue runs nothing until resumed (C06); group facts used:
   enter/leave count outstanding operations and dispatch_group_notify submits at once at count zero (C07_value_is_
   outstanding, C07_notify_exactly_once); C07's notify-early race needs an enter between a leave's add and its detach,
   which cannot happen here because every enter runs on the barrier queue that the registered barrier keeps suspended *)
Theorem barrier_between : forall a evs id,
  brun_ok a b_init evs ->
  let s := brun a b_init evs in
  In id (b_fired s) ->
  exists pre, b_sub s = pre ++ [IBar id] ++ b_q s /\
    (forall op, In (IEnq op) pre -> In (LDone op) (b_log s)) /\
    (forall op, In (IEnq op) (b_q s) -> ~ In (LEnq op) (b_log s)) /\
    b_out s = [].
Proof.
  intros a evs id Hok s Hf.
  assert (I : BI s) by (apply run_BI; auto; apply BI_init).
  destruct I as (ND & L1 & L2 & W & (P1 & P2) & P3 & F).
  assert (O : b_out s = []) by (apply F; intros X; rewrite X in Hf; contradiction).
  destruct (P3 id) as [pre E]; [apply in_or_app; now right|].
  exists pre. unfold b_sub in *. rewrite E in *. rewrite <- app_assoc.
  split; [reflexivity|]. split; [|split; [|exact O]].
  - intros op H. destruct (L2 op) as [H1|H1]; auto.
    + apply in_or_app. now left.
    + rewrite O in H1. contradiction.
  - intros op H X. apply L1 in X. eapply NoDup_app_disj; eauto.
Qed.

(* a registered barrier is eventually submitted: when the last outstanding operation leaves, the notification is
   submitted at that step (ideal group) or a detaching step is pending (group as coded); nothing else can run meanwhile *)
Theorem barrier_not_stranded : forall a evs,
  brun_ok a b_init evs ->
  let s := brun a b_init evs in
  b_notifs s <> [] -> b_out s <> [] \/ b_wake s = 1%nat.
Proof.
  intros a evs Hok s Hn. destruct (b_out s) eqn:O; [|left; discriminate]. right.
  revert s Hn O. 
  assert (G : forall evs s0, BI s0 -> (b_notifs s0 <> [] -> b_out s0 = [] -> b_wake s0 = 1%nat) -> brun_ok a s0 evs ->
              let s := brun a s0 evs in b_notifs s <> [] -> b_out s = [] -> b_wake s = 1%nat).
  { clear. induction evs as [|e t IH]; intros s0 I H0 Hok; cbn; auto.
    destruct Hok as [Ok1 Ok2]. apply IH; auto; [now apply step_BI|].
    pose proof I as (ND & L1 & L2 & (W1 & W2) & (P1 & P2) & P3 & F).
    destruct e as [i| |op| |id]; cbn [bstep]; auto.
    - destruct (b_susp s0) eqn:S; auto.
      destruct (b_notifs s0) as [|n0 nt] eqn:N; [|cbn in P1; discriminate].
      destruct (b_q s0) as [|[op|id] rest]; auto.
      destruct (b_out s0) eqn:O; cbn; rewrite ?N; cbn; [intros X; now contradiction X|discriminate].
    - destruct (zmem op (b_out s0)) eqn:M; auto.
      destruct (zremove op (b_out s0)) eqn:R; [|cbn; discriminate].
      destruct a; cbn; [intros X; now contradiction X|].
      destruct (b_notifs s0) eqn:N; cbn; [intros X; now contradiction X|].
      intros _ _. assert (Wz : b_wake s0 = 0%nat).
      { apply zmem_In in M. destruct (b_wake s0) as [|[|w]] eqn:E; auto; [|lia]. destruct (W2 eq_refl) as (X & _). rewrite X in M. contradiction. }
      now rewrite Wz.
    - destruct (b_wake s0) eqn:E; [intros A B; specialize (H0 A B); congruence|]. cbn. intros X. now contradiction X.
    - destruct (zmem id (b_fired s0)) eqn:M; auto. }
  intros s Hn O. apply (G evs b_init); auto. apply BI_init. intros X. now contradiction X.
Qed.

(* the log only grows, so what holds when the barrier block is submitted still holds when it runs *)
Lemma bstep_log_prefix a s e : exists l, b_log (bstep a s e) = b_log s ++ l.
Proof.
  destruct e; cbn [bstep].
  - exists []. cbn. now rewrite app_nil_r.
  - destruct (b_susp s); [|exists []; now rewrite app_nil_r].
    destruct (b_q s) as [|[op|id] rest]; [exists []; now rewrite app_nil_r|eexists; reflexivity|].
    destruct (b_out s); exists []; cbn; now rewrite app_nil_r.
  - destruct (zmem op (b_out s)); [|exists []; now rewrite app_nil_r].
    destruct (zremove op (b_out s)); [destruct a; [|destruct (b_notifs s)]|]; eexists; reflexivity.
  - destruct (b_wake s); exists []; cbn; now rewrite app_nil_r.
  - destruct (zmem id (b_fired s)); [eexists; reflexivity|exists []; now rewrite app_nil_r].
Qed.



(* ------------------------------------------------------------------ the barrier block RUNS between
   (statement on the log of what has happened, not on the state in which the block is pending) *)
Definition LInv (s : bst) : Prop :=
  forall l1 l2 id, b_log s = l1 ++ LBar id :: l2 ->
    exists pre post, b_sub s = pre ++ IBar id :: post /\
      (forall op, In (IEnq op) pre -> In (LDone op) l1) /\
      (forall op, In (IEnq op) post -> ~ In (LEnq op) l1).

Lemma snoc_split {A} (l l1 l2 : list A) x y : l ++ [x] = l1 ++ y :: l2 ->
  (l2 = [] /\ x = y /\ l1 = l) \/ (exists l2', l2 = l2' ++ [x] /\ l = l1 ++ y :: l2').
Proof.
  intros E. destruct l2 as [|z t].
  - apply app_inj_tail in E. destruct E as [-> ->]. left. auto.
  - right. destruct (@exists_last _ (z :: t)) as (l2' & w & E2); [discriminate|]. rewrite E2 in *.
    change (l1 ++ y :: l2' ++ [w]) with (l1 ++ (y :: l2') ++ [w]) in E. rewrite app_assoc in E.
    apply app_inj_tail in E. destruct E as [-> ->]. exists l2'. auto.
Qed.

Lemma LInv_log_same s s' : LInv s -> b_log s' = b_log s -> (exists extra, b_sub s' = b_sub s ++ extra /\
    forall op, In (IEnq op) extra -> ~ In (LEnq op) (b_log s)) -> LInv s'.
Proof.
  intros L E (extra & Es & Hx) l1 l2 id Hl. rewrite E in Hl.
  destruct (L l1 l2 id Hl) as (pre & post & S & A & B).
  exists pre, (post ++ extra). rewrite Es, S, <- app_assoc. cbn. split; auto. split; auto.
  intros op H X. apply in_app_or in H. destruct H as [H|H]; [now apply (B op)|].
  apply (Hx op H). rewrite Hl. apply in_or_app. now left.
Qed.

Lemma step_LInv a s e : BI s -> LInv s -> bsub_ok s e -> LInv (bstep a s e).
Proof.
  intros I L Hok. pose proof I as (ND & L1 & L2 & (W1 & W2) & (P1 & P2) & P3 & F).
  (* appending a non-barrier entry to the log, submissions unchanged *)
  assert (APP : forall s' x, b_log s' = b_log s ++ [x] -> (forall id, x <> LBar id) -> b_sub s' = b_sub s -> LInv s').
  { intros s' x El Nx Es l1 l2 id Hl. rewrite El in Hl.
    destruct (snoc_split _ _ _ _ _ Hl) as [(_ & X & _)|(l2' & -> & Hl')]; [exfalso; eapply Nx; eauto|].
    destruct (L l1 l2' id Hl') as (pre & post & S & A & B). exists pre, post. rewrite Es. auto. }
  destruct e as [i| |op| |id]; cbn [bstep].
  - (* submit: the new block is behind everything; it has not been enqueued *)
    apply (LInv_log_same s); auto. exists [i]. unfold b_sub. cbn. rewrite app_assoc. split; auto.
    intros op [->|[]] X. apply Hok. unfold b_sub. apply in_or_app. left. now apply L1.
  - destruct (b_susp s) eqn:S; [|exact L].
    destruct (b_q s) as [|[op|id] rest] eqn:Q; [exact L| |].
    + apply (APP _ (LEnq op)); auto; [discriminate|]. unfold b_sub. cbn. rewrite Q, <- app_assoc. reflexivity.
    + destruct (b_out s); (apply (LInv_log_same s); auto; exists []; unfold b_sub; cbn; rewrite Q, <- app_assoc, app_nil_r;
        split; auto; intros ? []).
  - destruct (zmem op (b_out s)) eqn:M; [|exact L].
    destruct (zremove op (b_out s)); [destruct a; [|destruct (b_notifs s)]|];
      (apply (APP _ (LDone op)); auto; discriminate).
  - destruct (b_wake s); [exact L|]. apply (LInv_log_same s); auto. exists []. unfold b_sub. cbn. rewrite app_nil_r.
    split; auto; try (intros ? []).
  - (* the barrier block runs: the facts of barrier_between hold in this very state *)
    destruct (zmem id (b_fired s)) eqn:M; [|exact L].
    apply zmem_In in M. intros l1 l2 id' Hl. cbn in Hl.
    destruct (snoc_split _ _ _ _ _ Hl) as [(-> & X & ->)|(l2' & -> & Hl')].
    + inversion X; subst id'. 
      assert (O : b_out s = []) by (apply F; intros Y; rewrite Y in M; contradiction).
      destruct (P3 id) as [pre E]; [apply in_or_app; now right|].
      exists pre, (b_q s). unfold b_sub in *. cbn. rewrite E, <- app_assoc. split; [reflexivity|]. split.
      * intros op H. destruct (L2 op) as [H1|H1]; auto.
        -- rewrite E. apply in_or_app. now left.
        -- rewrite O in H1. contradiction.
      * intros op H Y. apply L1 in Y. rewrite E in ND. eapply NoDup_app_disj; eauto. now rewrite <- E.
    + destruct (L l1 l2' id' Hl') as (pre & post & S & A & B). exists pre, post. unfold b_sub in *. cbn. auto.
Qed.

Lemma run_BI_LInv a evs : forall s, BI s -> LInv s -> brun_ok a s evs -> BI (brun a s evs) /\ LInv (brun a s evs).
Proof.
  induction evs as [|e t IH]; intros s I L H; simpl; auto. destruct H.
  apply IH; auto; [now apply step_BI|now apply step_LInv].
Qed.

(* for every run and every barrier that HAS RUN (its LBar is in the log): every operation submitted before the barrier
   was disposed (LDone: dispatch_group_leave in _dispatch_operation_dispose: all of its I/O is over and its final handler
   invocation has been submitted to its queue) before the barrier block ran, and no operation submitted after it was
   enqueued (LEnq: dispatch_group_enter in _dispatch_operation_enqueue, before which it performs no I/O) before that *)
Theorem barrier_runs_between : forall a evs l1 l2 id,
  brun_ok a b_init evs ->
  let s := brun a b_init evs in
  b_log s = l1 ++ LBar id :: l2 ->
  exists pre post, b_sub s = pre ++ IBar id :: post /\
    (forall op, In (IEnq op) pre -> In (LDone op) l1) /\
    (forall op, In (IEnq op) post -> ~ In (LEnq op) l1).
Proof.
  intros a evs l1 l2 id Hok s Hl.
  assert (L : LInv s).
  { apply (run_BI_LInv a evs b_init); auto. apply BI_init. intros x y z E. cbn in E. destruct x; discriminate. }
  exact (L l1 l2 id Hl).
Qed.

(* ================================================================== no stuck state, progress *)
(* what deliver_data does to the buffer, whatever the flags and the direction: a buffer that survives is untouched and
   has room left *)
Lemma deliver_buf stp fl o :
  (o_hasbuf o = true -> 0 <= o_buf_len o <= o_buf_siz o /\ 1 <= o_buf_siz o) ->
  (o_hasbuf o = false -> o_buf_len o = 0) ->
  let o' := fst (deliver_data stp fl o) in
  (o_hasbuf o' = true -> o_hasbuf o = true /\ o_buf_siz o' = o_buf_siz o /\ o_buf_len o' = o_buf_len o /\
                         o_buf_len o' < o_buf_siz o') /\
  (o_hasbuf o' = false -> o_buf_len o' = 0).
Proof.
  intros H1 H2. unfold deliver_data.
  set (und := o_undelivered o + o_buf_len o). set (forced := f_deliver fl || f_done fl || o_flagd o).
  assert (K : forall deliver err o1 err', (o1 = set_flagd o false \/ o1 = set_err (set_flagd o false) err) ->
     let o' := fst (let '(d, o2) := dd_data deliver o1 in dd_finish fl forced deliver err' und d o2) in
     (o_hasbuf o' = true -> o_hasbuf o = true /\ o_buf_siz o' = o_buf_siz o /\ o_buf_len o' = o_buf_len o /\
                            o_buf_len o' < o_buf_siz o') /\ (o_hasbuf o' = false -> o_buf_len o' = 0)).
  { intros deliver err o1 err' Ho1.
    assert (E : o_hasbuf o1 = o_hasbuf o /\ o_buf_len o1 = o_buf_len o /\ o_buf_siz o1 = o_buf_siz o)
      by (destruct Ho1; subst; cbn; auto).
    destruct E as (E1 & E2 & E3).
    unfold dd_data. destruct (o_write o1); cbn [negb].
    - destruct (o_hasbuf o1 && (o_buf_len o1 =? o_buf_siz o1)) eqn:Full.
      + unfold dd_finish. destruct (negb deliver || _); cbn; split; auto; discriminate.
      + unfold dd_finish. rewrite E1, E2, E3 in Full.
        destruct (negb deliver || _); cbn; rewrite E1, E2, E3; (split; [|auto]); intros HB;
          rewrite HB in Full; cbn in Full; apply Z.eqb_neq in Full; destruct (H1 HB); repeat split; auto; lia.
    - destruct (Z.eqb_spec (o_buf_len o1) 0) as [Z0|Z0]; cbn [negb].
      + unfold dd_finish. destruct (negb deliver || _); cbn; rewrite E1, E2, E3; (split; [|auto]); intros HB;
          destruct (H1 HB); rewrite E2 in Z0; repeat split; auto; lia.
      + unfold dd_finish. destruct (negb deliver || _); cbn; split; auto; discriminate. }
  unfold dd_decide. destruct (negb forced).
  - cbn [o_low set_flagd o_buf_len o_buf_siz]. destruct (und >=? o_low o).
    + apply (K true 0 (set_flagd o false)); auto.
    + destruct (Z.ltb_spec (o_buf_len o) (o_buf_siz o)).
      * cbn. split; auto.
      * apply (K false 0 (set_flagd o false)); auto.
  - destruct ((o_err (set_flagd o false) =? 0) && stp).
    + apply (K true ECANCELED (set_err (set_flagd o false) ECANCELED)); auto.
    + apply (K true 0 (set_flagd o false)); auto.
Qed.

Definition idle_ok (o : op) : Prop :=
  (o_hasbuf o = true -> o_buf_len o < o_buf_siz o) /\ (o_length o < SIZE_MAX -> o_total o < o_length o).
Definition buf_ok (o : op) : Prop :=
  (o_hasbuf o = true -> 0 <= o_buf_len o <= o_buf_siz o /\ 1 <= o_buf_siz o) /\ (o_hasbuf o = false -> o_buf_len o = 0).
Definition phase_ok (o : op) (ph : phase) : Prop :=
  match ph with
  | Idle | Picked => idle_ok o
  | Performed r =>
      (r = DISPATCH_OP_DELIVER -> o_length o < SIZE_MAX -> o_total o < o_length o) /\
      (r <> DISPATCH_OP_DELIVER -> r <> DISPATCH_OP_DELIVER_AND_COMPLETE -> r <> DISPATCH_OP_COMPLETE ->
       r <> DISPATCH_OP_ERR -> idle_ok o)
  | Completed => True
  end.

(* deliver_data keeps buf_ok, and afterwards the buffer (if any) has room *)
Lemma deliver_buf_ok stp fl o : buf_ok o ->
  let o' := fst (deliver_data stp fl o) in buf_ok o' /\ (o_hasbuf o' = true -> o_buf_len o' < o_buf_siz o').
Proof.
  intros (B1 & B2) o'. destruct (deliver_buf stp fl o B1 B2) as (D1 & D2). fold o' in D1, D2.
  split; [split; auto|].
  - intros H. destruct (D1 H) as (H0 & S & L & Lt). destruct (B1 H0). rewrite S, L. lia.
  - intros H. now destruct (D1 H) as (_ & _ & _ & Lt).
Qed.

Lemma alloc_read_room c o : RInv o -> 1 <= chunk_size c -> buf_ok o -> idle_ok o ->
  buf_ok (alloc_buf c o) /\ o_buf_len (alloc_buf c o) < o_buf_siz (alloc_buf c o) /\ o_hasbuf (alloc_buf c o) = true.
Proof.
  intros (Hd & Hl & Hu & Hnb & Hb & Hdat & Hpar & Htot) Hc (B1 & B2) (I1 & I2).
  pose proof (dsize_nonneg (o_data o)) as Hdn.
  unfold alloc_buf. destruct (o_hasbuf o) eqn:HB.
  - split; [split; intros X; [apply B1; auto|congruence]|]. split; [apply I1; auto|exact HB].
  - rewrite Hd. cbn [negb].
    set (max1 := if dsize (o_data o) =? 0 then o_high o else u64 (o_high o - dsize (o_data o))).
    assert (M1 : 1 <= max1).
    { unfold max1. destruct (Z.eqb_spec (dsize (o_data o)) 0). lia. rewrite u64_id; unfold SIZE_MAX in *; lia. }
    set (max2 := if max1 >? chunk_size c then chunk_size c else max1).
    assert (M2 : 1 <= max2) by (unfold max2; rewrite Z.gtb_ltb; destruct (Z.ltb_spec (chunk_size c) max1); lia).
    set (bs := if o_length o <? SIZE_MAX then
                 let b := o_length o - o_total o in if b >? max2 then max2 else b else max2).
    assert (B : 1 <= bs).
    { unfold bs. destruct (Z.ltb_spec (o_length o) SIZE_MAX); [|lia].
      specialize (I2 H). cbn zeta. rewrite Z.gtb_ltb. destruct (Z.ltb_spec max2 (o_length o - o_total o)); lia. }
    rewrite (B2 eq_refl). unfold buf_ok. cbn. repeat split; auto; try lia; discriminate.
Qed.

(* what perform leaves for the action table (reads) *)
Lemma perform_read_phase c cl stp fd o rs o' r f moved :
  RInv o -> 1 <= chunk_size c -> buf_ok o -> idle_ok o ->
  (match first_result rs with Some (Got bs) => zlen bs <= req_len c o | _ => True end) ->
  perform c cl stp fd o rs = (o', r, f, moved) ->
  buf_ok o' /\ phase_ok o' (Performed r).
Proof.
  intros R Hc B I Hok E.
  destruct (perform_read _ _ _ _ _ _ _ _ _ _ R Hc Hok E) as (R' & _ & _ & _ & LE & _).
  unfold perform in E.
  assert (PE : forall o0 e o1 r1 f1, buf_ok o0 -> idle_ok o0 -> perform_error o0 fd e = (o1, r1, f1) ->
               buf_ok o1 /\ phase_ok o1 (Performed r1)).
  { intros o0 e o1 r1 f1 B0 I0 E0. unfold perform_error in E0.
    repeat (match type of E0 with context [if ?b then _ else _] => destruct b end); inversion E0; subst;
      (split; [exact B0 || (unfold buf_ok in *; cbn; exact B0)|]);
      cbn; (split; [discriminate|]); intros; try contradiction; try (unfold idle_ok in *; cbn; exact I0);
      try (exfalso; auto; fail). }
  destruct (negb (get_error cl stp fd true =? 0)).
  - destruct (perform_error o fd _) as [[o1 r1] f1] eqn:E1. inversion E; subst. eapply PE; eauto.
  - destruct (alloc_read_room c o R Hc B I) as (BA & RA & HA).
    destruct (alloc_read c o R Hc) as (RIA & _ & _ & TA & _ & LA & _ & WA & _).
    assert (IA : idle_ok (alloc_buf c o)).
    { destruct I as (I1 & I2). split; [auto|]. rewrite TA, LA. auto. }
    destruct (first_result rs) as [[bs|e]|].
    + destruct (Z.eqb_spec (zlen bs) 0).
      * inversion E; subst. split; auto. cbn. split; [discriminate|]. intros _ X. now contradiction X.
      * rewrite WA in E. cbn [o_total set_total o_length set_buf] in E. unfold req_len in Hok.
        pose proof (zlen_nonneg bs).
        destruct BA as (BA1 & BA2). destruct (BA1 HA) as ((L0 & L1) & L2).
        destruct (Z.eqb_spec (o_total (alloc_buf c o) + zlen bs) (o_length (alloc_buf c o))); inversion E; subst;
          (split; [unfold buf_ok; cbn; rewrite HA; split; [intros _; lia|discriminate]|]); cbn.
        -- split; [discriminate|]. intros _ _ X. now contradiction X.
        -- split; [|intros X; now contradiction X]. intros _ HL.
           destruct R' as (_ & _ & _ & _ & _ & _ & _ & Ht). cbn in Ht. destruct (Ht HL). lia.
    + destruct (perform_error (alloc_buf c o) fd e) as [[o1 r1] f1] eqn:E1. inversion E; subst. eapply PE; eauto.
    + inversion E; subst. split; auto. cbn. split; [discriminate|]. intros. exact IA.
Qed.

Definition NRb hi len (s : st) : Prop := RSt hi len s /\ buf_ok (s_op s).
Definition NR hi len (s : st) : Prop := NRb hi len s /\ phase_ok (s_op s) (s_phase s).

Lemma buf_ok_set_err o e : buf_ok o -> buf_ok (set_err o e). Proof. unfold buf_ok. cbn. auto. Qed.
Lemma buf_ok_set_flagd o b : buf_ok o -> buf_ok (set_flagd o b). Proof. unfold buf_ok. cbn. auto. Qed.

(* what must hold BEFORE a delivery so that phase_ok holds after it for phase ph *)
Definition pre_ok (o : op) (ph : phase) : Prop :=
  match ph with
  | Idle | Picked => o_length o < SIZE_MAX -> o_total o < o_length o
  | Performed r =>
      (r = DISPATCH_OP_DELIVER -> o_length o < SIZE_MAX -> o_total o < o_length o) /\
      (r <> DISPATCH_OP_DELIVER -> r <> DISPATCH_OP_DELIVER_AND_COMPLETE -> r <> DISPATCH_OP_COMPLETE ->
       r <> DISPATCH_OP_ERR -> o_length o < SIZE_MAX -> o_total o < o_length o)
  | Completed => True
  end.
Lemma phase_pre o ph : phase_ok o ph -> pre_ok o ph.
Proof.
  destruct ph; cbn; auto; try (intros (_ & X); exact X).
  intros (P1 & P2). split; auto. intros A1 A2 A3 A4. now destruct (P2 A1 A2 A3 A4).
Qed.
Lemma phase_ok_after o o' ph : pre_ok o ph -> o_total o' = o_total o -> o_length o' = o_length o ->
  (o_hasbuf o' = true -> o_buf_len o' < o_buf_siz o') -> phase_ok o' ph.
Proof.
  intros P T L Room. destruct ph; cbn in *; auto.
  - split; auto. now rewrite T, L.
  - split; auto. now rewrite T, L.
  - destruct P as (P1 & P2). rewrite T, L. split; auto. intros A1 A2 A3 A4. split; auto. rewrite T, L. auto.
Qed.

Lemma NRb_with_deliver hi len s fl ph : NRb hi len s ->
  NRb hi len (with_deliver s fl ph) /\
  o_total (s_op (with_deliver s fl ph)) = o_total (s_op s) /\ o_length (s_op (with_deliver s fl ph)) = o_length (s_op s) /\
  (o_hasbuf (s_op (with_deliver s fl ph)) = true ->
   o_buf_len (s_op (with_deliver s fl ph)) < o_buf_siz (s_op (with_deliver s fl ph))) /\
  s_phase (with_deliver s fl ph) = ph.
Proof.
  intros (R & B). pose proof (RSt_with_deliver hi len s fl ph R) as R'.
  unfold with_deliver in *. destruct (deliver_data _ _ _) as [o cs] eqn:E. cbn in *.
  destruct (deliver_buf_ok (s_stopped s) fl (s_op s) B) as (B' & Room). rewrite E in B', Room. cbn in B', Room.
  destruct R as (RI & _). destruct (deliver_read _ _ _ _ _ RI E) as (_ & _ & _ & T & _ & L & _).
  split; [split; [exact R'|exact B']|]. auto.
Qed.

Lemma NR_with_deliver hi len s fl ph : NRb hi len s -> pre_ok (s_op s) ph -> NR hi len (with_deliver s fl ph).
Proof.
  intros N P. destruct (NRb_with_deliver hi len s fl ph N) as (N' & T & L & Room & Ph).
  split; auto. rewrite Ph. eapply phase_ok_after; eauto.
Qed.

Lemma NR_complete hi len s : NRb hi len s -> NR hi len (complete s).
Proof.
  intros (R & B). pose proof (RSt_complete hi len s R) as R'. unfold complete in *.
  destruct (deliver_data _ _ _) as [o cs] eqn:E. cbn in *.
  destruct (deliver_buf_ok (s_stopped s) FL_DONE (s_op s) B) as (B' & _). rewrite E in B'. cbn in B'.
  split; [split; auto|]. cbn. exact I.
Qed.

Lemma NRb_set_err hi len s e : NRb hi len s ->
  NRb hi len (mkSt (set_err (s_op s) e) (s_phase s) (s_closed s) (s_stopped s) (s_fderr s) (s_calls s) (s_io s)).
Proof. intros (R & B). split; [unfold RSt; cbn; apply RS_set_err; exact R|cbn; now apply buf_ok_set_err]. Qed.

Lemma step_NR c hi len s e : 1 <= chunk_size c -> NR hi len s -> result_ok c s e = true -> NR hi len (step c s e).
Proof.
  intros Hc N Hok. pose proof N as ((R & B) & P).
  assert (Nb : NRb hi len s) by (split; auto).
  destruct e; cbn [step]; try exact N.
  - (* Check *) destruct (s_phase s) eqn:Ph; try exact N.
    destruct (negb _).
    + apply NR_complete. now apply (NRb_set_err hi len s).
    + destruct (_ && _).
      * apply NR_with_deliver; auto. apply (phase_pre _ Picked). exact P.
      * split; auto.
  - (* Perform *) destruct (s_phase s) eqn:Ph; try exact N.
    pose proof (step_RSt c hi len s (EvPerform rs) Hc R Hok) as R'. cbn [step] in R'. rewrite Ph in R'.
    unfold result_ok in Hok. rewrite Ph in Hok.
    destruct (perform _ _ _ _ _ _) as [[[o r] f] moved] eqn:E.
    assert (OK : match first_result rs with Some (Got bs) => zlen bs <= req_len c (s_op s) | _ => True end).
    { destruct (first_result rs) as [[bs|]|]; auto. now apply Z.leb_le. }
    destruct R as (RI & RR).
    destruct (perform_read_phase _ _ _ _ _ _ _ _ _ _ RI Hc B P OK E) as (B' & P').
    split; [split; auto|exact P'].
  - (* Act *) destruct (s_phase s) eqn:Ph; try exact N.
    destruct P as (P1 & P2).
    assert (IDLE : result <> DISPATCH_OP_DELIVER -> result <> DISPATCH_OP_DELIVER_AND_COMPLETE ->
                   result <> DISPATCH_OP_COMPLETE -> result <> DISPATCH_OP_ERR -> NR hi len (set_phase s Idle)).
    { intros A1 A2 A3 A4. split; [exact Nb|]. cbn. now apply P2. }
    destruct (Z.eqb_spec result DISPATCH_OP_DELIVER). { apply NR_with_deliver; auto. cbn. auto. }
    destruct (Z.eqb_spec result DISPATCH_OP_DELIVER_AND_COMPLETE).
    { apply NR_complete. now destruct (NRb_with_deliver hi len s FL_DELIVER_NO_EMPTY Idle Nb). }
    destruct (Z.eqb_spec result DISPATCH_OP_COMPLETE). { now apply NR_complete. }
    destruct (Z.eqb_spec result DISPATCH_OP_COMPLETE_RESUME).
    { destruct (o_disk (s_op s)); [|now apply NR_complete]. apply IDLE; auto; subst; discriminate. }
    destruct (Z.eqb_spec result DISPATCH_OP_RESUME). { apply IDLE; auto; subst; discriminate. }
    destruct (Z.eqb_spec result DISPATCH_OP_ERR). { now apply NR_complete. }
    destruct (Z.eqb_spec result DISPATCH_OP_FD_ERR).
    { destruct (o_disk (s_op s)); [now apply NR_complete|]. apply IDLE; auto. }
    apply IDLE; auto.
  - (* Timer *) destruct (s_phase s) eqn:Ph; try exact N;
    (destruct (negb _); [exact N|]);
    (destruct (_ && _);
      [split; [split; [unfold RSt in *; cbn; destruct R as (RI & RR); split; [unfold RInv in *; cbn; exact RI|exact RR]
                      |cbn; now apply buf_ok_set_flagd]
              |cbn; rewrite ?Ph; unfold phase_ok, idle_ok in *; cbn; exact P]
      |apply NR_with_deliver; auto; apply phase_pre; exact P]).
  - (* Cleanup *) destruct (s_phase s) eqn:Ph; try exact N;
    (destruct (is_active s); [exact N|]);
    (destruct fd_wide;
      [destruct (s_fderr s =? 0); [exact N|apply NR_complete;
         destruct (o_err (s_op s) =? 0); [rewrite <- Ph; now apply (NRb_set_err hi len s)|rewrite <- Ph; destruct s; exact Nb]]
      |destruct (s_stopped s); [now apply NR_complete|exact N]]).
Qed.

Lemma run_NR c hi len evs : 1 <= chunk_size c -> forall s, NR hi len s -> run_ok c s evs = true -> NR hi len (run c s evs).
Proof.
  intros Hc. induction evs as [|e t IH]; intros s H Hok; simpl; auto.
  simpl in Hok. apply andb_prop in Hok. destruct Hok. apply IH; auto. now apply step_NR.
Qed.
Lemma NR_init disk conv len p iv strict : read_params_ok p -> 1 <= len ->
  NR (p_high p) len (st_init (op_init false disk conv len [] p iv strict)).
Proof.
  intros Hp Hl. split; [split; [apply RSt_init; auto; lia|]|]; cbn.
  - unfold buf_ok. cbn. split; [discriminate|auto].
  - unfold idle_ok. cbn. split; [discriminate|]. intros _. lia.
Qed.

(* the handler always has a next step, and it changes the phase (no event is needed from anyone else to move on;
   whether the system call finds the descriptor ready is the kernel's business: EAGAIN leads back to Idle, where the
   stream's source re-runs the handler when the descriptor becomes ready) *)
Theorem handler_step_enabled : forall c s,
  match s_phase s with
  | Idle => s_phase (step c s EvCheck) = Picked \/ s_phase (step c s EvCheck) = Completed
  | Picked => forall rs, exists r, s_phase (step c s (EvPerform rs)) = Performed r
  | Performed _ => s_phase (step c s EvAct) = Idle \/ s_phase (step c s EvAct) = Completed
  | Completed => True
  end.
Proof.
  intros c s. destruct (s_phase s) eqn:Ph; cbn [step]; rewrite ?Ph; auto.
  - destruct (negb _); [right; apply complete_phase|]. destruct (_ && _); [left; apply with_deliver_phase|left; reflexivity].
  - intros rs. destruct (perform _ _ _ _ _ _) as [[[o r] f] moved]. exists r. reflexivity.
  - repeat (match goal with |- context [if ?b then _ else _] => destruct b end);
      rewrite ?complete_phase, ?with_deliver_phase; auto.
Qed.

(* no stuck state (reads): whenever the handler is about to issue a system call, it asks for at least one byte -- so a
   ready descriptor always yields progress and a 0 return can only mean EOF *)
Theorem no_stuck_read : forall c disk conv len p iv strict evs,
  1 <= chunk_size c -> read_params_ok p -> 1 <= len ->
  let s0 := st_init (op_init false disk conv len [] p iv strict) in
  run_ok c s0 evs = true ->
  let s := run c s0 evs in
  (s_phase s = Idle \/ s_phase s = Picked) -> 1 <= req_len c (s_op s).
Proof.
  intros c disk conv len p iv strict evs Hc Hp Hl s0 Hok s Ph.
  assert (N : NR (p_high p) len s) by (apply run_NR; auto; now apply NR_init).
  destruct N as (((RI & _) & B) & P).
  assert (I : idle_ok (s_op s)) by (destruct Ph as [E|E]; rewrite E in P; exact P).
  destruct (alloc_read_room c (s_op s) RI Hc B I) as (_ & Room & _). unfold req_len. lia.
Qed.

(* ------------------------------------------------------------------ progress with a ready descriptor (reads) *)
Definition round (rs : list sysres) : list event := [EvCheck; EvPerform rs; EvAct].
Fixpoint ready_rounds (c : cfg) (s : st) (rounds : list (list sysres)) : Prop :=
  match rounds with
  | [] => True
  | rs :: t =>
      match first_result rs with
      | Some (Got bs) => 1 <= zlen bs <= req_len c (s_op (step c s EvCheck))
      | _ => False
      end /\ ready_rounds c (run c s (round rs)) t
  end.

Lemma run_completed c evs : forall s, s_phase s = Completed -> s_phase (run c s evs) = Completed.
Proof. induction evs as [|e t IH]; intros s P; simpl; auto. apply IH. now apply step_completed. Qed.

Lemma read_round_progress c hi len s rs bs : 1 <= chunk_size c -> NR hi len s -> s_phase s = Idle ->
  first_result rs = Some (Got bs) -> 1 <= zlen bs <= req_len c (s_op (step c s EvCheck)) ->
  let s' := run c s (round rs) in
  NR hi len s' /\ (s_phase s' = Completed \/ (s_phase s' = Idle /\ o_total (s_op s') = o_total (s_op s) + zlen bs)).
Proof.
  intros Hc N Ph Fr Hb s'.
  assert (OK : run_ok c s (round rs) = true).
  { unfold round. cbn [run_ok]. remember (step c s EvCheck) as s1 eqn:Es1.
    change (result_ok c s EvCheck) with true. cbn [andb].
    assert (X : result_ok c s1 (EvPerform rs) = true).
    { unfold result_ok. destruct (s_phase s1); auto. rewrite Fr. apply Z.leb_le. lia. }
    rewrite X. cbn [andb]. reflexivity. }
  split; [now apply run_NR|].
  subst s'. unfold round, run. cbn [fold_left].
  set (s1 := step c s EvCheck) in *.
  assert (S1 : s_phase s1 = Completed \/
               (s_phase s1 = Picked /\ o_total (s_op s1) = o_total (s_op s) /\ s_closed s1 = s_closed s /\
                s_stopped s1 = s_stopped s /\ s_fderr s1 = s_fderr s /\
                get_error (s_closed s) (s_stopped s) (s_fderr s) true = 0 /\ NR hi len s1)).
  { assert (N1 : NR hi len s1).
    { apply step_NR; auto. }
    subst s1. cbn [step] in *. rewrite Ph in *.
    destruct (Z.eqb_spec (get_error (s_closed s) (s_stopped s) (s_fderr s) true) 0) as [G|G]; cbn [negb] in *.
    - right. destruct (_ && _).
      + destruct N as (Nb & _). destruct (NRb_with_deliver hi len s FL_DELIVER Picked Nb) as (_ & T & _ & _ & P).
        unfold with_deliver in *. destruct (deliver_data _ _ _); cbn in *. auto 10.
      + cbn. auto 10.
    - left. apply complete_phase. }
  destruct S1 as [C1|(P1 & T1 & Cl & St & Fd & G & N1)].
  - left. apply (run_completed c [EvPerform rs; EvAct]). exact C1.
  - cbn [step]. rewrite P1.
    destruct (perform c (s_closed s1) (s_stopped s1) (s_fderr s1) (s_op s1) rs) as [[[o r] f] moved] eqn:E.
    cbn [step s_phase].
    unfold perform in E. rewrite Cl, St, Fd, G in E. cbn [Z.eqb negb] in E. rewrite Fr in E.
    destruct (Z.eqb_spec (zlen bs) 0); [lia|].
    destruct N1 as (((RI & _) & _) & _).
    destruct (alloc_read c (s_op s1) RI Hc) as (_ & _ & _ & TA & _ & _ & _ & WA & _).
    rewrite WA in E. cbn [o_total set_total o_length set_buf] in E.
    destruct (_ =? _) in E; injection E as <- <- <- <-.
    + left. change (DISPATCH_OP_COMPLETE =? DISPATCH_OP_DELIVER) with false.
      change (DISPATCH_OP_COMPLETE =? DISPATCH_OP_DELIVER_AND_COMPLETE) with false.
      change (DISPATCH_OP_COMPLETE =? DISPATCH_OP_COMPLETE) with true. cbn iota. apply complete_phase.
    + right. change (DISPATCH_OP_DELIVER =? DISPATCH_OP_DELIVER) with true. cbn iota.
      split; [apply with_deliver_phase|].
      unfold with_deliver. cbn [s_op s_stopped].
      match goal with |- context [deliver_data ?a ?b ?x] => destruct (deliver_data a b x) as [o2 cs2] eqn:E2 end.
      cbn. 
      assert (T2 : o_total o2 = o_total (fst (deliver_data (s_stopped s1) FL_DEFAULT
          (set_total (set_buf (alloc_buf c (s_op s1)) (o_hasbuf (alloc_buf c (s_op s1))) (o_buf_siz (alloc_buf c (s_op s1)))
             (o_buf_len (alloc_buf c (s_op s1)) + zlen bs) (o_buf (alloc_buf c (s_op s1)) ++ bs))
             (o_total (alloc_buf c (s_op s1)) + zlen bs))))) by (rewrite E2; reflexivity).
      rewrite T2. clear T2 E2.
      (* deliver_data never changes op->total *)
      match goal with |- o_total (fst (deliver_data ?a ?b ?x)) = _ => 
        assert (KT : forall stp fl x0, o_total (fst (deliver_data stp fl x0)) = o_total x0) end.
      { intros stp fl x0. unfold deliver_data, dd_decide, dd_data, dd_finish.
        repeat (match goal with |- context [if ?b then _ else _] => destruct b end); cbn; reflexivity. }
      rewrite KT. cbn [o_total set_total]. rewrite TA, T1. reflexivity.
Qed.

Lemma read_completes_aux c hi len : 1 <= chunk_size c -> len < SIZE_MAX ->
  forall rounds s, NR hi len s -> (s_phase s = Idle \/ s_phase s = Completed) ->
  ready_rounds c s rounds -> len - o_total (s_op s) <= Z.of_nat (length rounds) ->
  s_phase (run c s (concat (map round rounds))) = Completed.
Proof.
  intros Hc Hl. induction rounds as [|rs t IH]; intros s N Ph Hr Hm.
  - cbn. destruct Ph as [Ph|Ph]; auto. exfalso.
    destruct N as (((_ & _ & _ & _ & _ & L) & _) & P). rewrite Ph in P. destruct P as (_ & I2).
    cbn in Hm. rewrite L in I2. specialize (I2 Hl). lia.
  - cbn [map concat]. unfold run. rewrite fold_left_app. fold (run c s (round rs)).
    fold (run c (run c s (round rs)) (concat (map round t))).
    destruct Ph as [Ph|Ph]; [|apply run_completed; now apply run_completed].
    cbn [ready_rounds] in Hr. destruct Hr as (Hf & Hr).
    destruct (first_result rs) as [[bs|]|] eqn:Fr; try contradiction.
    destruct (read_round_progress c hi len s rs bs Hc N Ph Fr Hf) as (N' & [C|(I & T)]).
    + now apply run_completed.
    + apply IH; auto. rewrite T. cbn [length] in Hm. lia.
Qed.

(* a read of bounded length whose descriptor is ready whenever the handler asks (each system call returns at least one
   byte) completes -- done is delivered -- within length rounds of the handler *)
Theorem read_completes_when_ready : forall c disk conv len p iv strict rounds,
  1 <= chunk_size c -> read_params_ok p -> 1 <= len < SIZE_MAX ->
  let s0 := st_init (op_init false disk conv len [] p iv strict) in
  ready_rounds c s0 rounds -> len <= Z.of_nat (length rounds) ->
  let s := run c s0 (concat (map round rounds)) in
  s_phase s = Completed /\ done_last (s_calls s).
Proof.
  intros c disk conv len p iv strict rounds Hc Hp Hl s0 Hr Hn s.
  assert (C : s_phase s = Completed).
  { apply (read_completes_aux c (p_high p) len Hc ltac:(lia) rounds s0); auto.
    - apply NR_init; auto; lia.
    - cbn. lia. }
  split; auto. now apply done_exactly_once_last.
Qed.

(* ------------------------------------------------------------------ the same for writes *)
Lemma deliver_keeps stp fl x : let o' := fst (deliver_data stp fl x) in
  o_total o' = o_total x /\ o_length o' = o_length x /\ o_high o' = o_high x /\ o_write o' = o_write x.
Proof.
  unfold deliver_data, dd_decide, dd_data, dd_finish.
  repeat (match goal with |- context [if ?b then _ else _] => destruct b end); cbn; auto.
Qed.

Lemma wbuf_scan_pos : forall d ch acc, 1 <= ch -> 0 <= acc -> (1 <= acc \/ 1 <= dsize d) -> 1 <= wbuf_scan ch acc d.
Proof.
  induction d as [|r t IH]; intros ch acc Hc Ha H; simpl.
  - destruct H; auto. unfold dsize, flat in H. cbn in H. change (zlen (@nil Z)) with 0 in H. lia.
  - assert (D : dsize (r :: t) = zlen r + dsize t) by (unfold dsize, flat; simpl; now rewrite zlen_app).
    pose proof (zlen_nonneg r). pose proof (dsize_nonneg t).
    destruct (Z.eqb_spec acc 0) as [A0|A0]; cbn [orb].
    + subst acc. destruct (Z.ltb_spec (0 + zlen r) ch).
      * apply IH; auto; lia.
      * lia.
    + destruct (Z.leb_spec (acc + zlen r) ch); destruct (Z.ltb_spec (acc + zlen r) ch); try lia;
        try (apply IH; auto; lia).
Qed.

Lemma alloc_write_room c sub o : WInv sub o -> 1 <= chunk_size c -> 1 <= o_high o -> buf_ok o -> idle_ok o ->
  zlen sub < SIZE_MAX ->
  buf_ok (alloc_buf c o) /\ o_buf_len (alloc_buf c o) < o_buf_siz (alloc_buf c o) /\ o_hasbuf (alloc_buf c o) = true.
Proof.
  intros WI Hc Hh (B1 & B2) (I1 & I2) Hs. pose proof WI as (W & L & B & T & D & Hnb & Hb & Hhi).
  unfold alloc_buf. destruct (o_hasbuf o) eqn:HB.
  - split; [split; intros X; [apply B1; auto|congruence]|]. split; [apply I1; auto|exact HB].
  - rewrite W. cbn [negb].
    set (ch := if chunk_size c >? o_high o then o_high o else chunk_size c).
    assert (Ch : 1 <= ch) by (unfold ch; rewrite Z.gtb_ltb; destruct (Z.ltb_spec (o_high o) (chunk_size c)); lia).
    assert (DS : 1 <= dsize (o_data o)).
    { unfold dsize. rewrite D, zlen_skipn by lia. rewrite L in I2. specialize (I2 Hs). rewrite (B2 eq_refl) in *. lia. }
    pose proof (wbuf_scan_pos (o_data o) ch 0 Ch ltac:(lia) (or_intror DS)) as WB.
    set (bs0 := wbuf_scan ch 0 (o_data o)) in *.
    set (bs := if bs0 >? o_high o then o_high o else bs0).
    assert (BS : 1 <= bs) by (unfold bs; rewrite Z.gtb_ltb; destruct (Z.ltb_spec (o_high o) bs0); lia).
    rewrite (B2 eq_refl). unfold buf_ok. cbn. repeat split; auto; try lia; discriminate.
Qed.

Lemma perform_write_phase c sub cl stp fd o rs o' r f moved :
  WInv sub o -> 1 <= chunk_size c -> 1 <= o_high o -> buf_ok o -> idle_ok o -> zlen sub < SIZE_MAX ->
  wres_ok c o rs -> perform c cl stp fd o rs = (o', r, f, moved) ->
  buf_ok o' /\ phase_ok o' (Performed r).
Proof.
  intros WI Hc Hh B I Hs Hok E.
  destruct (perform_write _ _ _ _ _ _ _ _ _ _ _ WI ltac:(lia) Hok E) as (WI' & _ & _ & _ & _).
  unfold perform in E.
  assert (PE : forall o0 e o1 r1 f1, buf_ok o0 -> idle_ok o0 -> perform_error o0 fd e = (o1, r1, f1) ->
               buf_ok o1 /\ phase_ok o1 (Performed r1)).
  { intros o0 e o1 r1 f1 B0 I0 E0. unfold perform_error in E0.
    repeat (match type of E0 with context [if ?b then _ else _] => destruct b end); inversion E0; subst;
      (split; [exact B0 || (unfold buf_ok in *; cbn; exact B0)|]);
      cbn; (split; [discriminate|]); intros; try contradiction; try (unfold idle_ok in *; cbn; exact I0);
      try (exfalso; auto; fail). }
  destruct (negb (get_error cl stp fd true =? 0)).
  - destruct (perform_error o fd _) as [[o1 r1] f1] eqn:E1. inversion E; subst. eapply PE; eauto.
  - destruct (alloc_write_room c sub o WI Hc Hh B I Hs) as (BA & RA & HA).
    destruct (alloc_write c sub o WI ltac:(lia)) as (WA & _ & TA & _ & _).
    pose proof WA as (Ww & La & _). pose proof WI as (_ & Lo & _).
    assert (IA : idle_ok (alloc_buf c o)).
    { destruct I as (I1 & I2). split; [auto|]. rewrite TA, La, <- Lo. auto. }
    unfold wres_ok in Hok.
    destruct (first_result rs) as [[bs|e]|].
    + destruct Hok as (P1 & P2). destruct (Z.eqb_spec (zlen bs) 0); [lia|].
      rewrite Ww in E. cbn [o_total set_total o_length set_buf] in E. unfold req_len in P2.
      destruct BA as (BA1 & BA2). destruct (BA1 HA) as ((L0 & L1) & L2).
      destruct (Z.eqb_spec (o_total (alloc_buf c o) + zlen bs) (o_length (alloc_buf c o))); inversion E; subst;
        (split; [unfold buf_ok; cbn; rewrite HA; split; [intros _; lia|discriminate]|]); cbn.
      * split; [discriminate|]. intros _ _ X. now contradiction X.
      * split; [|intros X; now contradiction X]. intros _ HL.
        destruct WI' as (_ & L' & _ & T' & _). cbn in L', T'. lia.
    + destruct (perform_error (alloc_buf c o) fd e) as [[o1 r1] f1] eqn:E1. inversion E; subst. eapply PE; eauto.
    + inversion E; subst. split; auto. cbn. split; [discriminate|]. intros. exact IA.
Qed.

Definition XS (s : st) : Prop := 1 <= o_high (s_op s) /\ buf_ok (s_op s) /\ phase_ok (s_op s) (s_phase s).
Definition NW (sub : list Z) (s : st) : Prop := WS sub s /\ XS s.

Lemma XS_with_deliver s fl ph : 1 <= o_high (s_op s) -> buf_ok (s_op s) -> pre_ok (s_op s) ph -> XS (with_deliver s fl ph).
Proof.
  intros H B P. unfold XS, with_deliver.
  pose proof (deliver_keeps (s_stopped s) fl (s_op s)) as K. pose proof (deliver_buf_ok (s_stopped s) fl (s_op s) B) as D.
  destruct (deliver_data _ _ _) as [o cs]. cbn in *. destruct K as (T & L & Hh & _). destruct D as (B' & Room).
  split; [lia|]. split; auto. eapply phase_ok_after; eauto.
Qed.
Lemma XS_complete s : 1 <= o_high (s_op s) -> buf_ok (s_op s) -> XS (complete s).
Proof.
  intros H B. unfold XS, complete.
  pose proof (deliver_keeps (s_stopped s) FL_DONE (s_op s)) as K.
  pose proof (deliver_buf_ok (s_stopped s) FL_DONE (s_op s) B) as D.
  destruct (deliver_data _ _ _) as [o cs]. cbn in *. destruct K as (T & L & Hh & _). destruct D as (B' & Room).
  split; [lia|]. split; auto.
Qed.

Lemma HB_with_deliver s fl ph : 1 <= o_high (s_op s) -> buf_ok (s_op s) ->
  1 <= o_high (s_op (with_deliver s fl ph)) /\ buf_ok (s_op (with_deliver s fl ph)).
Proof.
  intros H B. unfold with_deliver.
  pose proof (deliver_keeps (s_stopped s) fl (s_op s)) as K. pose proof (deliver_buf_ok (s_stopped s) fl (s_op s) B) as D.
  destruct (deliver_data _ _ _) as [o cs]. cbn in *. destruct K as (_ & _ & Hh & _). destruct D as (B' & _).
  split; [lia|auto].
Qed.

Lemma step_NW c sub s e : 1 <= chunk_size c -> zlen sub < SIZE_MAX -> NW sub s -> wresult_ok c s e -> NW sub (step c s e).
Proof.
  intros Hc Hs (W & (H & B & P)) Hok. split; [now apply step_WS|].
  assert (X0 : XS s) by (split; [|split]; assumption).
  destruct e; cbn [step]; try exact X0.
  - (* Check *) destruct (s_phase s) eqn:Ph; try exact X0.
    destruct (negb _).
    + apply XS_complete; cbn; auto; now apply buf_ok_set_err.
    + destruct (_ && _); [apply XS_with_deliver; auto; apply (phase_pre _ Picked); exact P|unfold XS; cbn; auto].
  - (* Perform *) destruct (s_phase s) eqn:Ph; try exact X0.
    unfold wresult_ok in Hok. rewrite Ph in Hok.
    destruct (perform _ _ _ _ _ _) as [[[o r] f] moved] eqn:E.
    destruct W as ((WI & _) & _).
    destruct (perform_write_phase _ _ _ _ _ _ _ _ _ _ _ WI Hc H B P Hs Hok E) as (B' & P').
    unfold XS. cbn. split; auto.
    (* op->params.high is never written by perform *)
    assert (KH : o_high o = o_high (s_op s)).
    { clear - E. unfold perform in E.
      assert (PEH : forall o0 e o1 r1 f1, perform_error o0 (s_fderr s) e = (o1, r1, f1) -> o_high o1 = o_high o0).
      { intros o0 e0 o1 r1 f1 E0. unfold perform_error in E0.
        repeat (match type of E0 with context [if ?b then _ else _] => destruct b end); inversion E0; subst; reflexivity. }
      assert (AH : o_high (alloc_buf c (s_op s)) = o_high (s_op s)).
      { unfold alloc_buf. repeat (match goal with |- context [if ?b then _ else _] => destruct b end); reflexivity. }
      destruct (negb _).
      - destruct (perform_error _ _ _) as [[o1 r1] f1] eqn:E1. inversion E; subst. eapply PEH; eauto.
      - destruct (first_result rs) as [[bs|e0]|].
        + destruct (zlen bs =? 0); [inversion E; subst; exact AH|].
          destruct (_ =? _) in E; inversion E; subst; cbn; exact AH.
        + destruct (perform_error _ _ _) as [[o1 r1] f1] eqn:E1. inversion E; subst. rewrite (PEH _ _ _ _ _ E1). exact AH.
        + inversion E; subst. exact AH. }
    lia.
  - (* Act *) destruct (s_phase s) eqn:Ph; try exact X0.
    destruct P as (P1 & P2).
    assert (IDLE : result <> DISPATCH_OP_DELIVER -> result <> DISPATCH_OP_DELIVER_AND_COMPLETE ->
                   result <> DISPATCH_OP_COMPLETE -> result <> DISPATCH_OP_ERR -> XS (set_phase s Idle)).
    { intros A1 A2 A3 A4. unfold XS. cbn. split; auto. }
    destruct (Z.eqb_spec result DISPATCH_OP_DELIVER). { apply XS_with_deliver; auto. cbn. auto. }
    destruct (Z.eqb_spec result DISPATCH_OP_DELIVER_AND_COMPLETE).
    { destruct (HB_with_deliver s FL_DELIVER_NO_EMPTY Idle H B). now apply XS_complete. }
    destruct (Z.eqb_spec result DISPATCH_OP_COMPLETE). { now apply XS_complete. }
    destruct (Z.eqb_spec result DISPATCH_OP_COMPLETE_RESUME).
    { destruct (o_disk (s_op s)); [|now apply XS_complete]. apply IDLE; auto; subst; discriminate. }
    destruct (Z.eqb_spec result DISPATCH_OP_RESUME). { apply IDLE; auto; subst; discriminate. }
    destruct (Z.eqb_spec result DISPATCH_OP_ERR). { now apply XS_complete. }
    destruct (Z.eqb_spec result DISPATCH_OP_FD_ERR).
    { destruct (o_disk (s_op s)); [now apply XS_complete|]. apply IDLE; auto. }
    apply IDLE; auto.
  - (* Timer *) destruct (s_phase s) eqn:Ph; try exact X0;
    (destruct (negb _); [exact X0|]);
    (destruct (_ && _);
      [unfold XS; cbn; rewrite ?Ph; split; [exact H|split; [now apply buf_ok_set_flagd|unfold phase_ok, idle_ok in *; cbn; exact P]]
      |apply XS_with_deliver; auto; apply phase_pre; exact P]).
  - (* Cleanup *) destruct (s_phase s) eqn:Ph; try exact X0;
    (destruct (is_active s); [exact X0|]);
    (destruct fd_wide;
      [destruct (s_fderr s =? 0); [exact X0|apply XS_complete; cbn;
         destruct (o_err (s_op s) =? 0); cbn; auto; now apply buf_ok_set_err]
      |destruct (s_stopped s); [now apply XS_complete|exact X0]]).
Qed.

Lemma run_NW c sub evs : 1 <= chunk_size c -> zlen sub < SIZE_MAX -> forall s, NW sub s -> wrun_ok c s evs -> NW sub (run c s evs).
Proof.
  intros Hc Hs. induction evs as [|e t IH]; intros s N Hok; simpl; auto.
  destruct Hok. apply IH; auto. now apply step_NW.
Qed.

Lemma NW_init disk conv d p iv strict : 1 <= p_high p -> 1 <= zlen (flat d) ->
  NW (flat d) (st_init (op_init true disk conv (zlen (flat d)) d p iv strict)).
Proof.
  intros Hh Hl. assert (H0 : 0 <= p_high p) by lia. split; [now apply WS_init|]. remember (zlen (flat d)) as n. unfold XS, buf_ok, idle_ok. cbn.
  split; auto. split; [split; [discriminate|auto]|]. split; [discriminate|]. intros _. cbn. lia.
Qed.

(* no stuck state (writes): the next write() always asks for at least one byte *)
Theorem no_stuck_write : forall c disk conv d p iv strict evs,
  1 <= chunk_size c -> 1 <= p_high p -> 1 <= zlen (flat d) < SIZE_MAX ->
  let s0 := st_init (op_init true disk conv (zlen (flat d)) d p iv strict) in
  wrun_ok c s0 evs ->
  let s := run c s0 evs in
  (s_phase s = Idle \/ s_phase s = Picked) -> 1 <= req_len c (s_op s).
Proof.
  intros c disk conv d p iv strict evs Hc Hh Hl s0 Hok s Ph.
  assert (N : NW (flat d) s) by (apply run_NW; auto; try lia; apply NW_init; auto; lia).
  destruct N as (((WI & _) & _) & (H & B & P)).
  assert (I : idle_ok (s_op s)) by (destruct Ph as [E|E]; rewrite E in P; exact P).
  destruct (alloc_write_room c (flat d) (s_op s) WI Hc H B I ltac:(lia)) as (_ & Room & _). unfold req_len. lia.
Qed.

Lemma write_round_progress c sub s rs bs : 1 <= chunk_size c -> zlen sub < SIZE_MAX -> NW sub s -> s_phase s = Idle ->
  first_result rs = Some (Got bs) -> 1 <= zlen bs <= req_len c (s_op (step c s EvCheck)) ->
  let s' := run c s (round rs) in
  NW sub s' /\ (s_phase s' = Completed \/ (s_phase s' = Idle /\ o_total (s_op s') = o_total (s_op s) + zlen bs)).
Proof.
  intros Hc Hs N Ph Fr Hb s'.
  assert (OK : wrun_ok c s (round rs)).
  { unfold round. cbn [wrun_ok]. remember (step c s EvCheck) as s1 eqn:Es1. split; [exact I|]. split; [|split; exact I].
    unfold wresult_ok. destruct (s_phase s1); auto. unfold wres_ok. rewrite Fr. lia. }
  split; [now apply run_NW|].
  subst s'. unfold round, run. cbn [fold_left].
  set (s1 := step c s EvCheck) in *.
  assert (KT : forall stp fl x0, o_total (fst (deliver_data stp fl x0)) = o_total x0)
    by (intros; now destruct (deliver_keeps stp fl x0)).
  assert (S1 : s_phase s1 = Completed \/
               (s_phase s1 = Picked /\ o_total (s_op s1) = o_total (s_op s) /\ s_closed s1 = s_closed s /\
                s_stopped s1 = s_stopped s /\ s_fderr s1 = s_fderr s /\
                get_error (s_closed s) (s_stopped s) (s_fderr s) true = 0 /\ NW sub s1)).
  { assert (N1 : NW sub s1) by (apply step_NW; auto; exact I).
    subst s1. cbn [step] in *. rewrite Ph in *.
    destruct (Z.eqb_spec (get_error (s_closed s) (s_stopped s) (s_fderr s) true) 0) as [G|G]; cbn [negb] in *.
    - right. destruct (_ && _).
      + unfold with_deliver in *. pose proof (KT (s_stopped s) FL_DELIVER (s_op s)) as T.
        destruct (deliver_data _ _ _); cbn in *. auto 10.
      + cbn. auto 10.
    - left. apply complete_phase. }
  destruct S1 as [C1|(P1 & T1 & Cl & St & Fd & G & N1)].
  - left. apply (run_completed c [EvPerform rs; EvAct]). exact C1.
  - cbn [step]. rewrite P1.
    destruct (perform c (s_closed s1) (s_stopped s1) (s_fderr s1) (s_op s1) rs) as [[[o r] f] moved] eqn:E.
    cbn [step s_phase].
    unfold perform in E. rewrite Cl, St, Fd, G in E. cbn [Z.eqb negb] in E. rewrite Fr in E.
    destruct (Z.eqb_spec (zlen bs) 0); [lia|].
    destruct N1 as (((WI & _) & _) & _).
    destruct (alloc_write c sub (s_op s1) WI (WInv_high _ _ WI)) as (WA & _ & TA & _ & _).
    pose proof WA as (Ww & _). rewrite Ww in E. cbn [o_total set_total o_length set_buf] in E.
    destruct (_ =? _) in E; injection E as <- <- <- <-.
    + left. change (DISPATCH_OP_COMPLETE =? DISPATCH_OP_DELIVER) with false.
      change (DISPATCH_OP_COMPLETE =? DISPATCH_OP_DELIVER_AND_COMPLETE) with false.
      change (DISPATCH_OP_COMPLETE =? DISPATCH_OP_COMPLETE) with true. cbn iota. apply complete_phase.
    + right. change (DISPATCH_OP_DELIVER =? DISPATCH_OP_DELIVER) with true. cbn iota.
      split; [apply with_deliver_phase|].
      unfold with_deliver. cbn [s_op s_stopped].
      match goal with |- context [deliver_data ?a ?b ?x] =>
        pose proof (KT a b x) as T2; destruct (deliver_data a b x) as [o2 cs2] end.
      cbn in *. rewrite T2. cbn [o_total set_total]. rewrite TA, T1. reflexivity.
Qed.

Lemma write_completes_aux c sub : 1 <= chunk_size c -> zlen sub < SIZE_MAX ->
  forall rounds s, NW sub s -> (s_phase s = Idle \/ s_phase s = Completed) ->
  ready_rounds c s rounds -> zlen sub - o_total (s_op s) <= Z.of_nat (length rounds) ->
  s_phase (run c s (concat (map round rounds))) = Completed.
Proof.
  intros Hc Hl. induction rounds as [|rs t IH]; intros s N Ph Hr Hm.
  - cbn. destruct Ph as [Ph|Ph]; auto. exfalso.
    destruct N as ((((_ & L & _) & _) & _) & (_ & _ & P)). rewrite Ph in P. destruct P as (_ & I2).
    cbn in Hm. rewrite L in I2. specialize (I2 Hl). lia.
  - cbn [map concat]. unfold run. rewrite fold_left_app. fold (run c s (round rs)).
    fold (run c (run c s (round rs)) (concat (map round t))).
    destruct Ph as [Ph|Ph]; [|apply run_completed; now apply run_completed].
    cbn [ready_rounds] in Hr. destruct Hr as (Hf & Hr).
    destruct (first_result rs) as [[bs|]|] eqn:Fr; try contradiction.
    destruct (write_round_progress c sub s rs bs Hc Hl N Ph Fr Hf) as (N' & [C|(I & T)]).
    + now apply run_completed.
    + apply IH; auto. rewrite T. cbn [length] in Hm. lia.
Qed.

(* a write whose descriptor accepts at least one byte whenever the handler asks completes within `size` rounds, with done,
   error 0, and every byte accepted *)
Theorem write_completes_when_ready : forall c disk conv d p iv strict rounds,
  1 <= chunk_size c -> 1 <= p_high p -> 1 <= zlen (flat d) < SIZE_MAX ->
  let s0 := st_init (op_init true disk conv (zlen (flat d)) d p iv strict) in
  ready_rounds c s0 rounds -> zlen (flat d) <= Z.of_nat (length rounds) ->
  let s := run c s0 (concat (map round rounds)) in
  s_phase s = Completed /\ done_last (s_calls s).
Proof.
  intros c disk conv d p iv strict rounds Hc Hp Hl s0 Hr Hn s.
  assert (C : s_phase s = Completed).
  { apply (write_completes_aux c (flat d) Hc ltac:(lia) rounds s0); auto.
    - apply NW_init; auto; lia.
    - cbn. lia. }
  split; auto. now apply done_exactly_once_last.
Qed.
