(* Sema_proofs.v — invariants of the dispatch semaphore model for any number of threads and any interleaving. *)
From Coq Require Import ZArith Bool List Lia.
From Verif Require Import Word Conc Gen_consts Gen_fields Gen_sema Sema.
Import ListNotations.
Local Open Scope Z_scope.

(* ---- ties to the generated module ---- *)
Lemma sites_signal : model_sites_signal = dispatch_semaphore_signal_sites.
Proof. reflexivity. Qed.
Lemma sites_signal_slow : model_sites_signal_slow = f_dispatch_semaphore_signal_slow_sites.
Proof. reflexivity. Qed.
Lemma sites_wait : model_sites_wait = dispatch_semaphore_wait_sites.
Proof. reflexivity. Qed.
Lemma sites_wait_slow : model_sites_wait_slow = f_dispatch_semaphore_wait_slow_sites.
Proof. reflexivity. Qed.

(* the conformance automaton is the model automaton plus the hidden plain read *)
Lemma tstep_vis_sound p e p' : tstep_vis p e = Some p' ->
  (p <> PWLoad /\ tstep p e = Some p') \/
  (p = PWLoad /\ exists v, tstep PWLoad (plain_load v) = Some (PWUndo (s64 v)) /\ tstep (PWUndo (s64 v)) e = Some p').
Proof.
  destruct p; cbn [tstep_vis]; intros H; try (left; split; [discriminate|exact H]).
  right. split; [reflexivity|].
  destruct (ev_kind e DV_CASW).
  - exists (s64 (eb e) - 1). split; [reflexivity|exact H].
  - destruct (ev_kind e DV_SEM_WAIT); [|discriminate]. exists 0. split; [reflexivity|exact H].
Qed.

(* ---- counting over the finite support ---- *)
Lemma tsum_upd_notin w f t p l : ~ In t l -> tsum w (upd f t p) l = tsum w f l.
Proof.
  induction l as [|a l IH]; cbn; intros H; [reflexivity|].
  rewrite upd_other by (intros ->; apply H; left; reflexivity). rewrite IH; [reflexivity|]. intros X; apply H; right; exact X.
Qed.
Lemma tsum_upd_in w f t p l : NoDup l -> In t l -> tsum w (upd f t p) l = tsum w f l - w (f t) + w p.
Proof.
  induction l as [|a l IH]; intros ND HI; [contradiction|]. inversion ND as [|? ? Hn ND']; subst. cbn.
  destruct (Z.eq_dec a t) as [->|Ne].
  - rewrite upd_same, tsum_upd_notin by assumption. lia.
  - destruct HI as [->|HI]; [contradiction|]. rewrite upd_other by exact Ne. rewrite IH by assumption. lia.
Qed.
Lemma tsum_nonneg w f l : (forall p, 0 <= w p) -> 0 <= tsum w f l.
Proof. intros H. induction l; cbn; [lia|]. specialize (H (f a)). lia. Qed.
Lemma tsum_zero w f l : (forall u, In u l -> w (f u) = 0) -> tsum w f l = 0.
Proof. induction l; cbn; intros H; [reflexivity|]. rewrite H by (left; reflexivity). rewrite IHl; [reflexivity|]. intros; apply H; right; auto. Qed.
Lemma tsum_ge_one w f l t : (forall p, 0 <= w p) -> In t l -> w (f t) = 1 -> 1 <= tsum w f l.
Proof.
  intros Hw. induction l; cbn; intros HI H1; [contradiction|]. destruct HI as [->|HI].
  - pose proof (tsum_nonneg w f l Hw). lia.
  - specialize (IHl HI H1). specialize (Hw (f a)). lia.
Qed.
Lemma mem_In t l : mem t l = true <-> In t l.
Proof.
  unfold mem. rewrite existsb_exists. split.
  - intros (x & Hx & E). apply Z.eqb_eq in E. subst. exact Hx.
  - intros H. exists t. split; [exact H|apply Z.eqb_refl].
Qed.

Lemma cnt_move w s s' t p' :
  NoDup (seen s) -> In t (seen s) -> pcs s' = upd (pcs s) t p' -> seen s' = seen s ->
  cnt w s' = cnt w s - w (pcs s t) + w p'.
Proof. intros ND HI Ep Es. unfold cnt. rewrite Ep, Es. apply tsum_upd_in; assumption. Qed.
Lemma cnt_call w s s' t p' :
  NoDup (seen s) -> pcs s t = PIdle -> w PIdle = 0 -> pcs s' = upd (pcs s) t p' -> seen s' = add_seen t (seen s) ->
  cnt w s' = cnt w s + w p'.
Proof.
  intros ND Hp Hw Ep Es. unfold cnt. rewrite Ep, Es. unfold add_seen. destruct (mem t (seen s)) eqn:M.
  - apply mem_In in M. rewrite tsum_upd_in by assumption. rewrite Hp, Hw. lia.
  - assert (~ In t (seen s)) by (intros X; apply mem_In in X; congruence).
    cbn. rewrite upd_same, tsum_upd_notin by assumption. lia.
Qed.

Lemma is_nonneg : (forall p, 0 <= is_SigInc p) /\ (forall p, 0 <= is_SigPost p) /\ (forall p, 0 <= is_SigRet p) /\
  (forall p, 0 <= is_WDec p) /\ (forall p, 0 <= is_Slow p) /\ (forall p, 0 <= is_WRet0 p) /\ (forall p, 0 <= is_WRetT p).
Proof. repeat split; intros p; destruct p; cbn; lia. Qed.
Lemma cnt_nonneg s :
  0 <= cnt is_SigInc s /\ 0 <= cnt is_SigPost s /\ 0 <= cnt is_SigRet s /\ 0 <= cnt is_WDec s /\ 0 <= cnt is_Slow s /\
  0 <= cnt is_WRet0 s /\ 0 <= cnt is_WRetT s.
Proof. destruct is_nonneg as (A & B & C & D & E & F & G). unfold cnt. repeat split; apply tsum_nonneg; assumption. Qed.

(* ---- C long arithmetic of the two fetch-ops ---- *)
Lemma s64_inc x : SEMA_LONG_MIN <= x <= SEMA_LONG_MAX -> s64 (x + 1) <> SEMA_LONG_MIN ->
  s64 (x + 1) = x + 1 /\ x + 1 <= SEMA_LONG_MAX.
Proof.
  unfold SEMA_LONG_MIN, SEMA_LONG_MAX. intros R H.
  destruct (Z.eq_dec x 9223372036854775807) as [->|Ne]; [exfalso; apply H; reflexivity|].
  split; [apply s64_id|]; lia.
Qed.
Lemma s64_dec x : SEMA_LONG_MIN < x <= SEMA_LONG_MAX -> s64 (x - 1) = x - 1.
Proof. unfold SEMA_LONG_MIN, SEMA_LONG_MAX. intros R. apply s64_id. lia. Qed.

(* ---- the invariant ---- *)
Definition support_ok (s : gst) : Prop := NoDup (seen s) /\ forall t, pcs s t <> PIdle -> In t (seen s).

(* balance: (B1) the waiters in the slow path are exactly the ones registered in the negative part of the value plus
   the posts pending (signallers at sem_post + kernel count); (B2) permit accounting against the API-level history;
   (B3)/(B4) every started call is finished or at one program point *)
Definition balance (s : gst) : Prop :=
  0 <= ksem s /\ SEMA_LONG_MIN <= value s <= SEMA_LONG_MAX /\
  cnt is_Slow s = Z.max 0 (- value s) + cnt is_SigPost s + ksem s /\
  value s + cnt is_Slow s + cnt is_WRet0 s + cnt is_SigInc s = v0 s + sig_started s - successes s /\
  sig_started s = sig_finished s + cnt is_SigInc s + cnt is_SigPost s + cnt is_SigRet s /\
  waits_started s = successes s + timeouts s + cnt is_WDec s + cnt is_Slow s + cnt is_WRet0 s + cnt is_WRetT s.

(* what the current call of thread t has done to the semaphore, by program point *)
Definition thread_inv (s : gst) (t : Z) : Prop :=
  match pcs s t with
  | PWDec _ | PWTimed | PWSemWait => g_undo s t = 0 /\ g_cons s t = 0 /\ g_tout s t = false
  | PWLoad | PWUndo _ => g_undo s t = 0 /\ g_cons s t = 0 /\ g_tout s t = true
  | PWBlocked => g_undo s t = 0 /\ g_cons s t = 0
  | PWRet0 => g_undo s t = 0 /\ 0 <= g_cons s t <= 1 /\ (g_tout s t = true -> g_cons s t = 1)
  | PWRetT => g_undo s t = 1 /\ g_cons s t = 0 /\ g_tout s t = true
  | _ => True
  end.

Definition Inv (v : Z) (s : gst) : Prop :=
  v0 s = v /\ support_ok s /\ balance s /\ forall t, thread_inv s t.

Lemma Inv_init v : valid_init v -> Inv v (init_state v).
Proof.
  unfold valid_init, SEMA_LONG_MAX. intros Hv. split; [reflexivity|]. split; [|split].
  - split; [constructor|]. cbn. intros t H. contradiction.
  - unfold balance, cnt, SEMA_LONG_MIN, SEMA_LONG_MAX; cbn. lia.
  - intros t. exact I.
Qed.

(* a thread other than the one that moved keeps its assertion *)
Lemma other_thread s s' t u :
  u <> t -> thread_inv s u -> pcs s' u = pcs s u ->
  g_undo s' u = g_undo s u -> g_cons s' u = g_cons s u -> g_tout s' u = g_tout s u -> thread_inv s' u.
Proof. intros _ H E1 E2 E3 E4. unfold thread_inv in *. rewrite E1, E2, E3, E4. exact H. Qed.

(* packaging of one step of a thread that is inside a call *)
Lemma step_pack v s s' t p' :
  Inv v s -> pcs s t <> PIdle ->
  pcs s' = upd (pcs s) t p' -> seen s' = seen s -> v0 s' = v0 s ->
  (forall u, u <> t -> g_undo s' u = g_undo s u /\ g_cons s' u = g_cons s u /\ g_tout s' u = g_tout s u) ->
  ((forall w, cnt w s' = cnt w s - w (pcs s t) + w p') -> balance s') ->
  thread_inv s' t -> Inv v s'.
Proof.
  intros (Hv & (ND & Sup) & Bal & HT) Hne Ep Es Ev Hg Hb Ht.
  assert (HI : In t (seen s)) by (apply Sup; exact Hne).
  split; [congruence|]. split; [|split].
  - split; [rewrite Es; exact ND|]. intros u Hu. rewrite Es. destruct (Z.eq_dec u t) as [->|Ne]; [exact HI|].
    apply Sup. rewrite Ep, upd_other in Hu by exact Ne. exact Hu.
  - apply Hb. intros w. apply cnt_move; assumption.
  - intros u. destruct (Z.eq_dec u t) as [->|Ne]; [exact Ht|].
    destruct (Hg u Ne) as (G1 & G2 & G3).
    apply (other_thread s s' t u Ne (HT u)); try assumption. rewrite Ep. apply upd_other. exact Ne.
Qed.

Ltac unfold_consts := unfold SEMA_LONG_MIN, SEMA_LONG_MAX in *.
Ltac proj_simpl :=
  cbn [value ksem pcs seen v0 sig_started sig_finished waits_started successes timeouts g_undo g_cons g_tout
       is_SigInc is_SigPost is_SigRet is_WDec is_Slow is_WRet0 is_WRetT slow_entry].
(* balance goal after a move: rewrite every count, evaluate the indicators, arithmetic *)
Ltac bal Bal Hpc :=
  let CM := fresh "CM" in
  intros CM; destruct Bal as (B0 & BR & B1 & B2 & B3 & B4); unfold balance; rewrite !CM, ?Hpc; proj_simpl;
  unfold_consts; repeat split; try lia.
Ltac others := intros u Ne; proj_simpl; rewrite ?upd_other by exact Ne; repeat split; reflexivity.
Ltac pack v s t P HI :=
  apply (step_pack v s _ t P); [exact HI | congruence | reflexivity | reflexivity | reflexivity | others | | ].

Lemma step_preserves v s t e s' : Inv v s -> gstep s t e = Some s' -> Inv v s'.
Proof.
  intros HI Hs. pose proof HI as (Hv & (ND & Sup) & Bal & HT). unfold gstep in Hs.
  destruct (tstep (pcs s t) e) as [p'|] eqn:Hts; [|discriminate].
  pose proof (HT t) as Ht. unfold thread_inv in Ht.
  destruct (pcs s t) eqn:Hpc; cbn [tstep] in Hts; cbv zeta in Hs.
  - (* PIdle: a new call *)
    destruct (ev_kind e DVU_CALL); [|discriminate]. injection Hs as <-.
    match goal with |- Inv _ ?x => set (s' := x) end.
    assert (CC : forall w, w PIdle = 0 -> cnt w s' = cnt w s + w p').
    { intros w Hw. apply (cnt_call w s s' t p'); auto. }
    split; [exact Hv|]. split; [|split].
    + unfold support_ok. subst s'; cbn [seen pcs]. unfold add_seen. split.
      * destruct (mem t (seen s)) eqn:M; [exact ND|]. constructor; [|exact ND]. intros X. apply mem_In in X. congruence.
      * intros u Hu. destruct (Z.eq_dec u t) as [->|Ne].
        -- destruct (mem t (seen s)) eqn:M; [apply mem_In; exact M|left; reflexivity].
        -- rewrite upd_other in Hu by exact Ne. specialize (Sup u Hu). destruct (mem t (seen s)); [exact Sup|right; exact Sup].
    + destruct Bal as (B0 & BR & B1 & B2 & B3 & B4). unfold balance. rewrite !CC by reflexivity.
      destruct (Z.eqb_spec (ea e) OP_SIGNAL) as [Es|Es].
      * injection Hts as <-. subst s'; proj_simpl. repeat split; lia.
      * destruct (ea e =? OP_WAIT); [|discriminate]. injection Hts as <-. subst s'; proj_simpl. repeat split; lia.
    + intros u. destruct (Z.eq_dec u t) as [->|Ne].
      * unfold thread_inv. subst s'; proj_simpl. rewrite !upd_same.
        destruct (ea e =? OP_SIGNAL); [injection Hts as <-; exact I|].
        destruct (ea e =? OP_WAIT); [|discriminate]. injection Hts as <-. auto.
      * apply (other_thread s s' t u Ne (HT u)); subst s'; proj_simpl; rewrite ?upd_other by exact Ne; reflexivity.
  - (* PSigInc *)
    destruct (ev_is e DV_ADD MO_RELEASE OFF_VALUE && (eb e =? 1)); [|discriminate].
    destruct (Z.eqb_spec (s64 (ea e)) (value s)) as [Ea|]; [|discriminate]. injection Hs as <-.
    rewrite Ea in Hts. cbv zeta in Hts.
    pose proof Bal as (_ & BRx & _).
    destruct (Z.eqb_spec (s64 (value s + 1)) SEMA_LONG_MIN) as [Em|Em].
    { exfalso. rewrite Em in Hts. cbn in Hts. discriminate. }
    destruct (s64_inc (value s) BRx Em) as [Ev Hr]. rewrite Ev in Hts.
    destruct (Z.gtb_spec (value s + 1) 0) as [Hp|Hp]; injection Hts as <-.
    + pack v s t (PSigRet 0) HI; [bal Bal Hpc | unfold thread_inv; proj_simpl; rewrite upd_same; exact I].
    + pack v s t PSigPost HI; [bal Bal Hpc | unfold thread_inv; proj_simpl; rewrite upd_same; exact I].
  - (* PSigPost *)
    destruct (ev_is e DV_SEM_POST 0 OFF_SEMA && (ea e =? 1)); [|discriminate]. injection Hts as <-. injection Hs as <-.
    pack v s t (PSigRet 1) HI; [bal Bal Hpc | unfold thread_inv; proj_simpl; rewrite upd_same; exact I].
  - (* PSigRet *)
    destruct (ev_kind e DVU_RET && (ea e =? r)); [|discriminate]. injection Hts as <-. injection Hs as <-.
    pack v s t PIdle HI; [bal Bal Hpc | unfold thread_inv; proj_simpl; rewrite upd_same; exact I].
  - (* PWDec *)
    destruct (ev_is e DV_SUB MO_ACQUIRE OFF_VALUE && (eb e =? 1)); [|discriminate].
    destruct (Z.eqb_spec (s64 (ea e)) (value s)) as [Ea|]; [|discriminate].
    destruct (Z.ltb_spec SEMA_LONG_MIN (value s)) as [Hm|]; [|discriminate]. cbn [andb] in Hs.
    rewrite Ea in Hts. cbv zeta in Hts.
    pose proof Bal as (_ & BR' & _). rewrite (s64_dec (value s)) in Hts by lia.
    destruct Ht as (U & C & T).
    destruct (Z.geb_spec (value s - 1) 0) as [Hp|Hp]; injection Hts as <-; injection Hs as <-.
    + pack v s t PWRet0 HI; [bal Bal Hpc |].
      unfold thread_inv; proj_simpl; rewrite upd_same. rewrite U, C, T. repeat split; (lia || discriminate).
    + destruct k; cbn [slow_entry].
      * pack v s t PWSemWait HI; [bal Bal Hpc |].
        unfold thread_inv; proj_simpl; rewrite upd_same. auto.
      * pack v s t PWTimed HI; [bal Bal Hpc |].
        unfold thread_inv; proj_simpl; rewrite upd_same. auto.
      * pack v s t PWLoad HI; [bal Bal Hpc |].
        unfold thread_inv; proj_simpl; rewrite !upd_same. auto.
  - (* PWTimed *)
    destruct (ev_is e DV_SEM_TIMEDWAIT_RET 0 OFF_SEMA); [|discriminate]. injection Hts as <-.
    destruct Ht as (U & C & T).
    destruct (eb e =? 0).
    + destruct (Z.ltb_spec 0 (ksem s)) as [Hk|]; [|discriminate]. injection Hs as <-.
      pack v s t PWRet0 HI; [bal Bal Hpc |].
      unfold thread_inv; proj_simpl; rewrite !upd_same. rewrite U, C, T. repeat split; (lia || discriminate).
    + injection Hs as <-.
      pack v s t PWLoad HI; [bal Bal Hpc |].
      unfold thread_inv; proj_simpl; rewrite !upd_same. auto.
  - (* PWLoad *)
    destruct (ev_is e DV_LOAD MO_PLAIN OFF_VALUE); [|discriminate]. injection Hts as <-.
    destruct (s64 (ea e) =? value s); [|discriminate]. injection Hs as <-.
    pack v s t (PWUndo (s64 (ea e))) HI; [bal Bal Hpc |].
    unfold thread_inv; proj_simpl; rewrite !upd_same. exact Ht.
  - (* PWUndo *)
    destruct Ht as (U & C & T).
    destruct (Z.ltb_spec orig 0) as [Ho|Ho].
    + destruct (ev_is e DV_CASW MO_RELAXED OFF_VALUE && (s64 (eb e) =? orig + 1) &&
                  (negb (eok e =? 1) || (s64 (ea e) =? orig))); [|discriminate].
      injection Hts as <-.
      destruct ((s64 (ea e) =? value s) && (negb (eok e =? 1) || (value s =? orig))) eqn:Cnd; [|discriminate].
      apply andb_true_iff in Cnd as [_ Cnd].
      destruct (eok e =? 1); injection Hs as <-.
      * cbn [negb orb] in Cnd. apply Z.eqb_eq in Cnd.
        pack v s t PWRetT HI; [bal Bal Hpc |].
        unfold thread_inv; proj_simpl; rewrite !upd_same. rewrite U. auto.
      * pack v s t (PWUndo (s64 (ea e))) HI; [bal Bal Hpc |].
        unfold thread_inv; proj_simpl; rewrite !upd_same. auto.
    + destruct (ev_is e DV_SEM_WAIT 0 OFF_SEMA); [|discriminate]. injection Hts as <-. injection Hs as <-.
      pack v s t PWBlocked HI; [bal Bal Hpc |].
      unfold thread_inv; proj_simpl; rewrite !upd_same. auto.
  - (* PWSemWait *)
    destruct Ht as (U & C & T).
    destruct (ev_is e DV_SEM_WAIT 0 OFF_SEMA); [|discriminate]. injection Hts as <-. injection Hs as <-.
    pack v s t PWBlocked HI; [bal Bal Hpc |].
    unfold thread_inv; proj_simpl; rewrite !upd_same. auto.
  - (* PWBlocked *)
    destruct Ht as (U & C).
    destruct (ev_is e DV_SEM_WAIT_RET 0 OFF_SEMA && (eb e =? 0)); [|discriminate]. injection Hts as <-.
    destruct (Z.ltb_spec 0 (ksem s)) as [Hk|]; [|discriminate]. injection Hs as <-.
    pack v s t PWRet0 HI; [bal Bal Hpc |].
    unfold thread_inv; proj_simpl; rewrite !upd_same. rewrite U, C. repeat split; (lia || auto).
  - (* PWRet0 *)
    destruct (ev_kind e DVU_RET && (ea e =? 0)); [|discriminate]. injection Hts as <-. injection Hs as <-.
    pack v s t PIdle HI; [bal Bal Hpc |].
    unfold thread_inv; proj_simpl; rewrite !upd_same. exact I.
  - (* PWRetT *)
    destruct (ev_kind e DVU_RET && negb (ea e =? 0)); [|discriminate]. injection Hts as <-. injection Hs as <-.
    pack v s t PIdle HI; [bal Bal Hpc |].
    unfold thread_inv; proj_simpl; rewrite !upd_same. exact I.
Qed.

(* ---- consequences ---- *)
Theorem inv_reach v s : valid_init v -> reach v s -> Inv v s.
Proof.
  intros Hv. apply invariant_lift.
  - intros ? ->. apply Inv_init. exact Hv.
  - intros s0 [t e] s1 HI Hs. unfold step in Hs. cbn in Hs. eapply step_preserves; eauto.
Qed.

Lemma reach_gstep v s t e s' : reach v s -> gstep s t e = Some s' -> reach v s'.
Proof. intros R Hs. apply (reach_step _ _ s (t, e) s' R). exact Hs. Qed.

Lemma balance_reach v s : valid_init v -> reach v s -> v0 s = v /\ balance s.
Proof. intros Hv R. destruct (inv_reach v s Hv R) as (A & _ & B & _). auto. Qed.

(* permits obtainable right now = positive part of the value + kernel count
   = v + signals past their increment-and-post - waits that have obtained one *)
Lemma available_permits v s : valid_init v -> reach v s ->
  Z.max (value s) 0 + ksem s = v + (sig_finished s + cnt is_SigRet s) - (successes s + cnt is_WRet0 s).
Proof.
  intros Hv R. destruct (balance_reach v s Hv R) as (E & B0 & BR & B1 & B2 & B3 & B4). lia.
Qed.

Lemma no_spurious_success v s : valid_init v -> reach v s ->
  successes s <= v + sig_started s /\
  (* also counting the waits that have their permit but have not returned yet, against the signals that have incremented *)
  successes s + cnt is_WRet0 s <= v + (sig_started s - cnt is_SigInc s).
Proof.
  intros Hv R. destruct (balance_reach v s Hv R) as (E & B0 & BR & B1 & B2 & B3 & B4).
  destruct (cnt_nonneg s) as (N1 & N2 & N3 & N4 & N5 & N6 & N7). lia.
Qed.

Lemma cnt_quiescent w s : quiescent s -> w PIdle = 0 -> cnt w s = 0.
Proof. intros Q Hw. unfold cnt. apply tsum_zero. intros u _. rewrite Q. exact Hw. Qed.

Lemma conservation v s : valid_init v -> reach v s -> quiescent s ->
  value s = v + sig_started s - successes s /\ 0 <= value s /\ ksem s = 0 /\
  sig_finished s = sig_started s /\ waits_started s = successes s + timeouts s.
Proof.
  intros Hv R Q. destruct (balance_reach v s Hv R) as (E & B0 & BR & B1 & B2 & B3 & B4).
  rewrite !(cnt_quiescent _ s Q) in * by reflexivity. lia.
Qed.

Lemma tsum_pos_exists w f l : 0 < tsum w f l -> exists u, In u l /\ w (f u) <> 0.
Proof.
  induction l; cbn; intros H; [lia|]. destruct (Z.eq_dec (w (f a)) 0) as [E|E].
  - rewrite E in H. destruct (IHl H) as (u & Hu & Hw). exists u. split; [right; exact Hu|exact Hw].
  - exists a. split; [left; reflexivity|exact E].
Qed.

(* no lost signal: whenever some waiter is in the slow path (blocked in sem_wait / sem_timedwait or on its way there)
   while a permit is obtainable, a post is in the kernel count (the sleeper's sem_wait is enabled) or a signaller
   stands right before its sem_post *)
Lemma no_lost_signal v s t : valid_init v -> reach v s -> is_Slow (pcs s t) = 1 ->
  0 < v + (sig_finished s + cnt is_SigRet s) - (successes s + cnt is_WRet0 s) ->
  0 < ksem s \/ exists u, pcs s u = PSigPost.
Proof.
  intros Hv R Ht Hav. destruct (inv_reach v s Hv R) as (E & (ND & Sup) & (B0 & BR & B1 & B2 & B3 & B4) & _).
  destruct is_nonneg as (_ & _ & _ & _ & NS & _).
  assert (HI : In t (seen s)) by (apply Sup; intros X; rewrite X in Ht; discriminate).
  pose proof (tsum_ge_one is_Slow (pcs s) (seen s) t NS HI Ht) as S1. fold (cnt is_Slow s) in S1.
  destruct (Z.ltb_spec 0 (ksem s)) as [K|K]; [left; exact K|]. right.
  assert (P : 0 < cnt is_SigPost s) by lia.
  destruct (tsum_pos_exists _ _ _ P) as (u & _ & Hw). exists u. destruct (pcs s u); cbn in Hw; congruence.
Qed.

(* the form of the task statement: a waiter blocked with an empty kernel count and no signaller between its increment
   and its post means that no permit exists: every signal that has finished is matched by a wait that obtained it.
   (The waits that hold their permit but have not returned yet, cnt is_WRet0, must be counted: with v = 0, one finished
   signal, waiter A at `return 0` and waiter B asleep, v + sig_finished - successes = 1 and B is rightly asleep.) *)
Lemma blocked_means_no_permit v s t : valid_init v -> reach v s -> is_Slow (pcs s t) = 1 ->
  ksem s = 0 -> (forall u, pcs s u <> PSigPost) ->
  v + sig_finished s - (successes s + cnt is_WRet0 s) <= 0 /\ value s = - cnt is_Slow s /\ value s < 0.
Proof.
  intros Hv R Ht K NP. destruct (inv_reach v s Hv R) as (E & (ND & Sup) & (B0 & BR & B1 & B2 & B3 & B4) & _).
  destruct is_nonneg as (_ & _ & _ & _ & NS & _).
  assert (HI : In t (seen s)) by (apply Sup; intros X; rewrite X in Ht; discriminate).
  pose proof (tsum_ge_one is_Slow (pcs s) (seen s) t NS HI Ht) as S1. fold (cnt is_Slow s) in S1.
  assert (P : cnt is_SigPost s = 0).
  { unfold cnt. apply tsum_zero. intros u _. specialize (NP u). destruct (pcs s u); cbn; congruence. }
  destruct (cnt_nonneg s) as (N1 & N2 & N3 & N4 & N5 & N6 & N7). lia.
Qed.

(* timeout neutrality, by program point: a wait about to return non-zero has re-incremented the value exactly once
   and consumed no post; a wait about to return 0 has not re-incremented, and if it had timed out (or was a poll
   that found no permit) it has consumed exactly one post *)
Lemma timeout_neutral v s t : valid_init v -> reach v s ->
  (pcs s t = PWRetT -> g_undo s t = 1 /\ g_cons s t = 0 /\ g_tout s t = true) /\
  (pcs s t = PWRet0 -> g_undo s t = 0 /\ 0 <= g_cons s t <= 1 /\ (g_tout s t = true -> g_cons s t = 1)).
Proof.
  intros Hv R. destruct (inv_reach v s Hv R) as (_ & _ & _ & HT). specialize (HT t). unfold thread_inv in HT.
  split; intros Hp; rewrite Hp in HT; exact HT.
Qed.

(* ... and at the return itself: the API-visible result says which of the two happened *)
Lemma return_value_tells v s t e s' : valid_init v -> reach v s -> gstep s t e = Some s' -> ev_kind e DVU_RET = true ->
  (exists r, pcs s t = PSigRet r /\ ea e = r) \/
  (pcs s t = PWRet0 /\ ea e = 0 /\ successes s' = successes s + 1 /\ timeouts s' = timeouts s /\
     g_undo s t = 0 /\ (g_tout s t = true -> g_cons s t = 1)) \/
  (pcs s t = PWRetT /\ ea e <> 0 /\ timeouts s' = timeouts s + 1 /\ successes s' = successes s /\
     g_tout s t = true /\ g_undo s t = 1 /\ g_cons s t = 0).
Proof.
  intros Hv R Hs Hk. destruct (timeout_neutral v s t Hv R) as (TT & T0).
  unfold gstep in Hs. destruct (tstep (pcs s t) e) as [p'|] eqn:Hts; [|discriminate].
  unfold ev_kind in Hk. apply Z.eqb_eq in Hk.
  destruct (pcs s t) eqn:Hpc; cbn [tstep] in Hts; cbv zeta in Hs;
    try (unfold ev_kind, ev_is in Hts; rewrite Hk in Hts; cbn in Hts; discriminate).
  - left. exists r. split; [reflexivity|].
    destruct (ev_kind e DVU_RET); [|discriminate]. cbn in Hts. destruct (Z.eqb_spec (ea e) r); [auto|discriminate].
  - exfalso. destruct (orig <? 0); unfold ev_kind, ev_is in Hts; rewrite Hk in Hts; cbn in Hts; discriminate.
  - right; left. destruct (ev_kind e DVU_RET); [|discriminate]. cbn in Hts.
    destruct (Z.eqb_spec (ea e) 0); [|discriminate]. injection Hs as <-. cbn.
    destruct (T0 eq_refl) as (A & B & C). repeat split; auto.
  - right; right. destruct (ev_kind e DVU_RET); [|discriminate]. cbn in Hts.
    destruct (Z.eqb_spec (ea e) 0); [discriminate|]. injection Hs as <-. cbn.
    destruct (TT eq_refl) as (A & B & C). repeat split; auto.
Qed.

(* a non-zero return is reached only through the undo code, which is entered only through ETIMEDOUT of sem_timedwait
   or DISPATCH_TIME_NOW: the ghost g_tout is set by exactly those two transitions *)
Lemma tout_only_by_timeout_or_poll s t e s' : gstep s t e = Some s' -> g_tout s t = false -> g_tout s' t = true ->
  (exists k, pcs s t = PWDec k /\ k = WNow) \/ (pcs s t = PWTimed /\ eb e <> 0).
Proof.
  intros Hs F T. unfold gstep in Hs. destruct (tstep (pcs s t) e) as [p'|] eqn:Hts; [|discriminate].
  destruct (pcs s t) eqn:Hpc; cbn [tstep] in Hts; cbv zeta in Hs;
    repeat match type of Hs with
    | (if ?c then _ else _) = Some _ => destruct c eqn:?; try discriminate
    end; try (injection Hs as <-; cbn in T; rewrite ?upd_same in T; congruence).
  - left. exists k. split; [reflexivity|].
    destruct (ev_is e DV_SUB MO_ACQUIRE OFF_VALUE && (eb e =? 1)); [|discriminate]. cbv zeta in Hts.
    destruct (s64 (s64 (ea e) - 1) >=? 0); injection Hts as <-; injection Hs as <-; cbn in T; [congruence|].
    destruct k; cbn in T; rewrite ?upd_same in T; congruence.
  - right. split; [reflexivity|]. intros X. rewrite X in *. discriminate.
Qed.

(* the global model's thread moves are exactly moves of the per-thread automaton used for trace conformance *)
Lemma gstep_tstep s t e s' : gstep s t e = Some s' -> tstep (pcs s t) e = Some (pcs s' t).
Proof.
  unfold gstep. destruct (tstep (pcs s t) e) as [p'|]; [|discriminate]. intros Hs. f_equal.
  destruct (pcs s t); cbv zeta in Hs;
    repeat match type of Hs with
    | (if ?c then _ else _) = Some _ => destruct c; try discriminate
    end; injection Hs as <-; cbn; rewrite upd_same; reflexivity.
Qed.

(* ---- the drain: what "obtainable" means ---- *)
Lemma grun_app s a b : grun s (a ++ b) = match grun s a with Some s1 => grun s1 b | None => None end.
Proof.
  revert s. induction a as [|[t e] a IH]; intros s; cbn; [reflexivity|]. destruct (gstep s t e); [apply IH|reflexivity].
Qed.

Lemma s64_0 : s64 0 = 0. Proof. reflexivity. Qed.
Lemma s64_m1 : s64 U64_M1 = -1. Proof. reflexivity. Qed.

Lemma quiescent_upd3 (f : Z -> pc) t a b : (forall u, f u = PIdle) ->
  forall u, upd (upd (upd f t a) t b) t PIdle u = PIdle.
Proof. intros Q u. unfold upd. destruct (u =? t); [reflexivity|apply Q]. Qed.

Local Arguments s64 : simpl never.
Lemma poll_ok_run s t : quiescent s -> 0 < value s <= SEMA_LONG_MAX ->
  exists s', grun s (poll_ok t (value s)) = Some s' /\ quiescent s' /\ value s' = value s - 1 /\
             successes s' = successes s + 1 /\ timeouts s' = timeouts s.
Proof.
  unfold SEMA_LONG_MAX. intros Q R. unfold poll_ok. cbn [grun].
  unfold gstep at 1. rewrite (Q t). cbn.
  unfold gstep at 1. cbn [pcs]. rewrite upd_same. cbn. rewrite !(s64_id (value s)) by lia. rewrite Z.eqb_refl.
  rewrite (s64_id (value s - 1)) by lia.
  destruct (Z.geb_spec (value s - 1) 0) as [_|]; [|lia].
  unfold SEMA_LONG_MIN. destruct (Z.ltb_spec (-9223372036854775808) (value s)) as [_|]; [|lia]. cbn.
  unfold gstep at 1. cbn [pcs]. rewrite upd_same. cbn.
  eexists. split; [reflexivity|]. cbn. split; [|auto]. intros u. cbn [pcs]. apply quiescent_upd3. exact Q.
Qed.

Lemma quiescent_upd5 (f : Z -> pc) t a b c d : (forall u, f u = PIdle) ->
  forall u, upd (upd (upd (upd (upd f t a) t b) t c) t d) t PIdle u = PIdle.
Proof. intros Q u. unfold upd. destruct (u =? t); [reflexivity|apply Q]. Qed.

Lemma poll_timeout_run s t : quiescent s -> value s = 0 ->
  exists s', grun s (poll_timeout t) = Some s' /\ quiescent s' /\ value s' = 0 /\
             successes s' = successes s /\ timeouts s' = timeouts s + 1.
Proof.
  intros Q R. unfold poll_timeout. cbn [grun].
  unfold gstep at 1. rewrite (Q t). cbn.
  unfold gstep at 1. cbn [pcs]. rewrite upd_same. cbn. rewrite R. rewrite s64_0. cbn.
  change (s64 (-1)) with (-1). cbn.
  unfold gstep at 1. cbn [pcs]. rewrite upd_same. cbn. rewrite s64_m1. cbn.
  unfold gstep at 1. cbn [pcs]. rewrite upd_same. cbn. rewrite s64_m1, s64_0. cbn.
  unfold gstep at 1. cbn [pcs]. rewrite upd_same. cbn.
  eexists. split; [reflexivity|]. cbn. split; [|auto]. intros u. cbn [pcs]. apply quiescent_upd5. exact Q.
Qed.

Lemma drain_aux t n : forall s, quiescent s -> value s = Z.of_nat n -> value s <= SEMA_LONG_MAX ->
  exists s', grun s (drain_schedule t n) = Some s' /\ quiescent s' /\ value s' = 0 /\
             successes s' = successes s + Z.of_nat n /\ timeouts s' = timeouts s + 1.
Proof.
  induction n as [|n IH]; intros s Q Hv Hr.
  - destruct (poll_timeout_run s t Q Hv) as (s' & A & B & C & D & E). exists s'. cbn [drain_schedule Z.of_nat].
    repeat split; auto. lia.
  - cbn [drain_schedule]. rewrite <- Hv. rewrite grun_app.
    destruct (poll_ok_run s t Q) as (s1 & A & B & C & D & E); [lia|]. rewrite A.
    destruct (IH s1 B) as (s' & A' & B' & C' & D' & E'); [lia|lia|].
    exists s'. repeat split; auto; lia.
Qed.

Lemma drain_run v s t n : valid_init v -> reach v s -> quiescent s -> value s = Z.of_nat n ->
  exists s', grun s (drain_schedule t n) = Some s' /\ quiescent s' /\ value s' = 0 /\
             successes s' = successes s + Z.of_nat n /\ timeouts s' = timeouts s + 1.
Proof.
  intros Hv R Q Hn. destruct (balance_reach v s Hv R) as (_ & _ & BR & _). apply drain_aux; auto. lia.
Qed.
