(* Frames_proofs.v — theorems about Model/Frames.v, for every finite acyclic queue graph (any depth, any fan-in), every frame stack and
   every placement of keys.  Induction on the iterator's measure (rank of the current queue + ranks of the saved frames). *)
From Coq Require Import ZArith Bool List Lia Permutation.
From Verif Require Import Word Gen_consts Gen_dqstate Frames.
Import ListNotations.
Local Open Scope Z_scope.

(* ------------------------------------------------------------------ small facts *)
Lemma nz_true x : nz x = true <-> x <> 0.
Proof. unfold nz. rewrite negb_true_iff, Z.eqb_neq. tauto. Qed.
Lemma nz_false x : nz x = false <-> x = 0.
Proof. unfold nz. rewrite negb_false_iff, Z.eqb_eq. tauto. Qed.
Lemma memz_In x l : memz x l = true <-> In x l.
Proof.
  induction l as [|y l IH]; simpl; [split; [discriminate|tauto]|].
  rewrite orb_true_iff, Z.eqb_eq, IH. tauto.
Qed.

Lemma lookup_in_ids g q r : lookup g q = Some r -> In q (ids g).
Proof.
  induction g as [|[id r0] g IH]; simpl; [discriminate|].
  destruct (Z.eqb_spec id q); [left; assumption|right; auto].
Qed.
Lemma target_notin g q : ~ In q (ids g) -> target g q = 0.
Proof.
  unfold target. destruct (lookup g q) eqn:E; [|reflexivity].
  intros H; exfalso; apply H; eapply lookup_in_ids; eauto.
Qed.
Lemma rank_le g q : (rank g q <= length g)%nat.
Proof. induction g as [|[id r] g IH]; simpl; [lia|]. destruct (id =? q); lia. Qed.

Lemma wf_target_in g : wf_graph g = true -> forall q, target g q <> 0 -> In (target g q) (ids g).
Proof.
  induction g as [|[id r] g IH]; simpl; intros W q H.
  - unfold target in H; simpl in H; congruence.
  - rewrite !andb_true_iff in W. destruct W as [[[W1 W2] W3] W4].
    unfold target in *. simpl in *. destruct (Z.eqb_spec id q).
    + rewrite orb_true_iff, negb_true_iff, nz_false, memz_In in W3. destruct W3; [congruence|right; assumption].
    + right. apply IH; assumption.
Qed.
Lemma wf_target_rank g : wf_graph g = true -> forall q, target g q <> 0 -> (rank g (target g q) < rank g q)%nat.
Proof.
  induction g as [|[id r] g IH]; intros W q H.
  - unfold target in H; simpl in H; congruence.
  - pose proof (wf_target_in _ W q H) as Hin.
    simpl in W. rewrite !andb_true_iff in W. destruct W as [[[W1 W2] W3] W4].
    rewrite negb_true_iff in W2.
    assert (Hni : ~ In id (ids g)) by (rewrite <- memz_In; congruence).
    unfold target in *. simpl in *. destruct (Z.eqb_spec id q) as [->|Hne].
    + rewrite orb_true_iff, negb_true_iff, nz_false, memz_In in W3. destruct W3 as [W3|W3]; [congruence|].
      destruct (Z.eqb_spec q (q_target r)) as [E|E]; [exfalso; apply Hni; rewrite E; assumption|].
      pose proof (rank_le g (q_target r)). lia.
    + fold (target g q) in *. destruct Hin as [Hin|Hin]; [exfalso; apply Hni; rewrite Hin; apply (wf_target_in g W4 q H)|].
      destruct (Z.eqb_spec id (target g q)) as [E|E]; [exfalso; apply Hni; rewrite E; assumption|].
      apply IH; assumption.
Qed.
Lemma wf_target_zero g : wf_graph g = true -> target g 0 = 0.
Proof.
  intros W. apply target_notin. intros H.
  induction g as [|[id r] g IH]; simpl in *; [assumption|].
  rewrite !andb_true_iff in W. destruct W as [[[W1 W2] W3] W4]. apply nz_true in W1.
  destruct H; [congruence|auto].
Qed.

(* ------------------------------------------------------------------ the iterator, over an abstract measure *)
Inductive on_chain (g : graph) : Z -> Z -> Prop :=
| oc_here q : q <> 0 -> on_chain g q q
| oc_next q x : q <> 0 -> on_chain g (target g q) x -> on_chain g q x.

Lemma on_chain_nz g q x : on_chain g q x -> q <> 0.
Proof. destruct 1; assumption. Qed.
Lemma on_chain_inv g q x : on_chain g q x <-> q <> 0 /\ (x = q \/ on_chain g (target g q) x).
Proof.
  split.
  - destruct 1; split; auto.
  - intros [H [->|H1]]; [apply oc_here|apply oc_next]; assumption.
Qed.
Lemma on_chain_trans g a b c : on_chain g a b -> on_chain g b c -> on_chain g a c.
Proof. induction 1; intros; [assumption|apply oc_next; auto]. Qed.
Lemma on_chain_target_nz g q x : on_chain g q x -> x <> 0.
Proof. induction 1; assumption. Qed.

Section Iter.
Variable g : graph.
Variable rk : Z -> nat.
Hypothesis Hrk : forall q, target g q <> 0 -> (rk (target g q) < rk q)%nat.

Definition w (q : Z) : nat := if q =? 0 then O else S (rk q).
Fixpoint mu_frames (fr : list Z) : nat := match fr with [] => O | f :: fr' => S (w f + mu_frames fr') end.
Definition mu (it : iterator) : nat := (w (fst it) + mu_frames (snd it))%nat.

Lemma w_target q : q <> 0 -> (w (target g q) < w q)%nat.
Proof.
  intros H. unfold w. destruct (Z.eqb_spec q 0); [contradiction|].
  destruct (Z.eqb_spec (target g q) 0); [lia|]. specialize (Hrk q n0). lia.
Qed.

Lemma next_decreases dq fr : dq <> 0 -> (mu (iterate_next g (dq, fr)) < mu (dq, fr))%nat.
Proof.
  intros H. pose proof (w_target dq H) as Hw. unfold mu, iterate_next.
  destruct fr as [|f prev].
  - destruct (nz dq) eqn:E; [simpl; lia|apply nz_false in E; contradiction].
  - destruct (nz (target g dq)) eqn:E.
    + destruct (dq =? f); simpl; lia.
    + apply nz_false in E. rewrite E in Hw. unfold w at 1 in Hw. simpl in Hw. simpl. lia.
Qed.

(* what the walk can see: the target chain of the current queue and of every saved frame above the first frame without a queue *)
Definition vis_spec (it : iterator) (x : Z) : Prop :=
  fst it <> 0 /\ (on_chain g (fst it) x \/ exists f, In f (live_frames (snd it)) /\ on_chain g f x).

Lemma on_chain_zero x : ~ on_chain g 0 x.
Proof. intros H; apply on_chain_nz in H; congruence. Qed.

Lemma ex_live_nil (P : Z -> Prop) : (exists f', In f' (live_frames []) /\ P f') <-> False.
Proof. simpl. split; [intros [f [[] _]]|tauto]. Qed.
Lemma ex_live_cons f prev (P : Z -> Prop) : f <> 0 ->
  ((exists f', In f' (live_frames (f :: prev)) /\ P f') <-> P f \/ exists f', In f' (live_frames prev) /\ P f').
Proof.
  intros H. simpl. rewrite (proj2 (nz_true f) H). simpl. split.
  - intros [f' [[<-|Hf] Hp]]; [left; assumption|right; exists f'; auto].
  - intros [Hp|[f' [Hf Hp]]]; [exists f; auto|exists f'; auto].
Qed.
Lemma ex_live_zero prev (P : Z -> Prop) : (exists f', In f' (live_frames (0 :: prev)) /\ P f') <-> False.
Proof. simpl. split; [intros [f [[] _]]|tauto]. Qed.

Lemma vis_next dq fr x : dq <> 0 -> dq <> x -> (vis_spec (dq, fr) x <-> vis_spec (iterate_next g (dq, fr)) x).
Proof.
  intros Hd Hx.
  assert (H1 : on_chain g dq x <-> on_chain g (target g dq) x).
  { rewrite (on_chain_inv g dq x). split; [intros [_ [->|H]]; [congruence|assumption]|intros H; split; [assumption|right; assumption]]. }
  assert (H2 : on_chain g (target g dq) x -> target g dq <> 0) by apply on_chain_nz.
  unfold vis_spec, iterate_next. simpl fst. simpl snd.
  destruct fr as [|f prev].
  - rewrite (proj2 (nz_true dq) Hd). simpl fst. simpl snd. rewrite !ex_live_nil. tauto.
  - destruct (nz (target g dq)) eqn:E.
    + apply nz_true in E. destruct (Z.eqb_spec dq f) as [<-|Hne]; simpl fst; simpl snd.
      * rewrite ex_live_cons by assumption. tauto.
      * tauto.
    + apply nz_false in E. simpl fst. simpl snd. rewrite E in *.
      assert (H3 : ~ on_chain g 0 x) by apply on_chain_zero.
      destruct (Z.eq_dec f 0) as [->|Hf].
      * rewrite ex_live_zero. tauto.
      * rewrite ex_live_cons by assumption. tauto.
Qed.

Lemma find_loop_exact x : forall fuel it, (mu it < fuel)%nat ->
  exists b, find_loop g fuel it x = Some b /\ (b = true <-> vis_spec it x).
Proof.
  induction fuel as [|n IH]; intros [dq fr] Hm; [lia|].
  change (find_loop g (S n) (dq, fr) x)
    with (if nz dq then (if dq =? x then Some true else find_loop g n (iterate_next g (dq, fr)) x) else Some false).
  destruct (nz dq) eqn:E.
  - apply nz_true in E. destruct (Z.eqb_spec dq x) as [<-|Hne].
    + exists true. split; [reflexivity|]. split; [|reflexivity]. intros _. split; [assumption|left; apply oc_here; assumption].
    + pose proof (next_decreases dq fr E). destruct (IH (iterate_next g (dq, fr))) as [b [Hb Hs]]; [lia|].
      exists b. split; [assumption|]. rewrite Hs. symmetry. apply vis_next; assumption.
  - apply nz_false in E. exists false. split; [reflexivity|]. split; [discriminate|]. intros [H _]. simpl in H. contradiction.
Qed.
End Iter.

(* ------------------------------------------------------------------ find_queue on a well-formed graph *)
Lemma w_le g q : (w (rank g) q <= S (length g))%nat.
Proof. unfold w. destruct (q =? 0); [lia|]. pose proof (rank_le g q). lia. Qed.
Lemma mu_frames_le g fr : (mu_frames (rank g) fr <= length fr * S (S (length g)))%nat.
Proof. induction fr as [|f fr IH]; simpl; [lia|]. pose proof (w_le g f). lia. Qed.

Theorem find_queue_total g th x : wf_graph g = true ->
  exists b, find_queue_opt g th x = Some b /\
    (b = true <-> t_cq th <> 0 /\ (on_chain g (t_cq th) x \/ exists f, In f (live_frames (t_frames th)) /\ on_chain g f x)).
Proof.
  intros W. unfold find_queue_opt.
  apply (find_loop_exact g (rank g) (wf_target_rank g W) x (find_fuel g th) (iterate_start th)).
  unfold mu, iterate_start, find_fuel. simpl fst. simpl snd.
  pose proof (w_le g (t_cq th)). pose proof (mu_frames_le g (t_frames th)). lia.
Qed.

Theorem find_queue_exact g th x : wf_graph g = true ->
  (find_queue g th x = true <->
   t_cq th <> 0 /\ (on_chain g (t_cq th) x \/ exists f, In f (live_frames (t_frames th)) /\ on_chain g f x)).
Proof.
  intros W. destruct (find_queue_total g th x W) as [b [Hb Hs]]. unfold find_queue. rewrite Hb. exact Hs.
Qed.

(* the chain as a list is the same thing as on_chain *)
Lemma chain_fuel_on_chain g x : wf_graph g = true -> forall n q, (w (rank g) q <= n)%nat -> (In x (chain_fuel g n q) <-> on_chain g q x).
Proof.
  intros W. induction n as [|n IH]; intros q Hq.
  - unfold w in Hq. destruct (Z.eqb_spec q 0); [|lia]. subst. simpl. split; [tauto|]. intros H; apply on_chain_nz in H; congruence.
  - simpl. destruct (nz q) eqn:E.
    + apply nz_true in E. pose proof (w_target g (rank g) (wf_target_rank g W) q E) as Hw.
      rewrite (on_chain_inv g q x). simpl. rewrite IH by lia. split; [intros [<-|H']; auto|intros [_ [->|H']]; auto].
    + apply nz_false in E. subst. simpl. split; [tauto|]. intros H; apply on_chain_nz in H; congruence.
Qed.
Theorem chain_on_chain g q x : wf_graph g = true -> (In x (chain g q) <-> on_chain g q x).
Proof. intros W. apply chain_fuel_on_chain; [assumption|apply w_le]. Qed.

Lemma flat_map_In_chain g l x : In x (flat_map (chain g) l) <-> exists f, In f l /\ In x (chain g f).
Proof. rewrite in_flat_map. tauto. Qed.

Theorem find_queue_visible g th x : wf_graph g = true -> (find_queue g th x = true <-> In x (visible g th)).
Proof.
  intros W. rewrite find_queue_exact by assumption. unfold visible. destruct (nz (t_cq th)) eqn:E.
  - apply nz_true in E. rewrite in_app_iff, chain_on_chain, flat_map_In_chain by assumption. split.
    + intros [_ [H|[f [Hf H]]]]; [left; assumption|right; exists f; split; [assumption|apply chain_on_chain; assumption]].
    + intros [H|[f [Hf H]]]; (split; [assumption|]); [left; assumption|right; exists f; split; [assumption|apply chain_on_chain; assumption]].
  - apply nz_false in E. simpl. split; [intros [H _]; contradiction|tauto].
Qed.

(* frames that only repeat queues of the current chain (what redirection may or may not leave out) change nothing *)
Lemma live_frames_In f fr : In f (live_frames fr) -> In f fr /\ f <> 0.
Proof.
  induction fr as [|a fr IH]; simpl; [tauto|]. destruct (nz a) eqn:E; [|simpl; tauto]. apply nz_true in E.
  intros [<-|H]; [split; [left; reflexivity|assumption]|destruct (IH H); split; [right; assumption|assumption]].
Qed.
Theorem frames_on_chain_irrelevant g cq fr x : wf_graph g = true -> cq <> 0 ->
  (forall f, In f fr -> f <> 0 -> on_chain g cq f) ->
  (find_queue g {| t_cq := cq; t_frames := fr |} x = true <-> on_chain g cq x).
Proof.
  intros W Hc Hf. rewrite find_queue_exact by assumption. simpl. split.
  - intros [_ [H|[f [Hin H]]]]; [assumption|]. apply live_frames_In in Hin. destruct Hin. eapply on_chain_trans; eauto.
  - intros H. split; [assumption|left; assumption].
Qed.

(* ------------------------------------------------------------------ dispatch_assert_queue / dispatch_assert_queue_not *)
Theorem assert_queue_exact g st tid th dq r : lookup g dq = Some r -> valid_assert_type r = true ->
  (assert_queue g st tid th dq = APass <-> locked_by_self st tid = true \/ find_queue g th dq = true) /\
  (assert_queue g st tid th dq = AFail <-> locked_by_self st tid = false /\ find_queue g th dq = false).
Proof.
  intros L V. unfold assert_queue. rewrite L, V. simpl.
  destruct (locked_by_self st tid); destruct (find_queue g th dq); split; split; intros; try discriminate; try reflexivity; intuition discriminate.
Qed.
Theorem assert_queue_not_complement g st tid th dq r : lookup g dq = Some r -> valid_assert_type r = true ->
  (assert_queue_not g st tid th dq = APass <-> assert_queue g st tid th dq = AFail) /\
  (assert_queue_not g st tid th dq = AFail <-> assert_queue g st tid th dq = APass) /\
  assert_queue g st tid th dq <> ACrash /\ assert_queue_not g st tid th dq <> ACrash.
Proof.
  intros L V. unfold assert_queue, assert_queue_not. rewrite L, V. simpl.
  destruct (locked_by_self st tid); destruct (find_queue g th dq); repeat split; intros; try discriminate; try reflexivity.
Qed.
Theorem assert_queue_invalid_type g st tid th dq :
  (lookup g dq = None \/ exists r, lookup g dq = Some r /\ valid_assert_type r = false) ->
  assert_queue g st tid th dq = ACrash /\ assert_queue_not g st tid th dq = ACrash.
Proof.
  unfold assert_queue, assert_queue_not. intros [L|[r [L V]]]; rewrite L; [split; reflexivity|]. rewrite V. split; reflexivity.
Qed.

(* ------------------------------------------------------------------ dispatch_get_specific *)
(* the value of the nearest queue, from dq down the target chain, that has a (non-NULL) value for key; NULL if none *)
Inductive nearest (g : graph) (key : Z) : Z -> Z -> Prop :=
| near_none : nearest g key 0 0
| near_here q v : q <> 0 -> get_specific_inline g q key = v -> v <> 0 -> nearest g key q v
| near_skip q v : q <> 0 -> get_specific_inline g q key = 0 -> nearest g key (target g q) v -> nearest g key q v.

Lemma nearest_functional g key q v1 : nearest g key q v1 -> forall v2, nearest g key q v2 -> v1 = v2.
Proof.
  induction 1; intros v2 H2; inversion H2; subst; try congruence; auto.
Qed.

Lemma get_specific_loop_exact g key : wf_graph g = true -> forall fuel dq, dq <> 0 -> (w (rank g) dq <= fuel)%nat ->
  exists v, get_specific_loop g fuel dq key = Some v /\ nearest g key dq v.
Proof.
  intros W. induction fuel as [|n IH]; intros dq Hd Hf.
  - unfold w in Hf. destruct (Z.eqb_spec dq 0); [contradiction|lia].
  - simpl. destruct (Z.eqb_spec (get_specific_inline g dq key) 0) as [E|E]; simpl.
    + destruct (nz (target g dq)) eqn:E2.
      * apply nz_true in E2. pose proof (w_target g (rank g) (wf_target_rank g W) dq Hd).
        destruct (IH (target g dq) E2) as [v [Hv Hn]]; [lia|]. exists v. split; [assumption|apply near_skip; assumption].
      * apply nz_false in E2. exists (get_specific_inline g dq key). split; [reflexivity|]. rewrite E.
        apply near_skip; [assumption|assumption|rewrite E2; apply near_none].
    + exists (get_specific_inline g dq key). split; [reflexivity|apply near_here; auto].
Qed.

Theorem get_specific_nearest g th key : wf_graph g = true -> key <> 0 -> t_cq th <> 0 ->
  exists v, get_specific_opt g th key = Some v /\ nearest g key (t_cq th) v.
Proof.
  intros W Hk Hc. unfold get_specific_opt.
  rewrite (proj2 (nz_true key) Hk), (proj2 (nz_true (t_cq th)) Hc). cbn [andb].
  apply get_specific_loop_exact; [assumption|assumption|apply w_le].
Qed.
Theorem get_specific_null g th key : key = 0 \/ t_cq th = 0 -> get_specific_opt g th key = Some 0.
Proof.
  unfold get_specific_opt. intros [E | E]; rewrite E; simpl; [reflexivity|]. rewrite andb_false_r. reflexivity.
Qed.

(* the executable specification used by the correspondence is the same thing *)
Lemma nearest_chain_fuel g key : wf_graph g = true -> forall n q, (w (rank g) q <= n)%nat ->
  nearest g key q (first_nonnull (map (fun q => get_specific_inline g q key) (chain_fuel g n q))).
Proof.
  intros W. induction n as [|n IH]; intros q Hq.
  - unfold w in Hq. destruct (Z.eqb_spec q 0); [|lia]. subst. simpl. apply near_none.
  - simpl. destruct (nz q) eqn:E.
    + apply nz_true in E. pose proof (w_target g (rank g) (wf_target_rank g W) q E). simpl.
      destruct (nz (get_specific_inline g q key)) eqn:E2.
      * apply nz_true in E2. apply near_here; auto.
      * apply nz_false in E2. apply near_skip; [assumption|assumption|apply IH; lia].
    + apply nz_false in E. subst. simpl. apply near_none.
Qed.
Theorem nearest_specific_correct g top key : wf_graph g = true -> key <> 0 -> nearest g key top (nearest_specific g top key).
Proof.
  intros W Hk. unfold nearest_specific. destruct (nz key) eqn:E; [|apply nz_false in E; contradiction].
  apply nearest_chain_fuel; [assumption|apply w_le].
Qed.

(* "has the key": with the invariant that stored values are non-NULL (kept by set_specific, below) a queue contributes exactly when
   it admits specifics and its list has an entry for the key *)
Definition holds (g : graph) (q key v : Z) : Prop :=
  exists r e, lookup g q = Some r /\ admits_specific r = true /\ q_head r = true /\ specific_find (q_entries r) key = Some e /\ e_ctxt e = v.
Lemma inline_holds g q key v : v <> 0 -> (get_specific_inline g q key = v <-> holds g q key v).
Proof.
  intros Hv. unfold get_specific_inline, holds. split.
  - destruct (lookup g q) as [r|]; [|congruence].
    destruct (admits_specific r) eqn:A; simpl; [|congruence]. destruct (q_head r) eqn:Hh; simpl; [|congruence].
    destruct (specific_find (q_entries r) key) as [e|] eqn:F; [|congruence]. intros <-. exists r, e. auto.
  - intros [r [e [L [A [Hh [F <-]]]]]]. rewrite L, A, Hh, F. reflexivity.
Qed.

(* ------------------------------------------------------------------ dispatch_queue_set_specific *)
Definition entries_ok (l : list entry) : Prop := NoDup (map e_key l) /\ Forall (fun e => e_ctxt e <> 0) l.
Definition specifics_ok (g : graph) : Prop := forall q r, lookup g q = Some r -> q_head r = true -> entries_ok (q_entries r).

Lemma specific_find_key l key e : specific_find l key = Some e -> e_key e = key /\ In e l.
Proof.
  induction l as [|a l IH]; simpl; [discriminate|]. destruct (Z.eqb_spec (e_key a) key).
  - intros [= <-]. auto.
  - intros H. destruct (IH H). auto.
Qed.
Lemma specific_find_none l key : ~ In key (map e_key l) -> specific_find l key = None.
Proof.
  induction l as [|a l IH]; simpl; [reflexivity|]. intros H. destruct (Z.eqb_spec (e_key a) key); [tauto|]. apply IH. tauto.
Qed.

Definition old_posts (l : list entry) (key : Z) : list (Z * Z) :=
  match specific_find l key with Some e => if nz (e_dtor e) then [(e_ctxt e, e_dtor e)] else [] | None => [] end.

Lemma entries_set_keys l key ctxt dtor k' :
  In k' (map e_key (fst (entries_set l key ctxt dtor))) -> k' = key \/ In k' (map e_key l).
Proof.
  induction l as [|a l IH]; simpl.
  - destruct (nz ctxt); simpl; [intros [H|[]]; left; auto|tauto].
  - destruct (Z.eqb_spec (e_key a) key) as [Ek|Ek].
    + destruct (nz ctxt); simpl; [intros [H|H]; [left; auto|right; right; assumption]|intros H; right; right; assumption].
    + destruct (entries_set l key ctxt dtor) as [l'' p]. simpl in *. intros [H|H]; [right; left; assumption|].
      destruct (IH H); [left; assumption|right; right; assumption].
Qed.
Lemma entries_set_find_same l key ctxt dtor : NoDup (map e_key l) ->
  specific_find (fst (entries_set l key ctxt dtor)) key
    = (if nz ctxt then Some {| e_key := key; e_ctxt := ctxt; e_dtor := dtor |} else None).
Proof.
  induction l as [|a l IH]; simpl; intros ND.
  - destruct (nz ctxt); simpl; [rewrite Z.eqb_refl|]; reflexivity.
  - inversion ND as [|? ? ND1 ND2]; subst. destruct (Z.eqb_spec (e_key a) key) as [Ek|Ek].
    + destruct (nz ctxt); simpl; [rewrite Z.eqb_refl; reflexivity|]. apply specific_find_none. rewrite <- Ek. assumption.
    + specialize (IH ND2). destruct (entries_set l key ctxt dtor) as [l'' p]. simpl in *.
      destruct (Z.eqb_spec (e_key a) key); [contradiction|assumption].
Qed.
Lemma entries_set_find_other l key ctxt dtor k' : k' <> key ->
  specific_find (fst (entries_set l key ctxt dtor)) k' = specific_find l k'.
Proof.
  intros Hk. induction l as [|a l IH]; simpl.
  - destruct (nz ctxt); simpl; [|reflexivity]. destruct (Z.eqb_spec key k'); [congruence|reflexivity].
  - destruct (Z.eqb_spec (e_key a) key) as [Ek|Ek].
    + destruct (Z.eqb_spec (e_key a) k'); [congruence|]. destruct (nz ctxt); simpl; [|reflexivity].
      destruct (Z.eqb_spec key k'); [congruence|reflexivity].
    + destruct (entries_set l key ctxt dtor) as [l'' p]. simpl in *. destruct (Z.eqb_spec (e_key a) k'); [reflexivity|assumption].
Qed.
Lemma entries_set_posts l key ctxt dtor : snd (entries_set l key ctxt dtor) = old_posts l key.
Proof.
  unfold old_posts. induction l as [|a l IH]; simpl; [reflexivity|].
  destruct (Z.eqb_spec (e_key a) key); [reflexivity|]. destruct (entries_set l key ctxt dtor) as [l'' p]. simpl in *. assumption.
Qed.
Lemma entries_set_ok l key ctxt dtor : entries_ok l -> entries_ok (fst (entries_set l key ctxt dtor)).
Proof.
  unfold entries_ok. induction l as [|a l IH]; intros [ND NZ].
  - simpl. destruct (nz ctxt) eqn:E; simpl; split; constructor; try constructor; [simpl; tauto|apply nz_true; assumption].
  - inversion ND as [|? ? ND1 ND2]; subst. inversion NZ as [|? ? NZ1 NZ2]; subst.
    pose proof (entries_set_keys l key ctxt dtor) as KI.
    simpl. destruct (Z.eqb_spec (e_key a) key) as [Ek|Ek].
    + destruct (nz ctxt) eqn:E; simpl.
      * split; [simpl; rewrite <- Ek; constructor; assumption|constructor; [simpl; apply nz_true; assumption|assumption]].
      * split; assumption.
    + destruct (IH (conj ND2 NZ2)) as [I1 I2]. destruct (entries_set l key ctxt dtor) as [l'' p]. simpl in *.
      split; [|constructor; assumption]. constructor; [|assumption].
      intros H. apply KI in H. destruct H; [congruence|contradiction].
Qed.

Lemma lookup_update g q r' q' :
  lookup (update g q r') q' = if q' =? q then (match lookup g q with Some _ => Some r' | None => None end) else lookup g q'.
Proof.
  induction g as [|[id r] g IH]; simpl.
  - destruct (q' =? q); reflexivity.
  - destruct (Z.eqb_spec id q) as [->|Hne]; simpl.
    + destruct (Z.eqb_spec q q') as [<-|H]; [rewrite Z.eqb_refl; reflexivity|].
      destruct (Z.eqb_spec q' q); [congruence|reflexivity].
    + destruct (Z.eqb_spec id q') as [->|H].
      * destruct (Z.eqb_spec q' q); [congruence|reflexivity].
      * apply IH.
Qed.
Lemma ids_update g q r' : ids (update g q r') = ids g.
Proof. induction g as [|[id r] g IH]; simpl; [reflexivity|]. destruct (id =? q); simpl; congruence. Qed.
Lemma wf_update g q r' : (forall r, lookup g q = Some r -> q_target r' = q_target r) -> wf_graph (update g q r') = wf_graph g.
Proof.
  induction g as [|[id r] g IH]; intros H; [reflexivity|].
  simpl. destruct (Z.eqb_spec id q) as [->|Hne]; simpl.
  - rewrite (H r) by (simpl; rewrite Z.eqb_refl; reflexivity). reflexivity.
  - rewrite ids_update, IH; [reflexivity|]. intros r0 L. apply H. simpl. destruct (Z.eqb_spec id q); [contradiction|assumption].
Qed.

Definition with_entries (r : qrec) (ents : list entry) : qrec :=
  {| q_target := q_target r; q_type := q_type r; q_width := q_width r; q_bound := q_bound r; q_head := true; q_entries := ents |}.

Lemma set_main g dq key ctxt dtor r : specifics_ok g -> key <> 0 -> lookup g dq = Some r -> admits_specific r = true ->
  let ents := if q_head r then q_entries r else [] in
  let g' := update g dq (with_entries r (fst (entries_set ents key ctxt dtor))) in
  queue_get_specific g' dq key = ctxt /\
  (forall q' k', q' <> dq \/ k' <> key -> get_specific_inline g' q' k' = get_specific_inline g q' k') /\
  (forall q', target g' q' = target g q') /\ wf_graph g' = wf_graph g /\ specifics_ok g' /\
  snd (entries_set ents key ctxt dtor) = old_posts ents key.
Proof.
  intros OK Hk L A ents g'.
  assert (EOK : entries_ok ents).
  { subst ents. destruct (q_head r) eqn:Hh; [apply (OK dq r L Hh)|split; constructor]. }
  pose proof (entries_set_find_same ents key ctxt dtor (proj1 EOK)) as S1.
  pose proof (fun k' => entries_set_find_other ents key ctxt dtor k') as S2.
  pose proof (entries_set_ok ents key ctxt dtor EOK) as S4.
  set (ents' := fst (entries_set ents key ctxt dtor)) in *.
  assert (A' : admits_specific (with_entries r ents') = true) by exact A.
  assert (L' : lookup g' dq = Some (with_entries r ents')) by (subst g'; rewrite lookup_update, Z.eqb_refl, L; reflexivity).
  split; [|split; [|split; [|split; [|split]]]].
  - unfold queue_get_specific, get_specific_inline. rewrite (proj2 (nz_true key) Hk), L', A'. simpl. rewrite S1.
    destruct (nz ctxt) eqn:Ec; [reflexivity|apply nz_false in Ec; congruence].
  - intros q' k' Hd. unfold get_specific_inline. destruct (Z.eq_dec q' dq) as [->|Hq].
    + rewrite L', L, A', A. simpl. destruct Hd as [Hd|Hd]; [congruence|]. rewrite (S2 k' Hd). subst ents.
      destruct (q_head r); [reflexivity|]. simpl. reflexivity.
    + subst g'. rewrite lookup_update. destruct (Z.eqb_spec q' dq); [contradiction|reflexivity].
  - intros q'. unfold target. destruct (Z.eq_dec q' dq) as [->|Hq].
    + rewrite L', L. reflexivity.
    + subst g'. rewrite lookup_update. destruct (Z.eqb_spec q' dq); [contradiction|reflexivity].
  - subst g'. apply wf_update. intros r0 L0. rewrite L in L0. injection L0 as <-. reflexivity.
  - intros q' r0 L0 H0. destruct (Z.eq_dec q' dq) as [->|Hq].
    + rewrite L' in L0. injection L0 as <-. exact S4.
    + subst g'. rewrite lookup_update in L0. destruct (Z.eqb_spec q' dq); [contradiction|]. exact (OK q' r0 L0 H0).
  - apply entries_set_posts.
Qed.

Theorem set_specific_replaces g dq key ctxt dtor r : specifics_ok g -> key <> 0 ->
  lookup g dq = Some r -> admits_specific r = true ->
  exists g' posted, set_specific g dq key ctxt dtor = SetOk g' posted /\
    (* afterwards the queue reports the new value for the key (NULL = the entry is gone) ... *)
    queue_get_specific g' dq key = ctxt /\
    (* ... nothing else changed ... *)
    (forall q' k', q' <> dq \/ k' <> key -> get_specific_inline g' q' k' = get_specific_inline g q' k') /\
    (forall q', target g' q' = target g q') /\ wf_graph g' = wf_graph g /\ specifics_ok g' /\
    (* ... and the destructor of the value that was there (if it had one) is posted, once, with that value *)
    posted = old_posts (if q_head r then q_entries r else []) key.
Proof.
  intros OK Hk L A. unfold set_specific.
  rewrite (proj2 (nz_true key) Hk). cbn [negb]. rewrite L, A. cbn [negb].
  destruct (negb (q_head r) && negb (nz ctxt)) eqn:E.
  - (* no head, NULL value: nothing happens *)
    apply andb_true_iff in E. destruct E as [E1 E2]. apply negb_true_iff in E1, E2. apply nz_false in E2. subst ctxt.
    exists g, []. split; [reflexivity|]. rewrite E1.
    split; [|split; [auto|split; [auto|split; [auto|split; [exact OK|reflexivity]]]]].
    unfold queue_get_specific, get_specific_inline. rewrite (proj2 (nz_true key) Hk), L, A, E1. reflexivity.
  - pose proof (set_main g dq key ctxt dtor r OK Hk L A) as M. cbv zeta in M.
    destruct (entries_set (if q_head r then q_entries r else []) key ctxt dtor) as [ents' posted] eqn:Es.
    simpl fst in M. simpl snd in M. exists (update g dq (with_entries r ents')), posted. split; [reflexivity|].
    destruct M as [M1 [M2 [M3 [M4 [M5 M6]]]]].
    split; [exact M1|split; [exact M2|split; [exact M3|split; [exact M4|split; [exact M5|exact M6]]]]].
Qed.

(* over a whole history of set_specific calls on one queue followed by its disposal, every value stored with a destructor has the
   destructor posted exactly once with that value: posts so far + entries still holding a destructor = the values set so far *)
Definition dtor_entries (l : list entry) : list (Z * Z) := map (fun e => (e_ctxt e, e_dtor e)) (filter (fun e => nz (e_dtor e)) l).
Lemma entries_set_conserves l key ctxt dtor :
  Permutation (snd (entries_set l key ctxt dtor) ++ dtor_entries (fst (entries_set l key ctxt dtor)))
              ((if nz ctxt && nz dtor then [(ctxt, dtor)] else []) ++ dtor_entries l).
Proof.
  unfold dtor_entries. induction l as [|a l IH].
  - simpl. destruct (nz ctxt); simpl; [destruct (nz dtor); simpl; apply Permutation_refl|apply Permutation_refl].
  - simpl. destruct (Z.eqb_spec (e_key a) key).
    + destruct (nz ctxt); simpl.
      * destruct (nz (e_dtor a)); destruct (nz dtor); simpl; try apply Permutation_refl. apply perm_swap.
      * destruct (nz (e_dtor a)); simpl; apply Permutation_refl.
    + destruct (entries_set l key ctxt dtor) as [l'' p]. simpl in *.
      destruct (nz (e_dtor a)); simpl.
      * eapply Permutation_trans; [apply Permutation_sym, Permutation_middle|].
        eapply Permutation_trans; [apply perm_skip, IH|]. apply Permutation_middle.
      * exact IH.
Qed.

(* a whole history of set_specific calls on one queue's list (keys, values, destructors arbitrary) *)
Fixpoint run_entries (l : list entry) (ops : list (Z * Z * Z)) : list entry * list (Z * Z) :=
  match ops with
  | [] => (l, [])
  | (k, c, d) :: ops' =>
      let '(l1, p1) := entries_set l k c d in
      let '(l2, p2) := run_entries l1 ops' in (l2, p1 ++ p2)
  end.
Definition sets_with_dtor (ops : list (Z * Z * Z)) : list (Z * Z) :=
  flat_map (fun '(k, c, d) => if nz c && nz d then [(c, d)] else []) ops.
Theorem destructors_exactly_once ops : forall l,
  Permutation (snd (run_entries l ops) ++ dtor_entries (fst (run_entries l ops))) (sets_with_dtor ops ++ dtor_entries l).
Proof.
  induction ops as [|[[k c] d] ops IH]; intros l; [apply Permutation_refl|].
  simpl. pose proof (entries_set_conserves l k c d) as C.
  destruct (entries_set l k c d) as [l1 p1]. specialize (IH l1). destruct (run_entries l1 ops) as [l2 p2]. simpl in *.
  rewrite <- !app_assoc.
  eapply Permutation_trans; [apply Permutation_app_head, IH|].
  eapply Permutation_trans; [apply Permutation_app_swap_app|].
  eapply Permutation_trans; [apply Permutation_app_head, C|].
  eapply Permutation_trans; [apply Permutation_app_swap_app|]. apply Permutation_refl.
Qed.
Lemma dispose_posts_dtor_entries r : q_head r = true -> dispose_posts r = dtor_entries (q_entries r).
Proof. unfold dispose_posts. intros ->. reflexivity. Qed.

(* ------------------------------------------------------------------ frames_of_path *)
Lemma last_cons (a : Z) l : forall d, last (a :: l) d = last l a.
Proof.
  revert a. induction l as [|b l IH]; intros a d; [reflexivity|].
  change (last (a :: b :: l) d) with (last (b :: l) d). rewrite (IH b d), (IH b a). reflexivity.
Qed.
Lemma last_in (l : list Z) : forall d, last l d = d \/ In (last l d) l.
Proof.
  induction l as [|a l IH]; intros d; [left; reflexivity|]. rewrite last_cons. destruct (IH a) as [->|H]; right; [left; reflexivity|right; assumption].
Qed.
Lemma fold_push_cq l : forall th, t_cq (fold_left frame_push l th) = last l (t_cq th).
Proof.
  induction l as [|a l IH]; intros th; [reflexivity|].
  change (fold_left frame_push (a :: l) th) with (fold_left frame_push l (frame_push th a)).
  rewrite IH, last_cons. reflexivity.
Qed.
Lemma fold_push_frames l : forall th f, In f (t_frames (fold_left frame_push l th)) -> In f (t_cq th :: l) \/ In f (t_frames th).
Proof.
  induction l as [|a l IH]; intros th f; simpl; [tauto|]. intros H. apply IH in H. simpl in H.
  destruct H as [[<-|H]|[<-|H]]; auto.
Qed.
Lemma cut_bound_incl g l x : In x (cut_bound g l) -> In x l.
Proof.
  induction l as [|a l IH]; simpl; [tauto|]. destruct (is_bound g a); simpl; [tauto|]. intros [H|H]; auto.
Qed.
Lemma cut_bound_head g a l : exists l', cut_bound g (a :: l) = a :: l'.
Proof. simpl. destruct (is_bound g a); eauto. Qed.
Lemma chain_head g q : q <> 0 -> exists l, chain g q = q :: l.
Proof. intros H. unfold chain. simpl. apply nz_true in H. rewrite H. eauto. Qed.

Lemma async_thread_spec g top skipped : wf_graph g = true -> top <> 0 ->
  t_cq (async_thread g top skipped) = top /\
  forall f, In f (t_frames (async_thread g top skipped)) -> on_chain g top f.
Proof.
  intros W Ht. unfold async_thread.
  destruct (chain_head g top Ht) as [l Hl]. destruct (cut_bound_head g top l) as [l' Hl'].
  assert (Hin : forall x, In x (top :: l') -> on_chain g top x).
  { intros x Hx. apply chain_on_chain; [assumption|]. rewrite Hl. eapply cut_bound_incl. rewrite Hl'. exact Hx. }
  rewrite Hl, Hl'. simpl rev.
  destruct (rev l') as [|entry ups] eqn:Er.
  - simpl. split; [reflexivity|simpl; tauto].
  - simpl. rewrite filter_app. simpl. rewrite Z.eqb_refl. simpl.
    rewrite fold_left_app. simpl. split; [reflexivity|].
    assert (Hrev : forall x, In x (entry :: ups) -> In x l') by (intros x Hx; apply in_rev; rewrite Er; exact Hx).
    intros f [<-|Hf].
    + (* the frame saved by the last push: the current queue before it *)
      rewrite fold_push_cq. simpl.
      assert (Hl2 : In (last (filter (fun q => (q =? top) || negb (memz q skipped)) ups) entry) (entry :: ups)).
      { destruct (last_in (filter (fun q => (q =? top) || negb (memz q skipped)) ups) entry) as [->|H]; [left; reflexivity|].
        right. apply filter_In in H. tauto. }
      apply Hin. right. apply Hrev. exact Hl2.
    + apply fold_push_frames in Hf. simpl in Hf. apply Hin. right. apply Hrev.
      destruct Hf as [[<-|Hf]|[]]; [left; reflexivity|right]. apply filter_In in Hf. tauto.
Qed.

Lemma last_In_chain g q : q <> 0 -> In (bottom g q) (chain g q).
Proof.
  intros H. unfold bottom. destruct (chain_head g q H) as [l ->].
  generalize q. induction l as [|a l IH]; intros b; [left; reflexivity|]. right. apply IH.
Qed.

Theorem path_current_queue g p : wf_graph g = true -> path_top p <> 0 -> t_cq (frames_of_path g p) = path_top p.
Proof.
  intros W Ht. destruct p as [top sk|top ctx|top ctx runner|dq|ctx]; simpl in *; try reflexivity.
  - apply async_thread_spec; assumption.
  - destruct (nz (target g dq)); reflexivity.
Qed.

Lemma push_visible g top ctx x : wf_graph g = true -> top <> 0 ->
  (find_queue g {| t_cq := top; t_frames := t_cq ctx :: t_frames ctx |} x = true <-> on_chain g top x \/ find_queue g ctx x = true).
Proof.
  intros W Ht. rewrite !find_queue_exact by assumption. simpl t_cq. simpl t_frames.
  destruct (Z.eq_dec (t_cq ctx) 0) as [E|E].
  - rewrite E, ex_live_zero. tauto.
  - rewrite ex_live_cons by assumption. tauto.
Qed.

Theorem path_visible g p x : wf_graph g = true -> path_top p <> 0 ->
  (find_queue g (frames_of_path g p) x = true <->
   on_chain g (path_top p) x \/ match path_ctx p with Some c => find_queue g c x = true | None => False end).
Proof.
  intros W Ht. destruct p as [top sk|top ctx|top ctx runner|dq|ctx]; simpl in *.
  5: { rewrite (find_queue_exact g ctx x W). tauto. }
  - destruct (async_thread_spec g top sk W Ht) as [Hc Hf].
    destruct (async_thread g top sk) as [cq fr] eqn:Ea. simpl in *. subst cq.
    rewrite frames_on_chain_irrelevant; [tauto|assumption|assumption|intros; apply Hf; assumption].
  - apply push_visible; assumption.
  - apply push_visible; assumption.
  - destruct (nz (target g dq)) eqn:E.
    + unfold frame_push, frame_save_state. simpl.
      rewrite frames_on_chain_irrelevant; [tauto|assumption|assumption|].
      intros f [<-|[]] _. apply chain_on_chain; [assumption|apply last_In_chain; assumption].
    + rewrite frames_on_chain_irrelevant; [tauto|assumption|assumption|simpl; tauto].
Qed.

(* the executor-side hand-off (push_and_rebase onto the waiter's saved state) shows exactly what the waiter would show itself *)
Theorem remote_same_as_self g top ctx runner : frames_of_path g (PSyncRemote top ctx runner) = frames_of_path g (PSync top ctx).
Proof. reflexivity. Qed.

(* inside a work item *)
Theorem item_get_specific g p key : wf_graph g = true -> path_top p <> 0 -> key <> 0 ->
  exists v, get_specific_opt g (frames_of_path g p) key = Some v /\ nearest g key (path_top p) v.
Proof.
  intros W Ht Hk. pose proof (path_current_queue g p W Ht) as Hc.
  destruct (get_specific_nearest g (frames_of_path g p) key W Hk) as [v [Hv Hn]]; [rewrite Hc; assumption|].
  exists v. rewrite Hc in Hn. split; assumption.
Qed.
Theorem item_current_queue g p dflt : wf_graph g = true -> path_top p <> 0 ->
  current_queue_or_default dflt (frames_of_path g p) = path_top p.
Proof.
  intros W Ht. unfold current_queue_or_default. rewrite path_current_queue by assumption.
  destruct (nz (path_top p)) eqn:E; [reflexivity|apply nz_false in E; contradiction].
Qed.
Theorem item_assert_queue g p st tid q r : wf_graph g = true -> path_top p <> 0 -> lookup g q = Some r -> valid_assert_type r = true ->
  (assert_queue g st tid (frames_of_path g p) q = APass <->
     locked_by_self st tid = true \/ on_chain g (path_top p) q \/
     match path_ctx p with Some c => find_queue g c q = true | None => False end) /\
  (assert_queue_not g st tid (frames_of_path g p) q = APass <->
     ~ (locked_by_self st tid = true \/ on_chain g (path_top p) q \/
        match path_ctx p with Some c => find_queue g c q = true | None => False end)).
Proof.
  intros W Ht L V.
  destruct (assert_queue_exact g st tid (frames_of_path g p) q r L V) as [A1 A2].
  destruct (assert_queue_not_complement g st tid (frames_of_path g p) q r L V) as [N1 _].
  pose proof (path_visible g p q W Ht) as PV. split.
  - rewrite A1, PV. tauto.
  - rewrite N1, A2. rewrite <- PV. destruct (locked_by_self st tid); destruct (find_queue g (frames_of_path g p) q); intuition congruence.
Qed.

(* ------------------------------------------------------------------ the drain-lock disjunct under an explicit discipline
   (audit F17): dispatch_assert_queue(q) also passes when q's dq_state names the caller as drain owner.  `lock_discipline`: every
   queue whose drain lock the executing thread holds is one the frame iterator finds.  Under it the lock word is no longer free:
   dispatch_assert_queue accepts EXACTLY what find_queue finds.  Proofs/Frames_locks.v derives the discipline, for hierarchies
   of serial lanes under dispatch_async, from the invariant of the protocol model Model/HLane.v. *)
Definition lock_discipline (g : graph) (mem : Z -> Z) (tid : Z) (th : thread) : Prop :=
  forall q, locked_by_self (mem q) tid = true -> find_queue g th q = true.

Theorem assert_queue_exact_disciplined g mem tid th q r :
  lock_discipline g mem tid th -> lookup g q = Some r -> valid_assert_type r = true ->
  (assert_queue g (mem q) tid th q = APass <-> find_queue g th q = true) /\
  (assert_queue_not g (mem q) tid th q = APass <-> find_queue g th q = false).
Proof.
  intros D L V. specialize (D q).
  destruct (assert_queue_exact g (mem q) tid th q r L V) as [A1 A2].
  destruct (assert_queue_not_complement g (mem q) tid th q r L V) as [N1 _].
  rewrite N1, A1, A2.
  destruct (locked_by_self (mem q) tid); destruct (find_queue g th q); intuition congruence.
Qed.

Theorem item_assert_queue_disciplined g p mem tid q r :
  wf_graph g = true -> path_top p <> 0 -> lock_discipline g mem tid (frames_of_path g p) ->
  lookup g q = Some r -> valid_assert_type r = true ->
  (assert_queue g (mem q) tid (frames_of_path g p) q = APass <->
     on_chain g (path_top p) q \/ match path_ctx p with Some c => find_queue g c q = true | None => False end) /\
  (assert_queue_not g (mem q) tid (frames_of_path g p) q = APass <->
     ~ (on_chain g (path_top p) q \/ match path_ctx p with Some c => find_queue g c q = true | None => False end)).
Proof.
  intros W Ht D L V. destruct (assert_queue_exact_disciplined g mem tid _ q r D L V) as [A N].
  pose proof (path_visible g p q W Ht) as PV. split.
  - rewrite A. exact PV.
  - rewrite N. rewrite <- PV. destruct (find_queue g (frames_of_path g p) q); intuition congruence.
Qed.

