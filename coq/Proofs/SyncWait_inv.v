(* SyncWait_inv.v — the invariant of the synchronous hand-off model (Model/SyncWait.v), Owicki-Gries style:
   a global part and one part per thread, both phrased through classifications of program points so that steps which
   only move a thread inside one class preserve the invariant trivially. *)
From Coq Require Import ZArith Bool List Lia.
From Verif Require Import Word Conc Gen_consts Gen_dqstate Gen_lanesites SyncWait SyncWait_word.
Import ListNotations.
Local Open Scope Z_scope.

(* ---- classification of program points ---- *)
Inductive wstage := WNone | WPre | WPost | WWoken.      (* where the thread stands as a waiter on its own thread event *)
Inductive cstage := CNone | CBefore | CIn | CAfter.     (* its own synchronous call: item not started by it / inside / done *)

Definition cont_hold (c : cont) : bool := match c with CDrain _ _ => true | _ => false end.
Definition cont_wst (c : cont) : wstage := match c with CWait _ => WPre | _ => WNone end.
Definition cont_cst (c : cont) : cstage := match c with CRet => CAfter | CWait _ => CBefore | _ => CNone end.
Definition cont_work (c : cont) : bool := match c with CWorker | CDrain _ _ => true | _ => false end.
Definition cont_sync (c : cont) : bool := match c with CRet | CWait _ => true | _ => false end.
Definition pk_cont (pk : popk) : cont := match pk with PKdbw c _ => c | PKwork o => CDrain o 0 end.

Definition holdpc (p : pc) : bool :=
  match p with
  | S_fake _ | S_call _ _ | S_incall _ _ | S_tail | S_uload | S_ubody _ => true
  | B_tail _ | B_susp _ | B_head _ | B_dec _ | C_load _ _ | C_body _ _ _ | C_xor _ => true
  | P_cas _ | P_store _ | D_load _ _ | D_body _ _ _ => true
  | G_sig c _ | G_wake c _ => cont_hold c
  | W_tail _ | W_head _ | W_state _ | W_pop _ | W_dec _ _ | W_incall _ _ _ | W_uload _ | W_ubody _ _ | W_xor _ => true
  | _ => false
  end.

Definition tokpc (p : pc) : bool :=
  match p with
  | A_root | C_root _ => true
  | W_lbody _ _ | W_tail _ | W_head _ | W_state _ | W_pop _ | W_dec _ _ | W_incall _ _ _ | W_uload _ | W_ubody _ _
  | W_xor _ => true
  | P_cas pk | P_store pk => cont_work (pk_cont pk)
  | D_load c _ | D_body c _ _ => cont_work c
  | G_sig c _ | G_wake c _ => cont_hold c
  | _ => false
  end.

Definition wst (p : pc) : wstage :=
  match p with
  | S_head _ _ | S_link _ _ | S_sw | S_pwload _ | S_pwbody _ _ | S_sub _ => WPre
  | S_eload _ | S_futex _ | S_sleep _ => WPost
  | S_woken _ => WWoken
  | B_tail c | B_susp c | B_head c | B_dec c | C_load c _ | C_body c _ _ | C_xor c | C_root c
  | D_load c _ | D_body c _ _ | G_sig c _ | G_wake c _ => cont_wst c
  | P_cas pk | P_store pk => cont_wst (pk_cont pk)
  | _ => WNone
  end.

Definition cst (p : pc) : cstage :=
  match p with
  | S_aaw | S_ftail _ | S_fload _ | S_fbody _ _ | S_wprep _ | S_xchg _ | S_head _ _ | S_link _ _ | S_sw | S_pwload _ | S_pwbody _ _
  | S_sub _ | S_eload _ | S_futex _ | S_sleep _ | S_woken _ | S_fake _ | S_call _ _ => CBefore
  | S_incall _ _ => CIn
  | S_tail | S_uload | S_ubody _ | S_ret => CAfter
  | B_tail c | B_susp c | B_head c | B_dec c | C_load c _ | C_body c _ _ | C_xor c | C_root c
  | D_load c _ | D_body c _ _ | G_sig c _ | G_wake c _ => cont_cst c
  | P_cas pk | P_store pk => cont_cst (pk_cont pk)
  | _ => CNone
  end.

Definition incall (p : pc) : bool := match p with S_incall _ _ | W_incall _ _ _ => true | _ => false end.
Definition sigof (p : pc) : option Z := match p with G_sig _ w => Some w | _ => None end.
Definition wakeof (p : pc) : option Z := match p with G_wake _ w => Some w | _ => None end.
Definition runof (p : pc) : option Z :=                     (* which waiter's item a worker runs *)
  match p with W_incall _ _ w => if w =? 0 then None else Some w | _ => None end.
Definition curpc (p : pc) : bool :=
  match p with P_cas _ | P_store _ | D_load _ _ | D_body _ _ _ | W_dec _ _ => true | _ => false end.
Definition dbwpc (p : pc) : bool :=                        (* the popped item will be handed the lock whatever its kind *)
  match p with P_cas (PKdbw _ _) | P_store (PKdbw _ _) | D_load _ _ | D_body _ _ _ => true | _ => false end.
Definition sleeppc (p : pc) : bool := match p with S_sleep _ => true | _ => false end.

(* data carried by program points *)
Definition okcont (c : cont) : bool := match c with CDrain o _ => o =? OWN | _ => true end.
Definition okenq (c : cont) (enq : Z) : bool :=
  match c with CWorker => enq =? ENQ | CDrain _ _ => false | _ => enq =? 0 end.
Definition wfpc (p : pc) : bool :=
  match p with
  | B_tail c | B_susp c | B_head c | B_dec c | C_xor c | C_root c => cont_sync c
  | C_load c enq | C_body c enq _ => cont_sync c && ((enq =? 0) || (enq =? ENQ))
  | P_cas pk | P_store pk => match pk with PKdbw c enq => okenq c enq | PKwork o => o =? OWN end
  | D_load c enq | D_body c enq _ => okenq c enq
  | G_sig c w | G_wake c w => okcont c && (0 <? w) && (w <=? OWNER_MASK)
  | W_tail o | W_head o | W_state o | W_pop o | W_dec o _ | W_uload o | W_ubody o _ | W_xor o => o =? OWN
  | W_incall o _ w => (o =? OWN) && (0 <=? w) && (w <=? OWNER_MASK)
  | _ => true
  end.

Record pcls := { c_hold : bool; c_tok : bool; c_wst : wstage; c_cst : cstage; c_incall : bool; c_sig : option Z;
                 c_wake : option Z; c_run : option Z; c_cur : bool; c_dbw : bool; c_sleep : bool; c_wf : bool }.
Definition cls (p : pc) : pcls :=
  {| c_hold := holdpc p; c_tok := tokpc p; c_wst := wst p; c_cst := cst p; c_incall := incall p; c_sig := sigof p;
     c_wake := wakeof p; c_run := runof p; c_cur := curpc p; c_dbw := dbwpc p; c_sleep := sleeppc p; c_wf := wfpc p |}.

(* ---- the invariant, over an abstract view C of the program points ---- *)
Section Inv.
Variable C : Z -> pcls.
Variable s : gst.

Definition item0 (t : Z) : Prop := ist s t = IPend /\ runs s t = 0 /\ remote s t = false.
Definition handed_or_done (t : Z) : Prop :=
  (holder s = Some t /\ item0 t) \/ (ist s t = IFin /\ runs s t = 1 /\ remote s t = true).

Definition entry_ok (e : entry) : Prop :=
  if is_waiter_kind (e_kind e) then valid_tid (e_own e) /\ ph s (e_own e) = PhQueued else e_own e = 0.

Definition cur_ok (h : Z) (e : entry) : Prop :=
  (c_dbw (C h) = true -> is_waiter_kind (e_kind e) = true) /\
  if is_waiter_kind (e_kind e)
  then valid_tid (e_own e) /\
       ph s (e_own e) = (if c_dbw (C h) || is_sync_kind (e_kind e) then PhPopH h else PhPopR h)
  else e_own e = 0.

Definition waiters (l : list entry) : list Z := map e_own (filter (fun e => is_waiter_kind (e_kind e)) l).

Record ginv : Prop := {
  g_word : wordinv (st s) (holder s) (is_some (token s));
  g_rootq : rootq s = (match token s with Some None => 1 | _ => 0 end);
  g_holder : forall h, holder s = Some h ->
     valid_tid h /\
     (c_hold (C h) = true \/
      (c_hold (C h) = false /\ c_wst (C h) <> WNone /\ remote s h = false /\
       (ph s h = PhSigd \/ exists d, ph s h = PhSig d)));
  g_running : forall t, running s = Some t -> c_incall (C t) = true;
  g_flags : overlap s = false /\ early_ret s = false;
  g_cur : forall e, cur s = Some e -> exists h, holder s = Some h /\ c_cur (C h) = true /\ cur_ok h e;
  g_list : Forall entry_ok (lst s);
  g_nodup : NoDup (waiters (lst s))
}.

Definition waitinv (t : Z) : Prop :=
  match ph s t with
  | PhNone => False
  | PhQueued => item0 t
  | PhPopH h => item0 t /\ holder s = Some h /\ exists e, cur s = Some e /\ e_own e = t /\ is_waiter_kind (e_kind e) = true
  | PhPopR h =>
      holder s = Some h /\ h <> t /\
      ((item0 t /\ exists e, cur s = Some e /\ e_own e = t /\ is_waiter_kind (e_kind e) = true) \/
       (c_run (C h) = Some t /\ ist s t = IRun /\ runs s t = 1 /\ remote s t = false))
  | PhSig d => c_sig (C d) = Some t /\ handed_or_done t
  | PhSigd => handed_or_done t
  end.

Definition is_sigd (p : phase) : bool := match p with PhSigd => true | _ => false end.

Record tinv (t : Z) : Prop := {
  t_hold : c_hold (C t) = true -> holder s = Some t;
  t_tok : c_tok (C t) = true <-> token s = Some (Some t);
  t_wf : c_wf (C t) = true;
  t_incall : c_incall (C t) = true -> running s = Some t;
  t_sig : forall w, c_sig (C t) = Some w -> ph s w = PhSig t;
  t_run : forall w, c_run (C t) = Some w -> w <> 0 -> ph s w = PhPopR t;
  t_cur : c_cur (C t) = true -> cur s <> None;
  t_nowait : c_wst (C t) = WNone -> ph s t = PhNone /\ ev s t = 0 /\ slp s t <> Sleeping;
  t_wait : c_wst (C t) <> WNone -> waitinv t;
  t_pre : c_wst (C t) = WPre -> ev s t = (if is_sigd (ph s t) then 1 else 0) /\ slp s t <> Sleeping;
  t_post : c_wst (C t) = WPost ->
           ev s t = (if is_sigd (ph s t) then 0 else MAXV) /\
           (slp s t = Sleeping -> c_sleep (C t) = true /\ (ph s t = PhSigd -> exists d, c_wake (C d) = Some t));
  t_woken : c_wst (C t) = WWoken -> ph s t = PhSigd /\ ev s t = 0 /\ slp s t <> Sleeping;
  t_before : c_cst (C t) = CBefore -> c_wst (C t) = WNone -> item0 t;
  t_in : c_cst (C t) = CIn -> ist s t = IRun /\ runs s t = 1 /\ remote s t = false;
  t_after : c_cst (C t) = CAfter -> ist s t = IFin /\ runs s t = 1 /\ remote s t = false;
  (* a waiter that took the drain lock itself (push_waiter) was not handed the lock by anybody *)
  t_takeover : c_hold (C t) = true -> c_wst (C t) <> WNone ->
               match ph s t with PhSig _ | PhSigd => remote s t = true | _ => True end
}.

Definition InvP : Prop := ginv /\ forall t, tinv t.
End Inv.

Definition Inv (s : gst) : Prop := InvP (fun x => cls (pcs s x)) s.
