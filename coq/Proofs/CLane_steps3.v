(* CLane_steps3.v — preservation of the invariant by _dispatch_lane_drain_non_barriers. *)
From Coq Require Import ZArith Bool List Lia.
From Verif Require Import Word Bits Fields DqFields Conc Gen_consts Gen_dqstate Lane_fields CLane_fields CLane CLane_inv CLane_proofs CLane_steps2.
Import ListNotations.
Local Open Scope Z_scope.

(* the global part after a step of the lock owner t (Bm : bmode s = false, Ho : lockh s = Some t); wt proves g_wt *)
Ltac ginv_owner Bm Ho wt :=
  constructor; unfold U in *; gcbn; fcbn; cbn [length]; try assumption; try lia; try reflexivity;
  try (rewrite Bm; discriminate);
  try (split; [lia | intros X; rewrite Ho in X; discriminate X]);
  try (intros X; lia);
  try (constructor; assumption);
  try wt.

Lemma kind_of_head_cases (l : list item) :
  (kind_of_head l = 0 /\ l = []) \/
  (kind_of_head l = 1 /\ exists x l', l = x :: l' /\ i_bar x = false) \/
  (kind_of_head l = 2 /\ exists x l', l = x :: l' /\ i_bar x = true).
Proof.
  destruct l as [|x l']; [left; auto|]. cbn [kind_of_head]. destruct (i_bar x) eqn:E.
  - right. right. split; [reflexivity|]. exists x, l'. auto.
  - right. left. split; [reflexivity|]. exists x, l'. auto.
Qed.

(* the owner's thread invariant after a step in which it keeps the lock *)
Lemma owner_keeps W s s2 t p2 :
  thread_inv W s t -> owns (pcs s t) = true -> holds p2 = false -> owns p2 = true ->
  toks p2 = toks (pcs s t) -> waitpc p2 = waitpc (pcs s t) ->
  pcs s2 t = p2 -> grant s2 t = grant s t -> (In t (holders s2) <-> In t (holders s)) ->
  lockh s2 = lockh s -> tokh s2 = tokh s -> pcinv W s2 p2 -> thread_inv W s2 t.
Proof.
  intros [T1 T2 T3 T4 T5 T6] Ow Ph Po Pk Pw P2 G2 H2 L2 K2 Hp.
  assert (Hh : holds (pcs s t) = false) by (destruct (pcs s t); try discriminate; reflexivity).
  constructor; rewrite ?P2, ?G2, ?H2, ?L2, ?K2, ?Ph, ?Po, ?Pk, ?Pw.
  - rewrite Hh in T1. exact T1.
  - rewrite Ow in T2. exact T2.
  - exact T3.
  - exact T4.
  - intros X. destruct (T5 X) as [X1 _]. congruence.
  - intros _. exact Hp.
Qed.

Lemma step_DN_and W s t k s' : Inv W s -> valid_tid t -> pcs s t = DN_and k -> gstep W s t = Some s' -> Inv W s'.
Proof.
  intros HI Vt Hpc Hs. unfold gstep in Hs. rewrite Hpc in Hs. injection Hs as <-.
  inv_pc HI t Hpc. destruct Hi as (Bm & Hn).
  pose proof HI as (HW & (r & G) & T). pose proof (g_wf _ _ _ G) as Wf. pose proof Wf as Wf'. unfold wfr in Wf'.
  pose proof (g_wt _ _ _ G) as Gwt. destruct (g_bm _ _ _ G Bm) as (_ & Dw & U0 & P0).
  rewrite (g_enc _ _ _ G). unfold NOT_IN_BARRIER. rewrite and_not_ib_fields by exact Wf.
  set (r' := mk (f_owner r) (f_tr r) (f_enq r) (f_mq r) (f_ov r) (f_role r) (f_em r) (f_d r) (f_pb r) (f_wq r) 0 (f_hi r)).
  assert (Wn : wfr r') by (subst r'; wf_mk).
  split; [exact HW|]. split.
  - exists r'. pose proof (g_dw _ _ _ G) as [D0 _]. destruct G. subst r'.
    constructor; unfold U in *; gcbn; fcbn; try assumption; try lia; try (intros; discriminate);
      try (split; [lia | intros X; rewrite Ho in X; discriminate X]).
    apply g_wt_setpc; [exact Gwt | rewrite Hpc; cbn [waitpc]; auto].
  - intros u. destruct (Z.eq_dec u t) as [->|Ne].
    + eapply (owner_keeps W s _ t (DN_loop k W) (T t)); rewrite ?Hpc; gcbn; rewrite ?upd_same; try reflexivity.
      cbn [pcinv]. gcbn. split; [reflexivity|]. split; [exact Dw|]. split; [lia|].
      split; [pb_now r' Wn; exact P0 | exact Hn].
    + apply (other_thread_owner W s _ t u Ne T Ho); gcbn; try reflexivity.
      * apply upd_other; exact Ne.
      * rewrite Ho. intros X. congruence.
Qed.

Lemma step_DN_add W s t k s' : Inv W s -> valid_tid t -> pcs s t = DN_add k -> gstep W s t = Some s' -> Inv W s'.
Proof.
  intros HI Vt Hpc Hs. unfold gstep in Hs. rewrite Hpc in Hs. injection Hs as <-.
  inv_pc HI t Hpc. destruct Hi as (Bm & Dw & P0 & Hn & Hw & HU).
  pose proof HI as (HW & (r & G) & T). pose proof (g_wf _ _ _ G) as Wf. pose proof Wf as Wf'. unfold wfr in Wf'.
  pose proof (g_wt _ _ _ G) as Gwt. rewrite (pb_of W s r G) in P0.
  pose proof (g_wq _ _ _ G) as Hwq. rewrite Dw, P0 in Hwq. pose proof (U_nonneg s) as Un.
  rewrite (g_enc _ _ _ G). unfold INTERVAL. change 2199023255552 with (1 * 2199023255552). rewrite add_wq by (assumption || lia).
  assert (Wn : wfr (set_wq r (f_wq r + 1))) by (apply set_wq_wf; [exact Wf|lia]).
  split; [exact HW|]. split.
  - exists (set_wq r (f_wq r + 1)). destruct G. constructor; unfold U in *; gcbn; fcbn; try assumption; try lia.
    + rewrite Bm. discriminate.
    + split; [lia|]. intros X. rewrite Ho in X. discriminate X.
    + apply g_wt_setpc; [exact Gwt | rewrite Hpc; cbn [waitpc]; auto].
  - intros u. destruct (Z.eq_dec u t) as [->|Ne].
    + eapply (owner_keeps W s _ t (DN_pop k 0) (T t)); rewrite ?Hpc; gcbn; rewrite ?upd_same; try reflexivity.
      cbn [pcinv]. gcbn. split; [exact Bm|]. split; [lia|]. split; [lia|].
      split; [pb_now (set_wq r (f_wq r + 1)) Wn; exact P0 | exact Hn].
    + apply (other_thread_owner W s _ t u Ne T Ho); gcbn; try reflexivity.
      * apply upd_other; exact Ne.
      * rewrite Ho. intros X. congruence.
Qed.

Lemma step_DN_acq W s t k s' : Inv W s -> valid_tid t -> pcs s t = DN_acq k -> gstep W s t = Some s' -> Inv W s'.
Proof.
  intros HI Vt Hpc Hs. unfold gstep in Hs. rewrite Hpc in Hs.
  inv_pc HI t Hpc. destruct Hi as (Bm & Dw & P0 & Hn).
  pose proof HI as (HW & (r & G) & T). pose proof (g_wf _ _ _ G) as Wf. pose proof Wf as Wf'. unfold wfr in Wf'.
  pose proof (g_wt _ _ _ G) as Gwt.
  rewrite (g_enc _ _ _ G) in Hs. rewrite acquire_async_fields in Hs by assumption.
  destruct (async_ok r) eqn:OK.
  2:{ injection Hs as <-. pc_only_tac HI Hpc. split; [exact Bm|]. split; [exact Dw|]. split; [lia|]. split; [exact P0|].
      split; [auto|]. split; [intros _; exact Hn | intros X; discriminate X]. }
  injection Hs as <-.
  unfold async_ok in OK. rewrite !andb_true_iff in OK. destruct OK as [[[[O1 O2] O3] O4] O5].
  apply Z.ltb_lt in O3.
  rewrite (pb_of W s r G) in P0. pose proof (g_wq _ _ _ G) as Hwq. rewrite Dw, P0 in Hwq. pose proof (U_nonneg s) as Un.
  assert (Wn : wfr (set_wq r (f_wq r + 1))) by (apply set_wq_wf; [exact Wf|lia]).
  split; [exact HW|]. split.
  - exists (set_wq r (f_wq r + 1)). destruct G. constructor; unfold U in *; gcbn; fcbn; try assumption; try lia.
    + rewrite Bm. discriminate.
    + split; [lia|]. intros X. rewrite Ho in X. discriminate X.
    + apply g_wt_setpc; [exact Gwt | rewrite Hpc; cbn [waitpc]; auto].
  - intros u. destruct (Z.eq_dec u t) as [->|Ne].
    + eapply (owner_keeps W s _ t (DN_pop k 0) (T t)); rewrite ?Hpc; gcbn; rewrite ?upd_same; try reflexivity.
      cbn [pcinv]. gcbn. split; [exact Bm|]. split; [lia|]. split; [lia|].
      split; [pb_now (set_wq r (f_wq r + 1)) Wn; exact P0 | exact Hn].
    + apply (other_thread_owner W s _ t u Ne T Ho); gcbn; try reflexivity.
      * apply upd_other; exact Ne.
      * rewrite Ho. intros X. congruence.
Qed.

Lemma step_DN_xor W s t k ow s' : Inv W s -> valid_tid t -> pcs s t = DN_xor k ow -> gstep W s t = Some s' -> Inv W s'.
Proof.
  intros HI Vt Hpc Hs. unfold gstep in Hs. rewrite Hpc in Hs. injection Hs as <-.
  inv_pc HI t Hpc. destruct Hi as (Bm & Dw & O & P0).
  unfold dn_cont.
  destruct (kind_of_head_cases (lst s)) as [(K & E)|[(K & x & l' & E & Eb)|(K & x & l' & E & Eb)]]; rewrite K;
    [change (0 =? 1) with false | change (1 =? 1) with true | change (2 =? 1) with false]; cbv iota.
  - apply owner_xor_dirty; auto; rewrite ?Hpc; try reflexivity.
    intros s2 B2 D2 P2 L2 _ _. cbn [pcinv]. rewrite B2, D2, P2. repeat split; auto; intros X; discriminate X.
  - apply owner_xor_dirty; auto; rewrite ?Hpc; try reflexivity.
    intros s2 B2 D2 P2 L2 _ _. cbn [pcinv]. rewrite B2, D2, P2. repeat split; auto. unfold head_nb. rewrite L2, E. exact Eb.
  - apply owner_xor_dirty; auto; rewrite ?Hpc; try reflexivity.
    intros s2 B2 D2 P2 L2 _ _. cbn [pcinv]. rewrite B2, D2, P2. repeat split; auto; try (intros X; discriminate X).
    intros _. unfold head_bar. rewrite L2, E. exact Eb.
Qed.

Lemma step_DN_pop W s t k ow s' : Inv W s -> valid_tid t -> pcs s t = DN_pop k ow -> gstep W s t = Some s' -> Inv W s'.
Proof.
  intros HI Vt Hpc Hs. unfold gstep in Hs. rewrite Hpc in Hs.
  inv_pc HI t Hpc. destruct Hi as (Bm & Dw & O & P0 & Hn).
  pose proof HI as (HW & (r & G) & T). pose proof (g_wt _ _ _ G) as Gwt. pose proof (g_wtnd _ _ _ G) as Gnd.
  pose proof (g_dw _ _ _ G) as [D0 _]. rewrite (pb_of W s r G) in P0.
  unfold head_nb in Hn. destruct (lst s) as [|x l'] eqn:Hl; [contradiction|].
  assert (Gwt1 : forall z, In z l' -> i_wt z <> 0 -> valid_tid (i_wt z) /\ grant s (i_wt z) = GNone /\ waitpc (pcs s (i_wt z)) = true)
    by (intros z Hz Nz; apply Gwt; [right; exact Hz|exact Nz]).
  (* what the continuation knows *)
  assert (Cont : forall s2, bmode s2 = false -> dw s2 = ow -> pb s2 = 0 -> lst s2 = l' ->
            pcinv W s2 (dn_cont k ow (kind_of_head l'))).
  { intros s2 B2 D2 P2 L2. unfold dn_cont.
    destruct (kind_of_head_cases l') as [(K & E)|[(K & y & l2 & E & Eb)|(K & y & l2 & E & Eb)]]; rewrite K;
      [change (0 =? 1) with false | change (1 =? 1) with true | change (2 =? 1) with false]; cbv iota; cbn [pcinv];
      rewrite B2, D2, P2.
    - repeat split; auto; intros X; discriminate X.
    - repeat split; auto. unfold head_nb. rewrite L2, E. exact Eb.
    - repeat split; auto; try (intros X; discriminate X). intros _. unfold head_bar. rewrite L2, E. exact Eb. }
  assert (ContK : holds (dn_cont k ow (kind_of_head l')) = false /\ owns (dn_cont k ow (kind_of_head l')) = true /\
                  toks (dn_cont k ow (kind_of_head l')) = false /\ waitpc (dn_cont k ow (kind_of_head l')) = ret_waits k).
  { unfold dn_cont. destruct (kind_of_head l' =? 1); repeat split; reflexivity. }
  destruct ContK as (Ck1 & Ck2 & Ck3 & Ck4).
  destruct (Z.eqb_spec (i_wt x) 0) as [Ew|Ew]; injection Hs as <-.
  - (* a continuation: redirected to the root queue with one interval *)
    rewrite waiters_cons, Ew in Gnd. cbn [Z.eqb] in Gnd.
    split; [exact HW|]. split.
    + exists r. destruct G.
      ginv_owner Bm Ho ltac:(apply (g_wt_setpc s t _ l' (grant s)); [exact Gwt1 | rewrite Hpc, Ck4; cbn [waitpc]; auto]).
    + intros u. destruct (Z.eq_dec u t) as [->|Ne].
      * eapply (owner_keeps W s _ t (dn_cont k ow (kind_of_head l')) (T t)); rewrite ?Hpc; gcbn; rewrite ?upd_same;
          try reflexivity; try assumption.
        apply Cont; gcbn; try reflexivity; try lia.
        unfold pb. gcbn. fold (pb s). rewrite (pb_of W s r G). exact P0.
      * apply (other_thread_owner W s _ t u Ne T Ho); gcbn; try reflexivity.
        -- apply upd_other; exact Ne.
        -- rewrite Ho. intros X. congruence.
  - (* a sync waiter: it is handed one interval and will be woken *)
    destruct (Gwt x (or_introl eq_refl) Ew) as (Vu & Gu & Wu).
    rewrite waiters_cons in Gnd. destruct (Z.eqb_spec (i_wt x) 0) as [|_]; [contradiction|]. inversion Gnd as [|? ? Nin Nd']; subst.
    assert (NH : ~ In (i_wt x) (holders s)).
    { intros X. destruct (T (i_wt x)) as [U1 _ _ _ _ _]. apply U1 in X. rewrite Gu in X.
      destruct X as [X|X]; [|discriminate]. destruct (pcs s (i_wt x)); discriminate. }
    assert (Gwt2 : forall z, In z l' -> i_wt z <> 0 ->
              valid_tid (i_wt z) /\ upd (grant s) (i_wt x) GReader (i_wt z) = GNone /\ waitpc (pcs s (i_wt z)) = true).
    { intros z Hz Nz. destruct (Gwt1 z Hz Nz) as (V & Gn & Wp). split; [exact V|]. split; [|exact Wp].
      rewrite upd_other; [exact Gn|]. intros E. apply Nin. apply in_waiters. exists z.
      split; [exact Hz|]. split; [exact E|]. rewrite <- E. exact Nz. }
    split; [exact HW|]. split.
    + exists r. destruct G.
      ginv_owner Bm Ho ltac:(apply (g_wt_setpc s t _ l' _); [exact Gwt2 | rewrite Hpc; cbn [waitpc]; auto]).
    + intros v. destruct (Z.eq_dec v t) as [->|Nt].
      * destruct (T t) as [T1 T2 T3 T4 T5 T6]. rewrite Hpc in *. cbn [holds owns toks waitpc] in *.
        assert (Gto : grant s t <> GOwner) by (intros X; destruct (T5 X); discriminate).
        destruct (Z.eq_dec (i_wt x) t) as [Eu|Nut].
        -- (* the drainer serves its own waiter item *)
           rewrite Eu in *. constructor; gcbn; rewrite ?upd_same; cbn [holds owns toks waitpc pcinv In].
           ++ split; auto.
           ++ rewrite T2. rewrite Gu. split; intros [X|X]; auto; discriminate.
           ++ exact T3.
           ++ intros _. rewrite Hpc in Wu. exact Wu.
           ++ intros X; discriminate.
           ++ intros _. gcbn. split; [exact Bm|]. split; [lia|]. split; [exact O|].
              split; [unfold pb; gcbn; fold (pb s); rewrite (pb_of W s r G); exact P0|].
              destruct (kind_of_head_cases l') as [(K & E)|[(K & y & l2 & E & Eb)|(K & y & l2 & E & Eb)]]; rewrite K.
              ** split; [auto|]. split; intros X; discriminate X.
              ** split; [auto|]. split; [intros _; unfold head_nb; gcbn; rewrite E; exact Eb | intros X; discriminate X].
              ** split; [auto|]. split; [intros X; discriminate X | intros _; unfold head_bar; gcbn; rewrite E; exact Eb].
        -- constructor; gcbn; rewrite ?upd_same, ?(upd_other _ _ _ _ (not_eq_sym Nut)); cbn [holds owns toks waitpc pcinv].
           ++ rewrite <- T1. apply in_cons_other. auto.
           ++ exact T2.
           ++ exact T3.
           ++ exact T4.
           ++ intros X. contradiction.
           ++ intros _. gcbn. split; [exact Bm|]. split; [lia|]. split; [exact O|].
              split; [unfold pb; gcbn; fold (pb s); rewrite (pb_of W s r G); exact P0|].
              destruct (kind_of_head_cases l') as [(K & E)|[(K & y & l2 & E & Eb)|(K & y & l2 & E & Eb)]]; rewrite K.
              ** split; [auto|]. split; intros X; discriminate X.
              ** split; [auto|]. split; [intros _; unfold head_nb; gcbn; rewrite E; exact Eb | intros X; discriminate X].
              ** split; [auto|]. split; [intros X; discriminate X | intros _; unfold head_bar; gcbn; rewrite E; exact Eb].
      * destruct (Z.eq_dec v (i_wt x)) as [->|Nu'].
        -- destruct (T (i_wt x)) as [U1 U2 U3 U4 U5 U6].
           constructor; gcbn; rewrite ?upd_same, ?(upd_other _ _ _ _ Nt); cbn [In].
           ++ split; auto.
           ++ rewrite U2, Gu. split; intros [X|X]; auto; discriminate.
           ++ exact U3.
           ++ intros _. exact Wu.
           ++ intros X; discriminate.
           ++ intros X. exfalso. assert (lockh s = Some (i_wt x)) by (apply U2; auto). congruence.
        -- apply (other_thread_owner W s _ t v Nt T Ho); gcbn; try reflexivity.
           ++ apply upd_other; exact Nt.
           ++ apply upd_other; exact Nu'.
           ++ apply in_cons_other. exact Nu'.
           ++ rewrite Ho. intros X. congruence.
Qed.
