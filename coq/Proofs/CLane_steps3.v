(* CLane_steps3.v — preservation of the invariant by _dispatch_lane_drain_non_barriers. *)
From Coq Require Import ZArith Bool List Lia.
From Verif Require Import Word Bits Fields DqFields Conc Gen_consts Gen_dqstate Lane_fields CLane_fields CLane CLane_inv CLane_proofs CLane_steps2.
Import ListNotations.
Local Open Scope Z_scope.

(* the global part after a step of the lock owner t (Bm : bmode s = false, Ho : lockh s = Some t); wt proves g_wt *)
Ltac ginv_owner Bm Ho wt :=
  constructor; unfold U in *; gcbn; fcbn; cbn [length]; try assumption; try lia; try reflexivity;
  try (rewrite Bm; discriminate);
  try (split; [lia | intros X; rewrite Ho in X; discriminate X]);
  try (intros X; lia);
  try (constructor; assumption);
  try wt.

Lemma kind_of_head_cases (l : list item) :
  (kind_of_head l = 0 /\ l = []) \/
  (kind_of_head l = 1 /\ exists x l', l = x :: l' /\ i_bar x = false) \/
  (kind_of_head l = 2 /\ exists x l', l = x :: l' /\ i_bar x = true).
Proof.
  destruct l as [|x l']; [left; auto|]. cbn [kind_of_head]. destruct (i_bar x) eqn:E.
  - right. right. split; [reflexivity|]. exists x, l'. auto.
  - right. left. split; [reflexivity|]. exists x, l'. auto.
Qed.

(* the owner's thread invariant after a step in which it keeps the lock *)
Lemma owner_keeps W s s2 t p2 :
  thread_inv W s t -> owns (pcs s t) = true -> holds p2 = false -> owns p2 = true ->
  toks p2 = toks (pcs s t) -> waitpc p2 = waitpc (pcs s t) ->
  pcs s2 t = p2 -> grant s2 t = grant s t -> (In t (holders s2) <-> In t (holders s)) ->
  lockh s2 = lockh s -> tokh s2 = tokh s -> pcinv W s2 p2 -> thread_inv W s2 t.
Proof.
  intros [T1 T2 T3 T4 T5 T6] Ow Ph Po Pk Pw P2 G2 H2 L2 K2 Hp.
  assert (Hh : holds (pcs s t) = false) by (destruct (pcs s t); try discriminate; reflexivity).
  constructor; rewrite ?P2, ?G2, ?H2, ?L2, ?K2, ?Ph, ?Po, ?Pk, ?Pw.
  - rewrite Hh in T1. exact T1.
  - rewrite Ow in T2. exact T2.
  - exact T3.
  - exact T4.
  - intros X. destruct (T5 X) as [X1 _]. congruence.
  - intros _. exact Hp.
Qed.

Lemma step_DN_and W s t k s' : Inv W s -> valid_tid t -> pcs s t = DN_and k -> gstep W s t = Some s' -> Inv W s'.
Proof.
  intros HI Vt Hpc Hs. unfold gstep in Hs. rewrite Hpc in Hs. injection Hs as <-.
  inv_pc HI t Hpc. destruct Hi as (Bm & Hn).
  pose proof HI as (HW & (r & G) & T). pose proof (g_wf _ _ _ G) as Wf. pose proof Wf as Wf'. unfold wfr in Wf'.
  pose proof (g_wt _ _ _ G) as Gwt. destruct (g_bm _ _ _ G Bm) as (_ & Dw & U0 & P0).
  rewrite (g_enc _ _ _ G). unfold NOT_IN_BARRIER. rewrite and_not_ib_fields by exact Wf.
  set (r' := mk (f_owner r) (f_tr r) (f_enq r) (f_mq r) (f_ov r) (f_role r) (f_em r) (f_d r) (f_pb r) (f_wq r) 0 (f_hi r)).
  assert (Wn : wfr r') by (subst r'; wf_mk).
  split; [exact HW|]. split.
  - exists r'. pose proof (g_dw _ _ _ G) as [D0 _]. destruct G. subst r'.
    constructor; unfold U in *; gcbn; fcbn; try assumption; try lia; try (intros; discriminate);
      try (split; [lia | intros X; rewrite Ho in X; discriminate X]).
    apply g_wt_setpc; [exact Gwt | rewrite Hpc; cbn [waitpc]; auto].
  - intros u. destruct (Z.eq_dec u t) as [->|Ne].
    + eapply (owner_keeps W s _ t (DN_loop k W) (T t)); rewrite ?Hpc; gcbn; rewrite ?upd_same; try reflexivity.
      cbn [pcinv]. gcbn. split; [reflexivity|]. split; [exact Dw|]. split; [lia|].
      split; [pb_now r' Wn; exact P0 | exact Hn].
    + apply (other_thread_owner W s _ t u Ne T Ho); gcbn; try reflexivity.
      * apply upd_other; exact Ne.
      * rewrite Ho. intros X. congruence.
Qed.

Lemma step_DN_add W s t k s' : Inv W s -> valid_tid t -> pcs s t = DN_add k -> gstep W s t = Some s' -> Inv W s'.
Proof.
  intros HI Vt Hpc Hs. unfold gstep in Hs. rewrite Hpc in Hs. injection Hs as <-.
  inv_pc HI t Hpc. destruct Hi as (Bm & Dw & P0 & Hn & Hw & HU).
  pose proof HI as (HW & (r & G) & T). pose proof (g_wf _ _ _ G) as Wf. pose proof Wf as Wf'. unfold wfr in Wf'.
  pose proof (g_wt _ _ _ G) as Gwt. rewrite (pb_of W s r G) in P0.
  pose proof (g_wq _ _ _ G) as Hwq. rewrite Dw, P0 in Hwq. pose proof (U_nonneg s) as Un.
  rewrite (g_enc _ _ _ G). unfold INTERVAL. change 2199023255552 with (1 * 2199023255552). rewrite add_wq by (assumption || lia).
  assert (Wn : wfr (set_wq r (f_wq r + 1))) by (apply set_wq_wf; [exact Wf|lia]).
  split; [exact HW|]. split.
  - exists (set_wq r (f_wq r + 1)). destruct G. constructor; unfold U in *; gcbn; fcbn; try assumption; try lia.
    + rewrite Bm. discriminate.
    + split; [lia|]. intros X. rewrite Ho in X. discriminate X.
    + apply g_wt_setpc; [exact Gwt | rewrite Hpc; cbn [waitpc]; auto].
  - intros u. destruct (Z.eq_dec u t) as [->|Ne].
    + eapply (owner_keeps W s _ t (DN_pop k 0) (T t)); rewrite ?Hpc; gcbn; rewrite ?upd_same; try reflexivity.
      cbn [pcinv]. gcbn. split; [exact Bm|]. split; [lia|]. split; [lia|].
      split; [pb_now (set_wq r (f_wq r + 1)) Wn; exact P0 | exact Hn].
    + apply (other_thread_owner W s _ t u Ne T Ho); gcbn; try reflexivity.
      * apply upd_other; exact Ne.
      * rewrite Ho. intros X. congruence.
Qed.

Lemma step_DN_acq W s t k s' : Inv W s -> valid_tid t -> pcs s t = DN_acq k -> gstep W s t = Some s' -> Inv W s'.
Proof.
  intros HI Vt Hpc Hs. unfold gstep in Hs. rewrite Hpc in Hs.
  inv_pc HI t Hpc. destruct Hi as (Bm & Dw & P0 & Hn).
  pose proof HI as (HW & (r & G) & T). pose proof (g_wf _ _ _ G) as Wf. pose proof Wf as Wf'. unfold wfr in Wf'.
  pose proof (g_wt _ _ _ G) as Gwt.
  rewrite (g_enc _ _ _ G) in Hs. rewrite acquire_async_fields in Hs by assumption.
  destruct (async_ok r) eqn:OK.
  2:{ injection Hs as <-. pc_only_tac HI Hpc. split; [exact Bm|]. split; [exact Dw|]. split; [lia|]. split; [exact P0|].
      split; [auto|]. split; [intros _; exact Hn | intros X; discriminate X]. }
  injection Hs as <-.
  unfold async_ok in OK. rewrite !andb_true_iff in OK. destruct OK as [[[[O1 O2] O3] O4] O5].
  apply Z.ltb_lt in O3.
  rewrite (pb_of W s r G) in P0. pose proof (g_wq _ _ _ G) as Hwq. rewrite Dw, P0 in Hwq. pose proof (U_nonneg s) as Un.
  assert (Wn : wfr (set_wq r (f_wq r + 1))) by (apply set_wq_wf; [exact Wf|lia]).
  split; [exact HW|]. split.
  - exists (set_wq r (f_wq r + 1)). destruct G. constructor; unfold U in *; gcbn; fcbn; try assumption; try lia.
    + rewrite Bm. discriminate.
    + split; [lia|]. intros X. rewrite Ho in X. discriminate X.
    + apply g_wt_setpc; [exact Gwt | rewrite Hpc; cbn [waitpc]; auto].
  - intros u. destruct (Z.eq_dec u t) as [->|Ne].
    + eapply (owner_keeps W s _ t (DN_pop k 0) (T t)); rewrite ?Hpc; gcbn; rewrite ?upd_same; try reflexivity.
      cbn [pcinv]. gcbn. split; [exact Bm|]. split; [lia|]. split; [lia|].
      split; [pb_now (set_wq r (f_wq r + 1)) Wn; exact P0 | exact Hn].
    + apply (other_thread_owner W s _ t u Ne T Ho); gcbn; try reflexivity.
      * apply upd_other; exact Ne.
      * rewrite Ho. intros X. congruence.
Qed.

Lemma step_DN_xor W s t k ow s' : Inv W s -> valid_tid t -> pcs s t = DN_xor k ow -> gstep W s t = Some s' -> Inv W s'.
Proof.
  intros HI Vt Hpc Hs. unfold gstep in Hs. rewrite Hpc in Hs. injection Hs as <-.
  inv_pc HI t Hpc. destruct Hi as (Bm & Dw & O & P0).
  unfold dn_cont.
  destruct (kind_of_head_cases (lst s)) as [(K & E)|[(K & x & l' & E & Eb)|(K & x & l' & E & Eb)]]; rewrite K;
    [change (0 =? 1) with false | change (1 =? 1) with true | change (2 =? 1) with false]; cbv iota.
  - apply owner_xor_dirty; auto; rewrite ?Hpc; try reflexivity.
    intros s2 B2 D2 P2 L2 _ _. cbn [pcinv]. rewrite B2, D2, P2. repeat split; auto; intros X; discriminate X.
  - apply owner_xor_dirty; auto; rewrite ?Hpc; try reflexivity.
    intros s2 B2 D2 P2 L2 _ _. cbn [pcinv]. rewrite B2, D2, P2. repeat split; auto. unfold head_nb. rewrite L2, E. exact Eb.
  - apply owner_xor_dirty; auto; rewrite ?Hpc; try reflexivity.
    intros s2 B2 D2 P2 L2 _ _. cbn [pcinv]. rewrite B2, D2, P2. repeat split; auto; try (intros X; discriminate X).
    intros _. unfold head_bar. rewrite L2, E. exact Eb.
Qed.

Lemma step_DN_pop W s t k ow s' : Inv W s -> valid_tid t -> pcs s t = DN_pop k ow -> gstep W s t = Some s' -> Inv W s'.
Proof.
  intros HI Vt Hpc Hs. unfold gstep in Hs. rewrite Hpc in Hs.
  inv_pc HI t Hpc. destruct Hi as (Bm & Dw & O & P0 & Hn).
  pose proof HI as (HW & (r & G) & T). pose proof (g_wt _ _ _ G) as Gwt. pose proof (g_wtnd _ _ _ G) as Gnd.
  pose proof (g_dw _ _ _ G) as [D0 _]. rewrite (pb_of W s r G) in P0.
  unfold head_nb in Hn. destruct (lst s) as [|x l'] eqn:Hl; [contradiction|].
  assert (Gwt1 : forall z, In z l' -> i_wt z <> 0 -> valid_tid (i_wt z) /\ grant s (i_wt z) = GNone /\ waitpc (pcs s (i_wt z)) = true)
    by (intros z Hz Nz; apply Gwt; [right; exact Hz|exact Nz]).
  (* what the continuation knows *)
  assert (Cont : forall s2, bmode s2 = false -> dw s2 = ow -> pb s2 = 0 -> lst s2 = l' ->
            pcinv W s2 (dn_cont k ow (kind_of_head l'))).
  { intros s2 B2 D2 P2 L2. unfold dn_cont.
    destruct (kind_of_head_cases l') as [(K & E)|[(K & y & l2 & E & Eb)|(K & y & l2 & E & Eb)]]; rewrite K;
      [change (0 =? 1) with false | change (1 =? 1) with true | change (2 =? 1) with false]; cbv iota; cbn [pcinv];
      rewrite B2, D2, P2.
    - repeat split; auto; intros X; discriminate X.
    - repeat split; auto. unfold head_nb. rewrite L2, E. exact Eb.
    - repeat split; auto; try (intros X; discriminate X). intros _. unfold head_bar. rewrite L2, E. exact Eb. }
  assert (ContK : holds (dn_cont k ow (kind_of_head l')) = false /\ owns (dn_cont k ow (kind_of_head l')) = true /\
                  toks (dn_cont k ow (kind_of_head l')) = false /\ waitpc (dn_cont k ow (kind_of_head l')) = ret_waits k).
  { unfold dn_cont. destruct (kind_of_head l' =? 1); repeat split; reflexivity. }
  destruct ContK as (Ck1 & Ck2 & Ck3 & Ck4).
  destruct (Z.eqb_spec (i_wt x) 0) as [Ew|Ew]; injection Hs as <-.
  - (* a continuation: redirected to the root queue with one interval *)
    rewrite waiters_cons, Ew in Gnd. cbn [Z.eqb] in Gnd.
    split; [exact HW|]. split.
    + exists r. destruct G.
      ginv_owner Bm Ho ltac:(apply (g_wt_setpc s t _ l' (grant s)); [exact Gwt1 | rewrite Hpc, Ck4; cbn [waitpc]; auto]).
    + intros u. destruct (Z.eq_dec u t) as [->|Ne].
      * eapply (owner_keeps W s _ t (dn_cont k ow (kind_of_head l')) (T t)); rewrite ?Hpc; gcbn; rewrite ?upd_same;
          try reflexivity; try assumption.
        apply Cont; gcbn; try reflexivity; try lia; try exact Bm.
        rewrite (pb_same s) by reflexivity. rewrite (pb_of W s r G). exact P0.
      * apply (other_thread_owner W s _ t u Ne T Ho); gcbn; try reflexivity.
        -- apply upd_other; exact Ne.
        -- rewrite Ho. intros X. congruence.
  - (* a sync waiter: it is handed one interval and will be woken *)
    destruct (Gwt x (or_introl eq_refl) Ew) as (Vu & Gu & Wu).
    rewrite waiters_cons in Gnd. destruct (Z.eqb_spec (i_wt x) 0) as [|_]; [contradiction|]. inversion Gnd as [|? ? Nin Nd']; subst.
    assert (NH : ~ In (i_wt x) (holders s)).
    { intros X. destruct (T (i_wt x)) as [U1 _ _ _ _ _]. apply U1 in X. rewrite Gu in X.
      destruct X as [X|X]; [|discriminate]. destruct (pcs s (i_wt x)); discriminate. }
    assert (Gwt2 : forall z, In z l' -> i_wt z <> 0 ->
              valid_tid (i_wt z) /\ upd (grant s) (i_wt x) GReader (i_wt z) = GNone /\ waitpc (pcs s (i_wt z)) = true).
    { intros z Hz Nz. destruct (Gwt1 z Hz Nz) as (V & Gn & Wp). split; [exact V|]. split; [|exact Wp].
      rewrite upd_other; [exact Gn|]. intros E. apply Nin. apply in_waiters. exists z.
      split; [exact Hz|]. split; [exact E|]. rewrite <- E. exact Nz. }
    split; [exact HW|]. split.
    + exists r. destruct G.
      ginv_owner Bm Ho ltac:(apply (g_wt_setpc s t _ l' _); [exact Gwt2 | rewrite Hpc; cbn [waitpc]; auto]).
    + intros v. destruct (Z.eq_dec v t) as [->|Nt].
      * destruct (T t) as [T1 T2 T3 T4 T5 T6]. rewrite Hpc in *. cbn [holds owns toks waitpc] in *.
        assert (Gto : grant s t <> GOwner) by (intros X; destruct (T5 X); discriminate).
        destruct (Z.eq_dec (i_wt x) t) as [Eu|Nut].
        -- (* the drainer serves its own waiter item *)
           rewrite Eu in *. constructor; gcbn; rewrite ?upd_same; cbn [holds owns toks waitpc pcinv In].
           ++ split; auto.
           ++ rewrite T2. rewrite Gu. split; intros [X|X]; auto; discriminate.
           ++ exact T3.
           ++ intros _. rewrite Hpc in Wu. exact Wu.
           ++ intros X; discriminate.
           ++ intros _. gcbn. split; [exact Bm|]. split; [lia|]. split; [exact O|].
              split; [rewrite (pb_same s) by reflexivity; rewrite (pb_of W s r G); exact P0|].
              destruct (kind_of_head_cases l') as [(K & E)|[(K & y & l2 & E & Eb)|(K & y & l2 & E & Eb)]]; rewrite K.
              ** split; [auto|]. split; intros X; discriminate X.
              ** split; [auto|]. split; [intros _; unfold head_nb; gcbn; rewrite E; exact Eb | intros X; discriminate X].
              ** split; [auto|]. split; [intros X; discriminate X | intros _; unfold head_bar; gcbn; rewrite E; exact Eb].
        -- constructor; gcbn; rewrite ?upd_same, ?(upd_other _ _ _ _ (not_eq_sym Nut)); cbn [holds owns toks waitpc pcinv].
           ++ rewrite <- T1. apply in_cons_other. auto.
           ++ exact T2.
           ++ exact T3.
           ++ exact T4.
           ++ intros X. contradiction.
           ++ intros _. gcbn. split; [exact Bm|]. split; [lia|]. split; [exact O|].
              split; [rewrite (pb_same s) by reflexivity; rewrite (pb_of W s r G); exact P0|].
              destruct (kind_of_head_cases l') as [(K & E)|[(K & y & l2 & E & Eb)|(K & y & l2 & E & Eb)]]; rewrite K.
              ** split; [auto|]. split; intros X; discriminate X.
              ** split; [auto|]. split; [intros _; unfold head_nb; gcbn; rewrite E; exact Eb | intros X; discriminate X].
              ** split; [auto|]. split; [intros X; discriminate X | intros _; unfold head_bar; gcbn; rewrite E; exact Eb].
      * destruct (Z.eq_dec v (i_wt x)) as [->|Nu'].
        -- destruct (T (i_wt x)) as [U1 U2 U3 U4 U5 U6].
           constructor; gcbn; rewrite ?upd_same, ?(upd_other _ _ _ _ Nt); cbn [In].
           ++ split; auto.
           ++ rewrite U2, Gu. split; intros [X|X]; auto; discriminate.
           ++ exact U3.
           ++ intros _. exact Wu.
           ++ intros X; discriminate.
           ++ intros X. exfalso. assert (lockh s = Some (i_wt x)) by (apply U2; auto). congruence.
        -- apply (other_thread_owner W s _ t v Nt T Ho); gcbn; try reflexivity.
           ++ apply upd_other; exact Nt.
           ++ apply upd_other; exact Nu'.
           ++ apply in_cons_other. exact Nu'.
           ++ rewrite Ho. intros X. congruence.
Qed.

(* the final rmw loop of _dispatch_lane_drain_non_barriers *)
Lemma step_DN_fin W s t k ow nx s' : Inv W s -> valid_tid t -> pcs s t = DN_fin k ow nx -> gstep W s t = Some s' -> Inv W s'.
Proof.
  intros HI Vt Hpc Hs. unfold gstep in Hs. rewrite Hpc in Hs.
  inv_pc HI t Hpc. destruct Hi as (Bm & Dw & O & P0 & Hnx & Hn1 & Hn2).
  pose proof HI as (HW & (r & G) & T). pose proof (g_wf _ _ _ G) as Wf. pose proof Wf as Wf'. unfold wfr in Wf'.
  pose proof (g_wt _ _ _ G) as Gwt. rewrite (pb_of W s r G) in P0.
  pose proof (g_wq _ _ _ G) as Hwq. rewrite Dw, P0 in Hwq. pose proof (U_nonneg s) as Un.
  pose proof (g_bound _ _ _ G) as Hbd. rewrite Dw in Hbd.
  pose proof (g_ib _ _ _ G) as Hib. rewrite Bm in Hib. pose proof (g_hi _ _ _ G) as Hhi.
  pose proof (g_enq _ _ _ G) as [Henq Hrq].
  destruct (T t) as [T1 T2 T3 T4 T5 T6]. rewrite Hpc in *. cbn [holds owns toks waitpc] in *.
  assert (Gto : grant s t <> GOwner) by (intros X; destruct (T5 X); discriminate).
  assert (NK : tokh s <> Some t) by (intros X; apply T3 in X; discriminate).
  rewrite (g_enc _ _ _ G) in Hs. unfold INTERVAL in Hs.
  (* the word once the owned width has been given back (and, for a barrier next, the pending reservation made) *)
  set (pbn := if nx =? 2 then 1 else 0) in *.
  set (r0 := mk (f_owner r) (f_tr r) (f_enq r) (f_mq r) (f_ov r) (f_role r) (f_em r) (f_d r) pbn
                (4096 - W + U s + (W - 1) * pbn) (f_ib r) (f_hi r)).
  assert (W0 : wfr r0) by (subst r0 pbn; destruct (nx =? 2); wf_mk).
  pose proof W0 as W0'. unfold wfr in W0'.
  assert (E0 : u64 (enc r - (if nx =? 2 then f_dispatch_queue_adjust_owned 0 (ow * 2199023255552) 1 W 1 else ow * 2199023255552)) = enc r0).
  { subst r0 pbn. destruct (Z.eqb_spec nx 2) as [E2|E2].
    - rewrite sub_adjusted by (assumption || lia). f_equal. unfold mk. f_equal; lia.
    - replace (enc r - ow * 2199023255552) with (enc r + (- ow) * 2199023255552) by lia.
      rewrite add_wq by (assumption || lia). unfold set_wq. f_equal. unfold mk. f_equal; lia. }
  rewrite (drain_nb_fields r r0) in Hs; try assumption; try lia;
    try (subst r0; cbn [mk f_ib f_hi f_pb f_wq]; lia); try (unfold valid_tid in Vt; lia).
  cbv zeta in Hs. rewrite E0 in Hs.
  set (r2 := mk 0 0 (f_enq r0) (f_mq r0) 0 (f_role r0) (f_em r0) 0 (f_pb r0) (f_wq r0) 0 0) in *.
  assert (W2 : wfr r2) by (subst r2 r0 pbn; destruct (nx =? 2); wf_mk).
  (* releasing the lock *)
  assert (Rel : forall s2 r3 tk p2,
            st s2 = enc r3 -> lst s2 = lst s -> rootq s2 = rootq s -> rq s2 = rq s -> pcs s2 = upd (pcs s) t p2 ->
            grant s2 = grant s -> lockh s2 = None -> bmode s2 = false -> dw s2 = 0 -> holders s2 = holders s -> tokh s2 = tk ->
            wfr r3 -> f_owner r3 = 0 -> f_tr r3 = 0 -> f_ov r3 = 0 -> f_role r3 = f_role r -> f_em r3 = f_em r -> f_pb r3 = pbn ->
            f_wq r3 = 4096 - W + U s + (W - 1) * pbn -> f_ib r3 = 0 -> f_hi r3 = 0 -> (pbn = 1 -> 1 <= U s) ->
            holds p2 = false -> owns p2 = false -> waitpc p2 = ret_waits k ->
            ((tk = Some t /\ toks p2 = true /\ f_enq r3 = 1 /\ f_enq r = 0) \/ (tk = tokh s /\ toks p2 = false /\ f_enq r3 = f_enq r)) ->
            Inv W s2).
  { intros s2 r3 tk p2 E2 L2 Q2 Rq2 P2 G2 Lk2 B2 D2 H2 K2 W3 R1 R2 R3 R4 R5 R6 R7 R8 R9 RU Ph Po Pw Tk.
    split; [exact HW|]. split.
    - exists r3. pose proof (g_pbh _ _ _ G) as Gph. destruct G.
      constructor; unfold U, head_bar in *; rewrite ?L2, ?Q2, ?Rq2, ?P2, ?G2, ?Lk2, ?B2, ?D2, ?H2, ?K2;
        try assumption; try lia; try reflexivity; try congruence.
      + split; [|exact Hrq]. destruct Tk as [(-> & _ & E1 & E2')|(-> & _ & E1)].
        * rewrite E1. rewrite E2' in Henq. destruct (tokh s); lia.
        * rewrite E1. exact Henq.
      + apply g_wt_setpc; [exact Gwt | rewrite Hpc, Pw; cbn [waitpc]; auto].
      + intros X. apply Hn2. subst pbn. destruct (Z.eqb_spec nx 2); [assumption|lia].
    - intros u. destruct (Z.eq_dec u t) as [->|Ne].
      + constructor; rewrite ?P2, ?G2, ?H2, ?Lk2, ?K2, ?upd_same, ?Ph, ?Po, ?Pw.
        * exact T1.
        * split; [discriminate | intros [X|X]; [discriminate|contradiction]].
        * destruct Tk as [(-> & Kp & _)|(-> & Kp & _)]; rewrite Kp; [split; auto | split; [intros X; contradiction|discriminate]].
        * exact T4.
        * intros X. contradiction.
        * discriminate.
      + apply (other_thread_owner W s s2 t u Ne T Ho).
        * rewrite P2. apply upd_other; exact Ne.
        * rewrite G2. reflexivity.
        * rewrite H2. reflexivity.
        * rewrite Lk2. discriminate.
        * rewrite K2. destruct Tk as [(-> & _ & _ & E2')|(-> & _)]; [|reflexivity].
          rewrite E2' in Henq. assert (TN : tokh s = None) by (destruct (tokh s); [lia|reflexivity]).
          rewrite TN. split; [intros X; congruence|discriminate]. }
  assert (R0f : f_ib r0 = 0 /\ f_hi r0 = 0 /\ f_pb r0 = pbn /\ f_wq r0 = 4096 - W + U s + (W - 1) * pbn /\ f_enq r0 = f_enq r /\
                f_role r0 = f_role r /\ f_em r0 = f_em r) by (subst r0; cbn [mk f_ib f_hi f_pb f_wq f_enq f_role f_em]; repeat split; auto).
  destruct R0f as (F1 & F2 & F3 & F4 & F5 & F6 & F7).
  assert (Pbn : pbn = 0 \/ pbn = 1) by (subst pbn; destruct (nx =? 2); auto).
  destruct (Z.eqb_spec nx 0) as [N0|N0].
  - (* nothing more to hand out *)
    change (nz 0) with false in Hs. cbv iota in Hs.
    destruct (Z.eqb_spec (f_d r) 1) as [Hd|Hd].
    { injection Hs as <-. pc_only_tac HI Hpc. split; [exact Bm|]. split; [exact Dw|]. split; [exact O|].
      rewrite (pb_of W s r G). exact P0. }
    assert (Pn0 : pbn = 0) by (subst pbn; destruct (Z.eqb_spec nx 2); [lia|reflexivity]).
    unfold changed, IN_BARRIER, ENQUEUED in Hs. rewrite changed_ib_f, changed_enq_f in Hs by assumption.
    subst r2. fcbn_in Hs. rewrite F1, !Z.eqb_refl in Hs. cbn [Z.eqb negb] in Hs. injection Hs as <-.
    eapply (Rel _ (mk 0 0 (f_enq r0) (f_mq r0) 0 (f_role r0) (f_em r0) 0 (f_pb r0) (f_wq r0) 0 0) (tokh s) (after k));
      gcbn; fcbn; try assumption; try reflexivity; try lia; try (destruct k; reflexivity).
    right. split; [reflexivity|]. split; [destruct k; reflexivity | exact F5].
  - (* there is a next item: DIRTY stays behind, and the lock may be taken again on its behalf *)
    cbv iota in Hs. change (nz 1) with true in Hs. cbv iota in Hs.
    unfold tl_rec, tl_take in Hs. subst r2. fcbn_in Hs. rewrite F3, F4 in Hs.
    assert (Take : (if pbn =? 1 then 4096 - W + U s + (W - 1) * pbn + 1 =? 4096 else 4096 - W + U s + (W - 1) * pbn + W =? 4096)
                   = (U s =? 0)).
    { destruct Pbn as [->| ->]; cbn [Z.eqb].
      - destruct (Z.eqb_spec (4096 - W + U s + (W - 1) * 0 + W) 4096); destruct (Z.eqb_spec (U s) 0); try reflexivity; lia.
      - destruct (Z.eqb_spec (4096 - W + U s + (W - 1) * 1 + 1) 4096); destruct (Z.eqb_spec (U s) 0); try reflexivity; lia. }
    rewrite Take in Hs.
    destruct (Z.eqb_spec (U s) 0) as [U0|U0].
    + (* every handed-out interval is back already: barrier owner again *)
      set (rl := locked_bar (mk 0 0 (f_enq r0) (f_mq r0) 0 (f_role r0) (f_em r0) 1 pbn (4096 - W + U s + (W - 1) * pbn) 0 0) t) in *.
      assert (Wl : wfr rl) by (subst rl; unfold locked_bar; fcbn; unfold valid_tid in Vt; destruct Pbn as [->| ->]; wf_mk).
      unfold changed, IN_BARRIER in Hs. rewrite changed_ib_f in Hs by assumption.
      subst rl. fcbn_in Hs. rewrite F1 in Hs. cbn [Z.eqb negb] in Hs. injection Hs as <-.
      split; [exact HW|]. split.
      * eexists. destruct G. constructor; try reflexivity; try exact Wl; unfold U in *; gcbn; fcbn; try assumption; try lia; try congruence.
        -- rewrite Ho. reflexivity.
        -- intros _. split; [rewrite Ho; discriminate|]. split; [reflexivity|]. split; [lia|reflexivity].
        -- split; [lia|]. intros X. rewrite Ho in X. discriminate X.
        -- apply g_wt_setpc; [exact Gwt | rewrite Hpc; cbn [waitpc]; auto].
      * intros u. destruct (Z.eq_dec u t) as [->|Ne].
        -- eapply (owner_keeps W s _ t (BC_tail k) (T t)); rewrite ?Hpc; gcbn; rewrite ?upd_same; try reflexivity.
        -- apply (other_thread_owner W s _ t u Ne T Ho); gcbn; try reflexivity.
           ++ apply upd_other; exact Ne.
           ++ rewrite Ho. intros X. congruence.
    + assert (U1 : 1 <= U s) by lia.
      destruct (Z.eqb_spec (f_d r) 1) as [Hd|Hd].
      * (* DIRTY was set meanwhile: the lane must be re-enqueued *)
        set (r3 := set_enq1 (mk 0 0 (f_enq r0) (f_mq r0) 0 (f_role r0) (f_em r0) 1 pbn (4096 - W + U s + (W - 1) * pbn) 0 0)) in *.
        assert (W3 : wfr r3) by (subst r3; unfold set_enq1; fcbn; destruct Pbn as [->| ->]; wf_mk).
        unfold changed, IN_BARRIER, ENQUEUED in Hs. rewrite changed_ib_f, changed_enq_f in Hs by assumption.
        subst r3. fcbn_in Hs. rewrite F1, F5 in Hs. cbn [Z.eqb negb] in Hs.
        destruct (Z.eqb_spec (f_enq r) 1) as [He|He]; cbn [negb] in Hs; injection Hs as <-.
        -- eapply (Rel _ _ (tokh s) (after k)); gcbn; try reflexivity; unfold set_enq1; fcbn;
             try assumption; try reflexivity; try lia; try (destruct k; reflexivity).
           right. split; [reflexivity|]. split; [destruct k; reflexivity | lia].
        -- eapply (Rel _ _ (Some t) (X_rootpush k)); gcbn; try reflexivity; unfold set_enq1; fcbn;
             try assumption; try reflexivity; try lia; try (destruct k; reflexivity).
           left. repeat split; auto; lia.
      * assert (W4 : wfr (mk 0 0 (f_enq r0) (f_mq r0) 0 (f_role r0) (f_em r0) 1 pbn (4096 - W + U s + (W - 1) * pbn) 0 0))
          by (destruct Pbn as [->| ->]; wf_mk).
        unfold changed, IN_BARRIER, ENQUEUED in Hs. rewrite changed_ib_f, changed_enq_f in Hs by assumption.
        fcbn_in Hs. rewrite F1, !Z.eqb_refl in Hs. cbn [Z.eqb negb] in Hs. injection Hs as <-.
        eapply (Rel _ _ (tokh s) (after k)); gcbn; try reflexivity; fcbn;
          try assumption; try reflexivity; try lia; try (destruct k; reflexivity).
        right. split; [reflexivity|]. split; [destruct k; reflexivity | exact F5].
Qed.
