(* Time_proofs.v — interface lemmas about Gen_time (generated from src/time.c and
   src/shims/time.h on every run) and the proofs of the C12 statements. *)
From Coq Require Import ZArith Bool Lia ZifyBool.
From Verif Require Import Word Bits Tactics Gen_consts Gen_time Time.
Local Open Scope Z_scope.

Lemma land_b62 t : Z.land t 4611686018427387904 = ((t / 4611686018427387904) mod 2) * 4611686018427387904.
Proof. change 4611686018427387904 with (2 ^ 62). apply land_bit. lia. Qed.
Lemma land_low63 t : Z.land t 9223372036854775807 = t mod 9223372036854775808.
Proof. change 9223372036854775807 with (2 ^ 63 - 1). change 9223372036854775808 with (2 ^ 63). apply land_low. lia. Qed.
Lemma lor_b63 v : 0 <= v < 9223372036854775808 -> Z.lor v 9223372036854775808 = v + 9223372036854775808.
Proof.
  intros. pose proof (lor_disjoint v 1 63) as L. change (2 ^ 63) with 9223372036854775808 in L.
  rewrite Z.mul_1_l in L. apply L; lia.
Qed.

Lemma b62_cases t : 0 <= t < 18446744073709551616 ->
  Z.land t 4611686018427387904 =
  if (t <? 4611686018427387904) then 0 else if t <? 9223372036854775808 then 4611686018427387904
  else if t <? 13835058055282163712 then 0 else 4611686018427387904.
Proof.
  intros. rewrite land_b62.
  pose proof (Z.div_mod t 4611686018427387904 ltac:(lia)).
  pose proof (Z.mod_pos_bound t 4611686018427387904 ltac:(lia)).
  pose proof (Z.div_mod (t / 4611686018427387904) 2 ltac:(lia)).
  pose proof (Z.mod_pos_bound (t / 4611686018427387904) 2 ltac:(lia)).
  repeat match goal with |- context [if ?b then _ else _] => destruct b eqn:? end; lia.
Qed.

Lemma low63_cases t : 0 <= t < 18446744073709551616 ->
  Z.land t 9223372036854775807 = if t <? 9223372036854775808 then t else t - 9223372036854775808.
Proof.
  intros. rewrite land_low63.
  destruct (Z.ltb_spec t 9223372036854775808).
  - apply Z.mod_small; lia.
  - symmetry. apply Z.mod_unique with 1; lia.
Qed.

Definition in64 (x : Z) := 0 <= x < 18446744073709551616.
Definition ins64 (x : Z) := -9223372036854775808 <= x < 9223372036854775808.

Lemma At_inj c v c' v' : At c v = At c' v' -> c = c' /\ v = v'.
Proof. intros H; injection H; auto. Qed.
Lemma Forever_At c v : Forever = At c v -> False.
Proof. discriminate. Qed.

Ltac finish := try reflexivity; try (f_equal; lia); try lia.

(* ---- wrap arithmetic facts used below (each closed by lia on div/mod equations) ---- *)
Section Wraps.
Local Ltac Zify.zify_post_hook ::= Z.div_mod_to_equations.
Lemma u64_small x : 0 <= x < 18446744073709551616 -> u64 x = x.
Proof. unfold u64; intros; lia. Qed.
Lemma u64_neg x : -18446744073709551616 <= x < 0 -> u64 x = x + 18446744073709551616.
Proof. unfold u64; intros; lia. Qed.
Lemma s64_small x : -9223372036854775808 <= x < 9223372036854775808 -> s64 x = x.
Proof. unfold s64; intros; lia. Qed.
Lemma s64_high x : 9223372036854775808 <= x < 18446744073709551616 -> s64 x = x - 18446744073709551616.
Proof. unfold s64; intros; lia. Qed.
Lemma s64_u64 x : s64 (u64 x) = s64 x.
Proof. unfold s64, u64; lia. Qed.
End Wraps.

Definition clk (c : Z) : clock := if c =? 0 then Up else if c =? 1 then Mono else Wall.
Definition cnum (c : clock) : Z := match c with Up => 0 | Mono => 1 | Wall => 2 end.

Lemma to_clock_and_value_spec k t :
  in64 t -> t <> FOREVER -> clocks_ok k ->
  f_dispatch_time_to_clock_and_value t (now_wall k) =
  match decode k t with
  | Forever => ((if t <? 9223372036854775808 then 0 else if t <? 13835058055282163712 then 1 else 2), FOREVER)
  | At Up v => (0, if t =? 0 then 0 else v)
  | At Mono v => (1, if t =? 9223372036854775808 then 0 else v)
  | At Wall v => (2, v)
  end.
Proof.
  unfold in64, FOREVER, clocks_ok, f_dispatch_time_to_clock_and_value, decode, FOREVER, WALLNOW, MAXV, nz.
  intros Ht Hne (Hu & Hm & Hw).
  rewrite b62_cases, low63_cases by lia. cbv zeta.
  crunch; finish.
Qed.

(* what a decoded base looks like *)
Lemma decode_At k t c b :
  in64 t -> clocks_ok k -> decode k t = At c b ->
  lo c <= b <= MAXV /\
  (c = Up -> (t = 0 /\ b = now_up k) \/ (t <> 0 /\ b = t)) /\
  (c = Mono -> (t = 9223372036854775808 /\ b = now_mono k) \/
               (t <> 9223372036854775808 /\ b = t - 9223372036854775808)) /\
  (c = Wall -> (t = WALLNOW /\ b = now_wall k) \/ (t <> WALLNOW /\ b = 18446744073709551616 - t)).
Proof.
  unfold in64, clocks_ok, decode, FOREVER, WALLNOW, MAXV, lo. intros Ht (Hu & Hm & Hw).
  crunch; intros Hdec;
  (lazymatch type of Hdec with
   | Forever = At _ _ => destruct (Forever_At _ _ Hdec)
   | At _ _ = At _ _ => apply At_inj in Hdec as [<- <-]
   end); cbv iota;
  (split; [lia | repeat split; intros Hc; first [discriminate Hc | lia]]).
Qed.

(* re-encoding: what the 64-bit result of _dispatch_clock_and_value_to_time denotes *)
Lemma c2t_decode k c v :
  clocks_ok k -> 1 <= v < 9223372036854775808 ->
  decode k (f_dispatch_clock_and_value_to_time (cnum c) v) =
  if v >=? MAXV then Forever
  else match c with
       | Up => At Up v | Mono => At Mono v
       | Wall => if v =? 1 then Forever else if v =? 2 then At Wall (now_wall k) else At Wall v
       end.
Proof.
  unfold clocks_ok, f_dispatch_clock_and_value_to_time, MAXV. intros (Hu & Hm & Hw) Hv.
  destruct (Z.geb_spec v 4611686018427387903) as [Hge|Hlt].
  - unfold decode, FOREVER. reflexivity.
  - destruct c; cbn [cnum]; eval_lit.
    + unfold decode, FOREVER, MAXV. crunch; finish.
    + rewrite lor_b63 by lia. unfold decode, FOREVER, MAXV. crunch; finish.
    + rewrite u64_neg by lia. unfold decode, FOREVER, WALLNOW, MAXV. crunch; finish.
Qed.

(* the arithmetic core of dispatch_time for the uptime and monotonic clocks, on a base b already
   resolved against the clock (1 <= b <= MAXV) *)
Lemma nonwall_arith k c b delta :
  clocks_ok k -> c <> Wall -> 1 <= b <= 4611686018427387903 -> ins64 delta ->
  decode k
    (if delta >=? 0
     then let offset_1 := u64 delta in
          let value_9 := u64 (b + offset_1) in
          if s64 value_9 <=? 0 then 18446744073709551615
          else f_dispatch_clock_and_value_to_time (cnum c) value_9
     else let offset_2 := u64 (s64 (- delta)) in
          let value_10 := u64 (b - offset_2) in
          if s64 value_10 <? 1 then f_dispatch_clock_and_value_to_time (cnum c) 1
          else f_dispatch_clock_and_value_to_time (cnum c) value_10)
  = shifted k c b delta.
Proof.
  intros Hk Hc Hb Hd. unfold ins64 in Hd. cbv zeta.
  destruct (Z.geb_spec delta 0) as [Hd0|Hd0].
  - rewrite (u64_small delta) by lia. rewrite (u64_small (b + delta)) by lia.
    destruct (Z.leb_spec (s64 (b + delta)) 0) as [Hs|Hs].
    + unfold shifted, MAXV.
      assert (9223372036854775808 <= b + delta).
      { destruct (Z.lt_ge_cases (b + delta) 9223372036854775808); [|lia]. rewrite s64_small in Hs by lia. lia. }
      destruct (Z.geb_spec (b + delta) 4611686018427387903); [reflexivity|lia].
    + assert (b + delta < 9223372036854775808).
      { destruct (Z.lt_ge_cases (b + delta) 9223372036854775808); [lia|]. rewrite s64_high in Hs by lia. lia. }
      rewrite (c2t_decode k c) by (assumption || lia). unfold shifted, lo, MAXV.
      destruct (Z.geb_spec (b + delta) 4611686018427387903); [reflexivity|].
      destruct c; try congruence; (destruct (Z.ltb_spec (b + delta) 1); [lia|reflexivity]).
  - assert (Ho : u64 (s64 (- delta)) = - delta).
    { destruct (Z.eq_dec delta (-9223372036854775808)) as [->|].
      - reflexivity.
      - rewrite s64_small by lia. apply u64_small. lia. }
    rewrite Ho. replace (b - - delta) with (b + delta) by lia.
    rewrite s64_u64, (s64_small (b + delta)) by lia.
    destruct (Z.ltb_spec (b + delta) 1) as [Hs|Hs].
    + rewrite (c2t_decode k c) by (assumption || lia). unfold shifted, lo, past, MAXV. cbn.
      destruct (Z.geb_spec (b + delta) 4611686018427387903); [lia|].
      destruct c; try congruence; (destruct (Z.ltb_spec (b + delta) 1); [reflexivity|lia]).
    + rewrite (u64_small (b + delta)) by lia.
      rewrite (c2t_decode k c) by (assumption || lia). unfold shifted, lo, MAXV.
      destruct (Z.geb_spec (b + delta) 4611686018427387903); [reflexivity|].
      destruct c; try congruence; (destruct (Z.ltb_spec (b + delta) 1); [lia|reflexivity]).
Qed.

(* the wall-clock branch: b is the decoded number of nanoseconds since the epoch (3 <= b <= MAXV) *)
Lemma wall_arith k b delta :
  clocks_ok k -> 3 <= b <= 4611686018427387903 -> ins64 delta ->
  decode k
    (let offset := u64 delta in
     if delta >=? 0
     then let value_1 := u64 (b + offset) in
          if s64 value_1 <=? 0 then 18446744073709551615
          else f_dispatch_clock_and_value_to_time 2 value_1
     else let value_2 := u64 (b + offset) in
          let value_4 := if s64 value_2 <=? 1 then let value_3 := 2 in value_3 else value_2 in
          f_dispatch_clock_and_value_to_time 2 value_4)
  = shifted k Wall b delta.
Proof.
  intros Hk Hb Hd. unfold ins64 in Hd. cbv zeta.
  pose proof Hk as (_ & _ & Hw). unfold MAXV in Hw.
  destruct (Z.geb_spec delta 0) as [Hd0|Hd0].
  - rewrite (u64_small delta) by lia. rewrite (u64_small (b + delta)) by lia.
    destruct (Z.leb_spec (s64 (b + delta)) 0) as [Hs|Hs].
    + unfold shifted, MAXV.
      assert (9223372036854775808 <= b + delta).
      { destruct (Z.lt_ge_cases (b + delta) 9223372036854775808); [|lia]. rewrite s64_small in Hs by lia. lia. }
      destruct (Z.geb_spec (b + delta) 4611686018427387903); [reflexivity|lia].
    + assert (b + delta < 9223372036854775808).
      { destruct (Z.lt_ge_cases (b + delta) 9223372036854775808); [lia|]. rewrite s64_high in Hs by lia. lia. }
      rewrite (c2t_decode k Wall) by (assumption || lia). unfold shifted, lo, MAXV.
      destruct (Z.geb_spec (b + delta) 4611686018427387903); [reflexivity|].
      destruct (Z.ltb_spec (b + delta) 3); [lia|].
      destruct (Z.eqb_spec (b + delta) 1); [lia|]. destruct (Z.eqb_spec (b + delta) 2); [lia|reflexivity].
  - rewrite (u64_neg delta) by lia.
    assert (Hs : s64 (u64 (b + (delta + 18446744073709551616))) = b + delta).
    { rewrite s64_u64. unfold s64.
      replace (b + (delta + 18446744073709551616) + 9223372036854775808)
        with ((b + delta + 9223372036854775808) + 1 * 18446744073709551616) by lia.
      rewrite Z.mod_add by lia. rewrite Z.mod_small by lia. lia. }
    rewrite Hs.
    destruct (Z.leb_spec (b + delta) 1) as [Hle|Hgt].
    + change (f_dispatch_clock_and_value_to_time 2 2) with (f_dispatch_clock_and_value_to_time (cnum Wall) 2).
      rewrite (c2t_decode k Wall) by (assumption || lia). unfold shifted, lo, past, MAXV. cbn.
      destruct (Z.geb_spec (b + delta) 4611686018427387903); [lia|].
      destruct (Z.ltb_spec (b + delta) 3); [reflexivity|lia].
    + assert (Hu : u64 (b + (delta + 18446744073709551616)) = b + delta).
      { unfold u64. replace (b + (delta + 18446744073709551616)) with ((b + delta) + 1 * 18446744073709551616) by lia.
        rewrite Z.mod_add by lia. apply Z.mod_small. lia. }
      rewrite Hu.
      change 2 with (cnum Wall) at 1.
      rewrite (c2t_decode k Wall) by (assumption || lia). unfold shifted, lo, past, MAXV.
      destruct (Z.geb_spec (b + delta) 4611686018427387903); [lia|].
      destruct (Z.eqb_spec (b + delta) 1); [lia|].
      destruct (Z.eqb_spec (b + delta) 2) as [E|E].
      * destruct (Z.ltb_spec (b + delta) 3); [reflexivity|lia].
      * destruct (Z.ltb_spec (b + delta) 3); [lia|reflexivity].
Qed.

(* ------------------------------------------------------------------ dispatch_time *)
Lemma dispatch_time_shift k inval delta c b :
  in64 inval -> ins64 delta -> clocks_ok k ->
  decode k inval = At c b ->
  decode k (dispatch_time inval delta (now_wall k) (now_up k) (now_mono k)) = shifted k c b delta.
Proof.
  intros Hi Hd Hk Hdec.
  assert (Hne : inval <> FOREVER).
  { intro; subst. unfold decode in Hdec. rewrite Z.eqb_refl in Hdec. discriminate. }
  unfold dispatch_time.
  rewrite (to_clock_and_value_spec k inval Hi Hne Hk), Hdec.
  destruct (decode_At k inval c b Hi Hk Hdec) as (Hb & HbU & HbM & HbW).
  clear Hdec.
  assert (Hne' : (inval =? 18446744073709551615) = false) by (unfold FOREVER in Hne; lia).
  rewrite Hne'. clear Hne'.
  pose proof Hk as (Hu & Hm & Hw).
  unfold in64, MAXV, lo in *.
  unfold f_dispatch_time_nano2mach.
  destruct c; cbv iota beta.
  - (* uptime *)
    set (v := if inval =? 0 then 0 else b).
    assert (Hv8 : (if v =? 0 then if 0 =? 0 then now_up k else now_mono k else v) = b).
    { subst v. destruct (HbU eq_refl) as [[-> ->] | [Hn0 ->]]; cbn [Z.eqb]; [reflexivity|].
      destruct (Z.eqb_spec inval 0); [lia|]. destruct (Z.eqb_spec inval 0); [lia|reflexivity]. }
    assert (Hvf : (v =? 18446744073709551615) = false) by (subst v; destruct (inval =? 0); lia).
    rewrite Hvf. change (0 =? 2) with false. cbv iota. cbv zeta. rewrite Hv8.
    apply (nonwall_arith k Up b delta); (assumption || discriminate || lia).
  - (* monotonic *)
    set (v := if inval =? 9223372036854775808 then 0 else b).
    assert (Hv8 : (if v =? 0 then if 1 =? 0 then now_up k else now_mono k else v) = b).
    { subst v. destruct (HbM eq_refl) as [[-> ->] | [Hn0 ->]]; cbn [Z.eqb]; [reflexivity|].
      destruct (Z.eqb_spec inval 9223372036854775808); [lia|].
      destruct (Z.eqb_spec (inval - 9223372036854775808) 0); [lia|reflexivity]. }
    assert (Hvf : (v =? 18446744073709551615) = false) by (subst v; destruct (inval =? 9223372036854775808); lia).
    rewrite Hvf. change (1 =? 2) with false. cbv iota. cbv zeta. rewrite Hv8.
    apply (nonwall_arith k Mono b delta); (assumption || discriminate || lia).
  - (* wall clock *)
    assert (Hvf : (b =? 18446744073709551615) = false) by lia.
    rewrite Hvf. change (2 =? 2) with true. cbv iota.
    apply (wall_arith k b delta); (assumption || lia).
Qed.

Lemma dispatch_time_forever delta nw nu nm : dispatch_time FOREVER delta nw nu nm = FOREVER.
Proof. reflexivity. Qed.

Lemma dispatch_time_out_of_range k inval delta :
  in64 inval -> clocks_ok k -> decode k inval = Forever ->
  dispatch_time inval delta (now_wall k) (now_up k) (now_mono k) = FOREVER.
Proof.
  intros Hi Hk Hdec. unfold dispatch_time.
  destruct (Z.eqb_spec inval 18446744073709551615) as [|Hne]; [reflexivity|].
  rewrite (to_clock_and_value_spec k inval Hi Hne Hk), Hdec. reflexivity.
Qed.

(* ------------------------------------------------------------------ monotonicity *)
Lemma shifted_monotone k c b d1 d2 :
  clocks_ok k -> lo c <= b -> d1 <= d2 -> time_le k (shifted k c b d1) (shifted k c b d2).
Proof.
  intros (Hu & Hm & Hw) Hb Hd. unfold shifted, time_le, MAXV, lo, past in *.
  destruct (Z.geb_spec (b + d2) 4611686018427387903).
  - destruct (b + d1 >=? 4611686018427387903); [exact I|]. destruct (b + d1 <? _); exact I.
  - destruct (Z.geb_spec (b + d1) 4611686018427387903); [lia|].
    destruct c;
    repeat match goal with |- context [if ?x <? ?y then _ else _] => destruct (Z.ltb_spec x y) end;
    cbn [now]; (split; [reflexivity | lia]).
Qed.

(* ------------------------------------------------------------------ _dispatch_timeout *)
Lemma timeout_spec k t c v :
  in64 t -> clocks_ok k -> decode k t = At c v ->
  f_dispatch_timeout t (now_wall k) (now_up k) (now_mono k) = Z.max 0 (v - now k c).
Proof.
  intros Hi Hk Hdec. unfold f_dispatch_timeout.
  assert (Hne : t <> 18446744073709551615).
  { intros ->. unfold decode, FOREVER in Hdec. cbn in Hdec. discriminate. }
  destruct (Z.eqb_spec t 18446744073709551615) as [|_]; [contradiction|].
  rewrite (to_clock_and_value_spec k t Hi Hne Hk), Hdec.
  pose proof Hk as (Hu & Hm & Hw). unfold in64, MAXV in *.
  destruct (decode_At k t c v Hi Hk Hdec) as (Hb & HbU & HbM & HbW). unfold MAXV, lo in Hb.
  unfold f_dispatch_time_mach2nano.
  destruct c; cbn [now].
  - destruct (HbU eq_refl) as [[-> ->] | [Hn0 ->]].
    + cbn [Z.eqb]. lia.
    + destruct (Z.eqb_spec t 0); [lia|]. destruct (Z.eqb_spec t 0); [lia|]. cbn [Z.eqb]. cbv zeta iota.
      destruct (Z.geb_spec (now_up k) t); [lia|]. rewrite u64_small by lia. lia.
  - destruct (HbM eq_refl) as [[-> ->] | [Hn0 ->]].
    + cbn. destruct (Z.geb_spec (now_mono k) 0); lia.
    + destruct (Z.eqb_spec t 0); [lia|]. destruct (Z.eqb_spec t 9223372036854775808); [lia|].
      cbn [Z.eqb Pos.eqb]. cbv zeta iota.
      destruct (Z.geb_spec (now_mono k) (t - 9223372036854775808)); [lia|]. rewrite u64_small by lia. lia.
  - assert (t <> 0) by (unfold WALLNOW in HbW; destruct (HbW eq_refl) as [[-> _]|[_ ->]]; lia).
    destruct (Z.eqb_spec t 0); [lia|]. cbn [Z.eqb Pos.eqb]. cbv zeta iota.
    destruct (Z.geb_spec (now_wall k) v); [lia|]. rewrite u64_small by lia. lia.
Qed.

Lemma timeout_forever nw nu nm : f_dispatch_timeout FOREVER nw nu nm = FOREVER.
Proof. reflexivity. Qed.

Lemma elapsed_timeout_zero k t :
  in64 t -> clocks_ok k -> elapsed k (decode k t) ->
  f_dispatch_timeout t (now_wall k) (now_up k) (now_mono k) = 0.
Proof.
  intros Hi Hk He.
  destruct (decode k t) as [|c v] eqn:Hdec; cbn in He; [contradiction|].
  rewrite (timeout_spec k t c v) by assumption. lia.
Qed.

(* waiting until a time produced by an underflowing shift does not block *)
Lemma underflow_is_elapsed k c b delta :
  clocks_ok k -> b + delta < lo c -> elapsed k (shifted k c b delta).
Proof.
  intros (Hu & Hm & Hw) Hlt. unfold shifted, elapsed, MAXV, lo, past in *.
  destruct (Z.geb_spec (b + delta) 4611686018427387903); [destruct c; lia|].
  destruct (Z.ltb_spec (b + delta) (match c with Wall => 3 | _ => 1 end)); [|lia].
  destruct c; cbn [now]; lia.
Qed.

(* ------------------------------------------------------------------ dispatch_walltime *)
Lemma s64_overflow_test x : (negb (s64 x =? x)) = negb (fits64 x).
Proof.
  unfold fits64. destruct (Z.leb_spec (-9223372036854775808) x); destruct (Z.ltb_spec x 9223372036854775808); cbn.
  - rewrite s64_small by lia. rewrite Z.eqb_refl. reflexivity.
  - pose proof (s64_range x). destruct (Z.eqb_spec (s64 x) x); [lia|reflexivity].
  - pose proof (s64_range x). destruct (Z.eqb_spec (s64 x) x); [lia|reflexivity].
  - lia.
Qed.

(* the tail shared by both branches: nsec is the exact base (fits 64 bits), then + delta with overflow check *)
Lemma walltime_tail k n delta :
  clocks_ok k -> ins64 n -> ins64 delta ->
  decode k
    (let exact := n + delta in
     let nsec := s64 exact in
     if nz (b2z (negb (nsec =? exact)))
     then if delta >=? 0 then 18446744073709551615 else 18446744073709551614
     else if nsec <=? 1 then 18446744073709551614
     else if nsec >=? 4611686018427387903 then 18446744073709551615
     else u64 (s64 (- nsec)))
  = shifted k Wall n delta.
Proof.
  intros Hk Hn Hd. pose proof Hk as (Hu & Hm & Hw). unfold ins64, MAXV in *. cbv zeta.
  rewrite s64_overflow_test. unfold fits64, shifted, lo, past, MAXV.
  destruct (Z.leb_spec (-9223372036854775808) (n + delta)); destruct (Z.ltb_spec (n + delta) 9223372036854775808);
    cbn [andb negb b2z nz Z.eqb]; try lia.
  - rewrite (s64_small (n + delta)) by lia.
    destruct (Z.leb_spec (n + delta) 1).
    + destruct (Z.geb_spec (n + delta) 4611686018427387903); [lia|].
      destruct (Z.ltb_spec (n + delta) 3); [|lia]. reflexivity.
    + destruct (Z.geb_spec (n + delta) 4611686018427387903); [reflexivity|].
      rewrite s64_small by lia. rewrite u64_neg by lia.
      destruct (Z.ltb_spec (n + delta) 3).
      * assert (n + delta = 2) as -> by lia. reflexivity.
      * unfold decode, FOREVER, WALLNOW, MAXV.
        repeat match goal with
               | |- context [if ?x =? ?y then _ else _] => destruct (Z.eqb_spec x y); [lia|]
               | |- context [if ?x <? ?y then _ else _] => destruct (Z.ltb_spec x y); [lia|]
               end.
        destruct (Z.leb_spec (18446744073709551616 - (- (n + delta) + 18446744073709551616)) 4611686018427387903); [|lia].
        f_equal. lia.
  - (* positive overflow *)
    destruct (Z.geb_spec delta 0); [|lia].
    destruct (Z.geb_spec (n + delta) 4611686018427387903); [reflexivity|lia].
  - (* negative overflow *)
    destruct (Z.geb_spec delta 0); [lia|].
    destruct (Z.geb_spec (n + delta) 4611686018427387903); [lia|].
    destruct (Z.ltb_spec (n + delta) 3); [reflexivity|lia].
Qed.

Lemma dispatch_walltime_spec k inval ts delta :
  clocks_ok k -> ins64 delta ->
  (inval = 0 <-> ts = None) ->
  (forall sec nsec, ts = Some (sec, nsec) -> ins64 sec /\ ins64 nsec) ->
  decode k (dispatch_walltime inval delta (match ts with Some (s, _) => s | None => 0 end)
                              (match ts with Some (_, n) => n | None => 0 end) (now_wall k))
  = walltime_spec k ts delta.
Proof.
  intros Hk Hd Hnull Hts. pose proof Hk as (Hu & Hm & Hw). unfold MAXV in *.
  unfold dispatch_walltime, walltime_spec.
  destruct ts as [[sec nsec]|].
  - assert (Hnz : nz inval = true).
    { unfold nz. destruct (Z.eqb_spec inval 0) as [E|]; [|reflexivity]. apply Hnull in E. discriminate. }
    rewrite Hnz. destruct (Hts sec nsec eq_refl) as [Hs Hn]. cbv zeta.
    rewrite (s64_overflow_test (sec * 1000000000)).
    destruct (fits64 (sec * 1000000000)) eqn:F1; cbn [negb b2z nz Z.eqb andb].
    + assert (E1 : s64 (sec * 1000000000) = sec * 1000000000) by (apply s64_small; unfold fits64 in F1; lia).
      rewrite E1. rewrite (s64_overflow_test (sec * 1000000000 + nsec)).
      destruct (fits64 (sec * 1000000000 + nsec)) eqn:F2; cbn [negb b2z nz Z.eqb].
      * assert (E2 : s64 (sec * 1000000000 + nsec) = sec * 1000000000 + nsec)
          by (apply s64_small; unfold fits64 in F2; lia).
        rewrite E2.
        apply (walltime_tail k (sec * 1000000000 + nsec) delta); try assumption.
        unfold ins64, fits64 in *. lia.
      * destruct (sec <? 0); reflexivity.
    + destruct (sec <? 0); reflexivity.
  - assert (Hz : nz inval = false).
    { unfold nz. destruct (Z.eqb_spec inval 0) as [E|N]; [reflexivity|]. exfalso. apply N. apply Hnull. reflexivity. }
    rewrite Hz. cbv zeta. rewrite (s64_small (now_wall k)) by lia.
    apply (walltime_tail k (now_wall k) delta); try assumption. unfold ins64. lia.
Qed.

(* ------------------------------------------------------------------ _dispatch_time_nanoseconds_since_epoch *)
(* used by the semaphore / group timed waits (C07, C08): the absolute CLOCK_REALTIME deadline handed to the
   kernel is never earlier than now + remaining time *)
Lemma since_epoch_spec k t c v :
  in64 t -> clocks_ok k -> decode k t = At c v ->
  f_dispatch_time_nanoseconds_since_epoch t (now_wall k) (now_up k) (now_mono k) =
  match c with
  | Wall => if t =? WALLNOW then 2 else v
  | _ => now_wall k + Z.max 0 (v - now k c)
  end.
Proof.
  intros Hi Hk Hdec. unfold f_dispatch_time_nanoseconds_since_epoch.
  assert (Hne : t <> 18446744073709551615).
  { intros ->. unfold decode, FOREVER in Hdec. cbn in Hdec. discriminate. }
  destruct (Z.eqb_spec t 18446744073709551615) as [|_]; [contradiction|].
  pose proof Hk as (Hu & Hm & Hw). unfold in64, MAXV in *.
  destruct (decode_At k t c v Hi Hk Hdec) as (Hb & HbU & HbM & HbW). unfold MAXV, lo in Hb.
  rewrite b62_cases by lia. unfold nz.
  destruct c.
  - assert (t < 4611686018427387904) by (destruct (HbU eq_refl) as [[-> _]|[_ ->]]; lia).
    rewrite (s64_small t) by lia. destruct (Z.ltb_spec t 0); [lia|]. cbn [andb].
    rewrite (timeout_spec k t Up v) by assumption. apply u64_small. cbn [now]. lia.
  - assert (9223372036854775808 <= t < 13835058055282163712) by (destruct (HbM eq_refl) as [[-> _]|[_ ->]]; lia).
    destruct (Z.ltb_spec t 4611686018427387904); [lia|]. destruct (Z.ltb_spec t 9223372036854775808); [lia|].
    destruct (Z.ltb_spec t 13835058055282163712); [|lia]. cbn [Z.eqb negb]. rewrite andb_false_r.
    rewrite (timeout_spec k t Mono v) by assumption. apply u64_small. cbn [now]. lia.
  - assert (13835058055282163712 <= t) by (unfold WALLNOW in HbW; destruct (HbW eq_refl) as [[-> _]|[_ ->]]; lia).
    destruct (Z.ltb_spec t 4611686018427387904); [lia|]. destruct (Z.ltb_spec t 9223372036854775808); [lia|].
    destruct (Z.ltb_spec t 13835058055282163712); [lia|]. cbn [Z.eqb Pos.eqb negb].
    rewrite (s64_high t) by lia. destruct (Z.ltb_spec (t - 18446744073709551616) 0); [|lia]. cbn [andb].
    rewrite s64_small by lia. rewrite u64_small by lia.
    unfold WALLNOW in *. destruct (HbW eq_refl) as [[-> _]|[Hn ->]].
    + reflexivity.
    + destruct (Z.eqb_spec t 18446744073709551614); [contradiction|]. lia.
Qed.

(* consequence used by C08/C12: the absolute deadline handed to sem_timedwait is never before
   now + (time remaining on the deadline's own clock), and it is not in the future once the time has elapsed *)
Lemma since_epoch_elapsed k t :
  in64 t -> clocks_ok k -> elapsed k (decode k t) ->
  f_dispatch_time_nanoseconds_since_epoch t (now_wall k) (now_up k) (now_mono k) <= now_wall k.
Proof.
  intros Hi Hk He. destruct (decode k t) as [|c v] eqn:Hdec; cbn in He; [contradiction|].
  rewrite (since_epoch_spec k t c v) by assumption.
  pose proof Hk as (Hu & Hm & Hw). destruct c; cbn [now] in *; try lia.
  destruct (t =? WALLNOW); lia.
Qed.
