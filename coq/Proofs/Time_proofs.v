(* Time_proofs.v — interface lemmas about Gen_time (generated from src/time.c and
   src/shims/time.h on every run) and the proofs of the C12 statements. *)
From Coq Require Import ZArith Bool Lia ZifyBool.
From Verif Require Import Word Bits Tactics Gen_consts Gen_time Time.
Local Open Scope Z_scope.

Lemma land_b62 t : Z.land t 4611686018427387904 = ((t / 4611686018427387904) mod 2) * 4611686018427387904.
Proof. change 4611686018427387904 with (2 ^ 62). apply land_bit. lia. Qed.
Lemma land_low63 t : Z.land t 9223372036854775807 = t mod 9223372036854775808.
Proof. change 9223372036854775807 with (2 ^ 63 - 1). change 9223372036854775808 with (2 ^ 63). apply land_low. lia. Qed.
Lemma lor_b63 v : 0 <= v < 9223372036854775808 -> Z.lor v 9223372036854775808 = v + 9223372036854775808.
Proof.
  intros. pose proof (lor_disjoint v 1 63) as L. change (2 ^ 63) with 9223372036854775808 in L.
  rewrite Z.mul_1_l in L. apply L; lia.
Qed.

Lemma b62_cases t : 0 <= t < 18446744073709551616 ->
  Z.land t 4611686018427387904 =
  if (t <? 4611686018427387904) then 0 else if t <? 9223372036854775808 then 4611686018427387904
  else if t <? 13835058055282163712 then 0 else 4611686018427387904.
Proof.
  intros. rewrite land_b62.
  pose proof (Z.div_mod t 4611686018427387904 ltac:(lia)).
  pose proof (Z.mod_pos_bound t 4611686018427387904 ltac:(lia)).
  pose proof (Z.div_mod (t / 4611686018427387904) 2 ltac:(lia)).
  pose proof (Z.mod_pos_bound (t / 4611686018427387904) 2 ltac:(lia)).
  repeat match goal with |- context [if ?b then _ else _] => destruct b eqn:? end; lia.
Qed.

Lemma low63_cases t : 0 <= t < 18446744073709551616 ->
  Z.land t 9223372036854775807 = if t <? 9223372036854775808 then t else t - 9223372036854775808.
Proof.
  intros. rewrite land_low63.
  destruct (Z.ltb_spec t 9223372036854775808).
  - apply Z.mod_small; lia.
  - symmetry. apply Z.mod_unique with 1; lia.
Qed.

Definition in64 (x : Z) := 0 <= x < 18446744073709551616.
Definition ins64 (x : Z) := -9223372036854775808 <= x < 9223372036854775808.

Lemma At_inj c v c' v' : At c v = At c' v' -> c = c' /\ v = v'.
Proof. intros H; injection H; auto. Qed.
Lemma Forever_At c v : Forever = At c v -> False.
Proof. discriminate. Qed.

Ltac finish := try reflexivity; try (f_equal; lia); try lia.

Lemma to_clock_and_value_spec k t :
  in64 t -> t <> FOREVER -> clocks_ok k ->
  f_dispatch_time_to_clock_and_value t (now_wall k) =
  match decode k t with
  | Forever => ((if t <? 9223372036854775808 then 0 else if t <? 13835058055282163712 then 1 else 2), FOREVER)
  | At Up v => (0, if t =? 0 then 0 else v)
  | At Mono v => (1, if t =? 9223372036854775808 then 0 else v)
  | At Wall v => (2, v)
  end.
Proof.
  unfold in64, FOREVER, clocks_ok, f_dispatch_time_to_clock_and_value, decode, FOREVER, WALLNOW, MAXV, nz.
  intros Ht Hne (Hu & Hm & Hw).
  rewrite b62_cases, low63_cases by lia. cbv zeta.
  crunch; finish.
Qed.

(* what a decoded base looks like *)
Lemma decode_At k t c b :
  in64 t -> clocks_ok k -> decode k t = At c b ->
  lo c <= b <= MAXV /\
  (c = Up -> (t = 0 /\ b = now_up k) \/ (t <> 0 /\ b = t)) /\
  (c = Mono -> (t = 9223372036854775808 /\ b = now_mono k) \/
               (t <> 9223372036854775808 /\ b = t - 9223372036854775808)) /\
  (c = Wall -> (t = WALLNOW /\ b = now_wall k) \/ (t <> WALLNOW /\ b = 18446744073709551616 - t)).
Proof.
  unfold in64, clocks_ok, decode, FOREVER, WALLNOW, MAXV, lo. intros Ht (Hu & Hm & Hw).
  crunch; intros Hdec;
  (lazymatch type of Hdec with
   | Forever = At _ _ => destruct (Forever_At _ _ Hdec)
   | At _ _ = At _ _ => apply At_inj in Hdec as [<- <-]
   end); cbv iota;
  (split; [lia | repeat split; intros Hc; first [discriminate Hc | lia]]).
Qed.

(* the main functional-correctness statement for dispatch_time *)
Lemma dispatch_time_shift k inval delta c b :
  in64 inval -> ins64 delta -> clocks_ok k ->
  decode k inval = At c b ->
  decode k (dispatch_time inval delta (now_wall k) (now_up k) (now_mono k)) = shifted k c b delta.
Proof.
  intros Hi Hd Hk Hdec.
  assert (Hne : inval <> FOREVER).
  { intro; subst. unfold decode in Hdec. rewrite Z.eqb_refl in Hdec. discriminate. }
  unfold dispatch_time.
  rewrite (to_clock_and_value_spec k inval Hi Hne Hk), Hdec.
  destruct (decode_At k inval c b Hi Hk Hdec) as (Hb & HbU & HbM & HbW).
  clear Hdec.
  unfold in64, ins64, clocks_ok, FOREVER, WALLNOW in *.
  destruct Hk as (Hu & Hm & Hw).
  unfold f_dispatch_time_nano2mach, f_dispatch_clock_and_value_to_time, shifted, lo, past, MAXV in *.
  destruct c; cbv iota beta zeta.
  - (* Up *)
    destruct (HbU eq_refl) as [[-> ->] | [Hn0 ->]]; eval_lit; cbv zeta;
    crunch; rewrite ?lor_b63 by lia; unfold decode, FOREVER, WALLNOW, MAXV; crunch; finish.
  - (* Mono *)
    destruct (HbM eq_refl) as [[-> ->] | [Hn0 ->]]; eval_lit; cbv zeta;
    crunch; rewrite ?lor_b63 by lia; unfold decode, FOREVER, WALLNOW, MAXV; crunch; finish.
  - (* Wall *)
    destruct (HbW eq_refl) as [[-> ->] | [Hn0 ->]]; eval_lit; cbv zeta;
    crunch; rewrite ?lor_b63 by lia; unfold decode, FOREVER, WALLNOW, MAXV; crunch; finish.
Qed.
