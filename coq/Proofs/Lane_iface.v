(* Lane_iface.v — interface lemmas about the generated dq_state transition bodies (Gen_dqstate) and the
   generated atomic-site lists (Gen_lanesites): one lemma per mechanism the lane properties C01-C05 anchor.
   Each holds for ALL 2^64 state words (and all tids / widths in their ranges). *)
From Coq Require Import ZArith Bool List Lia.
From Verif Require Import Word Bits Gen_consts Gen_fields Gen_dqstate Gen_lanesites Gen_once Suspend_proofs.
Import ListNotations.
Local Open Scope Z_scope.

Definition DIRTY := 549755813888.
Definition ENQUEUED := 2147483648.
Definition OWNER_MASK := 1073741823.
Definition ROLE_MASK := 206158430208.

(* ---- C01/C02: the drain lock is exclusive ---- *)
(* mask of everything that makes a non-stealing lock attempt fail: any bit from the width-full bit upwards
   (suspended, in barrier, width used up) or any owner bit *)
Definition LOCK_FAIL := 18437736875528552447.

Lemma land_lor_nonzero s m x : Z.land s m <> 0 -> Z.land s (Z.lor m x) <> 0.
Proof. intros H E. rewrite Z.land_lor_distr_r in E. apply Z.lor_eq_0_iff in E. tauto. Qed.

Lemma drain_lock_refused_when_not_free s flags w self floor ov :
  Z.land s LOCK_FAIL <> 0 ->
  (exists r, f_dispatch_queue_drain_try_lock 0 flags w self floor s ov = NoCommit r [] /\ r = 0) \/
  (exists m, f_dispatch_queue_drain_try_lock 0 flags w self floor s ov = Commit (Z.lxor s m) 0 /\
             (m = 2147483648 \/ m = 274877906944)).
Proof.
  intros N0. unfold f_dispatch_queue_drain_try_lock. cbv zeta.
  change (Z.lor 18437736874454810624 1073741823) with LOCK_FAIL.
  assert (N1 : Z.land s (Z.lor LOCK_FAIL 274877906944) <> 0) by (apply land_lor_nonzero; exact N0).
  destruct (nz (Z.land flags 1)) eqn:F1.
  - unfold nz at 1. destruct (Z.eqb_spec (Z.land s (Z.lor LOCK_FAIL 274877906944)) 0); [contradiction|]. cbn [negb].
    change (nz 0) with false. cbv iota.
    unfold nz. destruct (Z.eqb_spec (Z.land s (Z.lor LOCK_FAIL 274877906944)) 0); [contradiction|]. cbn [negb].
    left. eexists. split; reflexivity.
  - destruct (nz (Z.land flags 262144)) eqn:F2.
    + unfold nz at 1. destruct (Z.eqb_spec (Z.land s LOCK_FAIL) 0); [contradiction|]. cbn [negb].
      change (nz 274877906944) with true. cbv iota.
      unfold nz. destruct (Z.eqb_spec (Z.land s LOCK_FAIL) 0); [contradiction|]. cbn [negb].
      right. exists 274877906944. split; [reflexivity|auto].
    + unfold nz at 1. destruct (Z.eqb_spec (Z.land s (Z.lor LOCK_FAIL 274877906944)) 0); [contradiction|]. cbn [negb].
      change (nz 2147483648) with true. cbv iota.
      unfold nz. destruct (Z.eqb_spec (Z.land s (Z.lor LOCK_FAIL 274877906944)) 0); [contradiction|]. cbn [negb].
      right. exists 2147483648. split; [reflexivity|auto].
Qed.

(* a held lock (any owner bit set) is part of LOCK_FAIL *)
Lemma held_is_not_free s : Z.land s OWNER_MASK <> 0 -> Z.land s LOCK_FAIL <> 0.
Proof.
  intros H. change LOCK_FAIL with (Z.lor OWNER_MASK 18437736874454810624). apply land_lor_nonzero. exact H.
Qed.

(* ---- C01: a drainer may release the lock only if DIRTY is clear ---- *)
Lemma land_lor_same a b : Z.land (Z.lor a b) b = b.
Proof.
  apply Z.bits_inj'; intros i Hi. rewrite Z.land_spec, Z.lor_spec.
  destruct (Z.testbit a i), (Z.testbit b i); reflexivity.
Qed.

Lemma unlock_refuses_dirty s owned done :
  nz (f_dq_state_is_suspended s) = false -> nz (f_dq_state_is_dirty s) = true ->
  f_dispatch_queue_drain_try_unlock 0 owned done s = NoCommit 0 [AXor 0 DIRTY Acquire].
Proof.
  intros Hs Hd. unfold f_dispatch_queue_drain_try_unlock. cbv zeta. rewrite Hs, Hd. reflexivity.
Qed.

Lemma unlock_commit_releases_owner s owned done new r :
  f_dispatch_queue_drain_try_unlock 0 owned done s = Commit new r -> Z.land new OWNER_MASK = 0 /\ r = 1.
Proof.
  unfold f_dispatch_queue_drain_try_unlock. cbv zeta. intros H.
  assert (M : forall x, Z.land (Z.land x 18446744037202329600) OWNER_MASK = 0).
  { intros x. rewrite <- Z.land_assoc. change (Z.land 18446744037202329600 OWNER_MASK) with 0. apply Z.land_0_r. }
  destruct (nz (f_dq_state_is_suspended s)); cbn [negb] in H.
  - destruct (nz (f_dq_state_received_override s)); injection H as <- <-; split; auto.
  - destruct (nz (f_dq_state_is_dirty s)); cbn [negb] in H; [discriminate|].
    destruct (nz done); cbn [negb] in H;
      destruct (nz (f_dq_state_received_override s)); injection H as <- <-; split; auto.
    + rewrite <- Z.land_assoc, (Z.land_comm 18446744043644780543), Z.land_assoc, M. apply Z.land_0_l.
    + rewrite <- Z.land_assoc, (Z.land_comm 18446744043644780543), Z.land_assoc, M. apply Z.land_0_l.
    + rewrite Z.land_lor_distr_l, M. reflexivity.
    + rewrite Z.land_lor_distr_l, M. reflexivity.
Qed.

(* push/merge wake the queue with MAKE_DIRTY: the committed word carries DIRTY *)
Lemma wakeup_make_dirty_sets_dirty s qos flags target enqueue new r :
  nz (Z.land flags 2) = true -> wakeup_loop 0 qos flags target s enqueue = Commit new r -> Z.land new DIRTY = DIRTY.
Proof.
  unfold wakeup_loop. cbv zeta. intros F H. rewrite F in H. injection H as <- _. apply land_lor_same.
Qed.
Lemma wakeup_make_dirty_always_commits s qos flags target enqueue :
  nz (Z.land flags 2) = true -> exists new, wakeup_loop 0 qos flags target s enqueue = Commit new 0.
Proof. unfold wakeup_loop. cbv zeta. intros F. rewrite F. eexists; reflexivity. Qed.

(* ---- C02: the barrier-sync fast path is a CAS from the completely idle state only ---- *)
Definition ret_of (o : rmw_outcome) : option Z := match o with Commit _ r => Some r | _ => None end.
Lemma barrier_fastpath_from_idle_only s tid k w new r :
  f_dispatch_queue_try_acquire_barrier_sync_and_suspend 0 tid k w s = Commit new r ->
  s = Z.lor (u64 (Z.shiftl (u64 (4096 - w)) 41)) (Z.land s ROLE_MASK) /\ r = 1.
Proof.
  unfold f_dispatch_queue_try_acquire_barrier_sync_and_suspend. cbv zeta.
  match goal with |- context [if negb (Z.eqb s ?x) then _ else _] => destruct (Z.eqb_spec s x) as [E|] end.
  - change (negb true) with false. cbv iota. intros H. apply (f_equal ret_of) in H. cbn [ret_of] in H.
    split; [exact E|]. congruence.
  - change (negb false) with true. cbv iota. intros H. apply (f_equal ret_of) in H. cbn [ret_of] in H. discriminate H.
Qed.

(* ... and its inline unlock refuses whenever anything was enqueued, made dirty, suspended or handed over meanwhile *)
Lemma barrier_sync_unlock_refuses s :
  (Z.land s ENQUEUED <> 0 \/ Z.land s DIRTY <> 0 \/ Z.land s 18410715276690587648 <> 0) ->
  barrier_sync_unlock_loop 0 0 0 s = NoCommit 1 [].
Proof.
  intros H. unfold barrier_sync_unlock_loop. cbv zeta.
  assert (N : Z.land s 18410715864027365376 <> 0).
  { destruct H as [H|[H|H]].
    - change 18410715864027365376 with (Z.lor ENQUEUED 18410715861879881728). apply land_lor_nonzero; exact H.
    - change 18410715864027365376 with (Z.lor DIRTY 18410715314271551488). apply land_lor_nonzero; exact H.
    - change 18410715864027365376 with (Z.lor 18410715276690587648 587336777728). apply land_lor_nonzero; exact H. }
  unfold nz. destruct (Z.eqb_spec (Z.land s 18410715864027365376) 0); [contradiction|]. reflexivity.
Qed.

(* ---- C04: reader fast paths refuse when a barrier runs or is pending, or the queue is dirty ---- *)
Lemma reader_fastpath_guards s tail w :
  (nz (f_dq_state_is_dirty s) = true \/ nz (f_dq_state_has_pending_barrier s) = true \/
   nz (f_dq_state_is_sync_runnable s) = false \/ nz tail = true) ->
  exists r, f_dispatch_queue_try_reserve_sync_width 0 tail s w = NoCommit r [].
Proof.
  intros H. unfold f_dispatch_queue_try_reserve_sync_width.
  destruct (nz tail) eqn:T; cbn [negb]; [eexists; reflexivity|].
  destruct H as [H|[H|[H|H]]]; try discriminate; rewrite H; cbn [negb orb];
    repeat rewrite orb_true_r; eexists; reflexivity.
Qed.
Lemma async_fastpath_guards s :
  (nz (f_dq_state_is_dirty s) = true \/ nz (f_dq_state_has_pending_barrier s) = true \/
   nz (f_dq_state_is_runnable s) = false) ->
  exists r, f_dispatch_queue_try_acquire_async 0 s = NoCommit r [].
Proof.
  intros H. unfold f_dispatch_queue_try_acquire_async.
  destruct H as [H|[H|H]]; rewrite H; cbn [negb orb]; repeat rewrite orb_true_r; eexists; reflexivity.
Qed.

(* ---- C03/C05: the role of a queue is set to exactly the role of its new target ---- *)
Lemma role_set_exactly s role :
  Z.land role ROLE_MASK = role -> Z.land role 18446743867551121407 = 0 ->
  match inherit_wlh_loop 0 0 s role with
  | Commit new _ => Z.land new ROLE_MASK = role /\ Z.land new 18446743867551121407 = Z.land s 18446743867551121407
  | NoCommit _ _ => Z.land s ROLE_MASK = role
  | _ => False
  end.
Proof.
  intros R1 R2. unfold inherit_wlh_loop. cbv zeta.
  assert (A : Z.land (Z.lor (Z.land s 18446743867551121407) role) ROLE_MASK = role).
  { rewrite Z.land_lor_distr_l, <- Z.land_assoc. change (Z.land 18446743867551121407 ROLE_MASK) with 0.
    rewrite Z.land_0_r, R1. reflexivity. }
  destruct (Z.eqb_spec s (Z.lor (Z.land s 18446743867551121407) role)) as [E|].
  - rewrite E at 1. exact A.
  - split; [exact A|]. rewrite Z.land_lor_distr_l, R2, Z.lor_0_r, <- Z.land_assoc.
    change (Z.land 18446743867551121407 18446743867551121407) with 18446743867551121407. reflexivity.
Qed.

(* ---- C05: memory orders on every hand-off edge, as read from the source ---- *)
Definition ko (x : site) : akind * morder := (s_kind x, s_order x).
Lemma handoff_orders :
  f_dispatch_queue_drain_try_lock_order = Acquire /\ f_dispatch_queue_drain_try_unlock_order = Release /\
  f_dispatch_queue_try_acquire_barrier_sync_and_suspend_order = Acquire /\
  barrier_sync_unlock_loop_order = Release /\ drain_barrier_waiter_loop_order = Release /\
  class_barrier_complete_loop_order = Release /\ invoke_finish_loop_order = Release /\
  wakeup_loop_order = Release /\ push_waiter_loop_order = Release /\ resume_loop_order = Release /\
  f_dispatch_queue_try_acquire_async_order = Acquire /\ f_dispatch_queue_try_upgrade_full_width_order = Acquire /\
  map ko f_dispatch_thread_event_signal_sites = [(KAdd, Release)] /\
  map ko f_dispatch_thread_event_wait_sites = [(KSub, Acquire)] /\
  map ko f_dispatch_queue_push_item_sites = [(KStore, Relaxed); (KXchg, Release); (KStore, Relaxed); (KStore, Relaxed)] /\
  map ko f_dispatch_queue_get_head_sites = [(KLoad, Acquire)] /\
  map ko f_dispatch_queue_pop_head_sites =
    [(KLoad, Acquire); (KStore, Relaxed); (KCas, Release); (KLoad, Acquire); (KStore, Relaxed)] /\
  map ko dispatch_semaphore_signal_sites = [(KAdd, Release)] /\
  hd (KLoad, Relaxed) (map ko dispatch_semaphore_wait_sites) = (KSub, Acquire) /\
  hd (KLoad, Relaxed) (map ko dispatch_group_leave_sites) = (KAdd, Release) /\
  hd (KLoad, Relaxed) (map ko dispatch_group_enter_sites) = (KSub, Acquire) /\
  map ko dispatch_group_wait_sites = [(KLoad, Relaxed); (KFence, Acquire); (KCasWeak, Relaxed); (KLoad, Acquire)] /\
  map ko f_dispatch_group_wait_slow_sites = [(KLoad, Acquire)] /\
  map ko f_dispatch_once_mark_done_sites = [(KXchg, Release)].
Proof. repeat split. Qed.

(* DISPATCH_QUEUE_STATE_INIT_VALUE(width) *)
Definition init_st_plain (w : Z) : Z := Z.shiftl (4096 - w) 41.
