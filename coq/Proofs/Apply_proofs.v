(* Apply_proofs.v — theorems about Model/Apply.v:
   (1) width reservation of _dispatch_apply_redirect over any chain of queues: balanced, no wrap, helpers = minimum granted;
   (2) _dispatch_apply_serial runs 0..n-1 in order;
   (3) invariants of the _dispatch_apply_invoke2 protocol for any number of helpers and any interleaving. *)
From Coq Require Import ZArith Bool List Lia.
From Verif Require Import Word Bits Conc Gen_consts Gen_fields Gen_apply Apply.
Import ListNotations.
Local Open Scope Z_scope.

(* ================================================================== ties to the generated site lists *)
Lemma sites_invoke2 : model_sites_invoke2 = f_dispatch_apply_invoke2_sites.
Proof. reflexivity. Qed.
Lemma sites_wait_slow : model_sites_wait_slow = f_dispatch_thread_event_wait_slow_sites.
Proof. reflexivity. Qed.
Lemma sites_relinquish : model_sites_relinquish = f_dispatch_queue_relinquish_width_sites.
Proof. reflexivity. Qed.
Lemma reserve_order : f_dispatch_queue_try_reserve_apply_width_order = Relaxed.
Proof. reflexivity. Qed.
(* _dispatch_apply_redirect = reserve loop, relinquish, [push of the helpers], invoke2, final relinquish *)
Definition redirect_push_sites : list site :=     (* autorelease-frequency reads and _dispatch_root_queue_push_inline *)
  [ {| s_kind := KLoad; s_field := F_dq_atomic_flags; s_order := Relaxed |}; {| s_kind := KLoad; s_field := F_dq_atomic_flags; s_order := Relaxed |};
    {| s_kind := KStore; s_field := F_do_next; s_order := Relaxed |}; {| s_kind := KXchg; s_field := F_dq_items_tail; s_order := Release |};
    {| s_kind := KStore; s_field := F_do_next; s_order := Relaxed |}; {| s_kind := KStore; s_field := F_dq_items_head; s_order := Relaxed |} ].
Lemma sites_redirect_shape :
  f_dispatch_apply_redirect_sites =
    f_dispatch_queue_try_reserve_apply_width_sites ++ model_sites_relinquish ++ redirect_push_sites ++ model_sites_invoke2 ++ model_sites_relinquish.
Proof. reflexivity. Qed.

(* ================================================================== 1. width *)
Definition I := 2199023255552.
Definition W64 := 18446744073709551616.
Definition wf (l : level) : Prop := 0 <= lv_state l < W64.

Section WidthBits.
Local Ltac Zify.zify_post_hook ::= Z.div_mod_to_equations.

(* interface lemma about the generated _dq_state_available_width: it is in [0, 4096] and adding that many width
   units never carries out of the 64-bit word *)
Lemma avail_spec s : 0 <= s < W64 ->
  0 <= f_dq_state_available_width s <= 4096 /\ s + f_dq_state_available_width s * I < W64.
Proof.
  unfold W64, I. intros Hs. unfold f_dq_state_available_width, f_dq_state_extract_width_bits.
  change 9007199254740992 with (2 ^ 53). rewrite (land_bit s 53) by lia.
  rewrite (land_mask s 18012199486226432 13 41) by (lia || reflexivity).
  rewrite Z.shiftr_div_pow2 by lia. rewrite Z.div_mul by lia.
  change (2 ^ 53) with 9007199254740992. change (2 ^ 41) with 2199023255552. change (2 ^ 13) with 8192.
  unfold nz. destruct (Z.eqb_spec ((s / 9007199254740992) mod 2 * 9007199254740992) 0) as [E|E]; cbn [negb].
  - unfold s32. lia.
  - lia.
Qed.
End WidthBits.

Lemma avail_level l : wf l -> 0 <= avail l <= 4096 /\ lv_state l + avail l * I < W64.
Proof.
  intros H. unfold avail. destruct (lv_width l =? 1).
  - unfold wf in H. lia.
  - apply avail_spec. exact H.
Qed.

Lemma add_width_0 l : add_width 0 l = l.
Proof. destruct l. unfold add_width. cbn. f_equal. lia. Qed.

(* what one reservation does, for every 64-bit state word *)
Lemma try_reserve_spec k l dw : wf l -> 1 <= dw < 2147483648 ->
  snd (fst (try_reserve k l dw)) = Z.min dw (avail l) /\
  fst (fst (try_reserve k l dw)) = add_width (Z.min dw (avail l)) l.
Proof.
  intros Hw Hd. pose proof (avail_level l Hw) as [Ha Hb]. unfold avail in *.
  unfold try_reserve, f_dispatch_queue_try_reserve_apply_width.
  destruct (Z.eqb_spec (lv_width l) 1) as [E1|E1]; cbn [negb].
  - cbn. rewrite Z.min_r by lia. rewrite add_width_0. split; reflexivity.
  - set (a := f_dq_state_available_width (lv_state l)) in *.
    unfold nz. destruct (Z.eqb_spec a 0) as [E0|E0]; cbn [negb].
    + cbn. rewrite E0. rewrite Z.min_r by lia. rewrite add_width_0. split; reflexivity.
    + cbv zeta. unfold wf, W64, I in *.
      destruct (Z.gtb_spec a dw) as [G|G]; cbn [fst snd].
      * rewrite Z.min_l by lia. split; [reflexivity|]. unfold add_width, WIDTH_INTERVAL, DISPATCH_QUEUE_WIDTH_INTERVAL. f_equal.
        rewrite (u64_id dw) by lia. rewrite (u64_id (dw * _)) by lia. apply u64_id. lia.
      * rewrite Z.min_r by lia. split; [reflexivity|]. unfold add_width, WIDTH_INTERVAL, DISPATCH_QUEUE_WIDTH_INTERVAL. f_equal.
        rewrite (u64_id a) by lia. rewrite (u64_id (a * _)) by lia. apply u64_id. lia.
Qed.

(* giving back dw - w units of a queue that holds dw leaves it holding w: exact, no wrap *)
Lemma relinq_add l0 dw w : wf l0 -> lv_state l0 + dw * I < W64 -> 0 <= w <= dw -> dw < 2147483648 ->
  relinq1 (s32 (dw - w)) (add_width dw l0) = add_width w l0.
Proof.
  unfold wf, W64, I. intros H0 H1 Hw Hd.
  assert (Es : s32 (dw - w) = dw - w) by (unfold s32; rewrite Z.mod_small; lia).
  rewrite Es. unfold relinq1, relinq_delta, add_width, WIDTH_INTERVAL, DISPATCH_QUEUE_WIDTH_INTERVAL. cbn [lv_width lv_state]. f_equal.
  rewrite (u64_id (dw - w)) by lia. rewrite (u64_id ((dw - w) * _)) by lia. rewrite u64_id by lia. lia.
Qed.
Lemma relinq_add0 l0 m : wf l0 -> lv_state l0 + m * I < W64 -> 0 <= m < 2147483648 ->
  relinq1 m (add_width m l0) = l0.
Proof.
  intros. pose proof (relinq_add l0 m 0 H H0 ltac:(lia) ltac:(lia)) as E.
  replace (s32 (m - 0)) with m in E by (unfold s32; rewrite Z.mod_small; lia). rewrite E. apply add_width_0.
Qed.

Lemma min_avail_cons l rest w : min_avail (l :: rest) w = min_avail rest (Z.min w (avail l)).
Proof. reflexivity. Qed.
Lemma min_avail_zero rest : Forall wf rest -> min_avail rest 0 = 0.
Proof.
  induction 1 as [|l rest Hl _ IH]; [reflexivity|]. rewrite min_avail_cons.
  pose proof (avail_level l Hl). rewrite Z.min_l by lia. exact IH.
Qed.
Lemma min_avail_bounds rest : forall w, Forall wf rest -> 0 <= w ->
  0 <= min_avail rest w <= w /\ Forall (fun l => min_avail rest w <= avail l) rest.
Proof.
  induction rest as [|l rest IH]; intros w Hf Hw.
  - cbn. split; [lia|constructor].
  - inversion Hf as [|? ? Hl Hr]; subst. rewrite min_avail_cons. pose proof (avail_level l Hl) as [Ha _].
    destruct (IH (Z.min w (avail l)) Hr ltac:(lia)) as [B F]. split; [lia|].
    constructor; [lia|exact F].
Qed.

Lemma map_relinq_add above0 dw w : Forall wf above0 -> Forall (fun l0 => lv_state l0 + dw * I < W64) above0 ->
  0 <= w <= dw -> dw < 2147483648 ->
  map (relinq1 (s32 (dw - w))) (map (add_width dw) above0) = map (add_width w) above0.
Proof.
  intros Hf Hb Hw Hd. rewrite map_map. apply map_ext_in. intros l0 Hin.
  rewrite Forall_forall in Hf, Hb. apply relinq_add; auto.
Qed.

Lemma loop_spec : forall rest above0 dw log,
  Forall wf rest -> Forall wf above0 ->
  Forall (fun l0 => lv_state l0 + dw * I < W64) above0 ->
  1 <= dw < 2147483648 ->
  let r := redirect_loop (map (add_width dw) above0) rest dw (dw + 1) log in
  let m := min_avail rest dw in
  (m = 0 -> r_serial r = true /\ r_chain r = above0 ++ rest) /\
  (m <> 0 -> r_serial r = false /\ r_width r = m /\ r_thr r = m + 1 /\ r_chain r = map (add_width m) (above0 ++ rest) /\
             Forall (fun l0 => lv_state l0 + m * I < W64) (above0 ++ rest)).
Proof.
  induction rest as [|l rest IH]; intros above0 dw log Hr Ha Hb Hd; cbv zeta.
  - cbn [redirect_loop min_avail fold_left r_serial r_chain r_width r_thr]. rewrite app_nil_r. split; [lia|].
    intros _. repeat split; auto.
  - inversion Hr as [|? ? Hl Hr']; subst.
    cbn [redirect_loop]. cbv zeta.
    destruct (try_reserve_spec (Z.of_nat (length (map (add_width dw) above0))) l dw Hl Hd) as [Ew El].
    rewrite Ew, El. rewrite min_avail_cons.
    pose proof (avail_level l Hl) as [Hav Hno].
    set (w := Z.min dw (avail l)) in *.
    assert (Hw : 0 <= w <= dw) by (unfold w; lia).
    assert (Hlw : lv_state l + w * I < W64) by (unfold w, I, W64 in *; nia).
    destruct (Z.gtb_spec dw w) as [G|G].
    + rewrite (map_relinq_add above0 dw w Ha Hb Hw) by lia.
      destruct (Z.eqb_spec w 0) as [E0|E0].
      * rewrite E0. rewrite (min_avail_zero rest Hr').
        cbn [r_serial r_chain]. split; [|lia]. intros _. split; [reflexivity|].
        rewrite add_width_0. f_equal.
        rewrite <- (map_id above0) at 2. apply map_ext. intros a. apply add_width_0.
      * assert (Es : s32 (dw + 1 - s32 (dw - w)) = w + 1).
        { assert (E1 : s32 (dw - w) = dw - w) by (unfold s32; rewrite Z.mod_small; lia). rewrite E1.
          unfold s32. rewrite Z.mod_small; lia. }
        rewrite Es.
        replace (map (add_width w) above0 ++ [add_width w l]) with (map (add_width w) (above0 ++ [l])) by (rewrite map_app; reflexivity).
        assert (Ha' : Forall wf (above0 ++ [l])) by (apply Forall_app; split; [exact Ha|constructor; [exact Hl|constructor]]).
        assert (Hb' : Forall (fun l0 => lv_state l0 + w * I < W64) (above0 ++ [l])).
        { apply Forall_app; split; [|constructor; [exact Hlw|constructor]].
          rewrite Forall_forall in *. intros x Hx. specialize (Hb x Hx). specialize (Ha x Hx). unfold wf, I, W64 in *. nia. }
        specialize (IH (above0 ++ [l]) w (log ++ snd (try_reserve (Z.of_nat (length (map (add_width dw) above0))) l dw) ++
                                          relinq_log 0 (s32 (dw - w)) (map (add_width dw) above0)) Hr' Ha' Hb' ltac:(lia)).
        cbv zeta in IH. rewrite <- !app_assoc in IH. cbn [app] in IH. exact IH.
    + assert (Ewd : w = dw) by lia. rewrite Ewd.
      replace (map (add_width dw) above0 ++ [add_width dw l]) with (map (add_width dw) (above0 ++ [l])) by (rewrite map_app; reflexivity).
      assert (Ha' : Forall wf (above0 ++ [l])) by (apply Forall_app; split; [exact Ha|constructor; [exact Hl|constructor]]).
      assert (Hb' : Forall (fun l0 => lv_state l0 + dw * I < W64) (above0 ++ [l])).
      { apply Forall_app; split; [exact Hb|constructor; [rewrite <- Ewd; exact Hlw|constructor]]. }
      specialize (IH (above0 ++ [l]) dw (log ++ snd (try_reserve (Z.of_nat (length (map (add_width dw) above0))) l dw)) Hr' Ha' Hb' Hd).
      cbv zeta in IH. rewrite <- !app_assoc in IH. cbn [app] in IH. exact IH.
Qed.

(* the theorem: for every chain, every availability vector and every thread count *)
Theorem width_balanced chain thr : Forall wf chain -> 2 <= thr < 2147483648 ->
  let r := redirect_during chain thr in
  let m := min_avail chain (thr - 1) in
  0 <= m <= thr - 1 /\ Forall (fun l => m <= avail l) chain /\
  (m = 0 -> r_serial r = true /\ r_chain r = chain /\ fst (redirect_after r) = chain) /\
  (m <> 0 -> r_serial r = false /\ r_width r = m /\ r_thr r = m + 1 /\
             r_chain r = map (add_width m) chain /\ Forall (fun l => lv_state l + m * I < W64) chain /\
             fst (redirect_after r) = chain).
Proof.
  intros Hf Ht. cbv zeta. unfold redirect_during.
  assert (Es : s32 (thr - 1) = thr - 1) by (unfold s32; rewrite Z.mod_small; lia). rewrite Es.
  destruct (min_avail_bounds chain (thr - 1) Hf ltac:(lia)) as [B F].
  pose proof (loop_spec chain [] (thr - 1) [] Hf (Forall_nil _) (Forall_nil _) ltac:(lia)) as L.
  cbv zeta in L. cbn [map app] in L. replace (thr - 1 + 1) with thr in L by lia.
  destruct L as [L0 L1]. split; [exact B|]. split; [exact F|]. split.
  - intros E. destruct (L0 E) as [S C]. repeat split; auto. unfold redirect_after. rewrite S. exact C.
  - intros E. destruct (L1 E) as (S & Wd & Th & C & Nf). repeat split; auto.
    unfold redirect_after. rewrite S, Wd, C. cbn [fst]. rewrite map_map.
    rewrite <- (map_id chain) at 2. apply map_ext_in. intros l Hin.
    rewrite Forall_forall in Hf, Nf. apply relinq_add0; auto. lia.
Qed.

(* ================================================================== 2. serial *)
Lemma serial_loop_spec : forall f idx iter, (0 < f)%nat -> 0 <= idx -> idx + Z.of_nat f = iter -> iter < W64 ->
  serial_loop f idx iter = zrange idx f.
Proof.
  unfold W64. induction f as [|f IH]; intros idx iter Hf Hi He Hb; [lia|].
  cbn [serial_loop zrange]. f_equal.
  rewrite (u64_id (idx + 1)) by lia.
  destruct f as [|f'].
  - destruct (Z.ltb_spec (idx + 1) iter); [lia|reflexivity].
  - destruct (Z.ltb_spec (idx + 1) iter); [|lia]. apply IH; lia.
Qed.
Theorem serial_in_order n : 1 <= n < W64 -> apply_serial n = zrange 0 (Z.to_nat n).
Proof. intros H. unfold apply_serial. apply serial_loop_spec; lia. Qed.
Lemma zrange_nth : forall len start k, (k < len)%nat -> nth k (zrange start len) (-1) = start + Z.of_nat k.
Proof.
  induction len as [|len IH]; intros start k Hk; [lia|]. destruct k as [|k]; cbn [zrange nth]; [lia|].
  rewrite IH by lia. lia.
Qed.
Lemma zrange_length : forall len start, length (zrange start len) = len.
Proof. induction len; intros; cbn; auto. Qed.

(* ================================================================== 3. _dispatch_apply_invoke2: invariants *)
Ltac sp := cbn [index todo thrcnt evt pcs parts slp owner begun ended signaller sigd waited freed uaf dcbad returned
                set_pc touch set_parts set_index set_begun set_ended set_todo set_evt set_slp set_thrcnt set_returned] in *.

(* ---- sums over the participants ---- *)
Lemma lsum_nonneg f l : (forall u, In u l -> 0 <= f u) -> 0 <= lsum f l.
Proof. induction l as [|x l IH]; intros H; cbn; [lia|]. pose proof (H x (or_introl eq_refl)). assert (0 <= lsum f l) by (apply IH; intros; apply H; right; auto). lia. Qed.
Lemma lsum_le_len f l : (forall u, In u l -> f u <= 1) -> lsum f l <= Z.of_nat (length l).
Proof. induction l as [|x l IH]; intros H; cbn [lsum length]; [lia|]. pose proof (H x (or_introl eq_refl)). assert (lsum f l <= Z.of_nat (length l)) by (apply IH; intros; apply H; right; auto). lia. Qed.
Lemma lsum_le_len_strict f l t : In t l -> f t <= 0 -> (forall u, In u l -> f u <= 1) -> lsum f l <= Z.of_nat (length l) - 1.
Proof.
  induction l as [|x l IH]; intros Hin H0 H; [contradiction|]. cbn [lsum length].
  destruct Hin as [->|Hin].
  - assert (lsum f l <= Z.of_nat (length l)) by (apply lsum_le_len; intros; apply H; right; auto). lia.
  - pose proof (H x (or_introl eq_refl)). assert (lsum f l <= Z.of_nat (length l) - 1) by (apply IH; auto; intros; apply H; right; auto). lia.
Qed.
Lemma lsum_ge_term f l t : In t l -> (forall u, In u l -> 0 <= f u) -> f t <= lsum f l.
Proof.
  induction l as [|x l IH]; intros Hin H; [contradiction|]. cbn [lsum].
  assert (0 <= lsum f l) by (apply lsum_nonneg; intros; apply H; right; auto).
  pose proof (H x (or_introl eq_refl)).
  destruct Hin as [->|Hin]; [lia|]. assert (f t <= lsum f l) by (apply IH; auto; intros; apply H; right; auto). lia.
Qed.
Lemma lsum_pos_exists f l : 0 < lsum f l -> exists u, In u l /\ 0 < f u.
Proof.
  induction l as [|x l IH]; cbn [lsum]; intros H; [lia|].
  destruct (Z.ltb_spec 0 (f x)); [exists x; split; [left; reflexivity|assumption]|].
  destruct IH as (u & Hu & Hp); [lia|]. exists u. split; [right; assumption|assumption].
Qed.
Lemma lsum_ext f g l : (forall u, In u l -> f u = g u) -> lsum f l = lsum g l.
Proof. induction l as [|x l IH]; intros H; cbn [lsum]; [reflexivity|]. rewrite (H x (or_introl eq_refl)), IH; auto. intros; apply H; right; auto. Qed.
Lemma lsum_upd_notin (g : pc -> Z) (f : Z -> pc) t p l : ~ In t l ->
  lsum (fun u => g (upd f t p u)) l = lsum (fun u => g (f u)) l.
Proof. intros H. apply lsum_ext. intros u Hu. rewrite upd_other; [reflexivity|]. intros ->. contradiction. Qed.
Lemma lsum_upd_in (g : pc -> Z) (f : Z -> pc) t p l : NoDup l -> In t l ->
  lsum (fun u => g (upd f t p u)) l = lsum (fun u => g (f u)) l - g (f t) + g p.
Proof.
  induction l as [|x l IH]; intros Hn Hin; [contradiction|]. inversion Hn as [|? ? Hx Hn']; subst. cbn [lsum].
  destruct Hin as [->|Hin].
  - rewrite upd_same. rewrite lsum_upd_notin by exact Hx. lia.
  - rewrite upd_other by (intros ->; contradiction). rewrite IH by assumption. lia.
Qed.

Section Invoke.
Variables (n T c : Z).
Hypothesis VP : valid_params n T.
Notation gstep := (gstep n T c).
Notation reach := (reach n T c).

Definition claimed (s : gst) : Z := Z.min (index s) n.

Definition index_inv (s : gst) (i : Z) : Prop :=
  if (0 <=? i) && (i <? claimed s)
  then exists t, owner s i = Some t /\ begun s i = bval (pcs s t) i /\ ended s i = eval_ (pcs s t) i
  else owner s i = None /\ begun s i = 0 /\ ended s i = 0.

Definition at_pc (s : gst) (t : Z) : Prop :=
  match pcs s t with
  | PCall i d | PInCall i d => 0 <= i < n /\ i < index s /\ owner s i = Some t /\ 0 <= d
  | PNext d | PSub d => 1 <= d
  | PSignal => signaller s = Some t /\ sigd s = false
  | PWake => signaller s = Some t
  | PWaitDec | PWaitLoad | PWaitFutex | PWaitSleep | PRet => t = c
  | PCrash => False
  | _ => True
  end.
Definition thread_inv (s : gst) (t : Z) : Prop :=
  at_pc s t /\ (over (pcs s t) = 1 -> n <= index s) /\ (pcs s t <> PIdle <-> In t (parts s)).


Definition sig_clause (sg : option Z) (td : Z) (sd : bool) (f : Z -> pc) : Prop :=
  match sg with
  | None => 0 < td /\ sd = false
  | Some g => td = 0 /\ (sd = false <-> f g = PSignal)
  end.
Definition slp_clause (sl : sleepst) (pcc : pc) (sd : bool) (sg : option Z) (f : Z -> pc) : Prop :=
  sl = Sleeping -> pcc = PWaitSleep /\ (sd = false \/ exists g, sg = Some g /\ f g = PWake).

Record Ginv (s : gst) : Prop := mkGinv {
  g_idx0 : 0 <= index s;
  g_idx1 : index s <= n + psum over s;
  g_todo : todo s = n - claimed s + psum pending s;
  g_todo_le : todo s <= n;
  g_thr : thrcnt s = T - Z.of_nat (length (parts s)) + psum holds s;
  g_nodup : NoDup (parts s);
  g_len : Z.of_nat (length (parts s)) <= T;
  g_inc : In c (parts s);
  g_evt : evt s = evt_enc (sigd s) (waited s);
  g_sig : sig_clause (signaller s) (todo s) (sigd s) (pcs s);
  g_freed : (thrcnt s = 0 -> freed s = 1) /\ (thrcnt s <> 0 -> freed s = 0);
  g_uaf : uaf s = false;
  g_dcbad : dcbad s = false;
  g_waited : waited s = past_wait (pcs s c);
  g_csig : past_event (pcs s c) = true -> sigd s = true;
  g_ret : returned s = is_ret (pcs s c);
  g_slp : slp_clause (slp s) (pcs s c) (sigd s) (signaller s) (pcs s)
}.

Definition Inv (s : gst) : Prop := Ginv s /\ (forall t, thread_inv s t) /\ (forall i, index_inv s i).

Lemma params : 1 <= n /\ 1 <= T < 2147483648 /\ n + T < 18446744073709551616.
Proof. exact VP. Qed.

Lemma Inv_init : Inv (init_state n T c).
Proof.
  pose proof params as (Hn & HT & HnT).
  unfold Inv, init_state. split; [|split].
  - constructor; sp; unfold psum, claimed, sig_clause, slp_clause; sp; cbn [lsum length]; rewrite ?upd_same; cbn [over pending holds past_wait past_event is_ret];
      try lia; try reflexivity; try discriminate; try (split; [lia|reflexivity]).
    + constructor; [intros []|constructor].
    + left; reflexivity.
  - intros t. unfold thread_inv, at_pc; sp. destruct (Z.eq_dec t c) as [->|Ne].
    + rewrite upd_same. cbn. split; [exact Logic.I|]. split; [discriminate|]. split; [intros _; left; reflexivity|discriminate].
    + rewrite upd_other by exact Ne. cbn. split; [exact Logic.I|]. split; [discriminate|]. split; [intros H; contradiction|].
      intros [H|[]]. congruence.
  - intros i. unfold index_inv, claimed; sp. rewrite Z.min_l by lia.
    destruct (Z.leb_spec 0 i), (Z.ltb_spec i 0); cbn; auto; lia.
Qed.

(* ---- consequences of the invariant used in the step proof ---- *)
Lemma pending_nonneg s u : thread_inv s u -> 0 <= pending (pcs s u).
Proof. intros (A & _ & _). unfold at_pc in A. destruct (pcs s u); cbn; lia. Qed.
Lemma over_range p : 0 <= over p <= 1. Proof. destruct p; cbn; lia. Qed.
Lemma holds_range p : 0 <= holds p <= 1. Proof. destruct p; cbn; lia. Qed.

Lemma psum_pending_ge s t : (forall u, thread_inv s u) -> In t (parts s) -> pending (pcs s t) <= psum pending s.
Proof. intros HT Hin. unfold psum. apply (lsum_ge_term (fun u => pending (pcs s u))); [exact Hin|]. intros u _. apply pending_nonneg, HT. Qed.
Lemma psum_pending_nonneg s : (forall u, thread_inv s u) -> 0 <= psum pending s.
Proof. intros HT. unfold psum. apply lsum_nonneg. intros u _. apply pending_nonneg, HT. Qed.
Lemma psum_over_le s : 0 <= psum over s <= Z.of_nat (length (parts s)).
Proof. unfold psum. split; [apply lsum_nonneg|apply lsum_le_len]; intros u _; apply over_range. Qed.
Lemma psum_holds_le s : 0 <= psum holds s <= Z.of_nat (length (parts s)).
Proof. unfold psum. split; [apply lsum_nonneg|apply lsum_le_len]; intros u _; apply holds_range. Qed.
Lemma psum_holds_ge s t : In t (parts s) -> holds (pcs s t) <= psum holds s.
Proof. intros Hin. unfold psum. apply (lsum_ge_term (fun u => holds (pcs s u))); [exact Hin|]. intros u _. apply holds_range. Qed.

(* a participant that is inside invoke2 keeps the record alive *)
Lemma alive s t : Ginv s -> (forall u, thread_inv s u) -> holds (pcs s t) = 1 -> 1 <= thrcnt s /\ freed s = 0 /\ (0 <? freed s) = false.
Proof.
  intros G HT Hh. assert (Hin : In t (parts s)).
  { apply (HT t). intros E. rewrite E in Hh. discriminate. }
  pose proof (psum_holds_ge s t Hin). pose proof (g_thr s G). pose proof (g_len s G).
  assert (1 <= thrcnt s) by lia. pose proof (g_freed s G) as [_ F].
  rewrite F by lia. auto.
Qed.
Lemma index_small s t : Ginv s -> In t (parts s) -> over (pcs s t) = 0 -> index s + 1 < 18446744073709551616.
Proof.
  intros G Hin Ho. pose proof params as (? & ? & ?). pose proof (g_idx1 s G). pose proof (g_len s G).
  assert (psum over s <= Z.of_nat (length (parts s)) - 1).
  { unfold psum. apply (lsum_le_len_strict (fun u => over (pcs s u)) (parts s) t Hin); [lia|]. intros u _. apply over_range. }
  lia.
Qed.
(* while some participant still owes a subtraction, nobody has signalled and the caller has not returned *)
Lemma owes_not_done s t : Ginv s -> (forall u, thread_inv s u) -> In t (parts s) -> 1 <= pending (pcs s t) ->
  signaller s = None /\ sigd s = false /\ returned s = false /\ 1 <= todo s.
Proof.
  intros G HT Hin Hp. pose proof (psum_pending_ge s t HT Hin). pose proof (g_todo s G).
  assert (claimed s <= n) by (unfold claimed; lia).
  assert (Ht : 1 <= todo s) by lia.
  pose proof (g_sig s G) as S. unfold sig_clause in S. destruct (signaller s) as [g|]; [lia|]. destruct S as [_ Sd].
  repeat split; auto. rewrite (g_ret s G). pose proof (g_csig s G) as C.
  destruct (pcs s c); try reflexivity. cbn in C. rewrite Sd in C. discriminate C. reflexivity.
Qed.

(* ---- frame lemmas ---- *)
Lemma sig_frame sg td sd f t p' : sig_clause sg td sd f -> f t <> PSignal -> p' <> PSignal -> sig_clause sg td sd (upd f t p').
Proof.
  unfold sig_clause. destruct sg as [g|]; [|auto]. intros [A B] H1 H2. split; [exact A|].
  destruct (Z.eq_dec g t) as [->|Ne]; [rewrite upd_same|rewrite upd_other by exact Ne; exact B].
  split; intros H; [apply B in H; contradiction|contradiction].
Qed.
Lemma slp_frame sl pcc sd sg f t p' : slp_clause sl pcc sd sg f -> f t <> PWake -> slp_clause sl pcc sd sg (upd f t p').
Proof.
  unfold slp_clause. intros H Hn Hs. destruct (H Hs) as [A B]. split; [exact A|].
  destruct B as [B|(g & Eg & Pg)]; [left; exact B|right]. exists g. split; [exact Eg|].
  rewrite upd_other; [exact Pg|]. intros ->. contradiction.
Qed.
Lemma psum_step g s s' t p' : parts s' = parts s -> pcs s' = upd (pcs s) t p' -> NoDup (parts s) -> In t (parts s) ->
  psum g s' = psum g s - g (pcs s t) + g p'.
Proof. unfold psum. intros -> -> Hn Hi. apply lsum_upd_in; assumption. Qed.
Lemma psum_start g s s' t p' : parts s' = t :: parts s -> pcs s' = upd (pcs s) t p' -> ~ In t (parts s) ->
  psum g s' = g p' + psum g s.
Proof. unfold psum. intros -> -> Hn. cbn [lsum]. rewrite upd_same. rewrite lsum_upd_notin by exact Hn. reflexivity. Qed.

Lemma other_thread s s' t u :
  u <> t -> thread_inv s u ->
  pcs s' u = pcs s u ->
  index s <= index s' ->
  (forall i, owner s i = Some u -> owner s' i = Some u) ->
  (signaller s = Some u -> signaller s' = Some u) ->
  (pcs s u = PSignal -> sigd s' = false) ->
  (In u (parts s') <-> In u (parts s)) ->
  thread_inv s' u.
Proof.
  intros Ne (A & O & P) Ep Hi Ho Hsg Hsd Hp. unfold thread_inv, at_pc in *. rewrite Ep.
  split; [|split].
  - destruct (pcs s u); auto.
    + destruct A as (A1 & A2 & A3 & A4). repeat split; auto; lia.
    + destruct A as (A1 & A2 & A3 & A4). repeat split; auto; lia.
    + destruct A as (A1 & A2). split; auto.
  - intros H. specialize (O H). lia.
  - rewrite Hp. exact P.
Qed.

(* the index-centric invariant is untouched by a move of t that keeps bval / eval_ *)
Lemma index_frame s s' t p' i :
  pcs s' = upd (pcs s) t p' -> claimed s' = claimed s -> owner s' = owner s -> begun s' = begun s -> ended s' = ended s ->
  (forall j, bval p' j = bval (pcs s t) j /\ eval_ p' j = eval_ (pcs s t) j) ->
  index_inv s i -> index_inv s' i.
Proof.
  unfold index_inv. intros -> -> -> -> -> Hv H.
  destruct ((0 <=? i) && (i <? claimed s)); [|exact H].
  destruct H as (t0 & Eo & Eb & Ee). exists t0. split; [exact Eo|].
  destruct (Z.eq_dec t0 t) as [->|Ne].
  - rewrite upd_same. destruct (Hv i) as [-> ->]. auto.
  - rewrite upd_other by exact Ne. auto.
Qed.

Lemma caller_frame (h : pc -> bool) (f : Z -> pc) t p' : h p' = h (f t) -> h (upd f t p' c) = h (f c).
Proof. intros H. destruct (Z.eq_dec c t) as [->|Ne]; [rewrite upd_same; exact H|rewrite upd_other by exact Ne; reflexivity]. Qed.
Lemma slp_caller_frame sl sd sg (f : Z -> pc) t p' :
  slp_clause sl (f c) sd sg f -> f t <> PWake -> f t <> PWaitSleep -> slp_clause sl (upd f t p' c) sd sg (upd f t p').
Proof.
  intros H H1 H2. destruct (Z.eq_dec c t) as [->|Ne].
  - intros Hs. destruct (H Hs) as [A _]. contradiction.
  - rewrite upd_other by exact Ne. apply slp_frame; assumption.
Qed.
Lemma over_out w : over (out w) = 1. Proof. destruct w; reflexivity. Qed.
Lemma pending_out w : pending (out w) = 0. Proof. destruct w; reflexivity. Qed.
Lemma holds_out w : holds (out w) = 1. Proof. destruct w; reflexivity. Qed.
Lemma sigd_of s u : thread_inv s u -> pcs s u = PSignal -> sigd s = false.
Proof. intros (A & _) H. unfold at_pc in A. rewrite H in A. apply A. Qed.

Lemma owner_fresh s : (forall i, index_inv s i) -> 0 <= index s ->
  owner s (index s) = None /\ begun s (index s) = 0 /\ ended s (index s) = 0.
Proof.
  intros HI H0. specialize (HI (index s)). unfold index_inv, claimed in HI.
  destruct (Z.ltb_spec (index s) (Z.min (index s) n)); [lia|]. rewrite andb_false_r in HI. exact HI.
Qed.

Lemma index_claim s s' t d i :
  (forall j, bval (pcs s t) j = 1 /\ eval_ (pcs s t) j = 1) ->
  0 <= index s < n ->
  pcs s' = upd (pcs s) t (PCall (index s) d) -> index s' = index s + 1 -> owner s' = upd (owner s) (index s) (Some t) ->
  begun s' = begun s -> ended s' = ended s ->
  (forall i, index_inv s i) -> index_inv s' i.
Proof.
  intros Hv Hr Ep Ei Eo Eb Ee HI. destruct (owner_fresh s HI ltac:(lia)) as (F1 & F2 & F3).
  unfold index_inv, claimed. rewrite Ep, Ei, Eo, Eb, Ee.
  destruct (Z.eq_dec i (index s)) as [->|Ne].
  - destruct (Z.leb_spec 0 (index s)); [|lia]. destruct (Z.ltb_spec (index s) (Z.min (index s + 1) n)); [|lia]. cbn [andb].
    exists t. rewrite !upd_same. cbn [bval eval_]. rewrite Z.eqb_refl. auto.
  - specialize (HI i). unfold index_inv, claimed in HI. rewrite (upd_other (owner s)) by exact Ne.
    replace (i <? Z.min (index s + 1) n) with (i <? Z.min (index s) n)
      by (destruct (Z.ltb_spec i (Z.min (index s) n)), (Z.ltb_spec i (Z.min (index s + 1) n)); lia || reflexivity).
    destruct ((0 <=? i) && (i <? Z.min (index s) n)); [|exact HI].
    destruct HI as (t0 & A & B & C). exists t0. split; [exact A|].
    destruct (Z.eq_dec t0 t) as [->|Nt].
    + rewrite upd_same. cbn [bval eval_]. destruct (Z.eqb_spec (index s) i); [congruence|].
      destruct (Hv i) as [V1 V2]. rewrite B, C, V1, V2. auto.
    + rewrite upd_other by exact Nt. auto.
Qed.

Lemma index_begin s s' t i0 d i :
  pcs s t = PCall i0 d -> owner s i0 = Some t -> 0 <= i0 < claimed s ->
  pcs s' = upd (pcs s) t (PInCall i0 d) -> index s' = index s -> owner s' = owner s ->
  begun s' = upd (begun s) i0 (begun s i0 + 1) -> ended s' = ended s ->
  (forall i, index_inv s i) -> index_inv s' i.
Proof.
  intros Hpc Ho Hr Ep Ei Eo Eb Ee HI. specialize (HI i). unfold index_inv, claimed in *. rewrite Ep, Ei, Eo, Eb, Ee.
  destruct (Z.eq_dec i i0) as [->|Ne].
  - destruct (Z.leb_spec 0 i0); [|lia]. destruct (Z.ltb_spec i0 (Z.min (index s) n)); [|lia]. cbn [andb] in *.
    destruct HI as (t0 & A & B & C). assert (t0 = t) by congruence. subst t0. exists t. split; [exact A|].
    rewrite !upd_same. rewrite Hpc in B, C. cbn [bval eval_] in *. rewrite Z.eqb_refl in *. split; lia.
  - rewrite (upd_other (begun s)) by exact Ne.
    destruct ((0 <=? i) && (i <? Z.min (index s) n)); [|exact HI].
    destruct HI as (t0 & A & B & C). exists t0. split; [exact A|].
    destruct (Z.eq_dec t0 t) as [->|Nt].
    + rewrite upd_same. rewrite Hpc in B, C. cbn [bval eval_] in *. destruct (Z.eqb_spec i0 i); [congruence|]. auto.
    + rewrite upd_other by exact Nt. auto.
Qed.

Lemma index_end s s' t i0 d p' i :
  pcs s t = PInCall i0 d -> owner s i0 = Some t -> 0 <= i0 < claimed s ->
  (forall j, bval p' j = 1 /\ eval_ p' j = 1) ->
  pcs s' = upd (pcs s) t p' -> index s' = index s -> owner s' = owner s ->
  begun s' = begun s -> ended s' = upd (ended s) i0 (ended s i0 + 1) ->
  (forall i, index_inv s i) -> index_inv s' i.
Proof.
  intros Hpc Ho Hr Hv Ep Ei Eo Eb Ee HI. specialize (HI i). unfold index_inv, claimed in *. rewrite Ep, Ei, Eo, Eb, Ee.
  destruct (Hv i) as [V1 V2].
  destruct (Z.eq_dec i i0) as [->|Ne].
  - destruct (Z.leb_spec 0 i0); [|lia]. destruct (Z.ltb_spec i0 (Z.min (index s) n)); [|lia]. cbn [andb] in *.
    destruct HI as (t0 & A & B & C). assert (t0 = t) by congruence. subst t0. exists t. split; [exact A|].
    rewrite !upd_same. rewrite Hpc in B, C. cbn [bval eval_] in *. rewrite Z.eqb_refl in *. rewrite V1, V2. split; lia.
  - rewrite (upd_other (ended s)) by exact Ne.
    destruct ((0 <=? i) && (i <? Z.min (index s) n)); [|exact HI].
    destruct HI as (t0 & A & B & C). exists t0. split; [exact A|].
    destruct (Z.eq_dec t0 t) as [->|Nt].
    + rewrite upd_same. rewrite Hpc in B, C. cbn [bval eval_] in *. destruct (Z.eqb_spec i0 i); [congruence|]. rewrite V1, V2. auto.
    + rewrite upd_other by exact Nt. auto.
Qed.

Ltac zlia :=
  match goal with
  | |- _ <= _ => lia | |- _ < _ => lia | |- @eq Z _ _ => lia | |- _ <= _ <= _ => lia | |- _ <= _ < _ => lia
  | |- (_ = 0 -> _) /\ _ => lia
  end.
Ltac ginv_auto Hpc :=
  unfold claimed in *; sp;
  try match goal with H : (0 <? freed _) = false |- _ => rewrite ?H end; rewrite ?orb_false_r;
  try match goal with Nc : c <> ?t |- _ => rewrite ?(upd_other _ t _ c Nc) end;
  try assumption; try zlia;
  try (match goal with
   | |- sig_clause _ _ _ (upd _ _ _) => apply sig_frame; [assumption | rewrite Hpc; discriminate | try discriminate; destruct (_ =? c); discriminate]
   | |- slp_clause _ (upd _ _ _ _) _ _ (upd _ _ _) => apply slp_caller_frame; [assumption | rewrite Hpc; discriminate | rewrite Hpc; discriminate]
   | |- slp_clause _ _ _ _ (upd _ _ _) => apply slp_frame; [assumption | rewrite Hpc; discriminate]
   | |- _ = past_wait (upd _ _ _ _) => rewrite (caller_frame past_wait) by (rewrite Hpc; reflexivity); assumption
   | |- _ = is_ret (upd _ _ _ _) => rewrite (caller_frame is_ret) by (rewrite Hpc; reflexivity); assumption
   | |- past_event (upd _ _ _ _) = true -> _ => rewrite (caller_frame past_event) by (rewrite Hpc; reflexivity); assumption
   end).
Ltac psums s s1 t p' Gnd Hin Hpc :=
  let Po := fresh "Po" in let Pp := fresh "Pp" in let Ph := fresh "Ph" in
  pose proof (psum_step over s s1 t p' eq_refl eq_refl Gnd Hin) as Po;
  pose proof (psum_step pending s s1 t p' eq_refl eq_refl Gnd Hin) as Pp;
  pose proof (psum_step holds s s1 t p' eq_refl eq_refl Gnd Hin) as Ph;
  rewrite Hpc in Po, Pp, Ph; cbn [over pending holds] in Po, Pp, Ph;
  rewrite ?over_out, ?pending_out, ?holds_out in Po, Pp, Ph.
Ltac others_std s HT t u Ne :=
  apply (other_thread s _ t u Ne (HT u)); sp;
  [ apply upd_other; exact Ne | try lia | auto | auto | intros Hx; pose proof (sigd_of s u (HT u) Hx) as Hy; first [exact Hy | congruence] | reflexivity ].
Ltac self_inv := unfold thread_inv, at_pc; sp; rewrite upd_same; cbn [over].

Lemma step_preserves s t e s' : Inv s -> gstep s t e = Some s' -> Inv s'.
Proof.
  intros (G & HT & HI) Hs. pose proof params as (Hn & HTr & HnT).
  pose proof G as [Gi0 Gi1 Gt Gtl Gth Gnd Gl Gc Ge Gs Gf Gu Gd Gw Gcs Gr Gsl].
  unfold Apply.gstep in Hs. destruct (tstep n (t =? c) (pcs s t) e) as [p'|] eqn:Hts; [|discriminate].
  pose proof (HT t) as (At & Ov & Pin). unfold at_pc in At.
  pose proof (psum_over_le s) as Bo. pose proof (psum_holds_le s) as Bh. pose proof (psum_pending_nonneg s HT) as Bp.
  assert (Hcl : claimed s <= n) by (unfold claimed; lia).
  destruct (pcs s t) eqn:Hpc; cbn [tstep] in Hts.
  - (* PIdle: a helper continuation starts *)
    destruct (ev_kind e DVU_MARK); [|discriminate]. injection Hts as <-.
    destruct (negb (t =? c) && (Z.of_nat (length (parts s)) <? T)) eqn:C; [|discriminate].
    apply andb_true_iff in C as [C1 C2]. apply negb_true_iff, Z.eqb_neq in C1. apply Z.ltb_lt in C2.
    injection Hs as <-.
    assert (Nc : c <> t) by congruence.
    assert (Nin : ~ In t (parts s)) by (intros H; apply Pin in H; congruence).
    match goal with |- Inv ?x => set (s1 := x) end.
    pose proof (psum_start over s s1 t PFirst eq_refl eq_refl Nin) as Po.
    pose proof (psum_start pending s s1 t PFirst eq_refl eq_refl Nin) as Pp.
    pose proof (psum_start holds s s1 t PFirst eq_refl eq_refl Nin) as Ph.
    cbn [over pending holds] in Po, Pp, Ph.
    split; [|split].
    + constructor; rewrite ?Po, ?Pp, ?Ph; subst s1; sp; ginv_auto Hpc.
      * cbn [length]. rewrite Nat2Z.inj_succ. lia.
      * constructor; assumption.
      * cbn [length]. rewrite Nat2Z.inj_succ. lia.
      * right; assumption.
    + intros u. subst s1. destruct (Z.eq_dec u t) as [->|Ne].
      * self_inv. split; [exact Logic.I|]. split; [discriminate|]. split; [intros _; left; reflexivity|discriminate].
      * apply (other_thread s _ t u Ne (HT u)); sp; auto; try lia.
        -- apply upd_other; exact Ne.
        -- intros Hx; exact (sigd_of s u (HT u) Hx).
        -- split; [intros [H|H]; [congruence|exact H]|intros H; right; exact H].
    + intros i. subst s1. apply (index_frame s _ t PFirst i); sp; auto. intros j. rewrite Hpc. cbn. auto.
  - (* PFirst: the first fetch-and-increment of da_index *)
    destruct (ev_site e st_first OFF_INDEX && (eb e =? 1)); [|discriminate]. injection Hts as <-.
    destruct (Z.eqb_spec (ea e) (index s)) as [Ea|]; [|discriminate]. injection Hs as <-. rewrite Ea.
    assert (Hin : In t (parts s)) by (apply Pin; discriminate).
    pose proof (alive s t G HT ltac:(rewrite Hpc; reflexivity)) as (Al1 & Al2 & Al3).
    pose proof (index_small s t G Hin ltac:(rewrite Hpc; reflexivity)) as Hsm.
    assert (Ew : wrapsz 8 (index s + 1) = index s + 1)
      by (unfold wrapsz; apply Z.mod_small; change (2 ^ (8 * 8)) with 18446744073709551616; lia).
    rewrite Ew.
    destruct (Z.geb_spec (index s) n) as [Hge|Hlt].
    + destruct (Z.ltb_spec (index s) n) as [|_]; [lia|].
      match goal with |- Inv ?x => set (s1 := x) end.
      psums s s1 t (out (t =? c)) Gnd Hin Hpc.
      split; [|split].
      * destruct (Z.eqb_spec t c) as [Etc|Nc']; [subst t|assert (Nc : c <> t) by congruence]; cbn [out over pending holds] in *;
          (constructor; rewrite ?Po, ?Pp, ?Ph; subst s1; sp; ginv_auto Hpc).
      * intros u. subst s1. destruct (Z.eq_dec u t) as [->|Ne].
        -- self_inv. rewrite over_out. destruct (Z.eqb_spec t c); cbn [out]; (split; [auto|]); (split; [lia|]);
             (split; [intros _; exact Hin|discriminate]).
        -- others_std s HT t u Ne.
      * intros i. subst s1. apply (index_frame s _ t (out (t =? c)) i); sp; auto.
        -- unfold claimed; sp; lia.
        -- intros j. rewrite Hpc. destruct (t =? c); cbn; auto.
    + destruct (Z.ltb_spec (index s) n) as [_|]; [|lia].
      match goal with |- Inv ?x => set (s1 := x) end.
      psums s s1 t (PCall (index s) 0) Gnd Hin Hpc.
      split; [|split].
      * constructor; rewrite ?Po, ?Pp, ?Ph; subst s1; sp; ginv_auto Hpc.
      * intros u. subst s1. destruct (Z.eq_dec u t) as [->|Ne].
        -- self_inv. rewrite upd_same. repeat split; try lia; try discriminate. intros _; exact Hin.
        -- others_std s HT t u Ne. intros i Hi. destruct (Z.eq_dec i (index s)) as [->|Ni]; [|rewrite upd_other by exact Ni; exact Hi].
           destruct (owner_fresh s HI Gi0) as (F & _). congruence.
      * intros i. subst s1. apply (index_claim s _ t 0 i); sp; auto; try lia. intros j. rewrite Hpc. cbn. auto.
  - (* PCall: the work function is entered (the first iteration has read da_dc just before) *)
    destruct (ev_kind e DVU_CALLOUT_BEGIN && (ea e =? idx)); [|discriminate]. injection Hts as <-. injection Hs as <-.
    destruct At as (A1 & A2 & A3 & A4).
    assert (Hin : In t (parts s)) by (apply Pin; discriminate).
    destruct (owes_not_done s t G HT Hin ltac:(rewrite Hpc; cbn; lia)) as (Sn & Sd & Rf & Td).
    rewrite Rf, andb_false_r, orb_false_r.
    match goal with |- Inv ?x => set (s1 := x) end.
    psums s s1 t (PInCall idx done) Gnd Hin Hpc.
    split; [|split].
    + constructor; rewrite ?Po, ?Pp, ?Ph; subst s1; sp; ginv_auto Hpc.
    + intros u. subst s1. destruct (Z.eq_dec u t) as [->|Ne].
      * self_inv. repeat split; auto; try lia; try discriminate.
      * others_std s HT t u Ne.
    + intros i. subst s1. apply (index_begin s _ t idx done i); sp; auto. unfold claimed; lia.
  - (* PInCall: the work function returns *)
    destruct (ev_kind e DVU_CALLOUT_END); [|discriminate]. injection Hts as <-. injection Hs as <-.
    destruct At as (A1 & A2 & A3 & A4).
    assert (Hin : In t (parts s)) by (apply Pin; discriminate).
    match goal with |- Inv ?x => set (s1 := x) end.
    psums s s1 t (PNext (done + 1)) Gnd Hin Hpc.
    split; [|split].
    + constructor; rewrite ?Po, ?Pp, ?Ph; subst s1; sp; ginv_auto Hpc.
    + intros u. subst s1. destruct (Z.eq_dec u t) as [->|Ne].
      * self_inv. repeat split; auto; try lia; try discriminate.
      * others_std s HT t u Ne.
    + intros i. subst s1. apply (index_end s _ t idx done (PNext (done + 1)) i); sp; auto. unfold claimed; lia.
  - (* PNext: the next fetch-and-increment of da_index *)
    destruct (ev_site e st_next OFF_INDEX && (eb e =? 1)); [|discriminate]. injection Hts as <-.
    destruct (Z.eqb_spec (ea e) (index s)) as [Ea|]; [|discriminate]. injection Hs as <-. rewrite Ea.
    assert (Hin : In t (parts s)) by (apply Pin; discriminate).
    pose proof (alive s t G HT ltac:(rewrite Hpc; reflexivity)) as (Al1 & Al2 & Al3).
    pose proof (index_small s t G Hin ltac:(rewrite Hpc; reflexivity)) as Hsm.
    assert (Ew : wrapsz 8 (index s + 1) = index s + 1)
      by (unfold wrapsz; apply Z.mod_small; change (2 ^ (8 * 8)) with 18446744073709551616; lia).
    rewrite Ew.
    destruct (Z.ltb_spec (index s) n) as [Hlt|Hge].
    + match goal with |- Inv ?x => set (s1 := x) end.
      psums s s1 t (PCall (index s) done) Gnd Hin Hpc.
      split; [|split].
      * constructor; rewrite ?Po, ?Pp, ?Ph; subst s1; sp; ginv_auto Hpc.
      * intros u. subst s1. destruct (Z.eq_dec u t) as [->|Ne].
        -- self_inv. rewrite upd_same. repeat split; try lia; try discriminate. intros _; exact Hin.
        -- others_std s HT t u Ne. intros i Hi. destruct (Z.eq_dec i (index s)) as [->|Ni]; [|rewrite upd_other by exact Ni; exact Hi].
           destruct (owner_fresh s HI Gi0) as (F & _). congruence.
      * intros i. subst s1. apply (index_claim s _ t done i); sp; auto; try lia. intros j. rewrite Hpc. cbn. auto.
    + match goal with |- Inv ?x => set (s1 := x) end.
      psums s s1 t (PSub done) Gnd Hin Hpc.
      split; [|split].
      * constructor; rewrite ?Po, ?Pp, ?Ph; subst s1; sp; ginv_auto Hpc.
      * intros u. subst s1. destruct (Z.eq_dec u t) as [->|Ne].
        -- self_inv. repeat split; try lia; try discriminate. intros _; exact Hin.
        -- others_std s HT t u Ne.
      * intros i. subst s1. apply (index_frame s _ t (PSub done) i); sp; auto.
        -- unfold claimed; sp; lia.
        -- intros j. rewrite Hpc. cbn; auto.
  - (* PSub: os_atomic_sub2o(da, da_todo, done, release) *)
    destruct (ev_site e st_todo OFF_TODO && (eb e =? done)); [|discriminate]. injection Hts as <-.
    destruct (Z.eqb_spec (ea e) (todo s)) as [Ea|]; [|discriminate]. cbv zeta in Hs. injection Hs as <-. rewrite Ea.
    assert (Hin : In t (parts s)) by (apply Pin; discriminate).
    pose proof (alive s t G HT ltac:(rewrite Hpc; reflexivity)) as (Al1 & Al2 & Al3).
    pose proof (psum_pending_ge s t HT Hin) as Pg. rewrite Hpc in Pg. cbn [pending] in Pg.
    assert (Ew : wrapsz 8 (todo s - done) = todo s - done)
      by (unfold wrapsz; apply Z.mod_small; change (2 ^ (8 * 8)) with 18446744073709551616; lia).
    rewrite Ew.
    destruct (owes_not_done s t G HT Hin ltac:(rewrite Hpc; cbn; lia)) as (Sn & Sd & Rf & Td).
    specialize (Ov eq_refl).
    destruct (Z.eqb_spec (todo s - done) 0) as [Ez|Ez].
    + match goal with |- Inv ?x => set (s1 := x) end.
      psums s s1 t PSignal Gnd Hin Hpc.
      split; [|split].
      * constructor; rewrite ?Po, ?Pp, ?Ph; subst s1; sp; ginv_auto Hpc.
        -- unfold sig_clause. split; [lia|]. rewrite upd_same. rewrite Sd. split; auto.
        -- intros Hsl. destruct (Gsl Hsl) as [A B]. assert (c <> t) by (intros ->; congruence).
           rewrite upd_other by assumption. split; [exact A|left; exact Sd].
      * intros u. subst s1. destruct (Z.eq_dec u t) as [->|Ne].
        -- self_inv. repeat split; auto; try discriminate.
        -- apply (other_thread s _ t u Ne (HT u)); sp; auto; try lia; try reflexivity.
           ++ apply upd_other; exact Ne.
           ++ intros X. congruence.
      * intros i. subst s1. apply (index_frame s _ t PSignal i); sp; auto. intros j. rewrite Hpc. cbn; auto.
    + match goal with |- Inv ?x => set (s1 := x) end.
      psums s s1 t (out (t =? c)) Gnd Hin Hpc.
      split; [|split].
      * destruct (Z.eqb_spec t c) as [Etc|Nc']; [subst t|assert (Nc : c <> t) by congruence]; cbn [out over pending holds] in *;
          (constructor; rewrite ?Po, ?Pp, ?Ph; subst s1; sp; ginv_auto Hpc);
          try (apply sig_frame; [|rewrite Hpc; discriminate|discriminate]; rewrite Sn; unfold sig_clause; split; [lia|exact Sd]).
      * intros u. subst s1. destruct (Z.eq_dec u t) as [->|Ne].
        -- self_inv. rewrite over_out. destruct (Z.eqb_spec t c); cbn [out]; (split; [auto|]); (split; [lia|]);
             (split; [intros _; exact Hin|discriminate]).
        -- others_std s HT t u Ne.
      * intros i. subst s1. apply (index_frame s _ t (out (t =? c)) i); sp; auto.
        intros j. rewrite Hpc. destruct (t =? c); cbn; auto.
  - (* PSignal: _dispatch_thread_event_signal: inc_orig(dte_value, release) *)
    destruct (ev_site e st_signal OFF_EVENT && (eb e =? 1)); [|discriminate]. injection Hts as <-.
    destruct (Z.eqb_spec (ea e) (evt s)) as [Ea|]; [|discriminate]. injection Hs as <-. rewrite Ea.
    destruct At as [As Asd].
    assert (Hin : In t (parts s)) by (apply Pin; discriminate).
    pose proof (alive s t G HT ltac:(rewrite Hpc; reflexivity)) as (Al1 & Al2 & Al3).
    specialize (Ov eq_refl).
    assert (Gs' := Gs). unfold sig_clause in Gs'. rewrite As in Gs'. destruct Gs' as [Td _].
    rewrite Asd in Ge.
    destruct (waited s) eqn:Ewt; cbn [evt_enc] in Ge; rewrite Ge.
    + (* the caller is already waiting: UINT32_MAX -> 0, wake it *)
      change (wrapsz 4 (UMAX32 + 1)) with 0. change (UMAX32 =? 0) with false. cbv iota.
      match goal with |- Inv ?x => set (s1 := x) end.
      psums s s1 t PWake Gnd Hin Hpc.
      split; [|split].
      * constructor; rewrite ?Po, ?Pp, ?Ph; subst s1; sp; ginv_auto Hpc.
        -- reflexivity.
        -- rewrite As. unfold sig_clause. split; [exact Td|]. rewrite upd_same. split; discriminate.
        -- intros _. reflexivity.
        -- intros Hsl. destruct (Gsl Hsl) as [A B]. assert (c <> t) by (intros ->; congruence).
           rewrite upd_other by assumption. split; [exact A|right]. exists t. split; [exact As|apply upd_same].
      * intros u. subst s1. destruct (Z.eq_dec u t) as [->|Ne].
        -- self_inv. repeat split; auto; try discriminate.
        -- apply (other_thread s _ t u Ne (HT u)); sp; auto; try lia; try reflexivity.
           ++ apply upd_other; exact Ne.
           ++ intros Hx. exfalso. destruct (HT u) as (Au & _). unfold at_pc in Au. rewrite Hx in Au. destruct Au as [Au _]. congruence.
      * intros i. subst s1. apply (index_frame s _ t PWake i); sp; auto. intros j. rewrite Hpc. cbn; auto.
    + (* nobody waits yet: 0 -> 1 *)
      change (wrapsz 4 (0 + 1)) with 1. change (0 =? 0) with true. cbv iota.
      match goal with |- Inv ?x => set (s1 := x) end.
      psums s s1 t (out (t =? c)) Gnd Hin Hpc.
      split; [|split].
      * destruct (Z.eqb_spec t c) as [Etc|Nc']; [subst t|assert (Nc : c <> t) by congruence]; cbn [out over pending holds] in *;
          (constructor; rewrite ?Po, ?Pp, ?Ph; subst s1; sp; ginv_auto Hpc);
          try reflexivity;
          try (rewrite As; unfold sig_clause; split; [exact Td|]; rewrite upd_same; split; discriminate);
          try (intros _; reflexivity);
          try (intros Hsl; exfalso; destruct (Gsl Hsl) as [A B]; rewrite A in Gw; cbn in Gw; congruence).
      * intros u. subst s1. destruct (Z.eq_dec u t) as [->|Ne].
        -- self_inv. rewrite over_out. destruct (Z.eqb_spec t c); cbn [out]; (split; [auto|]); (split; [lia|]);
             (split; [intros _; exact Hin|discriminate]).
        -- apply (other_thread s _ t u Ne (HT u)); sp; auto; try lia; try reflexivity.
           ++ apply upd_other; exact Ne.
           ++ intros Hx. exfalso. destruct (HT u) as (Au & _). unfold at_pc in Au. rewrite Hx in Au. destruct Au as [Au _]. congruence.
      * intros i. subst s1. apply (index_frame s _ t (out (t =? c)) i); sp; auto.
        intros j. rewrite Hpc. destruct (t =? c); cbn; auto.
  - (* PWake: _dispatch_thread_event_signal_slow: futex_wake *)
    destruct (ev_kind e DV_FUTEX_WAKE); [|discriminate]. injection Hts as <-. injection Hs as <-.
    assert (Hin : In t (parts s)) by (apply Pin; discriminate).
    pose proof (alive s t G HT ltac:(rewrite Hpc; reflexivity)) as (Al1 & Al2 & Al3).
    specialize (Ov eq_refl).
    match goal with |- Inv ?x => set (s1 := x) end.
    psums s s1 t (out (t =? c)) Gnd Hin Hpc.
    split; [|split].
    + destruct (Z.eqb_spec t c) as [Etc|Nc']; [subst t|assert (Nc : c <> t) by congruence]; cbn [out over pending holds] in *;
        (constructor; rewrite ?Po, ?Pp, ?Ph; subst s1; sp; ginv_auto Hpc);
        try (intros Hsl; exfalso; destruct (slp s); discriminate Hsl).
    + intros u. subst s1. destruct (Z.eq_dec u t) as [->|Ne].
      * self_inv. rewrite over_out. destruct (Z.eqb_spec t c); cbn [out]; (split; [auto|]); (split; [lia|]);
          (split; [intros _; exact Hin|discriminate]).
      * others_std s HT t u Ne.
    + intros i. subst s1. apply (index_frame s _ t (out (t =? c)) i); sp; auto.
      intros j. rewrite Hpc. destruct (t =? c); cbn; auto.
  - (* PWaitDec: _dispatch_thread_event_wait: dec(dte_value, acquire) -- the caller *)
    destruct (ev_site e st_wait OFF_EVENT && (eb e =? 1)); [|discriminate]. injection Hts as <-.
    destruct (Z.eqb_spec (ea e) (evt s)) as [Ea|]; [|discriminate]. injection Hs as <-. rewrite Ea.
    subst t.
    assert (Hin : In c (parts s)) by exact Gc.
    pose proof (alive s c G HT ltac:(rewrite Hpc; reflexivity)) as (Al1 & Al2 & Al3).
    specialize (Ov eq_refl).
    rewrite Hpc in Gw, Gcs, Gr, Gsl. cbn [past_wait past_event is_ret] in Gw, Gcs, Gr. rewrite Gw in Ge.
    assert (Nsl : slp s <> Sleeping) by (intros Hsl; destruct (Gsl Hsl) as [A _]; discriminate A).
    destruct (sigd s) eqn:Esd; cbn [evt_enc] in Ge; rewrite Ge.
    + change (wrapsz 4 (1 - 1)) with 0. change (0 =? 0) with true. cbv iota.
      match goal with |- Inv ?x => set (s1 := x) end.
      psums s s1 c PDec Gnd Hin Hpc.
      split; [|split].
      * constructor; rewrite ?Po, ?Pp, ?Ph; subst s1; sp; ginv_auto Hpc; rewrite ?upd_same; cbn [past_wait past_event is_ret evt_enc]; auto.
        intros Hsl; contradiction.
      * intros u. subst s1. destruct (Z.eq_dec u c) as [->|Ne].
        -- self_inv. repeat split; auto; try discriminate.
        -- others_std s HT c u Ne.
      * intros i. subst s1. apply (index_frame s _ c PDec i); sp; auto. intros j. rewrite Hpc. cbn; auto.
    + change (wrapsz 4 (0 - 1)) with UMAX32. change (UMAX32 =? 0) with false. cbv iota.
      match goal with |- Inv ?x => set (s1 := x) end.
      psums s s1 c PWaitLoad Gnd Hin Hpc.
      split; [|split].
      * constructor; rewrite ?Po, ?Pp, ?Ph; subst s1; sp; ginv_auto Hpc; rewrite ?upd_same; cbn [past_wait past_event is_ret evt_enc]; auto.
        intros Hsl; contradiction.
      * intros u. subst s1. destruct (Z.eq_dec u c) as [->|Ne].
        -- self_inv. repeat split; auto; try discriminate.
        -- others_std s HT c u Ne.
      * intros i. subst s1. apply (index_frame s _ c PWaitLoad i); sp; auto. intros j. rewrite Hpc. cbn; auto.
  - (* PWaitLoad: _dispatch_thread_event_wait_slow: load(dte_value, acquire) -- the caller *)
    destruct (ev_site e st_wload OFF_EVENT); [|discriminate]. injection Hts as <-.
    destruct (Z.eqb_spec (ea e) (evt s)) as [Ea|]; [|discriminate]. injection Hs as <-. rewrite Ea.
    subst t.
    assert (Hin : In c (parts s)) by exact Gc.
    pose proof (alive s c G HT ltac:(rewrite Hpc; reflexivity)) as (Al1 & Al2 & Al3).
    specialize (Ov eq_refl).
    rewrite Hpc in Gw, Gcs, Gr, Gsl. cbn [past_wait past_event is_ret] in Gw, Gcs, Gr. rewrite Gw in Ge.
    assert (Nsl : slp s <> Sleeping) by (intros Hsl; destruct (Gsl Hsl) as [A _]; discriminate A).
    destruct (sigd s) eqn:Esd; cbn [evt_enc] in Ge; rewrite Ge.
    + change (0 =? 0) with true. cbv iota.
      match goal with |- Inv ?x => set (s1 := x) end.
      psums s s1 c PDec Gnd Hin Hpc.
      split; [|split].
      * constructor; rewrite ?Po, ?Pp, ?Ph; subst s1; sp; rewrite ?Esd; ginv_auto Hpc; rewrite ?upd_same; cbn [past_wait past_event is_ret evt_enc]; auto; try (rewrite Gw; exact Ge).
        intros Hsl; contradiction.
      * intros u. subst s1. destruct (Z.eq_dec u c) as [->|Ne].
        -- self_inv. repeat split; auto; try discriminate.
        -- others_std s HT c u Ne.
      * intros i. subst s1. apply (index_frame s _ c PDec i); sp; auto. intros j. rewrite Hpc. cbn; auto.
    + change (UMAX32 =? 0) with false. change (UMAX32 =? UMAX32) with true. cbv iota.
      match goal with |- Inv ?x => set (s1 := x) end.
      psums s s1 c PWaitFutex Gnd Hin Hpc.
      split; [|split].
      * constructor; rewrite ?Po, ?Pp, ?Ph; subst s1; sp; rewrite ?Esd; ginv_auto Hpc; rewrite ?upd_same; cbn [past_wait past_event is_ret evt_enc]; auto; try (rewrite Gw; exact Ge).
        intros Hsl; contradiction.
      * intros u. subst s1. destruct (Z.eq_dec u c) as [->|Ne].
        -- self_inv. repeat split; auto; try discriminate.
        -- others_std s HT c u Ne.
      * intros i. subst s1. apply (index_frame s _ c PWaitFutex i); sp; auto. intros j. rewrite Hpc. cbn; auto.
  - (* PWaitFutex: futex_wait(&dte_value, UINT32_MAX) -- the caller *)
    destruct (ev_kind e DV_FUTEX_WAIT && (ea e =? UMAX32)); [|discriminate]. injection Hts as <-. injection Hs as <-.
    subst t.
    assert (Hin : In c (parts s)) by exact Gc.
    pose proof (alive s c G HT ltac:(rewrite Hpc; reflexivity)) as (Al1 & Al2 & Al3).
    specialize (Ov eq_refl).
    rewrite Hpc in Gw, Gcs, Gr, Gsl. cbn [past_wait past_event is_ret] in Gw, Gcs, Gr.
    match goal with |- Inv ?x => set (s1 := x) end.
    psums s s1 c PWaitSleep Gnd Hin Hpc.
    split; [|split].
    + constructor; rewrite ?Po, ?Pp, ?Ph; subst s1; sp; ginv_auto Hpc; rewrite ?upd_same; cbn [past_wait past_event is_ret evt_enc]; auto.
      intros Hsl. split; [reflexivity|left].
      destruct (Z.eqb_spec (evt s) UMAX32) as [Eu|]; [|discriminate Hsl].
      rewrite Ge, Gw in Eu. destruct (sigd s); [discriminate Eu|reflexivity].
    + intros u. subst s1. destruct (Z.eq_dec u c) as [->|Ne].
      * self_inv. repeat split; auto; try discriminate.
      * others_std s HT c u Ne.
    + intros i. subst s1. apply (index_frame s _ c PWaitSleep i); sp; auto. intros j. rewrite Hpc. cbn; auto.
  - (* PWaitSleep: futex_wait returns (woken, value changed, EINTR, spurious) -- the caller *)
    destruct (ev_kind e DV_FUTEX_WAIT_RET); [|discriminate]. injection Hts as <-. injection Hs as <-.
    subst t.
    assert (Hin : In c (parts s)) by exact Gc.
    specialize (Ov eq_refl).
    rewrite Hpc in Gw, Gcs, Gr, Gsl. cbn [past_wait past_event is_ret] in Gw, Gcs, Gr.
    match goal with |- Inv ?x => set (s1 := x) end.
    psums s s1 c PWaitLoad Gnd Hin Hpc.
    split; [|split].
    + constructor; rewrite ?Po, ?Pp, ?Ph; subst s1; sp; ginv_auto Hpc; rewrite ?upd_same; cbn [past_wait past_event is_ret evt_enc]; auto.
      intros Hsl; discriminate Hsl.
    + intros u. subst s1. destruct (Z.eq_dec u c) as [->|Ne].
      * self_inv. repeat split; auto; try discriminate.
      * others_std s HT c u Ne.
    + intros i. subst s1. apply (index_frame s _ c PWaitLoad i); sp; auto. intros j. rewrite Hpc. cbn; auto.
  - (* PDec: os_atomic_dec2o(da, da_thr_cnt, release); the record is freed when the result is 0 *)
    destruct (ev_site e st_thrcnt OFF_THRCNT && (eb e =? 1)); [|discriminate]. injection Hts as <-.
    destruct (Z.eqb_spec (ea e) (thrcnt s)) as [Ea|]; [|discriminate]. cbv zeta in Hs. injection Hs as <-.
    assert (Hin : In t (parts s)) by (apply Pin; discriminate).
    pose proof (alive s t G HT ltac:(rewrite Hpc; reflexivity)) as (Al1 & Al2 & Al3).
    specialize (Ov eq_refl).
    assert (Ew : s32 (thrcnt s - 1) = thrcnt s - 1) by (unfold s32; rewrite Z.mod_small; lia).
    rewrite Ew.
    match goal with |- Inv ?x => set (s1 := x) end.
    psums s s1 t PDone Gnd Hin Hpc.
    split; [|split].
    + constructor; rewrite ?Po, ?Pp, ?Ph; subst s1; sp; ginv_auto Hpc.
      destruct (Z.eqb_spec (thrcnt s - 1) 0); lia.
    + intros u. subst s1. destruct (Z.eq_dec u t) as [->|Ne].
      * self_inv. repeat split; auto; try discriminate.
      * others_std s HT t u Ne.
    + intros i. subst s1. apply (index_frame s _ t PDone i); sp; auto. intros j. rewrite Hpc. cbn; auto.
  - (* PDone: dispatch_apply_f returns (caller only) *)
    destruct (Z.eqb_spec t c) as [Etc|]; [|discriminate]. subst t. cbn [andb] in Hts.
    destruct (ev_kind e DVU_RET); [|discriminate]. injection Hts as <-. injection Hs as <-.
    assert (Hin : In c (parts s)) by exact Gc.
    specialize (Ov eq_refl).
    match goal with |- Inv ?x => set (s1 := x) end.
    psums s s1 c PRet Gnd Hin Hpc.
    split; [|split].
    + constructor; rewrite ?Po, ?Pp, ?Ph; subst s1; sp; ginv_auto Hpc; rewrite ?upd_same; cbn [past_wait past_event is_ret evt_enc]; auto.
    + intros u. subst s1. destruct (Z.eq_dec u c) as [->|Ne].
      * self_inv. repeat split; auto; try discriminate.
      * others_std s HT c u Ne.
    + intros i. subst s1. apply (index_frame s _ c PRet i); sp; auto. intros j. rewrite Hpc. cbn; auto.
  - discriminate.
  - discriminate.
Qed.

(* ---- consequences ---- *)
Theorem inv_reach s : reach s -> Inv s.
Proof.
  apply invariant_lift.
  - intros ? ->. apply Inv_init.
  - intros s0 [t e] s1 HI Hs. cbn in Hs. eapply step_preserves; eauto.
Qed.

Lemma lsum_zero f l : (forall u, In u l -> 0 <= f u) -> lsum f l = 0 -> forall u, In u l -> f u = 0.
Proof.
  induction l as [|x l IH]; intros H E u Hu; [contradiction|]. cbn [lsum] in E.
  pose proof (H x (or_introl eq_refl)). assert (0 <= lsum f l) by (apply lsum_nonneg; intros; apply H; right; auto).
  destruct Hu as [->|Hu]; [lia|]. apply IH; auto; [intros; apply H; right; auto|lia].
Qed.

(* every index is handed to the work function at most once, only indices below n, and a callout ends only after it began *)
Theorem each_index_once s i : reach s ->
  (begun s i = 0 \/ begun s i = 1) /\ (ended s i = 0 \/ ended s i = 1) /\ ended s i <= begun s i /\
  (begun s i = 1 -> 0 <= i < n) /\ (begun s i = 1 -> exists t, owner s i = Some t).
Proof.
  intros R. destruct (inv_reach s R) as (G & HT & HI). specialize (HI i). unfold index_inv, claimed in HI.
  destruct (Z.leb_spec 0 i); destruct (Z.ltb_spec i (Z.min (index s) n)); cbn [andb] in HI;
    try (destruct HI as (A & B & C); rewrite B, C; repeat split; auto; try lia; intros; lia).
  destruct HI as (t & A & B & C). rewrite B, C.
  destruct (pcs s t); cbn [bval eval_]; try (repeat split; auto; try lia; intros; exists t; auto);
    destruct (Z.eqb_spec idx i); repeat split; auto; try lia; intros; try lia; exists t; auto.
Qed.

(* once the caller is past the event wait, every index has been invoked and every invocation has finished *)
Lemma all_done s : reach s -> past_event (pcs s c) = true ->
  forall i, 0 <= i < n -> begun s i = 1 /\ ended s i = 1.
Proof.
  intros R Hp i Hi. destruct (inv_reach s R) as (G & HT & HI).
  pose proof (g_csig s G Hp) as Sd. pose proof (g_sig s G) as S. unfold sig_clause in S.
  destruct (signaller s) as [g|]; [|destruct S; congruence]. destruct S as [Td _].
  pose proof (g_todo s G) as Gt. pose proof (psum_pending_nonneg s HT) as Bp.
  assert (Hc : claimed s = n /\ psum pending s = 0) by (unfold claimed in *; lia). destruct Hc as [Hc Hz].
  assert (Hall : forall u, In u (parts s) -> pending (pcs s u) = 0).
  { apply (lsum_zero (fun u => pending (pcs s u))); [intros u _; apply pending_nonneg, HT|exact Hz]. }
  specialize (HI i). unfold index_inv in HI. rewrite Hc in HI.
  destruct (Z.leb_spec 0 i); [|lia]. destruct (Z.ltb_spec i n); [|lia]. cbn [andb] in HI.
  destruct HI as (t & A & B & C). rewrite B, C.
  destruct (HT t) as (At & _ & Pin). unfold at_pc in At.
  destruct (pcs s t) eqn:Hpc; cbn [bval eval_]; auto.
  - destruct (Z.eqb_spec idx i); auto. exfalso.
    assert (In t (parts s)) by (apply Pin; discriminate). specialize (Hall t H1). rewrite Hpc in Hall. cbn in Hall. lia.
  - destruct (Z.eqb_spec idx i); auto. exfalso.
    assert (In t (parts s)) by (apply Pin; discriminate). specialize (Hall t H1). rewrite Hpc in Hall. cbn in Hall. lia.
Qed.

Theorem returned_after_all s : reach s -> returned s = true ->
  forall i, 0 <= i < n -> begun s i = 1 /\ ended s i = 1.
Proof.
  intros R Hr. destruct (inv_reach s R) as (G & _ & _). rewrite (g_ret s G) in Hr.
  apply all_done; auto. destruct (pcs s c); try discriminate. reflexivity.
Qed.

(* the return of dispatch_apply_f (the RET event) is only enabled after every callout has ended *)
Theorem return_after_all s t e s' : reach s -> gstep s t e = Some s' -> ev_kind e DVU_RET = true ->
  t = c /\ forall i, 0 <= i < n -> begun s i = 1 /\ ended s i = 1.
Proof.
  intros R Hs Hk. unfold Apply.gstep in Hs. destruct (tstep n (t =? c) (pcs s t) e) as [p'|] eqn:Hts; [|discriminate].
  unfold ev_kind in Hk. apply Z.eqb_eq in Hk.
  destruct (pcs s t) eqn:Hpc; cbn [tstep] in Hts;
    try discriminate;
    try (unfold ev_site, ev_kind, ev_is in Hts; rewrite Hk in Hts; cbn in Hts; discriminate).
  destruct (Z.eqb_spec t c) as [->|]; [|discriminate]. split; [reflexivity|].
  apply all_done; auto. rewrite Hpc. reflexivity.
Qed.

(* the completion handshake needs no helper that has not started: while the caller waits, either the signal is about
   to happen, or some participant that is already inside invoke2 still owes its subtraction from da_todo (and such
   a participant is never blocked, see participant_enabled); a sleeping caller always has its wake-up coming *)
Theorem terminates_without_helpers s : reach s -> waiting (pcs s c) = true ->
  (sigd s = true /\ evt s = (if waited s then 0 else 1) /\
     (slp s = Sleeping -> exists g, signaller s = Some g /\ pcs s g = PWake)) \/
  (sigd s = false /\
     ((exists g, signaller s = Some g /\ pcs s g = PSignal) \/
      (exists t, In t (parts s) /\ t <> c /\ 0 < pending (pcs s t)))).
Proof.
  intros R Hw. destruct (inv_reach s R) as (G & HT & HI).
  destruct (sigd s) eqn:Sd.
  - left. split; [reflexivity|]. split.
    + rewrite (g_evt s G), Sd. destruct (waited s); reflexivity.
    + intros Hs. destruct (g_slp s G Hs) as [_ [X|X]]; [congruence|exact X].
  - right. split; [reflexivity|].
    pose proof (g_sig s G) as S. unfold sig_clause in S. destruct (signaller s) as [g|] eqn:Sg.
    + left. exists g. split; [reflexivity|]. apply S. exact Sd.
    + right. destruct S as [Td _].
      destruct (HT c) as (_ & Ov & _). assert (Hov : over (pcs s c) = 1) by (destruct (pcs s c); try discriminate; reflexivity).
      specialize (Ov Hov). pose proof (g_todo s G) as Gt. unfold claimed in Gt.
      assert (Hp : 0 < psum pending s) by lia.
      destruct (lsum_pos_exists _ _ Hp) as (t & Hin & Hpos). exists t. split; [exact Hin|]. split; [|exact Hpos].
      intros ->. destruct (pcs s c); try discriminate; cbn in Hpos; lia.
Qed.

(* the record is freed at most once, exactly when the last unit of da_thr_cnt is given back, after every participant
   has left invoke2; no access to the record after the free and no read of da_dc after the caller returned *)
Theorem record_freed_once s : reach s ->
  0 <= thrcnt s /\ (freed s = 0 \/ freed s = 1) /\ (freed s = 1 <-> thrcnt s = 0) /\ uaf s = false /\ dcbad s = false /\
  (freed s = 1 -> Z.of_nat (length (parts s)) = T /\ forall t, holds (pcs s t) = 0).
Proof.
  intros R. destruct (inv_reach s R) as (G & HT & HI).
  pose proof (g_thr s G) as Gth. pose proof (g_len s G) as Gl. pose proof (psum_holds_le s) as Bh.
  pose proof (g_freed s G) as [F1 F2].
  assert (Hf : freed s = 1 <-> thrcnt s = 0).
  { split; intros H; [|auto]. destruct (Z.eq_dec (thrcnt s) 0); [auto|]. rewrite F2 in H by auto. discriminate. }
  split; [lia|]. split; [destruct (Z.eq_dec (thrcnt s) 0); [right; auto|left; auto]|]. split; [exact Hf|].
  split; [apply (g_uaf s G)|]. split; [apply (g_dcbad s G)|].
  intros H. apply Hf in H. split; [lia|]. intros t.
  assert (Hz : psum holds s = 0) by lia.
  destruct (HT t) as (_ & _ & Pin).
  destruct (pcs s t) eqn:Hpc; try reflexivity; exfalso;
    (assert (Hin : In t (parts s)) by (apply Pin; discriminate));
    pose proof (lsum_zero (fun u => holds (pcs s u)) (parts s) (fun u _ => proj1 (holds_range (pcs s u))) Hz t Hin) as Z0;
    cbn beta in Z0; rewrite Hpc in Z0; discriminate Z0.
Qed.

(* every access to the record is made by a participant that still holds its unit of da_thr_cnt *)
Theorem access_holds_unit s t : reach s -> holds (pcs s t) = 1 -> 1 <= thrcnt s /\ freed s = 0.
Proof. intros R H. destruct (inv_reach s R) as (G & HT & _). destruct (alive s t G HT H) as (A & B & _). auto. Qed.

(* the global model moves participants by the automaton used for trace conformance *)
Lemma gstep_tstep s t e s' : gstep s t e = Some s' -> tstep n (t =? c) (pcs s t) e = Some (pcs s' t).
Proof.
  unfold Apply.gstep. destruct (tstep n (t =? c) (pcs s t) e) as [p'|]; [|discriminate]. intros Hs. f_equal.
  destruct (pcs s t); cbv zeta in Hs;
    repeat match type of Hs with
    | (if ?b then _ else None) = Some _ => destruct b; [|discriminate]
    end; try discriminate; injection Hs as <-; sp; rewrite upd_same; reflexivity.
Qed.
End Invoke.

(* dispatch_apply_f(0, ...) returns at once *)
Lemma zero_returns nested maxpar w ht os : apply_f_path 0 nested maxpar w ht os = PathReturn.
Proof. reflexivity. Qed.

(* a participant that is inside the claiming loop or on its way to the subtraction / signal / final decrement is never
   blocked: in every state it has a step (the work function is assumed to return) *)
Definition working (p : pc) : bool :=
  match p with PFirst | PCall _ _ | PInCall _ _ | PNext _ | PSub _ | PSignal | PWake | PDec => true | _ => false end.
Lemma participant_enabled n T c s t : working (pcs s t) = true -> exists e s', gstep n T c s t e = Some s'.
Proof.
  intros W. unfold gstep. destruct (pcs s t) eqn:Hpc; try discriminate W; cbn [tstep].
  - exists (mkEv DV_ADD 2 0 8 8 (index s) 1 1). cbn [ea eb]. change (ev_site _ st_first OFF_INDEX && (1 =? 1)) with true. cbv iota.
    rewrite Z.eqb_refl. eexists; reflexivity.
  - exists (mkEv DVU_CALLOUT_BEGIN 0 0 0 0 idx 0 1). cbn [ea eb]. change (ev_kind _ DVU_CALLOUT_BEGIN) with true. rewrite Z.eqb_refl. cbn [andb].
    eexists; reflexivity.
  - exists (mkEv DVU_CALLOUT_END 0 0 0 0 idx 0 1). change (ev_kind _ DVU_CALLOUT_END) with true. cbv iota. eexists; reflexivity.
  - exists (mkEv DV_ADD 0 0 8 8 (index s) 1 1). cbn [ea eb]. change (ev_site _ st_next OFF_INDEX && (1 =? 1)) with true. cbv iota.
    rewrite Z.eqb_refl. eexists; reflexivity.
  - exists (mkEv DV_SUB 3 0 16 8 (todo s) done 1). cbn [ea eb]. change (ev_site _ st_todo OFF_TODO) with true. rewrite !Z.eqb_refl. cbn [andb].
    eexists; reflexivity.
  - exists (mkEv DV_ADD 3 0 40 4 (evt s) 1 1). cbn [ea eb]. change (ev_site _ st_signal OFF_EVENT && (1 =? 1)) with true. cbv iota.
    rewrite Z.eqb_refl. eexists; reflexivity.
  - exists (mkEv DV_FUTEX_WAKE 0 0 40 0 1 0 1). change (ev_kind _ DV_FUTEX_WAKE) with true. cbv iota. eexists; reflexivity.
  - exists (mkEv DV_SUB 3 0 48 4 (thrcnt s) 1 1). cbn [ea eb]. change (ev_site _ st_thrcnt OFF_THRCNT && (1 =? 1)) with true. cbv iota.
    rewrite Z.eqb_refl. eexists; reflexivity.
Qed.

(* the thread count dispatch_apply_f hands to the parallel / redirect path is within the hypotheses of the
   protocol and width theorems: 2 <= T <= min(iterations, max parallelism) *)
Lemma thr_cnt_bounds maxpar nested iterations :
  1 <= iterations < 18446744073709551616 -> 0 <= maxpar < 2147483648 -> 0 <= nested < 18446744073709551616 ->
  fst (apply_thr_cnt maxpar nested iterations) <= iterations /\
  (fst (apply_thr_cnt maxpar nested iterations) <= maxpar \/ fst (apply_thr_cnt maxpar nested iterations) <= 1).
Proof.
  intros Hi Hm Hn. unfold apply_thr_cnt. cbn [fst].
  assert (E0 : s32 maxpar = maxpar) by (unfold s32; rewrite Z.mod_small; lia). rewrite E0.
  assert (Eu : u64 maxpar = maxpar) by (apply u64_id; lia). rewrite Eu.
  assert (H1 : exists t1, (if nested =? 0 then maxpar else if nested <? maxpar then s32 (maxpar ÷ s32 nested) else 1) = t1 /\
                          0 <= t1 /\ (t1 <= maxpar \/ t1 <= 1)).
  { destruct (Z.eqb_spec nested 0); [eexists; split; [reflexivity|lia]|].
    destruct (Z.ltb_spec nested maxpar); [|eexists; split; [reflexivity|lia]].
    assert (En : s32 nested = nested) by (unfold s32; rewrite Z.mod_small; lia). rewrite En.
    assert (0 <= maxpar ÷ nested) by (apply Z.quot_pos; lia).
    assert (maxpar ÷ nested <= maxpar) by (apply Z.quot_le_upper_bound; nia).
    eexists; split; [reflexivity|]. unfold s32. rewrite Z.mod_small by lia. lia. }
  destruct H1 as (t1 & -> & P1 & P2).
  assert (E1 : u64 t1 = t1) by (apply u64_id; lia). rewrite E1.
  destruct (Z.ltb_spec iterations t1).
  - assert (Es : s32 iterations = iterations) by (unfold s32; rewrite Z.mod_small; lia). rewrite Es. lia.
  - lia.
Qed.
Theorem path_thread_count iterations nested maxpar w ht os T :
  1 <= iterations < 18446744073709551616 -> 0 <= maxpar < 2147483648 -> 0 <= nested < 18446744073709551616 ->
  (apply_f_path iterations nested maxpar w ht os = PathParallel T \/ apply_f_path iterations nested maxpar w ht os = PathRedirect T) ->
  2 <= T <= iterations /\ T <= maxpar.
Proof.
  intros Hi Hm Hn. pose proof (thr_cnt_bounds maxpar nested iterations Hi Hm Hn) as [B1 B2].
  unfold apply_f_path. destruct (Z.eqb_spec iterations 0); [lia|].
  set (t := fst (apply_thr_cnt maxpar nested iterations)) in *.
  destruct (Z.leb_spec t 1); [rewrite orb_true_r; intros [X|X]; discriminate|]. rewrite orb_false_r.
  destruct (w =? 1); [intros [X|X]; discriminate|].
  destruct ht; [destruct os|]; intros [X|X]; try discriminate; injection X as <-; lia.
Qed.

(* n + T < 2^64 (valid_params) is not implied by dispatch_apply_f's arithmetic alone: T <= min(n, cpus) < 2^31 leaves
   n in (2^64 - 2^31, 2^64) uncovered.  For such n the code's da_index (size_t) would wrap after every index has been
   claimed and one more participant overshoots, and index 0 would be handed out again — after more than 1.8e19 callouts
   have run, which no execution can reach; it is a client-side bound: iterations <= 2^64 - 2^31 *)
Theorem path_valid_params iterations nested maxpar w ht os T :
  1 <= iterations <= 18446744073709551616 - 2147483648 -> 0 <= maxpar < 2147483648 -> 0 <= nested < 18446744073709551616 ->
  (apply_f_path iterations nested maxpar w ht os = PathParallel T \/ apply_f_path iterations nested maxpar w ht os = PathRedirect T) ->
  valid_params iterations T.
Proof.
  intros Hi Hm Hn H. destruct (path_thread_count iterations nested maxpar w ht os T ltac:(lia) Hm Hn H) as [A B].
  unfold valid_params. lia.
Qed.

(* nested applies (the calling thread is inside the work function of an apply whose da_nested is `nested` >= 1):
   the thread count is divided by the product of the iteration counts of the enclosing applies, so that the whole
   nest asks for at most max-parallelism threads; once that product reaches the parallelism the inner apply takes the
   serial path; the new da_nested is the product (no wrap: both factors below 65535) or the cap 65535 *)
Theorem nested_thread_count maxpar nested iterations :
  1 <= iterations < 18446744073709551616 -> 0 <= maxpar < 2147483648 -> 1 <= nested < 18446744073709551616 ->
  let t := fst (apply_thr_cnt maxpar nested iterations) in
  let nn := snd (apply_thr_cnt maxpar nested iterations) in
  (maxpar <= nested -> t = 1) /\ (nested < maxpar -> 1 <= t /\ t * nested <= maxpar) /\
  1 <= nn < 4294967296 /\
  (nested < APPLY_MAX -> iterations < APPLY_MAX -> nn = nested * iterations) /\
  (~ (nested < APPLY_MAX /\ iterations < APPLY_MAX) -> nn = APPLY_MAX).
Proof.
  intros Hi Hm Hn. unfold apply_thr_cnt, APPLY_MAX. cbn [fst snd].
  assert (E0 : s32 maxpar = maxpar) by (unfold s32; rewrite Z.mod_small; lia). rewrite E0.
  assert (Eu : u64 maxpar = maxpar) by (apply u64_id; lia). rewrite Eu.
  destruct (Z.eqb_spec nested 0); [lia|].
  split; [|split; [|split; [|split]]].
  - intros H. destruct (Z.ltb_spec nested maxpar); [lia|]. change (u64 1) with 1.
    destruct (Z.ltb_spec iterations 1); [lia|reflexivity].
  - intros H. destruct (Z.ltb_spec nested maxpar); [|lia].
    assert (En : s32 nested = nested) by (unfold s32; rewrite Z.mod_small; lia). rewrite En.
    assert (Q0 : 1 <= maxpar ÷ nested) by (apply Z.quot_le_lower_bound; lia).
    assert (Q1 : nested * (maxpar ÷ nested) <= maxpar) by (apply Z.mul_quot_le; lia).
    assert (Q2 : maxpar ÷ nested <= maxpar) by (apply Z.quot_le_upper_bound; nia).
    assert (Es : s32 (maxpar ÷ nested) = maxpar ÷ nested) by (unfold s32; rewrite Z.mod_small; lia). rewrite Es.
    rewrite (u64_id (maxpar ÷ nested)) by lia.
    destruct (Z.ltb_spec iterations (maxpar ÷ nested)).
    + assert (Ei : s32 iterations = iterations) by (unfold s32; rewrite Z.mod_small; lia). rewrite Ei. nia.
    + nia.
  - destruct (Z.ltb_spec nested 65535), (Z.ltb_spec iterations 65535); cbn [andb]; try lia.
    rewrite u64_id by nia. nia.
  - intros A B. destruct (Z.ltb_spec nested 65535), (Z.ltb_spec iterations 65535); try lia. cbn [andb]. apply u64_id. nia.
  - intros H. destruct (Z.ltb_spec nested 65535), (Z.ltb_spec iterations 65535); cbn [andb]; try reflexivity. exfalso. apply H. lia.
Qed.

(* ... and then the inner apply runs serially under dispatch_sync_f (the serial fallback of a saturated nest) *)
Theorem nested_serial_fallback iterations nested maxpar w ht os :
  1 <= iterations < 18446744073709551616 -> 0 <= maxpar < 2147483648 -> 1 <= nested < 18446744073709551616 ->
  maxpar <= nested -> apply_f_path iterations nested maxpar w ht os = PathSerial.
Proof.
  intros Hi Hm Hn H. destruct (nested_thread_count maxpar nested iterations Hi Hm Hn) as (A & _).
  unfold apply_f_path. destruct (Z.eqb_spec iterations 0); [lia|]. rewrite (A H). cbn. rewrite orb_true_r. reflexivity.
Qed.
