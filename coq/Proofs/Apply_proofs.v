(* Apply_proofs.v — theorems about Model/Apply.v:
   (1) width reservation of _dispatch_apply_redirect over any chain of queues: balanced, no wrap, helpers = minimum granted;
   (2) _dispatch_apply_serial runs 0..n-1 in order;
   (3) invariants of the _dispatch_apply_invoke2 protocol for any number of helpers and any interleaving. *)
From Coq Require Import ZArith Bool List Lia ZifyBool.
From Verif Require Import Word Bits Conc Gen_consts Gen_fields Gen_apply Apply.
Import ListNotations.
Local Open Scope Z_scope.

(* ================================================================== ties to the generated site lists *)
Lemma sites_invoke2 : model_sites_invoke2 = f_dispatch_apply_invoke2_sites.
Proof. reflexivity. Qed.
Lemma sites_wait_slow : model_sites_wait_slow = f_dispatch_thread_event_wait_slow_sites.
Proof. reflexivity. Qed.
Lemma sites_relinquish : model_sites_relinquish = f_dispatch_queue_relinquish_width_sites.
Proof. reflexivity. Qed.
Lemma reserve_order : f_dispatch_queue_try_reserve_apply_width_order = Relaxed.
Proof. reflexivity. Qed.
(* _dispatch_apply_redirect = reserve loop, relinquish, [push of the helpers], invoke2, final relinquish *)
Definition redirect_push_sites : list site :=     (* autorelease-frequency reads and _dispatch_root_queue_push_inline *)
  [ {| s_kind := KLoad; s_field := F_dq_atomic_flags; s_order := Relaxed |}; {| s_kind := KLoad; s_field := F_dq_atomic_flags; s_order := Relaxed |};
    {| s_kind := KStore; s_field := F_do_next; s_order := Relaxed |}; {| s_kind := KXchg; s_field := F_dq_items_tail; s_order := Release |};
    {| s_kind := KStore; s_field := F_do_next; s_order := Relaxed |}; {| s_kind := KStore; s_field := F_dq_items_head; s_order := Relaxed |} ].
Lemma sites_redirect_shape :
  f_dispatch_apply_redirect_sites =
    f_dispatch_queue_try_reserve_apply_width_sites ++ model_sites_relinquish ++ redirect_push_sites ++ model_sites_invoke2 ++ model_sites_relinquish.
Proof. reflexivity. Qed.

(* ================================================================== 1. width *)
Definition I := 2199023255552.
Definition W64 := 18446744073709551616.
Definition wf (l : level) : Prop := 0 <= lv_state l < W64.

Section WidthBits.
Local Ltac Zify.zify_post_hook ::= Z.div_mod_to_equations.

(* interface lemma about the generated _dq_state_available_width: it is in [0, 4096] and adding that many width
   units never carries out of the 64-bit word *)
Lemma avail_spec s : 0 <= s < W64 ->
  0 <= f_dq_state_available_width s <= 4096 /\ s + f_dq_state_available_width s * I < W64.
Proof.
  unfold W64, I. intros Hs. unfold f_dq_state_available_width, f_dq_state_extract_width_bits.
  change 9007199254740992 with (2 ^ 53). rewrite (land_bit s 53) by lia.
  rewrite (land_mask s 18012199486226432 13 41) by (lia || reflexivity).
  rewrite Z.shiftr_div_pow2 by lia. rewrite Z.div_mul by lia.
  change (2 ^ 53) with 9007199254740992. change (2 ^ 41) with 2199023255552. change (2 ^ 13) with 8192.
  unfold nz. destruct (Z.eqb_spec ((s / 9007199254740992) mod 2 * 9007199254740992) 0) as [E|E]; cbn [negb].
  - unfold s32. lia.
  - lia.
Qed.
End WidthBits.

Lemma avail_level l : wf l -> 0 <= avail l <= 4096 /\ lv_state l + avail l * I < W64.
Proof.
  intros H. unfold avail. destruct (lv_width l =? 1).
  - unfold wf in H. lia.
  - apply avail_spec. exact H.
Qed.

Lemma add_width_0 l : add_width 0 l = l.
Proof. destruct l. unfold add_width. cbn. f_equal. lia. Qed.

(* what one reservation does, for every 64-bit state word *)
Lemma try_reserve_spec k l dw : wf l -> 1 <= dw < 2147483648 ->
  snd (fst (try_reserve k l dw)) = Z.min dw (avail l) /\
  fst (fst (try_reserve k l dw)) = add_width (Z.min dw (avail l)) l.
Proof.
  intros Hw Hd. pose proof (avail_level l Hw) as [Ha Hb]. unfold avail in *.
  unfold try_reserve, f_dispatch_queue_try_reserve_apply_width.
  destruct (Z.eqb_spec (lv_width l) 1) as [E1|E1]; cbn [negb].
  - cbn. rewrite Z.min_r by lia. rewrite add_width_0. split; reflexivity.
  - set (a := f_dq_state_available_width (lv_state l)) in *.
    unfold nz. destruct (Z.eqb_spec a 0) as [E0|E0]; cbn [negb].
    + cbn. rewrite E0. rewrite Z.min_r by lia. rewrite add_width_0. split; reflexivity.
    + cbv zeta. unfold wf, W64, I in *.
      destruct (Z.gtb_spec a dw) as [G|G]; cbn [fst snd].
      * rewrite Z.min_l by lia. split; [reflexivity|]. unfold add_width, WIDTH_INTERVAL, DISPATCH_QUEUE_WIDTH_INTERVAL. f_equal.
        rewrite (u64_id dw) by lia. rewrite (u64_id (dw * _)) by lia. apply u64_id. lia.
      * rewrite Z.min_r by lia. split; [reflexivity|]. unfold add_width, WIDTH_INTERVAL, DISPATCH_QUEUE_WIDTH_INTERVAL. f_equal.
        rewrite (u64_id a) by lia. rewrite (u64_id (a * _)) by lia. apply u64_id. lia.
Qed.

(* giving back dw - w units of a queue that holds dw leaves it holding w: exact, no wrap *)
Lemma relinq_add l0 dw w : wf l0 -> lv_state l0 + dw * I < W64 -> 0 <= w <= dw -> dw < 2147483648 ->
  relinq1 (s32 (dw - w)) (add_width dw l0) = add_width w l0.
Proof.
  unfold wf, W64, I. intros H0 H1 Hw Hd.
  assert (Es : s32 (dw - w) = dw - w) by (unfold s32; rewrite Z.mod_small; lia).
  rewrite Es. unfold relinq1, relinq_delta, add_width, WIDTH_INTERVAL, DISPATCH_QUEUE_WIDTH_INTERVAL. cbn [lv_width lv_state]. f_equal.
  rewrite (u64_id (dw - w)) by lia. rewrite (u64_id ((dw - w) * _)) by lia. rewrite u64_id by lia. lia.
Qed.
Lemma relinq_add0 l0 m : wf l0 -> lv_state l0 + m * I < W64 -> 0 <= m < 2147483648 ->
  relinq1 m (add_width m l0) = l0.
Proof.
  intros. pose proof (relinq_add l0 m 0 H H0 ltac:(lia) ltac:(lia)) as E.
  replace (s32 (m - 0)) with m in E by (unfold s32; rewrite Z.mod_small; lia). rewrite E. apply add_width_0.
Qed.

Lemma min_avail_cons l rest w : min_avail (l :: rest) w = min_avail rest (Z.min w (avail l)).
Proof. reflexivity. Qed.
Lemma min_avail_zero rest : Forall wf rest -> min_avail rest 0 = 0.
Proof.
  induction 1 as [|l rest Hl _ IH]; [reflexivity|]. rewrite min_avail_cons.
  pose proof (avail_level l Hl). rewrite Z.min_l by lia. exact IH.
Qed.
Lemma min_avail_bounds rest : forall w, Forall wf rest -> 0 <= w ->
  0 <= min_avail rest w <= w /\ Forall (fun l => min_avail rest w <= avail l) rest.
Proof.
  induction rest as [|l rest IH]; intros w Hf Hw.
  - cbn. split; [lia|constructor].
  - inversion Hf as [|? ? Hl Hr]; subst. rewrite min_avail_cons. pose proof (avail_level l Hl) as [Ha _].
    destruct (IH (Z.min w (avail l)) Hr ltac:(lia)) as [B F]. split; [lia|].
    constructor; [lia|exact F].
Qed.

Lemma map_relinq_add above0 dw w : Forall wf above0 -> Forall (fun l0 => lv_state l0 + dw * I < W64) above0 ->
  0 <= w <= dw -> dw < 2147483648 ->
  map (relinq1 (s32 (dw - w))) (map (add_width dw) above0) = map (add_width w) above0.
Proof.
  intros Hf Hb Hw Hd. rewrite map_map. apply map_ext_in. intros l0 Hin.
  rewrite Forall_forall in Hf, Hb. apply relinq_add; auto.
Qed.

Lemma loop_spec : forall rest above0 dw log,
  Forall wf rest -> Forall wf above0 ->
  Forall (fun l0 => lv_state l0 + dw * I < W64) above0 ->
  1 <= dw < 2147483648 ->
  let r := redirect_loop (map (add_width dw) above0) rest dw (dw + 1) log in
  let m := min_avail rest dw in
  (m = 0 -> r_serial r = true /\ r_chain r = above0 ++ rest) /\
  (m <> 0 -> r_serial r = false /\ r_width r = m /\ r_thr r = m + 1 /\ r_chain r = map (add_width m) (above0 ++ rest) /\
             Forall (fun l0 => lv_state l0 + m * I < W64) (above0 ++ rest)).
Proof.
  induction rest as [|l rest IH]; intros above0 dw log Hr Ha Hb Hd; cbv zeta.
  - cbn [redirect_loop min_avail fold_left r_serial r_chain r_width r_thr]. rewrite app_nil_r. split; [lia|].
    intros _. repeat split; auto.
  - inversion Hr as [|? ? Hl Hr']; subst.
    cbn [redirect_loop]. cbv zeta.
    destruct (try_reserve_spec (Z.of_nat (length (map (add_width dw) above0))) l dw Hl Hd) as [Ew El].
    rewrite Ew, El. rewrite min_avail_cons.
    pose proof (avail_level l Hl) as [Hav Hno].
    set (w := Z.min dw (avail l)) in *.
    assert (Hw : 0 <= w <= dw) by (unfold w; lia).
    assert (Hlw : lv_state l + w * I < W64) by (unfold w, I, W64 in *; nia).
    destruct (Z.gtb_spec dw w) as [G|G].
    + rewrite (map_relinq_add above0 dw w Ha Hb Hw) by lia.
      destruct (Z.eqb_spec w 0) as [E0|E0].
      * rewrite E0. rewrite (min_avail_zero rest Hr').
        cbn [r_serial r_chain]. split; [|lia]. intros _. split; [reflexivity|].
        rewrite add_width_0. f_equal.
        rewrite <- (map_id above0) at 2. apply map_ext. intros a. apply add_width_0.
      * assert (Es : s32 (dw + 1 - s32 (dw - w)) = w + 1).
        { assert (E1 : s32 (dw - w) = dw - w) by (unfold s32; rewrite Z.mod_small; lia). rewrite E1.
          unfold s32. rewrite Z.mod_small; lia. }
        rewrite Es.
        replace (map (add_width w) above0 ++ [add_width w l]) with (map (add_width w) (above0 ++ [l])) by (rewrite map_app; reflexivity).
        assert (Ha' : Forall wf (above0 ++ [l])) by (apply Forall_app; split; [exact Ha|constructor; [exact Hl|constructor]]).
        assert (Hb' : Forall (fun l0 => lv_state l0 + w * I < W64) (above0 ++ [l])).
        { apply Forall_app; split; [|constructor; [exact Hlw|constructor]].
          rewrite Forall_forall in *. intros x Hx. specialize (Hb x Hx). specialize (Ha x Hx). unfold wf, I, W64 in *. nia. }
        specialize (IH (above0 ++ [l]) w (log ++ snd (try_reserve (Z.of_nat (length (map (add_width dw) above0))) l dw) ++
                                          relinq_log 0 (s32 (dw - w)) (map (add_width dw) above0)) Hr' Ha' Hb' ltac:(lia)).
        cbv zeta in IH. rewrite <- !app_assoc in IH. cbn [app] in IH. exact IH.
    + assert (Ewd : w = dw) by lia. rewrite Ewd.
      replace (map (add_width dw) above0 ++ [add_width dw l]) with (map (add_width dw) (above0 ++ [l])) by (rewrite map_app; reflexivity).
      assert (Ha' : Forall wf (above0 ++ [l])) by (apply Forall_app; split; [exact Ha|constructor; [exact Hl|constructor]]).
      assert (Hb' : Forall (fun l0 => lv_state l0 + dw * I < W64) (above0 ++ [l])).
      { apply Forall_app; split; [exact Hb|constructor; [rewrite <- Ewd; exact Hlw|constructor]]. }
      specialize (IH (above0 ++ [l]) dw (log ++ snd (try_reserve (Z.of_nat (length (map (add_width dw) above0))) l dw)) Hr' Ha' Hb' Hd).
      cbv zeta in IH. rewrite <- !app_assoc in IH. cbn [app] in IH. exact IH.
Qed.

(* the theorem: for every chain, every availability vector and every thread count *)
Theorem width_balanced chain thr : Forall wf chain -> 2 <= thr < 2147483648 ->
  let r := redirect_during chain thr in
  let m := min_avail chain (thr - 1) in
  0 <= m <= thr - 1 /\ Forall (fun l => m <= avail l) chain /\
  (m = 0 -> r_serial r = true /\ r_chain r = chain /\ fst (redirect_after r) = chain) /\
  (m <> 0 -> r_serial r = false /\ r_width r = m /\ r_thr r = m + 1 /\
             r_chain r = map (add_width m) chain /\ Forall (fun l => lv_state l + m * I < W64) chain /\
             fst (redirect_after r) = chain).
Proof.
  intros Hf Ht. cbv zeta. unfold redirect_during.
  assert (Es : s32 (thr - 1) = thr - 1) by (unfold s32; rewrite Z.mod_small; lia). rewrite Es.
  destruct (min_avail_bounds chain (thr - 1) Hf ltac:(lia)) as [B F].
  pose proof (loop_spec chain [] (thr - 1) [] Hf (Forall_nil _) (Forall_nil _) ltac:(lia)) as L.
  cbv zeta in L. cbn [map app] in L. replace (thr - 1 + 1) with thr in L by lia.
  destruct L as [L0 L1]. split; [exact B|]. split; [exact F|]. split.
  - intros E. destruct (L0 E) as [S C]. repeat split; auto. unfold redirect_after. rewrite S. exact C.
  - intros E. destruct (L1 E) as (S & Wd & Th & C & Nf). repeat split; auto.
    unfold redirect_after. rewrite S, Wd, C. cbn [fst]. rewrite map_map.
    rewrite <- (map_id chain) at 2. apply map_ext_in. intros l Hin.
    rewrite Forall_forall in Hf, Nf. apply relinq_add0; auto. lia.
Qed.

(* ================================================================== 2. serial *)
Lemma serial_loop_spec : forall f idx iter, (0 < f)%nat -> 0 <= idx -> idx + Z.of_nat f = iter -> iter < W64 ->
  serial_loop f idx iter = zrange idx f.
Proof.
  unfold W64. induction f as [|f IH]; intros idx iter Hf Hi He Hb; [lia|].
  cbn [serial_loop zrange]. f_equal.
  rewrite (u64_id (idx + 1)) by lia.
  destruct f as [|f'].
  - destruct (Z.ltb_spec (idx + 1) iter); [lia|reflexivity].
  - destruct (Z.ltb_spec (idx + 1) iter); [|lia]. apply IH; lia.
Qed.
Theorem serial_in_order n : 1 <= n < W64 -> apply_serial n = zrange 0 (Z.to_nat n).
Proof. intros H. unfold apply_serial. apply serial_loop_spec; lia. Qed.
Lemma zrange_nth : forall len start k, (k < len)%nat -> nth k (zrange start len) (-1) = start + Z.of_nat k.
Proof.
  induction len as [|len IH]; intros start k Hk; [lia|]. destruct k as [|k]; cbn [zrange nth]; [lia|].
  rewrite IH by lia. lia.
Qed.
Lemma zrange_length : forall len start, length (zrange start len) = len.
Proof. induction len; intros; cbn; auto. Qed.

(* ================================================================== 3. _dispatch_apply_invoke2: invariants *)
Ltac sp := cbn [index todo thrcnt evt pcs parts slp owner begun ended signaller sigd waited freed uaf dcbad returned
                set_pc touch set_parts set_index set_begun set_ended set_todo set_evt set_slp set_thrcnt set_returned] in *.

(* ---- sums over the participants ---- *)
Lemma lsum_nonneg f l : (forall u, In u l -> 0 <= f u) -> 0 <= lsum f l.
Proof. induction l as [|x l IH]; intros H; cbn; [lia|]. pose proof (H x (or_introl eq_refl)). assert (0 <= lsum f l) by (apply IH; intros; apply H; right; auto). lia. Qed.
Lemma lsum_le_len f l : (forall u, In u l -> f u <= 1) -> lsum f l <= Z.of_nat (length l).
Proof. induction l as [|x l IH]; intros H; cbn [lsum length]; [lia|]. pose proof (H x (or_introl eq_refl)). assert (lsum f l <= Z.of_nat (length l)) by (apply IH; intros; apply H; right; auto). lia. Qed.
Lemma lsum_ge_term f l t : In t l -> (forall u, In u l -> 0 <= f u) -> f t <= lsum f l.
Proof.
  induction l as [|x l IH]; intros Hin H; [contradiction|]. cbn [lsum].
  assert (0 <= lsum f l) by (apply lsum_nonneg; intros; apply H; right; auto).
  pose proof (H x (or_introl eq_refl)).
  destruct Hin as [->|Hin]; [lia|]. assert (f t <= lsum f l) by (apply IH; auto; intros; apply H; right; auto). lia.
Qed.
Lemma lsum_pos_exists f l : 0 < lsum f l -> exists u, In u l /\ 0 < f u.
Proof.
  induction l as [|x l IH]; cbn [lsum]; intros H; [lia|].
  destruct (Z.ltb_spec 0 (f x)); [exists x; split; [left; reflexivity|assumption]|].
  destruct IH as (u & Hu & Hp); [lia|]. exists u. split; [right; assumption|assumption].
Qed.
Lemma lsum_ext f g l : (forall u, In u l -> f u = g u) -> lsum f l = lsum g l.
Proof. induction l as [|x l IH]; intros H; cbn [lsum]; [reflexivity|]. rewrite (H x (or_introl eq_refl)), IH; auto. intros; apply H; right; auto. Qed.
Lemma lsum_upd_notin (g : pc -> Z) (f : Z -> pc) t p l : ~ In t l ->
  lsum (fun u => g (upd f t p u)) l = lsum (fun u => g (f u)) l.
Proof. intros H. apply lsum_ext. intros u Hu. rewrite upd_other; [reflexivity|]. intros ->. contradiction. Qed.
Lemma lsum_upd_in (g : pc -> Z) (f : Z -> pc) t p l : NoDup l -> In t l ->
  lsum (fun u => g (upd f t p u)) l = lsum (fun u => g (f u)) l - g (f t) + g p.
Proof.
  induction l as [|x l IH]; intros Hn Hin; [contradiction|]. inversion Hn as [|? ? Hx Hn']; subst. cbn [lsum].
  destruct Hin as [->|Hin].
  - rewrite upd_same. rewrite lsum_upd_notin by exact Hx. lia.
  - rewrite upd_other by (intros ->; contradiction). rewrite IH by assumption. lia.
Qed.

Section Invoke.
Variables (n T c : Z).
Hypothesis VP : valid_params n T.
Notation gstep := (gstep n T c).
Notation reach := (reach n T c).

Definition evt_enc (sd wt : bool) : Z :=
  match sd, wt with false, false => 0 | true, false => 1 | false, true => UMAX32 | true, true => 0 end.
Definition claimed (s : gst) : Z := Z.min (index s) n.
(* the values begun / ended must have for an index whose owner stands at p *)
Definition bval (p : pc) (i : Z) : Z := match p with PCall j _ => if j =? i then 0 else 1 | _ => 1 end.
Definition eval_ (p : pc) (i : Z) : Z := match p with PCall j _ | PInCall j _ => if j =? i then 0 else 1 | _ => 1 end.

Definition index_inv (s : gst) (i : Z) : Prop :=
  if (0 <=? i) && (i <? claimed s)
  then exists t, owner s i = Some t /\ begun s i = bval (pcs s t) i /\ ended s i = eval_ (pcs s t) i
  else owner s i = None /\ begun s i = 0 /\ ended s i = 0.

Definition at_pc (s : gst) (t : Z) : Prop :=
  match pcs s t with
  | PCall i d | PInCall i d => 0 <= i < n /\ i < index s /\ owner s i = Some t /\ 0 <= d
  | PNext d | PSub d => 1 <= d
  | PSignal => signaller s = Some t /\ sigd s = false
  | PWake => signaller s = Some t
  | PWaitDec | PWaitLoad | PWaitFutex | PWaitSleep | PRet => t = c
  | PCrash => False
  | _ => True
  end.
Definition thread_inv (s : gst) (t : Z) : Prop :=
  at_pc s t /\ (over (pcs s t) = 1 -> n <= index s) /\ (pcs s t <> PIdle <-> In t (parts s)).

Definition past_wait (p : pc) : bool :=
  match p with PWaitLoad | PWaitFutex | PWaitSleep | PDec | PDone | PRet => true | _ => false end.
Definition past_event (p : pc) : bool := match p with PDec | PDone | PRet => true | _ => false end.

Record Ginv (s : gst) : Prop := mkGinv {
  g_idx0 : 0 <= index s;
  g_idx1 : index s <= n + psum over s;
  g_todo : todo s = n - claimed s + psum pending s;
  g_todo_le : todo s <= n;
  g_thr : thrcnt s = T - Z.of_nat (length (parts s)) + psum holds s;
  g_nodup : NoDup (parts s);
  g_len : Z.of_nat (length (parts s)) <= T;
  g_inc : In c (parts s);
  g_evt : evt s = evt_enc (sigd s) (waited s);
  g_sig : match signaller s with
          | None => 0 < todo s /\ sigd s = false
          | Some g => todo s = 0 /\ (sigd s = false <-> pcs s g = PSignal)
          end;
  g_freed : freed s = (if thrcnt s =? 0 then 1 else 0);
  g_uaf : uaf s = false;
  g_dcbad : dcbad s = false;
  g_waited : waited s = past_wait (pcs s c);
  g_csig : past_event (pcs s c) = true -> sigd s = true;
  g_ret : returned s = (match pcs s c with PRet => true | _ => false end);
  g_slp : slp s = Sleeping ->
          pcs s c = PWaitSleep /\ (sigd s = false \/ exists g, signaller s = Some g /\ pcs s g = PWake)
}.

Definition Inv (s : gst) : Prop := Ginv s /\ (forall t, thread_inv s t) /\ (forall i, index_inv s i).

Lemma params : 1 <= n /\ 1 <= T < 2147483648 /\ n + T < 18446744073709551616.
Proof. exact VP. Qed.

Lemma Inv_init : Inv (init_state n T c).
Proof.
  pose proof params as (Hn & HT & HnT).
  unfold Inv, init_state. split; [|split].
  - constructor; sp; unfold psum, claimed; sp; cbn [lsum length]; rewrite ?upd_same; cbn [over pending holds past_wait past_event];
      try lia; try reflexivity; try discriminate.
    + constructor; [intros []|constructor].
    + left; reflexivity.
  - intros t. unfold thread_inv, at_pc; sp. destruct (Z.eq_dec t c) as [->|Ne].
    + rewrite upd_same. cbn. repeat split; try discriminate; auto. intros _. discriminate.
    + rewrite upd_other by exact Ne. cbn. repeat split; try discriminate; auto.
      * intros H; contradiction.
      * intros [H|[]]. congruence.
  - intros i. unfold index_inv, claimed; sp. rewrite Z.min_l by lia.
    destruct (Z.leb_spec 0 i), (Z.ltb_spec i 0); cbn; auto; lia.
Qed.

(* ---- consequences of the invariant used in the step proof ---- *)
Lemma pending_nonneg s u : thread_inv s u -> 0 <= pending (pcs s u).
Proof. intros (A & _ & _). unfold at_pc in A. destruct (pcs s u); cbn; lia. Qed.
Lemma over_range p : 0 <= over p <= 1. Proof. destruct p; cbn; lia. Qed.
Lemma holds_range p : 0 <= holds p <= 1. Proof. destruct p; cbn; lia. Qed.

Lemma psum_pending_ge s t : (forall u, thread_inv s u) -> In t (parts s) -> pending (pcs s t) <= psum pending s.
Proof. intros HT Hin. unfold psum. apply (lsum_ge_term (fun u => pending (pcs s u))); [exact Hin|]. intros u _. apply pending_nonneg, HT. Qed.
Lemma psum_pending_nonneg s : (forall u, thread_inv s u) -> 0 <= psum pending s.
Proof. intros HT. unfold psum. apply lsum_nonneg. intros u _. apply pending_nonneg, HT. Qed.
Lemma psum_over_le s : 0 <= psum over s <= Z.of_nat (length (parts s)).
Proof. unfold psum. split; [apply lsum_nonneg|apply lsum_le_len]; intros u _; apply over_range. Qed.
Lemma psum_holds_le s : 0 <= psum holds s <= Z.of_nat (length (parts s)).
Proof. unfold psum. split; [apply lsum_nonneg|apply lsum_le_len]; intros u _; apply holds_range. Qed.
Lemma psum_holds_ge s t : In t (parts s) -> holds (pcs s t) <= psum holds s.
Proof. intros Hin. unfold psum. apply (lsum_ge_term (fun u => holds (pcs s u))); [exact Hin|]. intros u _. apply holds_range. Qed.

(* a participant that is inside invoke2 keeps the record alive *)
Lemma alive s t : Ginv s -> (forall u, thread_inv s u) -> holds (pcs s t) = 1 -> 1 <= thrcnt s /\ freed s = 0 /\ (0 <? freed s) = false.
Proof.
  intros G HT Hh. assert (Hin : In t (parts s)).
  { apply (HT t). intros E. rewrite E in Hh. discriminate. }
  pose proof (psum_holds_ge s t Hin). pose proof (g_thr s G). pose proof (g_len s G).
  assert (1 <= thrcnt s) by lia. pose proof (g_freed s G) as F.
  destruct (Z.eqb_spec (thrcnt s) 0); [lia|]. rewrite F. auto.
Qed.
Lemma index_small s : Ginv s -> index s + 1 < 18446744073709551616.
Proof. intros G. pose proof params. pose proof (g_idx1 s G). pose proof (psum_over_le s). pose proof (g_len s G). lia. Qed.
(* while some participant still owes a subtraction, nobody has signalled and the caller has not returned *)
Lemma owes_not_done s t : Ginv s -> (forall u, thread_inv s u) -> In t (parts s) -> 1 <= pending (pcs s t) ->
  signaller s = None /\ sigd s = false /\ returned s = false /\ 1 <= todo s.
Proof.
  intros G HT Hin Hp. pose proof (psum_pending_ge s t HT Hin). pose proof (g_todo s G).
  assert (claimed s <= n) by (unfold claimed; lia).
  assert (Ht : 1 <= todo s) by lia.
  pose proof (g_sig s G) as S. destruct (signaller s) as [g|]; [lia|]. destruct S as [_ Sd].
  repeat split; auto. rewrite (g_ret s G). pose proof (g_csig s G) as C.
  destruct (pcs s c); try reflexivity. cbn in C. rewrite Sd in C. discriminate C. reflexivity.
Qed.
