(* SrcLifeR_proofs.v — (1) the state the global replay (Model/SrcLifeR.v) reports and judges is a reachable state of
   SrcLife, whatever the scheduler did with whatever input: it is obtained by running the list of model acts with
   SrcLife.grun from the initial state.  So a recorded round that the scheduler consumes entirely IS a run of SrcLife with
   the recorded outcomes, and SrcLife's theorems apply to it.  (2) the boolean invariant inv_b evaluated on that state is
   true on every reachable state (it is the invariant of Proofs/SrcLife_proofs.v, reflected). *)
From Coq Require Import ZArith Bool List Lia.
From Verif Require Import Word Conc Gen_consts Gen_srclife SrcLife SrcLife_phase_proofs SrcLife_proofs SrcLifeR.
Import ListNotations.
Local Open Scope Z_scope.

Lemma grun_reach k ev ca rg : forall tr g g', reach k ev ca rg g -> grun g tr = Some g' -> reach k ev ca rg g'.
Proof.
  induction tr as [|[t a] tr IH]; intros g g' R H; cbn [grun] in H.
  - injection H as <-. exact R.
  - destruct (gstep g t a) as [[g1 acts]|] eqn:E; [|discriminate].
    apply (IH g1 g'); [|exact H]. apply (reach_step _ _ g (t, a) g1 R). exists acts. exact E.
Qed.

Theorem replay_reach k ev ca rg ts ord g :
  replay_state k ev ca rg ts ord = Some g -> reach k ev ca rg g.
Proof. unfold replay_state. apply grun_reach. apply reach_init. reflexivity. Qed.

(* ------------------------------------------------------------------ inv_b *)
Lemma implb'_true (a b : bool) : (a = true -> b = true) -> implb' a b = true.
Proof. unfold implb'. destruct a; cbn; auto. Qed.
Lemma and3 (a b : bool) : a = true -> b = true -> a && b = true.
Proof. intros -> ->. reflexivity. Qed.

Lemma sinv_b_sound k s : Sinv k s -> sinv_b k s = true.
Proof.
  intros (S1 & S2 & S3 & S4 & S5 & S6 & S7). unfold sinv_b.
  repeat apply and3; apply implb'_true; intros X.
  - destruct (S1 X) as (A & B & C & D & E). rewrite A, B, C, D, E. reflexivity.
  - auto.
  - apply S3. apply orb_true_iff in X. exact X.
  - auto.
  - auto.
  - rewrite (S6 X). reflexivity.
  - auto.
Qed.

Opaque sinv_b implb'.

Lemma ginv_b_sound g : GInv g -> ginv_b g = true.
Proof.
  intros (HA & HB & HC & HD & HE).
  destruct HA as (HA1 & HA2 & HA3 & HA4 & HA5 & HA6 & HA7).
  destruct HB as (HB1 & HB2 & HB3 & HB4 & HB5 & HB6).
  destruct HC as (HC1 & HC2 & HC3).
  destruct HD as (HD1 & HD2 & HD3 & HD4).
  unfold ginv_b. cbv zeta.
  repeat apply and3.
  - apply sinv_b_sound. exact HA1.
  - apply implb'_true. exact HA2.
  - apply implb'_true. intros X. apply HA3. destruct (owner g); [discriminate | discriminate X].
  - destruct (owner g) eqn:Ow; cbn.
    + destruct (o_pc g) eqn:Pc; cbn; try reflexivity. destruct HA4 as [_ Y]. discriminate (Y eq_refl).
    + destruct HA4 as [Y _]. rewrite (Y eq_refl). reflexivity.
  - apply implb'_true. exact HA5.
  - apply implb'_true. exact HA6.
  - apply implb'_true. intros X. destruct (HA7 X) as [A B]. rewrite A, B. reflexivity.
  - apply Z.leb_le. lia.
  - apply Z.leb_le. lia.
  - apply implb'_true. intros X. destruct (HB2 X) as [A B]. rewrite A, B. reflexivity.
  - apply implb'_true. intros X. apply andb_true_iff in X as [X1 X2]. apply negb_true_iff in X1.
    destruct (HB3 X1 X2) as [A|A]; rewrite A; [reflexivity | apply orb_true_r].
  - apply implb'_true. intros X. apply negb_true_iff in X. destruct (HB4 X) as [A B]. rewrite A, B. reflexivity.
  - apply implb'_true. intros X. apply Z.leb_le in X. destruct (HB5 X) as [A B]. rewrite A, B. reflexivity.
  - apply implb'_true. intros X. destruct (HB6 X) as [A B]. rewrite A, B. reflexivity.
  - apply Z.leb_le. lia.
  - apply Z.leb_le. lia.
  - apply implb'_true. intros X. apply Z.leb_le in X. destruct (HC2 X) as [A B]. rewrite A, B. reflexivity.
  - apply implb'_true. intros X. assert (P : o_pc g = OLatch) by (destruct (o_pc g); try discriminate; reflexivity).
    destruct (HC3 P) as (A & B & C & D). rewrite A, B, C. cbn. apply implb'_true. intros Y. rewrite (D Y). reflexivity.
  - apply implb'_true. exact HD1.
  - apply implb'_true. exact HD2.
  - apply implb'_true. exact HD3.
  - apply implb'_true. intros X. assert (P : o_pc g = OP3) by (destruct (o_pc g); try discriminate; reflexivity).
    rewrite (HD4 P). destruct (deleted (fl (g_s g))); reflexivity.
  - rewrite HE. reflexivity.
Qed.

Lemma hinv_b_sound g : HInv g -> hinv_b g = true.
Proof.
  intros (H1 & H2 & _ & H4). unfold hinv_b. repeat apply and3; apply implb'_true.
  - intros X. destruct (H1 X) as (A & B). apply and3.
    + destruct (owner g); [rewrite A; reflexivity | reflexivity].
    + destruct B as [B|[B1 B2]]; [rewrite B; reflexivity | rewrite B1, B2; apply orb_true_r].
  - exact H2.
  - exact H4.
Qed.

Lemma tinv_b_sound g t : TInv g t -> HInv g -> tinv_b g t = true.
Proof.
  intros (T1 & T2 & T3 & T4 & T5 & T6) (_ & _ & H3 & _). unfold tinv_b. cbv zeta. repeat apply and3.
  - apply implb'_true. intros X. assert (N : cpc g t <> CIdle) by (intros E; rewrite E in X; discriminate).
    destruct (T1 N) as [A B]. rewrite A, B. reflexivity.
  - destruct (cpc g t) as [ | o n | | | d | d | | ] eqn:Ec; try reflexivity.
    + apply and3; apply implb'_true.
      * apply (T2 o n eq_refl).
      * intros X. apply andb_true_iff in X as [X1 X2]. apply negb_true_iff in X1, X2. apply (H3 t o n Ec X1 X2).
    + apply implb'_true. apply (T3 d eq_refl).
    + destruct (T4 d eq_refl) as [A B]. rewrite A, B. reflexivity.
    + apply T5. reflexivity.
  - apply implb'_true. intros X. destruct (T6 X) as (A & B & C). rewrite A, B, C. reflexivity.
Qed.

Opaque ginv_b hinv_b tinv_b.

Theorem inv_b_sound k ev ca rg g tids : reach k ev ca rg g -> inv_b tids g = true.
Proof.
  intros R. destruct (Inv2_reach k ev ca rg g R) as [[HG HT] HH]. unfold inv_b. repeat apply and3.
  - apply ginv_b_sound. exact HG.
  - apply hinv_b_sound. exact HH.
  - apply forallb_forall. intros t _. apply tinv_b_sound; [apply HT | exact HH].
Qed.

(* what the checker relies on: the state judged is reachable, hence inv_b must be true on it; a false inv_b on a replayed
   round would contradict the invariant theorem, not the library *)
Corollary replay_inv_b k ev ca rg ts ord g tids :
  replay_state k ev ca rg ts ord = Some g -> inv_b tids g = true.
Proof. intros H. eapply inv_b_sound. eapply replay_reach. exact H. Qed.
