(* MainQ_steps3.v — the steps of threads that run ordinary lane code (main-queue program point MIdle): every such
   step is SLane.gstep / SLane.ostep / SLane.begin on the lane component.  Once the lane is released they are covered by
   SLane_proofs.step_preserves; before that only the wakeup program points can occur (nobody holds the token). *)
From Coq Require Import ZArith Bool List Lia.
From Verif Require Import Word Bits Fields DqFields Conc Gen_consts Gen_dqstate Lane_fields SLane SLane_proofs SLane_progress
  MainQ MainQ_fields MainQ_inv MainQ_frames MainQ_steps1 MainQ_steps2.
Import ListNotations.
Local Open Scope Z_scope.

Ltac break_step B :=
  repeat match type of B with
  | match ?x with _ => _ end = Some _ => let E := fresh "E" in destruct x eqn:E; try discriminate B
  | (if ?x then _ else _) = Some _ => let E := fresh "E" in destruct x eqn:E; try discriminate B
  | Some (if ?x then _ else _) = Some _ => let E := fresh "E" in destruct x eqn:E
  | Some (match ?x with _ => _ end) = Some _ => let E := fresh "E" in destruct x eqn:E
  end.

(* what one lane step of a thread that is not pushing can do to the fields the main-queue invariant looks at *)
Lemma gstep_facts l t l' :
  gstep l t = Some l' -> lane_ok MIdle (pcs l t) = true ->
  nextid l' = nextid l /\ incl (started l) (started l') /\ (forall u, u <> t -> pcs l' u = pcs l u) /\
  lane_ok MIdle (pcs l' t) = true.
Proof.
  intros B Hk. unfold gstep in B. destruct (pcs l t) eqn:Hpc; try discriminate; cbn [lane_ok] in Hk; try discriminate Hk;
    break_step B; injection B as <-; lproj;
    (split; [reflexivity|]; split; [try apply incl_refl; try (apply incl_tl; apply incl_refl)|];
     split; [intros u N; apply upd_other; exact N |
             rewrite upd_same; try reflexivity;
             repeat match goal with |- context [match ?x with _ => _ end] => destruct x end; reflexivity]).
Qed.

Lemma begin_worker_facts l t fl l' :
  begin l t (CWorker fl) = Some l' ->
  nextid l' = nextid l /\ started l' = started l /\ (forall u, u <> t -> pcs l' u = pcs l u) /\ pcs l' t = PW_lock fl.
Proof.
  intros B. unfold begin in B. destruct (pcs l t); try discriminate. destruct (0 <? rootq l); [|discriminate].
  injection B as <-. lproj. split; [reflexivity|]. split; [reflexivity|]. split; [intros u N; apply upd_other; exact N | apply upd_same].
Qed.

(* ------------------------------------------------------------------ after the lane is released *)
Lemma lane_pending_incl l l' :
  SLane_proofs.Inv l -> SLane_proofs.Inv l' -> nextid l' = nextid l -> incl (started l) (started l') ->
  forall i, In i (inflight l' ++ map e_id (lst l')) -> In i (inflight l ++ map e_id (lst l)).
Proof.
  intros [[r G] _] [[r' G'] _] En Is i Hi.
  pose proof (g_order l r G) as O. pose proof (g_order l' r' G') as O'. rewrite En in O'.
  assert (Hz : In i (zrange (nextid l))) by (rewrite <- O'; apply in_or_app; right; exact Hi).
  rewrite <- O in Hz. apply in_app_or in Hz. destruct Hz as [Hz|Hz]; [|exact Hz].
  exfalso. apply (in_started_not_pending _ _ _ i O'); [|exact Hi].
  apply in_rev in Hz. apply in_rev. rewrite rev_involutive. apply Is. exact Hz.
Qed.

Lemma lane_started_new l l' :
  SLane_proofs.Inv l -> SLane_proofs.Inv l' -> nextid l' = nextid l ->
  forall i, In i (started l') -> In i (started l) \/ In i (inflight l ++ map e_id (lst l)).
Proof.
  intros [[r G] _] [[r' G'] _] En i Hi.
  pose proof (g_order l r G) as O. pose proof (g_order l' r' G') as O'. rewrite En in O'.
  assert (Hz : In i (zrange (nextid l))) by (rewrite <- O'; apply in_or_app; left; apply in_rev in Hi; exact Hi).
  rewrite <- O in Hz. apply in_app_or in Hz. destruct Hz as [Hz|Hz]; [left; apply in_rev; exact Hz | right; exact Hz].
Qed.

Lemma Inv_lane_replaced s t l' :
  Inv s -> c_lane (mcl s) = true -> mpcs s t = MIdle ->
  SLane_proofs.Inv l' -> nextid l' = nextid (lane s) -> incl (started (lane s)) (started l') ->
  (forall u, u <> t -> pcs l' u = pcs (lane s) u) -> lane_ok MIdle (pcs l' t) = true ->
  Inv (set_lane s l').
Proof.
  intros I CL Hpc I' En Is Fr Hk. pose proof I as (T & Y & V & G). rewrite CL in G. destruct G as [I2 G2].
  set (s1 := set_lane s l').
  assert (Em : mcl s1 = mcl s) by reflexivity.
  assert (Pi : forall i, In i (pending s1) -> In i (pending s)).
  { intros i Hi. unfold pending in *. subst s1. mproj_in Hi. rewrite (b_snap s G2) in *. cbn [ids map app] in *.
    apply (lane_pending_incl (lane s) l' I2 I' En Is i Hi). }
  assert (NoSync : forall w i, ~ parked s w i).
  { intros w i P. pose proof (parked_sync s w i P) as Hs. destruct (T w) as (_ & _ & _ & _ & T5 & _).
    apply T5 in Hs. rewrite (b_sync s G2) in Hs. contradiction. }
  split; [|split; [|split]].
  - intros u. destruct (T u) as (T1 & T2 & T3 & T4 & T5 & T6). destruct I' as [_ T'].
    unfold tinv. subst s1. mproj. split; [apply T'|]. split.
    + destruct (Z.eq_dec u t) as [->|N]; [rewrite Hpc; exact Hk | rewrite (Fr u N); exact T2].
    + split; [exact T3|]. split; [exact T4|]. split; [exact T5|].
      unfold sinv in *. mproj. destruct (Z.eq_dec u t) as [->|N].
      * rewrite Hpc in *. cbn [stage kont] in *. exact T6.
      * rewrite (Fr u N). exact T6.
  - apply (syinv_keep s s1 I (f_equal c_view Em)); try (subst s1; fr; fail).
    + intros i Hi. left. apply Pi. exact Hi.
    + intros i Hi. subst s1. mproj_in Hi.
      destruct (lane_started_new (lane s) l' I2 I' En i Hi) as [H|H]; [left; exact H|].
      right. assert (Hp : In i (pending s)) by (unfold pending; rewrite (b_snap s G2); cbn [ids map app]; exact H).
      split; [exact Hp|]. destruct (Z.eq_dec (waiter_of s i) 0) as [E|E]; [exact E|].
      destruct Y as [Ye _ _ _]. destruct (Ye i Hp E) as [P _]. destruct (NoSync _ _ P).
    + intros w i P. destruct (NoSync _ _ P).
  - exact V.
  - rewrite Em, CL. split; [exact I'|]. destruct G2. constructor; rewrite ?Em; subst s1; fr; assumption.
Qed.

Lemma step_lane_phase2 s t s' :
  Inv s -> valid_tid t -> c_lane (mcl s) = true -> mpcs s t = MIdle -> mstep s t = Some s' -> Inv s'.
Proof.
  intros I Vt CL Hpc B. unfold mstep in B. rewrite Hpc in B. unfold lane_step in B.
  destruct (gstep (lane s) t) as [l'|] eqn:GS; [|discriminate]. injection B as <-.
  pose proof I as (T & Y & V & G). rewrite CL in G. destruct G as [I2 G2].
  destruct (T t) as (_ & T2 & _). rewrite Hpc in T2.
  destruct (gstep_facts (lane s) t l' GS T2) as (F1 & F2 & F3 & F4).
  apply (Inv_lane_replaced s t l' I CL Hpc); try assumption.
  apply (step_preserves (lane s) (AStep t) l' I2). split; assumption.
Qed.

Lemma step_worker_begin s t fl s' :
  Inv s -> valid_tid t -> mbegin s t (MWorker fl) = Some s' -> Inv s'.
Proof.
  intros I Vt B. unfold mbegin in B. destruct (pcs (lane s) t) eqn:Hlp; try discriminate.
  destruct (mpcs s t) eqn:Hpc; try discriminate. destruct (t =? mtid s); [discriminate|].
  destruct (begin (lane s) t (CWorker fl)) as [l'|] eqn:BG; [|discriminate]. injection B as <-.
  destruct (begin_worker_facts (lane s) t fl l' BG) as (F1 & F2 & F3 & F4).
  pose proof I as (T & Y & V & G).
  destruct (c_lane (mcl s)) eqn:CL.
  - destruct G as [I2 G2]. apply (Inv_lane_replaced s t l' I CL Hpc); try assumption.
    + apply (step_preserves (lane s) (ABegin t (CWorker fl)) l' I2). split; assumption.
    + rewrite F2. apply incl_refl.
    + rewrite F4. reflexivity.
  - (* nothing sits in the root queue before the lane is released *)
    exfalso. destruct G as [r G]. unfold begin in BG. rewrite Hlp in BG. rewrite (a_rootq s r G) in BG. discriminate.
Qed.

Lemma step_lane_o s t s' : Inv s -> mpcs s t = MIdle -> mostep s t = Some s' -> Inv s'.
Proof.
  intros I Hpc B. exfalso. unfold mostep in B. rewrite Hpc in B. unfold ostep in B.
  destruct I as (T & _). destruct (T t) as (_ & T2 & _). rewrite Hpc in T2.
  destruct (pcs (lane s) t); try discriminate.
Qed.

(* ------------------------------------------------------------------ before the lane is released: only the lane's
   wakeup program points can be occupied, and a wakeup cannot enqueue a lane whose word has an owner *)
Lemma softeq_trans r1 r2 r3 : softeq r1 r2 -> softeq r2 r3 -> softeq r1 r3.
Proof.
  intros (A1 & A2 & A3 & A4 & A5 & A6 & A7 & A8 & A9 & A10) (B1 & B2 & B3 & B4 & B5 & B6 & B7 & B8 & B9 & B10).
  unfold softeq. repeat split; try congruence. destruct B10 as [B10|B10]; [rewrite B10; exact A10 | right; exact B10].
Qed.

Lemma dirtied_merged_soft q r : 0 <= q < 8 -> wfr r -> wfr (dirtied (merged r q)) /\ softeq r (dirtied (merged r q)).
Proof.
  intros Q W. destruct (merged_soft q r Q W) as [W1 S1]. destruct (dirtied_soft _ W1) as [W2 S2].
  split; [exact W2 | exact (softeq_trans _ _ _ S1 S2)].
Qed.

Lemma no_enqueue_owned r : f_hi r = 0 -> f_owner r <> 0 -> f_role r < 2 -> can_enqueue r = false.
Proof.
  intros H O R. unfold can_enqueue. destruct (Z.eqb_spec (f_owner r) 0); [contradiction|].
  destruct (Z.leb_spec 2 (f_role r)); [lia|]. cbn [orb]. rewrite !andb_false_r. reflexivity.
Qed.

Lemma step_lane_pre s t s' :
  Inv s -> valid_tid t -> c_lane (mcl s) = false -> mpcs s t = MIdle -> mstep s t = Some s' -> Inv s'.
Proof.
  intros I Vt CL Hpc B. unfold mstep in B. rewrite Hpc in B. unfold lane_step in B.
  destruct (gstep (lane s) t) as [l'|] eqn:GS; [|discriminate]. injection B as <-.
  pose proof I as (T & Y & V & G). rewrite CL in G. destruct G as [r G].
  destruct (T t) as (T1 & T2 & T3 & T4 & T5 & T6). rewrite Hpc in T2.
  assert (Tk : token (lane s) = None) by exact (a_token s r G).
  assert (NT : token_pc (pcs (lane s) t) = false).
  { destruct (token_pc (pcs (lane s) t)) eqn:E; [|reflexivity]. destruct T1 as (Tt & _). apply Tt in E. congruence. }
  assert (Qr : forall q, qos_of (pcs (lane s) t) = Some q -> 0 <= q < 8) by (destruct T1 as (_ & _ & _ & Tq); exact Tq).
  assert (Ho : f_owner r <> 0) by (rewrite (a_owner s r G); unfold valid_tid in V; lia).
  pose proof (no_enqueue_owned r (a_hi s r G) Ho (a_role s r G)) as CE.
  pose proof (a_enc s r G) as AE. pose proof (a_wf s r G) as AW.
  unfold gstep in GS. destruct (pcs (lane s) t) eqn:Hlp; try discriminate; cbn [lane_ok] in T2; try discriminate T2;
    cbn [token_pc locked_pc orb] in NT; try discriminate NT.
  - (* PA_probe *)
    injection GS as <-. apply (Inv_upd_id _ t). mproj. rewrite Hpc.
    destruct (lst (lane s)) eqn:L.
    + apply (Inv_lane_ctl_pre s t Idle true MIdle I CL); rewrite ?Hpc, ?Hlp; try reflexivity; try (intros; discriminate).
      intros _ _ Hne. congruence.
    + change (set_pc (lane s) t (PA_wake qos true)) with (set_wakers (set_pc (lane s) t (PA_wake qos true)) (wakers (lane s))).
      apply (Inv_lane_ctl_pre s t (PA_wake qos true) false MIdle I CL); rewrite ?Hpc, ?Hlp; try reflexivity; try (intros; discriminate).
      intros q0 E. injection E as <-. apply Qr. reflexivity.
  - (* PA_wake: sets DIRTY, cannot enqueue *)
    assert (Q : 0 <= qos < 8) by (apply Qr; reflexivity).
    rewrite AE in GS. unfold ENQUEUED in GS. rewrite (wakeup_fields r qos 3 1 AW Q eq_refl) in GS. cbv zeta in GS.
    rewrite CE in GS.
    change (mk (f_owner (merged r qos)) (f_tr (merged r qos)) (f_enq (merged r qos)) (f_mq (merged r qos)) (f_ov (merged r qos))
               (f_role (merged r qos)) (f_em (merged r qos)) 1 (f_pb (merged r qos)) (f_wq (merged r qos)) (f_ib (merged r qos))
               (f_hi (merged r qos))) with (dirtied (merged r qos)) in GS.
    destruct (dirtied_merged_soft qos r Q AW) as [W' S'].
    rewrite (enq_changed r _ AW W') in GS.
    assert (Ee : (f_enq r =? f_enq (dirtied (merged r qos))) = true).
    { destruct S' as (_ & _ & E3 & _). rewrite E3. apply Z.eqb_refl. }
    rewrite Ee in GS. cbn [negb] in GS. injection GS as <-.
    pose proof (Inv_soft_word s (fun r0 => dirtied (merged r0 qos)) r I (fun r0 => dirtied_merged_soft qos r0 Q) AE AW) as I1.
    apply (Inv_upd_id _ t). mproj. rewrite Hpc.
    set (sa := set_lane s (set_st (lane s) (enc (dirtied (merged r qos))))) in *.
    assert (X : Inv (set_mpc (set_lane sa (set_wakers (set_pc (lane sa) t Idle) (if true then remove_z t (wakers (lane sa)) else wakers (lane sa)))) t MIdle)).
    { apply (Inv_lane_ctl_pre sa t Idle true MIdle I1 CL); subst sa; mproj; lproj; rewrite ?Hpc, ?Hlp; try reflexivity; try (intros; discriminate).
      intros _ _ _ r0 E0 W0. assert (r0 = dirtied (merged r qos)) by (apply enc_inj; [exact W0 | exact W' | congruence]).
      subst r0. reflexivity. }
    exact X.
  - (* PA_oprobe *)
    injection GS as <-. apply (Inv_upd_id _ t). mproj. rewrite Hpc.
    destruct (lst (lane s)) eqn:L.
    + change (set_pc (lane s) t Idle) with (set_wakers (set_pc (lane s) t Idle) (wakers (lane s))).
      apply (Inv_lane_ctl_pre s t Idle false MIdle I CL); rewrite ?Hpc, ?Hlp; try reflexivity; try (intros; discriminate).
    + change (set_pc (lane s) t (PA_owake qos)) with (set_wakers (set_pc (lane s) t (PA_owake qos)) (wakers (lane s))).
      apply (Inv_lane_ctl_pre s t (PA_owake qos) false MIdle I CL); rewrite ?Hpc, ?Hlp; try reflexivity; try (intros; discriminate).
      intros q0 E. injection E as <-. apply Qr. reflexivity.
  - (* PA_owake: merges the QoS at most *)
    assert (Q : 0 <= qos < 8) by (apply Qr; reflexivity).
    rewrite AE in GS. unfold ENQUEUED in GS. rewrite (wakeup_fields_plain r qos 1 1 AW Q eq_refl) in GS. cbv zeta in GS.
    rewrite CE in GS.
    assert (Em : mk (f_owner (merged r qos)) (f_tr (merged r qos)) (f_enq (merged r qos)) (f_mq (merged r qos)) (f_ov (merged r qos))
               (f_role (merged r qos)) (f_em (merged r qos)) (f_d (merged r qos)) (f_pb (merged r qos)) (f_wq (merged r qos))
               (f_ib (merged r qos)) (f_hi (merged r qos)) = merged r qos) by (destruct (merged r qos); reflexivity).
    rewrite Em in GS. destruct (merged_soft qos r Q AW) as [W' S'].
    destruct (enc (merged r qos) =? enc r).
    + injection GS as <-. apply (Inv_upd_id _ t). mproj. rewrite Hpc.
      change (set_pc (lane s) t Idle) with (set_wakers (set_pc (lane s) t Idle) (wakers (lane s))).
      apply (Inv_lane_ctl_pre s t Idle false MIdle I CL); rewrite ?Hpc, ?Hlp; try reflexivity; try (intros; discriminate).
    + rewrite (enq_changed r _ AW W') in GS.
      assert (Ee : (f_enq r =? f_enq (merged r qos)) = true) by (destruct S' as (_ & _ & E3 & _); rewrite E3; apply Z.eqb_refl).
      rewrite Ee in GS. cbn [negb] in GS. injection GS as <-.
      pose proof (Inv_soft_word s (fun r0 => merged r0 qos) r I (fun r0 => merged_soft qos r0 Q) AE AW) as I1.
      apply (Inv_upd_id _ t). mproj. rewrite Hpc.
      set (sa := set_lane s (set_st (lane s) (enc (merged r qos)))) in *.
      assert (X : Inv (set_mpc (set_lane sa (set_wakers (set_pc (lane sa) t Idle) (if false then remove_z t (wakers (lane sa)) else wakers (lane sa)))) t MIdle)).
      { apply (Inv_lane_ctl_pre sa t Idle false MIdle I1 CL); subst sa; mproj; lproj; rewrite ?Hpc, ?Hlp; try reflexivity; try (intros; discriminate). }
      exact X.
Qed.
