(* SrcLane_proofs.v — invariants of the source-as-a-lane model (Model/SrcLane.v): any number of merging threads,
   workers, suspenders / resumers, cancellation and spurious wakeups, any interleaving.  The word-level facts are the
   field specifications of the generated bodies (Proofs/Lane_fields.v, Proofs/SLaneS_fields.v) plus one more here
   (dispatch_resume's loop for a source).  Structure and names follow Proofs/SLane_proofs.v. *)
From Coq Require Import ZArith Bool List Lia.
From Verif Require Import Word Bits Fields DqFields Conc Gen_consts Gen_dqstate Lane_fields SLaneS_fields.
From Verif Require SLane SLane_proofs SrcData SrcData_proofs.
From Verif Require Import SrcLane.
Import ListNotations.
Local Open Scope Z_scope.

Notation in_remove_z := SLane_proofs.in_remove_z.
Notation nodup_remove_z := SLane_proofs.nodup_remove_z.
Notation enq_changed := SLane_proofs.enq_changed.
Notation wfr_mk := SLane_proofs.wfr_mk.
Notation merged_same := SLane_proofs.merged_same.

(* ---------------------------------------------------------------- one more field specification *)
(* the suspend field of a source: the inline suspend count (units of 8), possibly with {INACTIVE, NEEDS_ACTIVATION} (3)
   of a source not yet activated or NEEDS_ACTIVATION alone (1) while dispatch_activate found it suspended; never the side
   counter bit *)
Definition hi_ok (h : Z) : Prop := h mod 8 = 0 \/ h mod 8 = 1 \/ h mod 8 = 3.

(* dispatch_resume's loop on a source (is_source = 1: no lock hand-off; an inactive source is activated) *)
Lemma resume_src_fields r : wfr r -> hi_ok (f_hi r) ->
  resume_loop 0 0 (enc r) 1 0 0 =
  if (f_hi r =? 9) || (f_hi r =? 3) then Commit (enc (set_hi r 8)) 0
  else if f_hi r <? 8 then NoCommit 2 []
  else let r2 := set_hi r (f_hi r - 8) in
       if runnable_b r2 && (f_owner r =? 0)
       then Commit (enc (mk 0 0 (f_enq r) 0 0 (f_role r) (f_em r) (f_d r) (f_pb r) (f_wq r) (f_ib r) (f_hi r - 8))) 0
       else Commit (enc (dirtied r2)) 0.
Proof.
  intros W H8. pose proof W as W'. unfold wfr in W'. pose proof (enc_range r W) as R.
  unfold resume_loop. rewrite land_suspend_bits_f by exact W.
  destruct (Z.eqb_spec (f_hi r) 9) as [H9|H9].
  { rewrite H9. change (36028797018963968 * 9 =? 324259173170675712) with true. cbv iota zeta. cbn [orb].
    assert (L : 36028797018963968 * 9 <= enc r) by (rewrite enc_linear; lia).
    rewrite u64_id'' by lia. f_equal. rewrite enc_set_hi. lia. }
  destruct (Z.eqb_spec (36028797018963968 * f_hi r) 324259173170675712) as [E|_]; [exfalso; lia|].
  change (nz 1) with true. cbn [andb orb].
  destruct (Z.eqb_spec (f_hi r) 3) as [H3|H3].
  { rewrite H3. change (36028797018963968 * 3 =? 108086391056891904) with true. cbv iota zeta.
    pose proof (enc_range (set_hi r 8) (set_hi_wf r 8 W ltac:(lia))) as R8.
    assert (L : 36028797018963968 * 3 <= enc r) by (rewrite enc_linear; lia).
    assert (E : enc (set_hi r 8) = enc r + 36028797018963968 * 5) by (rewrite enc_set_hi; lia).
    rewrite (u64_id'' (enc r - 72057594037927936)) by lia.
    rewrite (u64_id'' (enc r - 72057594037927936 - 36028797018963968)) by lia.
    rewrite u64_id'' by lia. f_equal. lia. }
  destruct (Z.eqb_spec (36028797018963968 * f_hi r) 108086391056891904) as [E|_]; [exfalso; lia|].
  cbv zeta.
  destruct (Z.ltb_spec (f_hi r) 8) as [Hlt|Hge].
  - assert (B : enc r - 288230376151711744 < 0) by (rewrite enc_linear; lia).
    destruct (Z.eqb_spec (u64 (enc r - 288230376151711744)) (enc r - 288230376151711744)) as [E|E].
    + exfalso. pose proof (u64_range (enc r - 288230376151711744)). lia.
    + reflexivity.
  - assert (L : 288230376151711744 <= enc r) by (rewrite enc_linear; lia).
    rewrite (u64_id'' (enc r - 288230376151711744)) by lia. rewrite Z.eqb_refl. cbn [negb b2z nz Z.eqb].
    pose proof (set_hi_wf r (f_hi r - 8) W ltac:(lia)) as W2. pose proof W2 as W2'. unfold wfr in W2'.
    assert (E2 : enc r - 288230376151711744 = enc (set_hi r (f_hi r - 8))) by (rewrite enc_set_hi; lia).
    rewrite E2. set (r2 := set_hi r (f_hi r - 8)) in *.
    rewrite runnable_f by exact W2.
    destruct (runnable_b r2) eqn:RB; cbn [negb andb].
    + rewrite drain_locked_f by exact W2.
      assert (O2 : f_owner r2 = f_owner r) by reflexivity. rewrite O2.
      destruct (Z.eqb_spec (f_owner r) 0) as [O|O]; cbn [negb].
      * rewrite (enc_vec r2). subst r2. unfold set_hi, mk; cbn [f_owner f_tr f_enq f_mq f_ov f_role f_em f_d f_pb f_wq f_ib f_hi].
        vec_land 18446744037202329600. fsimp. vec_land 18446744043644780543. fsimp. reflexivity.
      * rewrite lor_dirty_fields by exact W2. reflexivity.
    + rewrite lor_dirty_fields by exact W2. reflexivity.
Qed.

(* ---------------------------------------------------------------- the data invariant on raw values *)
(* SrcData_proofs.data_inv (conservation for ADD / OR, membership and last value for REPLACE, never zero) read on
   the six components it talks about *)
Definition mkd (pe la : Z) (me dr de : list Z) (ca : bool) : SrcData.gst :=
  {| SrcData.pend := pe; SrcData.cancelled := ca; SrcData.susp := 0; SrcData.rq := false; SrcData.owner := None;
     SrcData.pcs := fun _ => SrcData.PIdle; SrcData.latched := la; SrcData.running := 0; SrcData.merged := me;
     SrcData.dropped := dr; SrcData.delivered := de |}.
Definition data_ok (k : dkind) (pe la : Z) (me dr de : list Z) (ca : bool) : Prop :=
  SrcData_proofs.data_inv k (mkd pe la me dr de ca).

Lemma data_ok_init k : data_ok k 0 0 [] [] [] false.
Proof. unfold data_ok, SrcData_proofs.data_inv, mkd; cbn. repeat split; auto. destruct k; cbn; repeat split; auto. Qed.
Lemma data_ok_merge k pe la me dr de ca v :
  data_ok k pe la me dr de ca -> data_ok k (SrcData.apply_merge k pe v) la (v :: me) dr de ca.
Proof. intros H. apply (SrcData_proofs.data_merge k _ (mkd (SrcData.apply_merge k pe v) la (v :: me) dr de ca) v H); reflexivity. Qed.
Lemma data_ok_latch k pe me dr de ca : data_ok k pe 0 me dr de ca -> data_ok k 0 pe me dr de ca.
Proof. intros H. apply (SrcData_proofs.data_latch k _ (mkd 0 pe me dr de ca) H); reflexivity. Qed.
Lemma data_ok_deliver k pe prev me dr de ca :
  data_ok k pe prev me dr de ca -> prev <> 0 -> data_ok k pe 0 me dr (prev :: de) ca.
Proof. intros H N. apply (SrcData_proofs.data_deliver k _ (mkd pe 0 me dr (prev :: de) ca) prev H); auto. Qed.
Lemma data_ok_cancel k pe la me dr de ca : data_ok k pe la me dr de ca -> data_ok k pe la me dr de true.
Proof. intros H. apply (SrcData_proofs.data_cancel k _ (mkd pe la me dr de true) H); reflexivity. Qed.
Lemma data_ok_drop k pe la me dr de v : data_ok k pe la me dr de true -> data_ok k pe la me (v :: dr) de true.
Proof. intros (A & B & C). split; [exact A|]. split; [discriminate|exact C]. Qed.

(* ---------------------------------------------------------------- the invariant *)
Definition OWN := 18014398509481984 + 2199023255552 + 2147483648.

Definition locked_pc (p : pc) : bool :=
  match p with
  | PW_inst _ | PW_susp _ | PW_flags _ | PW_pend _ | PW_latch _ | PW_call _ _ | PW_incall _ | PW_post _ | PW_post2 _
  | PW_unlock _ | PW_xor _ | PW_fin _ => true
  | _ => false
  end.
Definition token_pc (p : pc) : bool := locked_pc p || match p with PW_lock _ | PS_rootpush => true | _ => false end.
Definition waker_pc (p : pc) : bool := match p with PS_flags _ | PS_pend _ | PS_wake _ => true | _ => false end.
Definition rwaker_pc (p : pc) : bool := match p with PR_flags _ | PR_pend _ | PR_wake _ => true | _ => false end.
(* the lock holder has examined ds_pending_data (or latched it) and has not yet given the lock back *)
Definition examined_pc (p : pc) : bool :=
  match p with PW_call _ _ | PW_incall _ | PW_post _ | PW_post2 _ | PW_unlock _ | PW_xor _ => true | _ => false end.
Definition owned_of (p : pc) : option Z :=
  match p with
  | PW_inst o | PW_susp o | PW_flags o | PW_pend o | PW_latch o | PW_call o _ | PW_incall o | PW_post o | PW_post2 o
  | PW_unlock o | PW_xor o | PW_fin o => Some o
  | _ => None
  end.
Definition qos_of (p : pc) : option Z :=
  match p with
  | PM_flags _ q | PM_op _ q | PS_flags q | PS_pend q | PS_wake q | PC_set q | PR_rmw q | PR_flags q | PR_pend q | PR_wake q
  | PA_rmw q | PA_role q | PA_inst q => Some q
  | _ => None
  end.
Definition latched_pc (p : pc) : Z := match p with PW_call _ x => x | _ => 0 end.
Definition running_pc (w : Z) (p : pc) : option Z := match p with PW_incall _ => Some w | _ => None end.

Definition thread_inv (s : gst) (t : Z) : Prop :=
  (token_pc (pcs s t) = true <-> token s = Some (Some t)) /\
  (waker_pc (pcs s t) = true <-> In t (wakers s)) /\
  (rwaker_pc (pcs s t) = true <-> In t (rwakers s)) /\
  (forall o, owned_of (pcs s t) = Some o -> o = OWN) /\
  (forall q, qos_of (pcs s t) = Some q -> 0 <= q < 8) /\
  (forall o x, pcs s t = PW_call o x -> x <> 0).

Definition free (r : dqf) : Prop := f_owner r = 0 /\ f_ib r = 0 /\ f_wq r = 4095.
Definition held (r : dqf) (w : Z) : Prop := f_owner r = w /\ f_ib r = 1 /\ f_wq r = 4096.

Record ginv_r (k : dkind) (s : gst) (r : dqf) : Prop := {
  g_enc : st s = enc r;
  g_wf : wfr r;
  g_tr : f_tr r = 0;
  g_em : f_em r = 0;
  g_pb : f_pb r = 0;
  g_hi : hi_ok (f_hi r);
  g_role : f_role r < 2;
  g_enq : f_enq r = 1 <-> token s <> None;
  g_rootq : rootq s = (match token s with Some None => 1 | _ => 0 end);
  g_lock : match token s with
           | Some (Some w) => valid_tid w /\ (if locked_pc (pcs s w) then held r w else free r)
           | _ => free r
           end;
  (* pending data of an uncancelled source always has somebody responsible for it: the holder of the enqueued token
     (the target queue, or a thread about to push / lock / draining), a thread that owes a wakeup, or the suspension
     (whose last resume owes one) *)
  g_nostrand : pend s <> 0 -> cancelled s = false -> token s <> None \/ wakers s <> [] \/ rwakers s <> [] \/ 0 < f_hi r;
  (* ... and the drainer that has already looked cannot give the lock back without looking again: DIRTY is set *)
  g_dirty : forall w, token s = Some (Some w) -> examined_pc (pcs s w) = true -> pend s <> 0 -> cancelled s = false ->
            wakers s = [] -> f_hi r = 0 -> f_d r = 1;
  g_nodup : NoDup (wakers s);
  g_rnodup : NoDup (rwakers s);
  g_data : data_ok k (pend s) (latched s) (merged s) (dropped s) (delivered s) (cancelled s);
  g_latched : latched s = (match token s with Some (Some w) => latched_pc (pcs s w) | _ => 0 end);
  g_running : running s = (match token s with Some (Some w) => running_pc w (pcs s w) | _ => None end)
}.

Definition Inv (c : cfg) (s : gst) : Prop := (exists r, ginv_r (ck c) s r) /\ forall t, thread_inv s t.

Lemma Inv_init c rb : 0 <= rb < 2 -> Inv c (init_state rb).
Proof.
  intros Hrb. split.
  - exists (mk 0 0 0 0 0 rb 0 0 0 4095 0 0). unfold init_state.
    constructor; cbn [st pend cancelled rootq pcs token wakers rwakers latched running merged dropped delivered];
      unfold mk; cbn [f_tr f_em f_pb f_hi f_role f_enq f_d]; try lia; try congruence; try reflexivity; try (left; reflexivity).
    + rewrite enc_linear; cbn [f_owner f_tr f_enq f_mq f_ov f_role f_em f_d f_pb f_wq f_ib f_hi];
      rewrite Z.shiftl_mul_pow2 by lia; change (2^41) with 2199023255552; lia.
    + unfold wfr; cbn [f_owner f_tr f_enq f_mq f_ov f_role f_em f_d f_pb f_wq f_ib f_hi]; repeat split; lia.
    + split; [discriminate | congruence].
    + unfold free; cbn; auto.
    + apply data_ok_init.
  - intros t. unfold thread_inv, init_state; cbn. repeat split; intros; try discriminate; try contradiction.
Qed.

Lemma Inv_init_inactive c : Inv c init_inactive.
Proof.
  split.
  - exists (mk 0 0 0 0 0 0 0 0 0 4095 0 3). unfold init_inactive.
    constructor; cbn [st pend cancelled installed rootq pcs token wakers rwakers latched running merged dropped delivered];
      unfold mk; cbn [f_tr f_em f_pb f_hi f_role f_enq f_d]; try lia; try congruence; try reflexivity.
    + unfold wfr; cbn [f_owner f_tr f_enq f_mq f_ov f_role f_em f_d f_pb f_wq f_ib f_hi]; repeat split; lia.
    + right. right. reflexivity.
    + split; [discriminate | congruence].
    + unfold free; cbn; auto.
    + constructor.
    + constructor.
    + apply data_ok_init.
  - intros t. unfold thread_inv, init_inactive; cbn. repeat split; intros; try discriminate; try contradiction.
Qed.

(* ---------------------------------------------------------------- frame lemmas *)
Ltac sproj := cbn [st pend cancelled installed rootq pcs token wakers rwakers latched running merged dropped delivered
                   set_pc set_st set_rootq set_token set_wakers set_rwakers set_installed].
Ltac sproj_in H := cbn [st pend cancelled installed rootq pcs token wakers rwakers latched running merged dropped delivered
                        set_pc set_st set_rootq set_token set_wakers set_rwakers set_installed] in H.

Lemma not_holder s t : thread_inv s t -> token_pc (pcs s t) = false -> token s <> Some (Some t).
Proof. intros (T & _) H E. apply T in E. congruence. Qed.
Lemma holder s t : thread_inv s t -> token_pc (pcs s t) = true -> token s = Some (Some t).
Proof. intros (T & _) H. apply T. exact H. Qed.

(* a thread that does not hold the token changes its own pc only *)
Lemma ginv_set_pc_other k s r t p : ginv_r k s r -> token s <> Some (Some t) -> ginv_r k (set_pc s t p) r.
Proof.
  intros G N. destruct G.
  assert (P : forall w, token s = Some (Some w) -> upd (pcs s) t p w = pcs s w).
  { intros w E. apply upd_other. congruence. }
  constructor; sproj; auto.
  - destruct (token s) as [[w|]|]; auto. rewrite P by reflexivity. exact g_lock0.
  - intros w E. rewrite P by exact E. apply g_dirty0. exact E.
  - destruct (token s) as [[w|]|]; auto. rewrite P by reflexivity. exact g_latched0.
  - destruct (token s) as [[w|]|]; auto. rewrite P by reflexivity. exact g_running0.
Qed.

Lemma thread_other s s' t u :
  u <> t -> thread_inv s u -> pcs s' u = pcs s u ->
  (token s' = Some (Some u) <-> token s = Some (Some u)) ->
  (In u (wakers s') <-> In u (wakers s)) -> (In u (rwakers s') <-> In u (rwakers s)) ->
  thread_inv s' u.
Proof.
  intros N (T1 & T2 & T3 & T4 & T5 & T6) P K W RW. unfold thread_inv. rewrite P. rewrite K, W, RW.
  split; [exact T1|]. split; [exact T2|]. split; [exact T3|]. split; [exact T4|]. split; [exact T5|exact T6].
Qed.

(* the token holder moves between two of its program points, shared state untouched *)
Lemma ginv_holder_move k s r t p' :
  ginv_r k s r -> token s = Some (Some t) ->
  locked_pc p' = locked_pc (pcs s t) ->
  (examined_pc p' = true -> examined_pc (pcs s t) = true \/ pend s = 0 \/ cancelled s = true) ->
  latched_pc p' = latched_pc (pcs s t) -> running_pc t p' = running_pc t (pcs s t) ->
  ginv_r k (set_pc s t p') r.
Proof.
  intros G K L U I R. destruct G. rewrite K in *.
  constructor; sproj; rewrite ?K; auto.
  - rewrite upd_same, L. exact g_lock0.
  - intros w E. injection E as <-. rewrite upd_same. intros Hu Hp Hc Hw Hh.
    destruct (U Hu) as [U'|[U'|U']]; [|contradiction|congruence]. apply (g_dirty0 t); auto.
  - rewrite upd_same, I. exact g_latched0.
  - rewrite upd_same, R. exact g_running0.
Qed.

Lemma Inv_holder_move c s t p' :
  Inv c s -> token_pc (pcs s t) = true -> token_pc p' = true ->
  locked_pc p' = locked_pc (pcs s t) ->
  (examined_pc p' = true -> examined_pc (pcs s t) = true \/ pend s = 0 \/ cancelled s = true) ->
  latched_pc p' = latched_pc (pcs s t) -> running_pc t p' = running_pc t (pcs s t) ->
  (forall o, owned_of p' = Some o -> o = OWN) -> (forall o x, p' = PW_call o x -> x <> 0) ->
  Inv c (set_pc s t p').
Proof.
  intros [[r G] T] H H' L U I R O CZ. pose proof (holder s t (T t) H) as K. split.
  - exists r. apply ginv_holder_move; auto.
  - intros u. destruct (Z.eq_dec u t) as [->|N].
    + destruct (T t) as (T1 & T2 & T3 & T4 & T5 & T6). unfold thread_inv. sproj. rewrite upd_same.
      assert (NW : waker_pc p' = false) by (destruct p'; cbn in H' |- *; try discriminate; reflexivity).
      assert (NR : rwaker_pc p' = false) by (destruct p'; cbn in H' |- *; try discriminate; reflexivity).
      assert (NQ : qos_of p' = None) by (destruct p'; cbn in H' |- *; try discriminate; reflexivity).
      assert (NW0 : waker_pc (pcs s t) = false) by (destruct (pcs s t); cbn in H |- *; try discriminate; reflexivity).
      assert (NR0 : rwaker_pc (pcs s t) = false) by (destruct (pcs s t); cbn in H |- *; try discriminate; reflexivity).
      repeat split; auto.
      * rewrite NW. discriminate.
      * intros Hin. apply T2 in Hin. congruence.
      * rewrite NR. discriminate.
      * intros Hin. apply T3 in Hin. congruence.
      * rewrite NQ in H0. discriminate.
      * rewrite NQ in H0. discriminate.
    + apply (thread_other s _ t u N (T u)); sproj; [apply upd_other; exact N | tauto | tauto | tauto].
Qed.

Lemma Inv_other_move c s t p' :
  Inv c s -> token_pc (pcs s t) = false -> token_pc p' = false ->
  waker_pc p' = waker_pc (pcs s t) -> rwaker_pc p' = rwaker_pc (pcs s t) ->
  (forall q, qos_of p' = Some q -> 0 <= q < 8) ->
  Inv c (set_pc s t p').
Proof.
  intros [[r G] T] H H' W RW Q. pose proof (not_holder s t (T t) H) as K. split.
  - exists r. apply ginv_set_pc_other; auto.
  - intros u. destruct (Z.eq_dec u t) as [->|N].
    + destruct (T t) as (T1 & T2 & T3 & T4 & T5 & T6). unfold thread_inv. sproj. rewrite upd_same.
      split; [|split; [|split; [|split; [|split]]]].
      * split; [rewrite H'; discriminate | intros E; congruence].
      * rewrite W. exact T2.
      * rewrite RW. exact T3.
      * intros o Ho. destruct p'; cbn in H', Ho; discriminate.
      * exact Q.
      * intros o x E. subst p'. cbn in H'. discriminate.
    + apply (thread_other s _ t u N (T u)); sproj; [apply upd_other; exact N | tauto | tauto | tauto].
Qed.

(* ---------------------------------------------------------------- begin *)
Lemma qos_ok_range q : qos_ok q = true -> 0 <= q < 8.
Proof. unfold qos_ok. intros H. apply andb_true_iff in H as [A B]. apply Z.leb_le in A. apply Z.ltb_lt in B. lia. Qed.

(* a thread joins the wakers (it is not a token holder, its new program point is a waker's) *)
Lemma Inv_join_wakers c s t p' :
  Inv c s -> token_pc (pcs s t) = false -> waker_pc (pcs s t) = false -> rwaker_pc (pcs s t) = false ->
  token_pc p' = false -> waker_pc p' = true -> rwaker_pc p' = false ->
  (forall q, qos_of p' = Some q -> 0 <= q < 8) ->
  Inv c (set_wakers (set_pc s t p') (t :: wakers s)).
Proof.
  intros [[r G] T] H HW HR H' W' R' Q. pose proof (not_holder s t (T t) H) as K.
  destruct (T t) as (T1 & T2 & T3 & T4 & T5 & T6).
  assert (NW : ~ In t (wakers s)) by (intros Hin; apply T2 in Hin; congruence).
  pose proof (ginv_set_pc_other _ s r t p' G K) as G1. destruct G1. sproj_in g_lock0. split.
  - exists r. constructor; sproj; auto.
    + intros _ _. right. left. discriminate.
    + intros w E _ _ _ Hw. discriminate.
    + constructor; assumption.
  - intros u. destruct (Z.eq_dec u t) as [->|N].
    + unfold thread_inv. sproj. rewrite upd_same.
      split; [|split; [|split; [|split; [|split]]]].
      * split; [rewrite H'; discriminate | intros E; congruence].
      * rewrite W'. split; [intros _; left; reflexivity | reflexivity].
      * rewrite R'. split; [discriminate | intros Hin; apply T3 in Hin; congruence].
      * intros o Ho. destruct p'; cbn in H', Ho; discriminate.
      * exact Q.
      * intros o x E. subst p'. cbn in H'. discriminate.
    + apply (thread_other s _ t u N (T u)); sproj; [apply upd_other; exact N | tauto | | tauto].
      cbn [In]. split; [intros [E|E]; [congruence|exact E] | auto].
Qed.

Lemma begin_preserves c s t k s' : Inv c s -> valid_tid t -> begin s t k = Some s' -> Inv c s'.
Proof.
  intros I V B. unfold begin in B. destruct (pcs s t) eqn:Hpc; try discriminate.
  destruct k as [v q|floor| |q|q|q|q].
  - destruct (qos_ok q) eqn:Q; [|discriminate]. injection B as <-. apply qos_ok_range in Q.
    apply Inv_other_move; rewrite ?Hpc; auto. intros q0 E. injection E as <-. exact Q.
  - destruct (0 <? rootq s) eqn:R; [|discriminate]. injection B as <-. apply Z.ltb_lt in R.
    destruct I as [[r G] T]. pose proof G as G'. destruct G'.
    assert (K : token s = Some None).
    { destruct (token s) as [[w|]|]; try lia. reflexivity. }
    rewrite K in *. split.
    + exists r. constructor; sproj; auto.
      * split; [intros _; discriminate | intros _; apply g_enq0; discriminate].
      * lia.
      * rewrite upd_same. cbn [locked_pc]. auto.
      * intros _ _. left. discriminate.
      * intros w E. injection E as <-. rewrite upd_same. discriminate.
      * rewrite upd_same. exact g_latched0.
      * rewrite upd_same. exact g_running0.
    + intros u. destruct (Z.eq_dec u t) as [->|N].
      * destruct (T t) as (T1 & T2 & T3 & T4 & T5 & T6). rewrite Hpc in *. unfold thread_inv. sproj. rewrite upd_same.
        cbn [token_pc locked_pc waker_pc rwaker_pc owned_of qos_of orb] in *.
        split; [|split; [|split; [|split; [|split]]]]; try (intros; discriminate); auto.
        split; auto.
      * apply (thread_other s _ t u N (T u)); sproj; [apply upd_other; exact N | | tauto | tauto].
        rewrite K. split; intros E; [injection E as E; congruence | discriminate].
  - injection B as <-. apply Inv_other_move; rewrite ?Hpc; auto. discriminate.
  - destruct (qos_ok q) eqn:Q; [|discriminate]. injection B as <-. apply qos_ok_range in Q.
    apply Inv_other_move; rewrite ?Hpc; auto. intros q0 E. injection E as <-. exact Q.
  - destruct (qos_ok q) eqn:Q; [|discriminate]. injection B as <-. apply qos_ok_range in Q.
    apply Inv_other_move; rewrite ?Hpc; auto. intros q0 E. injection E as <-. exact Q.
  - destruct (qos_ok q) eqn:Q; [|discriminate]. injection B as <-. apply qos_ok_range in Q.
    apply Inv_other_move; rewrite ?Hpc; auto. intros q0 E. injection E as <-. exact Q.
  - destruct (qos_ok q) eqn:Q; [|discriminate]. injection B as <-. apply qos_ok_range in Q.
    apply Inv_join_wakers; rewrite ?Hpc; auto. intros q0 E. injection E as <-. exact Q.
Qed.

(* ---------------------------------------------------------------- merge_data *)
Ltac holder_same P H := destruct (token _) as [[?w|]|]; auto; rewrite P by reflexivity; exact H.

Lemma step_mflags c s t v q s' : Inv c s -> pcs s t = PM_flags v q -> gstep c s t = Some s' -> Inv c s'.
Proof.
  intros I Hpc B. unfold gstep in B. rewrite Hpc in B. injection B as <-.
  destruct (cancelled s) eqn:Ca.
  - destruct I as [[r G] T]. pose proof (not_holder s t (T t)) as K. rewrite Hpc in K. specialize (K eq_refl).
    assert (P : forall w, token s = Some (Some w) -> upd (pcs s) t Idle w = pcs s w).
    { intros w E. apply upd_other. congruence. }
    destruct G. split.
    + exists r. constructor; sproj; auto.
      * holder_same P g_lock0.
      * intros _ X. discriminate X.
      * intros w E _ _ X. discriminate X.
      * rewrite Ca in *. apply data_ok_drop. exact g_data0.
      * holder_same P g_latched0.
      * holder_same P g_running0.
    + intros u. destruct (Z.eq_dec u t) as [->|N].
      * destruct (T t) as (T1 & T2 & T3 & T4 & T5 & T6). rewrite Hpc in *. unfold thread_inv. sproj. rewrite upd_same.
        cbn [token_pc locked_pc waker_pc rwaker_pc owned_of qos_of orb] in *.
        split; [|split; [|split; [|split; [|split]]]]; try (intros; discriminate); auto.
      * apply (thread_other s _ t u N (T u)); sproj; [apply upd_other; exact N | tauto | tauto | tauto].
  - destruct I as [IG T]. destruct (T t) as (_ & _ & _ & _ & T5 & _). rewrite Hpc in T5.
    apply Inv_other_move; rewrite ?Hpc; auto. split; [exact IG|exact T].
Qed.

Lemma step_mop c s t v q s' : Inv c s -> pcs s t = PM_op v q -> gstep c s t = Some s' -> Inv c s'.
Proof.
  intros [[r G] T] Hpc B. unfold gstep in B. rewrite Hpc in B. injection B as <-.
  pose proof (not_holder s t (T t)) as K. rewrite Hpc in K. specialize (K eq_refl).
  destruct (T t) as (T1 & T2 & T3 & T4 & T5 & T6). rewrite Hpc in T1, T2, T3, T4, T5, T6.
  assert (NW : ~ In t (wakers s)) by (intros Hin; apply T2 in Hin; discriminate).
  assert (P : forall w, token s = Some (Some w) -> upd (pcs s) t (PS_flags q) w = pcs s w).
  { intros w E. apply upd_other. congruence. }
  destruct G. split.
  - exists r. constructor; sproj; auto.
    + holder_same P g_lock0.
    + intros _ _. right. left. discriminate.
    + intros w E _ _ _ Hw. discriminate.
    + constructor; assumption.
    + apply data_ok_merge. exact g_data0.
    + holder_same P g_latched0.
    + holder_same P g_running0.
  - intros u. destruct (Z.eq_dec u t) as [->|N].
    + unfold thread_inv. sproj. rewrite upd_same. cbn [token_pc locked_pc waker_pc rwaker_pc owned_of qos_of orb].
      split; [|split; [|split; [|split; [|split]]]]; try (intros; discriminate).
      * split; [discriminate | intros E; congruence].
      * split; [intros _; left; reflexivity | reflexivity].
      * split; [discriminate | intros Hin; apply T3 in Hin; discriminate].
      * intros q0 E. injection E as <-. apply (T5 q eq_refl).
    + apply (thread_other s _ t u N (T u)); sproj; [apply upd_other; exact N | tauto | | tauto].
      cbn [In]. split; [intros [E|E]; [congruence|exact E] | auto].
Qed.

(* a waker (or a resumer that owes its wakeup) gives up because there is nothing to wake for *)
Lemma Inv_leave_wakers c s t :
  Inv c s -> waker_pc (pcs s t) = true -> (pend s = 0 \/ cancelled s = true) ->
  Inv c (set_wakers (set_pc s t Idle) (remove_z t (wakers s))).
Proof.
  intros [[r G] T] HW Z0. destruct (T t) as (T1 & T2 & T3 & T4 & T5 & T6).
  assert (H : token_pc (pcs s t) = false) by (destruct (pcs s t); cbn in HW |- *; try discriminate; reflexivity).
  assert (HR : rwaker_pc (pcs s t) = false) by (destruct (pcs s t); cbn in HW |- *; try discriminate; reflexivity).
  pose proof (not_holder s t (T t) H) as K.
  pose proof (ginv_set_pc_other _ s r t Idle G K) as G1. destruct G1. sproj_in g_lock0. split.
  - exists r. constructor; sproj; auto.
    + intros Hp Hc. destruct Z0; [contradiction|congruence].
    + intros w E _ Hp Hc. destruct Z0; [contradiction|congruence].
    + apply nodup_remove_z. assumption.
  - intros u. destruct (Z.eq_dec u t) as [->|N].
    + unfold thread_inv. sproj. rewrite upd_same. cbn [token_pc locked_pc waker_pc rwaker_pc owned_of qos_of orb].
      split; [|split; [|split; [|split; [|split]]]]; try (intros; discriminate).
      * split; [discriminate | intros E; congruence].
      * split; [discriminate | rewrite in_remove_z; intros [_ E]; congruence].
      * split; [discriminate | intros Hin; apply T3 in Hin; congruence].
    + apply (thread_other s _ t u N (T u)); sproj; [apply upd_other; exact N | tauto | rewrite in_remove_z; tauto | tauto].
Qed.

Lemma Inv_leave_rwakers c s t :
  Inv c s -> rwaker_pc (pcs s t) = true ->
  (pend s <> 0 -> cancelled s = false -> forall r, ginv_r (ck c) s r -> token s <> None \/ wakers s <> [] \/ 0 < f_hi r \/
                                                      exists u, u <> t /\ In u (rwakers s)) ->
  Inv c (set_rwakers (set_pc s t Idle) (remove_z t (rwakers s))).
Proof.
  intros [[r G] T] HW Z0. destruct (T t) as (T1 & T2 & T3 & T4 & T5 & T6).
  assert (H : token_pc (pcs s t) = false) by (destruct (pcs s t); cbn in HW |- *; try discriminate; reflexivity).
  assert (HR : waker_pc (pcs s t) = false) by (destruct (pcs s t); cbn in HW |- *; try discriminate; reflexivity).
  pose proof (not_holder s t (T t) H) as K.
  pose proof (ginv_set_pc_other _ s r t Idle G K) as G1. destruct G1. sproj_in g_lock0. split.
  - exists r. constructor; sproj; auto.
    + intros Hp Hc. destruct (Z0 Hp Hc r G) as [X|[X|[X|(u & Nu & Hu)]]]; auto.
      right. right. left. intros E. assert (In u (remove_z t (rwakers s))) by (rewrite in_remove_z; auto). rewrite E in H0. contradiction.
    + apply nodup_remove_z. assumption.
  - intros u. destruct (Z.eq_dec u t) as [->|N].
    + unfold thread_inv. sproj. rewrite upd_same. cbn [token_pc locked_pc waker_pc rwaker_pc owned_of qos_of orb].
      split; [|split; [|split; [|split; [|split]]]]; try (intros; discriminate).
      * split; [discriminate | intros E; congruence].
      * split; [discriminate | intros Hin; apply T2 in Hin; congruence].
      * split; [discriminate | rewrite in_remove_z; intros [_ E]; congruence].
    + apply (thread_other s _ t u N (T u)); sproj; [apply upd_other; exact N | tauto | tauto | rewrite in_remove_z; tauto].
Qed.

Lemma step_sflags c s t q s' : Inv c s -> pcs s t = PS_flags q -> gstep c s t = Some s' -> Inv c s'.
Proof.
  intros I Hpc B. unfold gstep in B. rewrite Hpc in B. injection B as <-.
  assert (Mv : forall p', waker_pc p' = true -> token_pc p' = false -> rwaker_pc p' = false -> qos_of p' = Some q -> Inv c (set_pc s t p')).
  { intros p' W1 W2 W3 W4. destruct I as [IG T]. destruct (T t) as (_ & _ & _ & _ & T5 & _). rewrite Hpc in T5.
    apply Inv_other_move; rewrite ?Hpc; auto; [split; [exact IG|exact T] | rewrite W4; exact T5]. }
  destruct (installed s) eqn:Ins; cbn [negb]; [|apply Mv; reflexivity].
  destruct (cancelled s) eqn:Ca.
  - apply Inv_leave_wakers; rewrite ?Hpc; auto.
  - apply Mv; reflexivity.
Qed.

Lemma step_spend c s t q s' : Inv c s -> pcs s t = PS_pend q -> gstep c s t = Some s' -> Inv c s'.
Proof.
  intros I Hpc B. unfold gstep in B. rewrite Hpc in B. injection B as <-.
  destruct (Z.eqb_spec (pend s) 0) as [P0|P0].
  - apply Inv_leave_wakers; rewrite ?Hpc; auto.
  - destruct I as [IG T]. destruct (T t) as (_ & _ & _ & _ & T5 & _). rewrite Hpc in T5.
    apply Inv_other_move; rewrite ?Hpc; auto. split; [exact IG|exact T].
Qed.

(* when the word cannot be enqueued by a wakeup, somebody is already responsible for the source *)
Lemma cannot_enqueue_resp k s r : ginv_r k s r -> can_enqueue r = false -> token s <> None \/ 0 < f_hi r.
Proof.
  intros G CE. destruct G. pose proof g_wf0 as W. unfold wfr in W. unfold can_enqueue in CE. rewrite g_em0 in CE.
  destruct (Z.eqb_spec (f_hi r) 0) as [H0|H0]; [|right; lia]. cbn [andb] in CE.
  destruct (Z.eqb_spec (f_enq r) 0) as [E0|E0]; cbn [andb Z.eqb] in CE.
  - apply orb_false_iff in CE. destruct CE as [CE _]. left.
    destruct (token s) as [[w|]|]; try discriminate.
    unfold free in g_lock0. destruct g_lock0 as (O & _). rewrite O in CE. discriminate.
  - left. apply g_enq0. lia.
Qed.

Lemma step_swake c s t q s' : Inv c s -> valid_tid t -> pcs s t = PS_wake q -> gstep c s t = Some s' -> Inv c s'.
Proof.
  intros [[r G] T] Vt Hpc B. unfold gstep in B. rewrite Hpc in B.
  pose proof (not_holder s t (T t)) as K. rewrite Hpc in K. specialize (K eq_refl).
  destruct (T t) as (T1 & T2 & T3 & T4 & T5 & T6). rewrite Hpc in T1, T2, T3, T4, T5, T6. pose proof (T5 q eq_refl) as Q.
  pose proof (cannot_enqueue_resp _ s r G) as Resp.
  destruct G. pose proof g_wf0 as W. unfold wfr in W.
  rewrite g_enc0 in B. unfold ENQUEUED in B.
  rewrite (wakeup_fields r q 3 1 g_wf0 Q eq_refl) in B. cbv zeta in B.
  pose proof (merged_wf r q g_wf0 Q) as Wm. unfold wfr in Wm.
  destruct (merged_same r q) as (M1 & M2 & M3 & M4 & M5 & M6 & M7 & M8 & M9 & M10).
  set (m := Lane_fields.merged r q) in *.
  set (e' := if can_enqueue r then 1 else f_enq m) in *.
  assert (He' : 0 <= e' < 2) by (subst e'; destruct (can_enqueue r); lia).
  set (r' := mk (f_owner m) (f_tr m) e' (f_mq m) (f_ov m) (f_role m) (f_em m) 1 (f_pb m) (f_wq m) (f_ib m) (f_hi m)) in *.
  assert (W' : wfr r') by (subst r'; apply wfr_mk; lia).
  cbv iota beta in B. rewrite (enq_changed r r' g_wf0 W') in B.
  assert (Fr : f_owner r' = f_owner r /\ f_ib r' = f_ib r /\ f_wq r' = f_wq r /\ f_enq r' = e' /\ f_d r' = 1 /\
               f_tr r' = 0 /\ f_em r' = 0 /\ f_pb r' = 0 /\ f_hi r' = f_hi r /\ f_role r' = f_role r).
  { subst r'. unfold mk; cbn. repeat split; congruence. }
  destruct Fr as (F1 & F2 & F3 & F4 & F5 & F6 & F7 & F8 & F9 & F10).
  assert (P : forall p w, token s = Some (Some w) -> upd (pcs s) t p w = pcs s w).
  { intros p w E. apply upd_other. congruence. }
  assert (Lk : forall x, (match x with Some (Some w) => valid_tid w /\ (if locked_pc (pcs s w) then held r w else free r) | _ => free r end) ->
                         (match x with Some (Some w) => valid_tid w /\ (if locked_pc (pcs s w) then held r' w else free r') | _ => free r' end)).
  { intros x. unfold held, free. rewrite F1, F2, F3. auto. }
  destruct (can_enqueue r) eqn:CE.
  - (* this wakeup takes the enqueued token and will push the source on its target *)
    unfold can_enqueue in CE. rewrite !andb_true_iff in CE. destruct CE as [[[C1 C2] C3] C4]. apply Z.eqb_eq in C2.
    assert (Tk : token s = None).
    { destruct (token s) eqn:E; [|reflexivity]. assert (f_enq r = 1) by (apply g_enq0; congruence). lia. }
    assert (Ee : (f_enq r =? f_enq r') = false) by (rewrite F4; subst e'; rewrite C2; reflexivity).
    rewrite Ee in B. cbn [negb] in B. injection B as <-. rewrite Tk in *. split.
    + exists r'. constructor; sproj; try assumption; try lia; try (rewrite F9; exact g_hi0).
      * rewrite F4. subst e'. split; [discriminate | reflexivity].
      * rewrite upd_same. cbn [locked_pc]. split; [|unfold free in *; rewrite F1, F2, F3; exact g_lock0].
        exact Vt.
      * intros _ _. left. discriminate.
      * apply nodup_remove_z. exact g_nodup0.
      * rewrite upd_same. exact g_latched0.
      * rewrite upd_same. exact g_running0.
    + intros u. destruct (Z.eq_dec u t) as [->|N].
      * unfold thread_inv. sproj. rewrite upd_same. cbn [token_pc locked_pc waker_pc rwaker_pc owned_of qos_of orb].
        split; [|split; [|split; [|split; [|split]]]]; try (intros; discriminate).
        -- split; reflexivity.
        -- split; [discriminate | rewrite in_remove_z; intros [_ E]; congruence].
        -- split; [discriminate | intros Hin; apply T3 in Hin; discriminate].
      * apply (thread_other s _ t u N (T u)); sproj; [apply upd_other; exact N | | rewrite in_remove_z; tauto | tauto].
        rewrite Tk. split; intros E; [injection E as E; congruence | discriminate].
  - (* already enqueued, locked or suspended: DIRTY alone tells the drainer / the resumer *)
    assert (Ee : (f_enq r =? f_enq r') = true) by (rewrite F4; subst e'; rewrite M3; apply Z.eqb_refl).
    rewrite Ee in B. cbn [negb] in B. injection B as <-.
    specialize (Resp eq_refl).
    split.
    + exists r'. constructor; sproj; try assumption; try lia; try (rewrite F9; exact g_hi0).
      * rewrite F4. subst e'. rewrite M3. exact g_enq0.
      * specialize (Lk (token s) g_lock0). destruct (token s) as [[w|]|]; auto. rewrite P by reflexivity. exact Lk.
      * intros _ _. rewrite F9. destruct Resp; auto.
      * apply nodup_remove_z. exact g_nodup0.
      * destruct (token s) as [[w|]|]; auto. rewrite P by reflexivity. exact g_latched0.
      * destruct (token s) as [[w|]|]; auto. rewrite P by reflexivity. exact g_running0.
    + intros u. destruct (Z.eq_dec u t) as [->|N].
      * unfold thread_inv. sproj. rewrite upd_same. cbn [token_pc locked_pc waker_pc rwaker_pc owned_of qos_of orb].
        split; [|split; [|split; [|split; [|split]]]]; try (intros; discriminate).
        -- split; [discriminate | intros E; congruence].
        -- split; [discriminate | rewrite in_remove_z; intros [_ E]; congruence].
        -- split; [discriminate | intros Hin; apply T3 in Hin; discriminate].
      * apply (thread_other s _ t u N (T u)); sproj; [apply upd_other; exact N | tauto | rewrite in_remove_z; tauto | tauto].
Qed.

Lemma step_rootpush c s t s' : Inv c s -> pcs s t = PS_rootpush -> gstep c s t = Some s' -> Inv c s'.
Proof.
  intros [[r G] T] Hpc B. unfold gstep in B. rewrite Hpc in B. injection B as <-.
  pose proof (holder s t (T t)) as K. rewrite Hpc in K. specialize (K eq_refl).
  destruct G. rewrite K in *. rewrite Hpc in *. cbn [locked_pc latched_pc running_pc] in *. split.
  - exists r. constructor; sproj; try assumption; try lia.
    + split; [discriminate | intros _; apply g_enq0; discriminate].
    + tauto.
    + intros _ _. left. discriminate.
    + discriminate.
  - intros u. destruct (Z.eq_dec u t) as [->|N].
    + unfold thread_inv. sproj. rewrite upd_same. cbn [token_pc locked_pc waker_pc rwaker_pc owned_of qos_of orb].
      destruct (T t) as (_ & T2 & T3 & _). rewrite Hpc in T2, T3. cbn [waker_pc rwaker_pc] in T2, T3.
      split; [|split; [|split; [|split; [|split]]]]; try (intros; discriminate); auto.
      split; discriminate.
    + apply (thread_other s _ t u N (T u)); sproj; [apply upd_other; exact N | | tauto | tauto].
      rewrite K. split; intros E; [discriminate | injection E as E; congruence].
Qed.

Lemma step_cset c s t q s' : Inv c s -> pcs s t = PC_set q -> gstep c s t = Some s' -> Inv c s'.
Proof.
  intros [[r G] T] Hpc B. unfold gstep in B. rewrite Hpc in B. injection B as <-.
  pose proof (not_holder s t (T t)) as K. rewrite Hpc in K. specialize (K eq_refl).
  destruct (T t) as (T1 & T2 & T3 & T4 & T5 & T6). rewrite Hpc in T1, T2, T3, T4, T5, T6.
  assert (NW : ~ In t (wakers s)) by (intros Hin; apply T2 in Hin; discriminate).
  assert (P : forall w, token s = Some (Some w) -> upd (pcs s) t (PS_wake q) w = pcs s w).
  { intros w E. apply upd_other. congruence. }
  destruct G. split.
  - exists r. constructor; sproj; auto.
    + holder_same P g_lock0.
    + intros _ X. discriminate X.
    + intros w E _ _ X. discriminate X.
    + constructor; assumption.
    + eapply data_ok_cancel. exact g_data0.
    + holder_same P g_latched0.
    + holder_same P g_running0.
  - intros u. destruct (Z.eq_dec u t) as [->|N].
    + unfold thread_inv. sproj. rewrite upd_same. cbn [token_pc locked_pc waker_pc rwaker_pc owned_of qos_of orb].
      split; [|split; [|split; [|split; [|split]]]]; try (intros; discriminate).
      * split; [discriminate | intros E; congruence].
      * split; [intros _; left; reflexivity | reflexivity].
      * split; [discriminate | intros Hin; apply T3 in Hin; discriminate].
      * intros q0 E. injection E as <-. apply (T5 q eq_refl).
    + apply (thread_other s _ t u N (T u)); sproj; [apply upd_other; exact N | tauto | | tauto].
      cbn [In]. split; [intros [E|E]; [congruence|exact E] | auto].
Qed.

(* ---------------------------------------------------------------- suspend / resume *)
Lemma hi8_add a : a mod 8 = 0 -> (a + 8) mod 8 = 0.
Proof. intros H. replace (a + 8) with (a + 1 * 8) by lia. rewrite Z.mod_add by lia. exact H. Qed.
Lemma hi8_sub a : a mod 8 = 0 -> (a - 8) mod 8 = 0.
Proof. intros H. replace (a - 8) with (a + (-1) * 8) by lia. rewrite Z.mod_add by lia. exact H. Qed.
Lemma hi_ok_add a : hi_ok a -> hi_ok (a + 8).
Proof. unfold hi_ok. replace (a + 8) with (a + 1 * 8) by lia. rewrite Z.mod_add by lia. auto. Qed.
Lemma hi_ok_sub a : hi_ok a -> hi_ok (a - 8).
Proof. unfold hi_ok. replace (a - 8) with (a + (-1) * 8) by lia. rewrite Z.mod_add by lia. auto. Qed.
Lemma hi_ok_0 : hi_ok 0. Proof. left. reflexivity. Qed.
Lemma hi_ok_8 : hi_ok 8. Proof. left. reflexivity. Qed.
(* parity of the suspend field = the NEEDS_ACTIVATION bit *)
Lemma mod2_of_mod8 a : a mod 2 = (a mod 8) mod 2.
Proof.
  rewrite (Z.div_mod a 8) at 1 by lia. replace (8 * (a / 8) + a mod 8) with (a mod 8 + (4 * (a / 8)) * 2) by lia.
  rewrite Z.mod_add by lia. reflexivity.
Qed.
Lemma hi8_even a : a mod 8 = 0 -> (a mod 2 =? 1) = false.
Proof.
  intros H. apply Z.mod_divide in H; [|lia]. destruct H as [k ->]. replace (k * 8) with (0 + (k * 4) * 2) by lia.
  rewrite Z.mod_add by lia. reflexivity.
Qed.
Lemma hi8_pos a : a mod 8 = 0 -> 0 <= a -> a <> 0 -> 8 <= a.
Proof. intros H P N. apply Z.mod_divide in H; [|lia]. destruct H as [k ->]. lia. Qed.

(* a non-holder commits a word r' that differs from r only in fields the lock shape does not read; the data and the
   token are untouched, the two waker lists may change *)
Lemma ginv_other_word k s s' r r' t p :
  ginv_r k s r -> token s <> Some (Some t) ->
  st s' = enc r' -> pend s' = pend s -> cancelled s' = cancelled s -> rootq s' = rootq s -> pcs s' = upd (pcs s) t p ->
  token s' = token s -> latched s' = latched s -> running s' = running s -> merged s' = merged s ->
  dropped s' = dropped s -> delivered s' = delivered s -> NoDup (wakers s') -> NoDup (rwakers s') ->
  wfr r' -> f_tr r' = 0 -> f_em r' = 0 -> f_pb r' = 0 -> hi_ok (f_hi r') -> f_role r' < 2 ->
  f_enq r' = f_enq r -> f_owner r' = f_owner r -> f_ib r' = f_ib r -> f_wq r' = f_wq r ->
  (pend s <> 0 -> cancelled s = false -> token s <> None \/ wakers s' <> [] \/ rwakers s' <> [] \/ 0 < f_hi r') ->
  (forall w, token s = Some (Some w) -> examined_pc (pcs s w) = true -> pend s <> 0 -> cancelled s = false ->
             wakers s' = [] -> f_hi r' = 0 -> f_d r' = 1) ->
  ginv_r k s' r'.
Proof.
  intros G N Est Epe Eca Ero Epc Etk Ela Eru Eme Edr Ede ND RND W Tr Em Pb Hi Ro En Ow Ib Wq NS DI. destruct G.
  assert (P : forall w, token s = Some (Some w) -> upd (pcs s) t p w = pcs s w).
  { intros w E. apply upd_other. congruence. }
  constructor; rewrite ?Epe, ?Eca, ?Ero, ?Epc, ?Etk, ?Ela, ?Eru, ?Eme, ?Edr, ?Ede; auto.
  - rewrite En. exact g_enq0.
  - unfold held, free in *. rewrite Ow, Ib, Wq. destruct (token s) as [[w|]|]; auto. rewrite P by reflexivity. exact g_lock0.
  - intros w E. rewrite P by exact E. apply DI. exact E.
  - destruct (token s) as [[w|]|]; auto. rewrite P by reflexivity. exact g_latched0.
  - destruct (token s) as [[w|]|]; auto. rewrite P by reflexivity. exact g_running0.
Qed.

Lemma threads_other_word s t p st' :
  (forall u, thread_inv s u) -> token_pc (pcs s t) = false -> token_pc p = false ->
  waker_pc p = waker_pc (pcs s t) -> rwaker_pc p = rwaker_pc (pcs s t) -> (forall q, qos_of p = Some q -> 0 <= q < 8) ->
  forall u, thread_inv (set_pc (set_st s st') t p) u.
Proof.
  intros T H H' W RW Q u. pose proof (not_holder s t (T t) H) as K. destruct (Z.eq_dec u t) as [->|N].
  - destruct (T t) as (T1 & T2 & T3 & T4 & T5 & T6). unfold thread_inv. sproj. rewrite upd_same.
    split; [|split; [|split; [|split; [|split]]]].
    + split; [rewrite H'; discriminate | intros E; congruence].
    + rewrite W. exact T2.
    + rewrite RW. exact T3.
    + intros o Ho. destruct p; cbn in H', Ho; discriminate.
    + exact Q.
    + intros o x E. subst p. cbn in H'. discriminate.
  - apply (thread_other s _ t u N (T u)); sproj; [apply upd_other; exact N | tauto | tauto | tauto].
Qed.

Lemma step_urmw c s t s' : Inv c s -> pcs s t = PU_rmw -> gstep c s t = Some s' -> Inv c s'.
Proof.
  intros I Hpc B. unfold gstep in B. rewrite Hpc in B.
  pose proof I as [[r G] T]. pose proof (not_holder s t (T t)) as K. rewrite Hpc in K. specialize (K eq_refl).
  pose proof G as G'. destruct G'. pose proof g_wf0 as W. unfold wfr in W.
  rewrite g_enc0 in B. rewrite (suspend_fields r g_wf0) in B.
  destruct (Z.ltb_spec (f_hi r) 504) as [H|H].
  - injection B as <-. split.
    + exists (set_hi r (f_hi r + 8)).
      apply (ginv_other_word _ s _ r _ t Idle G K); try reflexivity; try assumption;
        unfold set_hi, mk; cbn [f_tr f_em f_pb f_hi f_role f_enq f_owner f_ib f_wq f_d]; auto.
      * apply set_hi_wf; [assumption|lia].
      * apply hi_ok_add. assumption.
      * intros _ _. right. right. right. lia.
      * intros w _ _ _ _ _ X. lia.
    + apply threads_other_word; rewrite ?Hpc; auto. discriminate.
  - injection B as <-. apply Inv_other_move; rewrite ?Hpc; auto. discriminate.
Qed.

(* a thread joins the resumers that owe a wakeup, committing the word r' *)
Lemma threads_join_rwakers s t p st' :
  (forall u, thread_inv s u) -> token_pc (pcs s t) = false -> waker_pc (pcs s t) = false -> rwaker_pc (pcs s t) = false ->
  token_pc p = false -> waker_pc p = false -> rwaker_pc p = true -> (forall q, qos_of p = Some q -> 0 <= q < 8) ->
  forall u, thread_inv (set_rwakers (set_pc (set_st s st') t p) (t :: rwakers s)) u.
Proof.
  intros T H HW HR H' W' R' Q u. pose proof (not_holder s t (T t) H) as K. destruct (Z.eq_dec u t) as [->|N].
  - destruct (T t) as (T1 & T2 & T3 & T4 & T5 & T6). unfold thread_inv. sproj. rewrite upd_same.
    split; [|split; [|split; [|split; [|split]]]].
    + split; [rewrite H'; discriminate | intros E; congruence].
    + rewrite W'. split; [discriminate | intros Hin; apply T2 in Hin; congruence].
    + rewrite R'. split; [intros _; left; reflexivity | reflexivity].
    + intros o Ho. destruct p; cbn in H', Ho; discriminate.
    + exact Q.
    + intros o x E. subst p. cbn in H'. discriminate.
  - apply (thread_other s _ t u N (T u)); sproj; [apply upd_other; exact N | tauto | tauto |].
    cbn [In]. split; [intros [E|E]; [congruence|exact E] | auto].
Qed.

Lemma par_sub8 a : ((a - 8) mod 2 =? 1) = (a mod 2 =? 1).
Proof. replace (a - 8) with (a + (-4) * 2) by lia. rewrite Z.mod_add by lia. reflexivity. Qed.

Lemma step_rrmw c s t q s' : Inv c s -> pcs s t = PR_rmw q -> gstep c s t = Some s' -> Inv c s'.
Proof.
  intros I Hpc B. unfold gstep in B. rewrite Hpc in B.
  pose proof I as [[r G] T]. pose proof (not_holder s t (T t)) as K. rewrite Hpc in K. specialize (K eq_refl).
  destruct (T t) as (T1 & T2 & T3 & T4 & T5 & T6). rewrite Hpc in T1, T2, T3, T4, T5, T6. pose proof (T5 q eq_refl) as Q.
  pose proof G as G'. destruct G'. pose proof g_wf0 as W. unfold wfr in W.
  rewrite g_enc0 in B. rewrite (resume_src_fields r g_wf0 g_hi0) in B.
  destruct ((f_hi r =? 9) || (f_hi r =? 3)) eqn:Act.
  { (* the resume that activates: NEEDS_ACTIVATION cleared, one suspend count left; on to the activation finalizer *)
    set (r8 := set_hi r 8) in *.
    assert (W8 : wfr r8) by (apply set_hi_wf; [assumption|lia]).
    rewrite (xor_needs_activation r r8 g_wf0 W8) in B.
    assert (P1 : (f_hi r mod 2 =? 1) = true).
    { apply orb_true_iff in Act. destruct Act as [E|E]; apply Z.eqb_eq in E; rewrite E; reflexivity. }
    assert (P2 : (f_hi r8 mod 2 =? 1) = false) by reflexivity.
    rewrite P1, P2 in B. cbn [xorb] in B. injection B as <-. split.
    - exists r8.
      apply (ginv_other_word _ s _ r _ t (PA_role q) G K); try reflexivity; try assumption; sproj;
        try (subst r8; unfold set_hi, mk; cbn [f_tr f_em f_pb f_hi f_role f_enq f_owner f_ib f_wq f_d]; auto; fail).
      + apply hi_ok_8.
      + intros _ _. right. right. right. subst r8. cbn. lia.
      + intros w _ _ _ _ _ X. subst r8. cbn in X. lia.
    - apply threads_other_word; rewrite ?Hpc; auto; try (intros q0 E; injection E as <-; exact Q). }
  destruct (Z.ltb_spec (f_hi r) 8) as [H|H].
  - injection B as <-. apply Inv_other_move; rewrite ?Hpc; auto. discriminate.
  - cbv zeta in B. set (r2 := set_hi r (f_hi r - 8)) in *.
    assert (W2 : wfr r2) by (apply set_hi_wf; [assumption|lia]).
    (* where the lock stands *)
    assert (LockShape : f_owner r = 0 /\ f_ib r = 0 /\ f_wq r = 4095 \/
                        exists w, token s = Some (Some w) /\ locked_pc (pcs s w) = true /\ held r w /\ valid_tid w).
    { destruct (token s) as [[w|]|] eqn:Tk; [|left; exact g_lock0|left; exact g_lock0].
      destruct g_lock0 as [Vw L]. destruct (locked_pc (pcs s w)) eqn:Lp; [right; exists w; auto|left; exact L]. }
    destruct (runnable_b r2 && (f_owner r =? 0)) eqn:RO.
    + (* unlocked and no longer suspended: the resumer owes the source a wakeup *)
      apply andb_true_iff in RO as [RB O]. apply Z.eqb_eq in O.
      unfold runnable_b in RB. rewrite !andb_true_iff in RB. destruct RB as [[RB1 RB2] RB3].
      apply Z.ltb_lt in RB1. apply Z.eqb_eq in RB2, RB3.
      subst r2. unfold set_hi, mk in RB1, RB2, RB3. cbn [f_wq f_ib f_hi] in RB1, RB2, RB3.
      set (r3 := mk 0 0 (f_enq r) 0 0 (f_role r) (f_em r) (f_d r) (f_pb r) (f_wq r) (f_ib r) (f_hi r - 8)) in *.
      assert (W3 : wfr r3) by (subst r3; apply wfr_mk; lia).
      rewrite (xor_needs_activation r r3 g_wf0 W3) in B.
      assert (E1 : f_hi r3 = f_hi r - 8) by reflexivity.
      rewrite E1, par_sub8, xorb_nilpotent in B.
      unfold suspended_word in B. rewrite (is_suspended_f r3 W3), E1, RB3 in B. cbn [Z.ltb Z.compare] in B.
      rewrite (xor_in_barrier r r3 g_wf0 W3) in B.
      assert (E2 : f_ib r3 = f_ib r) by reflexivity. rewrite E2, xorb_nilpotent in B.
      rewrite (runnable_f r3 W3) in B. unfold runnable_b in B.
      assert (E3 : f_wq r3 = f_wq r) by reflexivity. rewrite E3, E2, E1, RB2, RB3 in B.
      assert (RB1' : (f_wq r <? 4096) = true) by (apply Z.ltb_lt; exact RB1). rewrite RB1' in B.
      cbn [andb negb Z.eqb] in B. injection B as <-.
      assert (NoLock : forall w, token s = Some (Some w) -> locked_pc (pcs s w) = false).
      { intros w Tk. destruct LockShape as [_|(w' & Tk' & Lp & (Ow & _) & Vw)]; [|rewrite Tk in Tk'; injection Tk' as <-; unfold valid_tid in Vw; lia].
        rewrite Tk in g_lock0. destruct g_lock0 as [Vw L]. destruct (locked_pc (pcs s w)); [|reflexivity].
        destruct L as (Ow & _). unfold valid_tid in Vw. lia. }
      split.
      * exists r3.
        apply (ginv_other_word _ s _ r _ t (PR_flags q) G K); try reflexivity; try assumption; sproj;
          try (subst r3; unfold mk; cbn [f_tr f_em f_pb f_hi f_role f_enq f_owner f_ib f_wq f_d]; auto; fail).
        -- constructor; [|assumption]. intros Hin. apply T3 in Hin. discriminate.
        -- subst r3; unfold mk; cbn [f_hi]. apply hi_ok_sub. assumption.
        -- intros _ _. right. right. left. discriminate.
        -- intros w Tk Ex. specialize (NoLock w Tk). destruct (pcs s w); cbn in Ex, NoLock; discriminate.
      * apply threads_join_rwakers; rewrite ?Hpc; auto; try (intros q0 E; injection E as <-; exact Q).
    + (* still suspended, or locked: DIRTY tells the next resume / the lock holder *)
      set (r4 := dirtied r2) in *.
      assert (W4 : wfr r4) by (apply dirtied_wf; exact W2).
      assert (E1 : f_hi r4 = f_hi r - 8) by reflexivity.
      assert (E2 : f_ib r4 = f_ib r) by reflexivity.
      assert (E3 : f_wq r4 = f_wq r) by reflexivity.
      rewrite (xor_needs_activation r r4 g_wf0 W4) in B.
      rewrite E1, par_sub8, xorb_nilpotent in B.
      unfold suspended_word in B. rewrite (is_suspended_f r4 W4), E1 in B.
      rewrite (xor_in_barrier r r4 g_wf0 W4) in B. rewrite E2, xorb_nilpotent in B.
      rewrite (runnable_f r4 W4) in B. unfold runnable_b in B. rewrite E3, E2, E1 in B.
      (* in every outcome the thread ends Idle with the word r4, except a runnable unlocked r2 with an owner: impossible *)
      assert (Out : s' = set_pc (set_st s (enc r4)) t Idle).
      { destruct (Z.ltb_spec 0 (f_hi r - 8)) as [S|S]; [injection B as <-; reflexivity|].
        destruct ((f_wq r <? 4096) && (f_ib r =? 0) && (f_hi r - 8 =? 0)) eqn:RB; cbn [negb] in B; [|injection B as <-; reflexivity].
        exfalso. unfold runnable_b in RO. subst r2. unfold set_hi, mk in RO. cbn [f_wq f_ib f_hi] in RO. rewrite RB in RO.
        cbn [andb] in RO. apply Z.eqb_neq in RO. rewrite !andb_true_iff in RB. destruct RB as [[RB1 RB2] _].
        apply Z.ltb_lt in RB1. destruct LockShape as [(O & _)|(w & _ & _ & (_ & _ & Wq) & _)]; [contradiction|lia]. }
      subst s'. clear B. split.
      * exists r4.
        apply (ginv_other_word _ s _ r _ t Idle G K); try reflexivity; try assumption; sproj;
          try (subst r4 r2; unfold dirtied, set_hi, mk; cbn [f_tr f_em f_pb f_hi f_role f_enq f_owner f_ib f_wq f_d]; auto; fail).
        -- subst r4 r2; unfold dirtied, set_hi, mk; cbn [f_hi]. apply hi_ok_sub. assumption.
        -- intros Hp Hc. rewrite E1.
           destruct (Z.ltb_spec 0 (f_hi r - 8)) as [S|S]; [right; right; right; exact S|]. left.
           destruct LockShape as [(O & Ib & Wq)|(w & Tk & _)]; [|rewrite Tk; discriminate].
           exfalso. unfold runnable_b in RO. subst r2. unfold set_hi, mk in RO. cbn [f_wq f_ib f_hi] in RO.
           rewrite Wq, Ib, O in RO. assert (f_hi r - 8 = 0) by lia. rewrite H0 in RO. discriminate.
      * apply threads_other_word; rewrite ?Hpc; auto. discriminate.
Qed.

Lemma step_rflags c s t q s' : Inv c s -> pcs s t = PR_flags q -> gstep c s t = Some s' -> Inv c s'.
Proof.
  intros I Hpc B. unfold gstep in B. rewrite Hpc in B. injection B as <-.
  assert (Mv : forall p', rwaker_pc p' = true -> token_pc p' = false -> waker_pc p' = false -> qos_of p' = Some q -> Inv c (set_pc s t p')).
  { intros p' W1 W2 W3 W4. destruct I as [IG T]. destruct (T t) as (_ & _ & _ & _ & T5 & _). rewrite Hpc in T5.
    apply Inv_other_move; rewrite ?Hpc; auto; [split; [exact IG|exact T] | rewrite W4; exact T5]. }
  destruct (installed s) eqn:Ins; cbn [negb]; [|apply Mv; reflexivity].
  destruct (cancelled s) eqn:Ca.
  - apply Inv_leave_rwakers; rewrite ?Hpc; auto. intros _ X. congruence.
  - apply Mv; reflexivity.
Qed.

Lemma step_rpend c s t q s' : Inv c s -> pcs s t = PR_pend q -> gstep c s t = Some s' -> Inv c s'.
Proof.
  intros I Hpc B. unfold gstep in B. rewrite Hpc in B. injection B as <-.
  destruct (Z.eqb_spec (pend s) 0) as [P0|P0].
  - apply Inv_leave_rwakers; rewrite ?Hpc; auto; intros X; contradiction.
  - destruct I as [IG T]. destruct (T t) as (_ & _ & _ & _ & T5 & _). rewrite Hpc in T5.
    apply Inv_other_move; rewrite ?Hpc; auto. split; [exact IG|exact T].
Qed.

Lemma enc_inj r1 r2 : wfr r1 -> wfr r2 -> enc r1 = enc r2 -> r1 = r2.
Proof. intros W1 W2 E. rewrite <- (dec_enc r1 W1), <- (dec_enc r2 W2), E. reflexivity. Qed.

Lemma step_rwake c s t q s' : Inv c s -> valid_tid t -> pcs s t = PR_wake q -> gstep c s t = Some s' -> Inv c s'.
Proof.
  intros I Vt Hpc B. unfold gstep in B. rewrite Hpc in B.
  pose proof I as [[r G] T].
  pose proof (not_holder s t (T t)) as K. rewrite Hpc in K. specialize (K eq_refl).
  destruct (T t) as (T1 & T2 & T3 & T4 & T5 & T6). rewrite Hpc in T1, T2, T3, T4, T5, T6. pose proof (T5 q eq_refl) as Q.
  pose proof (cannot_enqueue_resp _ s r G) as Resp.
  pose proof G as G'. destruct G'. pose proof g_wf0 as W. unfold wfr in W.
  rewrite g_enc0 in B. unfold ENQUEUED in B.
  rewrite (wakeup_fields_plain r q 1 1 g_wf0 Q eq_refl) in B. cbv zeta in B.
  pose proof (merged_wf r q g_wf0 Q) as Wm. unfold wfr in Wm.
  destruct (merged_same r q) as (M1 & M2 & M3 & M4 & M5 & M6 & M7 & M8 & M9 & M10).
  set (m := Lane_fields.merged r q) in *.
  set (e' := if can_enqueue r then 1 else f_enq m) in *.
  assert (He' : 0 <= e' < 2) by (subst e'; destruct (can_enqueue r); lia).
  set (r' := mk (f_owner m) (f_tr m) e' (f_mq m) (f_ov m) (f_role m) (f_em m) (f_d m) (f_pb m) (f_wq m) (f_ib m) (f_hi m)) in *.
  assert (W' : wfr r') by (subst r'; apply wfr_mk; lia).
  assert (Fr : f_owner r' = f_owner r /\ f_ib r' = f_ib r /\ f_wq r' = f_wq r /\ f_enq r' = e' /\ f_d r' = f_d r /\
               f_tr r' = 0 /\ f_em r' = 0 /\ f_pb r' = 0 /\ f_hi r' = f_hi r /\ f_role r' = f_role r).
  { subst r'. unfold mk; cbn. repeat split; congruence. }
  destruct Fr as (F1 & F2 & F3 & F4 & F5 & F6 & F7 & F8 & F9 & F10).
  destruct (Z.eqb_spec (enc r') (enc r)) as [Same|Diff].
  - (* nothing to change: the loop gives up *)
    injection B as <-.
    assert (CE : can_enqueue r = false).
    { destruct (can_enqueue r) eqn:CE; [|reflexivity]. exfalso.
      apply enc_inj in Same; [|assumption|assumption].
      assert (f_enq r' = f_enq r) by (rewrite Same; reflexivity). rewrite F4 in H. subst e'.
      unfold can_enqueue in CE. rewrite !andb_true_iff in CE. destruct CE as [[[_ C2] _] _]. apply Z.eqb_eq in C2. lia. }
    apply Inv_leave_rwakers; rewrite ?Hpc; auto.
    intros _ _ r0 G0. destruct (Resp CE) as [X|X]; [left; exact X|].
    right. right. left. destruct G0. assert (enc r0 = enc r) by congruence. apply enc_inj in H; [subst r0; exact X|assumption|assumption].
  - cbv iota beta in B. rewrite (enq_changed r r' g_wf0 W') in B.
    assert (P : forall p w, token s = Some (Some w) -> upd (pcs s) t p w = pcs s w).
    { intros p w E. apply upd_other. congruence. }
    destruct (can_enqueue r) eqn:CE.
    + (* the resumer takes the enqueued token and will push the source on its target *)
      unfold can_enqueue in CE. rewrite !andb_true_iff in CE. destruct CE as [[[C1 C2] C3] C4]. apply Z.eqb_eq in C2.
      assert (Tk : token s = None).
      { destruct (token s) eqn:E; [|reflexivity]. assert (f_enq r = 1) by (apply g_enq0; congruence). lia. }
      assert (Ee : (f_enq r =? f_enq r') = false) by (rewrite F4; subst e'; rewrite C2; reflexivity).
      rewrite Ee in B. cbn [negb] in B. injection B as <-. rewrite Tk in *. split.
      * exists r'. constructor; sproj; try assumption; try lia; try (rewrite F9; exact g_hi0).
        -- rewrite F4. subst e'. split; [discriminate | reflexivity].
        -- rewrite upd_same. cbn [locked_pc]. split; [|unfold free in *; rewrite F1, F2, F3; exact g_lock0].
           exact Vt.
        -- intros _ _. left. discriminate.
        -- intros w E. injection E as <-. rewrite upd_same. discriminate.
        -- apply nodup_remove_z. exact g_rnodup0.
        -- rewrite upd_same. exact g_latched0.
        -- rewrite upd_same. exact g_running0.
      * intros u. destruct (Z.eq_dec u t) as [->|N].
        -- unfold thread_inv. sproj. rewrite upd_same. cbn [token_pc locked_pc waker_pc rwaker_pc owned_of qos_of orb].
           split; [|split; [|split; [|split; [|split]]]]; try (intros; discriminate).
           ++ split; reflexivity.
           ++ split; [discriminate | intros Hin; apply T2 in Hin; discriminate].
           ++ split; [discriminate | rewrite in_remove_z; intros [_ E]; congruence].
        -- apply (thread_other s _ t u N (T u)); sproj; [apply upd_other; exact N | | tauto | rewrite in_remove_z; tauto].
           rewrite Tk. split; intros E; [injection E as E; congruence | discriminate].
    + (* only the max-qos merge changes the word *)
      assert (Ee : (f_enq r =? f_enq r') = true) by (rewrite F4; subst e'; rewrite M3; apply Z.eqb_refl).
      rewrite Ee in B. cbn [negb] in B. injection B as <-.
      specialize (Resp eq_refl).
      split.
      * exists r'.
        apply (ginv_other_word _ s _ r _ t Idle G K); try reflexivity; try assumption; sproj; try lia.
        -- apply nodup_remove_z. exact g_rnodup0.
        -- rewrite F9. exact g_hi0.
        -- intros _ _. rewrite F9. destruct Resp; auto.
        -- intros w Tk Ex Hp Hc Hw Hh. rewrite F5. apply (g_dirty0 w); auto. congruence.
      * intros u. destruct (Z.eq_dec u t) as [->|N].
        -- unfold thread_inv. sproj. rewrite upd_same. cbn [token_pc locked_pc waker_pc rwaker_pc owned_of qos_of orb].
           split; [|split; [|split; [|split; [|split]]]]; try (intros; discriminate).
           ++ split; [discriminate | intros E; congruence].
           ++ split; [discriminate | intros Hin; apply T2 in Hin; discriminate].
           ++ split; [discriminate | rewrite in_remove_z; intros [_ E]; congruence].
        -- apply (thread_other s _ t u N (T u)); sproj; [apply upd_other; exact N | tauto | tauto | rewrite in_remove_z; tauto].
Qed.

(* ---------------------------------------------------------------- the drain *)
Lemma OWN_from_lock : 18014398509481984 + 9007199254740992 + 2147483648 * 1 - 2199023255552 * 4095 = OWN.
Proof. reflexivity. Qed.
Lemma OWN_unlock : owned_unlock OWN = OWN.
Proof. reflexivity. Qed.
Lemma owned_is_OWN c s t o : Inv c s -> owned_of (pcs s t) = Some o -> o = OWN.
Proof. intros [_ T] H. destruct (T t) as (_ & _ & _ & T4 & _). apply T4. exact H. Qed.

Lemma step_lock c s t fl s' : Inv c s -> pcs s t = PW_lock fl -> gstep c s t = Some s' -> Inv c s'.
Proof.
  intros I Hpc B. unfold gstep in B. rewrite Hpc in B. pose proof I as [[r G] T].
  pose proof (holder s t (T t)) as K. rewrite Hpc in K. specialize (K eq_refl).
  pose proof G as G'. destruct G'. rewrite K in *. rewrite Hpc in *. cbn [locked_pc latched_pc running_pc] in *.
  destruct g_lock0 as [Vt (O & Ib & Wq)]. pose proof g_wf0 as W. unfold wfr in W.
  assert (En : f_enq r = 1) by (apply g_enq0; discriminate).
  rewrite g_enc0 in B. rewrite (lock_fields r t fl 0 g_wf0 Vt) in B.
  destruct (lock_free r) eqn:LF.
  - destruct ((f_role r mod 2 =? 1) && (fl <? f_mq r)) eqn:OV.
    + (* the lock would need a QoS override first: retry with the queue's max QoS as floor *)
      injection B as <-.
      apply Inv_holder_move; rewrite ?Hpc; try reflexivity; try discriminate. exact I.
    + rewrite En, Wq in B. rewrite OWN_from_lock in B.
      change (OWN =? 0) with false in B. cbv iota in B. injection B as <-.
      set (r' := mk t 0 1 (f_mq r) 0 (f_role r) 0 0 0 4096 1 0) in *.
      split.
      * exists r'. subst r'. constructor; sproj; rewrite ?K; unfold mk; cbn [f_tr f_em f_pb f_hi f_role f_enq f_d];
          try assumption; try lia; try reflexivity; try exact hi_ok_0.
        -- apply wfr_mk; unfold valid_tid in Vt; lia.
        -- split; [discriminate | reflexivity].
        -- rewrite upd_same. cbn [locked_pc]. split; [exact Vt | unfold held; cbn; auto].
        -- intros _ _. left. discriminate.
        -- intros w E. injection E as <-. rewrite upd_same. discriminate.
        -- rewrite upd_same. exact g_latched0.
        -- rewrite upd_same. exact g_running0.
      * intros u. destruct (Z.eq_dec u t) as [->|N].
        -- unfold thread_inv. sproj. rewrite upd_same. cbn [token_pc locked_pc waker_pc rwaker_pc owned_of qos_of orb].
           destruct (T t) as (_ & T2 & T3 & _). rewrite Hpc in T2, T3. cbn [waker_pc rwaker_pc] in T2, T3.
           split; [|split; [|split; [|split; [|split]]]]; try (intros; discriminate); auto.
           ++ split; auto.
           ++ intros o E. injection E as <-. reflexivity.
        -- apply (thread_other s _ t u N (T u)); sproj; [apply upd_other; exact N | tauto | tauto | tauto].
  - (* suspended: the lock is refused and the enqueued bit dropped; the suspension is responsible *)
    change (0 =? 0) with true in B. cbv iota in B. injection B as <-.
    assert (Hh : 0 < f_hi r).
    { unfold lock_free in LF. rewrite O, g_em0, Ib, Wq in LF. cbn [Z.eqb Z.ltb Z.compare andb] in LF.
      apply Z.eqb_neq in LF. lia. }
    set (r' := mk (f_owner r) (f_tr r) (1 - f_enq r) (f_mq r) (f_ov r) (f_role r) (f_em r) (f_d r) (f_pb r) (f_wq r) (f_ib r) (f_hi r)) in *.
    split.
    + exists r'. subst r'. constructor; sproj; unfold mk; cbn [f_tr f_em f_pb f_hi f_role f_enq f_d];
        try assumption; try lia; try reflexivity; try exact hi_ok_0.
      * apply wfr_mk; lia.
      * rewrite En. split; [discriminate | congruence].
      * unfold free; cbn; auto.
    + intros u. destruct (Z.eq_dec u t) as [->|N].
      * unfold thread_inv. sproj. rewrite upd_same. cbn [token_pc locked_pc waker_pc rwaker_pc owned_of qos_of orb].
        destruct (T t) as (_ & T2 & T3 & _). rewrite Hpc in T2, T3. cbn [waker_pc rwaker_pc] in T2, T3.
        split; [|split; [|split; [|split; [|split]]]]; try (intros; discriminate); auto.
        split; discriminate.
      * apply (thread_other s _ t u N (T u)); sproj; [apply upd_other; exact N | | tauto | tauto].
        rewrite K. split; intros E; [discriminate | injection E as E; congruence].
Qed.

Ltac own_goal := intros ?o ?E; injection E as <-; reflexivity.

Lemma step_wsusp c s t o s' : Inv c s -> pcs s t = PW_susp o -> gstep c s t = Some s' -> Inv c s'.
Proof.
  intros I Hpc B. unfold gstep in B. rewrite Hpc in B. injection B as <-.
  assert (o = OWN) by (apply (owned_is_OWN c s t); [exact I | rewrite Hpc; reflexivity]). subst o. rewrite OWN_unlock.
  destruct (suspended_word (st s)); apply Inv_holder_move; rewrite ?Hpc; try reflexivity; try discriminate; auto; own_goal.
Qed.

Lemma step_wflags c s t o s' : Inv c s -> pcs s t = PW_flags o -> gstep c s t = Some s' -> Inv c s'.
Proof.
  intros I Hpc B. unfold gstep in B. rewrite Hpc in B. injection B as <-.
  assert (o = OWN) by (apply (owned_is_OWN c s t); [exact I | rewrite Hpc; reflexivity]). subst o. rewrite OWN_unlock.
  destruct (cancelled s) eqn:Ca; apply Inv_holder_move; rewrite ?Hpc; try reflexivity; try discriminate; auto; own_goal.
Qed.

Lemma step_wpend c s t o s' : Inv c s -> pcs s t = PW_pend o -> gstep c s t = Some s' -> Inv c s'.
Proof.
  intros I Hpc B. unfold gstep in B. rewrite Hpc in B. injection B as <-.
  assert (o = OWN) by (apply (owned_is_OWN c s t); [exact I | rewrite Hpc; reflexivity]). subst o. rewrite OWN_unlock.
  destruct (Z.eqb_spec (pend s) 0) as [P0|P0]; apply Inv_holder_move; rewrite ?Hpc; try reflexivity; try discriminate; auto; own_goal.
Qed.

Lemma step_wpost c s t o s' : Inv c s -> pcs s t = PW_post o -> gstep c s t = Some s' -> Inv c s'.
Proof.
  intros I Hpc B. unfold gstep in B. rewrite Hpc in B. injection B as <-.
  assert (o = OWN) by (apply (owned_is_OWN c s t); [exact I | rewrite Hpc; reflexivity]). subst o. rewrite OWN_unlock.
  destruct (cancelled s || negb (starve c)); apply Inv_holder_move; rewrite ?Hpc; try reflexivity; try discriminate; auto; own_goal.
Qed.

Lemma step_wpost2 c s t o s' : Inv c s -> pcs s t = PW_post2 o -> gstep c s t = Some s' -> Inv c s'.
Proof.
  intros I Hpc B. unfold gstep in B. rewrite Hpc in B. injection B as <-.
  assert (o = OWN) by (apply (owned_is_OWN c s t); [exact I | rewrite Hpc; reflexivity]). subst o. rewrite OWN_unlock.
  destruct (Z.eqb_spec (pend s) 0) as [P0|P0]; apply Inv_holder_move; rewrite ?Hpc; try reflexivity; try discriminate; auto; own_goal.
Qed.

(* a step of the token holder that changes ghost / data state: the other threads are unaffected *)
Lemma threads_after_holder_step s s' t p' :
  (forall u, thread_inv s u) -> token s = Some (Some t) -> token s' = Some (Some t) -> wakers s' = wakers s ->
  rwakers s' = rwakers s -> pcs s' = upd (pcs s) t p' -> token_pc p' = true ->
  (forall o, owned_of p' = Some o -> o = OWN) -> (forall o x, p' = PW_call o x -> x <> 0) ->
  forall u, thread_inv s' u.
Proof.
  intros T K K' Wk RWk P H O CZ u. destruct (Z.eq_dec u t) as [->|N].
  - destruct (T t) as (T1 & T2 & T3 & T4 & T5 & T6). apply T1 in K.
    assert (NW0 : waker_pc (pcs s t) = false) by (destruct (pcs s t); cbn in K |- *; try discriminate; reflexivity).
    assert (NR0 : rwaker_pc (pcs s t) = false) by (destruct (pcs s t); cbn in K |- *; try discriminate; reflexivity).
    unfold thread_inv. rewrite P, upd_same, K', Wk, RWk.
    split; [|split; [|split; [|split; [|split]]]]; auto.
    + split; auto.
    + split; [destruct p'; cbn in H |- *; discriminate | intros Hin; apply T2 in Hin; congruence].
    + split; [destruct p'; cbn in H |- *; discriminate | intros Hin; apply T3 in Hin; congruence].
    + intros q E. destruct p'; cbn in H, E; discriminate.
  - apply (thread_other s _ t u N (T u)); [rewrite P; apply upd_other; exact N | rewrite K, K'; tauto | rewrite Wk; tauto | rewrite RWk; tauto].
Qed.

Lemma latch_next_cases k o x : (x = 0 /\ latch_next k o x = PW_post o) \/ (x <> 0 /\ latch_next k o x = PW_call o x).
Proof.
  unfold latch_next. destruct (Z.eqb_spec x 0) as [->|N]; [left|right]; split; auto. destruct (SrcData.is_replace k); reflexivity.
Qed.

Lemma step_latch c s t o s' : Inv c s -> pcs s t = PW_latch o -> gstep c s t = Some s' -> Inv c s'.
Proof.
  intros I Hpc B. unfold gstep in B. rewrite Hpc in B. injection B as <-.
  assert (o = OWN) by (apply (owned_is_OWN c s t); [exact I | rewrite Hpc; reflexivity]). subst o.
  destruct I as [[r G] T].
  pose proof (holder s t (T t)) as K. rewrite Hpc in K. specialize (K eq_refl).
  destruct G. rewrite K in *. rewrite Hpc in *. cbn [locked_pc latched_pc running_pc] in *.
  assert (Lv : (match latch_next (ck c) OWN (pend s) with PW_call _ x => x | _ => 0 end) = pend s).
  { destruct (latch_next_cases (ck c) OWN (pend s)) as [[Z0 ->]|[NZ ->]]; [congruence|reflexivity]. }
  split.
  - exists r. constructor; sproj; rewrite ?K, ?upd_same; try assumption; try lia.
    + destruct (latch_next_cases (ck c) OWN (pend s)) as [[_ ->]|[_ ->]]; exact g_lock0.
    + rewrite Lv. apply data_ok_latch. rewrite <- g_latched0. exact g_data0.
    + destruct (latch_next_cases (ck c) OWN (pend s)) as [[_ ->]|[_ ->]]; reflexivity.
    + destruct (latch_next_cases (ck c) OWN (pend s)) as [[_ ->]|[_ ->]]; exact g_running0.
  - apply (threads_after_holder_step s _ t (latch_next (ck c) OWN (pend s))); auto.
    + destruct (latch_next_cases (ck c) OWN (pend s)) as [[_ ->]|[_ ->]]; reflexivity.
    + intros o E. destruct (latch_next_cases (ck c) OWN (pend s)) as [[_ L]|[_ L]]; rewrite L in E; injection E as <-; reflexivity.
    + intros o x E. destruct (latch_next_cases (ck c) OWN (pend s)) as [[_ L]|[NZ L]]; rewrite L in E; [discriminate|].
      injection E as _ <-. exact NZ.
Qed.

Lemma step_call c s t o x s' : Inv c s -> pcs s t = PW_call o x -> gstep c s t = Some s' -> Inv c s'.
Proof.
  intros I Hpc B. unfold gstep in B. rewrite Hpc in B. injection B as <-.
  assert (o = OWN) by (apply (owned_is_OWN c s t); [exact I | rewrite Hpc; reflexivity]). subst o.
  destruct I as [[r G] T].
  pose proof (holder s t (T t)) as K. rewrite Hpc in K. specialize (K eq_refl).
  destruct (T t) as (_ & _ & _ & _ & _ & T6). pose proof (T6 _ _ Hpc) as NZ.
  destruct G. rewrite K in *. rewrite Hpc in *. cbn [locked_pc latched_pc running_pc] in *.
  split.
  - exists r. constructor; sproj; rewrite ?K, ?upd_same; try assumption; try lia; try reflexivity; try exact hi_ok_0.
    + intros w E. injection E as <-. rewrite upd_same. intros _. apply (g_dirty0 t); auto. rewrite Hpc. reflexivity.
    + apply data_ok_deliver; [|exact NZ]. rewrite <- g_latched0. exact g_data0.
  - apply (threads_after_holder_step s _ t (PW_incall OWN)); auto; [own_goal | discriminate].
Qed.

Lemma step_incall c s t o s' : Inv c s -> pcs s t = PW_incall o -> gstep c s t = Some s' -> Inv c s'.
Proof.
  intros I Hpc B. unfold gstep in B. rewrite Hpc in B. injection B as <-.
  assert (o = OWN) by (apply (owned_is_OWN c s t); [exact I | rewrite Hpc; reflexivity]). subst o.
  destruct I as [[r G] T].
  pose proof (holder s t (T t)) as K. rewrite Hpc in K. specialize (K eq_refl).
  destruct G. rewrite K in *. rewrite Hpc in *. cbn [locked_pc latched_pc running_pc] in *.
  split.
  - exists r. constructor; sproj; rewrite ?K, ?upd_same; try assumption; try lia; try reflexivity; try exact hi_ok_0.
    intros w E. injection E as <-. rewrite upd_same. intros _. apply (g_dirty0 t); auto. rewrite Hpc. reflexivity.
  - apply (threads_after_holder_step s _ t (PW_post OWN)); auto; [own_goal | discriminate].
Qed.

Lemma step_unlock c s t o s' : Inv c s -> pcs s t = PW_unlock o -> gstep c s t = Some s' -> Inv c s'.
Proof.
  intros I Hpc B. unfold gstep in B. rewrite Hpc in B.
  assert (o = OWN) by (apply (owned_is_OWN c s t); [exact I | rewrite Hpc; reflexivity]). subst o.
  pose proof I as I'. destruct I' as [[r G] T].
  pose proof (holder s t (T t)) as K. rewrite Hpc in K. specialize (K eq_refl).
  destruct G. rewrite K in *. rewrite Hpc in *. cbn [locked_pc latched_pc running_pc] in *.
  destruct g_lock0 as [Vt (O & Ib & Wq)]. pose proof g_wf0 as W. unfold wfr in W.
  assert (En : f_enq r = 1) by (apply g_enq0; discriminate).
  rewrite g_enc0 in B.
  change OWN with (18014398509481984 + 2199023255552 + 2147483648 * 1) in B.
  assert (Others : forall p st', forall u, u <> t -> thread_inv (set_token (set_pc (set_st s st') t p) None) u).
  { intros p st' u N. apply (thread_other s _ t u N (T u)); sproj; [apply upd_other; exact N | | tauto | tauto].
    rewrite K. split; intros E; [discriminate | injection E as E; congruence]. }
  assert (Self : forall st', thread_inv (set_token (set_pc (set_st s st') t Idle) None) t).
  { intros st'. unfold thread_inv. sproj. rewrite upd_same. cbn [token_pc locked_pc waker_pc rwaker_pc owned_of qos_of orb].
    destruct (T t) as (_ & T2 & T3 & _). rewrite Hpc in T2, T3. cbn [waker_pc rwaker_pc] in T2, T3.
    split; [|split; [|split; [|split; [|split]]]]; try (intros; discriminate); auto. split; discriminate. }
  destruct (Z.eqb_spec (f_hi r) 0) as [H0|H0].
  - rewrite (unlock_fields r 1 g_wf0 H0 Ib Wq) in B by lia.
    destruct (Z.eqb_spec (f_d r) 1) as [D|D].
    + (* refused: somebody made the source dirty; clear the bit and look again *)
      injection B as <-. change (18014398509481984 + 2199023255552 + 2147483648 * 1) with OWN.
      apply Inv_holder_move; rewrite ?Hpc; try reflexivity; try discriminate; auto; own_goal.
    + injection B as <-.
      set (r' := mk 0 0 (f_enq r - 1) 0 0 (f_role r) (f_em r) 0 (f_pb r) 4095 0 0) in *.
      split.
      * exists r'. subst r'. constructor; sproj; unfold mk; cbn [f_tr f_em f_pb f_hi f_role f_enq f_d];
          try assumption; try lia; try reflexivity; try exact hi_ok_0.
        -- apply wfr_mk; lia.
        -- rewrite En. split; [discriminate | congruence].
        -- unfold free; cbn; auto.
        -- intros Hp Hc. right. left. intros Hw. apply D. apply (g_dirty0 t); auto. rewrite Hpc. reflexivity.
        -- intros w X. discriminate X.
      * intros u. destruct (Z.eq_dec u t) as [->|N]; [apply Self | apply Others; exact N].
  - (* suspended: the lock is given back whatever DIRTY says; the suspension is responsible *)
    assert (Hh : 0 < f_hi r) by lia.
    rewrite (unlock_fields_susp r 1 g_wf0 Hh Ib Wq) in B by lia. injection B as <-.
    set (r' := mk 0 0 (f_enq r - 1) (f_mq r) 0 (f_role r) (f_em r) (f_d r) (f_pb r) 4095 0 (f_hi r)) in *.
    split.
    + exists r'. subst r'. constructor; sproj; unfold mk; cbn [f_tr f_em f_pb f_hi f_role f_enq f_d];
        try assumption; try lia; try reflexivity; try exact hi_ok_0.
      * apply wfr_mk; lia.
      * rewrite En. split; [discriminate | congruence].
      * unfold free; cbn; auto.
    + intros u. destruct (Z.eq_dec u t) as [->|N]; [apply Self | apply Others; exact N].
Qed.

Lemma step_xor c s t o s' : Inv c s -> pcs s t = PW_xor o -> gstep c s t = Some s' -> Inv c s'.
Proof.
  intros I Hpc B. unfold gstep in B. rewrite Hpc in B. injection B as <-.
  assert (o = OWN) by (apply (owned_is_OWN c s t); [exact I | rewrite Hpc; reflexivity]). subst o.
  destruct I as [[r G] T].
  pose proof (holder s t (T t)) as K. rewrite Hpc in K. specialize (K eq_refl).
  destruct G. rewrite K in *. rewrite Hpc in *. cbn [locked_pc latched_pc running_pc] in *.
  pose proof g_wf0 as W. unfold wfr in W.
  unfold DIRTY. rewrite g_enc0. rewrite (xor_dirty_fields r g_wf0).
  set (r' := mk (f_owner r) (f_tr r) (f_enq r) (f_mq r) (f_ov r) (f_role r) (f_em r) (1 - f_d r) (f_pb r) (f_wq r) (f_ib r) (f_hi r)).
  set (p' := if troot c then PW_susp OWN else PW_fin OWN).
  assert (Pp : locked_pc p' = true /\ examined_pc p' = false /\ latched_pc p' = 0 /\ running_pc t p' = None /\ token_pc p' = true).
  { subst p'. destruct (troot c); cbn; auto. }
  destruct Pp as (P1 & P2 & P3 & P4 & P5).
  split.
  - exists r'. subst r'. constructor; sproj; rewrite ?K, ?upd_same, ?P1, ?P3, ?P4; unfold mk; cbn [f_tr f_em f_pb f_hi f_role f_enq f_d];
      try assumption; try lia; try reflexivity; try exact hi_ok_0.
    + apply wfr_mk; lia.
    + intros w E. injection E as <-. rewrite upd_same, P2. discriminate.
  - apply (threads_after_holder_step s _ t p'); auto.
    + intros o E. unfold p' in E. destruct (troot c); injection E as <-; reflexivity.
    + intros o x E. unfold p' in E. destruct (troot c); discriminate.
Qed.

Lemma step_fin c s t o s' : Inv c s -> pcs s t = PW_fin o -> gstep c s t = Some s' -> Inv c s'.
Proof.
  intros I Hpc B. unfold gstep in B. rewrite Hpc in B.
  assert (o = OWN) by (apply (owned_is_OWN c s t); [exact I | rewrite Hpc; reflexivity]). subst o.
  pose proof I as I'. destruct I' as [[r G] T].
  pose proof (holder s t (T t)) as K. rewrite Hpc in K. specialize (K eq_refl).
  destruct G. rewrite K in *. rewrite Hpc in *. cbn [locked_pc latched_pc running_pc] in *.
  destruct g_lock0 as [Vt (O & Ib & Wq)]. pose proof g_wf0 as W. unfold wfr in W.
  assert (En : f_enq r = 1) by (apply g_enq0; discriminate).
  rewrite g_enc0 in B. unfold ENQUEUED in B.
  change OWN with (18014398509481984 + 2199023255552 + 2147483648 * 1) in B.
  rewrite (finish_fields r 1 g_wf0 Ib Wq) in B by lia.
  rewrite (sub_owned r 1 g_wf0 Ib Wq) in B by lia.
  set (e' := if (f_hi r =? 0) && (f_enq r - 1 =? 0) && (f_em r =? 0) then 1 else f_enq r - 1) in *.
  assert (He' : e' = if f_hi r =? 0 then 1 else 0).
  { subst e'. rewrite En, g_em0. cbn [Z.sub Z.eqb andb Z.add Z.opp Z.pos_sub]. destruct (f_hi r =? 0); reflexivity. }
  set (r' := mk 0 0 e' (f_mq r) 0 (f_role r) (f_em r) 1 (f_pb r) 4095 0 (f_hi r)) in *.
  assert (W' : wfr r') by (subst r'; apply wfr_mk; try lia; rewrite He'; destruct (f_hi r =? 0); lia).
  assert (Wu : wfr (unown r 1)) by (apply unown_wf; [assumption|lia]).
  rewrite (xor_enqueued (unown r 1) r' Wu W') in B.
  assert (E1 : f_enq (unown r 1) = 0) by (unfold unown, mk; cbn [f_enq]; lia).
  assert (E2 : f_enq r' = e') by reflexivity.
  rewrite E1, E2, He' in B. cbn [Z.eqb xorb] in B.
  destruct (Z.eqb_spec (f_hi r) 0) as [H0|H0].
  - (* re-enqueue: the holder keeps the token and pushes the source on its target *)
    cbn [Z.eqb xorb] in B. injection B as <-.
    split.
    + exists r'. subst r'. constructor; sproj; rewrite ?K, ?upd_same; unfold mk; cbn [f_tr f_em f_pb f_hi f_role f_enq f_d];
        try assumption; try lia; try reflexivity; try exact hi_ok_0.
      * rewrite He'. split; [discriminate | reflexivity].
      * cbn [locked_pc]. split; [exact Vt | unfold free; cbn; auto].
    + apply (threads_after_holder_step s _ t PS_rootpush); auto; discriminate.
  - (* suspended: the source is left un-enqueued and DIRTY; the suspension is responsible *)
    cbn [Z.eqb xorb] in B. injection B as <-.
    assert (Hh : 0 < f_hi r) by lia.
    split.
    + exists r'. subst r'. constructor; sproj; unfold mk; cbn [f_tr f_em f_pb f_hi f_role f_enq f_d];
        try assumption; try lia; try reflexivity; try exact hi_ok_0.
      * rewrite He'. split; [discriminate | congruence].
      * unfold free; cbn; auto.
    + intros u. destruct (Z.eq_dec u t) as [->|N].
      * unfold thread_inv. sproj. rewrite upd_same. cbn [token_pc locked_pc waker_pc rwaker_pc owned_of qos_of orb].
        destruct (T t) as (_ & T2 & T3 & _). rewrite Hpc in T2, T3. cbn [waker_pc rwaker_pc] in T2, T3.
        split; [|split; [|split; [|split; [|split]]]]; try (intros; discriminate); auto. split; discriminate.
      * apply (thread_other s _ t u N (T u)); sproj; [apply upd_other; exact N | | tauto | tauto].
        rewrite K. split; intros E; [discriminate | injection E as E; congruence].
Qed.

(* ---------------------------------------------------------------- activation and installation *)
Lemma Inv_set_installed c s b : Inv c s -> Inv c (set_installed s b).
Proof.
  intros [[r G] T]. split; [|exact T]. exists r. destruct G. constructor; sproj; assumption.
Qed.

Lemma step_winst c s t o s' : Inv c s -> pcs s t = PW_inst o -> gstep c s t = Some s' -> Inv c s'.
Proof.
  intros I Hpc B. unfold gstep in B. rewrite Hpc in B. injection B as <-.
  assert (o = OWN) by (apply (owned_is_OWN c s t); [exact I | rewrite Hpc; reflexivity]). subst o.
  apply (Inv_holder_move c (set_installed s true) t (PW_susp OWN)); sproj; rewrite ?Hpc; try reflexivity; try discriminate; auto.
  - apply Inv_set_installed. exact I.
  - own_goal.
Qed.

Section HiArith.
  Local Ltac Zify.zify_post_hook ::= Z.div_mod_to_equations.
  Lemma hi_inactive_bit a : 0 <= a -> hi_ok a -> ((a / 2) mod 2 =? 1) = (a mod 8 =? 3).
  Proof.
    intros P H. unfold hi_ok in H.
    destruct (Z.eqb_spec ((a / 2) mod 2) 1); destruct (Z.eqb_spec (a mod 8) 3); try reflexivity; exfalso; lia.
  Qed.
  Lemma hi_sub2 a : a mod 8 = 3 -> (a - 2) mod 8 = 1.
  Proof. intros. lia. Qed.
  Lemma hi_par_sub2 a : ((a - 2) mod 2 =? 1) = (a mod 2 =? 1).
  Proof. destruct (Z.eqb_spec ((a - 2) mod 2) 1); destruct (Z.eqb_spec (a mod 2) 1); try reflexivity; exfalso; lia. Qed.
  Lemma hi_3_or_more a : 0 <= a -> a mod 8 = 3 -> a <> 3 -> 11 <= a.
  Proof. intros. lia. Qed.
End HiArith.

Lemma step_armw c s t q s' : Inv c s -> pcs s t = PA_rmw q -> gstep c s t = Some s' -> Inv c s'.
Proof.
  intros I Hpc B. unfold gstep in B. rewrite Hpc in B.
  pose proof I as [[r G] T]. pose proof (not_holder s t (T t)) as K. rewrite Hpc in K. specialize (K eq_refl).
  destruct (T t) as (T1 & T2 & T3 & T4 & T5 & T6). rewrite Hpc in T1, T2, T3, T4, T5, T6. pose proof (T5 q eq_refl) as Q.
  pose proof G as G'. destruct G'. pose proof g_wf0 as W. unfold wfr in W.
  rewrite g_enc0 in B. rewrite (activate_fields r g_wf0) in B.
  assert (Word : forall h p, 0 <= h < 512 -> hi_ok h -> 0 < h -> token_pc p = false -> waker_pc p = false -> rwaker_pc p = false ->
                 (forall q0, qos_of p = Some q0 -> 0 <= q0 < 8) -> Inv c (set_pc (set_st s (enc (set_hi r h))) t p)).
  { intros h p Hh Ho Hp P1 P2 P3 P4. split.
    - exists (set_hi r h).
      apply (ginv_other_word _ s _ r _ t p G K); try reflexivity; try assumption; sproj;
        try (unfold set_hi, mk; cbn [f_tr f_em f_pb f_hi f_role f_enq f_owner f_ib f_wq f_d]; auto; fail).
      + apply set_hi_wf; assumption.
      + intros w _ _ _ _ _ X. unfold set_hi, mk in X; cbn [f_hi] in X. lia.
    - apply threads_other_word; rewrite ?Hpc; auto. }
  destruct (Z.eqb_spec (f_hi r) 3) as [H3|H3].
  - (* { sc:0 i:1 na:1 } -> { sc:1 }: this thread finalises the activation *)
    assert (W8 : wfr (set_hi r 8)) by (apply set_hi_wf; [assumption|lia]).
    rewrite (xor_needs_activation r (set_hi r 8) g_wf0 W8) in B.
    assert (P1 : (f_hi r mod 2 =? 1) = true) by (rewrite H3; reflexivity).
    assert (P2 : (f_hi (set_hi r 8) mod 2 =? 1) = false) by reflexivity.
    rewrite P1, P2 in B. cbn [xorb] in B. injection B as <-.
    apply Word; try reflexivity; try lia; [apply hi_ok_8|]. intros q0 E. injection E as <-. exact Q.
  - rewrite (hi_inactive_bit (f_hi r)) in B by (try lia; assumption).
    destruct (Z.eqb_spec (f_hi r mod 8) 3) as [M3|M3].
    + (* suspended while inactive: only INACTIVE is cleared; the last resume will activate *)
      pose proof (hi_3_or_more (f_hi r) ltac:(lia) M3 H3) as H11.
      assert (W2 : wfr (set_hi r (f_hi r - 2))) by (apply set_hi_wf; [assumption|lia]).
      rewrite (xor_needs_activation r (set_hi r (f_hi r - 2)) g_wf0 W2) in B.
      assert (E1 : f_hi (set_hi r (f_hi r - 2)) = f_hi r - 2) by reflexivity.
      rewrite E1, hi_par_sub2, xorb_nilpotent in B.
      unfold suspended_word in B. rewrite (is_suspended_f _ W2), E1 in B.
      assert (S : (0 <? f_hi r - 2) = true) by (apply Z.ltb_lt; lia). rewrite S in B. injection B as <-.
      apply Word; try reflexivity; try lia; [right; left; apply hi_sub2; exact M3 | discriminate].
    + (* already active *)
      injection B as <-. apply Inv_other_move; rewrite ?Hpc; auto. discriminate.
Qed.

Lemma step_arole c s t q s' : Inv c s -> pcs s t = PA_role q -> gstep c s t = Some s' -> Inv c s'.
Proof.
  intros I Hpc B. unfold gstep in B. rewrite Hpc in B.
  pose proof I as [[r G] T]. pose proof (not_holder s t (T t)) as K. rewrite Hpc in K. specialize (K eq_refl).
  destruct (T t) as (T1 & T2 & T3 & T4 & T5 & T6). rewrite Hpc in T1, T2, T3, T4, T5, T6. pose proof (T5 q eq_refl) as Q.
  pose proof G as G'. destruct G'. pose proof g_wf0 as W. unfold wfr in W.
  assert (Rb : 0 <= role_bits c < 2) by (unfold role_bits; destruct (canon c); lia).
  rewrite g_enc0 in B. rewrite (inherit_fields r (role_bits c) g_wf0) in B by lia.
  destruct (Z.eqb_spec (f_role r) (role_bits c)) as [E|E].
  - injection B as <-. apply Inv_other_move; rewrite ?Hpc; auto; try (intros q0 X; injection X as <-; exact Q).
  - injection B as <-. split.
    + exists (set_role r (role_bits c)).
      apply (ginv_other_word _ s _ r _ t (PA_inst q) G K); try reflexivity; try assumption; sproj;
        try (unfold set_role, mk; cbn [f_tr f_em f_pb f_hi f_role f_enq f_owner f_ib f_wq f_d]; auto; lia).
      * apply set_role_wf; [assumption|lia].
    + apply threads_other_word; rewrite ?Hpc; auto; try (intros q0 X; injection X as <-; exact Q).
Qed.

Lemma step_ainst c s t q s' : Inv c s -> pcs s t = PA_inst q -> gstep c s t = Some s' -> Inv c s'.
Proof.
  intros I Hpc B. unfold gstep in B. rewrite Hpc in B. injection B as <-.
  destruct I as [IG T]. destruct (T t) as (_ & _ & _ & _ & T5 & _). rewrite Hpc in T5. pose proof (T5 q eq_refl) as Q.
  apply (Inv_other_move c (set_installed s (installed s || early c)) t (PR_rmw q)); sproj; rewrite ?Hpc; auto;
    try (intros q0 X; injection X as <-; exact Q). apply Inv_set_installed. split; assumption.
Qed.

Theorem step_preserves c s a s' : Inv c s -> step c s a s' -> Inv c s'.
Proof.
  intros I H. destruct a as [t k|t]; destruct H as [V B].
  - exact (begin_preserves c s t k s' I V B).
  - destruct (pcs s t) eqn:Hpc.
    + unfold gstep in B. rewrite Hpc in B. discriminate.
    + unfold gstep in B. rewrite Hpc in B. discriminate.
    + eapply step_mflags; eauto.
    + eapply step_mop; eauto.
    + eapply step_sflags; eauto.
    + eapply step_spend; eauto.
    + eapply step_swake; eauto.
    + eapply step_rootpush; eauto.
    + eapply step_cset; eauto.
    + eapply step_urmw; eauto.
    + eapply step_rrmw; eauto.
    + eapply step_rflags; eauto.
    + eapply step_rpend; eauto.
    + eapply step_rwake; eauto.
    + eapply step_armw; eauto.
    + eapply step_arole; eauto.
    + eapply step_ainst; eauto.
    + eapply step_lock; eauto.
    + eapply step_winst; eauto.
    + eapply step_wsusp; eauto.
    + eapply step_wflags; eauto.
    + eapply step_wpend; eauto.
    + eapply step_latch; eauto.
    + eapply step_call; eauto.
    + eapply step_incall; eauto.
    + eapply step_wpost; eauto.
    + eapply step_wpost2; eauto.
    + eapply step_unlock; eauto.
    + eapply step_xor; eauto.
    + eapply step_fin; eauto.
Qed.

Theorem Inv_reachable c rb s : 0 <= rb < 2 -> reach c rb s -> Inv c s.
Proof.
  intros Hrb. apply invariant_lift.
  - intros s0 [->| ->]; [apply Inv_init; exact Hrb | apply Inv_init_inactive].
  - intros s1 a s2 I H. exact (step_preserves c s1 a s2 I H).
Qed.

(* ---------------------------------------------------------------- what the invariant says to a client *)
Lemma waker_lists_empty c s : Inv c s -> quiescent s -> wakers s = [] /\ rwakers s = [] /\ (forall w, token s <> Some (Some w)).
Proof.
  intros [_ T] Q. split; [|split].
  - destruct (wakers s) as [|w l] eqn:E; [reflexivity|]. destruct (T w) as (_ & T2 & _). rewrite Q in T2.
    assert (In w (wakers s)) by (rewrite E; left; reflexivity). apply T2 in H. discriminate.
  - destruct (rwakers s) as [|w l] eqn:E; [reflexivity|]. destruct (T w) as (_ & _ & T3 & _). rewrite Q in T3.
    assert (In w (rwakers s)) by (rewrite E; left; reflexivity). apply T3 in H. discriminate.
  - intros w K. destruct (T w) as (T1 & _). rewrite Q in T1. assert (token_pc Idle = true) by (apply T1; exact K). discriminate.
Qed.

(* the drain lock of the real dq_state word is exclusive: two threads inside the locked region are the same thread, and
   the word names it as drain owner with the full width taken *)
Theorem lock_exclusive c rb s t1 t2 :
  0 <= rb < 2 -> reach c rb s -> locked_pc (pcs s t1) = true -> locked_pc (pcs s t2) = true -> t1 = t2.
Proof.
  intros Hrb R L1 L2. destruct (Inv_reachable c rb s Hrb R) as [_ T].
  pose proof (holder s t1 (T t1)) as K1. pose proof (holder s t2 (T t2)) as K2.
  unfold token_pc in K1, K2. rewrite L1 in K1. rewrite L2 in K2. specialize (K1 eq_refl). specialize (K2 eq_refl). congruence.
Qed.

Theorem locked_word c rb s t :
  0 <= rb < 2 -> reach c rb s -> locked_pc (pcs s t) = true ->
  exists r, st s = enc r /\ wfr r /\ f_owner r = t /\ f_ib r = 1 /\ f_wq r = 4096 /\ f_enq r = 1 /\ token s = Some (Some t).
Proof.
  intros Hrb R L. destruct (Inv_reachable c rb s Hrb R) as [[r G] T].
  pose proof (holder s t (T t)) as K. unfold token_pc in K. rewrite L in K. specialize (K eq_refl).
  destruct G. rewrite K in *. rewrite L in g_lock0. destruct g_lock0 as [_ (O & Ib & Wq)].
  exists r. split; [exact g_enc0|]. split; [exact g_wf0|]. split; [exact O|]. split; [exact Ib|]. split; [exact Wq|].
  split; [apply g_enq0; discriminate | reflexivity].
Qed.

(* the event handler runs only inside the locked region: never on two threads at once, whatever the target queue *)
Theorem handler_exclusive c rb s t1 t2 o1 o2 :
  0 <= rb < 2 -> reach c rb s -> pcs s t1 = PW_incall o1 -> pcs s t2 = PW_incall o2 -> t1 = t2 /\ running s = Some t1.
Proof.
  intros Hrb R P1 P2.
  assert (E : t1 = t2) by (apply (lock_exclusive c rb s t1 t2 Hrb R); [rewrite P1 | rewrite P2]; reflexivity).
  split; [exact E|]. destruct (Inv_reachable c rb s Hrb R) as [[r G] T]. destruct G.
  pose proof (holder s t1 (T t1)) as K. rewrite P1 in K. specialize (K eq_refl).
  rewrite g_running0, K, P1. reflexivity.
Qed.
Theorem running_is_locked c rb s t :
  0 <= rb < 2 -> reach c rb s -> running s = Some t -> exists o, pcs s t = PW_incall o.
Proof.
  intros Hrb R Ru. destruct (Inv_reachable c rb s Hrb R) as [[r G] T]. destruct G. rewrite g_running0 in Ru.
  destruct (token s) as [[w|]|]; try discriminate. destruct (pcs s w) eqn:E; cbn in Ru; try discriminate.
  injection Ru as <-. eauto.
Qed.

(* pending data of an uncancelled source always has somebody responsible for it *)
Theorem pending_has_responsible c rb s :
  0 <= rb < 2 -> reach c rb s -> pend s <> 0 -> cancelled s = false ->
  token s <> None \/ wakers s <> [] \/ rwakers s <> [] \/ suspended_word (st s) = true.
Proof.
  intros Hrb R P C. destruct (Inv_reachable c rb s Hrb R) as [[r G] T]. destruct G.
  destruct (g_nostrand0 P C) as [X|[X|[X|X]]]; auto. right. right. right.
  unfold suspended_word. rewrite g_enc0, (is_suspended_f r g_wf0). apply Z.ltb_lt. exact X.
Qed.

(* nothing is stranded: when no thread is inside an API call or a drain, an unsuspended uncancelled source with pending
   data sits in its target queue (a worker of that queue can pick it up: `begin (CWorker _)` is enabled) *)
Theorem not_stranded c rb s :
  0 <= rb < 2 -> reach c rb s -> quiescent s -> pend s <> 0 -> cancelled s = false -> suspended_word (st s) = false ->
  rootq s = 1 /\ token s = Some None /\ forall t fl, exists s', begin s t (CWorker fl) = Some s'.
Proof.
  intros Hrb R Q P C S. pose proof (Inv_reachable c rb s Hrb R) as I.
  destruct (waker_lists_empty c s I Q) as (W0 & R0 & NH). destruct I as [[r G] T]. destruct G.
  assert (H0 : ~ 0 < f_hi r).
  { unfold suspended_word in S. rewrite g_enc0, (is_suspended_f r g_wf0) in S. apply Z.ltb_ge in S. lia. }
  assert (K : token s = Some None).
  { destruct (g_nostrand0 P C) as [X|[X|[X|X]]]; try congruence; try contradiction.
    destruct (token s) as [[w|]|] eqn:K; [exfalso; apply (NH w); reflexivity | reflexivity | congruence]. }
  assert (Rq : rootq s = 1) by (rewrite g_rootq0, K; reflexivity).
  split; [exact Rq|]. split; [exact K|]. intros t fl. unfold begin. rewrite Q, Rq. cbn. eauto.
Qed.

(* the drainer that has looked cannot give the lock back over pending data: its unlock is refused (DIRTY) *)
Theorem unlock_refused_over_pending c rb s t o :
  0 <= rb < 2 -> reach c rb s -> pcs s t = PW_unlock o -> pend s <> 0 -> cancelled s = false -> wakers s = [] ->
  suspended_word (st s) = false -> gstep c s t = Some (set_pc s t (PW_xor o)).
Proof.
  intros Hrb R Hpc P C W0 S. pose proof (Inv_reachable c rb s Hrb R) as I.
  assert (o = OWN) by (apply (owned_is_OWN c s t); [exact I | rewrite Hpc; reflexivity]). subst o.
  destruct I as [[r G] T]. pose proof (holder s t (T t)) as K. rewrite Hpc in K. specialize (K eq_refl).
  destruct G. rewrite K in *. rewrite Hpc in *. cbn [locked_pc] in *. destruct g_lock0 as [Vt (O & Ib & Wq)].
  assert (H0 : f_hi r = 0).
  { unfold suspended_word in S. rewrite g_enc0, (is_suspended_f r g_wf0) in S. apply Z.ltb_ge in S.
    pose proof g_wf0 as W. unfold wfr in W. lia. }
  assert (En : f_enq r = 1) by (apply g_enq0; discriminate).
  assert (D : f_d r = 1) by (apply (g_dirty0 t); auto; rewrite Hpc; reflexivity).
  unfold gstep. rewrite Hpc, g_enc0. change OWN with (18014398509481984 + 2199023255552 + 2147483648 * 1).
  rewrite (unlock_fields r 1 g_wf0 H0 Ib Wq) by lia. rewrite D. reflexivity.
Qed.

(* ---- the data, on this model ---- *)
Lemma quiescent_unlatched c s : Inv c s -> quiescent s -> latched s = 0 /\ running s = None.
Proof.
  intros I Q. destruct (waker_lists_empty c s I Q) as (_ & _ & NH). destruct I as [[r G] _]. destruct G.
  rewrite g_latched0, g_running0. destruct (token s) as [[w|]|]; auto. exfalso. apply (NH w). reflexivity.
Qed.

Theorem add_conservation c rb s : 0 <= rb < 2 -> reach c rb s -> ck c = SrcData.KindAdd ->
  (SrcData.zsum (delivered s) + latched s + pend s) mod 2 ^ 64 = SrcData.zsum (merged s) mod 2 ^ 64 /\
  (quiescent s -> pend s = 0 -> SrcData.zsum (delivered s) mod 2 ^ 64 = SrcData.zsum (merged s) mod 2 ^ 64) /\
  (cancelled s = false -> dropped s = []).
Proof.
  intros Hrb R K. pose proof (Inv_reachable c rb s Hrb R) as I. pose proof I as [[r G] _]. destruct G.
  destruct g_data0 as (A & B & C). cbn in A, B, C. rewrite K in C. change SrcData_proofs.M64 with (2 ^ 64) in C.
  split; [exact C|]. split; [|exact B]. intros Q P0. destruct (quiescent_unlatched c s I Q) as [L0 _].
  rewrite <- C, L0, P0. f_equal. ring.
Qed.

Theorem or_union c rb s : 0 <= rb < 2 -> reach c rb s -> ck c = SrcData.KindOr ->
  Z.lor (SrcData.zlor (delivered s)) (Z.lor (latched s) (pend s)) = SrcData.zlor (merged s) /\
  (quiescent s -> pend s = 0 -> SrcData.zlor (delivered s) = SrcData.zlor (merged s)) /\
  (cancelled s = false -> dropped s = []).
Proof.
  intros Hrb R K. pose proof (Inv_reachable c rb s Hrb R) as I. pose proof I as [[r G] _]. destruct G.
  destruct g_data0 as (A & B & C). cbn in A, B, C. rewrite K in C.
  split; [exact C|]. split; [|exact B]. intros Q P0. destruct (quiescent_unlatched c s I Q) as [L0 _].
  rewrite <- C, L0, P0. rewrite !Z.lor_0_r. reflexivity.
Qed.

Theorem replace_spec c rb s : 0 <= rb < 2 -> reach c rb s -> ck c = SrcData.KindReplace ->
  Forall (fun d => In d (merged s)) (delivered s) /\
  (latched s = 0 \/ In (latched s) (merged s)) /\ (pend s = 0 \/ In (pend s) (merged s)) /\
  (forall v l, quiescent s -> merged s = v :: l -> v <> 0 -> pend s = 0 -> exists d, delivered s = v :: d) /\
  (cancelled s = false -> dropped s = []).
Proof.
  intros Hrb R K. pose proof (Inv_reachable c rb s Hrb R) as I. pose proof I as [[r G] _]. destruct G.
  destruct g_data0 as (A & B & C). cbn in A, B, C. rewrite K in C. destruct C as (C1 & C2 & C3 & C4).
  repeat split; auto.
  intros v l Q Em Nv P0. destruct (quiescent_unlatched c s I Q) as [L0 _].
  rewrite Em in C4. cbn [hd] in C4. destruct C4 as [X|(_ & [X|(_ & X)])]; [congruence|congruence|].
  destruct (delivered s) as [|d0 d]; cbn [hd] in X; [congruence|]. exists d. congruence.
Qed.

Theorem never_zero c rb s : 0 <= rb < 2 -> reach c rb s ->
  Forall (fun d => d <> 0) (delivered s) /\ (forall t o x, pcs s t = PW_call o x -> x <> 0 /\ latched s = x).
Proof.
  intros Hrb R. pose proof (Inv_reachable c rb s Hrb R) as [[r G] T]. destruct G.
  destruct g_data0 as (A & _). cbn in A. split; [exact A|]. intros t o x Hp.
  destruct (T t) as (T1 & _ & _ & _ & _ & T6). split; [apply (T6 _ _ Hp)|].
  assert (K : token s = Some (Some t)) by (apply T1; rewrite Hp; reflexivity).
  rewrite g_latched0, K, Hp. reflexivity.
Qed.

(* ---------------------------------------------------------------- no stuck state *)
(* no step of the protocol waits for another thread: every thread inside a call or a drain has an enabled step (the
   rmw loops always commit or give up on a word that satisfies the invariant) *)
Theorem step_enabled c rb s t :
  0 <= rb < 2 -> reach c rb s -> valid_tid t -> pcs s t <> Idle -> pcs s t <> POut -> exists s', gstep c s t = Some s'.
Proof.
  intros Hrb R Vt NI NO. pose proof (Inv_reachable c rb s Hrb R) as I. pose proof I as [[r G] T].
  destruct (T t) as (T1 & T2 & T3 & T4 & T5 & T6). pose proof G as G'. destruct G'. pose proof g_wf0 as W. unfold wfr in W.
  unfold gstep. destruct (pcs s t) eqn:Hpc; try contradiction; try (eexists; reflexivity).
  - (* PU_rmw *) destruct (suspend_loop 0 (st s)); eexists; reflexivity.
  - (* PR_rmw *) rewrite g_enc0, (resume_src_fields r g_wf0 g_hi0).
    destruct ((f_hi r =? 9) || (f_hi r =? 3)); [|destruct (f_hi r <? 8); [|cbv zeta; destruct (runnable_b (set_hi r (f_hi r - 8)) && (f_owner r =? 0))]];
      cbv iota beta;
      repeat (match goal with |- exists _, (if ?x then _ else _) = _ => destruct x end); eexists; reflexivity.
  - (* PR_wake *) pose proof (T5 q eq_refl) as Q. rewrite g_enc0. unfold ENQUEUED.
    rewrite (wakeup_fields_plain r q 1 1 g_wf0 Q eq_refl). cbv zeta.
    match goal with |- context [if ?x =? ?y then _ else _] => destruct (x =? y) end; eexists; reflexivity.
  - (* PA_rmw *) rewrite g_enc0, (activate_fields r g_wf0).
    destruct (f_hi r =? 3); [|destruct ((f_hi r / 2) mod 2 =? 1)]; cbv iota beta;
      repeat (match goal with |- exists _, (if ?x then _ else _) = _ => destruct x end); eexists; reflexivity.
  - (* PA_role *) assert (Rb : 0 <= role_bits c < 4) by (unfold role_bits; destruct (canon c); lia).
    rewrite g_enc0, (inherit_fields r (role_bits c) g_wf0 Rb). destruct (f_role r =? role_bits c); eexists; reflexivity.
  - (* PW_lock *) rewrite g_enc0, (lock_fields r t floor 0 g_wf0 Vt).
    destruct (lock_free r); [destruct ((f_role r mod 2 =? 1) && (floor <? f_mq r))|]; eexists; reflexivity.
  - (* PW_unlock *)
    assert (owned = OWN) by (apply T4; reflexivity). subst owned.
    assert (K : token s = Some (Some t)) by (apply T1; reflexivity).
    rewrite K, Hpc in g_lock0. cbn [locked_pc] in g_lock0. destruct g_lock0 as [_ (O & Ib & Wq)].
    assert (En : f_enq r = 1) by (apply g_enq0; rewrite K; discriminate).
    rewrite g_enc0. change OWN with (18014398509481984 + 2199023255552 + 2147483648 * 1).
    destruct (Z.eqb_spec (f_hi r) 0) as [H0|H0].
    + rewrite (unlock_fields r 1 g_wf0 H0 Ib Wq) by lia. destruct (f_d r =? 1); eexists; reflexivity.
    + rewrite (unlock_fields_susp r 1 g_wf0) by lia. eexists; reflexivity.
Qed.
