(* MainQT_sites.v — the atomic sites the observation automaton Model/MainQT.v expects are, in program order, kind by kind
   and memory order by memory order, the sites src2v reads from the source of the main-queue functions (Gen_mainq,
   regenerated on every run): a reordered, dropped or weakened atomic in the source breaks these reflexivity proofs. *)
From Coq Require Import ZArith Bool List.
From Verif Require Import Word Conc Gen_consts Gen_fields Gen_dqstate Gen_mainq SLane MainQ MainQT.
Import ListNotations.
Local Open Scope Z_scope.

Definition fld (off : Z) : nat :=
  if off =? O_ST then F_dq_state else if off =? O_TAIL then F_dq_items_tail else if off =? O_HEAD then F_dq_items_head
  else if off =? O_FLAGS then F_dq_atomic_flags else if off =? O_NEXT then F_do_next else F_do_targetq.
Definition qs (m : msite) : site := {| s_kind := ms_kind m; s_field := fld (ms_off m); s_order := ms_order m |}.
Definition os (x : akind * morder) (f : nat) : site := {| s_kind := fst x; s_field := f; s_order := snd x |}.
(* os_mpsc_get_head loads through a local pointer to dq_items_head (field name __n in the translation) *)
Definition get_head_site : site := {| s_kind := ms_kind S_get_head; s_field := F___n; s_order := ms_order S_get_head |}.
(* loads of the dq_atomic_flags OF THE ITEM at the head when it is itself a queue (_dispatch_object_is_barrier / _is_waiter):
   not on the main queue's words *)
Definition item_flags_site : site := {| s_kind := KLoad; s_field := F_dq_atomic_flags; s_order := Relaxed |}.

(* _dispatch_main_queue_push = _dispatch_queue_push_item: do_next = NULL, exchange the tail, link (next or head) *)
Lemma sites_main_queue_push :
  [os S_item_next_st F_do_next; qs S_xchg_tail; os S_item_next_st F_do_next; qs S_st_head] = f_dispatch_main_queue_push_sites.
Proof. reflexivity. Qed.

(* _dispatch_runloop_queue_poke: the relaxed rmw loop *)
Lemma sites_runloop_queue_poke : [qs S_ld_state; qs S_cas_rlx] = f_dispatch_runloop_queue_poke_sites.
Proof. reflexivity. Qed.

(* _dispatch_runloop_queue_wakeup: DQF_RELEASED ?, or DIRTY (release), probe (seq_cst), poke; else reset (and), owner load,
   probe again, poke *)
Lemma sites_runloop_queue_wakeup :
  [qs S_flags; qs S_dirty_or; qs S_probe; qs S_ld_state; qs S_cas_rlx; qs S_reset; qs S_ld_state; qs S_probe; qs S_ld_state; qs S_cas_rlx]
  = f_dispatch_runloop_queue_wakeup_sites.
Proof. reflexivity. Qed.

(* _dispatch_main_queue_wakeup: the thread-bound test comes first *)
Lemma sites_main_queue_wakeup : qs S_flags :: f_dispatch_runloop_queue_wakeup_sites = f_dispatch_main_queue_wakeup_sites.
Proof. reflexivity. Qed.

(* _dispatch_main_queue_drain up to the first callout: thread-bound test, owner test, (priority refresh: dq_state again),
   capture the snapshot (head acquire, head = NULL, exchange the tail with release), successor link (acquire) *)
Lemma sites_main_queue_drain :
  [qs S_flags; qs S_ld_state; qs S_ld_state; get_head_site; qs S_st_head; qs S_xchg_tail; os S_item_next_ld F_do_next]
  = f_dispatch_main_queue_drain_sites.
Proof. reflexivity. Qed.

(* _dispatch_lane_barrier_complete as cleanup2 calls it: suspended ?, head, [item's flags], class_barrier_complete loop *)
Lemma sites_lane_barrier_complete :
  [qs S_ld_state; get_head_site; item_flags_site; item_flags_site; qs S_ld_state; qs S_dirty_xor; qs S_cas_rel]
  = f_dispatch_lane_barrier_complete_sites.
Proof. reflexivity. Qed.

(* _dispatch_queue_cleanup2: acquire rmw loop, clear DQF_THREAD_BOUND, then the barrier completion *)
Lemma sites_queue_cleanup2 :
  [qs S_ld_state; qs S_cas_acq; qs S_flags_clr] ++ f_dispatch_lane_barrier_complete_sites = f_dispatch_queue_cleanup2_sites.
Proof. reflexivity. Qed.

(* the thread event of a synchronous caller: wait = dec acquire, slow path load acquire; signal = inc release *)
From Verif Require Import Gen_lanesites.
Lemma sites_thread_event :
  [os S_dte_sub F_dte_value] = f_dispatch_thread_event_wait_sites /\ [os S_dte_add F_dte_value] = f_dispatch_thread_event_signal_sites /\
  In (os S_dte_ld F_dte_value) f_dispatch_thread_event_wait_slow_sites.
Proof. repeat split; try reflexivity. vm_compute. tauto. Qed.

(* the memory orders of the generated rmw bodies the automaton replays *)
Lemma orders_match :
  smo runloop_queue_poke_loop_order = smo (ms_order S_cas_rlx) /\ smo runloop_wakeup_dirty_op_order = smo (ms_order S_dirty_or) /\
  smo runloop_reset_max_qos_op_order = smo (ms_order S_reset) /\ smo queue_cleanup2_loop_order = smo (ms_order S_cas_acq) /\
  smo class_barrier_complete_loop_order = smo (ms_order S_cas_rel) /\ smo class_barrier_complete_dirty_op_order = smo (ms_order S_dirty_xor) /\
  smo wakeup_loop_order = smo (ms_order S_cas_rel) /\ smo f_dispatch_queue_drain_try_lock_order = smo (ms_order S_cas_acq) /\
  smo f_dispatch_queue_drain_try_unlock_order = smo (ms_order S_cas_rel).
Proof. repeat split; reflexivity. Qed.
