(* SLaneS_steps_a.v — preservation of Inv (Proofs/SLaneS_inv.v) by `begin`, by the steps of dispatch_async_f and by
   the steps of the drainer, including the drainer's behaviour on suspended words. *)
From Coq Require Import ZArith Bool List Lia.
From Verif Require Import Word Bits Fields DqFields Conc Gen_consts Gen_dqstate Lane_fields SLaneS_fields SLaneS SLaneS_inv.
Import ListNotations.
Local Open Scope Z_scope.

Ltac dA G := destruct G as [Genc Gwf Gtr Gem Gpb Grole Genq Grootq Glock Gnostrand Gdirty Gnodup Gnextid Gorder Grunning].
Ltac dB B := destruct B as [Bcnt Bssc Bside Bsd Bact Bndr Bnds].

(* ---------------------------------------------------------------- tactics for the per-thread part *)
(* goals of the shape  b = true <-> X  where b is a closed boolean *)
Ltac iff_tac :=
  first
    [ assumption
    | tauto
    | split; [discriminate | intros E; first [discriminate | congruence | (apply in_remove_z in E; tauto) | contradiction]]
    | split; [intros _; first [reflexivity | left; reflexivity] | intros _; reflexivity]
    ].

Ltac self_tac :=
  split; [try iff_tac | split; [try iff_tac | split; [try iff_tac | split; [try iff_tac | split; [try iff_tac |
  split; [try iff_tac |
  split; [try (intros o X; first [discriminate X | injection X as <-; auto])
         | split; [try (intros q0 X; first [discriminate X | injection X as <-; auto]) | try reflexivity]]]]]]]].

Ltac other_iffs N :=
  first
    [ tauto
    | apply in_cons_other; exact N
    | apply in_remove_other; exact N
    | (eapply some_iff_drop; [exact N | eassumption])
    | (eapply some_iff_take; [exact N | eassumption])
    | (eapply tok_iff_drop; [exact N | eassumption | auto])
    | (eapply tok_iff_take; [exact N | auto])
    ].

(* ---------------------------------------------------------------- a thread changes only its own program point *)
Lemma ainv_move s r t p' :
  ainv s r ->
  (unlocking_pc p' = true -> unlocking_pc (pcs s t) = true \/ lst s = [] \/ 0 < f_hi r) ->
  inflight_pc p' = inflight_pc (pcs s t) -> running_pc t p' = running_pc t (pcs s t) ->
  ainv (set_pc s t p') r.
Proof.
  intros G U I R. dA G. unfold inflight in *.
  constructor; sproj; auto.
  - intros w E Hu Hl Hw. destruct (Z.eq_dec w t) as [->|N].
    + rewrite upd_same in Hu. destruct (U Hu) as [U'|[U'|U']]; [|contradiction|right; exact U'].
      apply (Gdirty t); auto.
    + rewrite upd_other in Hu by exact N. apply (Gdirty w); auto.
  - unfold inflight; sproj. destruct (lockh s) as [w|]; [|exact Gorder].
    destruct (Z.eq_dec w t) as [->|N]; [rewrite upd_same, I | rewrite upd_other by exact N]; exact Gorder.
  - destruct (lockh s) as [w|]; [|exact Grunning].
    destruct (Z.eq_dec w t) as [->|N]; [rewrite upd_same, R | rewrite upd_other by exact N]; exact Grunning.
Qed.

(* ainv reads only the lane fields *)
Lemma ainv_ext s s' r :
  ainv s r -> st s' = st s -> lst s' = lst s -> rootq s' = rootq s -> pcs s' = pcs s -> nextid s' = nextid s ->
  started s' = started s -> running s' = running s -> token s' = token s -> wakers s' = wakers s -> lockh s' = lockh s ->
  ainv s' r.
Proof.
  intros G E1 E2 E3 E4 E5 E6 E7 E8 E9 E10. dA G. unfold inflight in *.
  constructor; unfold inflight; rewrite ?E1, ?E2, ?E3, ?E4, ?E5, ?E6, ?E7, ?E8, ?E9, ?E10; assumption.
Qed.

Lemma side_eff_ext s s' : side s' = side s -> sidelock s' = sidelock s -> pcs s' = pcs s -> side_eff s' = side_eff s.
Proof. intros H1 H2 H3. unfold side_eff. rewrite H1, H2, H3. reflexivity. Qed.
Lemma lic_now_ext s s' : lockh s' = lockh s -> pcs s' = pcs s -> lic_now s' = lic_now s.
Proof. intros H1 H2. unfold lic_now. rewrite H1, H2. reflexivity. Qed.
Lemma binv_ext s s' r :
  binv s r -> side s' = side s -> sidelock s' = sidelock s -> pcs s' = pcs s -> susp_done s' = susp_done s ->
  rpre s' = rpre s -> sret s' = sret s -> binv s' r.
Proof. intros B H1 H2 H3 H4 H5 H6. apply (binv_frame s s' r r B); auto. apply side_eff_ext; auto. Qed.
Lemma cinv_ext s s' r :
  cinv s r -> pstarts s' = pstarts s -> plic s' = plic s -> lockh s' = lockh s -> pcs s' = pcs s -> cinv s' r.
Proof. intros C H1 H2 H3 H4. apply (cinv_frame s s' r r C); auto. apply lic_now_ext; auto. Qed.
Lemma dinv_ext ina s s' r :
  dinv ina s r -> started s' = started s -> lockh s' = lockh s -> act_called s' = act_called s -> pcs s' = pcs s ->
  dinv ina s' r.
Proof. intros [D1 D2 D3 D4 D5] H1 H2 H3 H4. constructor; rewrite ?H1, ?H2, ?H3, ?H4; assumption. Qed.
Lemma thread_ext s s' u :
  thread_inv s u -> pcs s' = pcs s -> token s' = token s -> wakers s' = wakers s -> lockh s' = lockh s ->
  sidelock s' = sidelock s -> rpre s' = rpre s -> sret s' = sret s -> thread_inv s' u.
Proof. intros T H1 H2 H3 H4 H5 H6 H7. unfold thread_inv. rewrite H1, H2, H3, H4, H5, H6, H7. exact T. Qed.

Lemma side_eff_move s t p' : side_adj p' = side_adj (pcs s t) -> side_eff (set_pc s t p') = side_eff s.
Proof.
  intros H. unfold side_eff; sproj. destruct (sidelock s) as [w|]; [|reflexivity].
  destruct (Z.eq_dec w t) as [->|N]; [rewrite upd_same, H | rewrite upd_other by exact N]; reflexivity.
Qed.

Lemma lic_now_move s t p' : licensed_pc p' = licensed_pc (pcs s t) -> lic_now (set_pc s t p') = lic_now s.
Proof.
  intros H. unfold lic_now; sproj. destruct (lockh s) as [w|]; [|reflexivity].
  destruct (Z.eq_dec w t) as [->|N]; [rewrite upd_same, H | rewrite upd_other by exact N]; reflexivity.
Qed.

Lemma threads_move s t p' :
  (forall u, thread_inv s u) ->
  token_pc p' = token_pc (pcs s t) -> waker_pc p' = waker_pc (pcs s t) -> lock_pc p' = lock_pc (pcs s t) ->
  sidelock_pc p' = sidelock_pc (pcs s t) -> rpre_pc p' = rpre_pc (pcs s t) -> sret_pc p' = sret_pc (pcs s t) ->
  (forall o, owned_of p' = Some o -> o = OWN) -> (forall q, qos_of p' = Some q -> 0 <= q < 8) -> dead_pc p' = false ->
  forall u, thread_inv (set_pc s t p') u.
Proof.
  intros T H1 H2 H3 H4 H5 H6 H7 H8 H9 u. destruct (Z.eq_dec u t) as [->|N].
  - destruct (T t) as (T1 & T2 & T3 & T4 & T5 & T6 & T7 & T8 & T9). unfold thread_inv. sproj. rewrite upd_same.
    rewrite H1, H2, H3, H4, H5, H6. auto 10.
  - apply (thread_other s _ t u N (T u)); sproj; [apply upd_other; exact N | tauto..].
Qed.

Lemma Inv_move ina s t p' :
  Inv ina s ->
  (unlocking_pc p' = true -> unlocking_pc (pcs s t) = true \/ lst s = [] \/ suspended_word (st s) = true) ->
  inflight_pc p' = inflight_pc (pcs s t) -> running_pc t p' = running_pc t (pcs s t) ->
  side_adj p' = side_adj (pcs s t) ->
  (licensed_pc p' = licensed_pc (pcs s t) \/ suspended_word (st s) = false) ->
  pcs s t <> PC_rmw -> p' <> PC_rmw ->
  token_pc p' = token_pc (pcs s t) -> waker_pc p' = waker_pc (pcs s t) -> lock_pc p' = lock_pc (pcs s t) ->
  sidelock_pc p' = sidelock_pc (pcs s t) -> rpre_pc p' = rpre_pc (pcs s t) -> sret_pc p' = sret_pc (pcs s t) ->
  (forall o, owned_of p' = Some o -> o = OWN) -> (forall q, qos_of p' = Some q -> 0 <= q < 8) -> dead_pc p' = false ->
  Inv ina (set_pc s t p').
Proof.
  intros [(r & A & B & C & D) T] U I R SA L NC NC' H1 H2 H3 H4 H5 H6 H7 H8 H9.
  pose proof (g_enc s r A) as E. pose proof (g_wf s r A) as W.
  split; [|apply threads_move; assumption].
  exists r. split; [|split; [|split]].
  - apply ainv_move; auto. intros Hu. destruct (U Hu) as [U'|[U'|U']]; auto.
    right; right. rewrite E, suspended_word_f in U' by exact W. apply Z.ltb_lt. exact U'.
  - apply (binv_frame s _ r r B); sproj; auto. apply side_eff_move. exact SA.
  - destruct L as [L|L].
    + apply (cinv_frame s _ r r C); sproj; auto. apply lic_now_move. exact L.
    + apply cinv_unsuspended. rewrite E, suspended_word_f in L by exact W. apply Z.ltb_ge in L.
      pose proof W as W'. unfold wfr in W'. lia.
  - apply (dinv_frame ina s _ r r t p' D); sproj; auto.
Qed.

(* discharge the premises of Inv_move for concrete program points *)
Ltac move_tac Hpc :=
  apply Inv_move; sproj; rewrite ?Hpc;
  [ assumption
  | try (intros X; discriminate X); auto
  | try reflexivity | try reflexivity | try reflexivity
  | try (left; reflexivity)
  | try discriminate | try discriminate
  | try reflexivity | try reflexivity | try reflexivity | try reflexivity | try reflexivity | try reflexivity
  | try (intros o X; first [discriminate X | injection X as <-; auto])
  | try (intros q0 X; first [discriminate X | injection X as <-; auto])
  | try reflexivity ].

Lemma owned_is_OWN ina s t o : Inv ina s -> owned_of (pcs s t) = Some o -> o = OWN.
Proof. intros [_ T] H. destruct (T t) as (_ & _ & _ & _ & _ & _ & T7 & _). apply T7. exact H. Qed.
Lemma qos_in_range ina s t q : Inv ina s -> qos_of (pcs s t) = Some q -> 0 <= q < 8.
Proof. intros [_ T] H. destruct (T t) as (_ & _ & _ & _ & _ & _ & _ & T8 & _). apply T8. exact H. Qed.

Lemma OWN_unlock : Z.lor (Z.land OWN ENQUEUED) SERIAL_OWNED = OWN.
Proof. reflexivity. Qed.

(* ---------------------------------------------------------------- begin *)
Lemma begin_preserves ina s t c s' : Inv ina s -> valid_tid t -> begin s t c = Some s' -> Inv ina s'.
Proof.
  intros I V B. unfold begin in B. destruct (pcs s t) eqn:Hpc; try discriminate.
  destruct c as [qos ovr|floor| | |].
  - destruct ((0 <=? qos) && (qos <? 8)) eqn:Q; [|discriminate]. injection B as <-.
    apply andb_true_iff in Q. destruct Q as [Q1 Q2]. apply Z.leb_le in Q1. apply Z.ltb_lt in Q2.
    move_tac Hpc.
  - destruct (0 <? rootq s) eqn:R; [|discriminate]. injection B as <-. apply Z.ltb_lt in R.
    destruct I as [(r & A & Bv & C & D) T]. pose proof A as A'. dA A'.
    assert (K : token s = Some None).
    { destruct (token s) as [[w|]|]; try lia. reflexivity. }
    assert (NL : lockh s <> Some t) by (apply (not_holder_lock s t (T t)); rewrite Hpc; reflexivity).
    assert (NS : sidelock s <> Some t) by (apply (not_holder_side s t (T t)); rewrite Hpc; reflexivity).
    assert (P : forall w, lockh s = Some w -> upd (pcs s) t (PW_lock floor) w = pcs s w).
    { intros w E. apply upd_other. congruence. }
    split.
    + exists r. split; [|split; [|split]].
      * unfold inflight in *. rewrite K in *. constructor; sproj; auto.
        -- split; [intros _; discriminate | intros _; apply Genq; discriminate].
        -- lia.
        -- intros _. left. discriminate.
        -- intros w E. rewrite P by exact E. apply Gdirty. exact E.
        -- unfold inflight; sproj. destruct (lockh s) as [w|]; [rewrite P by reflexivity|]; exact Gorder.
        -- destruct (lockh s) as [w|]; [rewrite P by reflexivity|]; exact Grunning.
      * apply (binv_frame s _ r r Bv); sproj; auto.
        apply (side_eff_other (set_token (set_rootq s (rootq s - 1)) (Some (Some t))) t (PW_lock floor)). exact NS.
      * apply (cinv_frame s _ r r C); sproj; auto.
        apply (lic_now_other (set_token (set_rootq s (rootq s - 1)) (Some (Some t))) t (PW_lock floor)). exact NL.
      * apply (dinv_frame ina s _ r r t (PW_lock floor) D); sproj; auto; rewrite ?Hpc; discriminate.
    + intros u. destruct (Z.eq_dec u t) as [->|N].
      * destruct (T t) as (T1 & T2 & T3 & T4 & T5 & T6 & T7 & T8 & T9). rewrite Hpc in *.
        unfold thread_inv. sproj. rewrite upd_same.
        cbn [token_pc dlocked_pc rlocked_pc lock_pc waker_pc sidelock_pc rpre_pc sret_pc owned_of qos_of dead_pc orb] in *.
        self_tac.
      * apply (thread_other s _ t u N (T u)); sproj; [apply upd_other; exact N | try other_iffs N ..].
  - injection B as <-. move_tac Hpc.
  - destruct (0 <? susp_done s) eqn:SD; [|discriminate]. injection B as <-. apply Z.ltb_lt in SD.
    destruct I as [(r & A & Bv & C & D) T].
    assert (NL : lockh s <> Some t) by (apply (not_holder_lock s t (T t)); rewrite Hpc; reflexivity).
    assert (NS : sidelock s <> Some t) by (apply (not_holder_side s t (T t)); rewrite Hpc; reflexivity).
    assert (NR : ~ In t (rpre s)).
    { destruct (T t) as (_ & _ & _ & _ & T5 & _). rewrite Hpc in T5. intros Hin. apply T5 in Hin. discriminate. }
    split.
    + exists r. split; [|split; [|split]].
      * apply (ainv_ext (set_pc s t PR_rmw)); try reflexivity.
        apply (ainv_move s r t PR_rmw A); rewrite ?Hpc; try reflexivity. discriminate.
      * pose proof (side_eff_other s t PR_rmw NS) as SE. dB Bv.
        constructor; sproj;
          change (side_eff (set_rpre (set_susp_done (set_pc s t PR_rmw) (susp_done s - 1)) (t :: rpre s)))
            with (side_eff (set_pc s t PR_rmw)); rewrite ?SE, ?zlen_cons; try assumption; try lia.
        constructor; assumption.
      * apply (cinv_frame s _ r r C); sproj; auto. apply (lic_now_other s t PR_rmw NL).
      * apply (dinv_frame ina s _ r r t PR_rmw D); sproj; auto; rewrite ?Hpc; discriminate.
    + intros u. destruct (Z.eq_dec u t) as [->|N].
      * destruct (T t) as (T1 & T2 & T3 & T4 & T5 & T6 & T7 & T8 & T9). rewrite Hpc in *.
        unfold thread_inv. sproj. rewrite upd_same.
        cbn [token_pc dlocked_pc rlocked_pc lock_pc waker_pc sidelock_pc rpre_pc sret_pc owned_of qos_of dead_pc orb] in *.
        self_tac.
      * apply (thread_other s _ t u N (T u)); sproj; [apply upd_other; exact N | try other_iffs N ..].
  - injection B as <-.
    destruct I as [(r & A & Bv & C & D) T].
    assert (NL : lockh s <> Some t) by (apply (not_holder_lock s t (T t)); rewrite Hpc; reflexivity).
    assert (NS : sidelock s <> Some t) by (apply (not_holder_side s t (T t)); rewrite Hpc; reflexivity).
    split.
    + exists r. split; [|split; [|split]].
      * apply (ainv_ext (set_pc s t PC_rmw)); try reflexivity.
        apply (ainv_move s r t PC_rmw A); rewrite ?Hpc; try reflexivity. discriminate.
      * apply (binv_frame s _ r r Bv); sproj; auto. apply (side_eff_other s t PC_rmw NS).
      * apply (cinv_frame s _ r r C); sproj; auto. apply (lic_now_other s t PC_rmw NL).
      * destruct D as [D1 D2 D3 D4 D5]. constructor; sproj; auto.
        -- discriminate.
        -- intros _ U. specialize (U t). rewrite upd_same in U. congruence.
    + apply (threads_move s t PC_rmw T); rewrite ?Hpc; try reflexivity; discriminate.
Qed.

(* ---------------------------------------------------------------- general frame facts *)
Lemma side_eff_eq s s' t p :
  side s' = side s -> sidelock s' = sidelock s -> pcs s' = upd (pcs s) t p ->
  (sidelock s = Some t -> side_adj p = side_adj (pcs s t)) -> side_eff s' = side_eff s.
Proof.
  intros H1 H2 H3 H4. unfold side_eff. rewrite H1, H2, H3. destruct (sidelock s) as [w|]; [|reflexivity].
  destruct (Z.eq_dec w t) as [->|N]; [rewrite upd_same, H4 by reflexivity | rewrite upd_other by exact N]; reflexivity.
Qed.
Lemma lic_now_eq s s' t p :
  lockh s' = lockh s -> pcs s' = upd (pcs s) t p ->
  (lockh s = Some t -> licensed_pc p = licensed_pc (pcs s t)) -> lic_now s' = lic_now s.
Proof.
  intros H1 H2 H3. unfold lic_now. rewrite H1, H2. destruct (lockh s) as [w|]; [|reflexivity].
  destruct (Z.eq_dec w t) as [->|N]; [rewrite upd_same, H3 by reflexivity | rewrite upd_other by exact N]; reflexivity.
Qed.

(* the count / period / activation parts when thread t, holding neither lock, moves and the suspend bits stay *)
Lemma bcd_frame ina s s' r r' t p :
  binv s r -> cinv s r -> dinv ina s r ->
  f_hi r' = f_hi r -> side s' = side s -> sidelock s' = sidelock s -> susp_done s' = susp_done s -> rpre s' = rpre s ->
  sret s' = sret s -> pstarts s' = pstarts s -> plic s' = plic s -> lockh s' = lockh s -> started s' = started s ->
  act_called s' = act_called s -> pcs s' = upd (pcs s) t p ->
  (sidelock s = Some t -> side_adj p = side_adj (pcs s t)) ->
  (lockh s = Some t -> licensed_pc p = licensed_pc (pcs s t)) ->
  pcs s t <> PC_rmw -> p <> PC_rmw ->
  binv s' r' /\ cinv s' r' /\ dinv ina s' r'.
Proof.
  intros B C D H1 H2 H3 H4 H5 H6 H7 H8 H9 H10 H11 H12 H13 H14 H15 H16. split; [|split].
  - apply (binv_frame s s' r r' B); auto. apply (side_eff_eq s s' t p); auto.
  - apply (cinv_frame s s' r r' C); auto; [lia|]. apply (lic_now_eq s s' t p); auto.
  - apply (dinv_frame ina s s' r r' t p D); auto. rewrite H1. reflexivity.
Qed.

Ltac bcd_tac ina s r t :=
  match goal with
  | |- binv ?s' ?r' /\ cinv ?s' ?r' /\ dinv ina ?s' ?r' =>
      eapply (bcd_frame ina s s' r r' t); [eassumption | eassumption | eassumption | try reflexivity ..]
  end.

Ltac bcd_auto ina s r t Hpc :=
  bcd_tac ina s r t; rewrite ?Hpc; try (intros; first [reflexivity | congruence | discriminate]).

(* ---------------------------------------------------------------- dispatch_async_f *)
Lemma step_xchg ina rb s t q ov s' : Inv ina s -> pcs s t = PA_xchg q ov -> gstep rb s t = Some s' -> Inv ina s'.
Proof.
  intros [(r & A & Bv & C & D) T] Hpc B. unfold gstep in B. rewrite Hpc in B. injection B as <-.
  assert (NL : lockh s <> Some t) by (apply (not_holder_lock s t (T t)); rewrite Hpc; reflexivity).
  assert (NS : sidelock s <> Some t) by (apply (not_holder_side s t (T t)); rewrite Hpc; reflexivity).
  destruct (T t) as (T1 & T2 & T3 & T4 & T5 & T6 & T7 & T8 & T9). rewrite Hpc in *.
  assert (NW : ~ In t (wakers s)) by (intros Hin; apply T2 in Hin; discriminate).
  set (we := match lst s with [] => true | _ => false end).
  assert (P : forall w, lockh s = Some w -> upd (pcs s) t (PA_link (nextid s) we q ov) w = pcs s w).
  { intros w E. apply upd_other. congruence. }
  split.
  - exists r. split.
    + dA A. unfold inflight in *. constructor; sproj; auto.
      * intros _. subst we. destruct (lst s) eqn:L; [right; left; discriminate|].
        destruct Gnostrand as [H|[H|H]]; [discriminate|left; exact H|right; left; exact H|right; right; exact H].
      * intros w E. rewrite P by exact E. intros Hu _ Hw. subst we. destruct (lst s) eqn:L; [discriminate|].
        apply (Gdirty w); auto. discriminate.
      * subst we. destruct (lst s); [constructor; assumption | assumption].
      * lia.
      * unfold inflight; sproj. rewrite map_app. cbn [map e_id]. rewrite zrange_succ by assumption.
        rewrite <- Gorder. destruct (lockh s) as [w|]; rewrite ?P by reflexivity; rewrite <- ?app_assoc; reflexivity.
      * destruct (lockh s) as [w|]; auto. rewrite P by reflexivity. exact Grunning.
    + bcd_auto ina s r t Hpc.
  - intros u. destruct (Z.eq_dec u t) as [->|N].
    + unfold thread_inv. sproj. rewrite upd_same.
      cbn [token_pc dlocked_pc rlocked_pc lock_pc waker_pc sidelock_pc rpre_pc sret_pc owned_of qos_of dead_pc orb] in *.
      self_tac.
      * subst we. destruct (lst s); cbn [In]; [split; auto | split; [discriminate | intros Hin; contradiction]].
    + apply (thread_other s _ t u N (T u)); sproj; [apply upd_other; exact N | try other_iffs N ..].
      subst we. destruct (lst s); [apply in_cons_other; exact N | tauto].
Qed.

Lemma step_link ina rb s t i we q ov s' : Inv ina s -> pcs s t = PA_link i we q ov -> gstep rb s t = Some s' -> Inv ina s'.
Proof.
  intros I Hpc B. unfold gstep in B. rewrite Hpc in B. injection B as <-.
  assert (I1 : Inv ina (set_lst s (link_id (lst s) i))).
  { destruct I as [(r & A & Bv & C & D) T]. split; [|intros u; apply (thread_ext s _ u (T u)); reflexivity]. exists r. split; [|split; [|split]].
    - dA A. unfold inflight in *. constructor; sproj; auto.
      + rewrite link_nil_iff. exact Gnostrand.
      + intros w E Hu. rewrite link_nil_iff. apply (Gdirty w); assumption.
      + unfold inflight; sproj. rewrite map_id_link. exact Gorder.
    - apply (binv_ext s _ r Bv); reflexivity.
    - apply (cinv_ext s _ r C); reflexivity.
    - apply (dinv_ext ina s _ r D); reflexivity. }
  pose proof (qos_in_range ina s t q I) as Q. rewrite Hpc in Q. specialize (Q eq_refl).
  move_tac Hpc; destruct we; try destruct ov; try reflexivity; try discriminate; try (left; reflexivity);
    try (intros q0 X; injection X as <-; exact Q).
Qed.

Lemma step_probe ina rb s t q s' : Inv ina s -> pcs s t = PA_probe q -> gstep rb s t = Some s' -> Inv ina s'.
Proof.
  intros I Hpc B. unfold gstep in B. rewrite Hpc in B. injection B as <-.
  pose proof (qos_in_range ina s t q I) as Q. rewrite Hpc in Q. specialize (Q eq_refl).
  destruct (lst s) eqn:L.
  - (* the drainer already took the item: nothing to wake *)
    destruct I as [(r & A & Bv & C & D) T].
    assert (NL : lockh s <> Some t) by (apply (not_holder_lock s t (T t)); rewrite Hpc; reflexivity).
    assert (P : forall w, lockh s = Some w -> upd (pcs s) t Idle w = pcs s w).
    { intros w E. apply upd_other. congruence. }
    split.
    + exists r. split.
      * dA A. unfold inflight in *. constructor; sproj; auto.
        -- intros w E _ Hl. rewrite L in Hl. congruence.
        -- apply nodup_remove_z. exact Gnodup.
        -- unfold inflight; sproj. destruct (lockh s) as [w|]; auto. rewrite P by reflexivity. exact Gorder.
        -- destruct (lockh s) as [w|]; auto. rewrite P by reflexivity. exact Grunning.
      * bcd_auto ina s r t Hpc.
    + intros u. destruct (Z.eq_dec u t) as [->|N].
      * destruct (T t) as (T1 & T2 & T3 & T4 & T5 & T6 & T7 & T8 & T9). rewrite Hpc in *.
        unfold thread_inv. sproj. rewrite upd_same.
        cbn [token_pc dlocked_pc rlocked_pc lock_pc waker_pc sidelock_pc rpre_pc sret_pc owned_of qos_of dead_pc orb] in *.
        self_tac.
      * apply (thread_other s _ t u N (T u)); sproj; [apply upd_other; exact N | try other_iffs N ..].
  - move_tac Hpc.
Qed.

Lemma lockh_none_of_free s r : ainv s r -> f_owner r = 0 -> lockh s = None.
Proof.
  intros A O. pose proof (g_lock s r A) as L. destruct (lockh s) as [w|]; [|reflexivity].
  destruct L as [V (Ow & _)]. unfold valid_tid in V. lia.
Qed.
Lemma lockh_some_of_owner s r : ainv s r -> f_owner r <> 0 -> lockh s <> None.
Proof.
  intros A O E. pose proof (g_lock s r A) as L. rewrite E in L. destruct L as (Ow & _). contradiction.
Qed.

Lemma step_wake ina rb s t q tg s' : Inv ina s -> valid_tid t -> pcs s t = PA_wake q tg -> gstep rb s t = Some s' -> Inv ina s'.
Proof.
  intros [(r & A & Bv & C & D) T] Vt Hpc B. unfold gstep in B. rewrite Hpc in B.
  assert (NL : lockh s <> Some t) by (apply (not_holder_lock s t (T t)); rewrite Hpc; reflexivity).
  assert (NK : token s <> Some (Some t)) by (apply (not_holder_token s t (T t)); rewrite Hpc; reflexivity).
  pose proof (T t) as (T1 & T2 & T3 & T4 & T5 & T6 & T7 & T8 & T9). rewrite Hpc in T1, T2, T3, T4, T5, T6, T7, T8, T9.
  pose proof (T8 q eq_refl) as Q.
  pose proof A as A'. dA A'. pose proof Gwf as W. unfold wfr in W.
  rewrite Genc in B. unfold ENQUEUED in B.
  rewrite (wakeup_fields r q 3 1 Gwf Q eq_refl) in B. cbv zeta in B.
  pose proof (merged_wf r q Gwf Q) as Wm. unfold wfr in Wm.
  destruct (merged_same r q) as (M1 & M2 & M3 & M4 & M5 & M6 & M7 & M8 & M9 & M10).
  set (m := merged r q) in *.
  set (e' := if can_enqueue r then 1 else f_enq m) in *.
  assert (He' : 0 <= e' < 2) by (subst e'; destruct (can_enqueue r); lia).
  set (r' := mk (f_owner m) (f_tr m) e' (f_mq m) (f_ov m) (f_role m) (f_em m) 1 (f_pb m) (f_wq m) (f_ib m) (f_hi m)) in *.
  assert (W' : wfr r') by (subst r'; apply wfr_mk; lia).
  cbv iota beta in B.
  change (negb (Z.land (Z.lxor (enc r) (enc r')) 2147483648 =? 0)) with (nz (Z.land (Z.lxor (enc r) (enc r')) 2147483648)) in B.
  rewrite (xor_enqueued r r' Gwf W') in B.
  assert (Fr : f_owner r' = f_owner r /\ f_ib r' = f_ib r /\ f_wq r' = f_wq r /\ f_enq r' = e' /\ f_d r' = 1 /\
               f_tr r' = 0 /\ f_em r' = 0 /\ f_pb r' = 0 /\ f_hi r' = f_hi r /\ f_role r' = f_role r).
  { subst r'. unfold mk; cbn. repeat split; congruence. }
  destruct Fr as (F1 & F2 & F3 & F4 & F5 & F6 & F7 & F8 & F9 & F10).
  assert (P : forall p w, lockh s = Some w -> upd (pcs s) t p w = pcs s w).
  { intros p w E. apply upd_other. congruence. }
  assert (Lk : match lockh s with Some w => valid_tid w /\ held r' w | None => free r' end).
  { unfold held, free in *. rewrite F1, F2, F3. exact Glock. }
  destruct (can_enqueue r) eqn:CE.
  - (* this wakeup takes the enqueued token and will push the lane on its target *)
    unfold can_enqueue in CE. rewrite !andb_true_iff in CE. destruct CE as [[[C1 C2] C3] C4].
    apply Z.eqb_eq in C1, C2.
    assert (Tk : token s = None).
    { destruct (token s) eqn:E; [|reflexivity]. assert (f_enq r = 1) by (apply Genq; congruence). lia. }
    assert (O : f_owner r = 0).
    { apply orb_true_iff in C4. destruct C4 as [C4|C4]; [apply Z.eqb_eq in C4; exact C4 | apply Z.leb_le in C4; lia]. }
    pose proof (lockh_none_of_free s r A O) as LN.
    rewrite F4, C2 in B. subst e'. cbn [Z.eqb xorb] in B. injection B as <-. split.
    + exists r'. split.
      * unfold inflight in *. rewrite LN in *. constructor; sproj; try assumption; try lia.
        -- rewrite F4. split; [discriminate | reflexivity].
        -- rewrite Grootq, Tk. reflexivity.
        -- rewrite LN. exact Lk.
        -- intros _. left. discriminate.
        -- apply nodup_remove_z. exact Gnodup.
        -- unfold inflight; sproj. rewrite LN. exact Gorder.
        -- rewrite LN. exact Grunning.
      * bcd_auto ina s r t Hpc.
    + intros u. destruct (Z.eq_dec u t) as [->|N].
      * unfold thread_inv. sproj. rewrite upd_same.
        cbn [token_pc dlocked_pc rlocked_pc lock_pc waker_pc sidelock_pc rpre_pc sret_pc owned_of qos_of dead_pc orb] in *.
        self_tac.
      * apply (thread_other s _ t u N (T u)); sproj; [apply upd_other; exact N | try other_iffs N ..].
  - (* already enqueued, locked, or suspended: DIRTY alone tells whoever is responsible *)
    assert (Ee : f_enq r' = f_enq r) by (rewrite F4; subst e'; exact M3).
    rewrite Ee in B. rewrite xorb_nilpotent in B. injection B as <-.
    assert (Resp : token s <> None \/ lockh s <> None \/ 0 < f_hi r).
    { destruct (Z.eq_dec (f_hi r) 0) as [H0|H0]; [|right; right; lia].
      destruct (Z.eq_dec (f_enq r) 0) as [E0|E0]; [|left; apply Genq; lia].
      destruct (Z.eq_dec (f_owner r) 0) as [O0|O0]; [|right; left; apply (lockh_some_of_owner s r A O0)].
      exfalso. unfold can_enqueue in CE. rewrite H0, E0, Gem, O0 in CE. discriminate CE. }
    split.
    + exists r'. split.
      * unfold inflight in *. constructor; sproj; try assumption; try lia.
        -- rewrite Ee. exact Genq.
        -- intros _. destruct Resp as [R|[R|R]]; [left; exact R | right; right; left; exact R | right; right; right; lia].
        -- apply nodup_remove_z. exact Gnodup.
        -- unfold inflight; sproj. destruct (lockh s) as [w|]; auto. rewrite P by reflexivity. exact Gorder.
        -- destruct (lockh s) as [w|]; auto. rewrite P by reflexivity. exact Grunning.
      * bcd_auto ina s r t Hpc.
    + intros u. destruct (Z.eq_dec u t) as [->|N].
      * unfold thread_inv. sproj. rewrite upd_same.
        cbn [token_pc dlocked_pc rlocked_pc lock_pc waker_pc sidelock_pc rpre_pc sret_pc owned_of qos_of dead_pc orb] in *.
        self_tac.
      * apply (thread_other s _ t u N (T u)); sproj; [apply upd_other; exact N | try other_iffs N ..].
Qed.

Lemma step_rootpush ina rb s t s' : Inv ina s -> pcs s t = PA_rootpush -> gstep rb s t = Some s' -> Inv ina s'.
Proof.
  intros [(r & A & Bv & C & D) T] Hpc B. unfold gstep in B. rewrite Hpc in B. injection B as <-.
  assert (K : token s = Some (Some t)) by (apply (holder_token s t (T t)); rewrite Hpc; reflexivity).
  assert (NL : lockh s <> Some t) by (apply (not_holder_lock s t (T t)); rewrite Hpc; reflexivity).
  assert (P : forall w, lockh s = Some w -> upd (pcs s) t Idle w = pcs s w).
  { intros w E. apply upd_other. congruence. }
  split.
  - exists r. split.
    + dA A. unfold inflight in *. rewrite K in *. constructor; sproj; try assumption; try lia.
      * split; [discriminate | intros _; apply Genq; discriminate].
      * intros _. left. discriminate.
      * intros w E. rewrite P by exact E. apply Gdirty. exact E.
      * unfold inflight; sproj. destruct (lockh s) as [w|]; [rewrite P by reflexivity|]; exact Gorder.
      * destruct (lockh s) as [w|]; [rewrite P by reflexivity|]; exact Grunning.
    + bcd_auto ina s r t Hpc.
  - intros u. destruct (Z.eq_dec u t) as [->|N].
    + destruct (T t) as (T1 & T2 & T3 & T4 & T5 & T6 & T7 & T8 & T9). rewrite Hpc in *.
      unfold thread_inv. sproj. rewrite upd_same.
      cbn [token_pc dlocked_pc rlocked_pc lock_pc waker_pc sidelock_pc rpre_pc sret_pc owned_of qos_of dead_pc orb] in *.
      self_tac.
    + apply (thread_other s _ t u N (T u)); sproj; [apply upd_other; exact N | try other_iffs N ..].
Qed.

(* ---------------------------------------------------------------- the drainer *)
Lemma OWN_from_lock : 18014398509481984 + 9007199254740992 + 2147483648 * 1 - 2199023255552 * 4095 = OWN.
Proof. reflexivity. Qed.

Ltac self_inv T t Hpc :=
  destruct (T t) as (T1 & T2 & T3 & T4 & T5 & T6 & T7 & T8 & T9); rewrite Hpc in T1, T2, T3, T4, T5, T6, T7, T8, T9;
  unfold thread_inv; sproj; rewrite upd_same;
  cbn [token_pc dlocked_pc rlocked_pc lock_pc waker_pc sidelock_pc rpre_pc sret_pc owned_of qos_of dead_pc orb Z.eqb negb] in *;
  self_tac.

Lemma step_lock ina rb s t fl s' : Inv ina s -> valid_tid t -> pcs s t = PW_lock fl -> gstep rb s t = Some s' -> Inv ina s'.
Proof.
  intros I Vt Hpc B. pose proof I as [(r & A & Bv & C & D) T]. unfold gstep in B. rewrite Hpc in B.
  assert (K : token s = Some (Some t)) by (apply (holder_token s t (T t)); rewrite Hpc; reflexivity).
  assert (NL : lockh s <> Some t) by (apply (not_holder_lock s t (T t)); rewrite Hpc; reflexivity).
  assert (NS : sidelock s <> Some t) by (apply (not_holder_side s t (T t)); rewrite Hpc; reflexivity).
  pose proof A as A'. dA A'. pose proof Gwf as W. unfold wfr in W.
  assert (En : f_enq r = 1) by (apply Genq; rewrite K; discriminate).
  rewrite Genc in B. rewrite (lock_fields r t fl 0 Gwf Vt) in B.
  assert (P : forall p w, lockh s = Some w -> upd (pcs s) t p w = pcs s w).
  { intros p w E. apply upd_other. congruence. }
  destruct (lock_free r) eqn:LF.
  - unfold lock_free in LF. rewrite !andb_true_iff in LF. destruct LF as [[[[L1 L2] L3] L4] L5].
    apply Z.eqb_eq in L1, L2, L4, L5. apply Z.ltb_lt in L3.
    pose proof (lockh_none_of_free s r A L1) as LN.
    destruct ((f_role r mod 2 =? 1) && (fl <? f_mq r)) eqn:OV.
    + (* the lock would need a QoS override first: retry with the queue's max QoS as floor *)
      injection B as <-. move_tac Hpc.
    + rewrite LN in Glock. destruct Glock as (_ & _ & Wq).
      rewrite En, Wq in B. rewrite OWN_from_lock in B.
      change (OWN =? 0) with false in B. cbv iota in B. injection B as <-.
      set (r' := mk t 0 1 (f_mq r) 0 (f_role r) 0 0 0 4096 1 0) in *.
      unfold inflight in *. rewrite LN in *.
      split.
      * exists r'. split; [|split; [|split]].
        -- subst r'. constructor; sproj; unfold mk; cbn [f_tr f_em f_pb f_hi f_role f_enq f_d];
             try assumption; try lia; try reflexivity.
           ++ apply wfr_mk; unfold valid_tid in Vt; lia.
           ++ rewrite K. split; [discriminate | reflexivity].
           ++ split; [exact Vt | unfold held; cbn; auto].
           ++ intros _. left. rewrite K. discriminate.
           ++ intros w E. injection E as <-. rewrite upd_same. discriminate.
           ++ unfold inflight; sproj. rewrite upd_same. exact Gorder.
           ++ rewrite upd_same. exact Grunning.
        -- apply (binv_frame s _ r r' Bv); sproj; auto.
           eapply (side_eff_eq s _ t); sproj; try reflexivity. intros E. congruence.
        -- apply cinv_unsuspended. reflexivity.
        -- eapply (dinv_step ina s _ r _ t _ D); sproj; rewrite ?Hpc; try reflexivity; try discriminate.
           ++ subst r'. cbn [mk f_hi]. rewrite L5. reflexivity.
           ++ rewrite L5. intros X. exfalso. apply X. reflexivity.
      * intros u. destruct (Z.eq_dec u t) as [->|N].
        -- self_inv T t Hpc.
        -- apply (thread_other s _ t u N (T u)); sproj; [apply upd_other; exact N | try other_iffs N ..].
  - (* locked by somebody else, or suspended: drop the enqueued bit and leave *)
    change (0 =? 0) with true in B. cbv iota in B. injection B as <-.
    set (r' := mk (f_owner r) (f_tr r) (1 - f_enq r) (f_mq r) (f_ov r) (f_role r) (f_em r) (f_d r) (f_pb r)
                  (f_wq r) (f_ib r) (f_hi r)) in *.
    assert (Resp : lockh s <> None \/ 0 < f_hi r).
    { destruct (Z.eq_dec (f_hi r) 0) as [H0|H0]; [|right; lia].
      destruct (Z.eq_dec (f_owner r) 0) as [O0|O0]; [|left; apply (lockh_some_of_owner s r A O0)].
      exfalso. pose proof (lockh_none_of_free s r A O0) as LN. rewrite LN in Glock. destruct Glock as (_ & Ib & Wq).
      unfold lock_free in LF. rewrite H0, O0, Gem, Ib, Wq in LF. discriminate LF. }
    split.
    + exists r'. split.
      * subst r'. unfold inflight in *. constructor; sproj; unfold mk; cbn [f_tr f_em f_pb f_hi f_role f_enq f_d];
          try assumption; try lia; try reflexivity.
        -- apply wfr_mk; lia.
        -- rewrite En. split; [discriminate | congruence].
        -- rewrite Grootq, K. reflexivity.
        -- intros _. destruct Resp as [R|R]; [right; right; left; exact R | right; right; right; exact R].
        -- intros w E. rewrite P by exact E. apply Gdirty. exact E.
        -- unfold inflight; sproj. destruct (lockh s) as [w|]; [rewrite P by reflexivity|]; exact Gorder.
        -- destruct (lockh s) as [w|]; [rewrite P by reflexivity|]; exact Grunning.
      * bcd_auto ina s r t Hpc.
    + intros u. destruct (Z.eq_dec u t) as [->|N].
      * self_inv T t Hpc.
      * apply (thread_other s _ t u N (T u)); sproj; [apply upd_other; exact N | try other_iffs N ..].
Qed.

Lemma step_tail ina rb s t o s' : Inv ina s -> pcs s t = PW_tail o -> gstep rb s t = Some s' -> Inv ina s'.
Proof.
  intros I Hpc B. unfold gstep in B. rewrite Hpc in B. injection B as <-.
  assert (o = OWN) by (apply (owned_is_OWN ina s t); [exact I | rewrite Hpc; reflexivity]). subst o.
  destruct (lst s) eqn:L; rewrite ?OWN_unlock; move_tac Hpc.
Qed.

Lemma step_head ina rb s t o s' : Inv ina s -> pcs s t = PW_head o -> gstep rb s t = Some s' -> Inv ina s'.
Proof.
  intros I Hpc B. unfold gstep in B. rewrite Hpc in B.
  assert (o = OWN) by (apply (owned_is_OWN ina s t); [exact I | rewrite Hpc; reflexivity]). subst o.
  destruct (lst s) as [|e l]; [discriminate|]. destruct (e_linked e); [|discriminate]. injection B as <-.
  move_tac Hpc.
Qed.

Lemma step_chk ina rb s t o s' : Inv ina s -> pcs s t = PW_chk o -> gstep rb s t = Some s' -> Inv ina s'.
Proof.
  intros I Hpc B. unfold gstep in B. rewrite Hpc in B. injection B as <-.
  assert (o = OWN) by (apply (owned_is_OWN ina s t); [exact I | rewrite Hpc; reflexivity]). subst o.
  destruct (suspended_word (st s)) eqn:SW; rewrite ?OWN_unlock; move_tac Hpc. right. exact SW.
Qed.

Lemma step_next ina rb s t o m s' : Inv ina s -> pcs s t = PW_next o m -> gstep rb s t = Some s' -> Inv ina s'.
Proof.
  intros I Hpc B. unfold gstep in B. rewrite Hpc in B.
  assert (o = OWN) by (apply (owned_is_OWN ina s t); [exact I | rewrite Hpc; reflexivity]). subst o.
  destruct m; injection B as <-; [move_tac Hpc|].
  destruct (lst s) eqn:L; rewrite ?OWN_unlock; move_tac Hpc.
Qed.

Lemma threads_move_ext s s' t p' :
  (forall u, thread_inv s u) -> pcs s' = upd (pcs s) t p' -> token s' = token s -> wakers s' = wakers s ->
  lockh s' = lockh s -> sidelock s' = sidelock s -> rpre s' = rpre s -> sret s' = sret s ->
  token_pc p' = token_pc (pcs s t) -> waker_pc p' = waker_pc (pcs s t) -> lock_pc p' = lock_pc (pcs s t) ->
  sidelock_pc p' = sidelock_pc (pcs s t) -> rpre_pc p' = rpre_pc (pcs s t) -> sret_pc p' = sret_pc (pcs s t) ->
  (forall o, owned_of p' = Some o -> o = OWN) -> (forall q, qos_of p' = Some q -> 0 <= q < 8) -> dead_pc p' = false ->
  forall u, thread_inv s' u.
Proof.
  intros T E1 E2 E3 E4 E5 E6 E7 H1 H2 H3 H4 H5 H6 H7 H8 H9 u.
  apply (thread_ext (set_pc s t p')); sproj; auto. apply threads_move; assumption.
Qed.

Ltac threads_move_tac s t Hpc :=
  eapply (threads_move_ext s _ t); sproj; rewrite ?Hpc;
  [ eassumption | first [reflexivity | (symmetry; eassumption) | eassumption] ..
  | try (intros o X; first [discriminate X | injection X as <-; auto])
  | try (intros q0 X; first [discriminate X | injection X as <-; auto]) | try reflexivity ].

Lemma step_pop ina rb s t o s' : Inv ina s -> pcs s t = PW_pop o -> gstep rb s t = Some s' -> Inv ina s'.
Proof.
  intros I Hpc B. unfold gstep in B. rewrite Hpc in B.
  assert (o = OWN) by (apply (owned_is_OWN ina s t); [exact I | rewrite Hpc; reflexivity]). subst o.
  destruct I as [(r & A & Bv & C & D) T].
  assert (K : lockh s = Some t) by (apply (holder_lock s t (T t)); rewrite Hpc; reflexivity).
  pose proof A as A'. dA A'. unfold inflight in Gorder. rewrite K in Glock, Gnostrand, Gdirty, Gorder, Grunning. rewrite Hpc in Gorder, Grunning.
  cbn [inflight_pc running_pc app] in Gorder, Grunning.
  destruct (lst s) as [|e [|e2 l']] eqn:L; [discriminate| |].
  - injection B as <-. split.
    + exists r. split.
      * constructor; sproj; rewrite ?K, ?upd_same; try assumption; try lia.
        -- congruence.
        -- intros w _ _ E. congruence.
        -- unfold inflight; sproj. rewrite K, upd_same. exact Gorder.
      * bcd_auto ina s r t Hpc.
    + threads_move_tac s t Hpc.
  - destruct (e_linked e2); [|discriminate]. injection B as <-. split.
    + exists r. split.
      * constructor; sproj; rewrite ?K, ?upd_same; try assumption; try lia.
        -- intros _. right; right; left. discriminate.
        -- intros w E. injection E as <-. rewrite upd_same. discriminate.
        -- unfold inflight; sproj. rewrite K, upd_same. exact Gorder.
      * bcd_auto ina s r t Hpc.
    + threads_move_tac s t Hpc.
Qed.

Lemma step_run ina rb s t o i m s' : Inv ina s -> pcs s t = PW_run o i m -> gstep rb s t = Some s' -> Inv ina s'.
Proof.
  intros I Hpc B. unfold gstep in B. rewrite Hpc in B. injection B as <-.
  assert (o = OWN) by (apply (owned_is_OWN ina s t); [exact I | rewrite Hpc; reflexivity]). subst o.
  destruct I as [(r & A & Bv & C & D) T].
  assert (K : lockh s = Some t) by (apply (holder_lock s t (T t)); rewrite Hpc; reflexivity).
  assert (NS : sidelock s <> Some t) by (apply (not_holder_side s t (T t)); rewrite Hpc; reflexivity).
  pose proof A as A'. dA A'. unfold inflight in Gorder. rewrite K in Glock, Gnostrand, Gdirty, Gorder, Grunning. rewrite Hpc in Gorder, Grunning.
  cbn [inflight_pc running_pc app] in Gorder, Grunning.
  split.
  - exists r. split; [|split; [|split]].
    + constructor; sproj; rewrite ?K, ?upd_same; try assumption; try lia; try reflexivity.
      * intros w E. injection E as <-. rewrite upd_same. discriminate.
      * unfold inflight; sproj. rewrite ?K, upd_same. cbn [rev inflight_pc app]. rewrite <- app_assoc. exact Gorder.
    + apply (binv_frame s _ r r Bv); sproj; auto.
      eapply (side_eff_eq s _ t); sproj; try reflexivity. intros E. congruence.
    + intros H. specialize (C H). unfold lic_now in *. sproj. rewrite K in *. rewrite upd_same. rewrite Hpc in C.
      cbn [licensed_pc b2z] in *. rewrite Genc, suspended_word_f by exact Gwf.
      assert (S : (0 <? f_hi r) = true) by (apply Z.ltb_lt; exact H). rewrite S. lia.
    + eapply (dinv_step ina s _ r _ t _ D); sproj; rewrite ?Hpc; try reflexivity; try discriminate.
      intros X [_ X']. congruence.
  - threads_move_tac s t Hpc.
Qed.

Lemma step_incall ina rb s t o i m s' : Inv ina s -> pcs s t = PW_incall o i m -> gstep rb s t = Some s' -> Inv ina s'.
Proof.
  intros I Hpc B. unfold gstep in B. rewrite Hpc in B. injection B as <-.
  assert (o = OWN) by (apply (owned_is_OWN ina s t); [exact I | rewrite Hpc; reflexivity]). subst o.
  destruct I as [(r & A & Bv & C & D) T].
  assert (K : lockh s = Some t) by (apply (holder_lock s t (T t)); rewrite Hpc; reflexivity).
  pose proof A as A'. dA A'. unfold inflight in Gorder. rewrite K in Glock, Gnostrand, Gdirty, Gorder, Grunning. rewrite Hpc in Gorder, Grunning.
  cbn [inflight_pc running_pc app] in Gorder, Grunning.
  split.
  - exists r. split.
    + constructor; sproj; rewrite ?K, ?upd_same; try assumption; try lia; try reflexivity.
      * intros w E. injection E as <-. rewrite upd_same. discriminate.
      * unfold inflight; sproj. rewrite ?K, upd_same. exact Gorder.
    + bcd_auto ina s r t Hpc.
  - threads_move_tac s t Hpc.
Qed.

Lemma step_xor ina rb s t o s' : Inv ina s -> pcs s t = PW_xor o -> gstep rb s t = Some s' -> Inv ina s'.
Proof.
  intros I Hpc B. unfold gstep in B. rewrite Hpc in B. injection B as <-.
  assert (o = OWN) by (apply (owned_is_OWN ina s t); [exact I | rewrite Hpc; reflexivity]). subst o.
  destruct I as [(r & A & Bv & C & D) T].
  assert (K : lockh s = Some t) by (apply (holder_lock s t (T t)); rewrite Hpc; reflexivity).
  pose proof A as A'. dA A'. unfold inflight in Gorder. rewrite K in Glock, Gnostrand, Gdirty, Gorder, Grunning. rewrite Hpc in Gorder, Grunning.
  cbn [inflight_pc running_pc app] in Gorder, Grunning.
  pose proof Gwf as W. unfold wfr in W.
  unfold DIRTY. rewrite Genc. rewrite (xor_dirty_fields r Gwf).
  set (r' := mk (f_owner r) (f_tr r) (f_enq r) (f_mq r) (f_ov r) (f_role r) (f_em r) (1 - f_d r) (f_pb r) (f_wq r) (f_ib r) (f_hi r)).
  split.
  - exists r'. split.
    + subst r'. constructor; sproj; rewrite ?K, ?upd_same; unfold mk; cbn [f_tr f_em f_pb f_hi f_role f_enq f_d];
        try assumption; try lia; try reflexivity.
      * apply wfr_mk; lia.
      * intros w E. injection E as <-. rewrite upd_same. discriminate.
      * unfold inflight; sproj. rewrite ?K, upd_same. exact Gorder.
    + bcd_auto ina s r t Hpc.
  - threads_move_tac s t Hpc.
Qed.

Lemma step_unlock ina rb s t o s' : Inv ina s -> pcs s t = PW_unlock o -> gstep rb s t = Some s' -> Inv ina s'.
Proof.
  intros I Hpc B. unfold gstep in B. rewrite Hpc in B.
  assert (o = OWN) by (apply (owned_is_OWN ina s t); [exact I | rewrite Hpc; reflexivity]). subst o.
  pose proof I as I'. destruct I' as [(r & A & Bv & C & D) T].
  assert (K : lockh s = Some t) by (apply (holder_lock s t (T t)); rewrite Hpc; reflexivity).
  assert (Kt : token s = Some (Some t)) by (apply (holder_token s t (T t)); rewrite Hpc; reflexivity).
  assert (NS : sidelock s <> Some t) by (apply (not_holder_side s t (T t)); rewrite Hpc; reflexivity).
  pose proof A as A'. dA A'. unfold inflight in Gorder. rewrite K in Glock, Gnostrand, Gdirty, Gorder, Grunning. rewrite Hpc in Gorder, Grunning.
  cbn [inflight_pc running_pc app] in Gorder, Grunning.
  destruct Glock as [Vt (O & Ib & Wq)]. pose proof Gwf as W. unfold wfr in W.
  assert (En : f_enq r = 1) by (apply Genq; rewrite Kt; discriminate).
  rewrite Genc in B.
  change OWN with (18014398509481984 + 2199023255552 + 2147483648 * 1) in B.
  assert (Finish : forall r', f_owner r' = 0 -> f_ib r' = 0 -> f_wq r' = 4095 -> f_enq r' = 0 -> f_hi r' = f_hi r -> wfr r' ->
            f_tr r' = 0 -> f_em r' = 0 -> f_pb r' = 0 -> f_role r' < 2 ->
            (lst s <> [] -> wakers s <> [] \/ 0 < f_hi r) ->
            Inv ina (set_lockh (set_token (set_pc (set_st s (enc r')) t Idle) None) None)).
  { intros r' F1 F2 F3 F4 F5 W' F6 F7 F8 F9 NSt. split.
    - exists r'. split; [|split; [|split]].
      + constructor; sproj; try assumption; try lia; try reflexivity.
        * rewrite F4. split; [discriminate | congruence].
        * rewrite Grootq, Kt. reflexivity.
        * unfold free. auto.
        * intros Hl. destruct (NSt Hl) as [X|X]; [right; left; exact X | right; right; right; lia].
        * discriminate.
      + apply (binv_frame s _ r r' Bv); sproj; auto.
        eapply (side_eff_eq s _ t); sproj; try reflexivity. intros E. congruence.
      + intros H. rewrite F5 in H. specialize (C H). unfold lic_now in *. sproj. rewrite K, Hpc in C. exact C.
      + eapply (dinv_step ina s _ r _ t _ D); sproj; rewrite ?Hpc; try reflexivity; try discriminate.
        * rewrite F5. reflexivity.
        * intros X [X1 _]. split; [exact X1 | reflexivity].
    - intros u. destruct (Z.eq_dec u t) as [->|N].
      + self_inv T t Hpc.
      + apply (thread_other s _ t u N (T u)); sproj; [apply upd_other; exact N | try other_iffs N ..]. }
  destruct (Z.eq_dec (f_hi r) 0) as [H0|H0].
  - rewrite (unlock_fields r 1 Gwf H0 Ib Wq) in B by lia.
    destruct (Z.eqb_spec (f_d r) 1) as [Dd|Dd].
    + (* refused: somebody made the queue dirty; clear the bit and look again *)
      injection B as <-. change (18014398509481984 + 2199023255552 + 2147483648 * 1) with OWN. move_tac Hpc.
    + injection B as <-.
      apply Finish; unfold mk; cbn [f_owner f_tr f_enq f_mq f_ov f_role f_em f_d f_pb f_wq f_ib f_hi]; try lia.
      * apply wfr_mk; lia.
      * intros Hl. left. intros Hw. destruct (Gdirty t eq_refl) as [X|X]; auto; try lia. rewrite Hpc. reflexivity.
  - rewrite (unlock_fields_susp r 1 Gwf ltac:(lia) Ib Wq) in B by lia. injection B as <-.
    apply Finish; unfold mk; cbn [f_owner f_tr f_enq f_mq f_ov f_role f_em f_d f_pb f_wq f_ib f_hi]; try lia.
    apply wfr_mk; lia.
Qed.

Lemma step_fin ina rb s t o s' : Inv ina s -> pcs s t = PW_fin o -> gstep rb s t = Some s' -> Inv ina s'.
Proof.
  intros I Hpc B. unfold gstep in B. rewrite Hpc in B.
  assert (o = OWN) by (apply (owned_is_OWN ina s t); [exact I | rewrite Hpc; reflexivity]). subst o.
  pose proof I as I'. destruct I' as [(r & A & Bv & C & D) T].
  assert (K : lockh s = Some t) by (apply (holder_lock s t (T t)); rewrite Hpc; reflexivity).
  assert (Kt : token s = Some (Some t)) by (apply (holder_token s t (T t)); rewrite Hpc; reflexivity).
  assert (NS : sidelock s <> Some t) by (apply (not_holder_side s t (T t)); rewrite Hpc; reflexivity).
  pose proof A as A'. dA A'. unfold inflight in Gorder. rewrite K in Glock, Gnostrand, Gdirty, Gorder, Grunning. rewrite Hpc in Gorder, Grunning.
  cbn [inflight_pc running_pc app] in Gorder, Grunning.
  destruct Glock as [Vt (O & Ib & Wq)]. pose proof Gwf as W. unfold wfr in W.
  assert (En : f_enq r = 1) by (apply Genq; rewrite Kt; discriminate).
  rewrite Genc in B. unfold ENQUEUED in B.
  change OWN with (18014398509481984 + 2199023255552 + 2147483648 * 1) in B.
  rewrite (finish_fields r 1 Gwf Ib Wq) in B by lia.
  rewrite (sub_owned r 1 Gwf Ib Wq) in B by lia.
  set (e' := if (f_hi r =? 0) && (f_enq r - 1 =? 0) && (f_em r =? 0) then 1 else f_enq r - 1) in *.
  assert (He' : e' = if f_hi r =? 0 then 1 else 0).
  { subst e'. rewrite En, Gem. cbn [Z.sub Z.eqb Z.add Z.opp Z.pos_sub andb]. rewrite !andb_true_r. reflexivity. }
  set (r' := mk 0 0 e' (f_mq r) 0 (f_role r) (f_em r) 1 (f_pb r) 4095 0 (f_hi r)) in *.
  assert (W' : wfr r') by (subst r'; apply wfr_mk; try lia; rewrite He'; destruct (f_hi r =? 0); lia).
  rewrite (xor_enqueued (unown r 1) r' (unown_wf r 1 Gwf ltac:(lia)) W') in B.
  unfold unown, mk in B; cbn [f_enq] in B. fold (mk 0 0 e' (f_mq r) 0 (f_role r) (f_em r) 1 (f_pb r) 4095 0 (f_hi r)) in B.
  rewrite En in B. change (1 - 1 =? 1) with false in B. cbn [xorb] in B.
  assert (Bc : binv (set_lockh (set_st s (enc r')) None) r' /\ cinv (set_lockh (set_st s (enc r')) None) r').
  { split.
    - apply (binv_frame s _ r r' Bv); sproj; auto.
    - intros H. change (f_hi r') with (f_hi r) in H. specialize (C H). unfold lic_now in *. sproj. rewrite K, Hpc in C. exact C. }
  destruct Bc as [Bn Cn].
  destruct (Z.eqb_spec (f_hi r) 0) as [H0|H0].
  - (* the suspension is already over: the lane goes back on its target queue *)
    assert (E1 : e' = 1) by exact He'. change (f_enq r') with e' in B. rewrite E1 in B. cbn [Z.eqb] in B. injection B as <-.
    split.
    + exists r'. split; [|split; [|split]].
      * subst r'. constructor; sproj; unfold mk; cbn [f_tr f_em f_pb f_hi f_role f_enq f_d]; try assumption; try lia; try reflexivity.
        -- rewrite E1, Kt. split; [discriminate | reflexivity].
        -- unfold free. cbn. auto.
        -- intros _. left. rewrite Kt. discriminate.
      * apply (binv_frame _ _ r' r' Bn); sproj; auto.
        eapply (side_eff_eq _ _ t); sproj; try reflexivity. intros E. congruence.
      * apply cinv_unsuspended. exact H0.
      * eapply (dinv_step ina s _ r _ t _ D); sproj; rewrite ?Hpc; try reflexivity; try discriminate.
        intros X [X1 _]. split; [exact X1 | reflexivity].
    + intros u. destruct (Z.eq_dec u t) as [->|N].
      * self_inv T t Hpc.
      * apply (thread_other s _ t u N (T u)); sproj; [apply upd_other; exact N | try other_iffs N ..].
  - assert (E0 : e' = 0) by exact He'. change (f_enq r') with e' in B. rewrite E0 in B. cbn [Z.eqb] in B. injection B as <-.
    split.
    + exists r'. split; [|split; [|split]].
      * subst r'. constructor; sproj; unfold mk; cbn [f_tr f_em f_pb f_hi f_role f_enq f_d]; try assumption; try lia; try reflexivity.
        -- rewrite E0. split; [discriminate | congruence].
        -- rewrite Grootq, Kt. reflexivity.
        -- unfold free. cbn. auto.
      * apply (binv_frame _ _ r' r' Bn); sproj; auto.
        eapply (side_eff_eq _ _ t); sproj; try reflexivity. intros E. congruence.
      * intros H. specialize (Cn H). unfold lic_now in *. sproj_in Cn. sproj. exact Cn.
      * eapply (dinv_step ina s _ r _ t _ D); sproj; rewrite ?Hpc; try reflexivity; try discriminate.
        intros X [X1 _]. split; [exact X1 | reflexivity].
    + intros u. destruct (Z.eq_dec u t) as [->|N].
      * self_inv T t Hpc.
      * apply (thread_other s _ t u N (T u)); sproj; [apply upd_other; exact N | try other_iffs N ..].
Qed.

(* ---------------------------------------------------------------- the need_override wakeup of a push (no MAKE_DIRTY) *)
Lemma step_oprobe ina rb s t q s' : Inv ina s -> pcs s t = PA_oprobe q -> gstep rb s t = Some s' -> Inv ina s'.
Proof.
  intros I Hpc B. unfold gstep in B. rewrite Hpc in B. injection B as <-.
  pose proof (qos_in_range ina s t q I) as Q. rewrite Hpc in Q. specialize (Q eq_refl).
  destruct (lst s) eqn:L; move_tac Hpc.
Qed.

Lemma step_owake ina rb s t q s' : Inv ina s -> valid_tid t -> pcs s t = PA_owake q -> gstep rb s t = Some s' -> Inv ina s'.
Proof.
  intros I Vt Hpc B. pose proof I as [(r & A & Bv & C & D) T]. unfold gstep in B. rewrite Hpc in B.
  assert (NL : lockh s <> Some t) by (apply (not_holder_lock s t (T t)); rewrite Hpc; reflexivity).
  assert (NK : token s <> Some (Some t)) by (apply (not_holder_token s t (T t)); rewrite Hpc; reflexivity).
  pose proof (qos_in_range ina s t q I) as Q. rewrite Hpc in Q. specialize (Q eq_refl).
  pose proof A as A'. dA A'. pose proof Gwf as W. unfold wfr in W.
  rewrite Genc in B. unfold ENQUEUED in B.
  rewrite (wakeup_fields_plain r q 1 1 Gwf Q eq_refl) in B. cbv zeta in B.
  pose proof (merged_wf r q Gwf Q) as Wm. unfold wfr in Wm.
  destruct (merged_same r q) as (M1 & M2 & M3 & M4 & M5 & M6 & M7 & M8 & M9 & M10).
  set (m := merged r q) in *.
  set (e' := if can_enqueue r then 1 else f_enq m) in *.
  assert (He' : 0 <= e' < 2) by (subst e'; destruct (can_enqueue r); lia).
  set (r' := mk (f_owner m) (f_tr m) e' (f_mq m) (f_ov m) (f_role m) (f_em m) (f_d m) (f_pb m) (f_wq m) (f_ib m) (f_hi m)) in *.
  assert (W' : wfr r') by (subst r'; apply wfr_mk; lia).
  destruct (enc r' =? enc r); injection B as <-; [move_tac Hpc|].
  change (negb (Z.land (Z.lxor (enc r) (enc r')) 2147483648 =? 0)) with (nz (Z.land (Z.lxor (enc r) (enc r')) 2147483648)).
  rewrite (xor_enqueued r r' Gwf W').
  assert (Fr : f_owner r' = f_owner r /\ f_ib r' = f_ib r /\ f_wq r' = f_wq r /\ f_enq r' = e' /\ f_d r' = f_d r /\
               f_tr r' = 0 /\ f_em r' = 0 /\ f_pb r' = 0 /\ f_hi r' = f_hi r /\ f_role r' = f_role r).
  { subst r'. unfold mk; cbn. repeat split; congruence. }
  destruct Fr as (F1 & F2 & F3 & F4 & F5 & F6 & F7 & F8 & F9 & F10).
  assert (P : forall p w, lockh s = Some w -> upd (pcs s) t p w = pcs s w).
  { intros p w E. apply upd_other. congruence. }
  assert (Lk : match lockh s with Some w => valid_tid w /\ held r' w | None => free r' end).
  { unfold held, free in *. rewrite F1, F2, F3. exact Glock. }
  destruct (can_enqueue r) eqn:CE.
  - (* the override wakeup takes the enqueued token and will push the lane on its target *)
    unfold can_enqueue in CE. rewrite !andb_true_iff in CE. destruct CE as [[[C1 C2] C3] C4].
    apply Z.eqb_eq in C1, C2.
    assert (Tk : token s = None).
    { destruct (token s) eqn:E; [|reflexivity]. assert (f_enq r = 1) by (apply Genq; congruence). lia. }
    assert (O : f_owner r = 0).
    { apply orb_true_iff in C4. destruct C4 as [C4|C4]; [apply Z.eqb_eq in C4; exact C4 | apply Z.leb_le in C4; lia]. }
    pose proof (lockh_none_of_free s r A O) as LN.
    assert (Xb : xorb (f_enq r =? 1) (f_enq r' =? 1) = true) by (rewrite F4, C2; reflexivity). rewrite Xb. clear Xb. cbv iota.
    split.
    + exists r'. split.
      * unfold inflight in *. rewrite LN in *. constructor; sproj; try assumption; try lia.
        -- rewrite F4. split; [discriminate | reflexivity].
        -- rewrite Grootq, Tk. reflexivity.
        -- rewrite LN. exact Lk.
        -- intros _. left. discriminate.
        -- rewrite LN. discriminate.
        -- unfold inflight; sproj. rewrite LN. exact Gorder.
        -- rewrite LN. exact Grunning.
      * bcd_auto ina s r t Hpc.
    + intros u. destruct (Z.eq_dec u t) as [->|N].
      * self_inv T t Hpc.
      * apply (thread_other s _ t u N (T u)); sproj; [apply upd_other; exact N | try other_iffs N ..].
  - (* only the max-qos merge *)
    assert (Ee : f_enq r' = f_enq r) by (rewrite F4; subst e'; exact M3).
    rewrite Ee. rewrite xorb_nilpotent. cbv iota. split.
    + exists r'. split.
      * unfold inflight in *. constructor; sproj; try assumption; try lia.
        -- rewrite Ee. exact Genq.
        -- intros Hl. destruct (Gnostrand Hl) as [X|[X|[X|X]]]; auto. right; right; right. lia.
        -- intros w E. rewrite P by exact E. intros Hu Hl Hw. rewrite F5, F9. apply (Gdirty w); auto.
        -- unfold inflight; sproj. destruct (lockh s) as [w|]; auto. rewrite P by reflexivity. exact Gorder.
        -- destruct (lockh s) as [w|]; auto. rewrite P by reflexivity. exact Grunning.
      * bcd_auto ina s r t Hpc.
    + intros u. destruct (Z.eq_dec u t) as [->|N].
      * self_inv T t Hpc.
      * apply (thread_other s _ t u N (T u)); sproj; [apply upd_other; exact N | try other_iffs N ..].
Qed.
