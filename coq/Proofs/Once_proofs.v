(* Once_proofs.v — invariants of the dispatch_once model for any number of threads and any interleaving. *)
From Coq Require Import ZArith Bool List Lia.
From Verif Require Import Word Bits Conc Gen_consts Gen_once Once.
Import ListNotations.
Local Open Scope Z_scope.

(* ---- interface lemmas about the generated rmw body and constants ---- *)
Lemma lorW o : 0 < o <= 1073741823 -> Z.lor o 2147483648 = o + 2147483648.
Proof.
  intros H. pose proof (lor_disjoint o 1 31) as L. change (2 ^ 31) with 2147483648 in L.
  rewrite Z.mul_1_l in L. apply L; lia.
Qed.
Lemma lorWW o : 0 < o <= 1073741823 -> Z.lor (o + 2147483648) 2147483648 = o + 2147483648.
Proof.
  intros H. rewrite <- lorW by lia. rewrite <- Z.lor_assoc. rewrite Z.lor_diag. reflexivity.
Qed.

Lemma body_done : once_wait_loop 0 DONE = NoCommit 1 [].
Proof. reflexivity. Qed.
Lemma body_owner o : 0 < o <= 1073741823 -> once_wait_loop 0 o = Commit (o + 2147483648) 0.
Proof.
  intros H. unfold once_wait_loop. destruct (Z.eqb_spec o 18446744073709551615); [lia|]. cbn [negb].
  rewrite lorW by lia. destruct (Z.eqb_spec (o + 2147483648) o); [lia|]. reflexivity.
Qed.
Lemma body_owner_w o : 0 < o <= 1073741823 -> once_wait_loop 0 (o + 2147483648) = NoCommit 0 [].
Proof.
  intros H. unfold once_wait_loop. destruct (Z.eqb_spec (o + 2147483648) 18446744073709551615); [lia|]. cbn [negb].
  rewrite lorWW by lia. rewrite Z.eqb_refl. reflexivity.
Qed.
Lemma order_relaxed : once_wait_loop_order = Relaxed.
Proof. reflexivity. Qed.

Lemma u32_small x : 0 <= x < 4294967296 -> u32 x = x.
Proof. intros. unfold u32. apply Z.mod_small. lia. Qed.
Lemma u32_DONE : u32 DONE = 4294967295.
Proof. reflexivity. Qed.

(* the model's site lists are the ones the translator reads from the source *)
Lemma sites_once_f : model_sites_dispatch_once_f = dispatch_once_f_sites.
Proof. reflexivity. Qed.
Lemma sites_once_wait : model_sites_once_wait = once_wait_sites.
Proof. reflexivity. Qed.

(* ---- the invariant ---- *)
Definition own_pc (p : pc) : bool :=
  match p with PCall | PInCall | PMark | PWake | PRet => true | _ => false end.

(* values the word can take once thread o owns the gate *)
Definition W (o : Z) := o + 2147483648.

Definition owner_inv (s : gst) : Prop :=
  match owner s with
  | None => word s = 0 /\ starts s = 0 /\ finished s = false
  | Some o =>
      valid_tid o /\
      match pcs s o with
      | PCall => (word s = o \/ word s = W o) /\ starts s = 0 /\ finished s = false
      | PInCall => (word s = o \/ word s = W o) /\ starts s = 1 /\ finished s = false
      | PMark => (word s = o \/ word s = W o) /\ starts s = 1 /\ finished s = true
      | _ => word s = DONE /\ starts s = 1 /\ finished s = true
      end
  end.

Definition thread_inv (s : gst) (t : Z) : Prop :=
  (own_pc (pcs s t) = true -> owner s = Some t) /\
  (* a waiter only ever holds values the word had after the gate was taken *)
  (forall old, pcs s t = PWBody old ->
     exists o, owner s = Some o /\ (old = o \/ old = W o \/ (old = DONE /\ finished s = true))) /\
  (forall v, pcs s t = PWFutex v -> exists o, owner s = Some o /\ v = W o) /\
  (pcs s t = PWLoad \/ pcs s t = PWSleep -> owner s <> None) /\
  (* no waiter left behind: a sleeping thread always has a wake-up coming *)
  (slp s t = Sleeping ->
     pcs s t = PWSleep /\
     exists o, owner s = Some o /\
       ((word s = W o /\ (pcs s o = PCall \/ pcs s o = PInCall \/ pcs s o = PMark)) \/ pcs s o = PWake)) /\
  (* the inline fast path returns only after it read ~0l, and then the initialiser has finished *)
  (pcs s t = PFRet -> finished s = true).

Definition Inv (s : gst) : Prop :=
  owner_inv s /\ early_ret s = false /\ forall t, thread_inv s t.

Lemma Inv_init : Inv init_state.
Proof.
  unfold Inv, owner_inv, thread_inv, init_state; cbn. repeat split; try discriminate; intros; try discriminate.
  destruct H; discriminate.
Qed.

(* ---- preservation ---- *)
Lemma valid_W o : valid_tid o -> 0 < o <= 1073741823 /\ W o <> o /\ W o <> DONE /\ o <> DONE /\ o <> 0 /\ W o <> 0 /\
  u32 (W o) = W o /\ u32 o = o /\ u32 DONE <> W o.
Proof.
  unfold valid_tid, W, DONE, DLOCK_OWNER_MASK, DLOCK_ONCE_DONE. intros H.
  rewrite !u32_small by lia. change (u32 18446744073709551615) with 4294967295. repeat split; lia.
Qed.

Lemma own_false_match (p : pc) (A B C D : Prop) : own_pc p = false ->
  (match p with PCall => A | PInCall => B | PMark => C | _ => D end) = D.
Proof. destruct p; cbn; intros; try discriminate; reflexivity. Qed.

Definition wake_premise (s : gst) (o : Z) : Prop :=
  (word s = W o /\ (pcs s o = PCall \/ pcs s o = PInCall \/ pcs s o = PMark)) \/ pcs s o = PWake.

(* obligations of a thread u that does not move *)
Lemma other_thread s s' t u :
  u <> t -> thread_inv s u ->
  pcs s' u = pcs s u ->
  (slp s' u = slp s u \/ slp s' u <> Sleeping) ->
  (owner s' = owner s \/ owner s = None) ->
  (finished s = true -> finished s' = true) ->
  (forall o, owner s = Some o -> slp s' u = Sleeping -> wake_premise s o -> wake_premise s' o) ->
  thread_inv s' u.
Proof.
  intros Ne (U1 & U2 & U3 & U4 & U5 & U6) Fp Fs Ho Hf Hw. unfold thread_inv. rewrite Fp.
  assert (Hown : forall o, owner s = Some o -> owner s' = Some o).
  { intros o E. destruct Ho as [Ho|Ho]; congruence. }
  split; [|split; [|split; [|split; [|split]]]].
  - intros H. apply Hown. auto.
  - intros old H. destruct (U2 old H) as (o & E & D). exists o. split; [auto|]. intuition.
  - intros v H. destruct (U3 v H) as (o & E & D). exists o. auto.
  - intros H E. specialize (U4 H). destruct (owner s) as [o|] eqn:Eo; [|congruence]. rewrite (Hown o eq_refl) in E. discriminate.
  - intros H. destruct Fs as [Es|Es]; [|contradiction].
    pose proof H as H'. rewrite Es in H. destruct (U5 H) as (X & o & E & D). split; [exact X|].
    exists o. split; [auto|]. apply (Hw o E H' D).
  - intros H. apply Hf. apply U6. exact H.
Qed.

(* a thread outside the owner path moves; word, owner and ghosts are untouched *)
Lemma local_move s t p' sl :
  Inv s -> own_pc (pcs s t) = false -> own_pc p' = false ->
  (forall u, u <> t -> sl u = slp s u) ->
  let s' := {| word := word s; pcs := upd (pcs s) t p'; slp := sl; owner := owner s; starts := starts s;
               finished := finished s; early_ret := early_ret s |} in
  thread_inv s' t -> Inv s'.
Proof.
  intros (HO & HE & HT) Hf Hp' Hsl s' Ht. split; [|split; [exact HE|]].
  - unfold owner_inv in *. cbn. destruct (owner s) as [o|]; [|exact HO]. destruct HO as [Vo HO]. split; [exact Vo|].
    destruct (Z.eq_dec o t) as [->|Ne].
    + rewrite upd_same. rewrite own_false_match in HO by exact Hf. rewrite own_false_match by exact Hp'. exact HO.
    + rewrite upd_other by exact Ne. exact HO.
  - intros u. destruct (Z.eq_dec u t) as [->|Ne]; [exact Ht|].
    apply (other_thread s s' t u Ne (HT u)); cbn.
    + apply upd_other. exact Ne.
    + left. apply Hsl. exact Ne.
    + left. reflexivity.
    + auto.
    + intros o Eo _ Hw. unfold wake_premise in *. cbn.
      destruct (Z.eq_dec o t) as [->|Ne2].
      * exfalso. destruct Hw as [[_ [H|[H|H]]]|H]; rewrite H in Hf; discriminate.
      * rewrite upd_other by exact Ne2. exact Hw.
Qed.

Lemma not_sleeping_here s t p : thread_inv s t -> pcs s t = p -> p <> PWSleep -> slp s t <> Sleeping.
Proof. intros (_ & _ & _ & _ & T5 & _) E Hn Hs. destruct (T5 Hs) as [X _]. congruence. Qed.

(* where the owner stands when the word is not DONE *)
Lemma owner_active s o : owner_inv s -> owner s = Some o -> word s <> DONE ->
  (word s = o \/ word s = W o) /\ (pcs s o = PCall \/ pcs s o = PInCall \/ pcs s o = PMark).
Proof.
  unfold owner_inv. intros HO E Hw. rewrite E in HO. destruct HO as [_ HO].
  destruct (pcs s o); try (destruct HO as (X & _); contradiction); destruct HO as (X & _); auto.
Qed.

Lemma word_values s o : owner_inv s -> owner s = Some o ->
  valid_tid o /\ (word s = o \/ word s = W o \/ (word s = DONE /\ finished s = true)).
Proof.
  unfold owner_inv. intros HO E. rewrite E in HO. destruct HO as [Vo HO]. split; [exact Vo|].
  destruct (pcs s o); intuition.
Qed.

(* a thread that starts sleeping on the value W o has its wake-up guaranteed *)
Lemma sleep_clause s o x :
  owner_inv s -> owner s = Some o -> x = W o ->
  (if u32 (word s) =? u32 x then Sleeping else NoSleep) = Sleeping -> wake_premise s o.
Proof.
  intros HO E -> H. destruct (word_values s o HO E) as [Vo D].
  destruct (valid_W o Vo) as (V0 & V1 & V2 & V3 & V4 & V5 & V6 & V7 & V8).
  destruct (Z.eqb_spec (u32 (word s)) (u32 (W o))) as [Eq|]; [|discriminate].
  rewrite V6 in Eq. left.
  destruct D as [D|[D|[D _]]]; rewrite D in Eq.
  - rewrite V7 in Eq. congruence.
  - split; [exact D|]. apply (owner_active s o HO E). rewrite D. exact V2.
  - contradiction.
Qed.

Ltac nosleep s t p Ht Hpc :=
  try (intros ?); exfalso; apply (not_sleeping_here s t p Ht Hpc); [discriminate | assumption].

Lemma step_preserves s t e s' : valid_tid t -> Inv s -> gstep s t e = Some s' -> Inv s'.
Proof.
  intros Vt HI Hs. pose proof HI as (HO & HE & HT). unfold gstep in Hs.
  destruct (tstep t (pcs s t) e) as [p'|] eqn:Hts; [|discriminate].
  pose proof (HT t) as Ht. pose proof Ht as (Tt1 & Tt2 & Tt3 & Tt4 & Tt5 & Tt6).
  pose proof (valid_W t Vt) as (Vt0 & Vt1 & Vt2 & Vt3 & Vt4 & Vt5 & Vt6 & Vt7 & Vt8).
  destruct (pcs s t) eqn:Hpc; cbn [tstep] in Hts; cbv zeta in Hs.
  - (* PIdle: a new call, directly or through the inline wrapper *)
    destruct (ev_kind e DVU_CALL); [|discriminate]. injection Hts as <-. injection Hs as <-.
    destruct (ea e =? CALL_INLINE).
    all: apply local_move; auto; [rewrite Hpc; reflexivity|].
    all: unfold thread_inv; cbn; rewrite upd_same.
    all: repeat split; try discriminate; try (intros ? ?; discriminate); try (intros [?|?]; discriminate).
    all: nosleep s t PIdle Ht Hpc.
  - (* PFast: the plain read of the inline wrapper *)
    destruct (ev_is e DV_LOAD MO_PLAIN 0); [|discriminate]. injection Hts as <-.
    destruct (Z.eqb_spec (ea e) (word s)) as [Ea|]; [|discriminate]. injection Hs as <-.
    destruct (Z.eqb_spec (ea e) DONE) as [Ed|Nd].
    + (* it saw ~0l: the initialiser has finished *)
      assert (Fin : finished s = true).
      { rewrite Ea in Ed. unfold owner_inv in HO. destruct (owner s) as [o|].
        - destruct HO as [Vo HO]. destruct (valid_W o Vo) as (V0 & V1 & V2 & V3 & _).
          destruct (pcs s o); try (destruct HO as (_ & _ & F); exact F); destruct HO as ([X|X] & _); congruence.
        - destruct HO as (X & _). rewrite X in Ed. discriminate. }
      apply local_move; auto; [rewrite Hpc; reflexivity|].
      unfold thread_inv; cbn. rewrite upd_same.
      repeat split; try discriminate; try (intros ? ?; discriminate); try (intros [?|?]; discriminate); try (intros _; exact Fin).
      all: nosleep s t PFast Ht Hpc.
    + apply local_move; auto; [rewrite Hpc; reflexivity|].
      unfold thread_inv; cbn. rewrite upd_same.
      repeat split; try discriminate; try (intros ? ?; discriminate); try (intros [?|?]; discriminate).
      all: nosleep s t PFast Ht Hpc.
  - (* PFRet: the fast path returns *)
    destruct (ev_kind e DVU_RET); [|discriminate]. injection Hts as <-. injection Hs as <-.
    replace (early_ret s || negb (finished s)) with (early_ret s)
      by (rewrite (Tt6 eq_refl); destruct (early_ret s); reflexivity).
    apply local_move; auto; [rewrite Hpc; reflexivity|].
    unfold thread_inv; cbn. rewrite upd_same.
    repeat split; try discriminate; try (intros ? ?; discriminate); try (intros [?|?]; discriminate).
    all: nosleep s t PFRet Ht Hpc.
  - (* PTry: tryenter *)
    destruct (ev_is e DV_CAS MO_RELAXED 0 && (eb e =? t)) eqn:C; [|discriminate]. injection Hts as <-.
    destruct ((ea e =? word s) && (eok e =? (if word s =? 0 then 1 else 0))) eqn:C2; [|discriminate].
    apply andb_true_iff in C2 as [C2a C2b]. apply Z.eqb_eq in C2a, C2b. injection Hs as <-.
    destruct (Z.eqb_spec (word s) 0) as [W0|W0].
    + (* won *)
      rewrite C2b. cbn [Z.eqb Pos.eqb].
      assert (ON : owner s = None).
      { destruct (owner s) as [o|] eqn:Eo; [|reflexivity]. exfalso.
        destruct (word_values s o HO Eo) as [Vo D]. destruct (valid_W o Vo) as (? & ? & ? & ? & ? & ? & _).
        unfold DONE, DLOCK_ONCE_DONE in *. destruct D as [D|[D|[D _]]]; lia. }
      unfold owner_inv in HO. rewrite ON in HO. destruct HO as (_ & S0 & F0).
      split; [|split; [exact HE|]].
      * unfold owner_inv; cbn. rewrite upd_same. split; [exact Vt|]. auto.
      * intros u. destruct (Z.eq_dec u t) as [->|Ne].
        -- unfold thread_inv; cbn. rewrite upd_same.
           repeat split; try discriminate; try (intros ? ?; discriminate); try (intros [?|?]; discriminate).
           all: nosleep s t PTry Ht Hpc.
        -- apply (other_thread s _ t u Ne (HT u)); cbn; auto.
           ++ apply upd_other; exact Ne.
           ++ intros o Eo. congruence.
    + (* lost *)
      rewrite C2b. cbn [Z.eqb].
      apply local_move; auto; [rewrite Hpc; reflexivity|].
      unfold thread_inv; cbn. rewrite upd_same.
      repeat split; try discriminate; try (intros ? ?; discriminate).
      * intros _ E. unfold owner_inv in HO. rewrite E in HO. destruct HO as [X _]. contradiction.
      * nosleep s t PTry Ht Hpc.
      * nosleep s t PTry Ht Hpc.
  - (* PCall: callout begins *)
    destruct (ev_kind e DVU_CALLOUT_BEGIN); [|discriminate]. injection Hts as <-. injection Hs as <-.
    assert (Ot : owner s = Some t) by (apply Tt1; reflexivity).
    pose proof HO as HO'. unfold owner_inv in HO'. rewrite Ot, Hpc in HO'. destruct HO' as (_ & Wd & S0 & F0).
    split; [|split; [exact HE|]].
    + unfold owner_inv; cbn. rewrite Ot, upd_same. split; [exact Vt|]. repeat split; auto. lia.
    + intros u. destruct (Z.eq_dec u t) as [->|Ne].
      * unfold thread_inv; cbn. rewrite upd_same.
        repeat split; try discriminate; try (intros ? ?; discriminate); try (intros [?|?]; discriminate); auto.
        all: nosleep s t PCall Ht Hpc.
      * apply (other_thread s _ t u Ne (HT u)); cbn; auto.
        -- apply upd_other; exact Ne.
        -- intros o Eo _ Hw. assert (o = t) by congruence. subst o. unfold wake_premise in *; cbn. rewrite upd_same.
           destruct Hw as [[X _]|X]; [left; auto | congruence].
  - (* PInCall: callout ends *)
    destruct (ev_kind e DVU_CALLOUT_END); [|discriminate]. injection Hts as <-. injection Hs as <-.
    assert (Ot : owner s = Some t) by (apply Tt1; reflexivity).
    pose proof HO as HO'. unfold owner_inv in HO'. rewrite Ot, Hpc in HO'. destruct HO' as (_ & Wd & S0 & F0).
    split; [|split; [exact HE|]].
    + unfold owner_inv; cbn. rewrite Ot, upd_same. split; [exact Vt|]. repeat split; auto.
    + intros u. destruct (Z.eq_dec u t) as [->|Ne].
      * unfold thread_inv; cbn. rewrite upd_same.
        repeat split; try discriminate; try (intros ? ?; discriminate); try (intros [?|?]; discriminate); auto.
        all: nosleep s t PInCall Ht Hpc.
      * apply (other_thread s _ t u Ne (HT u)); cbn; auto.
        -- apply upd_other; exact Ne.
        -- intros o Eo _ Hw. assert (o = t) by congruence. subst o. unfold wake_premise in *; cbn. rewrite upd_same.
           destruct Hw as [[X _]|X]; [left; auto | congruence].
  - (* PMark: publish DONE *)
    destruct (ev_is e DV_XCHG MO_RELEASE 0 && (eb e =? DONE)) eqn:C; [|discriminate]. injection Hts as <-.
    destruct (Z.eqb_spec (ea e) (word s)) as [Ea|]; [|discriminate]. injection Hs as <-.
    assert (Ot : owner s = Some t) by (apply Tt1; reflexivity).
    pose proof HO as HO'. unfold owner_inv in HO'. rewrite Ot, Hpc in HO'. destruct HO' as (_ & Wd & S0 & F0).
    split; [|split; [exact HE|]].
    + unfold owner_inv; cbn. rewrite Ot, upd_same. split; [exact Vt|].
      destruct (u32 (ea e) =? t); repeat split; auto.
    + intros u. destruct (Z.eq_dec u t) as [->|Ne].
      * unfold thread_inv; cbn. rewrite upd_same.
        split; [auto|]. split; [intros ? X; destruct (u32 (ea e) =? t); discriminate X|].
        split; [intros ? X; destruct (u32 (ea e) =? t); discriminate X|].
        split; [intros [X|X]; destruct (u32 (ea e) =? t); discriminate X|].
        split; [nosleep s t PMark Ht Hpc|]. intros X; destruct (u32 (ea e) =? t); discriminate X.
      * apply (other_thread s _ t u Ne (HT u)); cbn; auto.
        -- apply upd_other; exact Ne.
        -- intros o Eo _ Hw. assert (o = t) by congruence. subst o. unfold wake_premise in *; cbn. rewrite upd_same.
           destruct Hw as [[X _]|X]; [|congruence]. right.
           rewrite Ea, X, Vt6. destruct (Z.eqb_spec (W t) t); [contradiction|reflexivity].
  - (* PWake: broadcast *)
    destruct (ev_kind e DV_FUTEX_WAKE); [|discriminate]. injection Hts as <-. injection Hs as <-.
    assert (Ot : owner s = Some t) by (apply Tt1; reflexivity).
    pose proof HO as HO'. unfold owner_inv in HO'. rewrite Ot, Hpc in HO'. destruct HO' as (_ & Wd & S0 & F0).
    split; [|split; [exact HE|]].
    + unfold owner_inv; cbn. rewrite Ot, upd_same. split; [exact Vt|]. auto.
    + intros u.
      assert (NS : wake_all (slp s) u <> Sleeping) by (unfold wake_all; destruct (slp s u); discriminate).
      destruct (Z.eq_dec u t) as [->|Ne].
      * unfold thread_inv; cbn. rewrite upd_same.
        repeat split; try discriminate; try (intros ? ?; discriminate); try (intros [?|?]; discriminate); auto;
          contradiction.
      * apply (other_thread s _ t u Ne (HT u)); cbn; auto.
        -- apply upd_other; exact Ne.
        -- intros o Eo Hsl Hw. contradiction.
  - (* PRet: the owner returns *)
    destruct (ev_kind e DVU_RET); [|discriminate]. injection Hts as <-. injection Hs as <-.
    assert (Ot : owner s = Some t) by (apply Tt1; reflexivity).
    pose proof HO as HO'. unfold owner_inv in HO'. rewrite Ot, Hpc in HO'. destruct HO' as (_ & Wd & S0 & F0).
    split; [|split].
    + unfold owner_inv; cbn. rewrite Ot, upd_same. split; [exact Vt|]. auto.
    + cbn. rewrite HE, F0. reflexivity.
    + intros u. destruct (Z.eq_dec u t) as [->|Ne].
      * unfold thread_inv; cbn. rewrite upd_same.
        repeat split; try discriminate; try (intros ? ?; discriminate); try (intros [?|?]; discriminate).
        all: nosleep s t PRet Ht Hpc.
      * apply (other_thread s _ t u Ne (HT u)); cbn; auto.
        -- apply upd_other; exact Ne.
        -- intros o Eo _ Hw. assert (o = t) by congruence. subst o. exfalso. unfold wake_premise in Hw.
           rewrite Hpc in Hw. destruct Hw as [[_ [X|[X|X]]]|X]; discriminate.
  - (* PWLoad: the waiter's relaxed load *)
    destruct (ev_is e DV_LOAD MO_RELAXED 0); [|discriminate]. injection Hts as <-.
    destruct (Z.eqb_spec (ea e) (word s)) as [Ea|]; [|discriminate]. injection Hs as <-.
    apply local_move; auto; [rewrite Hpc; reflexivity|].
    unfold thread_inv; cbn. rewrite upd_same.
    split; [discriminate|]. split.
    { intros old X. injection X as <-. destruct (owner s) as [o|] eqn:Eo; [|exfalso; apply Tt4; auto].
      exists o. split; [reflexivity|]. rewrite Ea. apply (word_values s o HO Eo). }
    repeat split; try discriminate; try (intros ? ?; discriminate); try (intros [?|?]; discriminate).
    all: nosleep s t PWLoad Ht Hpc.
  - (* PWBody old: one iteration of the rmw loop *)
    destruct (Tt2 old eq_refl) as (o & Eo & Dold).
    destruct (word_values s o HO Eo) as [Vo Dw].
    destruct (valid_W o Vo) as (Vo0 & Vo1 & Vo2 & Vo3 & Vo4 & Vo5 & Vo6 & Vo7 & Vo8).
    destruct Dold as [D|[D|[D F']]]; subst old.
    + (* old = o: try to set the waiters bit *)
      rewrite (body_owner o Vo0) in Hts, Hs. rewrite order_relaxed in Hts. cbn [mo_code] in Hts.
      destruct (ev_is e DV_CASW 0 0 && (eb e =? o + 2147483648)) eqn:C; [|discriminate]. injection Hts as <-.
      destruct ((ea e =? word s) && (negb (eok e =? 1) || (word s =? o))) eqn:C2; [|discriminate].
      apply andb_true_iff in C2 as [C2a C2b]. apply Z.eqb_eq in C2a. injection Hs as <-.
      destruct (Z.eqb_spec (eok e) 1) as [Ok|Nok].
      * (* success: the word was o and becomes W o *)
        cbn [negb orb] in C2b. apply Z.eqb_eq in C2b.
        assert (Hw : word s <> DONE) by (rewrite C2b; exact Vo3).
        destruct (owner_active s o HO Eo Hw) as [_ Hact].
        assert (Tno : t <> o).
        { intros ->. rewrite Hpc in Hact. destruct Hact as [X|[X|X]]; discriminate. }
        split; [|split; [exact HE|]].
        -- unfold owner_inv in *; cbn. rewrite Eo in *. destruct HO as [_ HO]. split; [exact Vo|].
           rewrite upd_other by (intro; apply Tno; auto).
           destruct Hact as [X|[X|X]]; rewrite X in *; fold (W o); intuition.
        -- intros u. destruct (Z.eq_dec u t) as [->|Ne].
           ++ unfold thread_inv; cbn. rewrite upd_same.
              split; [discriminate|]. split; [intros ? X; discriminate X|].
              split; [intros v X; injection X as <-; exists o; auto|].
              split; [intros [X|X]; discriminate X|]. split; [nosleep s t (PWBody o) Ht Hpc|discriminate].
           ++ apply (other_thread s _ t u Ne (HT u)); cbn; auto.
              ** apply upd_other; exact Ne.
              ** intros o' Eo' _ Hwp. assert (o' = o) by congruence. subst o'. unfold wake_premise in *; cbn.
                 rewrite upd_other by (intro; apply Tno; auto). left. split; [reflexivity|exact Hact].
      * (* failure (possibly spurious): re-iterate with the value observed *)
        apply local_move; auto; [rewrite Hpc; reflexivity|].
        unfold thread_inv; cbn. rewrite upd_same.
        split; [discriminate|]. split.
        { intros old X. injection X as <-. exists o. split; [exact Eo|]. rewrite C2a. exact Dw. }
        repeat split; try discriminate; try (intros ? ?; discriminate); try (intros [?|?]; discriminate).
        all: nosleep s t (PWBody o) Ht Hpc.
    + (* old = W o: the bit is already set, break out and sleep *)
      fold (W o) in *. unfold W in Hts, Hs. rewrite (body_owner_w o Vo0) in Hts, Hs. fold (W o) in *.
      destruct (ev_kind e DV_FUTEX_WAIT && (ea e =? u32 (W o))) eqn:C; [|discriminate]. injection Hts as <-.
      apply andb_true_iff in C as [_ Cv]. apply Z.eqb_eq in Cv. injection Hs as <-.
      apply local_move; auto; [rewrite Hpc; reflexivity | intros u Ne; apply upd_other; exact Ne |].
      unfold thread_inv; cbn. rewrite !upd_same.
      split; [discriminate|]. split; [intros ? X; discriminate X|]. split; [intros ? X; discriminate X|].
      split; [intros _; congruence|]. split; [|discriminate].
      intros Hsl. split; [reflexivity|]. exists o. split; [exact Eo|].
      rewrite Cv in Hsl. pose proof (sleep_clause s o (W o) HO Eo eq_refl Hsl) as Hwp.
      unfold wake_premise in *. destruct (Z.eq_dec o t) as [->|Ne2].
      * exfalso. rewrite Hpc in Hwp. destruct Hwp as [[_ [X|[X|X]]]|X]; discriminate.
      * rewrite upd_other by exact Ne2. exact Hwp.
    + (* old = DONE: return *)
      rewrite body_done in Hts, Hs.
      destruct (ev_kind e DVU_RET); [|discriminate]. injection Hts as <-. injection Hs as <-.
      replace (early_ret s || negb (finished s)) with (early_ret s)
        by (rewrite F'; destruct (early_ret s); reflexivity).
      apply local_move; auto; [rewrite Hpc; reflexivity|].
      unfold thread_inv; cbn. rewrite upd_same.
      repeat split; try discriminate; try (intros ? ?; discriminate); try (intros [?|?]; discriminate).
      all: nosleep s t (PWBody DONE) Ht Hpc.
  - (* PWFutex v: futex_wait on the committed value *)
    destruct (Tt3 v eq_refl) as (o & Eo & ->).
    destruct (ev_kind e DV_FUTEX_WAIT && (ea e =? u32 (W o))) eqn:C; [|discriminate]. injection Hts as <-.
    apply andb_true_iff in C as [_ Cv]. apply Z.eqb_eq in Cv. injection Hs as <-.
    apply local_move; auto; [rewrite Hpc; reflexivity | intros u Ne; apply upd_other; exact Ne |].
    unfold thread_inv; cbn. rewrite !upd_same.
    split; [discriminate|]. split; [intros ? X; discriminate X|]. split; [intros ? X; discriminate X|].
    split; [intros _; congruence|]. split; [|discriminate].
    intros Hsl. split; [reflexivity|]. exists o. split; [exact Eo|].
    rewrite Cv in Hsl. pose proof (sleep_clause s o (W o) HO Eo eq_refl Hsl) as Hwp.
    unfold wake_premise in *. destruct (Z.eq_dec o t) as [->|Ne2].
    + exfalso. rewrite Hpc in Hwp. destruct Hwp as [[_ [X|[X|X]]]|X]; discriminate.
    + rewrite upd_other by exact Ne2. exact Hwp.
  - (* PWSleep: futex_wait returns (woken, value changed, or spuriously) *)
    destruct (ev_kind e DV_FUTEX_WAIT_RET); [|discriminate]. injection Hts as <-. injection Hs as <-.
    apply local_move; auto; [rewrite Hpc; reflexivity | intros u Ne; apply upd_other; exact Ne |].
    unfold thread_inv; cbn. rewrite !upd_same.
    split; [discriminate|]. split; [intros ? X; discriminate X|]. split; [intros ? X; discriminate X|].
    split; [intros _; apply Tt4; auto|]. split; discriminate.
Qed.

(* ---- consequences ---- *)
Theorem inv_reach s : reach s -> Inv s.
Proof.
  apply invariant_lift.
  - intros ? ->. apply Inv_init.
  - intros s0 [t e] s1 HI [Vt Hs]. cbn in *. eapply step_preserves; eauto.
Qed.

Lemma reach_gstep s t e s' : reach s -> valid_tid t -> gstep s t e = Some s' -> reach s'.
Proof. intros R Vt Hs. apply (reach_step _ _ s (t, e) s' R). split; assumption. Qed.

Lemma exactly_once s : reach s ->
  starts s <= 1 /\ (finished s = true -> starts s = 1) /\ (starts s = 0 -> finished s = false).
Proof.
  intros R. destruct (inv_reach s R) as (HO & _ & _). unfold owner_inv in HO.
  destruct (owner s) as [o|].
  - destruct HO as [_ HO]. destruct (pcs s o); destruct HO as (_ & S & F); rewrite S, F; repeat split; intros; (lia || congruence).
  - destruct HO as (_ & S & F). rewrite S, F. repeat split; intros; (lia || congruence).
Qed.

Lemma no_early_return s : reach s -> early_ret s = false.
Proof. intros R. apply (inv_reach s R). Qed.

(* whoever is about to return has a finished initialiser behind it *)
Lemma return_enabled_only_after_finish s t e s' :
  reach s -> valid_tid t -> gstep s t e = Some s' -> ev_kind e DVU_RET = true -> finished s = true.
Proof.
  intros R Vt Hs Hk. assert (R' : reach s') by (eapply reach_gstep; eauto).
  pose proof (no_early_return s' R') as E. pose proof (no_early_return s R) as E0.
  unfold gstep in Hs. destruct (tstep t (pcs s t) e) as [p'|] eqn:Hts; [|discriminate].
  unfold ev_kind in Hk. apply Z.eqb_eq in Hk.
  destruct (pcs s t) eqn:Hpc; cbn [tstep] in Hts; cbv zeta in Hs;
    try (unfold ev_kind, ev_is in Hts; rewrite Hk in Hts; cbn in Hts; discriminate).
  - (* the inline fast path *)
    destruct (ev_kind e DVU_RET); [|discriminate]. injection Hs as <-. cbn in E. rewrite E0 in E.
    destruct (finished s); [reflexivity|discriminate].
  - destruct (ev_kind e DVU_RET); [|discriminate]. injection Hs as <-. cbn in E. rewrite E0 in E.
    destruct (finished s); [reflexivity|discriminate].
  - destruct (once_wait_loop 0 old) as [? ?|r l| |] eqn:B; try discriminate.
    + unfold ev_is in Hts. rewrite Hk in Hts. cbn in Hts. discriminate.
    + destruct (Z.eq_dec r 1) as [->|].
      * destruct (ev_kind e DVU_RET); [|discriminate]. injection Hs as <-. cbn in E. rewrite E0 in E.
        destruct (finished s); [reflexivity|discriminate].
      * exfalso. assert (X : (ev_kind e DV_FUTEX_WAIT && (ea e =? u32 old)) = false).
        { unfold ev_kind. rewrite Hk. reflexivity. }
        destruct r as [|[| |]|]; try (rewrite X in Hts; discriminate). contradiction.
Qed.

(* no waiter left behind: whenever a thread sleeps in futex_wait, the owner is on its way to the broadcast *)
Lemma sleeper_has_waker s t : reach s -> slp s t = Sleeping ->
  exists o, owner s = Some o /\ wake_premise s o.
Proof.
  intros R Hs. destruct (inv_reach s R) as (_ & _ & HT). destruct (HT t) as (_ & _ & _ & _ & T5 & _).
  destruct (T5 Hs) as (_ & o & E & D). exists o. auto.
Qed.

(* ... and when it publishes DONE over a word carrying the waiters bit it must go through the wake-up *)
Lemma mark_with_waiters_wakes s o e s' :
  valid_tid o -> pcs s o = PMark -> word s = W o -> gstep s o e = Some s' -> pcs s' o = PWake /\ word s' = DONE.
Proof.
  intros Vo Hpc Hw Hs. destruct (valid_W o Vo) as (V0 & V1 & V2 & V3 & V4 & V5 & V6 & V7 & V8).
  unfold gstep in Hs. rewrite Hpc in Hs. cbn [tstep] in Hs.
  destruct (ev_is e DV_XCHG MO_RELEASE 0 && (eb e =? DONE)); [|discriminate]. cbv zeta in Hs.
  destruct (Z.eqb_spec (ea e) (word s)) as [Ea|]; [|discriminate]. injection Hs as <-. cbn.
  rewrite upd_same, Ea, Hw, V6. destruct (Z.eqb_spec (W o) o); [contradiction|]. auto.
Qed.

(* once DONE is published it stays, and nobody can newly go to sleep on the gate *)
Lemma done_stable s t e s' : reach s -> valid_tid t -> word s = DONE -> gstep s t e = Some s' ->
  word s' = DONE /\ (slp s' t = Sleeping -> slp s t = Sleeping).
Proof.
  intros R Vt Hd Hs. destruct (inv_reach s R) as (HO & _ & HT). destruct (HT t) as (T1 & T2 & T3 & T4 & T5 & T6).
  assert (Hown : forall o, owner s = Some o -> pcs s o <> PCall /\ pcs s o <> PInCall /\ pcs s o <> PMark).
  { intros o Eo. unfold owner_inv in HO. rewrite Eo in HO. destruct HO as [Vo HO].
    destruct (valid_W o Vo) as (V0 & V1 & V2 & V3 & _).
    destruct (pcs s o); repeat split; try discriminate; destruct HO as ([X|X] & _); congruence. }
  unfold gstep in Hs. destruct (tstep t (pcs s t) e) as [p'|] eqn:Hts; [|discriminate].
  destruct (pcs s t) eqn:Hpc; cbn [tstep] in Hts; cbv zeta in Hs.
  - injection Hs as <-. cbn. auto.
  - (* PFast *) destruct (ea e =? word s); [|discriminate]. injection Hs as <-. cbn. auto.
  - (* PFRet *) injection Hs as <-. cbn. auto.
  - destruct ((ea e =? word s) && _); [|discriminate]. injection Hs as <-. cbn.
    rewrite Hd. cbn. auto.
  - exfalso. destruct (Hown t (T1 eq_refl)) as (X & _). congruence.
  - exfalso. destruct (Hown t (T1 eq_refl)) as (_ & X & _). congruence.
  - exfalso. destruct (Hown t (T1 eq_refl)) as (_ & _ & X). congruence.
  - injection Hs as <-. cbn. split; [exact Hd|]. unfold wake_all. destruct (slp s t); discriminate || auto.
  - injection Hs as <-. cbn. auto.
  - destruct (ea e =? word s); [|discriminate]. injection Hs as <-. cbn. auto.
  - destruct (T2 old eq_refl) as (o & Eo & D).
    destruct (once_wait_loop 0 old) as [new ?|r l| |] eqn:B; try discriminate.
    + destruct ((ea e =? word s) && _) eqn:C; [|discriminate]. injection Hs as <-. cbn.
      apply andb_true_iff in C as [_ C]. destruct (Z.eqb_spec (eok e) 1).
      * cbn in C. apply Z.eqb_eq in C. exfalso.
        (* a successful CAS needs word = old, i.e. old = DONE, but then the body gives up *)
        rewrite Hd in C. subst old. rewrite body_done in B. discriminate.
      * auto.
    + destruct (Z.eq_dec r 1) as [->|Nr].
      * injection Hs as <-. cbn. auto.
      * assert (Hs' : Some {| word := word s; pcs := upd (pcs s) t p';
                   slp := upd (slp s) t (if u32 (word s) =? ea e then Sleeping else NoSleep); owner := owner s;
                   starts := starts s; finished := finished s; early_ret := early_ret s |} = Some s').
        { destruct r as [|[| |]|]; try exact Hs. contradiction. }
        injection Hs' as <-. cbn. rewrite upd_same. split; [exact Hd|].
        assert (Hts' : (if ev_kind e DV_FUTEX_WAIT && (ea e =? u32 old) then Some PWSleep else None) = Some p').
        { destruct r as [|[| |]|]; try exact Hts. contradiction. }
        destruct (ev_kind e DV_FUTEX_WAIT && (ea e =? u32 old)) eqn:C; [|discriminate].
        apply andb_true_iff in C as [_ C]. apply Z.eqb_eq in C.
        (* old is o or W o here (DONE gives NoCommit 1); in both cases u32 old <> u32 DONE *)
        unfold owner_inv in HO. rewrite Eo in HO. destruct HO as [Vo _].
        destruct (valid_W o Vo) as (V0 & V1 & V2 & V3 & V4 & V5 & V6 & V7 & V8).
        destruct D as [->|[->|[-> _]]].
        -- rewrite (body_owner o V0) in B. discriminate.
        -- rewrite C, Hd, V6. destruct (Z.eqb_spec (u32 DONE) (W o)); [contradiction|discriminate].
        -- rewrite body_done in B. injection B as <- _. contradiction.
  - destruct (T3 v eq_refl) as (o & Eo & ->). injection Hs as <-. cbn. rewrite upd_same. split; [exact Hd|].
    destruct (ev_kind e DV_FUTEX_WAIT && (ea e =? u32 (W o))) eqn:C; [|discriminate].
    apply andb_true_iff in C as [_ C]. apply Z.eqb_eq in C.
    unfold owner_inv in HO. rewrite Eo in HO. destruct HO as [Vo _].
    destruct (valid_W o Vo) as (V0 & V1 & V2 & V3 & V4 & V5 & V6 & V7 & V8).
    rewrite C, Hd, V6. destruct (Z.eqb_spec (u32 DONE) (W o)); [contradiction|discriminate].
  - injection Hs as <-. cbn. rewrite upd_same. split; [exact Hd|discriminate].
Qed.

(* the global model's thread moves are exactly moves of the per-thread automaton used for trace conformance *)
Lemma gstep_tstep s t e s' : gstep s t e = Some s' -> tstep t (pcs s t) e = Some (pcs s' t).
Proof.
  unfold gstep. destruct (tstep t (pcs s t) e) as [p'|]; [|discriminate]. intros Hs. f_equal.
  destruct (pcs s t); cbv zeta in Hs;
    repeat match type of Hs with
    | (if ?c then _ else None) = Some _ => destruct c; [|discriminate]
    | (match ?x with _ => _ end) = Some _ => destruct x; try discriminate
    end; injection Hs as <-; cbn; rewrite upd_same; reflexivity.
Qed.

(* ---- the inline fast path of dispatch/once.h ---- *)
(* the fact the plain read relies on: the gate word is ~0l only after the initialiser has finished (and ran once) *)
Lemma done_implies_finished s : reach s -> word s = DONE -> finished s = true /\ starts s = 1.
Proof.
  intros R Hd. destruct (inv_reach s R) as (HO & _ & _). unfold owner_inv in HO.
  destruct (owner s) as [o|].
  - destruct HO as [Vo HO]. destruct (valid_W o Vo) as (V0 & V1 & V2 & V3 & _).
    destruct (pcs s o); try (destruct HO as (_ & S & F); split; assumption);
      destruct HO as ([X|X] & _); congruence.
  - destruct HO as (X & _). rewrite X in Hd. discriminate.
Qed.
(* a caller on its way out through the fast path: the initialiser has finished; it takes that way only after reading ~0l *)
Lemma fast_return_after_finish s t : reach s -> pcs s t = PFRet -> finished s = true /\ starts s = 1.
Proof.
  intros R Hp. pose proof (inv_reach s R) as (HO & _ & HT). destruct (HT t) as (_ & _ & _ & _ & _ & T6).
  pose proof (T6 Hp) as F. split; [exact F|].
  destruct (exactly_once s R) as (_ & X & _). exact (X F).
Qed.
Lemma fast_path_reads_done s t e s' : gstep s t e = Some s' -> pcs s t = PFast ->
  ea e = word s /\ (pcs s' t = PFRet <-> word s = DONE) /\ (pcs s' t = PFRet \/ pcs s' t = PTry) /\ word s' = word s.
Proof.
  unfold gstep. intros H Hp. rewrite Hp in H. cbn [tstep] in H.
  destruct (ev_is e DV_LOAD MO_PLAIN 0); [|discriminate]. cbv zeta in H.
  destruct (Z.eqb_spec (ea e) (word s)) as [Ea|]; [|discriminate]. injection H as <-. cbn. rewrite upd_same.
  split; [exact Ea|]. rewrite Ea. destruct (Z.eqb_spec (word s) DONE); repeat split; auto; try tauto; intros X; discriminate X.
Qed.
(* the word the owner exchanges for DONE is its own lock value, with or without the waiters bit: the "lock not owned by
   current thread" crash of _dispatch_gate_broadcast_slow is unreachable *)
Lemma mark_word_is_owners s o : reach s -> valid_tid o -> pcs s o = PMark -> owner s = Some o /\ (word s = o \/ word s = W o).
Proof.
  intros R Vo Hp. pose proof (inv_reach s R) as (HO & _ & HT). destruct (HT o) as (T1 & _).
  assert (E : owner s = Some o) by (apply T1; rewrite Hp; reflexivity). split; [exact E|].
  unfold owner_inv in HO. rewrite E, Hp in HO. tauto.
Qed.
(* the conformance automaton is the thread automaton plus the one hidden plain read *)
Lemma tstep_vis_sound self p e p' : tstep_vis self p e = Some p' ->
  tstep self p e = Some p' \/ exists v p1, tstep self p (ev_plain_load v) = Some p1 /\ tstep self p1 e = Some p'.
Proof.
  destruct p; cbn [tstep_vis]; intros H; try (left; exact H). right.
  destruct (ev_kind e DVU_RET).
  - exists DONE, PFRet. split; [reflexivity|exact H].
  - exists 0, PTry. split; [reflexivity|exact H].
Qed.
