(* Lane_fields.v — field-level specifications of the generated dq_state bodies used by the serial-lane protocol
   model (Model/SLane.v): what each rmw body does to the fields of the word, for every well-formed word. *)
From Coq Require Import ZArith Bool List Lia.
From Verif Require Import Word Bits Fields DqFields Gen_consts Gen_dqstate.
Import ListNotations.
Local Open Scope Z_scope.

Lemma u64_id'' x : 0 <= x < 18446744073709551616 -> u64 x = x.
Proof. intros. unfold u64. apply Z.mod_small. lia. Qed.

Ltac wfv_tac := apply wfv12; lia.

(* rewrite one bitwise operation of a field vector with a literal constant *)
Ltac vec_land c :=
  rewrite (land_vec_const _ c) by (wfv_tac || lia);
  let d := eval vm_compute in (decode LAY c) in change (decode LAY c) with d; cbn [map2].
Ltac vec_lor c :=
  rewrite (lor_vec_const _ c) by (wfv_tac || lia);
  let d := eval vm_compute in (decode LAY c) in change (decode LAY c) with d; cbn [map2].
Ltac vec_lxor c :=
  rewrite (lxor_vec_const _ c) by (wfv_tac || lia);
  let d := eval vm_compute in (decode LAY c) in change (decode LAY c) with d; cbn [map2].

Ltac fsimp :=
  repeat match goal with
  | |- context [Z.land ?x 0] => rewrite (Z.land_0_r x)
  | |- context [Z.lor ?x 0] => rewrite (Z.lor_0_r x)
  | |- context [Z.lxor ?x 0] => rewrite (Z.lxor_0_r x)
  | |- context [Z.lor 0 ?x] => rewrite (Z.lor_0_l x)
  | |- context [Z.land ?x 1] => rewrite (land1 x) by lia
  | |- context [Z.land ?x 1073741823] => rewrite (land_owner x) by lia
  | |- context [Z.land ?x 7] => rewrite (land7 x) by lia
  | |- context [Z.land ?x 3] => rewrite (land3 x) by lia
  | |- context [Z.land ?x 8191] => rewrite (land8191 x) by lia
  | |- context [Z.land ?x 511] => rewrite (land511 x) by lia
  | |- context [Z.lor ?x 1] => rewrite (lor1 x) by lia
  | |- context [Z.lxor ?x 1] => rewrite (lxor1 x) by lia
  end.

Definition mk a b c d e f g h i j k l :=
  {| f_owner := a; f_tr := b; f_enq := c; f_mq := d; f_ov := e; f_role := f; f_em := g; f_d := h; f_pb := i;
     f_wq := j; f_ib := k; f_hi := l |}.

Lemma pred_received_override r : wfr r -> nz (f_dq_state_received_override (enc r)) = ((f_ov r =? 1) && (f_role r =? 1 ) || false) \/ True.
Proof. right. exact I. Qed.

(* drain_try_unlock on a serial lane locked by a drainer: gives back IN_BARRIER + one width interval (+ the
   ENQUEUED bit the lock took over), clears owner / override / max-qos; refuses while DIRTY *)
Lemma unlock_fields r e :
  wfr r -> f_hi r = 0 -> f_ib r = 1 -> f_wq r = 4096 -> 0 <= e <= f_enq r ->
  f_dispatch_queue_drain_try_unlock 0 (18014398509481984 + 2199023255552 + 2147483648 * e) 1 (enc r) =
  if f_d r =? 1 then NoCommit 0 [AXor 0 549755813888 Acquire]
  else Commit (enc (mk 0 0 (f_enq r - e) 0 0 (f_role r) (f_em r) 0 (f_pb r) 4095 0 0)) 1.
Proof.
  intros W H0 Hib Hwq He. pose proof W as W'. unfold wfr in W'.
  unfold f_dispatch_queue_drain_try_unlock. cbv zeta.
  rewrite is_suspended_f by exact W. rewrite H0. cbn [Z.ltb Z.compare negb].
  rewrite is_dirty_f by exact W.
  destruct (Z.eqb_spec (f_d r) 1) as [Hd|Hd]; cbn [negb].
  - reflexivity.
  - assert (Hd0 : f_d r = 0) by lia.
    assert (E : u64 (enc r - (18014398509481984 + 2199023255552 + 2147483648 * e)) =
                encode LAY [f_owner r; f_tr r; f_enq r - e; f_mq r; f_ov r; f_role r; f_em r; 0; f_pb r; 4095; 0; 0]).
    { rewrite enc_linear, vec_linear, H0, Hib, Hwq, Hd0.
      rewrite u64_id'' by lia. lia. }
    rewrite E.
    vec_land 18446744037202329600. fsimp.
    change (nz 1) with true. cbv iota.
    vec_land 18446744043644780543. fsimp.
    destruct (nz (f_dq_state_received_override (enc r))); reflexivity.
Qed.

(* ---- generic helpers: a single-field mask test ---- *)
Lemma land_lockfail r : wfr r ->
  Z.land (enc r) 18437737150406459391 =
  f_owner r + 274877906944 * f_em r + 2199023255552 * (4096 * (f_wq r / 4096)) + 18014398509481984 * f_ib r +
  36028797018963968 * f_hi r.
Proof.
  intros W. pose proof W as W'. unfold wfr in W'. rewrite enc_vec.
  vec_land 18437737150406459391. fsimp. rewrite vec_linear.
  (* the width field is masked by 4096: only the width-full bit survives *)
  assert (E : Z.land (f_wq r) 4096 = 4096 * (f_wq r / 4096)).
  { change 4096 with (2 ^ 12) at 1. rewrite land_bit by lia. change (2 ^ 12) with 4096.
    assert (0 <= f_wq r / 4096 < 2) by (split; [apply Z.div_pos; lia | apply Z.div_lt_upper_bound; lia]).
    rewrite Z.mod_small by lia. lia. }
  rewrite E. lia.
Qed.

Definition lock_free (r : dqf) : bool :=
  (f_owner r =? 0) && (f_em r =? 0) && (f_wq r <? 4096) && (f_ib r =? 0) && (f_hi r =? 0).

Lemma lockfail_zero_iff r : wfr r -> (Z.land (enc r) 18437737150406459391 =? 0) = lock_free r.
Proof.
  intros W. rewrite land_lockfail by exact W. unfold lock_free. pose proof W as W'. unfold wfr in W'.
  assert (Hq : 0 <= f_wq r / 4096 < 2) by (split; [apply Z.div_pos; lia | apply Z.div_lt_upper_bound; lia]).
  assert (Hq' : f_wq r / 4096 = 0 <-> f_wq r < 4096).
  { split; intros.
    - destruct (Z.lt_ge_cases (f_wq r) 4096); [assumption|]. assert (1 <= f_wq r / 4096) by (apply Z.div_le_lower_bound; lia). lia.
    - apply Z.div_small. lia. }
  destruct (Z.eqb_spec (f_owner r) 0), (Z.eqb_spec (f_em r) 0), (Z.ltb_spec (f_wq r) 4096), (Z.eqb_spec (f_ib r) 0),
    (Z.eqb_spec (f_hi r) 0); cbn [andb];
    match goal with |- (?x =? 0) = _ => destruct (Z.eqb_spec x 0) end; try reflexivity; exfalso; lia.
Qed.

Lemma nz_lockfail r : wfr r -> nz (Z.land (enc r) 18437737150406459391) = negb (lock_free r).
Proof. intros W. unfold nz. rewrite (lockfail_zero_iff r W). reflexivity. Qed.

Lemma base_anon_f r : wfr r -> nz (f_dq_state_is_base_anon (enc r)) = (f_role r mod 2 =? 1).
Proof.
  intros W. pose proof W as W'. unfold wfr in W'. unfold f_dq_state_is_base_anon. rewrite enc_vec.
  vec_land 68719476736. fsimp. rewrite vec_linear.
  assert (E : Z.land (f_role r) 1 = f_role r mod 2) by (change 1 with (Z.ones 1); rewrite Z.land_ones by lia; reflexivity).
  rewrite E. unfold nz, b2z.
  assert (f_role r mod 2 = 0 \/ f_role r mod 2 = 1) as [->| ->] by (pose proof (Z.mod_pos_bound (f_role r) 2); lia); reflexivity.
Qed.

Lemma max_qos_f r : wfr r -> f_dq_state_max_qos (enc r) = f_mq r.
Proof.
  intros W. pose proof W as W'. unfold wfr in W'. unfold f_dq_state_max_qos. cbv zeta. rewrite enc_vec.
  vec_land 30064771072. fsimp. rewrite vec_linear.
  replace (0 + 1073741824 * 0 + 2147483648 * 0 + 4294967296 * f_mq r + 34359738368 * 0 + 68719476736 * 0 +
           274877906944 * 0 + 549755813888 * 0 + 1099511627776 * 0 + 2199023255552 * 0 + 18014398509481984 * 0 +
           36028797018963968 * 0) with (f_mq r * 2 ^ 32) by (change (2 ^ 32) with 4294967296; lia).
  rewrite Z.shiftr_div_pow2 by lia. rewrite Z.div_mul by lia. unfold u32. apply Z.mod_small. lia.
Qed.

Lemma pending_barrier_f r : wfr r -> nz (f_dq_state_has_pending_barrier (enc r)) = (f_pb r =? 1).
Proof.
  intros W. pose proof W as W'. unfold wfr in W'. unfold f_dq_state_has_pending_barrier. rewrite enc_vec.
  vec_land 1099511627776. fsimp. rewrite vec_linear. unfold nz, b2z.
  assert (f_pb r = 0 \/ f_pb r = 1) as [->| ->] by lia; reflexivity.
Qed.

(* ---- drain_try_lock of a serial lane by a normal (non-stealing, non-manager) drainer ---- *)
Lemma lock_fields r self floor ov :
  wfr r -> 0 < self < 1073741824 ->
  f_dispatch_queue_drain_try_lock 0 0 1 self floor (enc r) ov =
  if lock_free r then
    if (f_role r mod 2 =? 1) && (floor <? f_mq r) then Restart []
    else Commit (enc (mk self 0 (f_enq r) (f_mq r) 0 (f_role r) 0 0 0 4096 1 0))
                (18014398509481984 + 9007199254740992 + 2147483648 * f_enq r - 2199023255552 * f_wq r)
  else Commit (enc (mk (f_owner r) (f_tr r) (1 - f_enq r) (f_mq r) (f_ov r) (f_role r) (f_em r) (f_d r) (f_pb r)
                       (f_wq r) (f_ib r) (f_hi r))) 0.
Proof.
  intros W Hself. pose proof W as W'. unfold wfr in W'.
  unfold f_dispatch_queue_drain_try_lock. cbv zeta.
  change (nz (Z.land 0 1)) with false. change (nz (Z.land 0 262144)) with false. cbv iota beta.
  change (Z.lor (Z.lor 18437736874454810624 1073741823) 274877906944) with 18437737150406459391.
  change (Z.lor 27021597764222976 2147483648) with 27021599911706624.
  change (u64 (u64 (s32 (1 - 1)) * 2199023255552)) with 0.
  rewrite !(nz_lockfail r W).
  destruct (lock_free r) eqn:LF; cbn [negb].
  - unfold f_dq_state_needs_lock_override. rewrite base_anon_f, max_qos_f by exact W.
    destruct ((f_role r mod 2 =? 1) && (floor <? f_mq r)) eqn:OV.
    + unfold nz, b2z. cbn [Z.eqb negb]. reflexivity.
    + unfold nz at 1. unfold b2z. cbn [Z.eqb negb].
      unfold lock_free in LF. rewrite !andb_true_iff in LF. destruct LF as [[[[L1 L2] L3] L4] L5].
      apply Z.eqb_eq in L1, L2, L4, L5. apply Z.ltb_lt in L3.
      (* new = (old & PRESERVED) | (self | FULL) | IN_BARRIER *)
      rewrite Z.add_0_r. rewrite (u64_id'' (enc r)) by (apply enc_range; exact W).
      assert (Hlt : (enc r <? 9007199254740992) = true).
      { apply Z.ltb_lt. rewrite enc_linear. rewrite L1, L2, L4, L5. lia. }
      rewrite Hlt, orb_true_r.
      rewrite (enc_vec r).
      vec_land 513248591872. fsimp.
      assert (Eo : Z.lor self 9007199254740992 = encode LAY [self; 0; 0; 0; 0; 0; 0; 0; 0; 4096; 0; 0]).
      { rewrite vec_linear. pose proof (lor_disjoint self 1 53) as D. change (2 ^ 53) with 9007199254740992 in D.
        rewrite Z.mul_1_l in D. rewrite D by lia. lia. }
      rewrite Eo.
      rewrite encode_lor by wfv_tac. cbn [map2]. fsimp.
      vec_lor 18014398509481984. fsimp.
      vec_land 27021599911706624. fsimp.
      vec_land 18012199486226432. fsimp.
      change (Z.land 4096 4096) with 4096.
      f_equal.
      * rewrite L2. reflexivity.
      * rewrite !vec_linear. rewrite u64_id'' by lia. lia.
  - change (nz 2147483648) with true. cbv iota.
    rewrite (enc_vec r). vec_lxor 2147483648. fsimp. reflexivity.
Qed.

(* ---- more predicates on fields ---- *)
Lemma drain_locked_f r : wfr r -> nz (f_dq_state_drain_locked (enc r)) = negb (f_owner r =? 0).
Proof.
  intros W. pose proof W as W'. unfold wfr in W'.
  unfold f_dq_state_drain_locked, f_dispatch_lock_is_locked, u32.
  change 4294967296 with (2 ^ 32). rewrite <- Z.land_ones by lia.
  rewrite <- Z.land_assoc. change (Z.land (Z.ones 32) 1073741823) with 1073741823.
  rewrite enc_vec. vec_land 1073741823. fsimp. rewrite vec_linear.
  replace (f_owner r + 1073741824 * 0 + 2147483648 * 0 + 4294967296 * 0 + 34359738368 * 0 + 68719476736 * 0 +
           274877906944 * 0 + 549755813888 * 0 + 1099511627776 * 0 + 2199023255552 * 0 + 18014398509481984 * 0 +
           36028797018963968 * 0) with (f_owner r) by lia.
  unfold nz, b2z. destruct (f_owner r =? 0); reflexivity.
Qed.

Lemma is_enqueued_f r : wfr r -> nz (f_dq_state_is_enqueued (enc r)) = negb ((f_enq r =? 0) && (f_em r =? 0)).
Proof.
  intros W. pose proof W as W'. unfold wfr in W'. unfold f_dq_state_is_enqueued. rewrite enc_vec.
  vec_land 277025390592. fsimp. rewrite vec_linear. unfold nz, b2z.
  assert (f_enq r = 0 \/ f_enq r = 1) as [E1|E1] by lia; assert (f_em r = 0 \/ f_em r = 1) as [E2|E2] by lia;
    rewrite E1, E2; reflexivity.
Qed.

Lemma base_wlh_f r : wfr r -> nz (f_dq_state_is_base_wlh (enc r)) = (2 <=? f_role r).
Proof.
  intros W. pose proof W as W'. unfold wfr in W'. unfold f_dq_state_is_base_wlh. rewrite enc_vec.
  vec_land 137438953472. rewrite vec_linear. fsimp. unfold nz, b2z.
  assert (f_role r = 0 \/ f_role r = 1 \/ f_role r = 2 \/ f_role r = 3) as [E|[E|[E|E]]] by lia; rewrite E; reflexivity.
Qed.

(* ---- _dq_state_merge_qos ---- *)
Definition merged (r : dqf) (qos : Z) : dqf :=
  if f_mq r <? qos
  then mk (f_owner r) (f_tr r) (f_enq r) qos (if f_role r mod 2 =? 1 then 1 else f_ov r) (f_role r) (f_em r) (f_d r)
          (f_pb r) (f_wq r) (f_ib r) (f_hi r)
  else r.

Lemma merged_wf r qos : wfr r -> 0 <= qos < 8 -> wfr (merged r qos).
Proof.
  intros W Q. unfold merged. destruct (f_mq r <? qos); [|exact W].
  unfold wfr in *. unfold mk; cbn. destruct (f_role r mod 2 =? 1); repeat split; lia.
Qed.

Lemma merge_qos_fields r qos : wfr r -> 0 <= qos < 8 -> f_dq_state_merge_qos (enc r) qos = enc (merged r qos).
Proof.
  intros W Q. pose proof W as W'. unfold wfr in W'.
  unfold f_dq_state_merge_qos, f_dq_state_from_qos. cbv zeta.
  assert (Eq : u64 (Z.shiftl qos 32) = 4294967296 * qos).
  { rewrite Z.shiftl_mul_pow2 by lia. change (2 ^ 32) with 4294967296. rewrite u64_id'' by lia. lia. }
  rewrite Eq.
  assert (Em : Z.land (enc r) 30064771072 = 4294967296 * f_mq r).
  { rewrite enc_vec. vec_land 30064771072. fsimp. rewrite vec_linear. lia. }
  rewrite Em. unfold merged.
  destruct (Z.ltb_spec (f_mq r) qos) as [Hlt|Hge].
  - assert (T : (4294967296 * f_mq r <? 4294967296 * qos) = true) by (apply Z.ltb_lt; lia). rewrite T.
    rewrite (enc_vec r). vec_land 18446744043644780543. fsimp.
    assert (Eqv : 4294967296 * qos = encode LAY [0; 0; 0; qos; 0; 0; 0; 0; 0; 0; 0; 0]) by (rewrite vec_linear; lia).
    rewrite Eqv. rewrite encode_lor by wfv_tac. cbn [map2]. fsimp.
    assert (Eb : nz (f_dq_state_is_base_anon
                      (encode LAY [f_owner r; f_tr r; f_enq r; qos; f_ov r; f_role r; f_em r; f_d r; f_pb r; f_wq r; f_ib r; f_hi r])) =
                 (f_role r mod 2 =? 1)).
    { change (encode LAY [f_owner r; f_tr r; f_enq r; qos; f_ov r; f_role r; f_em r; f_d r; f_pb r; f_wq r; f_ib r; f_hi r])
        with (enc (mk (f_owner r) (f_tr r) (f_enq r) qos (f_ov r) (f_role r) (f_em r) (f_d r) (f_pb r) (f_wq r) (f_ib r) (f_hi r))).
      rewrite base_anon_f; [reflexivity|]. unfold wfr, mk; cbn. repeat split; lia. }
    rewrite Eb. cbn [negb].
    destruct (f_role r mod 2 =? 1).
    + vec_lor 34359738368. fsimp. reflexivity.
    + reflexivity.
  - assert (T : (4294967296 * f_mq r <? 4294967296 * qos) = false) by (apply Z.ltb_ge; lia). rewrite T. reflexivity.
Qed.

(* ---- _dispatch_queue_wakeup's rmw loop with MAKE_DIRTY (push that made the queue non-empty, merge_data) ---- *)
Definition can_enqueue (r : dqf) : bool :=
  (f_hi r =? 0) && (f_enq r =? 0) && (f_em r =? 0) && ((f_owner r =? 0) || (2 <=? f_role r)).

Lemma wakeup_fields r qos flags target :
  wfr r -> 0 <= qos < 8 -> nz (Z.land flags 2) = true ->
  wakeup_loop 0 qos flags target (enc r) 2147483648 =
  let m := merged r qos in
  Commit (enc (mk (f_owner m) (f_tr m) (if can_enqueue r then 1 else f_enq m) (f_mq m) (f_ov m) (f_role m) (f_em m) 1
                  (f_pb m) (f_wq m) (f_ib m) (f_hi m))) 0.
Proof.
  intros W Q F. pose proof W as W'. unfold wfr in W'.
  unfold wakeup_loop. cbv zeta. rewrite F.
  rewrite merge_qos_fields by assumption.
  rewrite is_suspended_f, is_enqueued_f, drain_locked_f, base_wlh_f by exact W.
  change (2147483648 =? 274877906944) with false. cbn [negb andb].
  pose proof (merged_wf r qos W Q) as Wm. pose proof Wm as Wm'. unfold wfr in Wm'.
  set (m := merged r qos) in *.
  assert (Same : f_owner m = f_owner r /\ f_tr m = f_tr r /\ f_enq m = f_enq r /\ f_em m = f_em r /\ f_hi m = f_hi r).
  { subst m. unfold merged. destruct (f_mq r <? qos); cbn; auto. }
  destruct Same as (S1 & S2 & S3 & S4 & S5).
  assert (C : (negb (0 <? f_hi r) && negb (negb ((f_enq r =? 0) && (f_em r =? 0))) &&
               (negb (negb (f_owner r =? 0)) || (2 <=? f_role r))) = can_enqueue r).
  { unfold can_enqueue. rewrite !negb_involutive.
    destruct (Z.ltb_spec 0 (f_hi r)); destruct (Z.eqb_spec (f_hi r) 0); try lia; cbn [negb andb]; try reflexivity;
      try (rewrite andb_assoc; reflexivity). }
  rewrite negb_involutive. rewrite C.
  destruct (can_enqueue r) eqn:CE.
  - rewrite (enc_vec m). vec_lor 2147483648.
    unfold can_enqueue in CE. rewrite !andb_true_iff in CE. destruct CE as [[[_ CE2] _] _]. apply Z.eqb_eq in CE2.
    rewrite S3, CE2. change (Z.lor 0 1) with 1. fsimp.
    vec_lor 549755813888. fsimp. reflexivity.
  - rewrite (enc_vec m). vec_lor 549755813888. fsimp. reflexivity.
Qed.

(* ---- the acquire xor of DIRTY after a refused unlock ---- *)
Lemma xor_dirty_fields r : wfr r ->
  Z.lxor (enc r) 549755813888 =
  enc (mk (f_owner r) (f_tr r) (f_enq r) (f_mq r) (f_ov r) (f_role r) (f_em r) (1 - f_d r) (f_pb r) (f_wq r) (f_ib r) (f_hi r)).
Proof.
  intros W. pose proof W as W'. unfold wfr in W'. rewrite (enc_vec r). vec_lxor 549755813888. fsimp. reflexivity.
Qed.

(* ---- the same rmw loop without MAKE_DIRTY (override wakeup of a push onto a non-empty list, flags = CONSUME_2) ---- *)
Lemma wakeup_fields_plain r qos flags target :
  wfr r -> 0 <= qos < 8 -> nz (Z.land flags 2) = false ->
  wakeup_loop 0 qos flags target (enc r) 2147483648 =
  let m := merged r qos in
  let r' := mk (f_owner m) (f_tr m) (if can_enqueue r then 1 else f_enq m) (f_mq m) (f_ov m) (f_role m) (f_em m) (f_d m)
               (f_pb m) (f_wq m) (f_ib m) (f_hi m) in
  if enc r' =? enc r then NoCommit 2 [] else Commit (enc r') 0.
Proof.
  intros W Q F. pose proof W as W'. unfold wfr in W'.
  unfold wakeup_loop. cbv zeta. rewrite F.
  rewrite merge_qos_fields by assumption.
  rewrite is_suspended_f, is_enqueued_f, drain_locked_f, base_wlh_f by exact W.
  change (2147483648 =? 274877906944) with false. cbn [negb andb].
  pose proof (merged_wf r qos W Q) as Wm. pose proof Wm as Wm'. unfold wfr in Wm'.
  set (m := merged r qos) in *.
  assert (Same : f_owner m = f_owner r /\ f_tr m = f_tr r /\ f_enq m = f_enq r /\ f_em m = f_em r /\ f_hi m = f_hi r).
  { subst m. unfold merged. destruct (f_mq r <? qos); cbn; auto. }
  destruct Same as (S1 & S2 & S3 & S4 & S5).
  assert (C : (negb (0 <? f_hi r) && negb (negb ((f_enq r =? 0) && (f_em r =? 0))) &&
               (negb (negb (f_owner r =? 0)) || (2 <=? f_role r))) = can_enqueue r).
  { unfold can_enqueue. rewrite !negb_involutive.
    destruct (Z.ltb_spec 0 (f_hi r)); destruct (Z.eqb_spec (f_hi r) 0); try lia; cbn [negb andb]; try reflexivity;
      try (rewrite andb_assoc; reflexivity). }
  rewrite negb_involutive. rewrite C.
  destruct (can_enqueue r) eqn:CE.
  - assert (E : Z.lor (enc m) 2147483648 =
                enc (mk (f_owner m) (f_tr m) 1 (f_mq m) (f_ov m) (f_role m) (f_em m) (f_d m) (f_pb m) (f_wq m) (f_ib m) (f_hi m))).
    { rewrite (enc_vec m). vec_lor 2147483648.
      unfold can_enqueue in CE. rewrite !andb_true_iff in CE. destruct CE as [[[_ CE2] _] _]. apply Z.eqb_eq in CE2.
      rewrite S3, CE2. change (Z.lor 0 1) with 1. fsimp. reflexivity. }
    rewrite E. reflexivity.
  - assert (E : enc m = enc (mk (f_owner m) (f_tr m) (f_enq m) (f_mq m) (f_ov m) (f_role m) (f_em m) (f_d m) (f_pb m) (f_wq m) (f_ib m) (f_hi m)))
      by reflexivity.
    rewrite <- E. reflexivity.
Qed.
