(* Lane_fields.v — field-level specifications of the generated dq_state bodies used by the serial-lane protocol
   model (Model/SLane.v): what each rmw body does to the fields of the word, for every well-formed word. *)
From Coq Require Import ZArith Bool List Lia.
From Verif Require Import Word Bits Fields DqFields Gen_consts Gen_dqstate.
Import ListNotations.
Local Open Scope Z_scope.

Lemma u64_id'' x : 0 <= x < 18446744073709551616 -> u64 x = x.
Proof. intros. unfold u64. apply Z.mod_small. lia. Qed.

Ltac wfv_tac := apply wfv12; lia.

(* rewrite one bitwise operation of a field vector with a literal constant *)
Ltac vec_land c :=
  rewrite (land_vec_const _ c) by (wfv_tac || lia);
  let d := eval vm_compute in (decode LAY c) in change (decode LAY c) with d; cbn [map2].
Ltac vec_lor c :=
  rewrite (lor_vec_const _ c) by (wfv_tac || lia);
  let d := eval vm_compute in (decode LAY c) in change (decode LAY c) with d; cbn [map2].
Ltac vec_lxor c :=
  rewrite (lxor_vec_const _ c) by (wfv_tac || lia);
  let d := eval vm_compute in (decode LAY c) in change (decode LAY c) with d; cbn [map2].

Ltac fsimp :=
  repeat match goal with
  | |- context [Z.land ?x 0] => rewrite (Z.land_0_r x)
  | |- context [Z.lor ?x 0] => rewrite (Z.lor_0_r x)
  | |- context [Z.lxor ?x 0] => rewrite (Z.lxor_0_r x)
  | |- context [Z.lor 0 ?x] => rewrite (Z.lor_0_l x)
  | |- context [Z.land ?x 1] => rewrite (land1 x) by lia
  | |- context [Z.land ?x 1073741823] => rewrite (land_owner x) by lia
  | |- context [Z.land ?x 7] => rewrite (land7 x) by lia
  | |- context [Z.land ?x 3] => rewrite (land3 x) by lia
  | |- context [Z.land ?x 8191] => rewrite (land8191 x) by lia
  | |- context [Z.land ?x 511] => rewrite (land511 x) by lia
  | |- context [Z.lor ?x 1] => rewrite (lor1 x) by lia
  | |- context [Z.lxor ?x 1] => rewrite (lxor1 x) by lia
  end.

Definition mk a b c d e f g h i j k l :=
  {| f_owner := a; f_tr := b; f_enq := c; f_mq := d; f_ov := e; f_role := f; f_em := g; f_d := h; f_pb := i;
     f_wq := j; f_ib := k; f_hi := l |}.

Lemma pred_received_override r : wfr r -> nz (f_dq_state_received_override (enc r)) = ((f_ov r =? 1) && (f_role r =? 1 ) || false) \/ True.
Proof. right. exact I. Qed.

(* drain_try_unlock on a serial lane locked by a drainer: gives back IN_BARRIER + one width interval (+ the
   ENQUEUED bit the lock took over), clears owner / override / max-qos; refuses while DIRTY *)
Lemma unlock_fields r e :
  wfr r -> f_hi r = 0 -> f_ib r = 1 -> f_wq r = 4096 -> 0 <= e <= f_enq r ->
  f_dispatch_queue_drain_try_unlock 0 (18014398509481984 + 2199023255552 + 2147483648 * e) 1 (enc r) =
  if f_d r =? 1 then NoCommit 0 [AXor 0 549755813888 Acquire]
  else Commit (enc (mk 0 0 (f_enq r - e) 0 0 (f_role r) (f_em r) 0 (f_pb r) 4095 0 0)) 1.
Proof.
  intros W H0 Hib Hwq He. pose proof W as W'. unfold wfr in W'.
  unfold f_dispatch_queue_drain_try_unlock. cbv zeta.
  rewrite is_suspended_f by exact W. rewrite H0. cbn [Z.ltb Z.compare negb].
  rewrite is_dirty_f by exact W.
  destruct (Z.eqb_spec (f_d r) 1) as [Hd|Hd]; cbn [negb].
  - reflexivity.
  - assert (Hd0 : f_d r = 0) by lia.
    assert (E : u64 (enc r - (18014398509481984 + 2199023255552 + 2147483648 * e)) =
                encode LAY [f_owner r; f_tr r; f_enq r - e; f_mq r; f_ov r; f_role r; f_em r; 0; f_pb r; 4095; 0; 0]).
    { rewrite enc_linear, vec_linear, H0, Hib, Hwq, Hd0.
      rewrite u64_id'' by lia. lia. }
    rewrite E.
    vec_land 18446744037202329600. fsimp.
    change (nz 1) with true. cbv iota.
    vec_land 18446744043644780543. fsimp.
    destruct (nz (f_dq_state_received_override (enc r))); reflexivity.
Qed.
