(* MainQ_extra.v — further invariants of Model/MainQ.v, proved over reachability on top of MainQ_proofs.Inv_reachable:
   J  : items whose callout ended / was begun by the bound thread's drain have started (so "ran exactly once" for a
        synchronous caller's context follows from the order equation);
   L2 : every entry whose link is not yet published has its pusher at the link program point (one step from publishing
        it): the waits of the drain (snapshot head, successor link) and of cleanup2 (head) are never stuck. *)
From Coq Require Import ZArith Bool List Lia.
From Verif Require Import Word Bits Fields DqFields Conc Gen_consts Gen_dqstate Lane_fields SLane SLane_proofs SLane_progress
  MainQ MainQ_fields MainQ_inv MainQ_frames MainQ_steps1 MainQ_steps2 MainQ_steps3 MainQ_steps4 MainQ_steps5 MainQ_steps6 MainQ_proofs.
Import ListNotations.
Local Open Scope Z_scope.

(* ------------------------------------------------------------------ what a lane step does to the ghost lists *)
Lemma gstep_started l t l' : gstep l t = Some l' ->
  started l' = started l \/ exists o i mo, pcs l t = PW_run o i mo /\ started l' = i :: started l.
Proof.
  intros B. unfold gstep in B. destruct (pcs l t) eqn:Hpc; try discriminate; break_step B; injection B as <-; lproj;
    try (left; reflexivity).
  right. eexists _, _, _. split; reflexivity.
Qed.

Lemma gstep_started_incl l t l' : gstep l t = Some l' -> incl (started l) (started l').
Proof.
  intros B. destruct (gstep_started l t l' B) as [E|(o & i & mo & _ & E)]; rewrite E; [apply incl_refl | apply incl_tl, incl_refl].
Qed.

Lemma ostep_started l t l' : ostep l t = Some l' -> started l' = started l.
Proof. intros B. unfold ostep in B. destruct (pcs l t); try discriminate. destruct was_empty; [discriminate|]. injection B as <-. reflexivity. Qed.

Lemma begin_started l t c l' : begin l t c = Some l' -> started l' = started l.
Proof.
  intros B. unfold begin in B. destruct (pcs l t); try discriminate. destruct c.
  - destruct ((0 <=? qos) && (qos <? 8)); [|discriminate]. injection B as <-. reflexivity.
  - destruct (0 <? rootq l); [|discriminate]. injection B as <-. reflexivity.
Qed.

(* ------------------------------------------------------------------ J *)
Definition J (s : mst) : Prop := incl (mainran s) (started (lane s)) /\ incl (finished s) (started (lane s)).

Ltac brk B :=
  repeat match type of B with
  | (if ?x then _ else _) = Some _ => destruct x; try discriminate B
  | match ?x with _ => _ end = Some _ => destruct x; try discriminate B
  end.

Lemma J_step s a s' : Inv s -> J s -> mstep_rel s a s' -> J s'.
Proof.
  intros I [J1 J2] H. destruct a as [t c|t|t|t]; destruct H as [V B].
  - (* begins change none of the three lists *)
    assert (E : mainran s' = mainran s /\ finished s' = finished s /\ started (lane s') = started (lane s)).
    { unfold mbegin in B. destruct (pcs (lane s) t); try discriminate B.
      destruct c; try (destruct (begin (lane s) t (CWorker floor)) eqn:BG); destruct (mpcs s t); brk B; try discriminate B;
        apply some_inj in B; rewrite <- B; unfold callback; mproj; lproj;
        repeat match goal with |- context [if ?x then _ else _] => destruct x end; mproj; lproj;
        repeat split; try reflexivity; try (apply (begin_started _ _ _ _ BG)). }
    destruct E as (E1 & E2 & E3). unfold J. rewrite E1, E2, E3. split; assumption.
  - unfold mstep, lane_step in B. destruct (gstep (lane s) t) as [l'|] eqn:GS.
    + pose proof (gstep_started_incl _ _ _ GS) as IS.
      destruct (mpcs s t) eqn:Hpc; brk B; try discriminate B; apply some_inj in B; rewrite <- B; unfold J; mproj; lproj;
        repeat match goal with |- context [if ?x then _ else _] => destruct x end; mproj; lproj;
        try (split; [exact J1 | exact J2]);
        try (split; [eapply incl_tran; [exact J1 | exact IS] | eapply incl_tran; [exact J2 | exact IS]]).
      * (* MB_run *) split; [apply incl_cons; [left; reflexivity | apply incl_tl; exact J1] | apply incl_tl; exact J2].
      * (* MB_incall, asynchronous item *)
        destruct (main_thread s t _ I Hpc eq_refl) as [Et Ec]. pose proof I as (_ & _ & _ & G). rewrite Ec in G. cbn [mclass c_lane] in G.
        destruct G as [r G]. assert (In i (started (lane s))) by (apply (a_runin s r G); rewrite Ec; reflexivity).
        split; [exact J1 | apply incl_cons; assumption].
      * destruct (main_thread s t _ I Hpc eq_refl) as [Et Ec]. pose proof I as (_ & _ & _ & G). rewrite Ec in G. cbn [mclass c_lane] in G.
        destruct G as [r G]. assert (In i (started (lane s))) by (apply (a_runin s r G); rewrite Ec; reflexivity).
        split; [exact J1 | apply incl_cons; assumption].
    + destruct (mpcs s t) eqn:Hpc; brk B; try discriminate B; apply some_inj in B; rewrite <- B; unfold J; mproj; lproj;
        repeat match goal with |- context [if ?x then _ else _] => destruct x end; mproj; lproj;
        try (split; [exact J1 | exact J2]).
      * split; [apply incl_cons; [left; reflexivity | apply incl_tl; exact J1] | apply incl_tl; exact J2].
      * destruct (main_thread s t _ I Hpc eq_refl) as [Et Ec]. pose proof I as (_ & _ & _ & G). rewrite Ec in G. cbn [mclass c_lane] in G.
        destruct G as [r G]. assert (In i (started (lane s))) by (apply (a_runin s r G); rewrite Ec; reflexivity).
        split; [exact J1 | apply incl_cons; assumption].
      * destruct (main_thread s t _ I Hpc eq_refl) as [Et Ec]. pose proof I as (_ & _ & _ & G). rewrite Ec in G. cbn [mclass c_lane] in G.
        destruct G as [r G]. assert (In i (started (lane s))) by (apply (a_runin s r G); rewrite Ec; reflexivity).
        split; [exact J1 | apply incl_cons; assumption].
  - unfold mostep, lane_step in B. destruct (gstep (lane s) t) as [l'|] eqn:GS; destruct (ostep (lane s) t) as [l2|] eqn:OS;
      destruct (mpcs s t); brk B; try discriminate B; apply some_inj in B; rewrite <- B; unfold J; mproj; lproj;
      try (split; [exact J1 | exact J2]);
      try (rewrite (ostep_started _ _ _ OS); split; [exact J1 | exact J2]);
      try (pose proof (gstep_started_incl _ _ _ GS) as IS; split; [eapply incl_tran; [exact J1 | exact IS] | eapply incl_tran; [exact J2 | exact IS]]).
  - unfold mspur in B. destruct (mpcs s t); try discriminate. injection B as <-. split; assumption.
Qed.

Theorem J_reachable m prio rb s : valid_tid m -> 0 <= rb < 2 -> mreach m prio rb s -> J s.
Proof.
  intros Vm Hrb R. induction R as [s0 ->|s a s' R IH H].
  - split; intros x H; contradiction H.
  - apply (J_step s a s'); [exact (Inv_reachable m prio rb s Vm Hrb R) | exact IH | exact H].
Qed.

(* a synchronous caller whose wait is over: its context has been run (started and finished), by the bound thread, and —
   ids being started at most once (C02_mainq_fifo) — exactly once *)
Theorem mainq_sync_ran_once m prio rb s t :
  valid_tid m -> 0 <= rb < 2 -> mreach m prio rb s -> mpcs s t = MS_woken ->
  In (w_item (ws s t)) (started (lane s)) /\ In (w_item (ws s t)) (finished s) /\ In (w_item (ws s t)) (mainran s) /\
  NoDup (started (lane s)).
Proof.
  intros Vm Hrb R Hpc. destruct (mainq_sync_returns_after_run m prio rb Vm Hrb s t R Hpc) as (_ & F & M & _).
  destruct (J_reachable m prio rb s Vm Hrb R) as [J1 J2]. destruct (mainq_fifo m prio rb Vm Hrb s R) as (_ & _ & ND & _).
  split; [apply J1; exact M|]. split; [exact F|]. split; [exact M | exact ND].
Qed.

(* ================================================================== L2: the waits for an enqueuer's link are never stuck *)
Definition L2 (s : mst) : Prop :=
  forall e, In e (snap s ++ lst (lane s)) -> e_linked e = false -> exists t w q, pcs (lane s) t = PA_link (e_id e) w q.

(* entries and link program points under a lane step of a thread that is not pushing *)
Lemma gstep_lists l t l' :
  gstep l t = Some l' -> lane_ok MIdle (pcs l t) = true ->
  incl (lst l') (lst l) /\ (forall u i w q, pcs l u = PA_link i w q -> pcs l' u = PA_link i w q).
Proof.
  intros B Hk. unfold gstep in B. destruct (pcs l t) eqn:Hpc; try discriminate; cbn [lane_ok] in Hk; try discriminate Hk;
    break_step B; injection B as <-; lproj;
    (split; [repeat match goal with H : lst l = _ |- _ => rewrite H; clear H end;
             try apply incl_refl; try (apply incl_tl; apply incl_refl); try (intros x []) |
             intros u i0 w0 q0 Hu; destruct (Z.eq_dec u t) as [->|N]; [congruence | rewrite upd_other by exact N; exact Hu]]).
Qed.

Lemma L2_keep s s' :
  L2 s -> incl (snap s' ++ lst (lane s')) (snap s ++ lst (lane s)) ->
  (forall u i w q, pcs (lane s) u = PA_link i w q -> pcs (lane s') u = PA_link i w q) -> L2 s'.
Proof.
  intros H Hi Hp e He Hl. destruct (H e (Hi e He) Hl) as (t & w & q & E). exists t, w, q. apply Hp. exact E.
Qed.


Lemma ids_nodup_pre s r : ginv1 s r -> NoDup (ids (snap s) ++ ids (lst (lane s))).
Proof.
  intros G. pose proof (a_order s r G) as AO. pose proof (zrange_nodup (nextid (lane s))) as ND. rewrite <- AO in ND.
  apply suffix_nodup in ND. apply suffix_nodup in ND. exact ND.
Qed.

Lemma nodup_app_l {A} (l1 l2 : list A) : NoDup (l1 ++ l2) -> NoDup l1.
Proof. intros H. apply (prefix_nodup l1 l2 (l1 ++ l2) eq_refl H). Qed.

(* the link step: the entry with id i becomes linked wherever it is; the other unlinked entries keep their pusher *)
Lemma L2_link s t i we q l1 l2 pcs' :
  (forall e, In e (snap s ++ lst (lane s)) -> e_linked e = false -> exists u w q0, pcs (lane s) u = PA_link (e_id e) w q0) ->
  pcs (lane s) t = PA_link i we q ->
  NoDup (map e_id (snap s)) -> NoDup (map e_id (lst (lane s))) ->
  l1 = link_id (snap s) i -> l2 = link_id (lst (lane s)) i ->
  (forall u, u <> t -> pcs' u = pcs (lane s) u) ->
  forall e, In e (l1 ++ l2) -> e_linked e = false -> exists u w q0, pcs' u = PA_link (e_id e) w q0.
Proof.
  intros H Hlp N1 N2 -> -> Fr e He Hl. apply in_app_or in He.
  assert (X : In e (snap s ++ lst (lane s)) /\ e_id e <> i).
  { destruct He as [He|He].
    - destruct (in_link_id _ _ _ N1 He Hl) as [A B]. split; [apply in_or_app; left; exact A | exact B].
    - destruct (in_link_id _ _ _ N2 He Hl) as [A B]. split; [apply in_or_app; right; exact A | exact B]. }
  destruct X as [Hin Hne]. destruct (H e Hin Hl) as (u & w & q0 & E). exists u, w, q0.
  rewrite Fr; [exact E|]. intros ->. rewrite Hlp in E. injection E as E1 _ _. congruence.
Qed.

Lemma lane_not_link s t : Inv s -> (forall k, mpcs s t <> MP_push k) -> forall i w q, pcs (lane s) t <> PA_link i w q.
Proof.
  intros (T & _) Hm i w q E. destruct (T t) as (_ & T2 & _). rewrite E in T2.
  destruct (mpcs s t) eqn:Hpc; cbn [lane_ok] in T2; try discriminate T2; try (destruct d; discriminate T2).
  apply (Hm k). reflexivity.
Qed.

(* steps that leave the entries alone (or drop some) and do not move a thread away from its link program point *)
Ltac l2_keep HL :=
  apply (L2_keep _ _ HL); mproj; lproj;
  [ try apply incl_refl | intros u i0 w0 q0 Hu; try exact Hu ].

Lemma L2_set_pc_nolink s t p : Inv s -> L2 s -> (forall k, mpcs s t <> MP_push k) ->
  forall u i w q, pcs (lane s) u = PA_link i w q -> upd (pcs (lane s)) t p u = PA_link i w q.
Proof.
  intros I H Hm u i w q Hu. destruct (Z.eq_dec u t) as [->|N]; [destruct (lane_not_link s t I Hm i w q Hu) | rewrite upd_other by exact N; exact Hu].
Qed.

Ltac pcs_goal I Hpc t :=
  let u := fresh "u" in let N := fresh "N" in let Hu := fresh "Hu" in
  intros u ? ? ? Hu;
  first [ exact Hu
        | destruct (Z.eq_dec u t) as [->|N];
          [ exfalso; eapply (lane_not_link _ t I); [intros ?; rewrite Hpc; discriminate | exact Hu]
          | rewrite ?upd_other by exact N; exact Hu ] ].

Lemma L2_step s a s' : Inv s -> L2 s -> mstep_rel s a s' -> L2 s'.
Proof.
  intros I H St. destruct a as [t c|t|t|t]; destruct St as [V B].
  - unfold mbegin in B. destruct (pcs (lane s) t) eqn:Hlp; try discriminate B.
    assert (Nl : forall u i w q, pcs (lane s) u = PA_link i w q -> u <> t) by (intros u i w q Hu ->; congruence).
    destruct c; try (destruct (begin (lane s) t (CWorker floor)) as [lb|] eqn:BG); destruct (mpcs s t) eqn:Hpc; brk B; try discriminate B;
      apply some_inj in B; rewrite <- B; unfold callback;
      repeat match goal with |- context [if ?x then _ else _] => destruct x end;
      try (apply (L2_keep _ _ H); mproj; lproj; [apply incl_refl | intros u i0 w0 q0 Hu; try exact Hu; rewrite upd_other by (apply (Nl u i0 w0 q0 Hu)); exact Hu]).
    + (* a worker pops the lane *)
      unfold begin in BG. rewrite Hlp in BG. destruct (0 <? rootq (lane s)); [|discriminate]. injection BG as <-.
      apply (L2_keep _ _ H); mproj; lproj; [apply incl_refl | intros u i0 w0 q0 Hu; rewrite upd_other by (apply (Nl u i0 w0 q0 Hu)); exact Hu].
  - unfold mstep, lane_step in B. destruct (mpcs s t) eqn:Hpc.
    all: cbv beta iota zeta in B.
    all: try (match type of B with context [gstep] => fail 1 | _ => idtac end; brk B; try discriminate B; apply some_inj in B; rewrite <- B;
              repeat match goal with |- context [if ?x then _ else _] => destruct x end;
              repeat match goal with |- context [match ?x with KRet => _ | KWait => _ | KDrain => _ end] => destruct x end;
              repeat match goal with |- L2 (set_mpc _ _ (match ?x with _ => _ end)) => destruct x end;
              (apply (L2_keep _ _ H); [mproj; lproj; try apply incl_refl | mproj; lproj; pcs_goal I Hpc t]); fail).
    + (* ordinary lane code *)
      destruct (gstep (lane s) t) as [l'|] eqn:GS; [|discriminate]. apply some_inj in B. rewrite <- B.
      pose proof I as (T & _). destruct (T t) as (_ & T2 & _). rewrite Hpc in T2.
      destruct (gstep_lists _ _ _ GS T2) as [A1 A2].
      apply (L2_keep _ _ H); mproj; [apply incl_app_app; [apply incl_refl | exact A1] | exact A2].
    + (* the push *)
      pose proof I as (T & _ & _ & G). destruct (T t) as (_ & T2 & _). rewrite Hpc in T2. cbn [lane_ok] in T2.
      destruct (pcs (lane s) t) eqn:Hlp; try discriminate T2; unfold gstep in B; rewrite Hlp in B; apply some_inj in B; rewrite <- B.
      * (* exchange: the new entry is not linked, its pusher is at the link point *)
        intros e He Hl. mproj_in He. lproj_in He. mproj. lproj. rewrite app_assoc in He. apply in_app_or in He. destruct He as [He|He].
        -- destruct (H e He Hl) as (u & w & q & E). exists u, w, q. rewrite upd_other; [exact E|]. intros ->. congruence.
        -- destruct He as [<-|[]]. exists t. eexists _, _. rewrite upd_same. reflexivity.
      * (* link *)
        assert (ND : NoDup (map e_id (snap s)) /\ NoDup (map e_id (lst (lane s)))).
        { destruct (c_lane (mcl s)).
          - destruct G as [I2 G2]. rewrite (b_snap s G2). split; [constructor | exact (ids_nodup (lane s) I2)].
          - destruct G as [r G]. pose proof (ids_nodup_pre s r G) as ND. split; [exact (nodup_app_l _ _ ND) | exact (suffix_nodup _ _ ND)]. }
        destruct ND as [N1 N2].
        intros e He Hl. mproj_in He. lproj_in He. mproj. lproj.
        apply (L2_link s t i was_empty qos _ _ _ H Hlp N1 N2 eq_refl eq_refl); [|exact He|exact Hl].
        intros u N. apply upd_other. exact N.
    + (* MB_snap: the list moves into the snapshot *)
      apply some_inj in B. rewrite <- B. apply (L2_keep _ _ H); mproj; lproj.
      * rewrite app_nil_r. apply incl_appr. apply incl_refl.
      * intros u i0 w0 q0 Hu. exact Hu.
    + (* MB_next: the head of the snapshot is taken *)
      destruct (snap s) as [|e [|e2 r]] eqn:Sn; try discriminate B.
      * apply some_inj in B. rewrite <- B. apply (L2_keep _ _ H); mproj; lproj; [rewrite Sn; apply incl_appr; apply incl_refl | intros u i0 w0 q0 Hu; exact Hu].
      * destruct (e_linked e2); [|discriminate B]. apply some_inj in B. rewrite <- B.
        apply (L2_keep _ _ H); mproj; lproj; [rewrite Sn; cbn [app]; apply incl_tl; apply incl_refl | intros u i0 w0 q0 Hu; exact Hu].
    + (* MC_push: the lane's PA_rootpush *)
      pose proof I as (T & _). destruct (T t) as (_ & T2 & _). rewrite Hpc in T2. cbn [lane_ok] in T2.
      destruct (pcs (lane s) t) eqn:Hlp; try discriminate T2. unfold gstep in B. rewrite Hlp in B. apply some_inj in B. rewrite <- B.
      apply (L2_keep _ _ H); mproj; lproj; [apply incl_refl|].
      intros u i0 w0 q0 Hu. destruct (Z.eq_dec u t) as [->|N]; [congruence | rewrite upd_other by exact N; exact Hu].
  - (* the override continuation *)
    unfold mostep, lane_step in B. destruct (mpcs s t) eqn:Hpc; try discriminate B.
    + exfalso. unfold ostep in B. pose proof I as (T & _). destruct (T t) as (_ & T2 & _). rewrite Hpc in T2.
      destruct (pcs (lane s) t); try discriminate B. discriminate T2.
    + pose proof I as (T & _ & _ & G). destruct (T t) as (_ & T2 & _). rewrite Hpc in T2. cbn [lane_ok] in T2.
      destruct (pcs (lane s) t) eqn:Hlp; try discriminate B. destruct was_empty; [discriminate B|].
      unfold gstep in B. rewrite Hlp in B. apply some_inj in B. rewrite <- B.
      assert (ND : NoDup (map e_id (snap s)) /\ NoDup (map e_id (lst (lane s)))).
      { destruct (c_lane (mcl s)).
        - destruct G as [I2 G2]. rewrite (b_snap s G2). split; [constructor | exact (ids_nodup (lane s) I2)].
        - destruct G as [r G]. pose proof (ids_nodup_pre s r G) as ND. split; [exact (nodup_app_l _ _ ND) | exact (suffix_nodup _ _ ND)]. }
      destruct ND as [N1 N2].
      intros e He Hl. mproj_in He. lproj_in He. mproj. lproj.
      apply (L2_link s t i false qos _ _ _ H Hlp N1 N2 eq_refl eq_refl); [|exact He|exact Hl].
      intros u N. apply upd_other. exact N.
  - unfold mspur in B. destruct (mpcs s t); try discriminate B. injection B as <-. exact H.
Qed.

Theorem L2_reachable m prio rb s : valid_tid m -> 0 <= rb < 2 -> mreach m prio rb s -> L2 s.
Proof.
  intros Vm Hrb R. induction R as [s0 ->|s a s' R IH H].
  - intros e He. contradiction He.
  - apply (L2_step s a s'); [exact (Inv_reachable m prio rb s Vm Hrb R) | exact IH | exact H].
Qed.

(* ================================================================== the waits for a link are never stuck *)
(* a thread at the link program point can always publish its link *)
Lemma link_enabled s u i w q : Inv s -> pcs (lane s) u = PA_link i w q -> exists s', mstep s u = Some s'.
Proof.
  intros I Hu. pose proof I as (T & _). destruct (T u) as (_ & T2 & _). rewrite Hu in T2.
  destruct (mpcs s u) eqn:Hpc; cbn [lane_ok] in T2; try discriminate T2; try (destruct d; discriminate T2).
  unfold mstep. rewrite Hpc, Hu. unfold lane_step, gstep. rewrite Hu. eexists. reflexivity.
Qed.

(* the bound thread waiting for the head / for a successor link of its snapshot always has the enqueuer one step from
   publishing it *)
Theorem mainq_drain_waits_not_stuck m prio rb s t :
  valid_tid m -> 0 <= rb < 2 -> mreach m prio rb s ->
  mpcs s t = MB_head \/ mpcs s t = MB_next ->
  (exists s', mstep s t = Some s') \/
  (exists u i w q s', u <> t /\ pcs (lane s) u = PA_link i w q /\ mstep s u = Some s').
Proof.
  intros Vm Hrb R Hp. pose proof (Inv_reachable m prio rb s Vm Hrb R) as I. pose proof (L2_reachable m prio rb s Vm Hrb R) as H2.
  assert (Other : forall e, In e (snap s ++ lst (lane s)) -> e_linked e = false -> pcs (lane s) t = Idle ->
                  exists u i w q s', u <> t /\ pcs (lane s) u = PA_link i w q /\ mstep s u = Some s').
  { intros e He Hl Hlp. destruct (H2 e He Hl) as (u & w & q & Hu). destruct (link_enabled s u _ _ _ I Hu) as [s' Hs].
    exists u, (e_id e), w, q, s'. split; [intros ->; congruence | split; assumption]. }
  destruct Hp as [Hpc|Hpc].
  - destruct (main_thread s t _ I Hpc eq_refl) as [Et Ec]. pose proof (lane_of_plain s t _ I Hpc Logic.I) as Hlp.
    pose proof I as (_ & _ & _ & G). rewrite Ec in G. cbn [mclass c_lane] in G. destruct G as [r G].
    assert (Ne : lst (lane s) <> []) by (apply (a_ne s r G); rewrite Ec; reflexivity).
    destruct (lst (lane s)) as [|e l] eqn:L; [congruence|]. destruct (e_linked e) eqn:El.
    + left. unfold mstep. cbv zeta. rewrite Hpc, L, El. eexists. reflexivity.
    + right. apply (Other e); [apply in_or_app; right; rewrite ?L; left; reflexivity | exact El | exact Hlp].
  - destruct (main_thread s t _ I Hpc eq_refl) as [Et Ec]. pose proof (lane_of_plain s t _ I Hpc Logic.I) as Hlp.
    pose proof I as (_ & _ & _ & G). rewrite Ec in G. cbn [mclass c_lane] in G. destruct G as [r G].
    pose proof (a_snap s r G) as AS. rewrite Ec in AS.
    destruct (snap s) as [|e [|e2 rest]] eqn:Sn; [discriminate AS| |].
    + left. unfold mstep. cbv zeta. rewrite Hpc, Sn. eexists. reflexivity.
    + destruct (e_linked e2) eqn:El.
      * left. unfold mstep. cbv zeta. rewrite Hpc, Sn, El. eexists. reflexivity.
      * right. apply (Other e2); [rewrite ?Sn; right; left; reflexivity | exact El | exact Hlp].
Qed.
