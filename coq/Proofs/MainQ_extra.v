(* MainQ_extra.v — further invariants of Model/MainQ.v, proved over reachability on top of MainQ_proofs.Inv_reachable:
   J  : items whose callout ended / was begun by the bound thread's drain have started (so "ran exactly once" for a
        synchronous caller's context follows from the order equation);
   L2 : every entry whose link is not yet published has its pusher at the link program point (one step from publishing
        it): the waits of the drain (snapshot head, successor link) and of cleanup2 (head) are never stuck. *)
From Coq Require Import ZArith Bool List Lia.
From Verif Require Import Word Bits Fields DqFields Conc Gen_consts Gen_dqstate Lane_fields SLane SLane_proofs SLane_progress
  MainQ MainQ_fields MainQ_inv MainQ_frames MainQ_steps1 MainQ_steps2 MainQ_steps3 MainQ_steps4 MainQ_steps5 MainQ_steps6 MainQ_proofs.
Import ListNotations.
Local Open Scope Z_scope.

(* ------------------------------------------------------------------ what a lane step does to the ghost lists *)
Lemma gstep_started l t l' : gstep l t = Some l' ->
  started l' = started l \/ exists o i mo, pcs l t = PW_run o i mo /\ started l' = i :: started l.
Proof.
  intros B. unfold gstep in B. destruct (pcs l t) eqn:Hpc; try discriminate; break_step B; injection B as <-; lproj;
    try (left; reflexivity).
  right. eexists _, _, _. split; reflexivity.
Qed.

Lemma gstep_started_incl l t l' : gstep l t = Some l' -> incl (started l) (started l').
Proof.
  intros B. destruct (gstep_started l t l' B) as [E|(o & i & mo & _ & E)]; rewrite E; [apply incl_refl | apply incl_tl, incl_refl].
Qed.

Lemma ostep_started l t l' : ostep l t = Some l' -> started l' = started l.
Proof. intros B. unfold ostep in B. destruct (pcs l t); try discriminate. destruct was_empty; [discriminate|]. injection B as <-. reflexivity. Qed.

Lemma begin_started l t c l' : begin l t c = Some l' -> started l' = started l.
Proof.
  intros B. unfold begin in B. destruct (pcs l t); try discriminate. destruct c.
  - destruct ((0 <=? qos) && (qos <? 8)); [|discriminate]. injection B as <-. reflexivity.
  - destruct (0 <? rootq l); [|discriminate]. injection B as <-. reflexivity.
Qed.

(* ------------------------------------------------------------------ J *)
Definition J (s : mst) : Prop := incl (mainran s) (started (lane s)) /\ incl (finished s) (started (lane s)).

Ltac brk B :=
  repeat match type of B with
  | (if ?x then _ else _) = Some _ => destruct x; try discriminate B
  | match ?x with _ => _ end = Some _ => destruct x; try discriminate B
  end.

Lemma J_step s a s' : Inv s -> J s -> mstep_rel s a s' -> J s'.
Proof.
  intros I [J1 J2] H. destruct a as [t c|t|t|t]; destruct H as [V B].
  - (* begins change none of the three lists *)
    assert (E : mainran s' = mainran s /\ finished s' = finished s /\ started (lane s') = started (lane s)).
    { unfold mbegin in B. destruct (pcs (lane s) t); try discriminate B.
      destruct c; try (destruct (begin (lane s) t (CWorker floor)) eqn:BG); destruct (mpcs s t); brk B; try discriminate B;
        apply some_inj in B; rewrite <- B; unfold callback; mproj; lproj;
        repeat match goal with |- context [if ?x then _ else _] => destruct x end; mproj; lproj;
        repeat split; try reflexivity; try (apply (begin_started _ _ _ _ BG)). }
    destruct E as (E1 & E2 & E3). unfold J. rewrite E1, E2, E3. split; assumption.
  - unfold mstep, lane_step in B. destruct (gstep (lane s) t) as [l'|] eqn:GS.
    + pose proof (gstep_started_incl _ _ _ GS) as IS.
      destruct (mpcs s t) eqn:Hpc; brk B; try discriminate B; apply some_inj in B; rewrite <- B; unfold J; mproj; lproj;
        repeat match goal with |- context [if ?x then _ else _] => destruct x end; mproj; lproj;
        try (split; [exact J1 | exact J2]);
        try (split; [eapply incl_tran; [exact J1 | exact IS] | eapply incl_tran; [exact J2 | exact IS]]).
      * (* MB_run *) split; [apply incl_cons; [left; reflexivity | apply incl_tl; exact J1] | apply incl_tl; exact J2].
      * (* MB_incall, asynchronous item *)
        destruct (main_thread s t _ I Hpc eq_refl) as [Et Ec]. pose proof I as (_ & _ & _ & G). rewrite Ec in G. cbn [mclass c_lane] in G.
        destruct G as [r G]. assert (In i (started (lane s))) by (apply (a_runin s r G); rewrite Ec; reflexivity).
        split; [exact J1 | apply incl_cons; assumption].
      * destruct (main_thread s t _ I Hpc eq_refl) as [Et Ec]. pose proof I as (_ & _ & _ & G). rewrite Ec in G. cbn [mclass c_lane] in G.
        destruct G as [r G]. assert (In i (started (lane s))) by (apply (a_runin s r G); rewrite Ec; reflexivity).
        split; [exact J1 | apply incl_cons; assumption].
    + destruct (mpcs s t) eqn:Hpc; brk B; try discriminate B; apply some_inj in B; rewrite <- B; unfold J; mproj; lproj;
        repeat match goal with |- context [if ?x then _ else _] => destruct x end; mproj; lproj;
        try (split; [exact J1 | exact J2]).
      * split; [apply incl_cons; [left; reflexivity | apply incl_tl; exact J1] | apply incl_tl; exact J2].
      * destruct (main_thread s t _ I Hpc eq_refl) as [Et Ec]. pose proof I as (_ & _ & _ & G). rewrite Ec in G. cbn [mclass c_lane] in G.
        destruct G as [r G]. assert (In i (started (lane s))) by (apply (a_runin s r G); rewrite Ec; reflexivity).
        split; [exact J1 | apply incl_cons; assumption].
      * destruct (main_thread s t _ I Hpc eq_refl) as [Et Ec]. pose proof I as (_ & _ & _ & G). rewrite Ec in G. cbn [mclass c_lane] in G.
        destruct G as [r G]. assert (In i (started (lane s))) by (apply (a_runin s r G); rewrite Ec; reflexivity).
        split; [exact J1 | apply incl_cons; assumption].
  - unfold mostep, lane_step in B. destruct (gstep (lane s) t) as [l'|] eqn:GS; destruct (ostep (lane s) t) as [l2|] eqn:OS;
      destruct (mpcs s t); brk B; try discriminate B; apply some_inj in B; rewrite <- B; unfold J; mproj; lproj;
      try (split; [exact J1 | exact J2]);
      try (rewrite (ostep_started _ _ _ OS); split; [exact J1 | exact J2]);
      try (pose proof (gstep_started_incl _ _ _ GS) as IS; split; [eapply incl_tran; [exact J1 | exact IS] | eapply incl_tran; [exact J2 | exact IS]]).
  - unfold mspur in B. destruct (mpcs s t); try discriminate. injection B as <-. split; assumption.
Qed.

Theorem J_reachable m prio rb s : valid_tid m -> 0 <= rb < 2 -> mreach m prio rb s -> J s.
Proof.
  intros Vm Hrb R. induction R as [s0 ->|s a s' R IH H].
  - split; intros x H; contradiction H.
  - apply (J_step s a s'); [exact (Inv_reachable m prio rb s Vm Hrb R) | exact IH | exact H].
Qed.

(* a synchronous caller whose wait is over: its context has been run (started and finished), by the bound thread, and —
   ids being started at most once (C02_mainq_fifo) — exactly once *)
Theorem mainq_sync_ran_once m prio rb s t :
  valid_tid m -> 0 <= rb < 2 -> mreach m prio rb s -> mpcs s t = MS_woken ->
  In (w_item (ws s t)) (started (lane s)) /\ In (w_item (ws s t)) (finished s) /\ In (w_item (ws s t)) (mainran s) /\
  NoDup (started (lane s)).
Proof.
  intros Vm Hrb R Hpc. destruct (mainq_sync_returns_after_run m prio rb Vm Hrb s t R Hpc) as (_ & F & M & _).
  destruct (J_reachable m prio rb s Vm Hrb R) as [J1 J2]. destruct (mainq_fifo m prio rb Vm Hrb s R) as (_ & _ & ND & _).
  split; [apply J1; exact M|]. split; [exact F|]. split; [exact M | exact ND].
Qed.

(* ================================================================== L2: the waits for an enqueuer's link are never stuck *)
Definition L2 (s : mst) : Prop :=
  forall e, In e (snap s ++ lst (lane s)) -> e_linked e = false -> exists t w q, pcs (lane s) t = PA_link (e_id e) w q.

(* entries and link program points under a lane step of a thread that is not pushing *)
Lemma gstep_lists l t l' :
  gstep l t = Some l' -> lane_ok MIdle (pcs l t) = true ->
  incl (lst l') (lst l) /\ (forall u i w q, pcs l u = PA_link i w q -> pcs l' u = PA_link i w q).
Proof.
  intros B Hk. unfold gstep in B. destruct (pcs l t) eqn:Hpc; try discriminate; cbn [lane_ok] in Hk; try discriminate Hk;
    break_step B; injection B as <-; lproj;
    (split; [repeat match goal with H : lst l = _ |- _ => rewrite H; clear H end;
             try apply incl_refl; try (apply incl_tl; apply incl_refl); try (intros x []) |
             intros u i0 w0 q0 Hu; destruct (Z.eq_dec u t) as [->|N]; [congruence | rewrite upd_other by exact N; exact Hu]]).
Qed.

Lemma L2_keep s s' :
  L2 s -> incl (snap s' ++ lst (lane s')) (snap s ++ lst (lane s)) ->
  (forall u i w q, pcs (lane s) u = PA_link i w q -> pcs (lane s') u = PA_link i w q) -> L2 s'.
Proof.
  intros H Hi Hp e He Hl. destruct (H e (Hi e He) Hl) as (t & w & q & E). exists t, w, q. apply Hp. exact E.
Qed.


Lemma ids_nodup_pre s r : ginv1 s r -> NoDup (ids (snap s) ++ ids (lst (lane s))).
Proof.
  intros G. pose proof (a_order s r G) as AO. pose proof (zrange_nodup (nextid (lane s))) as ND. rewrite <- AO in ND.
  apply suffix_nodup in ND. apply suffix_nodup in ND. exact ND.
Qed.

Lemma nodup_app_l {A} (l1 l2 : list A) : NoDup (l1 ++ l2) -> NoDup l1.
Proof. intros H. apply (prefix_nodup l1 l2 (l1 ++ l2) eq_refl H). Qed.

(* the link step: the entry with id i becomes linked wherever it is; the other unlinked entries keep their pusher *)
Lemma L2_link s t i we q l1 l2 pcs' :
  (forall e, In e (snap s ++ lst (lane s)) -> e_linked e = false -> exists u w q0, pcs (lane s) u = PA_link (e_id e) w q0) ->
  pcs (lane s) t = PA_link i we q ->
  NoDup (map e_id (snap s)) -> NoDup (map e_id (lst (lane s))) ->
  l1 = link_id (snap s) i -> l2 = link_id (lst (lane s)) i ->
  (forall u, u <> t -> pcs' u = pcs (lane s) u) ->
  forall e, In e (l1 ++ l2) -> e_linked e = false -> exists u w q0, pcs' u = PA_link (e_id e) w q0.
Proof.
  intros H Hlp N1 N2 -> -> Fr e He Hl. apply in_app_or in He.
  assert (X : In e (snap s ++ lst (lane s)) /\ e_id e <> i).
  { destruct He as [He|He].
    - destruct (in_link_id _ _ _ N1 He Hl) as [A B]. split; [apply in_or_app; left; exact A | exact B].
    - destruct (in_link_id _ _ _ N2 He Hl) as [A B]. split; [apply in_or_app; right; exact A | exact B]. }
  destruct X as [Hin Hne]. destruct (H e Hin Hl) as (u & w & q0 & E). exists u, w, q0.
  rewrite Fr; [exact E|]. intros ->. rewrite Hlp in E. injection E as E1 _ _. congruence.
Qed.

Lemma lane_not_link s t : Inv s -> (forall k, mpcs s t <> MP_push k) -> forall i w q, pcs (lane s) t <> PA_link i w q.
Proof.
  intros (T & _) Hm i w q E. destruct (T t) as (_ & T2 & _). rewrite E in T2.
  destruct (mpcs s t) eqn:Hpc; cbn [lane_ok] in T2; try discriminate T2; try (destruct d; discriminate T2).
  apply (Hm k). reflexivity.
Qed.

(* steps that leave the entries alone (or drop some) and do not move a thread away from its link program point *)
Ltac l2_keep HL :=
  apply (L2_keep _ _ HL); mproj; lproj;
  [ try apply incl_refl | intros u i0 w0 q0 Hu; try exact Hu ].

Lemma L2_set_pc_nolink s t p : Inv s -> L2 s -> (forall k, mpcs s t <> MP_push k) ->
  forall u i w q, pcs (lane s) u = PA_link i w q -> upd (pcs (lane s)) t p u = PA_link i w q.
Proof.
  intros I H Hm u i w q Hu. destruct (Z.eq_dec u t) as [->|N]; [destruct (lane_not_link s t I Hm i w q Hu) | rewrite upd_other by exact N; exact Hu].
Qed.

Ltac pcs_goal I Hpc t :=
  let u := fresh "u" in let N := fresh "N" in let Hu := fresh "Hu" in
  intros u ? ? ? Hu;
  first [ exact Hu
        | destruct (Z.eq_dec u t) as [->|N];
          [ exfalso; eapply (lane_not_link _ t I); [intros ?; rewrite Hpc; discriminate | exact Hu]
          | rewrite ?upd_other by exact N; exact Hu ] ].

Lemma L2_step s a s' : Inv s -> L2 s -> mstep_rel s a s' -> L2 s'.
Proof.
  intros I H St. destruct a as [t c|t|t|t]; destruct St as [V B].
  - unfold mbegin in B. destruct (pcs (lane s) t) eqn:Hlp; try discriminate B.
    assert (Nl : forall u i w q, pcs (lane s) u = PA_link i w q -> u <> t) by (intros u i w q Hu ->; congruence).
    destruct c; try (destruct (begin (lane s) t (CWorker floor)) as [lb|] eqn:BG); destruct (mpcs s t) eqn:Hpc; brk B; try discriminate B;
      apply some_inj in B; rewrite <- B; unfold callback;
      repeat match goal with |- context [if ?x then _ else _] => destruct x end;
      try (apply (L2_keep _ _ H); mproj; lproj; [apply incl_refl | intros u i0 w0 q0 Hu; try exact Hu; rewrite upd_other by (apply (Nl u i0 w0 q0 Hu)); exact Hu]).
    + (* a worker pops the lane *)
      unfold begin in BG. rewrite Hlp in BG. destruct (0 <? rootq (lane s)); [|discriminate]. injection BG as <-.
      apply (L2_keep _ _ H); mproj; lproj; [apply incl_refl | intros u i0 w0 q0 Hu; rewrite upd_other by (apply (Nl u i0 w0 q0 Hu)); exact Hu].
  - unfold mstep, lane_step in B. destruct (mpcs s t) eqn:Hpc.
    all: cbv beta iota zeta in B.
    all: try (match type of B with context [gstep] => fail 1 | _ => idtac end; brk B; try discriminate B; apply some_inj in B; rewrite <- B;
              repeat match goal with |- context [if ?x then _ else _] => destruct x end;
              repeat match goal with |- context [match ?x with KRet => _ | KWait => _ | KDrain => _ | KCall _ _ _ => _ end] => destruct x end;
              repeat match goal with |- L2 (set_mpc _ _ (match ?x with _ => _ end)) => destruct x end;
              (apply (L2_keep _ _ H); [mproj; lproj; try apply incl_refl | mproj; lproj; pcs_goal I Hpc t]); fail).
    + (* ordinary lane code *)
      destruct (gstep (lane s) t) as [l'|] eqn:GS; [|discriminate]. apply some_inj in B. rewrite <- B.
      pose proof I as (T & _). destruct (T t) as (_ & T2 & _). rewrite Hpc in T2.
      destruct (gstep_lists _ _ _ GS T2) as [A1 A2].
      apply (L2_keep _ _ H); mproj; [apply incl_app_app; [apply incl_refl | exact A1] | exact A2].
    + (* the push *)
      pose proof I as (T & _ & _ & G). destruct (T t) as (_ & T2 & _). rewrite Hpc in T2. cbn [lane_ok] in T2.
      destruct (pcs (lane s) t) eqn:Hlp; try discriminate T2; unfold gstep in B; rewrite Hlp in B; apply some_inj in B; rewrite <- B.
      * (* exchange: the new entry is not linked, its pusher is at the link point *)
        intros e He Hl. mproj_in He. lproj_in He. mproj. lproj. rewrite app_assoc in He. apply in_app_or in He. destruct He as [He|He].
        -- destruct (H e He Hl) as (u & w & q & E). exists u, w, q. rewrite upd_other; [exact E|]. intros ->. congruence.
        -- destruct He as [<-|[]]. exists t. eexists _, _. rewrite upd_same. reflexivity.
      * (* link *)
        assert (ND : NoDup (map e_id (snap s)) /\ NoDup (map e_id (lst (lane s)))).
        { destruct (c_lane (mcl s)).
          - destruct G as [I2 G2]. rewrite (b_snap s G2). split; [constructor | exact (ids_nodup (lane s) I2)].
          - destruct G as [r G]. pose proof (ids_nodup_pre s r G) as ND. split; [exact (nodup_app_l _ _ ND) | exact (suffix_nodup _ _ ND)]. }
        destruct ND as [N1 N2].
        intros e He Hl. mproj_in He. lproj_in He. mproj. lproj.
        apply (L2_link s t i was_empty qos _ _ _ H Hlp N1 N2 eq_refl eq_refl); [|exact He|exact Hl].
        intros u N. apply upd_other. exact N.
    + (* MB_snap: the list moves into the snapshot *)
      apply some_inj in B. rewrite <- B. apply (L2_keep _ _ H); mproj; lproj.
      * rewrite app_nil_r. apply incl_appr. apply incl_refl.
      * intros u i0 w0 q0 Hu. exact Hu.
    + (* MB_next: the head of the snapshot is taken *)
      destruct (snap s) as [|e [|e2 r]] eqn:Sn; try discriminate B.
      * apply some_inj in B. rewrite <- B. apply (L2_keep _ _ H); mproj; lproj; [rewrite Sn; apply incl_appr; apply incl_refl | intros u i0 w0 q0 Hu; exact Hu].
      * destruct (e_linked e2); [|discriminate B]. apply some_inj in B. rewrite <- B.
        apply (L2_keep _ _ H); mproj; lproj; [rewrite Sn; cbn [app]; apply incl_tl; apply incl_refl | intros u i0 w0 q0 Hu; exact Hu].
    + (* MC_push: the lane's PA_rootpush *)
      pose proof I as (T & _). destruct (T t) as (_ & T2 & _). rewrite Hpc in T2. cbn [lane_ok] in T2.
      destruct (pcs (lane s) t) eqn:Hlp; try discriminate T2. unfold gstep in B. rewrite Hlp in B. apply some_inj in B. rewrite <- B.
      apply (L2_keep _ _ H); mproj; lproj; [apply incl_refl|].
      intros u i0 w0 q0 Hu. destruct (Z.eq_dec u t) as [->|N]; [congruence | rewrite upd_other by exact N; exact Hu].
  - (* the override continuation *)
    unfold mostep, lane_step in B. destruct (mpcs s t) eqn:Hpc; try discriminate B.
    + exfalso. unfold ostep in B. pose proof I as (T & _). destruct (T t) as (_ & T2 & _). rewrite Hpc in T2.
      destruct (pcs (lane s) t); try discriminate B. discriminate T2.
    + pose proof I as (T & _ & _ & G). destruct (T t) as (_ & T2 & _). rewrite Hpc in T2. cbn [lane_ok] in T2.
      destruct (pcs (lane s) t) eqn:Hlp; try discriminate B. destruct was_empty; [discriminate B|].
      unfold gstep in B. rewrite Hlp in B. apply some_inj in B. rewrite <- B.
      assert (ND : NoDup (map e_id (snap s)) /\ NoDup (map e_id (lst (lane s)))).
      { destruct (c_lane (mcl s)).
        - destruct G as [I2 G2]. rewrite (b_snap s G2). split; [constructor | exact (ids_nodup (lane s) I2)].
        - destruct G as [r G]. pose proof (ids_nodup_pre s r G) as ND. split; [exact (nodup_app_l _ _ ND) | exact (suffix_nodup _ _ ND)]. }
      destruct ND as [N1 N2].
      intros e He Hl. mproj_in He. lproj_in He. mproj. lproj.
      apply (L2_link s t i false qos _ _ _ H Hlp N1 N2 eq_refl eq_refl); [|exact He|exact Hl].
      intros u N. apply upd_other. exact N.
  - unfold mspur in B. destruct (mpcs s t); try discriminate B. injection B as <-. exact H.
Qed.

Theorem L2_reachable m prio rb s : valid_tid m -> 0 <= rb < 2 -> mreach m prio rb s -> L2 s.
Proof.
  intros Vm Hrb R. induction R as [s0 ->|s a s' R IH H].
  - intros e He. contradiction He.
  - apply (L2_step s a s'); [exact (Inv_reachable m prio rb s Vm Hrb R) | exact IH | exact H].
Qed.

(* ================================================================== the waits for a link are never stuck *)
(* a thread at the link program point can always publish its link *)
Lemma link_enabled s u i w q : Inv s -> pcs (lane s) u = PA_link i w q -> exists s', mstep s u = Some s'.
Proof.
  intros I Hu. pose proof I as (T & _). destruct (T u) as (_ & T2 & _). rewrite Hu in T2.
  destruct (mpcs s u) eqn:Hpc; cbn [lane_ok] in T2; try discriminate T2; try (destruct d; discriminate T2).
  unfold mstep. rewrite Hpc, Hu. unfold lane_step, gstep. rewrite Hu. eexists. reflexivity.
Qed.

(* the bound thread waiting for the head / for a successor link of its snapshot always has the enqueuer one step from
   publishing it *)
Theorem mainq_drain_waits_not_stuck m prio rb s t :
  valid_tid m -> 0 <= rb < 2 -> mreach m prio rb s ->
  mpcs s t = MB_head \/ mpcs s t = MB_next ->
  (exists s', mstep s t = Some s') \/
  (exists u i w q s', u <> t /\ pcs (lane s) u = PA_link i w q /\ mstep s u = Some s').
Proof.
  intros Vm Hrb R Hp. pose proof (Inv_reachable m prio rb s Vm Hrb R) as I. pose proof (L2_reachable m prio rb s Vm Hrb R) as H2.
  assert (Other : forall e, In e (snap s ++ lst (lane s)) -> e_linked e = false -> pcs (lane s) t = Idle ->
                  exists u i w q s', u <> t /\ pcs (lane s) u = PA_link i w q /\ mstep s u = Some s').
  { intros e He Hl Hlp. destruct (H2 e He Hl) as (u & w & q & Hu). destruct (link_enabled s u _ _ _ I Hu) as [s' Hs].
    exists u, (e_id e), w, q, s'. split; [intros ->; congruence | split; assumption]. }
  destruct Hp as [Hpc|Hpc].
  - destruct (main_thread s t _ I Hpc eq_refl) as [Et Ec]. pose proof (lane_of_plain s t _ I Hpc Logic.I) as Hlp.
    pose proof I as (_ & _ & _ & G). rewrite Ec in G. cbn [mclass c_lane] in G. destruct G as [r G].
    assert (Ne : lst (lane s) <> []) by (apply (a_ne s r G); rewrite Ec; reflexivity).
    destruct (lst (lane s)) as [|e l] eqn:L; [congruence|]. destruct (e_linked e) eqn:El.
    + left. unfold mstep. cbv zeta. rewrite Hpc, L, El. eexists. reflexivity.
    + right. apply (Other e); [apply in_or_app; right; rewrite ?L; left; reflexivity | exact El | exact Hlp].
  - destruct (main_thread s t _ I Hpc eq_refl) as [Et Ec]. pose proof (lane_of_plain s t _ I Hpc Logic.I) as Hlp.
    pose proof I as (_ & _ & _ & G). rewrite Ec in G. cbn [mclass c_lane] in G. destruct G as [r G].
    pose proof (a_snap s r G) as AS. rewrite Ec in AS.
    destruct (snap s) as [|e [|e2 rest]] eqn:Sn; [discriminate AS| |].
    + left. unfold mstep. cbv zeta. rewrite Hpc, Sn. eexists. reflexivity.
    + destruct (e_linked e2) eqn:El.
      * left. unfold mstep. cbv zeta. rewrite Hpc, Sn, El. eexists. reflexivity.
      * right. apply (Other e2); [rewrite ?Sn; right; left; reflexivity | exact El | exact Hlp].
Qed.

(* ================================================================== no lost wake-up for a parked synchronous caller:
   as long as it is not signalled, its context is still queued / popped / running on the bound thread, or the bound
   thread is about to signal it; and if it sleeps after the signal, the futex_wake is the bound thread's next step *)
Lemma gstep_lst_same l t l' :
  gstep l t = Some l' -> lane_ok MIdle (pcs l t) = true -> token_pc (pcs l t) = false -> lst l' = lst l.
Proof.
  intros B Hk Ht. unfold gstep in B. destruct (pcs l t) eqn:Hpc; try discriminate; cbn [lane_ok] in Hk; try discriminate Hk;
    cbn [token_pc locked_pc orb] in Ht; try discriminate Ht; break_step B; injection B as <-; lproj;
    repeat match goal with H : lst l = _ |- _ => rewrite H; clear H end; reflexivity.
Qed.

Definition NM (s : mst) : Prop := ~ In (mtid s) (syncers s).

Lemma NM_step s a s' : NM s -> mstep_rel s a s' -> NM s'.
Proof.
  intros H St. destruct a as [t c|t|t|t]; destruct St as [V B].
  - unfold mbegin in B. destruct (pcs (lane s) t); try discriminate B.
    destruct c.
    2: { destruct (mpcs s t); try discriminate B.
         destruct (qos_ok q && negb (t =? mtid s) && negb (mainstarted s)) eqn:C; [|discriminate B].
         apply some_inj in B; rewrite <- B; unfold NM; mproj; intros [E|E]; [|exact (H E)].
         apply andb_true_iff in C as [C _]; apply andb_true_iff in C as [_ C]; apply negb_true_iff in C; apply Z.eqb_neq in C; congruence. }
    all: try (destruct (begin (lane s) t (CWorker floor)) eqn:BG); destruct (mpcs s t); brk B; try discriminate B;
      apply some_inj in B; rewrite <- B; unfold NM, callback; mproj;
      repeat match goal with |- context [if ?x then _ else _] => destruct x end; mproj; exact H.
  - unfold mstep, lane_step in B. destruct (gstep (lane s) t) eqn:GS; destruct (mpcs s t); brk B; try discriminate B;
      apply some_inj in B; rewrite <- B; unfold NM; mproj;
      repeat match goal with |- context [if ?x then _ else _] => destruct x end; mproj; try exact H.
    all: rewrite in_remove_z; intros [E _]; exact (H E).
  - unfold mostep, lane_step in B. destruct (gstep (lane s) t) eqn:GS; destruct (ostep (lane s) t) eqn:OS; destruct (mpcs s t); brk B;
      try discriminate B; apply some_inj in B; rewrite <- B; exact H.
  - unfold mspur in B. destruct (mpcs s t); try discriminate B. injection B as <-. exact H.
Qed.


Definition witem (c : mcls) : list Z := match c_view c with VRun i _ | VIn i _ => [i] | _ => [] end.
Definition pset (s : mst) : list Z := witem (mcl s) ++ ids (snap s) ++ ids (lst (lane s)).

Definition PW (s : mst) (t : Z) : Prop :=
  3 <= stage (mpcs s t) (pcs (lane s) t) <= 4 ->
  (0 <= w_item (ws s t) < nextid (lane s) /\ waiter_of s (w_item (ws s t)) = t /\ t <> 0) /\
  (w_sigd (ws s t) = false ->
     (w_null (ws s t) = false -> In (w_item (ws s t)) (pset s)) /\ (w_null (ws s t) = true -> c_view (mcl s) = VSig t)) /\
  (mpcs s t = MS_sleep -> w_wok (ws s t) = false -> w_sigd (ws s t) = true -> exists more, mpcs s (mtid s) = MB_fwake t more).

Definition Inv3 (s : mst) : Prop := forall t, PW s t.

Definition wsame (a b : wst) : Prop :=
  w_item a = w_item b /\ w_sigd a = w_sigd b /\ w_null a = w_null b /\ w_wok a = w_wok b.

Lemma PW_frame s s' u :
  PW s u ->
  (3 <= stage (mpcs s' u) (pcs (lane s') u) <= 4 -> 3 <= stage (mpcs s u) (pcs (lane s) u) <= 4) ->
  (mpcs s' u = MS_sleep -> mpcs s u = MS_sleep) ->
  wsame (ws s' u) (ws s u) -> mtid s' = mtid s ->
  (forall i, 0 <= i < nextid (lane s) -> waiter_of s' i = waiter_of s i) ->
  nextid (lane s) <= nextid (lane s') ->
  (waiter_of s (w_item (ws s u)) = u -> u <> 0 -> In (w_item (ws s u)) (pset s) -> In (w_item (ws s u)) (pset s')) ->
  (c_view (mcl s) = VSig u -> c_view (mcl s') = VSig u) ->
  (forall more, mpcs s (mtid s) = MB_fwake u more -> mpcs s' (mtid s) = MB_fwake u more) ->
  PW s' u.
Proof.
  intros H E1 E2 (W1 & W2 & W3 & W4) E4 Ew Hn Hi Hv Hf. unfold PW in *. rewrite W1, W2, W3, W4, E4. intros Hs.
  destruct (H (E1 Hs)) as ((A0 & A & A1) & B & C). split; [split; [lia | split; [rewrite (Ew _ A0); exact A | exact A1]]|]. split.
  - intros Sg. destruct (B Sg) as [B1 B2]. split; [intros Nl; apply (Hi A A1); apply B1; exact Nl | intros Nl; apply Hv; apply B2; exact Nl].
  - intros P1 P2 P3. destruct (C (E2 P1) P2 P3) as [more Hm]. exists more. apply Hf. exact Hm.
Qed.

Lemma PW_lane_phase s u : Inv s -> c_lane (mcl s) = true -> PW s u.
Proof.
  intros (T & _ & _ & G) CL Hs. exfalso. rewrite CL in G. destruct G as [_ G2].
  destruct (T u) as (_ & _ & _ & _ & T5 & _). assert (sync_pc (mpcs s u) = true) by (apply (stage_sync _ (pcs (lane s) u)); lia).
  apply T5 in H. rewrite (b_sync s G2) in H. contradiction.
Qed.

Lemma PW_clean_phase s u : Inv s -> c_lane (mcl s) = false -> c_clean (mcl s) = true -> PW s u.
Proof.
  intros (T & _ & _ & G) CL CC Hs. exfalso. rewrite CL in G. destruct G as [r G].
  destruct (T u) as (_ & _ & _ & _ & T5 & _). assert (sync_pc (mpcs s u) = true) by (apply (stage_sync _ (pcs (lane s) u)); lia).
  apply T5 in H. rewrite (a_nosync s r G CC) in H. contradiction.
Qed.

Lemma pset_same s s' : c_view (mcl s') = c_view (mcl s) -> snap s' = snap s -> lst (lane s') = lst (lane s) -> incl (pset s) (pset s').
Proof. intros E1 E2 E3. unfold pset, witem. rewrite E1, E2, E3. apply incl_refl. Qed.

Ltac dmatch :=
  repeat match goal with
         | |- context [if ?x then _ else _] => destruct x
         | |- context [match ?k with KRet => _ | KWait => _ | KDrain => _ | KCall _ _ _ => _ end] => destruct k
         | |- context [match ?l with nil => _ | cons _ _ => _ end] => destruct l
         end.

Ltac absurd_neq := try (exfalso; match goal with H : ?x <> ?x |- _ => exact (H eq_refl) end).

(* the bound thread's view is unchanged by the step of thread t from the program point in Hpc *)
Ltac view_eq s t Hpc Ev :=
  match goal with
  | |- PW ?s1 _ =>
      assert (Ev : c_view (mcl s1) = c_view (mcl s)) by
        (unfold mcl; mproj;
         let E := fresh "E" in
         destruct (Z.eq_dec t (mtid s)) as [E|E];
         [ rewrite <- E, ?upd_same, ?Hpc; dmatch; reflexivity
         | rewrite ?upd_other by congruence; reflexivity ])
  end.

(* a step of thread t that keeps the lists, the contexts' flags and the bound thread's view *)
Ltac generic H3 s u t Hpc :=
  let Ev := fresh "Ev" in
  view_eq s t Hpc Ev;
  apply (PW_frame s _ u (H3 u));
  [ mproj; lproj; let N := fresh "N" in destruct (Z.eq_dec u t) as [->|N];
    [ absurd_neq; rewrite ?upd_same, ?Hpc; dmatch; cbn [stage kont]; dmatch; lia | rewrite ?upd_other by exact N; tauto ]
  | mproj; let N := fresh "N" in destruct (Z.eq_dec u t) as [->|N];
    [ absurd_neq; rewrite ?upd_same, ?Hpc; dmatch; try discriminate; tauto | rewrite ?upd_other by exact N; tauto ]
  | mproj; let N := fresh "N" in destruct (Z.eq_dec u t) as [->|N];
    [ absurd_neq; rewrite ?upd_same; repeat split | rewrite ?upd_other by exact N; repeat split ]
  | reflexivity
  | intros; mproj; reflexivity
  | mproj; lproj; lia
  | intros _ _; apply pset_same; [exact Ev | mproj; reflexivity | mproj; lproj; reflexivity]
  | rewrite Ev; tauto
  | let more := fresh "more" in let Hm := fresh "Hm" in let E := fresh "E" in
    intros more Hm; mproj;
    destruct (Z.eq_dec t (mtid s)) as [E|E]; [rewrite <- E, Hpc in Hm; discriminate Hm | rewrite upd_other by congruence; exact Hm] ].

(* thread t itself is not (or no longer) waiting after the step *)
Ltac vacuous :=
  let Hs := fresh "Hs" in
  intros Hs; exfalso; revert Hs; mproj; lproj; rewrite ?upd_same; cbn [stage kont]; dmatch; lia.


(* a private move of the bound thread t = mtid s: everything but the pending set and the view is framed *)
Ltac bframe H3 s u t Hpc Et :=
  apply (PW_frame s _ u (H3 u));
  [ mproj; lproj; let N := fresh "N" in destruct (Z.eq_dec u t) as [->|N];
    [ absurd_neq; rewrite ?upd_same, ?Hpc; dmatch; cbn [stage kont]; dmatch; lia | rewrite ?upd_other by exact N; tauto ]
  | mproj; let N := fresh "N" in destruct (Z.eq_dec u t) as [->|N];
    [ absurd_neq; rewrite ?upd_same, ?Hpc; dmatch; try discriminate; tauto | rewrite ?upd_other by exact N; tauto ]
  | mproj
  | reflexivity
  | intros; mproj; reflexivity
  | mproj; lproj; lia
  | idtac
  | idtac
  | idtac ].
Ltac unf_mcl Et Hpc := unfold pset, witem, mcl; mproj; rewrite <- ?Et, ?upd_same, ?Hpc; cbn [mclass c_view kont].
Ltac unf_mcl_in Et Hpc H := unfold pset, witem, mcl in H; mproj_in H; rewrite <- ?Et, ?upd_same, ?Hpc in H; cbn [mclass c_view kont] in H.

Lemma parked_not_main s w i : Inv s -> NM s -> parked s w i -> w <> mtid s.
Proof.
  intros (T & _) Hn P E. apply Hn. rewrite <- E. destruct (T w) as (_ & _ & _ & _ & T5 & _). apply T5. exact (parked_sync s w i P).
Qed.

Lemma Inv3_mstep s t s' : Inv s -> Inv s' -> Inv3 s -> NM s -> valid_tid t -> mstep s t = Some s' -> Inv3 s'.
Proof.
  intros I I' H3 Hn V B u.
  destruct (c_lane (mcl s')) eqn:CL'; [apply PW_lane_phase; assumption|].
  destruct (c_clean (mcl s')) eqn:CC'; [apply PW_clean_phase; assumption|].
  pose proof I as (T & Y & Vm & G). destruct (T t) as (T1 & T2 & T3 & T4 & T5 & T6).
  unfold mstep, lane_step in B. destruct (mpcs s t) eqn:Hpc.
  all: cbv beta iota zeta in B.
  all: try (match type of B with context [gstep] => fail 1 | _ => idtac end; brk B; try discriminate B; apply some_inj in B; rewrite <- B;
            dmatch; generic H3 s u t Hpc; fail).
  - (* ordinary lane code *)
    destruct (gstep (lane s) t) as [l'|] eqn:GS; [|discriminate]. apply some_inj in B. subst s'.
    destruct (gstep_facts _ _ _ GS T2) as (F1 & F2 & F3 & F4).
    assert (CLs : c_lane (mcl s) = false) by exact CL'. rewrite CLs in G. destruct G as [r G].
    assert (NT : token_pc (pcs (lane s) t) = false).
    { destruct (token_pc (pcs (lane s) t)) eqn:E; [|reflexivity]. destruct T1 as (Tt & _). apply Tt in E. rewrite (a_token s r G) in E. discriminate. }
    pose proof (gstep_lst_same _ _ _ GS T2 NT) as EL.
    apply (PW_frame s _ u (H3 u)); mproj.
    + destruct (Z.eq_dec u t) as [->|N]; [rewrite Hpc; cbn [stage kont]; lia | rewrite (F3 u N); tauto].
    + tauto.
    + repeat split.
    + reflexivity.
    + intros; reflexivity.
    + lia.
    + intros _ _. apply pset_same; [reflexivity | reflexivity | exact EL].
    + tauto.
    + intros more Hm; exact Hm.
  - (* the push *)
    cbn [lane_ok] in T2.
    destruct (pcs (lane s) t) eqn:Hlp; try discriminate T2; unfold gstep in B; rewrite Hlp in B; apply some_inj in B; subst s'.
    + (* exchange: a synchronous caller's context becomes pending *)
      destruct (Z.eq_dec u t) as [->|N].
      * destruct k.
        -- intros Hs. exfalso. revert Hs. mproj. rewrite Hpc. cbn [stage kont]. lia.
        -- assert (CLs : c_lane (mcl s) = false) by exact CL'. rewrite CLs in G. destruct G as [r G].
           destruct T6 as (S2 & _). rewrite Hpc, Hlp in S2. cbn [stage] in S2. destruct (S2 eq_refl) as (_ & S22 & S23).
           intros _. mproj. lproj. rewrite !upd_same. cbn [w_item w_sigd w_null w_wok wset_item]. rewrite Hpc.
           split; [split; [pose proof (a_nextid s r G); lia | split; [reflexivity | unfold valid_tid in V; lia]]|]. split.
           ++ intros _. split; [intros _ | intros E; congruence].
              unfold pset. mproj. lproj. apply in_or_app. right. apply in_or_app. right. unfold ids. rewrite map_app. apply in_or_app. right. left. reflexivity.
           ++ intros E; discriminate E.
        -- intros Hs. exfalso. revert Hs. mproj. rewrite Hpc. cbn [stage kont]. lia.
        -- intros Hs. exfalso. revert Hs. mproj. rewrite Hpc. cbn [stage kont]. lia.
      * apply (PW_frame s _ u (H3 u)); mproj; lproj; rewrite ?upd_other by exact N.
        -- tauto.
        -- tauto.
        -- repeat split.
        -- reflexivity.
        -- intros i0 Hi0. rewrite upd_other by lia. reflexivity.
        -- lia.
        -- intros _ _. unfold pset. apply incl_app_app; [apply incl_refl|]. apply incl_app_app; [apply incl_refl|]. mproj. lproj.
           unfold ids. rewrite map_app. apply incl_appl. apply incl_refl.
        -- tauto.
        -- intros more Hm; exact Hm.
    + (* link *)
      assert (Ev : c_view (mcl (set_mpc (set_snap (set_lane s (set_pc (set_lst (lane s) (link_id (lst (lane s)) i)) t (if was_empty then PA_probe qos else Idle))) (link_id (snap s) i)) t (if was_empty then MW_bound qos true k else MW_ret k))) = c_view (mcl s)).
      { unfold mcl; mproj. destruct (Z.eq_dec t (mtid s)) as [E|E];
        [ rewrite <- E, ?upd_same, ?Hpc; dmatch; reflexivity | rewrite ?upd_other by congruence; reflexivity ]. }
      apply (PW_frame s _ u (H3 u)).
      * mproj; lproj; destruct (Z.eq_dec u t) as [->|N];
          [ rewrite ?upd_same, ?Hpc, ?Hlp; dmatch; cbn [stage kont]; dmatch; lia | rewrite ?upd_other by exact N; tauto ].
      * mproj; destruct (Z.eq_dec u t) as [->|N];
          [ rewrite ?upd_same, ?Hpc; dmatch; try discriminate; tauto | rewrite ?upd_other by exact N; tauto ].
      * mproj. repeat split.
      * reflexivity.
      * intros; mproj; reflexivity.
      * mproj; lproj; lia.
      * intros _ _. unfold pset, witem. rewrite Ev. mproj. lproj. unfold ids. rewrite !map_id_link. tauto.
      * rewrite Ev; tauto.
      * intros more Hm; mproj. destruct (Z.eq_dec t (mtid s)) as [E|E]; [rewrite <- E, Hpc in Hm; discriminate Hm | rewrite upd_other by congruence; exact Hm].
  - (* MS_prep: the context is set up *)
    brk B; try discriminate B; apply some_inj in B; subst s'.
    destruct (Z.eq_dec u t) as [->|N]; [vacuous | generic H3 s u t Hpc].
  - (* MS_futex: going to sleep only while the event still holds the waiting value, i.e. not signalled *)
    destruct (w_dte (ws s t) =? MAXV) eqn:Ed; apply some_inj in B; subst s'; [|generic H3 s u t Hpc].
    destruct (Z.eq_dec u t) as [->|N]; [|generic H3 s u t Hpc].
    apply Z.eqb_eq in Ed. destruct T6 as (_ & _ & S4 & _). rewrite Hpc in S4. cbn [stage] in S4. specialize (S4 eq_refl).
    pose proof (H3 t) as P. unfold PW in P. rewrite Hpc in P. cbn [stage] in P. destruct (P ltac:(lia)) as (A & B0 & _).
    view_eq s t Hpc Ev.
    intros _. unfold pset, witem in *. rewrite Ev. mproj. rewrite !upd_same. cbn [w_item w_sigd w_null w_wok wset_wok]. split; [exact A|]. split; [exact B0|].
    intros _ _ Sg. exfalso. rewrite Sg, Ed in S4. unfold MAXV in S4. discriminate S4.
  - (* MB_snap: the list moves into the snapshot *)
    apply some_inj in B; subst s'.
    assert (Et : t = mtid s) by (apply T3; reflexivity).
    assert (CLs : c_lane (mcl s) = false). { unfold mcl. rewrite <- Et, Hpc. reflexivity. }
    rewrite CLs in G. destruct G as [r G].
    assert (Sn : snap s = []).
    { pose proof (a_snap s r G) as AS. unfold mcl in AS. rewrite <- Et, Hpc in AS.
      destruct (snap s); [reflexivity | discriminate AS]. }
    assert (Ev : c_view (mcl (set_mpc (set_snap (set_lane s (set_lst (lane s) [])) (lst (lane s))) t MB_next)) = c_view (mcl s)).
    { unfold mcl; mproj. rewrite <- Et, upd_same, Hpc. reflexivity. }
    apply (PW_frame s _ u (H3 u)).
    + mproj; lproj; destruct (Z.eq_dec u t) as [->|N]; [rewrite ?upd_same, ?Hpc; cbn [stage kont]; lia | rewrite ?upd_other by exact N; tauto].
    + mproj; destruct (Z.eq_dec u t) as [->|N]; [rewrite ?upd_same; discriminate | rewrite ?upd_other by exact N; tauto].
    + mproj. repeat split.
    + reflexivity.
    + intros; mproj; reflexivity.
    + mproj; lproj; lia.
    + intros _ _. unfold pset, witem. rewrite Ev. mproj. lproj. rewrite Sn. cbn [ids map app]. rewrite app_nil_r. tauto.
    + rewrite Ev; tauto.
    + intros more Hm. rewrite <- Et, Hpc in Hm. discriminate Hm.
  - (* MB_next: the head of the snapshot is taken *)
    assert (Et : t = mtid s) by (apply T3; reflexivity).
    destruct (snap s) as [|e [|e2 r']] eqn:Sn; try discriminate B.
    + apply some_inj in B; subst s'. bframe H3 s u t Hpc Et.
      * repeat split.
      * intros _ _. unf_mcl Et Hpc. rewrite Sn. cbn [ids map app]. tauto.
      * unf_mcl Et Hpc. discriminate.
      * intros more0 Hm. rewrite <- Et, Hpc in Hm. discriminate Hm.
    + destruct (e_linked e2); [|discriminate B]. apply some_inj in B; subst s'. bframe H3 s u t Hpc Et.
      * repeat split.
      * intros _ _. unf_mcl Et Hpc. rewrite Sn. cbn [ids map app]. tauto.
      * unf_mcl Et Hpc. discriminate.
      * intros more0 Hm. rewrite <- Et, Hpc in Hm. discriminate Hm.
  - (* MB_run: the callout begins *)
    assert (Et : t = mtid s) by (apply T3; reflexivity).
    apply some_inj in B; subst s'. bframe H3 s u t Hpc Et.
    + repeat split.
    + intros _ _. unf_mcl Et Hpc. lproj. tauto.
    + unf_mcl Et Hpc. discriminate.
    + intros more0 Hm. rewrite <- Et, Hpc in Hm. discriminate Hm.
  - (* MB_incall: the callout ends; a synchronous caller's context is marked as run *)
    assert (Et : t = mtid s) by (apply T3; reflexivity).
    assert (Ev : c_view (mcl s) = VIn i w) by (unfold mcl; rewrite <- Et, Hpc; reflexivity).
    destruct (y_run s Y i w (or_intror Ev)) as (Ew & Pk).
    destruct (w =? 0) eqn:Ew0; apply some_inj in B; subst s'.
    + apply Z.eqb_eq in Ew0. bframe H3 s u t Hpc Et.
      * repeat split.
      * intros Hw Hu. unf_mcl Et Hpc. lproj. cbn [app]. intros [Hi|Hi]; [|exact Hi]. exfalso. rewrite <- Hi in Hw. lia.
      * unf_mcl Et Hpc. discriminate.
      * intros more0 Hm. rewrite <- Et, Hpc in Hm. discriminate Hm.
    + apply Z.eqb_neq in Ew0. destruct (Pk Ew0) as (Pk1 & Pk2).
      pose proof (parked_not_main s w i I Hn Pk1) as Nw. destruct Pk1 as (Pa & Pb & Pc).
      destruct (Z.eq_dec u w) as [->|Nu].
      * pose proof (H3 w) as P. unfold PW in P. destruct (P Pa) as (A & _ & _).
        intros _. unf_mcl Et Hpc. lproj. rewrite ?upd_same. cbn [w_item w_sigd w_null w_wok wset_null].
        split; [exact A|]. split.
        -- intros _. split; [discriminate | reflexivity].
        -- intros _ _ Sg. congruence.
      * bframe H3 s u t Hpc Et.
        -- rewrite upd_other by exact Nu. repeat split.
        -- intros Hw Hu. unf_mcl Et Hpc. lproj. cbn [app]. intros [Hi|Hi]; [|exact Hi]. exfalso. rewrite <- Hi in Hw. congruence.
        -- unf_mcl Et Hpc. discriminate.
        -- intros more0 Hm. rewrite <- Et, Hpc in Hm. discriminate Hm.
  - (* MB_sig: the event is signalled; a sleeping caller is woken by the very next step *)
    assert (Et : t = mtid s) by (apply T3; reflexivity).
    assert (Ev : c_view (mcl s) = VSig w) by (unfold mcl; rewrite <- Et, Hpc; reflexivity).
    destruct (y_sig s Y w Ev) as (Pk1 & Pk2 & _).
    pose proof (parked_not_main s w _ I Hn Pk1) as Nw. destruct Pk1 as (Pa & _ & Pc).
    apply some_inj in B; subst s'.
    destruct (Z.eq_dec u w) as [->|Nu].
    + pose proof (H3 w) as P. unfold PW in P. destruct (P Pa) as (A & _ & _).
      destruct (T w) as (_ & _ & _ & _ & _ & (_ & _ & S4 & _)).
      intros _. mproj. rewrite <- ?Et, ?upd_same. rewrite ?upd_other by congruence.
      cbn [w_item w_sigd w_null w_wok wset_sigd wset_dte].
      split; [exact A|]. split; [discriminate|].
      intros Sl _ _. rewrite Sl in S4. cbn [stage] in S4. specialize (S4 eq_refl). rewrite Pc in S4.
      rewrite S4. assert (Em : (MAXV =? 0) = false) by reflexivity. rewrite Em. exists more. reflexivity.
    + bframe H3 s u t Hpc Et.
      * rewrite upd_other by exact Nu. repeat split.
      * intros _ _. unf_mcl Et Hpc. dmatch; cbn [mclass c_view kont]; tauto.
      * intros Eu. exfalso. rewrite Ev in Eu. congruence.
      * intros more0 Hm. rewrite <- Et, Hpc in Hm. discriminate Hm.
  - (* MB_fwake: futex_wake *)
    assert (Et : t = mtid s) by (apply T3; reflexivity).
    apply some_inj in B; subst s'.
    destruct (Z.eq_dec u t) as [->|Nt]; [vacuous|].
    destruct (Z.eq_dec u w) as [->|Nu].
    + pose proof (H3 w) as P. unfold PW in P.
      intros Hs. revert Hs. unf_mcl Et Hpc. rewrite ?upd_same. rewrite ?upd_other by congruence.
      cbn [w_item w_sigd w_null w_wok wset_wok]. intros Hs. destruct (P Hs) as (A & B0 & _).
      split; [exact A|]. split.
      * intros Sg. destruct (B0 Sg) as [B1 B2]. split; [intros Nl; apply B1 in Nl; unf_mcl_in Et Hpc Nl; exact Nl|].
        intros Nl. apply B2 in Nl. unf_mcl_in Et Hpc Nl. discriminate Nl.
      * intros _ Wk. discriminate Wk.
    + bframe H3 s u t Hpc Et.
      * rewrite upd_other by exact Nu. repeat split.
      * intros _ _. unf_mcl Et Hpc. tauto.
      * unf_mcl Et Hpc. discriminate.
      * intros more0 Hm. rewrite <- Et, Hpc in Hm. exfalso. congruence.
  - (* MC_cbc: excluded, the class after the step belongs to dispatch_main() *)
    assert (Et : t = mtid s) by (apply T3; reflexivity).
    exfalso. brk B; try discriminate B; apply some_inj in B; subst s'.
    all: revert CL' CC'; unfold mcl; mproj; rewrite <- ?Et, ?upd_same; cbn [mclass c_lane c_clean]; congruence.
  - (* MC_push: excluded likewise *)
    assert (Et : t = mtid s) by (apply T3; reflexivity).
    exfalso. destruct (gstep (lane s) t) as [l'|]; [|discriminate B]. apply some_inj in B; subst s'.
    revert CL'; unfold mcl; mproj; rewrite <- ?Et, ?upd_same; cbn [mclass c_lane c_clean]; congruence.
Qed.

Lemma Inv3_step s a s' : Inv s -> Inv s' -> Inv3 s -> NM s -> mstep_rel s a s' -> Inv3 s'.
Proof.
  intros I I' H3 Hn St. destruct a as [t c|t|t|t]; destruct St as [V B].
  - (* a call begins *)
    intros u.
    destruct (c_lane (mcl s')) eqn:CL'; [apply PW_lane_phase; assumption|].
    destruct (c_clean (mcl s')) eqn:CC'; [apply PW_clean_phase; assumption|].
    pose proof I as (T & Y & Vm & G). destruct (T t) as (T1 & T2 & T3 & T4 & T5 & T6).
    unfold mbegin in B. destruct (pcs (lane s) t) eqn:Hlp; try discriminate B.
    destruct c.
    + destruct (mpcs s t) eqn:Hpc; try discriminate B; (destruct (qos_ok q); [|discriminate B]);
        apply some_inj in B; subst s'; generic H3 s u t Hpc.
    + destruct (mpcs s t) eqn:Hpc; try discriminate B.
      destruct (qos_ok q && negb (t =? mtid s) && negb (mainstarted s)); [|discriminate B].
      apply some_inj in B; subst s'. destruct aaw; generic H3 s u t Hpc.
    + destruct (mpcs s t) eqn:Hpc; try discriminate B;
        (destruct ((t =? mtid s) && (0 <? evfd s) && hopen s) eqn:C; [|discriminate B]);
        apply some_inj in B; subst s'; unfold callback in *; mproj; mproj_in CL'; mproj_in CC'.
      * destruct (incb s); [exact (H3 u)|]. generic H3 s u t Hpc.
      * assert (Et : t = mtid s) by (apply T3; reflexivity).
        assert (CLs : c_lane (mcl s) = false) by (unfold mcl; rewrite <- Et, Hpc; reflexivity).
        rewrite CLs in G. destruct G as [r G]. pose proof (a_incb s r G) as AI. unfold mcl in AI. rewrite <- Et, Hpc in AI.
        cbn [mclass c_incb] in AI. rewrite AI. exact (H3 u).
    + destruct (mpcs s t) eqn:Hpc; try discriminate B;
        (destruct (t =? mtid s) eqn:C; [|discriminate B]);
        apply some_inj in B; subst s'; unfold callback in *; mproj_in CL'; mproj_in CC'.
      * destruct (incb s); [exact (H3 u)|]. generic H3 s u t Hpc.
      * assert (Et : t = mtid s) by (apply T3; reflexivity).
        assert (CLs : c_lane (mcl s) = false) by (unfold mcl; rewrite <- Et, Hpc; reflexivity).
        rewrite CLs in G. destruct G as [r G]. pose proof (a_incb s r G) as AI. unfold mcl in AI. rewrite <- Et, Hpc in AI.
        cbn [mclass c_incb] in AI. rewrite AI. exact (H3 u).
    + exfalso. destruct (mpcs s t) eqn:Hpc; try discriminate B. destruct (syncers s); [|discriminate B].
      destruct (t =? mtid s) eqn:C; [|discriminate B]. apply Z.eqb_eq in C.
      apply some_inj in B; subst s'. revert CC'. unfold mcl. mproj. rewrite <- C, upd_same. cbn [mclass c_clean]. discriminate.
    + exfalso. destruct (mpcs s t) eqn:Hpc; try discriminate B. destruct (t =? mtid s); [discriminate B|].
      destruct (begin (lane s) t (CWorker floor)) as [l|] eqn:BG; [|discriminate B]. apply some_inj in B; subst s'.
      assert (CLs : c_lane (mcl s) = false) by exact CL'. rewrite CLs in G. destruct G as [r G].
      unfold begin in BG. rewrite Hlp, (a_rootq s r G) in BG. discriminate BG.
  - exact (Inv3_mstep s t s' I I' H3 Hn V B).
  - (* the override continuation *)
    intros u.
    destruct (c_lane (mcl s')) eqn:CL'; [apply PW_lane_phase; assumption|].
    pose proof I as (T & Y & Vm & G). destruct (T t) as (T1 & T2 & T3 & T4 & T5 & T6).
    unfold mostep, lane_step in B. destruct (mpcs s t) eqn:Hpc; try discriminate B.
    + exfalso. unfold ostep in B. destruct (pcs (lane s) t); try discriminate B. discriminate T2.
    + cbn [lane_ok] in T2.
      destruct (pcs (lane s) t) eqn:Hlp; try discriminate B. destruct was_empty; [discriminate B|].
      unfold gstep in B. rewrite Hlp in B. apply some_inj in B. subst s'.
      assert (Ev : c_view (mcl (set_mpc (set_snap (set_lane s (set_pc (set_lst (lane s) (link_id (lst (lane s)) i)) t Idle)) (link_id (snap s) i)) t (MW_bound (push_qos s qos) false k))) = c_view (mcl s)).
      { unfold mcl; mproj. destruct (Z.eq_dec t (mtid s)) as [E|E];
        [ rewrite <- E, ?upd_same, ?Hpc; dmatch; reflexivity | rewrite ?upd_other by congruence; reflexivity ]. }
      apply (PW_frame s _ u (H3 u)).
      * mproj; lproj; destruct (Z.eq_dec u t) as [->|N];
          [ rewrite ?upd_same, ?Hpc, ?Hlp; dmatch; cbn [stage kont]; dmatch; lia | rewrite ?upd_other by exact N; tauto ].
      * mproj; destruct (Z.eq_dec u t) as [->|N];
          [ rewrite ?upd_same, ?Hpc; dmatch; try discriminate; tauto | rewrite ?upd_other by exact N; tauto ].
      * mproj. repeat split.
      * reflexivity.
      * intros; mproj; reflexivity.
      * mproj; lproj; lia.
      * intros _ _. unfold pset, witem. rewrite Ev. mproj. lproj. unfold ids. rewrite !map_id_link. tauto.
      * rewrite Ev; tauto.
      * intros more Hm; mproj. destruct (Z.eq_dec t (mtid s)) as [E|E]; [rewrite <- E, Hpc in Hm; discriminate Hm | rewrite upd_other by congruence; exact Hm].
  - (* a spurious return from futex_wait *)
    intros u. unfold mspur in B. destruct (mpcs s t) eqn:Hpc; try discriminate B. apply some_inj in B; subst s'.
    generic H3 s u t Hpc.
Qed.

Lemma Inv3_init m prio rb : Inv3 (minit m prio rb).
Proof. intros t Hs. exfalso. revert Hs. unfold minit. mproj. cbn [stage kont]. lia. Qed.

Lemma NM_init m prio rb : NM (minit m prio rb).
Proof. unfold NM, minit. mproj. intros []. Qed.

Theorem Inv3_reachable m prio rb s : valid_tid m -> 0 <= rb < 2 -> mreach m prio rb s -> NM s /\ Inv3 s.
Proof.
  intros Vm Hrb R. induction R as [s0 ->|s a s' R IH H].
  - split; [apply NM_init | apply Inv3_init].
  - destruct IH as [N H4]. pose proof (Inv_reachable m prio rb s Vm Hrb R) as I.
    split; [exact (NM_step s a s' N H) | exact (Inv3_step s a s' I (mstep_preserves s a s' I H) H4 N H)].
Qed.

(* what the bound thread's program point says when its view is "about to signal t" / "has popped i" *)
Lemma view_sig p t : c_view (mclass p) = VSig t -> exists more, p = MB_sig t more.
Proof.
  destruct p; cbn; try discriminate;
    try (match goal with |- context [match ?k with KRet => _ | KWait => _ | KDrain => _ | KCall _ _ _ => _ end] => destruct k end; cbn; discriminate).
  - intros E. injection E as ->. eexists; reflexivity.
  - destruct tgt; cbn; discriminate.
Qed.
Lemma view_item p x : In x (witem (mclass p)) ->
  exists w more, p = MB_run x w more \/ p = MB_incall x w more \/ kont p = Some (KCall x w more).
Proof.
  unfold witem. destruct p; cbn; try contradiction; try (destruct tgt; cbn; contradiction).
  all: try (destruct k; cbn; try contradiction; intros [<-|[]]; eexists _, _; right; right; reflexivity).
  - intros [<-|[]]. eexists _, _. left. reflexivity.
  - intros [<-|[]]. eexists _, _. right. left. reflexivity.
Qed.

(* NO LOST WAKE-UP FOR A SYNCHRONOUS CALLER.  A caller of dispatch_sync / dispatch_async_and_wait on the main queue whose
   context has been pushed and whose wait is not over (stage 3: before the decrement of the thread event, stage 4: after
   it) is, as long as the bound thread has not signalled it, still owed its run: its context is in the queue's list, in
   the bound thread's snapshot, popped / running on the bound thread, or has been run and the bound thread is at the
   signalling store.  And once it is signalled, a caller asleep in futex_wait without a wake-up has the bound thread at
   the futex_wake for it.  (With C02_mainq_not_stranded and C02_mainq_drain_waits_not_stuck: the bound thread gets there.) *)
Theorem mainq_sync_wakeup_not_lost m prio rb s t :
  valid_tid m -> 0 <= rb < 2 -> mreach m prio rb s ->
  3 <= stage (mpcs s t) (pcs (lane s) t) <= 4 ->
  let i := w_item (ws s t) in
  waiter_of s i = t /\
  (w_sigd (ws s t) = false ->
     In i (ids (lst (lane s))) \/ In i (ids (snap s)) \/
     (exists w more, mpcs s (mtid s) = MB_run i w more \/ mpcs s (mtid s) = MB_incall i w more \/
                     kont (mpcs s (mtid s)) = Some (KCall i w more)) \/
     (exists more, mpcs s (mtid s) = MB_sig t more)) /\
  (w_sigd (ws s t) = true -> mpcs s t = MS_sleep -> w_wok (ws s t) = true \/ exists more, mpcs s (mtid s) = MB_fwake t more).
Proof.
  intros Vm Hrb R Hs i. destruct (Inv3_reachable m prio rb s Vm Hrb R) as [_ H4].
  destruct (H4 t Hs) as ((_ & A & _) & B & C). split; [exact A|]. split.
  - intros Sg. destruct (B Sg) as [B1 B2]. destruct (w_null (ws s t)) eqn:Nl.
    + right. right. right. apply view_sig. exact (B2 eq_refl).
    + specialize (B1 eq_refl). unfold pset in B1. apply in_app_or in B1. destruct B1 as [B1|B1].
      * right. right. left. exact (view_item _ _ B1).
      * apply in_app_or in B1. tauto.
  - intros Sg Sl. destruct (w_wok (ws s t)) eqn:Wk; [left; reflexivity | right; exact (C Sl eq_refl Sg)].
Qed.
