(* MainQ_extra.v — further invariants of Model/MainQ.v, proved over reachability on top of MainQ_proofs.Inv_reachable:
   J  : items whose callout ended / was begun by the bound thread's drain have started (so "ran exactly once" for a
        synchronous caller's context follows from the order equation);
   L2 : every entry whose link is not yet published has its pusher at the link program point (one step from publishing
        it): the waits of the drain (snapshot head, successor link) and of cleanup2 (head) are never stuck. *)
From Coq Require Import ZArith Bool List Lia.
From Verif Require Import Word Bits Fields DqFields Conc Gen_consts Gen_dqstate Lane_fields SLane SLane_proofs SLane_progress
  MainQ MainQ_fields MainQ_inv MainQ_frames MainQ_steps1 MainQ_steps2 MainQ_steps3 MainQ_steps4 MainQ_steps5 MainQ_steps6 MainQ_proofs.
Import ListNotations.
Local Open Scope Z_scope.

(* ------------------------------------------------------------------ what a lane step does to the ghost lists *)
Lemma gstep_started l t l' : gstep l t = Some l' ->
  started l' = started l \/ exists o i mo, pcs l t = PW_run o i mo /\ started l' = i :: started l.
Proof.
  intros B. unfold gstep in B. destruct (pcs l t) eqn:Hpc; try discriminate; break_step B; injection B as <-; lproj;
    try (left; reflexivity).
  right. eexists _, _, _. split; reflexivity.
Qed.

Lemma gstep_started_incl l t l' : gstep l t = Some l' -> incl (started l) (started l').
Proof.
  intros B. destruct (gstep_started l t l' B) as [E|(o & i & mo & _ & E)]; rewrite E; [apply incl_refl | apply incl_tl, incl_refl].
Qed.

Lemma ostep_started l t l' : ostep l t = Some l' -> started l' = started l.
Proof. intros B. unfold ostep in B. destruct (pcs l t); try discriminate. destruct was_empty; [discriminate|]. injection B as <-. reflexivity. Qed.

Lemma begin_started l t c l' : begin l t c = Some l' -> started l' = started l.
Proof.
  intros B. unfold begin in B. destruct (pcs l t); try discriminate. destruct c.
  - destruct ((0 <=? qos) && (qos <? 8)); [|discriminate]. injection B as <-. reflexivity.
  - destruct (0 <? rootq l); [|discriminate]. injection B as <-. reflexivity.
Qed.

(* ------------------------------------------------------------------ J *)
Definition J (s : mst) : Prop := incl (mainran s) (started (lane s)) /\ incl (finished s) (started (lane s)).

Ltac brk B :=
  repeat match type of B with
  | (if ?x then _ else _) = Some _ => destruct x; try discriminate B
  | match ?x with _ => _ end = Some _ => destruct x; try discriminate B
  end.

Lemma J_step s a s' : Inv s -> J s -> mstep_rel s a s' -> J s'.
Proof.
  intros I [J1 J2] H. destruct a as [t c|t|t|t]; destruct H as [V B].
  - (* begins change none of the three lists *)
    assert (E : mainran s' = mainran s /\ finished s' = finished s /\ started (lane s') = started (lane s)).
    { unfold mbegin in B. destruct (pcs (lane s) t); try discriminate B.
      destruct c; try (destruct (begin (lane s) t (CWorker floor)) eqn:BG); destruct (mpcs s t); brk B; try discriminate B;
        apply some_inj in B; rewrite <- B; unfold callback; mproj; lproj;
        repeat match goal with |- context [if ?x then _ else _] => destruct x end; mproj; lproj;
        repeat split; try reflexivity; try (apply (begin_started _ _ _ _ BG)). }
    destruct E as (E1 & E2 & E3). unfold J. rewrite E1, E2, E3. split; assumption.
  - unfold mstep, lane_step in B. destruct (gstep (lane s) t) as [l'|] eqn:GS.
    + pose proof (gstep_started_incl _ _ _ GS) as IS.
      destruct (mpcs s t) eqn:Hpc; brk B; try discriminate B; apply some_inj in B; rewrite <- B; unfold J; mproj; lproj;
        repeat match goal with |- context [if ?x then _ else _] => destruct x end; mproj; lproj;
        try (split; [exact J1 | exact J2]);
        try (split; [eapply incl_tran; [exact J1 | exact IS] | eapply incl_tran; [exact J2 | exact IS]]).
      * (* MB_run *) split; [apply incl_cons; [left; reflexivity | apply incl_tl; exact J1] | apply incl_tl; exact J2].
      * (* MB_incall, asynchronous item *)
        destruct (main_thread s t _ I Hpc eq_refl) as [Et Ec]. pose proof I as (_ & _ & _ & G). rewrite Ec in G. cbn [mclass c_lane] in G.
        destruct G as [r G]. assert (In i (started (lane s))) by (apply (a_runin s r G); rewrite Ec; reflexivity).
        split; [exact J1 | apply incl_cons; assumption].
      * destruct (main_thread s t _ I Hpc eq_refl) as [Et Ec]. pose proof I as (_ & _ & _ & G). rewrite Ec in G. cbn [mclass c_lane] in G.
        destruct G as [r G]. assert (In i (started (lane s))) by (apply (a_runin s r G); rewrite Ec; reflexivity).
        split; [exact J1 | apply incl_cons; assumption].
    + destruct (mpcs s t) eqn:Hpc; brk B; try discriminate B; apply some_inj in B; rewrite <- B; unfold J; mproj; lproj;
        repeat match goal with |- context [if ?x then _ else _] => destruct x end; mproj; lproj;
        try (split; [exact J1 | exact J2]).
      * split; [apply incl_cons; [left; reflexivity | apply incl_tl; exact J1] | apply incl_tl; exact J2].
      * destruct (main_thread s t _ I Hpc eq_refl) as [Et Ec]. pose proof I as (_ & _ & _ & G). rewrite Ec in G. cbn [mclass c_lane] in G.
        destruct G as [r G]. assert (In i (started (lane s))) by (apply (a_runin s r G); rewrite Ec; reflexivity).
        split; [exact J1 | apply incl_cons; assumption].
      * destruct (main_thread s t _ I Hpc eq_refl) as [Et Ec]. pose proof I as (_ & _ & _ & G). rewrite Ec in G. cbn [mclass c_lane] in G.
        destruct G as [r G]. assert (In i (started (lane s))) by (apply (a_runin s r G); rewrite Ec; reflexivity).
        split; [exact J1 | apply incl_cons; assumption].
  - unfold mostep, lane_step in B. destruct (gstep (lane s) t) as [l'|] eqn:GS; destruct (ostep (lane s) t) as [l2|] eqn:OS;
      destruct (mpcs s t); brk B; try discriminate B; apply some_inj in B; rewrite <- B; unfold J; mproj; lproj;
      try (split; [exact J1 | exact J2]);
      try (rewrite (ostep_started _ _ _ OS); split; [exact J1 | exact J2]);
      try (pose proof (gstep_started_incl _ _ _ GS) as IS; split; [eapply incl_tran; [exact J1 | exact IS] | eapply incl_tran; [exact J2 | exact IS]]).
  - unfold mspur in B. destruct (mpcs s t); try discriminate. injection B as <-. split; assumption.
Qed.

Theorem J_reachable m prio rb s : valid_tid m -> 0 <= rb < 2 -> mreach m prio rb s -> J s.
Proof.
  intros Vm Hrb R. induction R as [s0 ->|s a s' R IH H].
  - split; intros x H; contradiction H.
  - apply (J_step s a s'); [exact (Inv_reachable m prio rb s Vm Hrb R) | exact IH | exact H].
Qed.

(* a synchronous caller whose wait is over: its context has been run (started and finished), by the bound thread, and —
   ids being started at most once (C02_mainq_fifo) — exactly once *)
Theorem mainq_sync_ran_once m prio rb s t :
  valid_tid m -> 0 <= rb < 2 -> mreach m prio rb s -> mpcs s t = MS_woken ->
  In (w_item (ws s t)) (started (lane s)) /\ In (w_item (ws s t)) (finished s) /\ In (w_item (ws s t)) (mainran s) /\
  NoDup (started (lane s)).
Proof.
  intros Vm Hrb R Hpc. destruct (mainq_sync_returns_after_run m prio rb Vm Hrb s t R Hpc) as (_ & F & M & _).
  destruct (J_reachable m prio rb s Vm Hrb R) as [J1 J2]. destruct (mainq_fifo m prio rb Vm Hrb s R) as (_ & _ & ND & _).
  split; [apply J1; exact M|]. split; [exact F|]. split; [exact M | exact ND].
Qed.
