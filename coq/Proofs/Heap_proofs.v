(* Heap_proofs.v — theorems about Model/Heap.v (timer double heap of src/event/event.c) for EVERY population and
   EVERY sequence of operations: index arithmetic of the translated parent/left_child/capacity, the sift invariant
   (heap order with one hole + back-pointers), preservation by insert/remove/update, minimum in the min slots,
   stored set = abstract set, needs_program whenever a min slot changes, cell computation of get_slot. *)
From Coq Require Import ZArith List Bool Lia ZifyBool.
From Verif Require Import Word Bits Tactics Gen_consts Gen_timer Heap.
Import ListNotations.
Local Open Scope Z_scope.

Section Arith.
Local Ltac Zify.zify_post_hook ::= Z.div_mod_to_equations.

Lemma heap_id_mod idx : heap_id idx = idx mod 2.
Proof. unfold heap_id, DTH_ID_COUNT. change (2 - 1) with (2 ^ 1 - 1). rewrite land_low by lia. reflexivity. Qed.

Lemma land_even q : 0 <= q < 4294967296 -> Z.land q 4294967294 = 2 * (q / 2).
Proof.
  intros. rewrite (land_mask q 4294967294 31 1) by (try lia; reflexivity).
  change (2 ^ 1) with 2. change (2 ^ 31) with 2147483648. rewrite Z.mod_small; lia.
Qed.

Lemma parent_eq idx : 2 <= idx < 4294967296 ->
  parent idx = 2 * ((idx / 2 - 1) / 2) + idx mod 2.
Proof.
  intros. unfold parent, f_dispatch_timer_heap_parent.
  change (Z.land idx 1) with (heap_id idx). rewrite heap_id_mod.
  rewrite u32_id by lia. rewrite land_even by lia.
  rewrite Z.lor_comm.
  replace (2 * ((idx - 2) / 2 / 2)) with (((idx - 2) / 2 / 2) * 2 ^ 1) by lia.
  rewrite lor_disjoint by (change (2 ^ 1) with 2; lia).
  change (2 ^ 1) with 2. assert (E : (idx - 2) / 2 = idx / 2 - 1) by lia. rewrite E. lia.
Qed.

Lemma left_child_eq idx : 0 <= idx < 2147483647 ->
  left_child idx = 2 * idx + 2 - idx mod 2.
Proof.
  intros. unfold left_child, f_dispatch_timer_heap_left_child.
  change (Z.land idx 1) with (heap_id idx). rewrite heap_id_mod.
  rewrite (u32_id (2 * idx)) by lia. rewrite (u32_id (2 * idx + 2)) by lia. rewrite u32_id by lia. reflexivity.
Qed.

Lemma parent_facts j : 2 <= j < 4294967296 ->
  parent j mod 2 = j mod 2 /\ 0 <= parent j <= j - 2.
Proof. intros. rewrite parent_eq by lia. lia. Qed.

Lemma left_child_facts i : 0 <= i < 2147483646 ->
  left_child i mod 2 = i mod 2 /\ i < left_child i /\ 2 <= left_child i /\
  parent (left_child i) = i /\ parent (left_child i + 2) = i.
Proof.
  intros. rewrite left_child_eq by lia.
  rewrite (parent_eq (2 * i + 2 - i mod 2)), (parent_eq (2 * i + 2 - i mod 2 + 2)) by lia.
  assert (E : i = 2 * (i / 2) + i mod 2) by lia.
  assert (R : i mod 2 = 0 \/ i mod 2 = 1) by lia.
  set (k := i / 2) in *. set (r := i mod 2) in *. clearbody k r. subst i.
  replace (2 * (2 * k + r) + 2 - r) with (r + (2 * k + 1) * 2) by lia.
  replace (r + (2 * k + 1) * 2 + 2) with (r + (2 * k + 2) * 2) by lia.
  rewrite !Z.div_add, !Z.mod_add by lia.
  rewrite (Z.mod_small r), (Z.div_small r) by lia.
  replace (0 + (2 * k + 1) - 1) with (0 + k * 2) by lia.
  replace (0 + (2 * k + 2) - 1) with (1 + k * 2) by lia.
  rewrite !Z.div_add by lia. change (0 / 2) with 0. change (1 / 2) with 0. lia.
Qed.

Lemma parent_children j i : 2 <= j < 2147483647 -> parent j = i ->
  j = left_child i \/ j = left_child i + 2.
Proof.
  intros H E. pose proof (parent_facts j ltac:(lia)) as P. rewrite E in P.
  rewrite left_child_eq by lia. rewrite parent_eq in E by lia.
  assert (Ej : j = 2 * (j / 2) + j mod 2) by lia.
  assert (R : j mod 2 = 0 \/ j mod 2 = 1) by lia.
  destruct P as [P _]. rewrite P.
  set (k := j / 2) in *. set (r := j mod 2) in *. clearbody k r.
  assert (Ek : k - 1 = 2 * ((k - 1) / 2) + (k - 1) mod 2) by lia.
  assert (Rk : (k - 1) mod 2 = 0 \/ (k - 1) mod 2 = 1) by lia.
  set (m := (k - 1) / 2) in *. clearbody m. lia.
Qed.
Lemma even_pos idx : idx mod 2 = 0 -> 0 < idx -> 2 <= idx.
Proof. lia. Qed.
Lemma par0_lt2 e : 0 <= e < 2 -> e mod 2 = 0 -> e = 0.
Proof. lia. Qed.
End Arith.

(* ------------------------------------------------------------------------------------------------ *)
Lemma hs_slot h i t j : h_slot (heap_set h i t) j = if j =? i then t else h_slot h j.
Proof. reflexivity. Qed.
Lemma hs_ent h i t g u :
  h_ent (heap_set h i t) g u = if g =? i mod 2 then (if u =? t then i else h_ent h g u) else h_ent h g u.
Proof. unfold heap_set; simpl. unfold upd2. rewrite heap_id_mod. reflexivity. Qed.
Lemma hs_count h i t : h_count (heap_set h i t) = h_count h.
Proof. reflexivity. Qed.
Lemma hs_np h i t : h_np (heap_set h i t) = if i <? 2 then true else h_np h.
Proof. reflexivity. Qed.

Definition BOUND : Z := 2147483646.

Ltac eqb_cases :=
  repeat match goal with
  | |- context [Z.eqb ?a ?b] => destruct (Z.eqb_spec a b)
  | H : context [Z.eqb ?a ?b] |- _ => destruct (Z.eqb_spec a b)
  end.

Ltac conj_split := match goal with |- _ /\ _ => split; [|conj_split] | _ => idtac end.

Section Sift.
Variable key : Z -> Z -> Z.
Variable S : Z -> Prop.
Variable hid : Z.
Hypothesis Hhid : hid = 0 \/ hid = 1.

Record hole (h : heap) (i dt : Z) : Prop := {
  ho_cnt : 0 <= h_count h < BOUND;
  ho_i : 0 <= i < h_count h /\ i mod 2 = hid;
  ho_dt : S dt;
  ho_fwd : forall j, 0 <= j < h_count h -> j mod 2 = hid -> j <> i ->
           S (h_slot h j) /\ h_slot h j <> dt /\ h_ent h hid (h_slot h j) = j;
  ho_bwd : forall t, S t -> t <> dt ->
           0 <= h_ent h hid t < h_count h /\ h_ent h hid t mod 2 = hid /\ h_ent h hid t <> i /\
           h_slot h (h_ent h hid t) = t;
  ho_ord : forall j, 2 <= j < h_count h -> j mod 2 = hid -> j <> i -> parent j <> i ->
           key hid (h_slot h (parent j)) <= key hid (h_slot h j);
  ho_bridge : forall j, 2 <= i -> 2 <= j < h_count h -> parent j = i ->
           key hid (h_slot h (parent i)) <= key hid (h_slot h j)
}.

Record hinv (h : heap) : Prop := {
  hi_cnt : 0 <= h_count h < BOUND;
  hi_fwd : forall j, 0 <= j < h_count h -> j mod 2 = hid ->
           S (h_slot h j) /\ h_ent h hid (h_slot h j) = j;
  hi_bwd : forall t, S t ->
           0 <= h_ent h hid t < h_count h /\ h_ent h hid t mod 2 = hid /\ h_slot h (h_ent h hid t) = t;
  hi_ord : forall j, 2 <= j < h_count h -> j mod 2 = hid ->
           key hid (h_slot h (parent j)) <= key hid (h_slot h j)
}.

Record fr (h h' : heap) : Prop := {
  fr_count : h_count h' = h_count h;
  fr_segs : h_segs h' = h_segs h;
  fr_maxqos : h_maxqos h' = h_maxqos h;
  fr_other : forall j, j mod 2 <> hid -> h_slot h' j = h_slot h j;
  fr_out : forall j, ~ (0 <= j < h_count h) -> h_slot h' j = h_slot h j;
  fr_ent_other : forall g u, g <> hid -> h_ent h' g u = h_ent h g u;
  fr_ent_out : forall u, ~ S u -> h_ent h' hid u = h_ent h hid u;
  fr_np_mono : h_np h = true -> h_np h' = true;
  fr_np_min : h_np h' = true \/ (h_slot h' 0 = h_slot h 0 /\ h_slot h' 1 = h_slot h 1)
}.

Lemma fr_refl h : fr h h.
Proof. constructor; auto. Qed.

Lemma fr_trans a b c : fr a b -> fr b c -> fr a c.
Proof.
  intros [] []. constructor; try congruence.
  - intros. rewrite fr_other1, fr_other0; auto.
  - intros. rewrite fr_out1, fr_out0; auto; congruence.
  - intros. rewrite fr_ent_other1, fr_ent_other0; auto.
  - intros. rewrite fr_ent_out1, fr_ent_out0; auto.
  - auto.
  - destruct fr_np_min1 as [|[E0 E1]]; auto. destruct fr_np_min0 as [|[F0 F1]]; auto.
    right. split; congruence.
Qed.

Lemma heap_set_fr h i t : 0 <= i < h_count h -> i mod 2 = hid -> S t -> fr h (heap_set h i t).
Proof.
  intros Hi Hp Ht. constructor; try reflexivity.
  - intros j Hj. rewrite hs_slot. eqb_cases; congruence.
  - intros j Hj. rewrite hs_slot. eqb_cases; try reflexivity. subst. lia.
  - intros g u Hg. rewrite hs_ent. eqb_cases; try reflexivity. congruence.
  - intros u Hu. rewrite hs_ent. eqb_cases; try reflexivity. subst. contradiction.
  - rewrite hs_np. destruct (i <? 2); auto.
  - rewrite hs_np, !hs_slot. destruct (Z.ltb_spec i 2); auto. right. eqb_cases; try lia; auto.
Qed.

Definition kids_ge (h : heap) (i dt : Z) : Prop :=
  forall j, 2 <= j < h_count h -> parent j = i -> key hid dt <= key hid (h_slot h j).
Definition par_le (h : heap) (i dt : Z) : Prop :=
  2 <= i -> key hid (h_slot h (parent i)) <= key hid dt.

Lemma hole_up h i dt : hole h i dt -> 2 <= i ->
  key hid dt < key hid (h_slot h (parent i)) ->
  hole (heap_set h i (h_slot h (parent i))) (parent i) dt /\
  kids_ge (heap_set h i (h_slot h (parent i))) (parent i) dt.
Proof.
  intros [Hc [Hi Hp] Hdt Hf Hb Ho Hbr] H2 Hk.
  assert (B : BOUND = 2147483646) by reflexivity.
  pose proof (parent_facts i ltac:(lia)) as [Pp Pr].
  set (p := parent i) in *. set (pdt := h_slot h p) in *.
  destruct (Hf p ltac:(lia) ltac:(lia) ltac:(lia)) as [Sp [Np Ep]]. fold pdt in Sp, Np, Ep.
  split; [constructor|].
  - rewrite hs_count. exact Hc.
  - rewrite hs_count. lia.
  - exact Hdt.
  - intros j Hj Hjp Hjn. rewrite hs_count in Hj. rewrite hs_slot, hs_ent.
    destruct (Z.eqb_spec j i) as [->|Ne].
    + rewrite Hp, Z.eqb_refl, Z.eqb_refl. auto.
    + destruct (Hf j Hj Hjp Ne) as [Sj [Nj Ej]].
      rewrite Hp, Z.eqb_refl. destruct (Z.eqb_spec (h_slot h j) pdt) as [E|]; auto.
      exfalso. rewrite E in Ej. lia.
  - intros t St Nt. rewrite hs_count, hs_slot, !hs_ent. rewrite Hp, Z.eqb_refl.
    destruct (Z.eqb_spec t pdt) as [->|Ne].
    + rewrite Z.eqb_refl. repeat split; try lia.
    + destruct (Hb t St Nt) as [R [Q [N E]]].
      assert (h_ent h hid t <> p) by (intro X; rewrite X in E; fold pdt in E; congruence).
      destruct (Z.eqb_spec (h_ent h hid t) i); try lia; auto.
  - intros j Hj Hjp Hjn Hpn. rewrite hs_count in Hj. rewrite !hs_slot.
    destruct (Z.eqb_spec j i) as [->|Ne]; [fold p in Hpn; congruence|].
    destruct (Z.eqb_spec (parent j) i) as [E|Ne2].
    + apply Hbr; auto.
    + apply Ho; auto.
  - intros j H2p Hj Hpj. rewrite hs_count in Hj. rewrite !hs_slot.
    pose proof (parent_facts p ltac:(lia)) as [Ppp Prp].
    destruct (Z.eqb_spec (parent p) i); try lia.
    pose proof (Ho p ltac:(lia) ltac:(lia) ltac:(lia) ltac:(lia)) as O1. fold pdt in O1.
    destruct (Z.eqb_spec j i) as [->|Ne]; [exact O1|].
    pose proof (parent_facts j ltac:(lia)) as [Ppj Prj]. rewrite Hpj in Ppj, Prj.
    pose proof (Ho j Hj ltac:(congruence) Ne ltac:(lia)) as O2. rewrite Hpj in O2. fold pdt in O2. lia.
  - intros j Hj Hpj. rewrite hs_count in Hj. rewrite hs_slot.
    destruct (Z.eqb_spec j i) as [->|Ne]; [lia|].
    pose proof (parent_facts j ltac:(lia)) as [Ppj Prj]. rewrite Hpj in Ppj, Prj.
    pose proof (Ho j Hj ltac:(congruence) Ne ltac:(lia)) as O2. rewrite Hpj in O2. fold pdt in O2. lia.
Qed.

Lemma sift_up_true dt : forall fuel h i h' i' su',
  sift_up fuel key hid dt h i true = (h', i', su') -> su' = true.
Proof.
  induction fuel as [|f IHf]; intros h i h' i' su' E; cbn [sift_up] in E.
  - inversion E; auto.
  - destruct (i >=? DTH_ID_COUNT); [|inversion E; auto].
    destruct (key hid (h_slot h (parent i)) <=? key hid dt); [inversion E; auto|].
    eapply IHf; eauto.
Qed.

Lemma sift_up_ok dt : forall fuel h i su,
  hole h i dt -> i <= Z.of_nat fuel -> (su = true -> kids_ge h i dt) ->
  forall h' i' su', sift_up fuel key hid dt h i su = (h', i', su') ->
  hole h' i' dt /\ fr h h' /\ par_le h' i' dt /\ (su' = true -> kids_ge h' i' dt) /\
  (su' = false -> h' = h /\ i' = i).
Proof.
  induction fuel as [|fuel IH]; intros h i su Hh Hf Hs h' i' su' E; simpl in E.
  - inversion E; subst. conj_split; auto using fr_refl. intro. destruct Hh as [_ [? _] _ _ _ _ _]. lia.
  - unfold DTH_ID_COUNT in E. destruct (Z.geb_spec i 2) as [G|G].
    + destruct (Z.leb_spec (key hid (h_slot h (parent i))) (key hid dt)) as [L|L].
      * inversion E; subst. conj_split; auto using fr_refl. intro; exact L.
      * destruct (hole_up h i dt Hh G L) as [Hh2 Hk2].
        assert (B : BOUND = 2147483646) by reflexivity.
        pose proof Hh as [Hc [Hi Hp] Hdt Hfw _ _ _].
        pose proof (parent_facts i ltac:(lia)) as [Pp Pr].
        destruct (Hfw (parent i) ltac:(lia) ltac:(lia) ltac:(lia)) as [Sp _].
        specialize (IH _ _ true Hh2 ltac:(lia) (fun _ => Hk2) _ _ _ E).
        destruct IH as [A [F [P [K N]]]]. conj_split; auto.
        -- eapply fr_trans; [|exact F]. apply heap_set_fr; auto.
        -- intro X. destruct (N X) as [X1 X2].
           exfalso. apply sift_up_true in E. congruence.
    + inversion E; subst. conj_split; auto using fr_refl. intro; lia.
Qed.

Lemma place_ok h i dt : hole h i dt -> par_le h i dt -> kids_ge h i dt ->
  hinv (heap_set h i dt) /\ fr h (heap_set h i dt).
Proof.
  intros [Hc [Hi Hp] Hdt Hf Hb Ho Hbr] Hpl Hkg.
  assert (B : BOUND = 2147483646) by reflexivity.
  split; [constructor|apply heap_set_fr; auto].
  - rewrite hs_count. exact Hc.
  - intros j Hj Hjp. rewrite hs_count in Hj. rewrite hs_slot, hs_ent, Hp, Z.eqb_refl.
    destruct (Z.eqb_spec j i) as [->|Ne].
    + rewrite Z.eqb_refl. auto.
    + destruct (Hf j Hj Hjp Ne) as [Sj [Nj Ej]]. destruct (Z.eqb_spec (h_slot h j) dt); [contradiction|auto].
  - intros t St. rewrite hs_count, hs_slot, !hs_ent, Hp, Z.eqb_refl.
    destruct (Z.eqb_spec t dt) as [->|Ne].
    + rewrite Z.eqb_refl. auto.
    + destruct (Hb t St Ne) as [R [Q [N E]]]. destruct (Z.eqb_spec (h_ent h hid t) i); [contradiction|auto].
  - intros j Hj Hjp. rewrite hs_count in Hj. rewrite !hs_slot.
    pose proof (parent_facts j ltac:(lia)) as [Ppj Prj].
    destruct (Z.eqb_spec j i) as [->|Ne].
    + destruct (Z.eqb_spec (parent i) i); [lia|]. apply Hpl; lia.
    + destruct (Z.eqb_spec (parent j) i) as [E|Ne2].
      * apply Hkg; auto.
      * apply Ho; auto.
Qed.

Lemma hole_down h i dt c : hole h i dt -> par_le h i dt ->
  2 <= c < h_count h -> parent c = i ->
  (forall j, 2 <= j < h_count h -> parent j = i -> key hid (h_slot h c) <= key hid (h_slot h j)) ->
  key hid (h_slot h c) < key hid dt ->
  hole (heap_set h i (h_slot h c)) c dt /\ par_le (heap_set h i (h_slot h c)) c dt.
Proof.
  intros [Hc [Hi Hp] Hdt Hf Hb Ho Hbr] Hpl Hcr Hpc Hmin Hk.
  assert (B : BOUND = 2147483646) by reflexivity.
  pose proof (parent_facts c ltac:(lia)) as [Pp Pr]. rewrite Hpc in Pp, Pr.
  set (cdt := h_slot h c) in *.
  destruct (Hf c ltac:(lia) ltac:(lia) ltac:(lia)) as [Sc [Nc Ec]]. fold cdt in Sc, Nc, Ec.
  split; [constructor|].
  - rewrite hs_count. exact Hc.
  - rewrite hs_count. lia.
  - exact Hdt.
  - intros j Hj Hjp Hjn. rewrite hs_count in Hj. rewrite hs_slot, hs_ent, Hp, Z.eqb_refl.
    destruct (Z.eqb_spec j i) as [->|Ne].
    + rewrite Z.eqb_refl. auto.
    + destruct (Hf j Hj Hjp Ne) as [Sj [Nj Ej]].
      destruct (Z.eqb_spec (h_slot h j) cdt) as [E|]; auto. exfalso. rewrite E in Ej. lia.
  - intros t St Nt. rewrite hs_count, hs_slot, !hs_ent, Hp, Z.eqb_refl.
    destruct (Z.eqb_spec t cdt) as [->|Ne].
    + rewrite Z.eqb_refl. repeat split; try lia.
    + destruct (Hb t St Nt) as [R [Q [N E]]].
      assert (h_ent h hid t <> c) by (intro X; rewrite X in E; fold cdt in E; congruence).
      destruct (Z.eqb_spec (h_ent h hid t) i); try lia; auto.
  - intros j Hj Hjp Hjn Hpn. rewrite hs_count in Hj. rewrite !hs_slot.
    pose proof (parent_facts j ltac:(lia)) as [Ppj Prj].
    destruct (Z.eqb_spec j i) as [->|Ne].
    + destruct (Z.eqb_spec (parent i) i); [lia|]. apply Hbr; auto; lia.
    + destruct (Z.eqb_spec (parent j) i) as [E|Ne2].
      * apply Hmin; auto.
      * apply Ho; auto.
  - intros j H2c Hj Hpj. rewrite hs_count in Hj. rewrite !hs_slot.
    pose proof (parent_facts j ltac:(lia)) as [Ppj Prj]. rewrite Hpj in Ppj, Prj.
    rewrite Hpc, Z.eqb_refl. destruct (Z.eqb_spec j i); [lia|].
    pose proof (Ho j Hj ltac:(congruence) ltac:(lia) ltac:(lia)) as O. rewrite Hpj in O. exact O.
  - intros _. rewrite hs_slot, Hpc, Z.eqb_refl. lia.
Qed.

Lemma sift_down_ok dt : forall fuel h i,
  hole h i dt -> par_le h i dt -> h_count h - i <= Z.of_nat fuel ->
  forall h' i', sift_down fuel key hid dt h i = (h', i') ->
  hole h' i' dt /\ fr h h' /\ par_le h' i' dt /\ kids_ge h' i' dt.
Proof.
  induction fuel as [|fuel IH]; intros h i Hh Hpl Hf h' i' E.
  - exfalso. destruct Hh as [_ [? _] _ _ _ _ _]. lia.
  - simpl in E. unfold DTH_ID_COUNT in E.
    assert (B : BOUND = 2147483646) by reflexivity.
    pose proof Hh as [Hc [Hi Hp] Hdt Hfw _ _ _].
    pose proof (left_child_facts i ltac:(lia)) as [Lp [Lg [L2 [Lpa Lpb]]]].
    remember (left_child i) as c eqn:Heqc.
    destruct (Z.ltb_spec c (h_count h)) as [Lc|Lc].
    + rewrite (u32_id (c + 2)) in E by lia.
      (* the smaller child *)
      assert (exists c1, 2 <= c1 < h_count h /\ parent c1 = i /\
                (forall j, 2 <= j < h_count h -> parent j = i -> key hid (h_slot h c1) <= key hid (h_slot h j)) /\
                (if key hid dt <=? key hid (h_slot h c1) then (h, i)
                 else sift_down fuel key hid dt (heap_set h i (h_slot h c1)) c1) = (h', i')) as [c1 [R1 [P1 [M1 E1]]]].
      { destruct (Z.ltb_spec (c + 2) (h_count h)) as [Lr|Lr].
        - destruct (Z.gtb_spec (key hid (h_slot h c)) (key hid (h_slot h (c + 2)))) as [G|G].
          + exists (c + 2). repeat split; auto; try lia.
            intros j Hj Hpj. destruct (parent_children j i ltac:(lia) Hpj) as [Ej|Ej]; rewrite <- Heqc in Ej; subst j; lia.
          + exists c. repeat split; auto; try lia.
            intros j Hj Hpj. destruct (parent_children j i ltac:(lia) Hpj) as [Ej|Ej]; rewrite <- Heqc in Ej; subst j; lia.
        - exists c. repeat split; auto; try lia.
          intros j Hj Hpj. destruct (parent_children j i ltac:(lia) Hpj) as [Ej|Ej]; rewrite <- Heqc in Ej; subst j; lia. }
      destruct (Z.leb_spec (key hid dt) (key hid (h_slot h c1))) as [L|L].
      * inversion E1; subst. conj_split; auto using fr_refl.
        intros j Hj Hpj. specialize (M1 j Hj Hpj). lia.
      * destruct (hole_down h i dt c1 Hh Hpl R1 P1 M1 L) as [Hh2 Hp2].
        pose proof (parent_facts c1 ltac:(lia)) as [Pp1 Pr1]. rewrite P1 in Pp1, Pr1.
        destruct (Hfw c1 ltac:(lia) ltac:(congruence) ltac:(lia)) as [Sc _].
        specialize (IH _ _ Hh2 Hp2 ltac:(rewrite hs_count; lia) _ _ E1).
        destruct IH as [A [F [P K]]]. conj_split; auto.
        eapply fr_trans; [|exact F]. apply heap_set_fr; auto.
    + inversion E; subst h' i'. conj_split; auto using fr_refl.
      intros j Hj Hpj. destruct (parent_children j i ltac:(lia) Hpj) as [Ej|Ej]; rewrite <- Heqc in Ej; subst j; lia.
Qed.

Lemma resift_ok h i dt : hole h i dt ->
  hinv (resift key h dt i) /\ fr h (resift key h dt i).
Proof.
  intros Hh. unfold resift.
  pose proof Hh as [Hc [Hi Hp] _ _ _ _ _].
  rewrite heap_id_mod, Hp.
  destruct (sift_up (Z.to_nat i) key hid dt h i false) as [[h1 i1] su] eqn:E1.
  assert (Hfu : i <= Z.of_nat (Z.to_nat i)) by (rewrite Z2Nat.id; lia).
  assert (Hfd : h_count h - i <= Z.of_nat (Z.to_nat (h_count h))) by (rewrite Z2Nat.id; lia).
  assert (Hs : false = true -> kids_ge h i dt) by discriminate.
  destruct (sift_up_ok dt _ _ _ _ Hh Hfu Hs _ _ _ E1) as [H1 [F1 [P1 [K1 N1]]]].
  destruct su.
  - destruct (place_ok h1 i1 dt H1 P1 (K1 eq_refl)) as [A F]. split; auto. eapply fr_trans; eauto.
  - destruct (N1 eq_refl) as [-> ->].
    destruct (sift_down (Z.to_nat (h_count h)) key hid dt h i) as [h2 i2] eqn:E2.
    destruct (sift_down_ok dt _ _ _ Hh P1 Hfd _ _ E2) as [H2 [F2 [P2 K2]]].
    destruct (place_ok h2 i2 dt H2 P2 K2) as [A F]. split; auto. eapply fr_trans; eauto.
Qed.
(* if the sifted timer ends in a min slot, needs_program is set *)
Lemma resift_np h i dt : hole h i dt ->
  h_ent (resift key h dt i) hid dt < 2 -> h_np (resift key h dt i) = true.
Proof.
  intros Hh. unfold resift. pose proof Hh as [Hc [Hi Hp] _ _ _ _ _].
  rewrite heap_id_mod, Hp.
  assert (Hfu : i <= Z.of_nat (Z.to_nat i)) by (rewrite Z2Nat.id; lia).
  assert (Hs : false = true -> kids_ge h i dt) by discriminate.
  destruct (sift_up (Z.to_nat i) key hid dt h i false) as [[h1 i1] su] eqn:E1.
  destruct (sift_up_ok dt _ _ _ _ Hh Hfu Hs _ _ _ E1) as [H1 [F1 [P1 [K1 N1]]]].
  assert (Fin : forall h2 i2, hole h2 i2 dt ->
            h_ent (heap_set h2 i2 dt) hid dt < 2 -> h_np (heap_set h2 i2 dt) = true).
  { intros h2 i2 [_ [Hi2 Hp2] _ _ _ _ _]. rewrite hs_ent, hs_np, Hp2, !Z.eqb_refl.
    intros L. destruct (Z.ltb_spec i2 2); auto. lia. }
  destruct su; [apply Fin; auto|].
  destruct (N1 eq_refl) as [-> ->].
  destruct (sift_down (Z.to_nat (h_count h)) key hid dt h i) as [h2 i2] eqn:E2.
  assert (Hfd : h_count h - i <= Z.of_nat (Z.to_nat (h_count h))) by (rewrite Z2Nat.id; lia).
  destruct (sift_down_ok dt _ _ _ Hh P1 Hfd _ _ E2) as [H2 _].
  apply Fin; auto.
Qed.
End Sift.

(* ------------------------------------------------------------------------------------------------ *)
(* transfer, construction of hole states, minimum *)
Section Transfer.
Variable key : Z -> Z -> Z.

Lemma hinv_ext (S S' : Z -> Prop) hid key' h h' :
  hinv key S hid h -> h_count h' = h_count h ->
  (forall j, 0 <= j < h_count h -> j mod 2 = hid -> h_slot h' j = h_slot h j) ->
  (forall u, S u -> h_ent h' hid u = h_ent h hid u) ->
  (forall u, S u <-> S' u) ->
  (forall u, S u -> key' hid u = key hid u) ->
  hinv key' S' hid h'.
Proof.
  intros [Hcn Hf Hb Ho] Hc Hs He HS Hk. assert (B : BOUND = 2147483646) by reflexivity. constructor.
  - lia.
  - intros j Hj Hp. rewrite Hc in Hj. rewrite Hs by auto. destruct (Hf j Hj Hp) as [A A2].
    split; [apply HS; auto|]. rewrite He; auto.
  - intros t St. apply HS in St. destruct (Hb t St) as [A [A2 C]]. rewrite Hc, He by auto.
    rewrite Hs by auto. auto.
  - intros j Hj Hp. rewrite Hc in Hj. pose proof (parent_facts j ltac:(lia)) as [Pp Pr].
    rewrite !Hs by (auto; try lia; congruence).
    destruct (Hf j ltac:(lia) Hp) as [A _]. destruct (Hf (parent j) ltac:(lia) ltac:(congruence)) as [A' _].
    rewrite !Hk by auto. apply Ho; auto.
Qed.

Lemma fr_hinv_other (S : Z -> Prop) g hid h h' :
  fr S g h h' -> g <> hid -> hinv key S hid h -> hinv key S hid h'.
Proof.
  intros F Ng H. eapply hinv_ext; eauto.
  - apply F.
  - intros. apply (fr_other _ _ _ _ F). congruence.
  - intros. apply (fr_ent_other _ _ _ _ F). congruence.
  - tauto.
Qed.

(* the timer dt is already at i = dt_heap_entry[hid]; its key (only) changed *)
Lemma hole_of_update (S : Z -> Prop) hid key' h dt :
  hid = 0 \/ hid = 1 ->
  hinv key S hid h -> S dt -> 0 <= h_count h < BOUND ->
  (forall u, u <> dt -> key' hid u = key hid u) ->
  hole key' S hid h (h_ent h hid dt) dt.
Proof.
  intros Hhid [Hcn Hf Hb Ho] Sdt Hc Hk.
  assert (B : BOUND = 2147483646) by reflexivity.
  destruct (Hb dt Sdt) as [Ri [Pi Ei]]. set (i := h_ent h hid dt) in *.
  constructor; auto.
  - intros j Hj Hp Ne. destruct (Hf j Hj Hp) as [A E]. repeat split; auto.
    intro X. rewrite X in E. fold i in E. lia.
  - intros t St Nt. destruct (Hb t St) as [R [P E]]. repeat split; auto; try lia.
    intro X. rewrite X in E. congruence.
  - intros j Hj Hp Ne Nep. pose proof (parent_facts j ltac:(lia)) as [Pp Pr].
    destruct (Hf j ltac:(lia) Hp) as [_ E1]. destruct (Hf (parent j) ltac:(lia) ltac:(congruence)) as [_ E2].
    rewrite !Hk; [apply Ho; auto| |].
    + intro X. rewrite X in E1. fold i in E1. lia.
    + intro X. rewrite X in E2. fold i in E2. lia.
  - intros j H2 Hj Hpj. pose proof (parent_facts j ltac:(lia)) as [Pp Pr]. rewrite Hpj in Pp, Pr.
    pose proof (parent_facts i ltac:(lia)) as [Ppi Pri].
    destruct (Hf j ltac:(lia) ltac:(congruence)) as [_ E1].
    destruct (Hf (parent i) ltac:(lia) ltac:(congruence)) as [_ E2].
    rewrite !Hk.
    + pose proof (Ho j Hj ltac:(congruence)) as O1. rewrite Hpj in O1.
      pose proof (Ho i ltac:(lia) Pi) as O2. lia.
    + intro X. rewrite X in E1. fold i in E1. lia.
    + intro X. rewrite X in E2. fold i in E2. lia.
Qed.

(* the heap grew by one position per parity (insert): hole at the new last position *)
Lemma hole_of_append (S : Z -> Prop) hid h0 h dt :
  hid = 0 \/ hid = 1 ->
  hinv key S hid h0 -> h_count h = h_count h0 + 2 -> 0 <= h_count h0 -> h_count h < BOUND ->
  h_count h0 mod 2 = 0 ->
  (forall j, 0 <= j < h_count h0 -> j mod 2 = hid -> h_slot h j = h_slot h0 j) ->
  (forall u, S u -> h_ent h hid u = h_ent h0 hid u) ->
  ~ S dt ->
  hole key (fun u => u = dt \/ S u) hid h (h_count h0 + hid) dt.
Proof.
  intros Hhid [Hcn Hf Hb Ho] Hc H0 Hbd Hev Hs He Nd.
  assert (B : BOUND = 2147483646) by reflexivity.
  assert (Hpar : (h_count h0 + hid) mod 2 = hid).
  { destruct Hhid; subst hid; [rewrite Z.add_0_r; auto|].
    rewrite <- Z.add_mod_idemp_l, Hev by lia. reflexivity. }
  assert (Hlt : forall j, 0 <= j < h_count h -> j mod 2 = hid -> j <> h_count h0 + hid -> j < h_count h0).
  { intros j Hj Hp Ne. rewrite Hc in Hj.
    destruct (Z.lt_ge_cases j (h_count h0)); auto. exfalso.
    assert (j = h_count h0 \/ j = h_count h0 + 1) as [X|X] by lia; subst j.
    - rewrite Hev in Hp. subst hid. lia.
    - rewrite <- Z.add_mod_idemp_l, Hev in Hp by lia. change ((0 + 1) mod 2) with 1 in Hp. subst hid. lia. }
  constructor; auto; try lia.
  - intros j Hj Hp Ne. pose proof (Hlt j Hj Hp Ne) as L. rewrite Hs by (auto; lia).
    destruct (Hf j ltac:(lia) Hp) as [A E]. repeat split; auto.
    + intro X. rewrite X in A. contradiction.
    + rewrite He; auto.
  - intros t [->|St] Nt; [congruence|]. destruct (Hb t St) as [R [P E]]. rewrite He by auto.
    repeat split; auto; try lia. rewrite Hs; auto.
  - intros j Hj Hp Ne Nep. pose proof (Hlt j ltac:(lia) Hp Ne) as L.
    pose proof (parent_facts j ltac:(lia)) as [Pp Pr].
    rewrite !Hs by (auto; try lia; congruence). apply Ho; auto; lia.
  - intros j H2 Hj Hpj. exfalso. pose proof (parent_facts j ltac:(lia)) as [Pp Pr]. lia.
Qed.

(* the last position (per parity) was cut off (remove): either it held dt itself, or its occupant `last` goes
   to the hole left by dt *)
Lemma hinv_of_cut (S : Z -> Prop) hid hr h dt idx :
  hid = 0 \/ hid = 1 ->
  hinv key S hid hr -> h_count hr = idx + 2 -> h_count h = idx -> idx mod 2 = 0 -> 0 <= idx ->
  (forall j, 0 <= j < idx -> j mod 2 = hid -> h_slot h j = h_slot hr j) ->
  (forall u, S u -> h_ent h hid u = h_ent hr hid u) ->
  S dt -> h_slot hr (idx + hid) = dt ->
  hinv key (fun u => S u /\ u <> dt) hid h.
Proof.
  intros Hhid [Hcn Hf Hb Ho] Hcr Hc Hev H0 Hs He Sdt Hl.
  assert (B : BOUND = 2147483646) by reflexivity.
  assert (Hpar : (idx + hid) mod 2 = hid).
  { destruct Hhid; subst hid; [rewrite Z.add_0_r; auto|].
    rewrite <- Z.add_mod_idemp_l, Hev by lia. reflexivity. }
  destruct (Hf (idx + hid) ltac:(lia) Hpar) as [_ El]. rewrite Hl in El.
  constructor.
  - lia.
  - intros j Hj Hp. rewrite Hc in Hj. rewrite Hs by auto. destruct (Hf j ltac:(lia) Hp) as [A E].
    assert (h_slot hr j <> dt) by (intro X; rewrite X in E; lia).
    repeat split; auto. rewrite He; auto.
  - intros t [St Nt]. destruct (Hb t St) as [R [P E]]. rewrite Hc, He by auto.
    assert (h_ent hr hid t <> idx + hid) by (intro X; rewrite X in E; congruence).
    assert (h_ent hr hid t < idx).
    { destruct (Z.lt_ge_cases (h_ent hr hid t) idx); auto. exfalso.
      assert (h_ent hr hid t = idx \/ h_ent hr hid t = idx + 1) as [X|X] by lia.
      - rewrite X, Hev in P. subst hid. lia.
      - rewrite X in P. rewrite <- Z.add_mod_idemp_l, Hev in P by lia. change ((0 + 1) mod 2) with 1 in P.
        subst hid. lia. }
    repeat split; auto; try lia. rewrite Hs; auto; lia.
  - intros j Hj Hp. rewrite Hc in Hj. pose proof (parent_facts j ltac:(lia)) as [Pp Pr].
    rewrite !Hs by (auto; try lia; congruence). apply Ho; auto; lia.
Qed.

Lemma hole_of_cut (S : Z -> Prop) hid hr h dt idx :
  hid = 0 \/ hid = 1 ->
  hinv key S hid hr -> h_count hr = idx + 2 -> h_count h = idx -> idx mod 2 = 0 -> 0 <= idx -> idx + 2 < BOUND ->
  (forall j, 0 <= j < idx -> j mod 2 = hid -> h_slot h j = h_slot hr j) ->
  (forall u, S u -> h_ent h hid u = h_ent hr hid u) ->
  S dt -> h_slot hr (idx + hid) <> dt ->
  hole key (fun u => S u /\ u <> dt) hid h (h_ent hr hid dt) (h_slot hr (idx + hid)).
Proof.
  intros Hhid [Hcn Hf Hb Ho] Hcr Hc Hev H0 Hbd Hs He Sdt Hl.
  assert (B : BOUND = 2147483646) by reflexivity.
  assert (Hpar : (idx + hid) mod 2 = hid).
  { destruct Hhid; subst hid; [rewrite Z.add_0_r; auto|].
    rewrite <- Z.add_mod_idemp_l, Hev by lia. reflexivity. }
  assert (Hlt : forall e, 0 <= e < idx + 2 -> e mod 2 = hid -> e <> idx + hid -> e < idx).
  { intros e He' Hp Ne. destruct (Z.lt_ge_cases e idx); auto. exfalso.
    assert (e = idx \/ e = idx + 1) as [X|X] by lia; subst e.
    - rewrite Hev in Hp. subst hid. lia.
    - rewrite <- Z.add_mod_idemp_l, Hev in Hp by lia. change ((0 + 1) mod 2) with 1 in Hp. subst hid. lia. }
  set (last := h_slot hr (idx + hid)) in *.
  destruct (Hf (idx + hid) ltac:(lia) Hpar) as [Sl El]. fold last in Sl, El.
  destruct (Hb dt Sdt) as [Ri [Pi Ei]]. set (i := h_ent hr hid dt) in *.
  assert (Ni : i <> idx + hid) by (intro X; rewrite X in Ei; fold last in Ei; congruence).
  pose proof (Hlt i ltac:(lia) Pi Ni) as Li.
  constructor; auto; try lia.
  - intros j Hj Hp Ne. rewrite Hc in Hj. rewrite Hs by auto. destruct (Hf j ltac:(lia) Hp) as [A E].
    assert (h_slot hr j <> dt) by (intro X; rewrite X in E; fold i in E; lia).
    assert (h_slot hr j <> last) by (intro X; rewrite X in E; lia).
    repeat split; auto. rewrite He; auto.
  - intros t [St Nt] Ntl. destruct (Hb t St) as [R [P E]]. rewrite Hc, He by auto.
    assert (h_ent hr hid t <> idx + hid) by (intro X; rewrite X in E; fold last in E; congruence).
    pose proof (Hlt (h_ent hr hid t) ltac:(lia) P H) as L.
    assert (h_ent hr hid t <> i) by (intro X; rewrite X in E; congruence).
    repeat split; auto; try lia. rewrite Hs; auto; lia.
  - intros j Hj Hp Ne Nep. rewrite Hc in Hj. pose proof (parent_facts j ltac:(lia)) as [Pp Pr].
    rewrite !Hs by (auto; try lia; congruence). apply Ho; auto; lia.
  - intros j H2 Hj Hpj. rewrite Hc in Hj. pose proof (parent_facts j ltac:(lia)) as [Pp Pr]. rewrite Hpj in Pp, Pr.
    pose proof (parent_facts i ltac:(lia)) as [Ppi Pri].
    rewrite !Hs by (auto; try lia; congruence).
    pose proof (Ho j ltac:(lia) ltac:(congruence)) as O1. rewrite Hpj in O1.
    pose proof (Ho i ltac:(lia) Pi) as O2. lia.
Qed.

(* slot hid holds a minimum by key hid *)
Lemma hinv_min (S : Z -> Prop) hid h :
  hid = 0 \/ hid = 1 -> hinv key S hid h -> 0 <= h_count h < BOUND ->
  forall t, S t -> S (h_slot h hid) /\ key hid (h_slot h hid) <= key hid t.
Proof.
  intros Hhid [Hcn Hf Hb Ho] Hc t St.
  assert (B : BOUND = 2147483646) by reflexivity.
  assert (M : forall n, 0 <= n -> forall j, 0 <= j <= n -> j < h_count h -> j mod 2 = hid ->
              key hid (h_slot h hid) <= key hid (h_slot h j)).
  { intros n Hn. pattern n. apply natlike_ind; auto.
    - intros j Hj _ Hp. assert (j = 0) by lia. subst j. change (0 mod 2) with 0 in Hp. subst hid. lia.
    - intros x Hx IH j Hj Hjc Hp. destruct (Z.lt_ge_cases j 2) as [L|G].
      + assert (j = hid) by (destruct Hhid; subst hid; assert (j = 0 \/ j = 1) as [|] by lia; subst j;
                               try reflexivity; discriminate).
        subst j. lia.
      + pose proof (parent_facts j ltac:(lia)) as [Pp Pr].
        pose proof (IH (parent j) ltac:(lia) ltac:(lia) ltac:(congruence)).
        pose proof (Ho j ltac:(lia) Hp). lia. }
  destruct (Hb t St) as [R [P E]].
  assert (Hh : 0 <= hid < h_count h /\ hid mod 2 = hid).
  { destruct Hhid; subst hid; split; try reflexivity; try lia.
    destruct (Z.eq_dec (h_ent h 1 t) 0) as [X|X]; [rewrite X in P; discriminate|lia]. }
  split.
  - apply Hf; tauto.
  - pose proof (M (h_ent h hid t) ltac:(lia) (h_ent h hid t) ltac:(lia) ltac:(lia) P) as Q. rewrite E in Q. exact Q.
Qed.
End Transfer.

(* ------------------------------------------------------------------------------------------------ *)
(* segment accounting: facts about the translated capacity function, by a sweep over the 30 possible segment
   counts (dth_segments <= 29 is part of the invariant: capacity 29 = 2^31 - 26 slots) *)
Lemma range_sweep (P : Z -> bool) n : forallb P (zrange n) = true -> forall s, 0 <= s < n -> P s = true.
Proof.
  intros H s Hs. rewrite forallb_forall in H. apply H. unfold zrange. apply in_map_iff.
  exists (Z.to_nat s). split; [lia|]. apply in_seq. lia.
Qed.

Definition CAPMAX : Z := 2147483622.

Lemma cap_facts s : 0 <= s < 30 ->
  2 <= capacity s <= CAPMAX /\ (s = 29 \/ capacity s + 2 <= capacity (s + 1)) /\ (s = 29 \/ capacity s < CAPMAX - 1) /\ (s <> 29 \/ capacity s = CAPMAX).
Proof.
  intros Hs.
  pose proof (range_sweep (fun s => (2 <=? capacity s) && (capacity s <=? CAPMAX) &&
                                    ((s =? 29) || (capacity s + 2 <=? capacity (s + 1))) &&
                                    ((s =? 29) || (capacity s <? CAPMAX - 1)) &&
                                    (negb (s =? 29) || (capacity s =? CAPMAX))) 30 ltac:(vm_compute; reflexivity) s Hs) as H.
  cbv beta in H. lia.
Qed.

Definition seg_ok (h : heap) : Prop :=
  0 <= h_segs h <= 29 /\ h_count h <= capacity (h_segs h) /\
  (h_segs h = 0 \/ capacity (h_segs h - 1) < h_count h).

Record Inv (key : Z -> Z -> Z) (S : Z -> Prop) (h : heap) : Prop := {
  iv_cnt : 0 <= h_count h <= CAPMAX /\ h_count h mod 2 = 0;
  iv_null : ~ S 0;
  iv_h0 : hinv key S 0 h;
  iv_h1 : hinv key S 1 h;
  iv_zero : forall j, ~ (0 <= j < h_count h) -> h_slot h j = 0;
  iv_seg : seg_ok h
}.

(* what an operation may do to needs_program and to the two min slots *)
Definition np_ok (h h' : heap) : Prop :=
  (h_np h = true -> h_np h' = true) /\
  (h_np h' = true \/ (h_slot h' 0 = h_slot h 0 /\ h_slot h' 1 = h_slot h 1)).

Lemma np_ok_trans a b c : np_ok a b -> np_ok b c -> np_ok a c.
Proof. intros [A1 A2] [B1 B2]. split; auto. destruct B2 as [|[]]; auto. destruct A2 as [|[]]; auto. right; split; congruence. Qed.
Lemma fr_np_ok S hid h h' : fr S hid h h' -> np_ok h h'.
Proof. intros F. split; apply F. Qed.

Lemma hinv_empty key S hid h : hinv key S hid h -> h_count h = 0 -> forall t, ~ S t.
Proof. intros H E t St. destruct (hi_bwd _ _ _ _ H t St) as [R _]. lia. Qed.

Section Ops.
Variable key : Z -> Z -> Z.

Theorem update_inv S h dt key0 :
  Inv key0 S h -> S dt -> (forall g u, u <> dt -> key g u = key0 g u) ->
  Inv key S (update key h dt) /\ np_ok h (update key h dt) /\
  (forall g u, ~ S u -> h_ent (update key h dt) g u = h_ent h g u) /\
  (h_np (update key h dt) = true \/
   (h_slot (update key h dt) 0 = h_slot h 0 /\ h_slot (update key h dt) 0 <> dt)).
Proof.
  intros [[Hc Hev] Hn H0 H1 Hz Hs] Sdt Hk. unfold update, DTH_TARGET_ID, DTH_DEADLINE_ID.
  assert (B : BOUND = 2147483646) by reflexivity. assert (CM : CAPMAX = 2147483622) by reflexivity.
  pose proof (hole_of_update key0 S 0 key h dt (or_introl eq_refl) H0 Sdt ltac:(lia) (fun u Hu => Hk 0 u Hu)) as Ho0.
  destruct (resift_ok key S 0 (or_introl eq_refl) _ _ _ Ho0) as [I0 F0].
  set (h1 := resift key h dt (h_ent h 0 dt)) in *.
  assert (I1' : hinv key0 S 1 h1) by (eapply fr_hinv_other; eauto; lia).
  pose proof (hole_of_update key0 S 1 key h1 dt (or_intror eq_refl) I1' Sdt
                ltac:(rewrite (fr_count _ _ _ _ F0); lia) (fun u Hu => Hk 1 u Hu)) as Ho1.
  destruct (resift_ok key S 1 (or_intror eq_refl) _ _ _ Ho1) as [I1 F1].
  set (h2 := resift key h1 dt (h_ent h1 1 dt)) in *.
  assert (C1 : h_count h1 = h_count h) by apply F0. assert (C2 : h_count h2 = h_count h1) by apply F1.
  assert (NPO : np_ok h h2) by (eapply np_ok_trans; eapply fr_np_ok; eauto).
  assert (TCH : h_np h2 = true \/ (h_slot h2 0 = h_slot h 0 /\ h_slot h2 0 <> dt)).
  { destruct NPO as [_ [X|[X0 _]]]; auto.
    destruct (Z.eq_dec (h_slot h2 0) dt) as [E|E]; [left|right; auto].
    assert (E1 : h_slot h1 0 = dt) by (rewrite <- E; symmetry; apply (fr_other _ _ _ _ F1); discriminate).
    destruct (hi_bwd _ _ _ _ H0 dt Sdt) as [R0 _].
    destruct (hi_fwd _ _ _ _ I0 0 ltac:(lia) eq_refl) as [_ E0]. rewrite E1 in E0.
    apply (fr_np_mono _ _ _ _ F1). apply (resift_np key S 0 (or_introl eq_refl) _ _ _ Ho0). fold h1. lia. }
  split; [constructor|split; [|split]].
  - rewrite C2, C1. auto.
  - auto.
  - eapply fr_hinv_other; eauto; lia.
  - auto.
  - intros j Hj. rewrite C2, C1 in Hj. rewrite (fr_out _ _ _ _ F1), (fr_out _ _ _ _ F0) by (rewrite ?C1; exact Hj).
    apply Hz; exact Hj.
  - unfold seg_ok. rewrite (fr_segs _ _ _ _ F1), (fr_segs _ _ _ _ F0), C2, C1. exact Hs.
  - eapply np_ok_trans; eapply fr_np_ok; eauto.
  - intros g u Nu. destruct (Z.eq_dec g 1) as [->|N1].
    + rewrite (fr_ent_out _ _ _ _ F1) by auto. apply (fr_ent_other _ _ _ _ F0). lia.
    + rewrite (fr_ent_other _ _ _ _ F1) by auto. destruct (Z.eq_dec g 0) as [->|N0].
      * apply (fr_ent_out _ _ _ _ F0); auto.
      * apply (fr_ent_other _ _ _ _ F0); auto.
  - exact TCH.
Qed.

Theorem insert_inv S h dt qos :
  Inv key S h -> ~ S dt -> dt <> 0 -> h_count h + 2 <= CAPMAX ->
  let h' := insert key h dt qos in
  Inv key (fun u => u = dt \/ S u) h' /\ h_count h' = h_count h + 2 /\ np_ok h h' /\
  (forall g u, ~ S u -> u <> dt -> h_ent h' g u = h_ent h g u) /\
  (h_np h' = true \/ (h_slot h' 0 = h_slot h 0 /\ h_slot h' 0 <> dt)).
Proof.
  intros [[Hc Hev] Hn H0 H1 Hz Hs] Nd Nz Hb. unfold insert, DTH_ID_COUNT, DTH_TARGET_ID, DTH_DEADLINE_ID.
  assert (B : BOUND = 2147483646) by reflexivity. assert (CM : CAPMAX = 2147483622) by reflexivity.
  rewrite (u32_id (h_count h + 2)) by lia.
  set (c := h_count h) in *.
  set (h0 := if h_maxqos (set_count h (c + 2)) <? qos
             then set_np (set_maxqos (set_count h (c + 2)) (u8 qos)) true else set_count h (c + 2)).
  assert (E0 : h_count h0 = c + 2 /\ h_segs h0 = h_segs h /\ h_slot h0 = h_slot h /\ h_ent h0 = h_ent h /\
               (h_np h = true -> h_np h0 = true)).
  { unfold h0. destruct (_ <? _); simpl; auto. }
  destruct E0 as [E0c [E0s [E0l [E0e E0n]]]]. clearbody h0.
  destruct Hs as [Hs1 [Hs2 Hs3]].
  destruct (Z.eqb_spec c 0) as [Ec|Nc].
  - (* first timer *)
    pose proof (hinv_empty _ _ _ _ H0 Ec) as Em.
    assert (Sg : h_segs h = 0).
    { destruct (Z.eq_dec (h_segs h) 0); auto. destruct Hs3 as [|X]; auto.
      pose proof (cap_facts (h_segs h - 1) ltac:(lia)). fold c in X. lia. }
    cbv zeta. split; [constructor|split; [|split; [|split]]]; simpl.
    + rewrite E0c, Ec. split; [lia|reflexivity].
    + intros [X|X]; [congruence|contradiction].
    + constructor; simpl.
      * rewrite E0c. lia.
      * rewrite E0c, Ec. intros j Hj Hp. assert (j = 0) by (assert (j = 0 \/ j = 1) as [|] by lia; subst j; auto; discriminate).
        subst j. unfold upd, upd2; simpl. rewrite Z.eqb_refl. auto.
      * rewrite E0c, Ec. intros t [->|St]; [|exfalso; eapply Em; eauto].
        unfold upd, upd2; simpl. rewrite Z.eqb_refl. simpl. repeat split; lia.
      * rewrite E0c, Ec. intros; lia.
    + constructor; simpl.
      * rewrite E0c. lia.
      * rewrite E0c, Ec. intros j Hj Hp. assert (j = 1) by (assert (j = 0 \/ j = 1) as [|] by lia; subst j; auto; discriminate).
        subst j. unfold upd, upd2; simpl. rewrite Z.eqb_refl. auto.
      * rewrite E0c, Ec. intros t [->|St]; [|exfalso; eapply Em; eauto].
        unfold upd, upd2; simpl. rewrite Z.eqb_refl. simpl. repeat split; lia.
      * rewrite E0c, Ec. intros; lia.
    + rewrite E0c, Ec, E0l. intros j Hj. unfold upd. destruct (Z.eqb_spec j 0); [lia|]. destruct (Z.eqb_spec j 1); [lia|].
      apply Hz. lia.
    + unfold seg_ok; simpl. rewrite E0c, E0s, Sg, Ec. split; [lia|]. split; [|left; reflexivity].
      change (capacity 0) with 2. lia.
    + rewrite E0c. reflexivity.
    + split; simpl; auto.
    + intros g u Nu Ne. rewrite E0e. unfold upd2. destruct (g =? 1), (g =? 0), (Z.eqb_spec u dt); try congruence.
    + left; reflexivity.
  - (* general case *)
    set (h1 := if c + 2 >? capacity (h_segs h0) then grow h0 else h0).
    assert (E1 : h_count h1 = c + 2 /\ h_slot h1 = h_slot h /\ h_ent h1 = h_ent h /\ (h_np h = true -> h_np h1 = true) /\
                 seg_ok h1 /\ h_np h1 = h_np h0).
    { unfold h1, seg_ok. rewrite E0s. pose proof (cap_facts (h_segs h) ltac:(lia)) as [Cf1 [Cf2 [Cf3 Cf4]]].
      fold c in Hs2, Hs3.
      destruct (Z.gtb_spec (c + 2) (capacity (h_segs h))) as [G|G].
      - assert (L29 : h_segs h < 29) by lia.
        assert (U : u8 (h_segs h + 1) = h_segs h + 1) by (unfold u8; rewrite Z.mod_small; lia).
        unfold grow. simpl. rewrite E0s, U, E0c. replace (h_segs h + 1 - 1) with (h_segs h) by lia.
        repeat split; auto; try lia.
      - rewrite E0c, E0s. repeat split; auto; try lia. }
    destruct E1 as [E1c [E1l [E1e [E1n [E1s E1p]]]]]. clearbody h1.
    rewrite (u32_id (c + 0)), (u32_id (c + 1)) by lia.
    set (S' := fun u => u = dt \/ S u).
    assert (Ho0 : hole key S' 0 h1 (c + 0) dt).
    { apply (hole_of_append key S 0 h h1 dt); auto; try lia.
      - intros. rewrite E1l. reflexivity.
      - intros. rewrite E1e. reflexivity. }
    destruct (resift_ok key S' 0 (or_introl eq_refl) _ _ _ Ho0) as [I0 F0].
    set (h2 := resift key h1 dt (c + 0)) in *.
    assert (C2 : h_count h2 = c + 2) by (rewrite (fr_count _ _ _ _ F0); auto).
    assert (Ho1 : hole key S' 1 h2 (c + 1) dt).
    { apply (hole_of_append key S 1 h h2 dt); auto; try lia.
      - intros j Hj Hp. rewrite (fr_other _ _ _ _ F0) by lia. rewrite E1l. reflexivity.
      - intros u Su. rewrite (fr_ent_other _ _ _ _ F0) by lia. rewrite E1e. reflexivity. }
    destruct (resift_ok key S' 1 (or_intror eq_refl) _ _ _ Ho1) as [I1 F1].
    set (h3 := resift key h2 dt (c + 1)) in *.
    assert (C3 : h_count h3 = c + 2) by (rewrite (fr_count _ _ _ _ F1); auto).
    assert (N01 : np_ok h h1).
    { split; auto. right. rewrite E1l. auto. }
    assert (NPO : np_ok h h3).
    { eapply np_ok_trans; [exact N01|]. eapply np_ok_trans; eapply fr_np_ok; eauto. }
    assert (TCH : h_np h3 = true \/ (h_slot h3 0 = h_slot h 0 /\ h_slot h3 0 <> dt)).
    { destruct NPO as [_ [X|[X0 _]]]; auto.
      destruct (Z.eq_dec (h_slot h3 0) dt) as [E|E]; [left|right; auto].
      assert (E2 : h_slot h2 0 = dt) by (rewrite <- E; symmetry; apply (fr_other _ _ _ _ F1); discriminate).
      destruct (hi_fwd _ _ _ _ I0 0 ltac:(lia) eq_refl) as [_ E0]. rewrite E2 in E0.
      apply (fr_np_mono _ _ _ _ F1). apply (resift_np key S' 0 (or_introl eq_refl) _ _ _ Ho0). fold h2. lia. }
    split; [constructor|split; [|split; [|split]]].
    + rewrite C3. split; [lia|]. rewrite <- Z.add_mod_idemp_l, Hev by lia. reflexivity.
    + intros [X|X]; [congruence|contradiction].
    + eapply fr_hinv_other; eauto; lia.
    + auto.
    + intros j Hj. rewrite C3 in Hj. rewrite (fr_out _ _ _ _ F1), (fr_out _ _ _ _ F0), E1l by (rewrite ?C2, ?E1c; lia).
      apply Hz. fold c. lia.
    + unfold seg_ok. rewrite (fr_segs _ _ _ _ F1), (fr_segs _ _ _ _ F0), C3. rewrite <- E1c. exact E1s.
    + auto.
    + exact NPO.
    + intros g u Nu Ne. assert (NS' : ~ S' u) by (unfold S'; tauto).
      destruct (Z.eq_dec g 1) as [->|N1].
      * rewrite (fr_ent_out _ _ _ _ F1) by auto. rewrite (fr_ent_other _ _ _ _ F0) by lia. rewrite E1e. reflexivity.
      * rewrite (fr_ent_other _ _ _ _ F1) by auto. destruct (Z.eq_dec g 0) as [->|N0].
        -- rewrite (fr_ent_out _ _ _ _ F0) by auto. rewrite E1e. reflexivity.
        -- rewrite (fr_ent_other _ _ _ _ F0) by auto. rewrite E1e. reflexivity.
    + exact TCH.
Qed.
End Ops.

Section Remove.
Variable key : Z -> Z -> Z.

Lemma set_slot_np_ok h i v : 2 <= i -> np_ok h (set_slot h i v).
Proof.
  intros. split; [auto|right]. simpl. unfold upd.
  destruct (Z.eqb_spec 0 i); [lia|]. destruct (Z.eqb_spec 1 i); [lia|]. auto.
Qed.

Lemma remove_step_ok S hid hr h dt idx :
  hid = 0 \/ hid = 1 ->
  hinv key S hid hr -> h_count hr = idx + 2 -> h_count h = idx -> idx mod 2 = 0 -> 0 < idx ->
  (forall j, 0 <= j < idx + 2 -> j mod 2 = hid -> h_slot h j = h_slot hr j) ->
  (forall u, h_ent h hid u = h_ent hr hid u) -> S dt ->
  let h' := remove_step key dt idx h hid in
  hinv key (fun u => S u /\ u <> dt) hid h' /\
  h_count h' = idx /\ h_segs h' = h_segs h /\
  (forall j, j mod 2 <> hid -> h_slot h' j = h_slot h j) /\
  (forall j, ~ (0 <= j < idx) -> j <> idx + hid -> h_slot h' j = h_slot h j) /\
  h_slot h' (idx + hid) = 0 /\
  (forall g u, g <> hid -> h_ent h' g u = h_ent h g u) /\
  (forall u, ~ (S u /\ u <> dt) -> h_ent h' hid u = h_ent h hid u) /\
  np_ok h h'.
Proof.
  intros Hhid Hi Hcr Hc Hev Hpos Hs He Sdt.
  assert (B : BOUND = 2147483646) by reflexivity.
  pose proof (hi_cnt _ _ _ _ Hi) as Hcn.
  pose proof (even_pos idx Hev Hpos) as I2.
  assert (Hpar : (idx + hid) mod 2 = hid).
  { destruct Hhid; subst hid; [rewrite Z.add_0_r; auto|].
    rewrite <- Z.add_mod_idemp_l, Hev by lia. reflexivity. }
  unfold remove_step. rewrite (u32_id (idx + hid)) by (unfold u32; lia).
  rewrite (Hs (idx + hid)) by (auto; lia).
  set (last := h_slot hr (idx + hid)).
  set (h1 := set_slot h (idx + hid) 0).
  assert (Hs1 : forall j, 0 <= j < idx -> j mod 2 = hid -> h_slot h1 j = h_slot hr j).
  { intros j Hj Hp. unfold h1; simpl. unfold upd. destruct (Z.eqb_spec j (idx + hid)); [lia|]. apply Hs; auto; lia. }
  assert (He1 : forall u, S u -> h_ent h1 hid u = h_ent hr hid u) by (intros; apply He).
  destruct (Z.eqb_spec last dt) as [El|Nl].
  - pose proof (hinv_of_cut key S hid hr h1 dt idx Hhid Hi Hcr Hc Hev ltac:(lia) Hs1 He1 Sdt El) as I.
    cbv zeta. split; [exact I|]. unfold h1; simpl. unfold upd. repeat split; auto.
    + intros j Hj. destruct (Z.eqb_spec j (idx + hid)); [congruence|auto].
    + intros j Hj Ne. destruct (Z.eqb_spec j (idx + hid)); [congruence|auto].
    + rewrite Z.eqb_refl. reflexivity.
    + apply (proj2 (set_slot_np_ok h (idx + hid) 0 ltac:(lia))).
  - pose proof (hole_of_cut key S hid hr h1 dt idx Hhid Hi Hcr Hc Hev ltac:(lia) ltac:(lia) Hs1 He1 Sdt Nl) as Ho.
    assert (Ee : h_ent h1 hid dt = h_ent hr hid dt) by apply He.
    rewrite Ee. fold last in Ho.
    destruct (resift_ok key _ hid Hhid _ _ _ Ho) as [I F].
    cbv zeta. split; [exact I|].
    set (h2 := resift key h1 last (h_ent hr hid dt)) in *.
    assert (C1 : h_count h1 = idx) by exact Hc.
    repeat split.
    + rewrite (fr_count _ _ _ _ F). exact C1.
    + rewrite (fr_segs _ _ _ _ F). reflexivity.
    + intros j Hj. rewrite (fr_other _ _ _ _ F) by auto. unfold h1; simpl. unfold upd.
      destruct (Z.eqb_spec j (idx + hid)); [congruence|auto].
    + intros j Hj Ne. rewrite (fr_out _ _ _ _ F) by (rewrite C1; auto). unfold h1; simpl. unfold upd.
      destruct (Z.eqb_spec j (idx + hid)); [congruence|auto].
    + rewrite (fr_out _ _ _ _ F) by (rewrite C1; lia). unfold h1; simpl. unfold upd. rewrite Z.eqb_refl. reflexivity.
    + intros g u Ng. rewrite (fr_ent_other _ _ _ _ F) by auto. reflexivity.
    + intros u Nu. rewrite (fr_ent_out _ _ _ _ F) by auto. reflexivity.
    + intro X. apply (fr_np_mono _ _ _ _ F). exact X.
    + destruct (fr_np_min _ _ _ _ F) as [|[A0 A1]]; auto. right. rewrite A0, A1. unfold h1; simpl. unfold upd.
      destruct (Z.eqb_spec 0 (idx + hid)); [lia|]. destruct (Z.eqb_spec 1 (idx + hid)); [lia|]. auto.
Qed.

Theorem remove_inv S h dt :
  Inv key S h -> S dt ->
  let h' := remove key h dt in
  Inv key (fun u => S u /\ u <> dt) h' /\ h_count h' = h_count h - 2 /\
  h_ent h' 0 dt = DTH_INVALID_ID /\ h_ent h' 1 dt = DTH_INVALID_ID /\ np_ok h h' /\
  (forall g u, ~ S u -> h_ent h' g u = h_ent h g u).
Proof.
  intros [[Hc Hev] Hn H0 H1 Hz Hs] Sdt. unfold remove, DTH_ID_COUNT, DTH_TARGET_ID, DTH_DEADLINE_ID. cbv zeta.
  assert (B : BOUND = 2147483646) by reflexivity. assert (CM : CAPMAX = 2147483622) by reflexivity.
  destruct (hi_bwd _ _ _ _ H0 dt Sdt) as [R0 [P0 E0]].
  destruct (hi_bwd _ _ _ _ H1 dt Sdt) as [R1 [P1 E1]].
  assert (C2 : 2 <= h_count h).
  { destruct (Z.eq_dec (h_ent h 1 dt) 0) as [X|X]; [rewrite X in P1; discriminate|lia]. }
  rewrite !(u32_id (h_count h - 2)) by lia.
  set (idx := h_count h - 2) in *.
  assert (Iev : idx mod 2 = 0).
  { unfold idx. rewrite <- Zminus_mod_idemp_l, Hev. reflexivity. }
  destruct Hs as [Hs1 [Hs2 Hs3]].
  assert (Sg1 : 4 <= h_count h -> 1 <= h_segs h).
  { intros X. destruct (Z.eq_dec (h_segs h) 0) as [Y|Y]; [|lia]. rewrite Y in Hs2. change (capacity 0) with 2 in Hs2. lia. }
  destruct (Z.eqb_spec idx 0) as [Ei|Ni].
  - (* last timer *)
    assert (Only : forall t, S t -> t = dt).
    { intros t St. destruct (hi_bwd _ _ _ _ H0 t St) as [R [P E]].
      assert (h_ent h 0 t = 0) by (apply par0_lt2; auto; lia). assert (h_ent h 0 dt = 0) by (apply par0_lt2; auto; lia). congruence. }
    assert (Sg : h_segs h = 0).
    { destruct (Z.eq_dec (h_segs h) 0); auto. destruct Hs3 as [|X]; auto.
      pose proof (cap_facts (h_segs h - 1) ltac:(lia)). lia. }
    cbv zeta. split; [constructor|repeat split]; simpl.
    + rewrite Ei. split; [lia|reflexivity].
    + tauto.
    + constructor; simpl; rewrite ?Ei; try lia.
      intros t [St Nt]. exfalso. apply Nt. auto.
    + constructor; simpl; rewrite ?Ei; try lia.
      intros t [St Nt]. exfalso. apply Nt. auto.
    + rewrite Ei. intros j Hj. unfold upd. destruct (Z.eqb_spec j 0); auto. destruct (Z.eqb_spec j 1); auto.
      apply Hz. lia.
    + unfold seg_ok; simpl. rewrite Sg, Ei. split; [lia|]. split; [|left; reflexivity]. change (capacity 0) with 2. lia.
    + unfold upd2; simpl. rewrite Z.eqb_refl. reflexivity.
    + unfold upd2; simpl. rewrite Z.eqb_refl. reflexivity.
    + left; reflexivity.
    + intros g u Nu. unfold upd2, DTH_TARGET_ID, DTH_DEADLINE_ID. destruct (g =? 1), (g =? 0), (Z.eqb_spec u dt); try congruence.
  - (* general case *)
    set (h0 := set_count h idx).
    assert (Ipos : 0 < idx) by lia.
    pose proof (even_pos idx Iev Ipos) as I2.
    destruct (remove_step_ok S 0 h h0 dt idx (or_introl eq_refl) H0 ltac:(lia) eq_refl Iev Ipos
                ltac:(intros; reflexivity) ltac:(intros; reflexivity) Sdt)
      as [I0 [C0 [G0 [O0 [Z0 [L0 [EO0 [EI0 N0]]]]]]]].
    set (h1 := remove_step key dt idx h0 0) in *.
    destruct (remove_step_ok S 1 h h1 dt idx (or_intror eq_refl) H1 ltac:(lia) C0 Iev Ipos
                ltac:(intros j Hj Hp; rewrite O0 by lia; reflexivity)
                ltac:(intros u; rewrite EO0 by lia; reflexivity) Sdt)
      as [I1 [C1 [G1 [O1 [Z1 [L1 [EO1 [EI1 N1]]]]]]]].
    set (h2 := remove_step key dt idx h1 1) in *.
    set (S' := fun u => S u /\ u <> dt) in *.
    assert (I0' : hinv key S' 0 h2).
    { eapply (hinv_ext key S' S' 0 key h1 h2); eauto; try tauto; try lia.
      - intros j Hj Hp. apply O1. lia.
      - intros u Su. apply EO1. lia. }
    set (h3 := if idx <=? capacity (u32 (h_segs h2 - 1)) then shrink h2 else h2).
    assert (E3 : h_count h3 = idx /\ h_slot h3 = h_slot h2 /\ h_ent h3 = h_ent h2 /\ h_np h3 = h_np h2 /\ seg_ok h3).
    { assert (Sg2 : h_segs h2 = h_segs h) by (rewrite G1, G0; reflexivity).
      pose proof (Sg1 ltac:(lia)) as Sge.
      unfold h3, seg_ok. rewrite Sg2. rewrite (u32_id (h_segs h - 1)) by lia.
      pose proof (cap_facts (h_segs h - 1) ltac:(lia)) as [Cf1 [Cf2 [Cf3 Cf4]]].
      replace (h_segs h - 1 + 1) with (h_segs h) in Cf2 by lia.
      destruct (Z.leb_spec idx (capacity (h_segs h - 1))) as [L|L].
      - assert (U : u8 (h_segs h - 1) = h_segs h - 1) by (unfold u8; rewrite Z.mod_small; lia).
        unfold shrink; simpl. rewrite Sg2, U, C1. repeat split; auto; try lia.
        destruct (Z.eq_dec (h_segs h - 1) 0) as [Y|Y]; [left; exact Y|right].
        pose proof (cap_facts (h_segs h - 1 - 1) ltac:(lia)) as [Df1 [Df2 _]].
        replace (h_segs h - 1 - 1 + 1) with (h_segs h - 1) in Df2 by lia.
        destruct Hs3 as [|X]; [lia|]. fold idx in X. lia.
      - rewrite C1, Sg2. repeat split; auto; try lia. }
    destruct E3 as [C3 [SL3 [EN3 [NP3 SG3]]]]. clearbody h3.
    cbv zeta. split; [constructor|repeat split].
    + simpl. rewrite C3. split; [lia|auto].
    + unfold S'. tauto.
    + apply (hinv_ext key S' S' 0 key h2 (clear_ent h3 dt) I0').
      * simpl. rewrite C3. symmetry. exact C1.
      * intros; simpl; rewrite SL3; reflexivity.
      * intros u [Su Nu]. simpl. rewrite EN3. unfold upd2; simpl. destruct (Z.eqb_spec u dt); [contradiction|].
        destruct (0 =? 1), (0 =? 0); reflexivity.
      * tauto.
      * auto.
    + apply (hinv_ext key S' S' 1 key h2 (clear_ent h3 dt) I1).
      * simpl. rewrite C3. symmetry. exact C1.
      * intros; simpl; rewrite SL3; reflexivity.
      * intros u [Su Nu]. simpl. rewrite EN3. unfold upd2; simpl. destruct (Z.eqb_spec u dt); [contradiction|].
        destruct (1 =? 1), (1 =? 0); reflexivity.
      * tauto.
      * auto.
    + simpl. rewrite C3, SL3. intros j Hj.
      destruct (Z.eq_dec j (idx + 1)) as [->|N1']; [exact L1|].
      rewrite Z1 by (auto; lia).
      destruct (Z.eq_dec j (idx + 0)) as [->|N0']; [exact L0|].
      rewrite Z0 by (auto; lia). simpl. apply Hz. unfold idx in *. lia.
    + exact SG3.
    + simpl. rewrite C3. reflexivity.
    + simpl. unfold upd2; simpl. rewrite Z.eqb_refl. reflexivity.
    + simpl. unfold upd2; simpl. rewrite Z.eqb_refl. reflexivity.
    + simpl. rewrite NP3. intro X. apply N1. apply N0. exact X.
    + simpl. rewrite NP3, SL3. destruct N1 as [M1 [X|[A0 A1]]]; auto. destruct N0 as [_ [X|[B0 B1]]]; auto.
      right. rewrite A0, A1, B0, B1. auto.
    + intros g u Nu. simpl. rewrite EN3. assert (Nu' : ~ S' u) by (unfold S'; tauto).
      assert (u <> dt) by (intro; subst; contradiction).
      unfold upd2, DTH_TARGET_ID, DTH_DEADLINE_ID. destruct (Z.eqb_spec g 1) as [->|G1']; simpl.
      * destruct (Z.eqb_spec u dt); [contradiction|]. rewrite EI1 by auto. rewrite EO0 by lia. reflexivity.
      * destruct (Z.eqb_spec g 0) as [->|G0']; simpl.
        -- destruct (Z.eqb_spec u dt); [contradiction|]. rewrite EO1 by lia. rewrite EI0 by auto. reflexivity.
        -- rewrite EO1, EO0 by auto. reflexivity.
Qed.
End Remove.

(* ------------------------------------------------------------------------------------------------ *)
(* consequences: minimum, any sequence of operations, stored set *)
Lemma Inv_ext key key' S h h' :
  Inv key S h -> h_count h' = h_count h -> h_segs h' = h_segs h -> h_slot h' = h_slot h -> h_ent h' = h_ent h ->
  (forall g u, S u -> key' g u = key g u) -> Inv key' S h'.
Proof.
  intros [Hc Hn H0 H1 Hz Hs] Ec Es El Ee Hk. constructor.
  - rewrite Ec. exact Hc.
  - exact Hn.
  - eapply hinv_ext; eauto; try tauto; intros; rewrite ?El, ?Ee; reflexivity.
  - eapply hinv_ext; eauto; try tauto; intros; rewrite ?El, ?Ee; reflexivity.
  - rewrite Ec, El. exact Hz.
  - unfold seg_ok. rewrite Ec, Es. exact Hs.
Qed.

Theorem min_is_min key S h : Inv key S h ->
  forall t, S t ->
    S (h_slot h 0) /\ key 0 (h_slot h 0) <= key 0 t /\
    S (h_slot h 1) /\ key 1 (h_slot h 1) <= key 1 t.
Proof.
  intros I t St.
  destruct (hinv_min key S 0 h (or_introl eq_refl) (iv_h0 _ _ _ I) (hi_cnt _ _ _ _ (iv_h0 _ _ _ I)) t St).
  destruct (hinv_min key S 1 h (or_intror eq_refl) (iv_h1 _ _ _ I) (hi_cnt _ _ _ _ (iv_h1 _ _ _ I)) t St).
  tauto.
Qed.

(* the stored set: each heap (even / odd cells below count) enumerates S without repetition *)
Theorem heap_is_set key S h : Inv key S h ->
  (forall hid, hid = 0 \/ hid = 1 ->
     (forall j, 0 <= j < h_count h -> j mod 2 = hid -> S (h_slot h j) /\ h_ent h hid (h_slot h j) = j) /\
     (forall t, S t -> exists j, 0 <= j < h_count h /\ j mod 2 = hid /\ h_slot h j = t /\ h_ent h hid t = j) /\
     (forall j j', 0 <= j < h_count h -> 0 <= j' < h_count h -> j mod 2 = hid -> j' mod 2 = hid ->
        h_slot h j = h_slot h j' -> j = j')) /\
  (forall j, ~ (0 <= j < h_count h) -> h_slot h j = 0) /\ ~ S 0.
Proof.
  intros I. split; [|split; [apply I|apply I]].
  intros hid Hh.
  assert (Hi : hinv key S hid h) by (destruct Hh; subst; apply I).
  split; [|split].
  - apply Hi.
  - intros t St. destruct (hi_bwd _ _ _ _ Hi t St) as [R [P E]]. exists (h_ent h hid t). auto.
  - intros j j' Hj Hj' Hp Hp' E.
    destruct (hi_fwd _ _ _ _ Hi j Hj Hp) as [_ A]. destruct (hi_fwd _ _ _ _ Hi j' Hj' Hp') as [_ A'].
    rewrite E in A. congruence.
Qed.

Definition op_ok (S : Z -> Prop) (o : hop) : Prop :=
  match o with
  | HIns t _ _ => t <> 0 /\ ~ S t
  | HDel t => S t
  | HUpd t _ _ => S t
  end.
Definition op_set (S : Z -> Prop) (o : hop) : Z -> Prop :=
  match o with
  | HIns t _ _ => fun u => u = t \/ S u
  | HDel t => fun u => S u /\ u <> t
  | HUpd _ _ _ => S
  end.
Fixpoint ops_ok (S : Z -> Prop) (ops : list hop) : Prop :=
  match ops with [] => True | o :: r => op_ok S o /\ ops_ok (op_set S o) r end.
Fixpoint ops_set (S : Z -> Prop) (ops : list hop) : Z -> Prop :=
  match ops with [] => S | o :: r => ops_set (op_set S o) r end.

Lemma hstep_inv k h S o :
  Inv k S h -> op_ok S o -> h_count h + 2 <= CAPMAX ->
  Inv (fst (hstep (k, h) o)) (op_set S o) (snd (hstep (k, h) o)) /\
  h_count (snd (hstep (k, h) o)) <= h_count h + 2.
Proof.
  intros I Ok Hb.
  assert (I' : forall k', (forall g u, S u -> k' g u = k g u) -> Inv k' S (set_np h false)).
  { intros k' Hk. eapply Inv_ext; eauto. }
  destruct o as [t a b|t|t a b]; simpl in *.
  - destruct Ok as [Nz Ns].
    assert (Hk : forall g u, S u -> set_keys k t a b g u = k g u).
    { intros g u Su. unfold set_keys, upd2. assert (u <> t) by (intro; subst; contradiction).
      destruct (g =? 1), (g =? 0), (Z.eqb_spec u t); try congruence. }
    destruct (insert_inv (set_keys k t a b) S (set_np h false) t 0 (I' _ Hk) Ns Nz Hb) as [A [C _]].
    split; [exact A|]. rewrite C. simpl. lia.
  - destruct (remove_inv k S (set_np h false) t (I' k (fun _ _ _ => eq_refl)) Ok) as [A [C _]].
    split; [exact A|]. rewrite C. simpl. lia.
  - assert (Hk : forall g u, u <> t -> set_keys k t a b g u = k g u).
    { intros g u Nu. unfold set_keys, upd2. destruct (g =? 1), (g =? 0), (Z.eqb_spec u t); try congruence. }
    destruct (update_inv (set_keys k t a b) S (set_np h false) t k (I' k (fun _ _ _ => eq_refl)) Ok Hk) as [A _].
    split; [exact A|].
    pose proof (iv_cnt _ _ _ A). pose proof (iv_h0 _ _ _ A) as X.
    unfold update. 
    assert (forall kk hh dd ii, h_count (resift kk hh dd ii) = h_count hh) as RC.
    { intros. unfold resift.
      assert (SU : forall f kk hid dt hh ii su, h_count (fst (fst (sift_up f kk hid dt hh ii su))) = h_count hh).
      { induction f; intros; simpl; auto. destruct (_ >=? _); auto. destruct (_ <=? _); auto. rewrite IHf. reflexivity. }
      assert (SD : forall f kk hid dt hh ii, h_count (fst (sift_down f kk hid dt hh ii)) = h_count hh).
      { induction f; intros; simpl; auto. destruct (_ <? _); auto.
        destruct (if _ <? _ then _ else _) as [c1 d1]. destruct (_ <=? _); auto. rewrite IHf. reflexivity. }
      destruct (sift_up _ _ _ _ _ _ _) as [[h1 i1] su] eqn:E1.
      pose proof (SU (Z.to_nat ii) kk (heap_id ii) dd hh ii false) as Q. rewrite E1 in Q. simpl in Q.
      destruct su; [simpl; auto|].
      destruct (sift_down _ _ _ _ _ _) as [h2 i2] eqn:E2.
      pose proof (SD (Z.to_nat (h_count h1)) kk (heap_id ii) dd h1 i1) as Q2. rewrite E2 in Q2. simpl in Q2.
      simpl. congruence. }
    rewrite !RC. simpl. lia.
Qed.

(* EVERY sequence of insert / remove / update operations that respects the preconditions of the C functions
   (insert a timer that is not stored, remove / update a stored one) on EVERY population preserves the invariant,
   and the stored set is exactly the abstract set *)
Lemma length_cons_Z {A} (x : A) l : Z.of_nat (length (x :: l)) = 1 + Z.of_nat (length l).
Proof. simpl length. lia. Qed.

Theorem heap_inv_preserved : forall ops k h S,
  Inv k S h -> ops_ok S ops -> h_count h + 2 * Z.of_nat (length ops) <= CAPMAX ->
  let st := fold_left hstep ops (k, h) in
  Inv (fst st) (ops_set S ops) (snd st).
Proof.
  induction ops as [|o r IH]; intros k h S I Ok Hb; cbn [fold_left ops_ok ops_set] in *.
  - exact I.
  - destruct Ok as [Ok1 Ok2]. rewrite length_cons_Z in Hb.
    destruct (hstep_inv k h S o I Ok1 ltac:(lia)) as [A C].
    destruct (hstep (k, h) o) as [k1 h1] eqn:E. cbn [fst snd] in *.
    apply IH; auto. lia.
Qed.

Lemma Inv_empty k : Inv k (fun _ => False) empty_heap.
Proof.
  constructor; simpl; auto.
  - split; [unfold CAPMAX; lia|reflexivity].
  - constructor; simpl; try tauto; try lia. unfold BOUND; lia.
  - constructor; simpl; try tauto; try lia. unfold BOUND; lia.
  - unfold seg_ok; simpl. split; [lia|]. split; [|left; reflexivity]. change (capacity 0) with 2. lia.
Qed.

(* the evaluation aid of Model/Heap.v does not change the maps *)
Lemma tab_eq f n i : tab f n i = f i.
Proof.
  unfold tab. destruct (Z.leb_spec 0 i); simpl; auto. destruct (Z.ltb_spec i n); simpl; auto.
  unfold zrange. rewrite nth_indep with (d' := f 0) by (rewrite !map_length, seq_length; lia).
  rewrite map_nth. change 0 with (Z.of_nat 0) at 1. rewrite map_nth. rewrite seq_nth by lia.
  simpl. rewrite Z2Nat.id by lia. reflexivity.
Qed.
Lemma compact_eq h n :
  h_count (compact h n) = h_count h /\ h_segs (compact h n) = h_segs h /\ h_np (compact h n) = h_np h /\
  (forall j, h_slot (compact h n) j = h_slot h j) /\ (forall g u, h_ent (compact h n) g u = h_ent h g u).
Proof.
  unfold compact; simpl. repeat split; intros; rewrite ?tab_eq; auto.
  destruct (Z.eqb_spec g 0) as [->|]; [apply tab_eq|]. destruct (Z.eqb_spec g 1) as [->|]; [apply tab_eq|]. reflexivity.
Qed.

(* ------------------------------------------------------------------------------------------------ *)
(* segmented storage: the cell computed by _dispatch_timer_heap_get_slot *)
Section Addr.
Local Ltac Zify.zify_post_hook ::= Z.div_mod_to_equations.

Lemma capacity_eq s : 1 <= s < 30 -> capacity s = 2 + 8 * 2 ^ (s - 1) - (s - 1).
Proof.
  intros Hs.
  pose proof (range_sweep (fun s => (s =? 0) || (capacity s =? 2 + 8 * 2 ^ (s - 1) - (s - 1))) 30
                ltac:(vm_compute; reflexivity) s ltac:(lia)) as H.
  cbv beta in H. lia.
Qed.

(* (segment, offset) in closed form *)
Lemma slot_addr_small idx : 2 <= idx < 10 -> slot_addr idx = (0, idx - 2).
Proof.
  intros H. assert (idx = 2 \/ idx = 3 \/ idx = 4 \/ idx = 5 \/ idx = 6 \/ idx = 7 \/ idx = 8 \/ idx = 9) by lia.
  intuition (subst; reflexivity).
Qed.

Lemma slot_addr_big idx : 10 <= idx < 2147483648 ->
  let l := Z.log2 (idx - 2) in
  slot_addr idx = (l - 2, idx - 2 - 2 ^ l) /\ 3 <= l < 31 /\ 2 ^ l <= idx - 2 < 2 ^ (l + 1).
Proof.
  intros H l. unfold slot_addr, DTH_ID_COUNT.
  destruct (Z.ltb_spec idx 2); [lia|].
  rewrite (u32_id (idx - 2)) by lia.
  set (i := idx - 2) in *.
  pose proof (Z.log2_spec i ltac:(lia)) as [L1 L2]. fold l in L1, L2. rewrite <- Z.add_1_r in L2.
  assert (Hl : 3 <= l < 31).
  { split.
    - unfold l. change 3 with (Z.log2 8). apply Z.log2_le_mono. lia.
    - destruct (Z.lt_ge_cases l 31); auto. exfalso.
      assert (2 ^ 31 <= 2 ^ l) by (apply Z.pow_le_mono_r; lia). change (2 ^ 31) with 2147483648 in *. lia. }
  assert (Es : seg_no_of i = l - 2).
  { unfold seg_no_of, SEG_C, clz. change (8 - 1) with 7. change (7 =? 0) with false. cbv iota.
    assert (Z.lor i 7 <> 0).
    { intro X. apply Z.lor_eq_0_iff in X. lia. }
    destruct (Z.eqb_spec (Z.lor i 7) 0); [contradiction|].
    rewrite Z.log2_lor by lia. change (Z.log2 7) with 2. fold l. lia. }
  rewrite Es. rewrite (u32_id (l - 2)) by lia.
  assert (nz (l - 2) = true) as -> by (unfold nz; destruct (Z.eqb_spec (l - 2) 0); [lia|reflexivity]).
  unfold SEG_C. rewrite Z.shiftl_mul_pow2 by lia.
  assert (E8 : 8 * 2 ^ (l - 2 - 1) = 2 ^ l).
  { change 8 with (2 ^ 3). rewrite <- Z.pow_add_r by lia. f_equal. lia. }
  rewrite E8.
  assert (2 ^ l < 4294967296).
  { change 4294967296 with (2 ^ 32). apply Z.pow_lt_mono_r; lia. }
  rewrite (u32_id (2 ^ l)) by lia. rewrite (u32_id (i - 2 ^ l)) by lia.
  repeat split; auto; lia.
Qed.

Theorem slot_addr_in_bounds segments idx :
  0 <= segments < 30 -> 2 <= idx < capacity segments ->
  0 <= fst (slot_addr idx) < segments /\ 0 <= snd (slot_addr idx) < seg_usable segments (fst (slot_addr idx)).
Proof.
  intros Hs Hi.
  assert (S1 : 1 <= segments).
  { destruct (Z.eq_dec segments 0) as [->|]; [change (capacity 0) with 2 in Hi; lia|lia]. }
  pose proof (cap_facts segments Hs) as [[_ Cm] _].
  rewrite capacity_eq in Hi by lia.
  set (n := segments - 1) in *.
  assert (P0 : 1 <= 2 ^ n) by (apply Z.pow_le_mono_r with (a := 2) (b := 0) (c := n); lia).
  destruct (Z.lt_ge_cases idx 10) as [Sm|Bg].
  - rewrite slot_addr_small by lia. cbn [fst snd]. split; [lia|]. unfold seg_usable, seg_capacity, SEG_C.
    rewrite Z.eqb_refl. destruct (0 =? segments - 1); lia.
  - assert (idx < 2147483648) by (unfold CAPMAX in Cm; rewrite capacity_eq in Cm by lia; fold n in Cm; lia).
    destruct (slot_addr_big idx ltac:(lia)) as [E [Hl [L1 L2]]]. rewrite E. cbn [fst snd].
    set (l := Z.log2 (idx - 2)) in *.
    (* 2^l <= idx - 2 < 8 * 2^n - n  gives l <= n + 2 *)
    assert (Ln : l <= n + 2).
    { destruct (Z.le_gt_cases l (n + 2)); auto. exfalso.
      assert (2 ^ (n + 3) <= 2 ^ l) by (apply Z.pow_le_mono_r; lia).
      replace (n + 3) with (3 + n) in * by lia. rewrite Z.pow_add_r in * by lia. change (2 ^ 3) with 8 in *. lia. }
    split; [lia|]. split; [lia|].
    unfold seg_usable, seg_capacity, SEG_C. fold n.
    destruct (Z.eqb_spec (l - 2) 0); [lia|].
    rewrite Z.shiftl_mul_pow2 by lia.
    assert (E8 : 8 * 2 ^ (l - 2 - 1) = 2 ^ l).
    { change 8 with (2 ^ 3). rewrite <- Z.pow_add_r by lia. f_equal. lia. }
    rewrite E8. rewrite Z.pow_add_r in L2 by lia. change (2 ^ 1) with 2 in L2.
    destruct (Z.eqb_spec (l - 2) n) as [En|En]; [|lia].
    assert (H0 : l = n + 2) by lia. clearbody l. subst l.
    replace (n + 2) with (2 + n) in * by lia. rewrite Z.pow_add_r by lia. change (2 ^ 2) with 4. lia.
Qed.

Theorem slot_addr_injective idx idx' :
  2 <= idx < 2147483648 -> 2 <= idx' < 2147483648 -> slot_addr idx = slot_addr idx' -> idx = idx'.
Proof.
  intros H H' E.
  destruct (Z.lt_ge_cases idx 10) as [Sm|Bg], (Z.lt_ge_cases idx' 10) as [Sm'|Bg'].
  - rewrite !slot_addr_small in E by lia. inversion E. lia.
  - rewrite slot_addr_small in E by lia. destruct (slot_addr_big idx' ltac:(lia)) as [E' [Hl _]]. rewrite E' in E.
    inversion E. lia.
  - rewrite (slot_addr_small idx') in E by lia. destruct (slot_addr_big idx ltac:(lia)) as [E' [Hl _]]. rewrite E' in E.
    inversion E. lia.
  - destruct (slot_addr_big idx ltac:(lia)) as [E1 _]. destruct (slot_addr_big idx' ltac:(lia)) as [E2 _].
    rewrite E1, E2 in E. inversion E as [[A C]].
    assert (Z.log2 (idx - 2) = Z.log2 (idx' - 2)) as X by lia. rewrite X in C. lia.
Qed.

(* the pointer table in the last segment is disjoint from its timer cells and inside the segment *)
Theorem seg_ptr_cell_bounds segments k :
  2 <= segments < 30 -> 0 <= k < segments - 1 ->
  seg_usable segments (segments - 1) <= seg_ptr_cell segments k < seg_capacity (segments - 1).
Proof.
  intros Hs Hk. unfold seg_usable, seg_ptr_cell. rewrite Z.eqb_refl. lia.
Qed.
End Addr.

(* ------------------------------------------------------------------------------------------------ *)
(* frame: the sift never reads the key of a timer outside the set being sifted (in particular not the key of the
   timer that is being removed, whose stale copy sits in the hole) *)
Section KeyFrame.
Variables key key' : Z -> Z -> Z.
Variable S : Z -> Prop.
Variable hid : Z.
Hypothesis Hhid : hid = 0 \/ hid = 1.
Hypothesis Hk : forall u, S u -> key' hid u = key hid u.

Lemma sift_up_ext dt : forall fuel h i su,
  hole key S hid h i dt -> i <= Z.of_nat fuel ->
  sift_up fuel key' hid dt h i su = sift_up fuel key hid dt h i su.
Proof.
  induction fuel as [|fuel IH]; intros h i su Hh Hf; cbn [sift_up]; auto.
  unfold DTH_ID_COUNT. destruct (Z.geb_spec i 2) as [G|G]; auto.
  assert (B : BOUND = 2147483646) by reflexivity.
  pose proof Hh as [Hc [Hi Hp] Hdt Hfw _ _ _].
  pose proof (parent_facts i ltac:(lia)) as [Pp Pr].
  destruct (Hfw (parent i) ltac:(lia) ltac:(lia) ltac:(lia)) as [Sp _].
  rewrite (Hk _ Sp), (Hk _ Hdt).
  destruct (Z.leb_spec (key hid (h_slot h (parent i))) (key hid dt)) as [L|L]; auto.
  destruct (hole_up key S hid h i dt Hh G L) as [Hh2 _].
  apply IH; auto. lia.
Qed.

Lemma sift_down_ext dt : forall fuel h i,
  hole key S hid h i dt -> par_le key hid h i dt -> h_count h - i <= Z.of_nat fuel ->
  sift_down fuel key' hid dt h i = sift_down fuel key hid dt h i.
Proof.
  induction fuel as [|fuel IH]; intros h i Hh Hpl Hf; cbn [sift_down]; auto.
  unfold DTH_ID_COUNT.
  assert (B : BOUND = 2147483646) by reflexivity.
  pose proof Hh as [Hc [Hi Hp] Hdt Hfw _ _ _].
  pose proof (left_child_facts i ltac:(lia)) as [Lp [Lg [L2 [Lpa Lpb]]]].
  remember (left_child i) as c eqn:Heqc.
  destruct (Z.ltb_spec c (h_count h)) as [Lc|Lc]; auto.
  rewrite (u32_id (c + 2)) by lia.
  destruct (Hfw c ltac:(lia) ltac:(lia) ltac:(lia)) as [Sc _].
  assert (Kc : key' hid (h_slot h c) = key hid (h_slot h c)) by auto.
  assert (Kd : key' hid dt = key hid dt) by auto.
  (* the selected child is the same, and it is the smaller one *)
  assert (exists c1, 2 <= c1 < h_count h /\ parent c1 = i /\ S (h_slot h c1) /\
            (forall j, 2 <= j < h_count h -> parent j = i -> key hid (h_slot h c1) <= key hid (h_slot h j)) /\
            (if c + 2 <? h_count h
             then if key' hid (h_slot h c) >? key' hid (h_slot h (c + 2)) then (c + 2, h_slot h (c + 2)) else (c, h_slot h c)
             else (c, h_slot h c)) = (c1, h_slot h c1) /\
            (if c + 2 <? h_count h
             then if key hid (h_slot h c) >? key hid (h_slot h (c + 2)) then (c + 2, h_slot h (c + 2)) else (c, h_slot h c)
             else (c, h_slot h c)) = (c1, h_slot h c1)) as [c1 [R1 [P1 [S1 [M1 [E1 E2]]]]]].
  { destruct (Z.ltb_spec (c + 2) (h_count h)) as [Lr|Lr].
    - pose proof (parent_facts (c + 2) ltac:(lia)) as [Q _]. rewrite Lpb in Q.
      destruct (Hfw (c + 2) ltac:(lia) ltac:(congruence) ltac:(lia)) as [Sr _].
      rewrite Kc, (Hk _ Sr).
      destruct (Z.gtb_spec (key hid (h_slot h c)) (key hid (h_slot h (c + 2)))) as [G|G].
      + exists (c + 2). repeat split; auto; try lia.
        intros j Hj Hpj. destruct (parent_children j i ltac:(lia) Hpj) as [Ej|Ej]; rewrite <- Heqc in Ej; subst j; lia.
      + exists c. repeat split; auto; try lia.
        intros j Hj Hpj. destruct (parent_children j i ltac:(lia) Hpj) as [Ej|Ej]; rewrite <- Heqc in Ej; subst j; lia.
    - exists c. repeat split; auto; try lia.
      intros j Hj Hpj. destruct (parent_children j i ltac:(lia) Hpj) as [Ej|Ej]; rewrite <- Heqc in Ej; subst j; lia. }
  rewrite E1, E2. rewrite Kd, (Hk _ S1).
  destruct (Z.leb_spec (key hid dt) (key hid (h_slot h c1))) as [L|L]; auto.
  destruct (hole_down key S hid h i dt c1 Hh Hpl R1 P1 M1 L) as [Hh2 Hp2].
  pose proof (parent_facts c1 ltac:(lia)) as [Pp1 Pr1]. rewrite P1 in Pp1, Pr1.
  apply IH; auto. rewrite hs_count. lia.
Qed.

Lemma resift_ext h i dt : hole key S hid h i dt -> resift key' h dt i = resift key h dt i.
Proof.
  intros Hh. unfold resift. pose proof Hh as [Hc [Hi Hp] _ _ _ _ _].
  assert (Hfu : i <= Z.of_nat (Z.to_nat i)) by (rewrite Z2Nat.id; lia).
  rewrite !heap_id_mod, Hp.
  rewrite (sift_up_ext dt _ _ _ false Hh Hfu).
  destruct (sift_up (Z.to_nat i) key hid dt h i false) as [[h1 i1] su] eqn:E1.
  destruct su; auto.
  assert (Hs : false = true -> kids_ge key hid h i dt) by discriminate.
  destruct (sift_up_ok key S hid Hhid dt _ _ _ _ Hh Hfu Hs _ _ _ E1) as [H1 [F1 [P1 [K1 N1]]]].
  destruct (N1 eq_refl) as [-> ->].
  rewrite (sift_down_ext dt _ _ _ Hh P1); auto. rewrite Z2Nat.id; lia.
Qed.

End KeyFrame.

Lemma remove_step_ext key0 key S hid hr h dt idx :
  hid = 0 \/ hid = 1 ->
  hinv key0 S hid hr -> h_count hr = idx + 2 -> h_count h = idx -> idx mod 2 = 0 -> 0 < idx ->
  (forall j, 0 <= j < idx + 2 -> j mod 2 = hid -> h_slot h j = h_slot hr j) ->
  (forall u, h_ent h hid u = h_ent hr hid u) -> S dt ->
  (forall g u, u <> dt -> key g u = key0 g u) ->
  remove_step key dt idx h hid = remove_step key0 dt idx h hid.
Proof.
  intros Hhid Hi Hcr Hc Hev Hpos Hs He Sdt Hk.
  assert (B : BOUND = 2147483646) by reflexivity.
  pose proof (hi_cnt _ _ _ _ Hi) as Hcn.
  pose proof (even_pos idx Hev Hpos) as I2.
  unfold remove_step. rewrite (u32_id (idx + hid)) by (unfold u32; lia).
  assert (Hpar : (idx + hid) mod 2 = hid).
  { destruct Hhid; subst hid; [rewrite Z.add_0_r; auto|].
    rewrite <- Z.add_mod_idemp_l, Hev by lia. reflexivity. }
  rewrite (Hs (idx + hid)) by (auto; lia).
  set (h1 := set_slot h (idx + hid) 0).
  destruct (Z.eqb_spec (h_slot hr (idx + hid)) dt) as [El|Nl]; auto.
  assert (Hs1 : forall j, 0 <= j < idx -> j mod 2 = hid -> h_slot h1 j = h_slot hr j).
  { intros j Hj Hp. unfold h1; simpl. unfold upd. destruct (Z.eqb_spec j (idx + hid)); [lia|]. apply Hs; auto; lia. }
  assert (He1 : forall u, S u -> h_ent h1 hid u = h_ent hr hid u) by (intros; apply He).
  pose proof (hole_of_cut key0 S hid hr h1 dt idx Hhid Hi Hcr Hc Hev ltac:(lia) ltac:(lia) Hs1 He1 Sdt Nl) as Ho.
  assert (Ee : h_ent h1 hid dt = h_ent hr hid dt) by apply He.
  rewrite Ee.
  apply (resift_ext key0 key (fun u => S u /\ u <> dt) hid Hhid); auto.
  intros u [_ Nu]. apply Hk; auto.
Qed.

Theorem remove_ext key0 key S h dt :
  Inv key0 S h -> S dt -> (forall g u, u <> dt -> key g u = key0 g u) ->
  remove key h dt = remove key0 h dt.
Proof.
  intros [[Hc Hev] Hn H0 H1 Hz Hs] Sdt Hk. unfold remove, DTH_ID_COUNT. cbv zeta.
  assert (B : BOUND = 2147483646) by reflexivity. assert (CM : CAPMAX = 2147483622) by reflexivity.
  destruct (hi_bwd _ _ _ _ H0 dt Sdt) as [R0 [P0 E0]].
  destruct (hi_bwd _ _ _ _ H1 dt Sdt) as [R1 [P1 E1]].
  assert (C2 : 2 <= h_count h).
  { destruct (Z.eq_dec (h_ent h 1 dt) 0) as [X|X]; [rewrite X in P1; discriminate|lia]. }
  rewrite !(u32_id (h_count h - 2)) by lia.
  set (idx := h_count h - 2) in *.
  assert (Iev : idx mod 2 = 0).
  { unfold idx. rewrite <- Zminus_mod_idemp_l, Hev. reflexivity. }
  destruct (Z.eqb_spec idx 0) as [Ei|Ni]; auto.
  assert (Ipos : 0 < idx) by lia.
  set (h0 := set_count h idx).
  rewrite (remove_step_ext key0 key S 0 h h0 dt idx (or_introl eq_refl) H0 ltac:(lia) eq_refl Iev Ipos
             ltac:(intros; reflexivity) ltac:(intros; reflexivity) Sdt Hk).
  destruct (remove_step_ok key0 S 0 h h0 dt idx (or_introl eq_refl) H0 ltac:(lia) eq_refl Iev Ipos
                ltac:(intros; reflexivity) ltac:(intros; reflexivity) Sdt)
      as [I0 [C0 [G0 [O0 [Z0 [L0 [EO0 [EI0 N0]]]]]]]].
  set (h1 := remove_step key0 dt idx h0 0) in *.
  rewrite (remove_step_ext key0 key S 1 h h1 dt idx (or_intror eq_refl) H1 ltac:(lia) C0 Iev Ipos
             ltac:(intros j Hj Hp; rewrite O0 by lia; reflexivity)
             ltac:(intros u; rewrite EO0 by lia; reflexivity) Sdt Hk).
  reflexivity.
Qed.

Lemma Inv_iff key key' (S S' : Z -> Prop) h :
  Inv key S h -> (forall u, S u <-> S' u) -> (forall g u, S u -> key' g u = key g u) -> Inv key' S' h.
Proof.
  intros [Hc Hn H0 H1 Hz Hs] HS Hk. constructor; auto.
  - intro X. apply Hn. apply HS. exact X.
  - eapply hinv_ext; eauto.
  - eapply hinv_ext; eauto.
Qed.

(* whenever an operation on timer dt leaves needs_program clear, the target min slot still holds the same timer,
   and that timer is not dt (so neither the minimum nor its key changed) *)
Lemma remove_touch key S h dt :
  Inv key S h -> S dt ->
  h_np (remove key h dt) = true \/
  (h_slot (remove key h dt) 0 = h_slot h 0 /\ h_slot (remove key h dt) 0 <> dt).
Proof.
  intros I Sdt. destruct (remove_inv key S h dt I Sdt) as [I' [_ [_ [_ [[_ [X|[X0 _]]] _]]]]]; auto.
  right. split; auto. intros E.
  assert (Nz : dt <> 0) by (intros ->; exact (iv_null _ _ _ I Sdt)).
  destruct (Z.eq_dec (h_count (remove key h dt)) 0) as [C|C].
  - apply Nz. rewrite <- E. apply (iv_zero _ _ _ I'). lia.
  - destruct (iv_cnt _ _ _ I') as [Cb _].
    destruct (hi_fwd _ _ _ _ (iv_h0 _ _ _ I') 0 ltac:(lia) eq_refl) as [[_ N] _]. apply N. exact E.
Qed.

(* population bound: if every stored timer is one of the records 1..N, the heap has at most 2N cells in use *)
Lemma NoDup_map_inj {A B} (f : A -> B) (l : list A) :
  NoDup l -> (forall x y, In x l -> In y l -> f x = f y -> x = y) -> NoDup (map f l).
Proof.
  induction 1 as [|a l Na Nl IH]; intros Inj; simpl; constructor.
  - intros Hin. apply in_map_iff in Hin. destruct Hin as [y [E Hy]].
    apply Na. rewrite (Inj a y); auto; [left; auto|right; auto].
  - apply IH. intros x y Hx Hy. apply Inj; right; auto.
Qed.

Lemma zrange_NoDup n : NoDup (zrange n).
Proof.
  unfold zrange. apply NoDup_map_inj; [apply seq_NoDup|]. intros x y _ _ E. lia.
Qed.
Lemma zrange_In n x : In x (zrange n) <-> 0 <= x < n.
Proof.
  unfold zrange. rewrite in_map_iff. split.
  - intros [k [<- Hk]]. apply in_seq in Hk. lia.
  - intros H. exists (Z.to_nat x). split; [lia|]. apply in_seq. lia.
Qed.
Lemma zrange_length n : 0 <= n -> Z.of_nat (length (zrange n)) = n.
Proof. intros. unfold zrange. rewrite map_length, seq_length. lia. Qed.

Section CountBound.
Local Ltac Zify.zify_post_hook ::= Z.div_mod_to_equations.
Lemma count_bound key S h N :
  0 <= N -> Inv key S h -> (forall t, S t -> 1 <= t <= N) -> h_count h <= 2 * N.
Proof.
  intros HN I Hid. destruct (iv_cnt _ _ _ I) as [[C0 _] Cev].
  set (n := h_count h / 2). assert (Hn : h_count h = 2 * n) by (unfold n; lia).
  set (l := map (fun k => h_slot h (2 * k)) (zrange n)).
  assert (ND : NoDup l).
  { unfold l. apply NoDup_map_inj; [apply zrange_NoDup|]. intros x y Hx Hy E.
    apply zrange_In in Hx. apply zrange_In in Hy.
    destruct (heap_is_set key S h I) as [HS _]. destruct (HS 0 (or_introl eq_refl)) as [_ [_ Inj]].
    assert (2 * x = 2 * y); [|lia]. apply Inj; auto; try lia. }
  assert (INC : incl l (map (fun k => k + 1) (zrange N))).
  { intros t Ht. unfold l in Ht. apply in_map_iff in Ht. destruct Ht as [k [<- Hk]]. apply zrange_In in Hk.
    destruct (hi_fwd _ _ _ _ (iv_h0 _ _ _ I) (2 * k) ltac:(lia) ltac:(lia)) as [St _].
    specialize (Hid _ St). apply in_map_iff. exists (h_slot h (2 * k) - 1). split; [lia|]. apply zrange_In. lia. }
  pose proof (NoDup_incl_length ND INC) as L. unfold l in L. rewrite !map_length in L.
  assert (0 <= n) by lia.
  pose proof (zrange_length n ltac:(lia)). pose proof (zrange_length N HN). lia.
Qed.
End CountBound.
