(* SLane_realtime.v — the real-time reading of FIFO for the serial-lane model: "if the submission of A returned before
   the submission of B exchanged the tail (a fortiori: before B's submission began), then A's callout begins before
   B's".  The model's steps are instrumented with ghost history only (no change to SLane.step): which item each
   thread's current dispatch_async call carries, which items' calls have returned, and for each item the set of items
   whose calls had returned when it was assigned its place. *)
From Coq Require Import ZArith Bool List Lia.
From Verif Require Import Word Conc SLane SLane_proofs SLane_progress.
Import ListNotations.
Local Open Scope Z_scope.

Record hist := {
  cur : Z -> Z;            (* the item carried by thread t's current dispatch_async call *)
  returned : list Z;       (* items whose dispatch_async call has returned *)
  pre : Z -> list Z        (* pre b = items whose call had returned when b's call exchanged the tail *)
}.

Definition h0 : hist := {| cur := fun _ => -1; returned := []; pre := fun _ => [] |}.

Definition is_idle (p : pc) : bool := match p with Idle => true | _ => false end.
Definition in_async (p : pc) : bool := match qos_of p with Some _ => true | None => match p with PA_rootpush => true | _ => false end end.

(* the ghost update that goes with a step s --a--> s' *)
Definition hstep (s : gst) (a : action) (s' : gst) (h : hist) : hist :=
  match a with
  | ABegin _ _ => h
  | AStepO _ => h
  | AStep t =>
      match pcs s t with
      | PA_xchg _ => {| cur := upd (cur h) t (nextid s); returned := returned h; pre := upd (pre h) (nextid s) (returned h) |}
      | _ => if in_async (pcs s t) && is_idle (pcs s' t)
             then {| cur := cur h; returned := cur h t :: returned h; pre := pre h |}
             else h
      end
  end.

Inductive xreach (rb : Z) : gst -> hist -> Prop :=
| xr_init : xreach rb (init_state rb) h0
| xr_step s h a s' : xreach rb s h -> step s a s' -> xreach rb s' (hstep s a s' h).

Lemma xreach_reach rb s h : xreach rb s h -> reach rb s.
Proof. induction 1; [apply reach_init; reflexivity | eapply reach_step; eauto]. Qed.

Lemma nextid_mono s a s' : step s a s' -> nextid s <= nextid s'.
Proof.
  destruct a as [t c|t|t]; intros [_ B].
  3: { unfold ostep in B. destruct (pcs s t); try discriminate. destruct was_empty; [discriminate|]. injection B as <-. cbn. lia. }
  - unfold begin in B. destruct (pcs s t); try discriminate. destruct c.
    + destruct ((0 <=? qos) && (qos <? 8)); [|discriminate]. injection B as <-. cbn. lia.
    + destruct (0 <? rootq s); [|discriminate]. injection B as <-. cbn. lia.
  - unfold gstep in B. destruct (pcs s t); try discriminate;
      repeat match type of B with
             | context [match ?x with _ => _ end] => destruct x; try discriminate
             end;
      injection B as <-; cbn [nextid set_pc set_st set_lst set_rootq set_token set_wakers]; lia.
Qed.

(* the history invariant: every recorded item is a submitted one, and what had returned before b's place was
   assigned is older than b *)
Definition HInv (s : gst) (h : hist) : Prop :=
  (forall t, cur h t < nextid s) /\
  (forall a, In a (returned h) -> a < nextid s) /\
  (forall b a, In a (pre h b) -> a < b).

Lemma HInv_reach rb s h : xreach rb s h -> HInv s h.
Proof.
  induction 1 as [|s h a s' R IH St].
  - unfold HInv, h0, init_state; cbn. repeat split; intros; try contradiction; try lia.
  - destruct IH as (C & Rn & P). pose proof (nextid_mono s a s' St) as Mono.
    unfold hstep. destruct a as [t c|t|t].
    3: { repeat split; intros; [specialize (C t0) | specialize (Rn a H) | exact (P b a H)]; lia. }
    + repeat split; intros; [specialize (C t0) | specialize (Rn a H) | exact (P b a H)]; lia.
    + destruct St as [V B].
      destruct (pcs s t) eqn:Hpc.
      all: try (destruct (in_async _ && is_idle _); unfold HInv; cbn [cur returned pre];
                [ repeat split; intros; [specialize (C t0); lia | destruct H as [<-|H]; [specialize (C t); lia | specialize (Rn a H); lia] | exact (P b a H)]
                | repeat split; intros; [specialize (C t0); lia | specialize (Rn a H); lia | exact (P b a H)] ]).
      (* PA_xchg: the item gets id nextid s, and nextid s' = nextid s + 1 *)
      assert (N' : nextid s' = nextid s + 1).
      { unfold gstep in B. rewrite Hpc in B. injection B as <-. reflexivity. }
      unfold HInv. cbn [cur returned pre]. repeat split.
      * intros u. unfold upd. destruct (u =? t); [lia | specialize (C u); lia].
      * intros a Ha. specialize (Rn a Ha). lia.
      * intros b a Ha. unfold upd in Ha. destruct (Z.eqb_spec b (nextid s)) as [->|Nb]; [exact (Rn a Ha) | exact (P b a Ha)].
Qed.

(* real-time FIFO: in every reachable state, if A's call had returned when B's call took its place in the queue, then
   A is older than B; hence (kth_started_is_k) A's callout begins before B's, and (callouts_exclusive) it has ended by
   then *)
Theorem realtime_order rb s h a b :
  0 <= rb < 2 -> xreach rb s h -> In a (pre h b) -> a < b.
Proof. intros _ X H. destruct (HInv_reach rb s h X) as (_ & _ & P). exact (P b a H). Qed.

Theorem realtime_fifo rb s h a b ka kb :
  0 <= rb < 2 -> xreach rb s h -> In a (pre h b) ->
  (ka < length (started s))%nat -> (kb < length (started s))%nat ->
  nth ka (rev (started s)) (-1) = a -> nth kb (rev (started s)) (-1) = b -> (ka < kb)%nat.
Proof.
  intros Hrb X Hin Ha Hb Ea Eb. pose proof (realtime_order rb s h a b Hrb X Hin) as Lt.
  rewrite (kth_started_is_k rb s ka Hrb (xreach_reach rb s h X) Ha) in Ea.
  rewrite (kth_started_is_k rb s kb Hrb (xreach_reach rb s h X) Hb) in Eb. lia.
Qed.

(* program order is the special case: a thread's earlier dispatch_async has returned (its item is in `returned`) before
   its next call begins, so it is in `pre` of the later item *)
Theorem returned_is_recorded rb s h t q s' :
  xreach rb s h -> valid_tid t -> pcs s t = PA_xchg q -> gstep s t = Some s' ->
  pre (hstep s (AStep t) s' h) (nextid s) = returned h.
Proof. intros _ _ Hpc _. unfold hstep. rewrite Hpc. cbn [pre]. apply upd_same. Qed.
