(* SLane_realtime.v — the real-time reading of FIFO for the serial-lane model: "if the submission of A returned before
   the submission of B exchanged the tail (a fortiori: before B's submission began), then A's callout begins before
   B's".  The model's steps are instrumented with ghost history only (no change to SLane.step): which item each
   thread's current dispatch_async call carries, which items' calls have returned, and for each item the set of items
   whose calls had returned when it was assigned its place. *)
From Coq Require Import ZArith Bool List Lia.
From Verif Require Import Word Conc SLane SLane_proofs SLane_progress.
Import ListNotations.
Local Open Scope Z_scope.

Record hist := {
  cur : Z -> Z;            (* the item carried by thread t's current dispatch_async call *)
  returned : list Z;       (* items whose dispatch_async call has returned *)
  pre : Z -> list Z        (* pre b = items whose call had returned when b's call exchanged the tail *)
}.

Definition h0 : hist := {| cur := fun _ => -1; returned := []; pre := fun _ => [] |}.

Definition is_idle (p : pc) : bool := match p with Idle => true | _ => false end.
Definition in_async (p : pc) : bool := match qos_of p with Some _ => true | None => match p with PA_rootpush => true | _ => false end end.

(* the ghost update that goes with a step s --a--> s' *)
Definition hstep (s : gst) (a : action) (s' : gst) (h : hist) : hist :=
  match a with
  | ABegin _ _ => h
  | AStepO _ => h
  | AStep t =>
      match pcs s t with
      | PA_xchg _ => {| cur := upd (cur h) t (nextid s); returned := returned h; pre := upd (pre h) (nextid s) (returned h) |}
      | _ => if in_async (pcs s t) && is_idle (pcs s' t)
             then {| cur := cur h; returned := cur h t :: returned h; pre := pre h |}
             else h
      end
  end.

Inductive xreach (rb : Z) : gst -> hist -> Prop :=
| xr_init : xreach rb (init_state rb) h0
| xr_step s h a s' : xreach rb s h -> step s a s' -> xreach rb s' (hstep s a s' h).

Lemma xreach_reach rb s h : xreach rb s h -> reach rb s.
Proof. induction 1; [apply reach_init; reflexivity | eapply reach_step; eauto]. Qed.

Lemma nextid_mono s a s' : step s a s' -> nextid s <= nextid s'.
Proof.
  destruct a as [t c|t|t]; intros [_ B].
  3: { unfold ostep in B. destruct (pcs s t); try discriminate. destruct was_empty; [discriminate|]. injection B as <-. cbn. lia. }
  - unfold begin in B. destruct (pcs s t); try discriminate. destruct c.
    + destruct ((0 <=? qos) && (qos <? 8)); [|discriminate]. injection B as <-. cbn. lia.
    + destruct (0 <? rootq s); [|discriminate]. injection B as <-. cbn. lia.
  - unfold gstep in B. destruct (pcs s t); try discriminate;
      repeat match type of B with
             | context [match ?x with _ => _ end] => destruct x; try discriminate
             end;
      injection B as <-; cbn [nextid set_pc set_st set_lst set_rootq set_token set_wakers]; lia.
Qed.

(* the history invariant: every recorded item is a submitted one, and what had returned before b's place was
   assigned is older than b *)
Definition HInv (s : gst) (h : hist) : Prop :=
  (forall t, cur h t < nextid s) /\
  (forall a, In a (returned h) -> a < nextid s) /\
  (forall b a, In a (pre h b) -> a < b).

Lemma HInv_reach rb s h : xreach rb s h -> HInv s h.
Proof.
  induction 1 as [|s h a s' R IH St].
  - unfold HInv, h0, init_state; cbn. repeat split; intros; try contradiction; try lia.
  - destruct IH as (C & Rn & P). pose proof (nextid_mono s a s' St) as Mono.
    unfold hstep. destruct a as [t c|t|t].
    3: { repeat split; intros; [specialize (C t0) | specialize (Rn a H) | exact (P b a H)]; lia. }
    + repeat split; intros; [specialize (C t0) | specialize (Rn a H) | exact (P b a H)]; lia.
    + destruct St as [V B].
      destruct (pcs s t) eqn:Hpc.
      all: try (destruct (in_async _ && is_idle _); unfold HInv; cbn [cur returned pre];
                [ repeat split; intros; [specialize (C t0); lia | destruct H as [<-|H]; [specialize (C t); lia | specialize (Rn a H); lia] | exact (P b a H)]
                | repeat split; intros; [specialize (C t0); lia | specialize (Rn a H); lia | exact (P b a H)] ]).
      (* PA_xchg: the item gets id nextid s, and nextid s' = nextid s + 1 *)
      assert (N' : nextid s' = nextid s + 1).
      { unfold gstep in B. rewrite Hpc in B. injection B as <-. reflexivity. }
      unfold HInv. cbn [cur returned pre]. repeat split.
      * intros u. unfold upd. destruct (u =? t); [lia | specialize (C u); lia].
      * intros a Ha. specialize (Rn a Ha). lia.
      * intros b a Ha. unfold upd in Ha. destruct (Z.eqb_spec b (nextid s)) as [->|Nb]; [exact (Rn a Ha) | exact (P b a Ha)].
Qed.

(* real-time FIFO: in every reachable state, if A's call had returned when B's call took its place in the queue, then
   A is older than B; hence (kth_started_is_k) A's callout begins before B's, and (callouts_exclusive) it has ended by
   then *)
Theorem realtime_order rb s h a b :
  0 <= rb < 2 -> xreach rb s h -> In a (pre h b) -> a < b.
Proof. intros _ X H. destruct (HInv_reach rb s h X) as (_ & _ & P). exact (P b a H). Qed.

Theorem realtime_fifo rb s h a b ka kb :
  0 <= rb < 2 -> xreach rb s h -> In a (pre h b) ->
  (ka < length (started s))%nat -> (kb < length (started s))%nat ->
  nth ka (rev (started s)) (-1) = a -> nth kb (rev (started s)) (-1) = b -> (ka < kb)%nat.
Proof.
  intros Hrb X Hin Ha Hb Ea Eb. pose proof (realtime_order rb s h a b Hrb X Hin) as Lt.
  rewrite (kth_started_is_k rb s ka Hrb (xreach_reach rb s h X) Ha) in Ea.
  rewrite (kth_started_is_k rb s kb Hrb (xreach_reach rb s h X) Hb) in Eb. lia.
Qed.

(* program order is the special case: a thread's earlier dispatch_async has returned (its item is in `returned`) before
   its next call begins, so it is in `pre` of the later item *)
Theorem returned_is_recorded rb s h t q s' :
  xreach rb s h -> valid_tid t -> pcs s t = PA_xchg q -> gstep s t = Some s' ->
  pre (hstep s (AStep t) s' h) (nextid s) = returned h.
Proof. intros _ _ Hpc _. unfold hstep. rewrite Hpc. cbn [pre]. apply upd_same. Qed.

(* ---------------------------------------------------------------- "A has finished when B starts" *)
(* how a step changes the list of started callouts *)
Lemma gstep_started s u s' : gstep s u = Some s' ->
  started s' = started s \/ exists o i m, pcs s u = PW_run o i m /\ started s' = i :: started s /\ pcs s' u = PW_incall o i m.
Proof.
  intros B. unfold gstep in B. destruct (pcs s u) eqn:Hpc; try discriminate.
  all: try solve [right; injection B as <-; do 3 eexists; cbn [started pcs]; rewrite upd_same; repeat split; reflexivity].
  all: left;
    repeat match type of B with
           | context [match ?x with _ => _ end] => destruct x; try discriminate
           end;
    injection B as <-; reflexivity.
Qed.

Lemma cons_neq (x : Z) l : x :: l <> l.
Proof. induction l as [|y l IH]; intros E; [discriminate|]. injection E as E1 E2. apply IH. rewrite <- E1 in E2. exact E2. Qed.

Definition RunHead (s : gst) : Prop := forall t o i m, pcs s t = PW_incall o i m -> exists rest, started s = i :: rest.

Lemma RunHead_reach rb s : 0 <= rb < 2 -> reach rb s -> RunHead s.
Proof.
  intros Hrb R. induction R as [s0 ->|s a s' R IH St].
  - intros t o i m H. unfold init_state in H; cbn in H. discriminate.
  - pose proof (Inv_reachable rb s Hrb R) as I.
    intros t o i m H. destruct a as [u c|u|u]; destruct St as [V B].
    + assert (E : started s' = started s /\ (u = t -> False)).
      { unfold begin in B. destruct (pcs s u) eqn:Hu; try discriminate. destruct c.
        - destruct ((0 <=? qos) && (qos <? 8)); [|discriminate]. injection B as <-. split; [reflexivity|].
          intros ->. cbn [pcs set_pc] in H. rewrite upd_same in H. discriminate.
        - destruct (0 <? rootq s); [|discriminate]. injection B as <-. split; [reflexivity|].
          intros ->. cbn [pcs set_pc set_token set_rootq] in H. rewrite upd_same in H. discriminate. }
      destruct E as [E N]. rewrite E. apply (IH t o i m).
      rewrite <- (begin_frame s u c s' t B); [exact H|]. intros ->. apply N. reflexivity.
    + destruct (gstep_started s u s' B) as [E|(o1 & i1 & m1 & Hu & E & Hu')].
      * rewrite E. destruct (Z.eq_dec t u) as [->|N].
        -- (* u itself ends up in a callout without having started one: it was already there, impossible since every step moves on *)
           exfalso. unfold gstep in B. destruct (pcs s u) eqn:Hpc; try discriminate;
             repeat match type of B with
                    | context [match ?x with _ => _ end] => destruct x; try discriminate
                    end;
             injection B as <-; cbn [pcs set_pc set_st set_lst set_rootq set_token set_wakers started] in *;
             rewrite upd_same in H; try discriminate.
           cbn [started] in E. exact (cons_neq _ _ E).
        -- apply (IH t o i m). rewrite <- (gstep_frame s u s' t B N). exact H.
      * destruct (Z.eq_dec t u) as [->|N].
        -- rewrite Hu' in H. injection H as <- <- <-. exists (started s). exact E.
        -- exfalso. rewrite (gstep_frame s u s' t B N) in H.
           assert (Tu : token_pc (pcs s u) = true) by (rewrite Hu; reflexivity).
           assert (Tt : token_pc (pcs s t) = true) by (rewrite H; reflexivity).
           apply N. symmetry. exact (holder_unique s u t I Tu Tt).
    + assert (E : started s' = started s /\ (u = t -> False)).
      { unfold ostep in B. destruct (pcs s u) eqn:Hu; try discriminate. destruct was_empty; [discriminate|]. injection B as <-.
        split; [reflexivity|]. intros ->. cbn [pcs set_pc set_lst] in H. rewrite upd_same in H. discriminate. }
      destruct E as [E N]. rewrite E. apply (IH t o i m).
      rewrite <- (ostep_frame s u s' t B); [exact H|]. intros ->. apply N. reflexivity.
Qed.

Definition finished (s : gst) (i : Z) : Prop := In i (started s) /\ forall t, running s <> Some (t, i).

(* every callout that began before the most recent one has ended *)
Theorem earlier_started_have_finished rb s b rest a :
  0 <= rb < 2 -> reach rb s -> started s = b :: rest -> In a rest -> finished s a.
Proof.
  intros Hrb R E Ha. split; [rewrite E; right; exact Ha|].
  intros t Hr. destruct (Inv_reachable rb s Hrb R) as [[r G] T].
  pose proof (g_running s r G) as Gr. rewrite Hr in Gr.
  destruct (token s) as [[w|]|] eqn:K; try discriminate.
  unfold running_pc in Gr. destruct (pcs s w) eqn:Hw; try discriminate. injection Gr as E1 E2.
  destruct (RunHead_reach rb s Hrb R w owned i more Hw) as [rest' E'].
  rewrite E in E'. injection E' as Eb _.
  destruct (started_in_order rb s Hrb R) as (_ & _ & ND & _). rewrite E in ND. inversion ND as [|x l Hx Hl]. subst.
  apply Hx. exact Ha.
Qed.

(* ... and at the very step at which a callout begins, no callout of the lane is running: everything started before has ended *)
Theorem start_finds_nothing_running rb s t o b m :
  0 <= rb < 2 -> reach rb s -> pcs s t = PW_run o b m -> running s = None /\ forall a, In a (started s) -> finished s a.
Proof.
  intros Hrb R Hpc. destruct (Inv_reachable rb s Hrb R) as [[r G] T].
  pose proof (holder s t (T t)) as K. rewrite Hpc in K. specialize (K eq_refl).
  pose proof (g_running s r G) as Gr. rewrite K, Hpc in Gr. cbn [running_pc] in Gr.
  split; [exact Gr|]. intros a Ha. split; [exact Ha|]. intros u. rewrite Gr. discriminate.
Qed.

(* ---------------------------------------------------------------- program order of one thread *)
Definition carrying (p : pc) : bool :=
  match p with PA_link _ _ _ | PA_probe _ | PA_wake _ _ | PA_rootpush | PA_oprobe _ | PA_owake _ => true | _ => false end.

(* a thread that is not in the middle of a submission has its last submitted item recorded as returned *)
Definition ProgOrd (s : gst) (h : hist) : Prop :=
  forall t, carrying (pcs s t) = false -> cur h t = -1 \/ In (cur h t) (returned h).

Lemma carrying_step s u s' : gstep s u = Some s' ->
  (carrying (pcs s u) = true -> carrying (pcs s' u) = true \/ pcs s' u = Idle) /\
  (carrying (pcs s u) = false -> carrying (pcs s' u) = false \/ exists q, pcs s u = PA_xchg q).
Proof.
  intros B. unfold gstep in B. destruct (pcs s u) eqn:Hpc; try discriminate.
  all: repeat match type of B with
              | context [match ?x with _ => _ end] => destruct x; try discriminate
              end;
       injection B as <-; cbn [pcs set_pc set_st set_lst set_rootq set_token set_wakers]; rewrite upd_same; cbn [carrying];
       split; intros H; try discriminate; eauto.
Qed.

Lemma hstep_nonxchg s u s' h : (forall q, pcs s u <> PA_xchg q) ->
  cur (hstep s (AStep u) s' h) = cur h /\ pre (hstep s (AStep u) s' h) = pre h /\
  ((returned (hstep s (AStep u) s' h) = returned h) \/
   (returned (hstep s (AStep u) s' h) = cur h u :: returned h /\ in_async (pcs s u) = true /\ pcs s' u = Idle)).
Proof.
  intros NX. unfold hstep. destruct (pcs s u) eqn:Hu; try (exfalso; apply (NX i); reflexivity).
  all: destruct (in_async _) eqn:A; cbn [andb]; try (repeat split; left; reflexivity).
  all: destruct (pcs s' u) eqn:Hu'; cbn [is_idle]; repeat split; try (left; reflexivity).
  all: right; repeat split; reflexivity.
Qed.

Lemma carrying_in_async p : carrying p = true -> in_async p = true.
Proof. destruct p; cbn; try discriminate; reflexivity. Qed.

Lemma ProgOrd_reach rb s h : xreach rb s h -> ProgOrd s h.
Proof.
  induction 1 as [|s h a s' X IH St].
  - intros t _. left. reflexivity.
  - intros t Hc. destruct a as [u c|u|u]; destruct St as [V B].
    + (* begin: no ghost change; the beginner's new pc is not carrying, neither was Idle *)
      cbn [hstep]. destruct (Z.eq_dec t u) as [->|N].
      * apply IH. unfold begin in B. destruct (pcs s u); try discriminate. reflexivity.
      * apply IH. rewrite <- (begin_frame s u c s' t B N). exact Hc.
    + destruct (pcs s u) eqn:Hu.
      2: { (* PA_xchg: the thread becomes carrying; the others are unaffected *)
        unfold hstep. rewrite Hu. cbn [cur returned].
        destruct (Z.eq_dec t u) as [->|N].
        - exfalso. unfold gstep in B. rewrite Hu in B. injection B as <-. cbn [pcs] in Hc. rewrite upd_same in Hc. discriminate.
        - rewrite upd_other by exact N. apply IH. rewrite <- (gstep_frame s u s' t B N). exact Hc. }
      all: assert (NX : forall q, pcs s u <> PA_xchg q) by (rewrite Hu; discriminate);
           destruct (hstep_nonxchg s u s' h NX) as (Ec & _ & Er); rewrite Ec;
           (assert (Mono : forall x, In x (returned h) -> In x (returned (hstep s (AStep u) s' h)))
              by (intros x Hx; destruct Er as [Er|(Er & _ & _)]; rewrite Er; [exact Hx | right; exact Hx]));
           destruct (Z.eq_dec t u) as [->|N];
           [ destruct (carrying_step s u s' B) as [C1 C2];
             destruct (carrying (pcs s u)) eqn:Cu;
             [ (* was carrying, is not any more: the call returned, its item is recorded *)
               destruct (C1 eq_refl) as [C|C]; [congruence|];
               destruct Er as [Er|(Er & _ & _)];
               [ exfalso; unfold hstep in Er; rewrite Hu in Er; rewrite <- Hu in Er; rewrite (carrying_in_async _ Cu), C in Er; cbn in Er;
                 apply (cons_neq _ _ Er)
               | right; rewrite Er; left; reflexivity ]
             | destruct (IH u Cu) as [E|E]; [left; exact E | right; apply Mono; exact E] ]
           | assert (Hc0 : carrying (pcs s t) = false) by (rewrite <- (gstep_frame s u s' t B N); exact Hc);
             destruct (IH t Hc0) as [E|E]; [left; exact E | right; apply Mono; exact E] ].
    + cbn [hstep]. destruct (Z.eq_dec t u) as [->|N].
      * exfalso. unfold ostep in B. destruct (pcs s u); try discriminate. destruct was_empty; [discriminate|]. injection B as <-.
        cbn [pcs set_pc set_lst] in Hc. rewrite upd_same in Hc. discriminate.
      * apply IH. rewrite <- (ostep_frame s u s' t B N). exact Hc.
Qed.

(* program order: when a thread's next dispatch_async exchanges the tail, the item of its previous dispatch_async (if any)
   is in `pre` of the new item, hence older (realtime_order) and started earlier (realtime_fifo) *)
Theorem same_thread_order rb s h t q s' :
  0 <= rb < 2 -> xreach rb s h -> valid_tid t -> pcs s t = PA_xchg q -> gstep s t = Some s' ->
  cur h t = -1 \/ In (cur h t) (pre (hstep s (AStep t) s' h) (nextid s)).
Proof.
  intros Hrb X V Hpc B. rewrite (returned_is_recorded rb s h t q s' X V Hpc B).
  apply (ProgOrd_reach rb s h X t). rewrite Hpc. reflexivity.
Qed.
