(* OnceR_proofs.v — the replay of Model/OnceR.v only ever takes steps of the global model Once (Replay.sched_reach), so the
   state it ends in is reachable and the theorems of Once_proofs apply to it; the boolean invariant OnceR.inv_b is true on every
   reachable state (a false value on a replayed state would exhibit a state outside the proved invariant). *)
From Coq Require Import ZArith Bool List Lia.
From Verif Require Import Word Conc Replay Gen_consts Gen_once Once OnceR Once_proofs.
Import ListNotations.
Local Open Scope Z_scope.

Lemma valid_tidb_spec t : valid_tidb t = true -> valid_tid t.
Proof. unfold valid_tidb, valid_tid. intros H. apply andb_true_iff in H as [A B]. apply Z.ltb_lt in A. apply Z.leb_le in B. lia. Qed.
Lemma valid_tidb_complete t : valid_tid t -> valid_tidb t = true.
Proof. unfold valid_tidb, valid_tid. intros [A B]. apply andb_true_iff. split; [apply Z.ltb_lt|apply Z.leb_le]; assumption. Qed.

Lemma reachable_rstep s : reachable (fun s => s = init_state) (rstep gstep valid_tidb) s -> reach s.
Proof.
  intros R. induction R as [s E|s a s' R IH [V St]]; [apply reach_init; exact E|].
  eapply reach_step; [exact IH|]. split; [apply valid_tidb_spec; exact V|exact St].
Qed.

Theorem replay_reach w depths chains ord s done rest :
  sched gstep once_hidden once_accepts valid_tidb (S (length ord)) w depths chains init_state ord 0 = (s, done, rest) -> reach s.
Proof.
  intros H. apply reachable_rstep.
  eapply (sched_reach gstep once_hidden once_accepts valid_tidb (fun s => s = init_state)); [|exact H].
  apply reach_init. reflexivity.
Qed.

(* ---- the boolean invariant ---- *)
Lemma Wb_W o : Wb o = W o. Proof. reflexivity. Qed.

Lemma owner_inv_b_spec s : owner_inv s -> owner_inv_b s = true.
Proof.
  unfold owner_inv, owner_inv_b. destruct (owner s) as [o|].
  - intros [Vo H]. rewrite (valid_tidb_complete o Vo). cbn [andb]. change (Wb o) with (W o).
    assert (X : forall n b, (word s = o \/ word s = W o) /\ starts s = n /\ finished s = b ->
                ((word s =? o) || (word s =? W o)) && (starts s =? n) && (if b then finished s else negb (finished s)) = true).
    { intros n b ([E|E] & S & F); rewrite E, S, F, !Z.eqb_refl; destruct b; cbn; rewrite ?orb_true_r; reflexivity. }
    assert (Y : word s = DONE /\ starts s = 1 /\ finished s = true -> (word s =? DONE) && (starts s =? 1) && finished s = true).
    { intros (E & S & F). rewrite E, S, F, !Z.eqb_refl. reflexivity. }
    destruct (pcs s o); try (apply Y; exact H).
    + apply (X 0 false H).
    + apply (X 1 false H).
    + apply (X 1 true H).
  - intros (E & S & F). rewrite E, S, F. reflexivity.
Qed.

Lemma thread_inv_b_spec s t : thread_inv s t -> thread_inv_b s t = true.
Proof.
  intros (T1 & T2 & T3 & T4 & T5 & T6). unfold thread_inv_b. apply andb_true_intro. split; [apply andb_true_intro; split|].
  - destruct (own_pcb (pcs s t)) eqn:O; [|reflexivity]. cbn.
    assert (E : owner s = Some t) by (apply T1; destruct (pcs s t); try discriminate O; reflexivity).
    rewrite E. cbn. apply Z.eqb_refl.
  - destruct (pcs s t) eqn:Hp; try reflexivity.
    + apply T6. reflexivity.
    + destruct (owner s) as [o|] eqn:E; [reflexivity|]. exfalso. apply T4; auto.
    + destruct (T2 old eq_refl) as (o & E & D). rewrite E. change (Wb o) with (W o).
      destruct D as [->|[->|[-> F]]]; rewrite ?Z.eqb_refl, ?F, ?orb_true_r; reflexivity.
    + destruct (T3 v eq_refl) as (o & E & ->). rewrite E. change (Wb o) with (W o). apply Z.eqb_refl.
    + destruct (owner s) as [o|] eqn:E; [reflexivity|]. exfalso. apply T4; auto.
  - destruct (slp s t) eqn:Hs; try reflexivity.
    destruct (T5 eq_refl) as (Hp & o & E & D). rewrite Hp, E. cbn [andb]. unfold waking. change (Wb o) with (W o).
    destruct D as [[Hw [X|[X|X]]]|X]; rewrite X, ?Hw, ?Z.eqb_refl; cbn; rewrite ?orb_true_r; reflexivity.
Qed.

Theorem inv_b_spec tids s : Inv s -> inv_b tids s = true.
Proof.
  intros (HO & HE & HT). unfold inv_b. rewrite (owner_inv_b_spec s HO), HE. cbn.
  apply forallb_forall. intros t _. apply thread_inv_b_spec. apply HT.
Qed.
Theorem inv_b_reach tids s : reach s -> inv_b tids s = true.
Proof. intros R. apply inv_b_spec. apply inv_reach. exact R. Qed.

(* what a completely replayed round ends in, by the theorems of Once_proofs: if every thread is outside its calls and the
   initialiser was started, it ran exactly once, has finished, nobody returned before that, the gate word is DONE *)
Theorem replay_end_state w depths chains ord s done rest :
  sched gstep once_hidden once_accepts valid_tidb (S (length ord)) w depths chains init_state ord 0 = (s, done, rest) ->
  starts s <= 1 /\ early_ret s = false /\ (finished s = true -> starts s = 1) /\ (word s = DONE -> finished s = true /\ starts s = 1).
Proof.
  intros H. pose proof (replay_reach _ _ _ _ _ _ _ H) as R. destruct (exactly_once s R) as (A & B & _).
  split; [exact A|]. split; [apply no_early_return; exact R|]. split; [exact B|]. apply done_implies_finished. exact R.
Qed.
