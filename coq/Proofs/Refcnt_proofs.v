(* Refcnt_proofs.v — the invariant of the reference-count model (Model/Refcnt.v) is inductive (step lemma in
   Refcnt_inv_proofs.v); finite support; the theorems exported by Properties_C17.v. *)
From Coq Require Import ZArith Bool List Lia.
From Verif Require Import Word Bits Conc Gen_consts Gen_group Gen_refcnt Refcnt Refcnt_inv_proofs Refcnt_step_proofs.
Import ListNotations.
Local Open Scope Z_scope.
Arguments hb k b : simpl nomatch.

(* ------------------------------------------------------------------ the invariant is inductive *)
Lemma inv_step s t e s' : Inv s -> contractb s t e = true -> gstep s t e = Some s' -> Inv s'.
Proof.
  intros HI Hct Hs. destruct (greg_step s t e s' HI Hct Hs) as [G' Hg']. destruct HI as (HG & HB & HT). pose proof Hs as Hs0.
  unfold gstep in Hs. destruct (tstep (pcs s t) e) as [p'|] eqn:Hts; [|discriminate].
  destruct (effect (regs s) (priv s) (gn s t) (pcs s t) e) as [[ups g']|] eqn:Hef; [|discriminate].
  injection Hs as <-. cbn [regs priv pcs gn] in *. rewrite upd_same in Hg'.
  assert (Wp' : wfpc2 p').
  { split; [eapply wf_tstep; [apply (proj1 (proj1 (HT t)))|exact Hts]|].
    pose proof (not_enter_retain_BE s t e _ (conj HG (conj HB HT)) Hs0) as X. cbn [pcs] in X. rewrite upd_same in X. exact X. }
  split; [exact G'|]. split.
  - intros k. unfold hf. cbn [priv pcs gn].
    set (f := fun u => held k (pcs s u) (gn s u)).
    set (f' := fun u => held k (upd (pcs s) t p' u) (upd (gn s) t g' u)).
    assert (Ft : f' t = held k p' g') by (unfold f'; rewrite !upd_same; reflexivity).
    replace (priv s k + held k p' g' - held k (pcs s t) (gn s t)) with (priv s k + f' t - f t)
      by (rewrite Ft; reflexivity).
    apply bounded_step.
    + intros u. unfold f. apply held_nonneg; apply HT.
    + rewrite Ft. apply held_nonneg; assumption.
    + apply HB.
    + intros u Ne. unfold f', f. rewrite !upd_other by exact Ne. reflexivity.
  - intros u. cbn [pcs gn]. destruct (Z.eq_dec u t) as [->|Ne].
    + rewrite !upd_same. split; assumption.
    + rewrite !upd_other by exact Ne. apply HT.
Qed.

Lemma reach_inv s : reach s -> Inv s.
Proof.
  apply invariant_lift.
  - intros s0 ->. apply Inv_init.
  - intros s0 [t e] s1 HI [Hct Hst]. exact (inv_step s0 t e s1 HI Hct Hst).
Qed.


(* ------------------------------------------------------------------ finite support: priv is exactly the sum *)
Lemma gstep_shape s t e s' : gstep s t e = Some s' ->
  exists p' g', tstep (pcs s t) e = Some p' /\ pcs s' = upd (pcs s) t p' /\ gn s' = upd (gn s) t g' /\
    forall k, priv s' k = priv s k + held k p' g' - held k (pcs s t) (gn s t).
Proof.
  unfold gstep. destruct (tstep (pcs s t) e) as [p'|]; [|discriminate].
  destruct (effect (regs s) (priv s) (gn s t) (pcs s t) e) as [[ups g']|]; [|discriminate].
  intros H. injection H as <-. exists p', g'. cbn. auto.
Qed.

Definition Sinv (s : gst) : Prop :=
  exists l, NoDup l /\ (forall t, ~ In t l -> pcs s t = PIdle) /\ forall k, priv s k = sumf (hf s k) l.

Lemma held_idle k g : held k PIdle g = 0.
Proof. destruct k; reflexivity. Qed.

Lemma sinv_step s t e s' : Sinv s -> gstep s t e = Some s' -> Sinv s'.
Proof.
  intros (l & ND & Hout & Hsum) Hs. destruct (gstep_shape s t e s' Hs) as (p' & g' & _ & Hp & Hg & Hpv).
  assert (Hoth : forall k u, u <> t -> hf s' k u = hf s k u).
  { intros k u Ne. unfold hf. rewrite Hp, Hg, !upd_other by exact Ne. reflexivity. }
  assert (Hme : forall k, hf s' k t = held k p' g').
  { intros k. unfold hf. rewrite Hp, Hg, !upd_same. reflexivity. }
  destruct (in_dec Z.eq_dec t l) as [Hin|Hn].
  - exists l. split; [exact ND|]. split.
    + intros u Hu. rewrite Hp, upd_other; [apply Hout; exact Hu|]. intros ->. contradiction.
    + intros k. rewrite (sumf_in (hf s k) (hf s' k) l t ND Hin (Hoth k)). rewrite Hpv, Hsum, Hme. unfold hf at 3. lia.
  - exists (t :: l). split; [constructor; assumption|]. split.
    + intros u Hu. rewrite Hp, upd_other; [apply Hout|]; intros X; apply Hu; [right; exact X|left; symmetry; exact X].
    + intros k. cbn [sumf]. rewrite (sumf_notin (hf s k) (hf s' k) l t Hn (Hoth k)). rewrite Hpv, Hsum, Hme.
      rewrite (Hout t Hn), held_idle. lia.
Qed.

Lemma reach_sinv s : reach s -> Sinv s.
Proof.
  apply invariant_lift.
  - intros s0 ->. exists []. split; [constructor|]. split; [intros; reflexivity|]. intros k. reflexivity.
  - intros s0 [t e] s1 HI [_ Hst]. exact (sinv_step s0 t e s1 HI Hst).
Qed.

(* if no thread holds a token of kind k, none is held by a call in progress *)
Lemma priv_zero s k : Sinv s -> Tinv s -> (forall t, held k (pcs s t) (gn s t) = 0) -> priv s k = 0.
Proof.
  intros (l & _ & _ & Hsum) _ H. rewrite Hsum. clear Hsum. induction l as [|a l IH]; cbn [sumf]; [reflexivity|].
  unfold hf at 1. rewrite H. lia.
Qed.
(* and conversely a token counted in priv 0 is held by nobody *)
Lemma held_zero s k t : Binv s -> Tinv s -> priv s k = 0 -> held k (pcs s t) (gn s t) = 0.
Proof.
  intros HB HT H0. pose proof (held_le s t k HB). pose proof (held_nonneg k (pcs s t) (gn s t) (proj1 (HT t)) (proj2 (HT t))). lia.
Qed.

(* ------------------------------------------------------------------ no crash path is ever taken *)
Lemma no_crash_step s t e s' : reach s -> contractb s t e = true -> gstep s t e = Some s' -> pcs s' t <> PCrash.
Proof.
  intros R Hct Hs E.
  assert (R' : reach s') by (eapply reach_step; [exact R|exact (conj Hct Hs : step s (t, e) s')]).
  pose proof (reach_inv s' R') as (G' & _ & _).
  assert (C0 : regs s' CRASH = 0) by (unfold Greg in G'; tauto).
  unfold gstep in Hs. destruct (tstep (pcs s t) e) as [p'|]; [|discriminate].
  destruct (effect (regs s) (priv s) (gn s t) (pcs s t) e) as [[ups g']|]; [|discriminate].
  injection Hs as <-. cbn [pcs regs] in *. rewrite upd_same in E. subst p'. cbn [is_crash setr greg_id Z.eqb Pos.eqb] in C0.
  discriminate.
Qed.

Lemma no_thread_crashed s : reach s -> forall t, pcs s t <> PCrash.
Proof.
  induction 1 as [s0 E0|s0 [u e] s1 R IH [Hct Hst]]; intros t.
  - subst. cbn. discriminate.
  - destruct (Z.eq_dec t u) as [->|Ne].
    + exact (no_crash_step s0 u e s1 R Hct Hst).
    + destruct (gstep_shape s0 u e s1 Hst) as (p' & g' & _ & Hp & _). rewrite Hp, upd_other by exact Ne. apply IH.
Qed.

(* ------------------------------------------------------------------ the theorems *)
Lemma held_all_zero p g : wfpc2 p -> 0 <= g ->
  held KX p g = 0 -> held KI p g = 0 -> held KBX p g = 0 -> held KBI p g = 0 -> held KBE p g = 0 -> held KE p g = 0 -> held KDP p g = 0 ->
  held KD p g = 0 -> forall k, held k p g = 0.
Proof.
  intros [W _] G HX HI HBX HBI HBE HE HDP HD k.
  destruct p; cbn [wfpc] in W; cbn [held held0 hk hb one] in *;
    repeat match goal with c : kont |- _ => destruct c end; cbn [hk hb] in *;
    repeat match goal with H : _ /\ _ |- _ => destruct H end; b_facts;
    destruct k; cbn [held held0 hb hk one]; try lia.
  all: try (destruct b; cbn [hb] in *; lia).
Qed.

Theorem counters_never_below_minus1 s : reach s ->
  -1 <= regs s XREF /\ -1 <= regs s IREF /\ regs s CRASH = 0 /\ forall t, pcs s t <> PCrash.
Proof.
  intros R. pose proof (reach_inv s R) as (G & B & T).
  pose proof (Greg_bounds _ _ G (fun k => priv_nonneg s k B)) as ((X & I) & _).
  repeat split; try lia; [unfold Greg in G; tauto|apply no_thread_crashed; exact R].
Qed.

Definition nonempty (x : Z) : Z := if 0 <? x then 1 else 0.

Theorem refs_account s : reach s ->
  let r := regs s in
  r IREF + 1 = r XALIVE + r IPOOL + (nonempty (r GVAL) - priv s KPE) + (r NTAIL - priv s KPN) + priv s KI /\
  r XREF + 1 = r XPOOL + priv s KX /\
  r GVAL = r EPOOL + priv s KE + priv s KPE /\
  0 <= priv s KPE <= nonempty (r GVAL) /\ 0 <= priv s KPN <= r NTAIL /\ r NTAIL <= 1 /\ 0 <= r XALIVE <= 1 /\
  0 <= r IPOOL /\ 0 <= r XPOOL /\ 0 <= r EPOOL /\ 0 <= priv s KI /\ 0 <= priv s KX /\ 0 <= priv s KE /\
  r QRET - r QREL = r NLEN + priv s KQ /\ r TRET - r TREL = 1 - r DISP.
Proof.
  intros R r. pose proof (reach_inv s R) as (G & B & T). subst r.
  pose proof (priv_nonneg s KPE B); pose proof (priv_nonneg s KPN B); pose proof (priv_nonneg s KI B);
  pose proof (priv_nonneg s KX B); pose proof (priv_nonneg s KE B); pose proof (priv_nonneg s KD B).
  unfold Greg in G. unfold nonempty. destruct (Z.ltb_spec 0 (regs s GVAL)); repeat split; lia.
Qed.

(* quiescent form: no call in progress *)
Corollary refs_account_quiescent s : reach s -> (forall t, pcs s t = PIdle) ->
  let r := regs s in
  r IREF + 1 = r XALIVE + r IPOOL + nonempty (r GVAL) + r NTAIL /\ r XREF + 1 = r XPOOL /\ r GVAL = r EPOOL.
Proof.
  intros R Q r. pose proof (reach_inv s R) as (G & B & T). pose proof (reach_sinv s R) as S.
  assert (Z0 : forall k, priv s k = 0).
  { intros k. apply priv_zero; [exact S|exact T|]. intros t. rewrite Q. apply held_idle. }
  pose proof (refs_account s R) as A. cbv zeta in A. rewrite !Z0 in A. subst r. lia.
Qed.

Theorem no_dispose_while_held s : reach s -> regs s DISP <> 0 ->
  let r := regs s in
  r XPOOL = 0 /\ r IPOOL = 0 /\ r EPOOL = 0 /\ r GVAL = 0 /\ r NTAIL = 0 /\ r NLEN = 0 /\
  (forall k, priv s k = 0) /\ (forall t k, held k (pcs s t) (gn s t) = 0).
Proof.
  intros R D r. pose proof (reach_inv s R) as (G & B & T). pose proof (reach_sinv s R) as S. subst r.
  pose proof (priv_nonneg s KPE B); pose proof (priv_nonneg s KPN B); pose proof (priv_nonneg s KI B);
  pose proof (priv_nonneg s KX B); pose proof (priv_nonneg s KE B); pose proof (priv_nonneg s KD B);
  pose proof (priv_nonneg s KDP B); pose proof (priv_nonneg s KB B).
  unfold Greg, MAXC, f_OS_OBJECT_GLOBAL_REFCNT in G.
  pose proof (priv_nonneg s KBX B); pose proof (priv_nonneg s KBI B); pose proof (priv_nonneg s KBE B); pose proof (priv_nonneg s KB2 B).
  assert (P0 : priv s KX = 0 /\ priv s KI = 0 /\ priv s KE = 0 /\ priv s KDP = 0 /\ priv s KD = 0 /\
               priv s KBX = 0 /\ priv s KBI = 0 /\ priv s KBE = 0) by (unfold borrowed_ok in G; lia).
  destruct P0 as (PX & PI & PE & PDP & PD & PBX & PBI & PBE).
  assert (HZ : forall t k, held k (pcs s t) (gn s t) = 0).
  { intros t. apply held_all_zero; try apply T; apply held_zero; assumption. }
  assert (PZ : forall k, priv s k = 0).
  { intros k. apply priv_zero; [exact S|exact T|]. intros t. apply HZ. }
  repeat split; try lia; assumption.
Qed.

Theorem dispose_at_most_once s : reach s ->
  let r := regs s in
  0 <= r DISP <= 1 /\ 0 <= r XDISP <= 1 /\ r FREED = r DISP /\ (r DISP = 1 -> r XDISP = 1 /\ r XALIVE = 0) /\
  (r XALIVE = 1 -> r XDISP = 0) /\ (0 <= r IREF -> r DISP = 0).
Proof.
  intros R r. pose proof (reach_inv s R) as (G & B & T). subst r.
  pose proof (priv_nonneg s KDP B); pose proof (priv_nonneg s KXD B); pose proof (priv_nonneg s KX B).
  pose proof (Greg_bounds _ _ G (fun k => priv_nonneg s k B)) as ((BX & BI) & _).
  assert (D1 : regs s DISP = 1 -> priv s KXD = 0 /\ regs s XPOOL = 0 /\ priv s KX = 0).
  { intros D. assert (regs s DISP <> 0) as Dn by lia. pose proof (no_dispose_while_held s R Dn) as Hn. cbv zeta in Hn.
    destruct Hn as (X0 & _ & _ & _ & _ & _ & PZ & _). split; [apply PZ|split; [exact X0|apply PZ]]. }
  unfold Greg, MAXC, f_OS_OBJECT_GLOBAL_REFCNT in G.
  split; [lia|]. split; [lia|]. split; [lia|]. split; [|split; intros; lia].
  intros HD. destruct (D1 HD) as (? & ? & ?). lia.
Qed.

Theorem finalizer_exactly_once s : reach s ->
  let r := regs s in
  r NFIN = (if (r DISP =? 1) && nz (r FIN) && nz (r CTX) then 1 else 0) /\
  (r NFIN = 1 -> r FINCTX = r CTX /\ r FINQ = r TQ).
Proof.
  intros R r. pose proof (reach_inv s R) as (G & _ & _). subst r. unfold Greg, finset in G.
  rewrite <- andb_assoc. tauto.
Qed.

(* after the last reference is dropped and pending work has finished, the memory has been released *)
Theorem released_when_unreferenced s : reach s -> (forall t, pcs s t = PIdle) ->
  regs s XPOOL = 0 -> regs s IPOOL = 0 -> regs s EPOOL = 0 -> regs s NTAIL = 0 ->
  regs s DISP = 1 /\ regs s FREED = 1 /\ regs s XDISP = 1.
Proof.
  intros R Q X0 I0 E0 N0. pose proof (refs_account_quiescent s R Q) as A. cbv zeta in A.
  pose proof (reach_inv s R) as (G & B & T). pose proof (reach_sinv s R) as S.
  assert (Z0 : forall k, priv s k = 0).
  { intros k. apply priv_zero; [exact S|exact T|]. intros t. rewrite Q. apply held_idle. }
  unfold Greg, MAXC, f_OS_OBJECT_GLOBAL_REFCNT in G. rewrite !Z0 in G. unfold nonempty in A.
  destruct (Z.ltb_spec 0 (regs s GVAL)); lia.
Qed.

(* memory safety: every access to the object's words happens before the memory is released *)
Definition is_access (e : event) : bool :=
  (eobj e =? OBJ_G) && negb (ev_kind e DVU_CALL) && negb (ev_kind e DVU_RET) && negb (noise e).

Theorem access_not_freed s t e s' : reach s -> gstep s t e = Some s' -> is_access e = true -> regs s FREED = 0.
Proof.
  intros R Hs Ha. pose proof (reach_inv s R) as (G & B & T).
  destruct (Z.eq_dec (regs s DISP) 0) as [D0|Dn]; [unfold Greg in G; lia|exfalso].
  pose proof (no_dispose_while_held s R Dn) as Hn. cbv zeta in Hn. destruct Hn as (_ & _ & E0 & _ & _ & _ & _ & HZ).
  specialize (HZ t). destruct (T t) as [[W _] Hg].
  unfold is_access in Ha. apply andb_true_iff in Ha as [Ha Hno]. apply andb_true_iff in Ha as [Ha Hnr].
  apply andb_true_iff in Ha as [_ Hnc]. apply negb_true_iff in Hno, Hnr, Hnc.
  unfold gstep in Hs. destruct (tstep (pcs s t) e) as [p'|] eqn:Hts; [|discriminate].
  destruct (effect (regs s) (priv s) (gn s t) (pcs s t) e) as [[ups g']|] eqn:Hef; [|discriminate]. clear Hs.
  unfold tstep, effect in *. rewrite Hno in *.
  pose proof (HZ KX) as ZX. pose proof (HZ KI) as ZI. pose proof (HZ KE) as ZE. pose proof (HZ KDP) as ZDP. pose proof (HZ KD) as ZD.
  pose proof (HZ KBX) as ZBX. pose proof (HZ KBI) as ZBI. pose proof (HZ KBE) as ZBE.
  destruct (pcs s t); cbn [wfpc] in W; cbn [held held0 hk one] in ZX, ZI, ZE, ZDP, ZD, ZBX, ZBI, ZBE;
    repeat match goal with c : kont |- _ => destruct c end; cbn [hk hb] in *;
    repeat match goal with H : _ /\ _ |- _ => destruct H end; b_facts; try lia.
  all: try discriminate.
  all: try (cbn [tstep1] in Hts; rewrite Hnr in Hts; discriminate).
  (* PIdle: only a library-internal leave could touch the object, and it needs an outstanding enter *)
  all: rewrite Hnc in *; destruct (effect1 (regs s) (gn s t) (PLeave KImpl) e) as [[u1 g1]|]; [|discriminate];
    unfold guard in Hef; destruct (Z.leb_spec 1 (regs s EPOOL)); [lia|discriminate].
Qed.

Theorem gstep_tstep s t e s' : gstep s t e = Some s' -> tstep (pcs s t) e = Some (pcs s' t).
Proof. intros H. destruct (gstep_shape s t e s' H) as (p' & g' & Ht & Hp & _). rewrite Hp, upd_same. exact Ht. Qed.

Lemma grun_reach tr : forall s s', reach s -> grunc s tr = Some s' -> reach s'.
Proof.
  induction tr as [|[t e] tr IH]; cbn; intros s s' R H; [injection H as <-; exact R|].
  destruct (contractb s t e) eqn:C; [|discriminate].
  destruct (gstep s t e) as [s1|] eqn:E; [|discriminate]. apply (IH s1 s'); [|exact H].
  eapply reach_step; [exact R|exact (conj C E : step s (t, e) s1)].
Qed.

Lemma contract_is s t e : contractb s t e = true <->
  (regs s XREF + 1 < 2147483647 /\ regs s IREF + 2 < 2147483647 /\ regs s GVAL < 1073741823 /\
   (forall c, pcs s t = PDispose c -> nz (u32 (ea e)) = true -> 0 < regs s GVAL \/ regs s GNOT = 1)).
Proof.
  split; [apply contract_facts|]. intros (H1 & H2 & H3 & H4).
  unfold contractb, contract_r, MAXC, MAXE, f_OS_OBJECT_GLOBAL_REFCNT.
  apply Z.ltb_lt in H1, H2, H3. rewrite H1, H2, H3. cbn [andb].
  destruct (pcs s t); try reflexivity. destruct (nz (u32 (ea e))) eqn:N; [|reflexivity]. cbn [negb orb].
  destruct (H4 k eq_refl eq_refl) as [G|G]; [apply Z.ltb_lt in G; rewrite G; reflexivity|].
  apply Z.eqb_eq in G. rewrite G. apply orb_true_r.
Qed.
