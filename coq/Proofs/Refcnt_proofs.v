(* Refcnt_proofs.v — invariants of the reference-count model (Model/Refcnt.v) for any number of threads and any
   interleaving.  Style: the global part of the invariant speaks about registers only; the link between a
   thread's program point and the registers is the token discipline: for every kind k, priv k bounds the sum of
   `held k` over every duplicate-free list of threads (and equals it over a finite support list). *)
From Coq Require Import ZArith Bool List Lia.
From Verif Require Import Word Bits Conc Gen_consts Gen_fields Gen_group Gen_refcnt Refcnt.
Import ListNotations.
Local Open Scope Z_scope.

(* ------------------------------------------------------------------ sums over finite sets of threads *)
Fixpoint sumf (f : Z -> Z) (l : list Z) : Z := match l with [] => 0 | t :: l' => f t + sumf f l' end.

Lemma sumf_ext f f' l : (forall u, In u l -> f' u = f u) -> sumf f' l = sumf f l.
Proof.
  induction l as [|a l IH]; cbn; intros H; [reflexivity|].
  rewrite H by (left; reflexivity). rewrite IH; [reflexivity|]. intros u Hu. apply H. right. exact Hu.
Qed.
Lemma sumf_notin f f' l t : ~ In t l -> (forall u, u <> t -> f' u = f u) -> sumf f' l = sumf f l.
Proof. intros Hn H. apply sumf_ext. intros u Hu. apply H. intros ->. contradiction. Qed.
Lemma sumf_in f f' l t : NoDup l -> In t l -> (forall u, u <> t -> f' u = f u) ->
  sumf f' l = sumf f l - f t + f' t.
Proof.
  induction l as [|a l IH]; cbn; intros ND Hin H; [contradiction|].
  inversion ND as [|? ? Hna ND']; subst.
  destruct (Z.eq_dec a t) as [->|Ne].
  - rewrite (sumf_notin f f' l t Hna H). lia.
  - destruct Hin as [->|Hin]; [contradiction|]. rewrite (IH ND' Hin H). rewrite (H a Ne). lia.
Qed.
Lemma sumf_nonneg f l : (forall u, 0 <= f u) -> 0 <= sumf f l.
Proof. intros H. induction l; cbn; [lia|]. specialize (H a). lia. Qed.

Definition bounded (f : Z -> Z) (n : Z) : Prop := forall l, NoDup l -> sumf f l <= n.

Lemma bounded_step f f' n t :
  (forall u, 0 <= f u) -> 0 <= f' t -> bounded f n -> (forall u, u <> t -> f' u = f u) ->
  bounded f' (n + f' t - f t).
Proof.
  intros Hf Hv Hb Ho l ND. destruct (in_dec Z.eq_dec t l) as [Hin|Hn].
  - rewrite (sumf_in f f' l t ND Hin Ho). specialize (Hb l ND). lia.
  - rewrite (sumf_notin f f' l t Hn Ho).
    assert (ND' : NoDup (t :: l)) by (constructor; assumption).
    specialize (Hb (t :: l) ND'). cbn in Hb. lia.
Qed.
Lemma bounded_one f n t : bounded f n -> f t <= n.
Proof. intros H. specialize (H [t]). cbn in H. rewrite Z.add_0_r in H. apply H. constructor; [intros []|constructor]. Qed.
Lemma bounded_nonneg f n : bounded f n -> 0 <= n.
Proof. intros H. apply (H []). constructor. Qed.
(* when the bound is exhausted by one thread, every other thread holds nothing *)
Lemma bounded_other f n t u : (forall v, 0 <= f v) -> bounded f n -> u <> t -> n <= f t -> f u = 0.
Proof.
  intros Hf H Ne Hn. assert (ND : NoDup [t; u]).
  { constructor; [intros [E|[]]; congruence|]. constructor; [intros []|constructor]. }
  specialize (H [t; u] ND). cbn in H. pose proof (Hf u). lia.
Qed.

(* finite support: priv k is exactly the sum over a list outside which every thread is idle *)
Definition supported (f : Z -> Z) (idle : Z -> Prop) (n : Z) (l : list Z) : Prop :=
  NoDup l /\ (forall t, ~ In t l -> idle t) /\ n = sumf f l.

(* ------------------------------------------------------------------ well-formed program points *)
Definition wfb (b : bsrc) : Prop := b <> BN.
Definition wfpc (p : pc) : Prop :=
  match p with
  | PRet _ rx ri re => 0 <= rx /\ 0 <= ri /\ 0 <= re
  | PIRel _ n => 1 <= n
  | PIRetain b n => 1 <= n /\ wfb b
  | PWeakLoad b | PWeakCas b _ _ | PEnter b | PEnterRetain b | PNfQ b | PNfPush b | PNfRetain b | PNfHead b
  | PNfLoad b | PNfCas b _ _ => wfb b
  | PSnapHead _ needs _ | PSnapStore _ needs _ | PSnapTail _ needs _ | PFire _ needs _ => 0 <= needs
  | PWakeFutex _ refs => 1 <= refs
  | _ => True
  end.

Lemma hb_nonneg k b : 0 <= hb k b.
Proof. destruct k, b; cbn; lia. Qed.
Lemma hk_nonneg k c : 0 <= hk k c.
Proof. destruct c; cbn; [apply hb_nonneg|lia]. Qed.
Lemma one_nonneg k k' : 0 <= one k k' <= 1.
Proof. destruct k, k'; cbn; lia. Qed.

Lemma held_nonneg k p g : wfpc p -> 0 <= g -> 0 <= held k p g.
Proof.
  intros W G. destruct p; cbn [wfpc] in *;
    repeat match goal with
           | b : bsrc |- _ => destruct b
           | c : kont |- _ => destruct c
           end; destruct k; cbn [held hb hk one]; nia.
Qed.

(* ------------------------------------------------------------------ bit facts about the group word *)
Lemma leave_new_no_HN x : Z.land (leave_new x) HN = 0.
Proof.
  unfold leave_new. destruct (Z.land x VMASK =? 0); rewrite <- Z.land_assoc;
    change (Z.land (not64 HN) HN) with 0; apply Z.land_0_r.
Qed.
Lemma leave_new_fix_no_HN x : leave_new x = x -> nz (Z.land x HN) = false.
Proof. intros H. rewrite <- H. rewrite leave_new_no_HN. reflexivity. Qed.
Lemma lor_HN_has_HN x : nz (Z.land (Z.lor x HN) HN) = true.
Proof.
  rewrite Z.land_lor_distr_l. change (Z.land HN HN) with 2. unfold nz.
  destruct (Z.eqb_spec (Z.lor (Z.land x HN) 2) 0) as [E|]; [|reflexivity].
  apply Z.lor_eq_0_iff in E. destruct E; discriminate.
Qed.

(* ------------------------------------------------------------------ well-formedness is preserved *)
Lemma wf_end_pc c : wfpc (end_pc c).
Proof. destruct c; cbn; lia. Qed.
Lemma wf_wake_rel c refs : 0 <= refs -> wfpc (wake_rel c refs).
Proof. intros H. unfold wake_rel. destruct (Z.eqb_spec refs 0); [apply wf_end_pc|cbn; lia]. Qed.
Lemma wf_wake_tail c refs hw : 1 <= refs -> wfpc (wake_tail c refs hw).
Proof. intros H. unfold wake_tail. destruct hw; [cbn; lia|apply wf_wake_rel; lia]. Qed.
Lemma wf_wake_entry c st needs : 0 <= needs -> (1 <= needs \/ nz (Z.land st HN) = true) -> wfpc (wake_entry c st needs).
Proof.
  intros H0 H. unfold wake_entry. destruct (nz (Z.land st HN)); [cbn; lia|].
  destruct H as [H|H]; [|discriminate]. apply wf_wake_tail. exact H.
Qed.
Lemma wf_after_irel c new : wfpc (after_irel c new).
Proof. unfold after_irel. destruct (0 <=? new); [apply wf_end_pc|]. destruct (new <? -1); exact I. Qed.
Lemma wf_lv_entry c old : wfpc (lv_entry c old).
Proof. unfold lv_entry. destruct (leave_new old =? old); [apply wf_wake_entry; lia|exact I]. Qed.
Lemma wf_nf_body b old p : wfb b -> nf_body b old = Some p -> wfpc p.
Proof.
  intros Wb. unfold nf_body. destruct (group_notify_loop 0 0 0 old) as [new ret|ret xs| |]; try discriminate.
  - intros H. injection H as <-. exact Wb.
  - destruct ret as [|[| |]|]; try discriminate. intros H. injection H as <-.
    apply wf_wake_entry; [lia|]. right. apply lor_HN_has_HN.
Qed.
Lemma wf_weak_body b old p : wfb b -> weak_body b old = Some p -> wfpc p.
Proof.
  intros Wb. unfold weak_body. destruct (retain_weak_loop 0 old) as [new ret|ret xs| |]; try discriminate.
  - intros H. injection H as <-. exact Wb.
  - destruct ret as [|[|[| |]|]|]; try discriminate; intros H; injection H as <-; cbn; lia.
Qed.
Lemma wf_call_pc e p : call_pc e = Some p -> wfpc p.
Proof.
  unfold call_pc, borrow_of.
  assert (Wb : wfb (if ea e / 100 =? 0 then BX else BI)) by (destruct (ea e / 100 =? 0); discriminate).
  repeat match goal with
         | |- context [if ?c then _ else _] => destruct c eqn:?
         end; intros H; try discriminate; injection H as <-; cbn; auto; try lia;
    repeat match goal with H : (_ || _) = true |- _ => apply orb_true_iff in H; destruct H
           | H : (_ && _) = true |- _ => apply andb_true_iff in H; destruct H
           | H : (_ =? _) = true |- _ => apply Z.eqb_eq in H end; try lia; try (split; [lia|auto]).
Qed.

Lemma wf_tstep1 p e p' : wfpc p -> tstep1 p e = Some p' -> wfpc p'.
Proof.
  intros W. destruct p; cbn [tstep1 wfpc] in *; try discriminate;
    repeat match goal with
           | |- context [if ?c then _ else _] => destruct c eqn:?
           end; intros H; try discriminate; try (injection H as <-);
    try exact I; try exact W; try (cbn; lia); try apply wf_end_pc; try apply wf_after_irel; try apply wf_lv_entry;
    try (apply wf_wake_entry; lia); try (apply wf_wake_rel; lia);
    try (eapply wf_nf_body; eassumption); try (eapply wf_weak_body; eassumption).
  all: try (cbn; destruct W; auto; lia).
Qed.

Lemma wf_tstep p e p' : wfpc p -> tstep p e = Some p' -> wfpc p'.
Proof.
  intros W. unfold tstep. destruct (noise e).
  - destruct p; intros H; try discriminate; injection H as <-; exact W.
  - destruct p; try (apply wf_tstep1; exact W).
    + destruct (ev_kind e DVU_CALL); [apply wf_call_pc|]. apply wf_tstep1. exact I.
    + destruct (is_qrel e); [intros H; injection H as <-; exact W|].
      apply wf_tstep1. apply wf_wake_tail. cbn in W. lia.
Qed.

(* ------------------------------------------------------------------ the invariant *)
Definition finset (r : greg -> Z) : bool := nz (r FIN) && nz (r CTX).

(* global part: registers only, written in linear form (no implications) so that lia decides the step cases
   quickly; the readable consequences are derived below (Greg_readable).
   [group non-empty] is Z.min 1 (r GVAL); [ref = -1] is 1 - Z.min 1 (r IREF + 1) *)
Definition Greg (r : greg -> Z) (pv : kind -> Z) : Prop :=
  (0 <= r XPOOL /\ 0 <= r IPOOL /\ 0 <= r EPOOL /\ 0 <= r NLEN /\ 0 <= r GVAL) /\
  (0 <= r XALIVE <= 1 /\ 0 <= r GNOT <= 1 /\ 0 <= r NTAIL <= 1) /\
  (* external count: one token per unit; xref = -1 exactly when the last external reference is gone *)
  (r XREF + 1 = r XPOOL + pv KX /\ r XALIVE - 1 <= r XREF /\ r XREF + 1 <= MAXC * r XALIVE) /\
  (* internal count: refs_account *)
  (r IREF + 1 = r XALIVE + r IPOOL + (Z.min 1 (r GVAL) - pv KPE) + (r NTAIL - pv KPN) + pv KI) /\
  (* group value *)
  (r GVAL = r EPOOL + pv KE + pv KPE /\ pv KPE <= 1) /\
  (* notify list: exactly one owner of the duty to deliver the pending batch *)
  (pv KPN + r GNOT + pv KD = r NTAIL /\ (r NTAIL = 0 -> r NLEN = 0)) /\
  (* notification queue and target queue references *)
  (r QRET - r QREL = r NLEN + pv KQ /\ r TRET - r TREL = 1 - r DISP) /\
  (* disposal bookkeeping *)
  (r XDISP + pv KXD = 1 - r XALIVE /\ 0 <= r XDISP /\
   r DISP + pv KDP = 1 - Z.min 1 (r IREF + 1) /\ 0 <= r DISP /\ r FREED = r DISP) /\
  (r NFIN = (if (r DISP =? 1) && finset r then 1 else 0) /\ (r NFIN = 1 -> r FINCTX = r CTX /\ r FINQ = r TQ)) /\
  (r CRASH = 0 /\ r XREF < MAXC /\ r IREF < MAXC).

Definition hf (s : gst) (k : kind) : Z -> Z := fun t => held k (pcs s t) (gn s t).
Definition Binv (s : gst) : Prop := forall k, bounded (hf s k) (priv s k).
Definition Tinv (s : gst) : Prop := forall t, wfpc (pcs s t) /\ 0 <= gn s t.
Definition Inv (s : gst) : Prop := Greg (regs s) (priv s) /\ Binv s /\ Tinv s.

Lemma Inv_init : Inv init_state.
Proof.
  split; [|split].
  - unfold Greg, init_state, init_regs, finset, MAXC, f_OS_OBJECT_GLOBAL_REFCNT; cbn. repeat split; try lia.
  - intros k l ND. unfold hf, init_state; cbn. induction l; cbn; [lia|]. inversion ND; subst. auto.
  - intros t. cbn. split; [exact I|lia].
Qed.

Lemma s32_small x : -2147483648 <= x < 2147483648 -> s32 x = x.
Proof. intros H. unfold s32. rewrite Z.mod_small by lia. lia. Qed.

(* what the stepping thread holds is available *)
Lemma held_le s t k : Binv s -> held k (pcs s t) (gn s t) <= priv s k.
Proof. intros B. apply (bounded_one (hf s k) (priv s k) t (B k)). Qed.
Lemma priv_nonneg s k : Binv s -> 0 <= priv s k.
Proof. intros B. apply (bounded_nonneg _ _ (B k)). Qed.

Ltac bool_hyps :=
  repeat match goal with
         | H : (_ && _) = true |- _ => apply andb_true_iff in H; destruct H
         | H : (_ || _) = true |- _ => apply orb_true_iff in H
         | H : (_ || _) = false |- _ => apply orb_false_iff in H; destruct H
         | H : negb _ = true |- _ => apply negb_true_iff in H
         | H : negb _ = false |- _ => apply negb_false_iff in H
         | H : (_ =? _) = true |- _ => apply Z.eqb_eq in H
         | H : (_ =? _) = false |- _ => apply Z.eqb_neq in H
         | H : (_ <? _) = true |- _ => apply Z.ltb_lt in H
         | H : (_ <? _) = false |- _ => apply Z.ltb_ge in H
         | H : (_ <=? _) = true |- _ => apply Z.leb_le in H
         | H : (_ <=? _) = false |- _ => apply Z.leb_gt in H
         end.
