(* CLane_main.v — every reachable state of the concurrent-lane model satisfies the invariant; consequences:
   width accounting, barrier exclusion. *)
From Coq Require Import ZArith Bool List Lia.
From Verif Require Import Word Bits Fields DqFields Conc Gen_consts Gen_dqstate Gen_lanesites Lane_fields CLane_fields CLane CLaneJudge CLane_inv
  CLane_proofs CLane_steps1 CLane_steps2 CLane_steps3 CLane_steps4.
Import ListNotations.
Local Open Scope Z_scope.

Lemma gstep_preserves W s t s' : Inv W s -> valid_tid t -> gstep W s t = Some s' -> Inv W s'.
Proof.
  intros HI Vt Hs. destruct (pcs s t) eqn:Hpc.
  - unfold gstep in Hs. rewrite Hpc in Hs. discriminate.
  - unfold gstep in Hs. rewrite Hpc in Hs. apply Some_inj in Hs. subst s'. apply step_S_tail; assumption.
  - eapply step_S_rsv; eassumption.
  - unfold gstep in Hs. rewrite Hpc in Hs. apply Some_inj in Hs. apply (step_callouts W s t); [exact HI|]. left. eauto.
  - unfold gstep in Hs. rewrite Hpc in Hs. apply Some_inj in Hs. apply (step_callouts W s t); [exact HI|]. right; left. eauto.
  - eapply step_NBC; eassumption.
  - eapply step_X_rootpush; eassumption.
  - unfold gstep in Hs. rewrite Hpc in Hs. apply Some_inj in Hs. subst s'. eapply step_B_tail; [eassumption|eassumption|].
    destruct (is_nil (lst s)); auto.
  - eapply step_B_acq; eassumption.
  - unfold gstep in Hs. rewrite Hpc in Hs. apply Some_inj in Hs. apply (step_callouts W s t); [exact HI|]. right; right; left. eauto.
  - unfold gstep in Hs. rewrite Hpc in Hs. apply Some_inj in Hs. apply (step_callouts W s t); [exact HI|]. right; right; right; left. eauto.
  - unfold gstep in Hs. rewrite Hpc in Hs. apply Some_inj in Hs. subst s'. apply step_BC_tail; assumption.
  - eapply step_BC_class; eassumption.
  - eapply step_BC_xor; eassumption.
  - eapply step_DBW_pop; eassumption.
  - eapply step_DBW_xfer; eassumption.
  - unfold gstep in Hs. rewrite Hpc in Hs. apply Some_inj in Hs. apply (step_wakes W s t); [exact HI|]. left. eauto.
  - eapply step_DN_and; eassumption.
  - unfold gstep in Hs. rewrite Hpc in Hs. destruct (lst s) as [|x l] eqn:Hl; [discriminate|].
    apply Some_inj in Hs. subst s'. eapply step_DN_loop; eassumption.
  - eapply step_DN_add; eassumption.
  - eapply step_DN_acq; eassumption.
  - eapply step_DN_pop; eassumption.
  - unfold gstep in Hs. rewrite Hpc in Hs. apply Some_inj in Hs. apply (step_wakes W s t); [exact HI|]. right; left. eauto 10.
  - eapply step_DN_fin; eassumption.
  - eapply step_DN_xor; eassumption.
  - unfold gstep in Hs. rewrite Hpc in Hs. apply Some_inj in Hs. subst s'. eapply step_A_tail; [eassumption|eassumption|].
    destruct (negb b && is_nil (lst s)); auto.
  - eapply step_A_acq; eassumption.
  - eapply step_A_xchg; eassumption.
  - unfold gstep in Hs. rewrite Hpc in Hs. apply Some_inj in Hs. subst s'. eapply step_A_probe; [eassumption|eassumption|].
    destruct (is_nil (lst s)); auto.
  - eapply step_A_wake; eassumption.
  - eapply step_SW_xchg; eassumption.
  - eapply step_SW_rmw; eassumption.
  - eapply step_SW_wait; eassumption.
  - eapply step_W_lock; eassumption.
  - unfold gstep in Hs. rewrite Hpc in Hs. apply Some_inj in Hs. subst s'. apply step_W_tail; assumption.
  - unfold gstep in Hs. rewrite Hpc in Hs. destruct (lst s) as [|x l] eqn:Hl; [discriminate|].
    apply Some_inj in Hs. subst s'. eapply step_W_head; eassumption.
  - eapply step_W_upg; eassumption.
  - eapply step_W_xorib; eassumption.
  - eapply step_W_addw; eassumption.
  - eapply step_W_acq; eassumption.
  - eapply step_W_popn; eassumption.
  - unfold gstep in Hs. rewrite Hpc in Hs. apply Some_inj in Hs. apply (step_wakes W s t); [exact HI|]. right; right. eauto 10.
  - eapply step_W_popb; eassumption.
  - unfold gstep in Hs. rewrite Hpc in Hs. apply Some_inj in Hs. apply (step_callouts W s t); [exact HI|]. right; right; right; right; left. eauto.
  - unfold gstep in Hs. rewrite Hpc in Hs. apply Some_inj in Hs. apply (step_callouts W s t); [exact HI|]. right; right; right; right; right. eauto.
  - unfold gstep in Hs. rewrite Hpc in Hs. apply Some_inj in Hs. subst s'. apply step_W_next; assumption.
  - eapply step_W_unlock; eassumption.
  - eapply step_W_xor; eassumption.
Qed.

Theorem step_preserves W s a s' : Inv W s -> step W s a s' -> Inv W s'.
Proof.
  intros HI Hs. destruct a as [t c|t]; destruct Hs as [Vt Hs].
  - eapply begin_preserves; eassumption.
  - eapply gstep_preserves; eassumption.
Qed.

Theorem inv_reach W s : 2 <= W <= 4094 -> reach W s -> Inv W s.
Proof.
  intros HW. apply invariant_lift.
  - intros s0 ->. apply Inv_init. exact HW.
  - intros s0 a s1 HI Hs. eapply step_preserves; eassumption.
Qed.

(* ---- consequences ---- *)
Definition in_barrier_callout (p : pc) : bool := match p with B_incall _ | W_incall _ _ => true | _ => false end.
Definition in_reader_callout (p : pc) : bool := match p with R_incall _ => true | _ => false end.
Definition in_callout (p : pc) : bool := in_barrier_callout p || in_reader_callout p.

(* the ghost state is pinned to the program points: who holds a width interval, who owns the lock *)
Theorem ghost_is_program_points W s : 2 <= W <= 4094 -> reach W s ->
  NoDup (holders s) /\
  (forall t, In t (holders s) <-> (holds (pcs s t) = true \/ grant s t = GReader)) /\
  (forall t, lockh s = Some t <-> (owns (pcs s t) = true \/ grant s t = GOwner)) /\
  (forall t, grant s t <> GNone -> waitpc (pcs s t) = true).
Proof.
  intros HW R. destruct (inv_reach W s HW R) as (_ & (r & G) & T). split; [exact (g_nodup _ _ _ G)|].
  split; [intros t; apply (T t)|]. split; [intros t; apply (T t)|]. intros t; apply (T t).
Qed.

(* width accounting: the width field is 4096 - W + (intervals held by readers and redirected items + intervals owned by
   the lock holder) + (W - 1 if a barrier is pending); the sum never leaves [0, 4096], so the 13-bit field never carries
   into IN_BARRIER; IN_BARRIER is set exactly when a barrier owner exists, and then nobody else holds any width *)
Theorem width_accounting W s : 2 <= W <= 4094 -> reach W s ->
  let r := dec (st s) in
  0 <= st s < 18446744073709551616 /\
  f_wq r = 4096 - W + (U s + dw s) + (W - 1) * f_pb r /\
  0 <= U s + dw s <= 4096 /\ 0 <= f_wq r <= 8191 /\
  (f_ib r = 1 <-> bmode s = true) /\
  (bmode s = true -> exists t, lockh s = Some t /\ f_owner r = t /\ U s = 0 /\ dw s = W /\ f_pb r = 0 /\ f_wq r = 4096) /\
  (lockh s = None -> dw s = 0 /\ f_owner r = 0 /\ f_ib r = 0) /\
  f_hi r = 0.
Proof.
  intros HW R. destruct (inv_reach W s HW R) as (_ & (r & G) & T). cbv zeta.
  rewrite (g_enc _ _ _ G). rewrite dec_enc by (apply (g_wf _ _ _ G)).
  pose proof (g_wf _ _ _ G) as Wf. pose proof Wf as Wf'. unfold wfr in Wf'.
  pose proof (g_wq _ _ _ G) as Hwq. pose proof (g_bound _ _ _ G) as Hb. pose proof (g_dw _ _ _ G) as [D0 DN].
  pose proof (U_nonneg s) as Un. pose proof (g_ib _ _ _ G) as Hib.
  split; [apply enc_range; exact Wf|]. split; [lia|]. split; [lia|]. split; [lia|].
  split; [destruct (bmode s); split; intros X; try reflexivity; try discriminate; lia|].
  split.
  - intros Bm. destruct (g_bm _ _ _ G Bm) as (L & Dw & U0 & P0).
    destruct (lockh s) as [t|] eqn:E; [|contradiction]. exists t. pose proof (g_owner _ _ _ G) as Ho. rewrite E in Ho.
    repeat split; auto. rewrite Hwq, Dw, U0, P0. lia.
  - split; [|exact (g_hi _ _ _ G)]. intros LN. destruct (DN LN) as [Dw Bm]. pose proof (g_owner _ _ _ G) as Ho. rewrite LN in Ho.
    rewrite Bm in Hib. auto.
Qed.

(* exclusion: while a barrier item is in its callout, no other item of the queue is in its callout, and moreover no
   reader holds a width interval at all (none between its reservation and its release, no redirected item in flight) *)
Theorem barrier_excludes W s t : 2 <= W <= 4094 -> reach W s -> in_barrier_callout (pcs s t) = true ->
  (forall u, in_callout (pcs s u) = true -> u = t) /\ holders s = [] /\ rq s = [] /\ lockh s = Some t.
Proof.
  intros HW R Hb. pose proof (inv_reach W s HW R) as HI. pose proof HI as (_ & (r & G) & T).
  assert (Ow : owns (pcs s t) = true) by (destruct (pcs s t); try discriminate; reflexivity).
  destruct (owner_pc W s t HI Ow) as [Lt Hp].
  assert (Bm : bmode s = true) by (destruct (pcs s t); try discriminate; cbn [pcinv] in Hp; tauto).
  destruct (g_bm _ _ _ G Bm) as (_ & _ & U0 & _). unfold U in U0.
  assert (H0 : holders s = []) by (destruct (holders s); [reflexivity|cbn [length] in U0; lia]).
  assert (R0 : rq s = []) by (destruct (rq s); [reflexivity|cbn [length] in U0; lia]).
  split; [|auto]. intros u Hu. unfold in_callout in Hu. apply orb_true_iff in Hu as [Hu|Hu].
  - assert (Ou : owns (pcs s u) = true) by (destruct (pcs s u); try discriminate; reflexivity).
    destruct (owner_pc W s u HI Ou) as [Lu _]. congruence.
  - exfalso. assert (Hh : holds (pcs s u) = true) by (destruct (pcs s u); try discriminate; reflexivity).
    destruct (T u) as [T1 _ _ _ _ _]. assert (X : In u (holders s)) by (apply T1; auto). rewrite H0 in X. destruct X.
Qed.

(* ---- concrete reachable states (non-vacuity) ---- *)
Definition act_valid (a : action) : bool :=
  match a with ABegin t _ | AStep t => (0 <? t) && (t <? 1073741824) end.

Lemma run_reach W acts : forall s s', reach W s -> forallb act_valid acts = true -> run W s acts = Some s' -> reach W s'.
Proof.
  induction acts as [|a acts IH]; intros s s' R V Hr; cbn [run] in Hr.
  - injection Hr as <-. exact R.
  - cbn [forallb] in V. apply andb_true_iff in V as [Va V].
    assert (Vt : forall t, (0 <? t) && (t <? 1073741824) = true -> valid_tid t).
    { intros t X. apply andb_true_iff in X as [X1 X2]. apply Z.ltb_lt in X1, X2. split; assumption. }
    destruct a as [t c|t]; cbn [act_valid] in Va.
    + destruct (begin s t c) as [s1|] eqn:E; [|discriminate].
      apply (IH s1 s'); [|exact V|exact Hr]. apply (reach_step _ _ s (ABegin t c) s1 R). split; [apply Vt; exact Va|exact E].
    + destruct (gstep W s t) as [s1|] eqn:E; [|discriminate].
      apply (IH s1 s'); [|exact V|exact Hr]. apply (reach_step _ _ s (AStep t) s1 R). split; [apply Vt; exact Va|exact E].
Qed.

(* width 4: threads 1 and 2 are dispatch_sync readers inside their callouts, thread 3 has submitted a barrier
   (dispatch_barrier_async), worker 4 found it, could not upgrade and parked with PENDING_BARRIER *)
Definition ex_acts1 : list action :=
  [ABegin 1 CSync; AStep 1; AStep 1; ABegin 2 CSync; AStep 2; AStep 2; AStep 1; AStep 2; ABegin 3 (CAsync true 0 false)] ++
  repeat (AStep 3) 5 ++ [ABegin 4 (CWorkerLane 0)] ++ repeat (AStep 4) 5.
(* ... then both readers finish, the last one takes the lock on behalf of the barrier and re-enqueues the lane, and
   worker 5 runs the barrier item *)
Definition ex_acts2 : list action :=
  ex_acts1 ++ [AStep 1; AStep 1; AStep 2; AStep 2] ++ repeat (AStep 2) 3 ++ [ABegin 5 (CWorkerLane 0)] ++ repeat (AStep 5) 5.

Lemma protocol_nonvacuous :
  (exists s, reach 4 s /\ pcs s 1 = R_incall 0 /\ pcs s 2 = R_incall 1 /\ holders s = [2; 1] /\ pb s = 1 /\
             map i_bar (lst s) = [true] /\ f_wq (dec (st s)) = 4097) /\
  (exists s, reach 4 s /\ in_barrier_callout (pcs s 5) = true /\ started s = [2; 1; 0] /\ finished s = [1; 0] /\
             holders s = [] /\ f_ib (dec (st s)) = 1).
Proof.
  split.
  - destruct (run 4 (init_state 4) ex_acts1) as [s|] eqn:E; [|vm_compute in E; discriminate].
    exists s. split.
    + apply (run_reach 4 ex_acts1 (init_state 4) s); [apply reach_init; reflexivity | vm_compute; reflexivity | exact E].
    + vm_compute in E. injection E as <-. vm_compute. repeat split; reflexivity.
  - destruct (run 4 (init_state 4) ex_acts2) as [s|] eqn:E; [|vm_compute in E; discriminate].
    exists s. split.
    + apply (run_reach 4 ex_acts2 (init_state 4) s); [apply reach_init; reflexivity | vm_compute; reflexivity | exact E].
    + vm_compute in E. injection E as <-. vm_compute. repeat split; reflexivity.
Qed.

(* ---- the executable judges used on recorded traces accept every reachable state ---- *)
Theorem word_ok_sound W s : 2 <= W <= 4094 -> reach W s -> word_ok W (st s) = true.
Proof.
  intros HW R. destruct (inv_reach W s HW R) as (_ & (r & G) & T).
  pose proof (g_wf _ _ _ G) as Wf. pose proof Wf as Wf'. unfold wfr in Wf'.
  pose proof (g_wq _ _ _ G) as Hwq. pose proof (g_dw _ _ _ G) as [D0 DN]. pose proof (U_nonneg s) as Un.
  pose proof (g_ib _ _ _ G) as Hib. pose proof (g_owner _ _ _ G) as Ho.
  unfold word_ok. rewrite (g_enc _ _ _ G). rewrite dec_enc by exact Wf.
  pose proof (enc_range r Wf) as Re.
  rewrite (g_hi _ _ _ G), (g_em _ _ _ G), (g_tr _ _ _ G). cbn [Z.eqb andb].
  assert (E1 : (0 <=? enc r) = true) by (apply Z.leb_le; lia). assert (E2 : (enc r <? 18446744073709551616) = true) by (apply Z.ltb_lt; lia).
  rewrite E1, E2. cbn [andb].
  assert (E3 : (4096 - W + (W - 1) * f_pb r <=? f_wq r) = true) by (apply Z.leb_le; lia). rewrite E3. cbn [andb].
  destruct (bmode s) eqn:Bm.
  - destruct (g_bm _ _ _ G Bm) as (L & Dw & U0 & P0). rewrite Hib, P0. cbn [Z.eqb].
    destruct (lockh s) as [t|] eqn:E; [|contradiction]. pose proof (g_ownv _ _ _ G t E) as Vt. unfold valid_tid in Vt.
    assert (Eq : f_wq r = 4096) by (rewrite Hwq, Dw, U0, P0; lia). rewrite Eq. cbn [Z.eqb andb].
    destruct (Z.eqb_spec (f_owner r) 0); [lia|]. reflexivity.
  - rewrite Hib. cbn [Z.eqb andb]. destruct (f_owner r =? 0); reflexivity.
Qed.

Theorem owner_ok_sound W s t : 2 <= W <= 4094 -> reach W s -> lockh s = Some t -> bmode s = true -> owner_ok (st s) t = true.
Proof.
  intros HW R Lt Bm. destruct (inv_reach W s HW R) as (_ & (r & G) & T).
  unfold owner_ok. rewrite (g_enc _ _ _ G). rewrite dec_enc by (apply (g_wf _ _ _ G)).
  pose proof (g_ib _ _ _ G) as Hib. rewrite Bm in Hib. pose proof (g_owner _ _ _ G) as Ho. rewrite Lt in Ho.
  rewrite Hib, Ho, !Z.eqb_refl. reflexivity.
Qed.

(* ---- site tie: the dq_state accesses of the modelled functions are the ones the translator reads from the source ---- *)
(* the accounting judge: a reachable state passes with ITS ghost state (so a recorded word that fails with the ghost state
   reconstructed from the run is not a state the model can be in with that ghost state) *)
Theorem acct_ok_sound W s : 2 <= W <= 4094 -> reach W s -> acct_ok W (st s) (U s + dw s) (bmode s) = true.
Proof.
  intros HW R. destruct (inv_reach W s HW R) as (_ & (r & G) & _).
  unfold acct_ok. cbv zeta. rewrite (g_enc _ _ _ G), dec_enc by apply (g_wf _ _ _ G).
  rewrite (g_wq _ _ _ G), (g_ib _ _ _ G). apply andb_true_iff. split; [apply Z.eqb_eq; lia|destruct (bmode s); reflexivity].
Qed.

Lemma model_sites_match :
  model_sites_try_reserve_sync_width = f_dispatch_queue_try_reserve_sync_width_sites /\
  model_sites_try_acquire_async = f_dispatch_queue_try_acquire_async_sites /\
  model_sites_reserve_sync_width = Gen_lanesites.f_dispatch_queue_reserve_sync_width_sites /\
  model_sites_try_upgrade_full_width = f_dispatch_queue_try_upgrade_full_width_sites /\
  model_sites_non_barrier_complete = non_barrier_complete_loop_sites /\
  model_sites_non_barrier_complete = firstn 2 (dq_sites Gen_lanesites.f_dispatch_lane_non_barrier_complete_sites) /\
  model_sites_class_barrier_complete = class_barrier_complete_loop_sites /\
  model_sites_class_barrier_complete = dq_sites Gen_lanesites.f_dispatch_lane_class_barrier_complete_sites /\
  model_sites_drain_barrier_waiter = firstn 3 (dq_sites Gen_lanesites.f_dispatch_lane_drain_barrier_waiter_sites) /\
  model_sites_drain_non_barriers = firstn 11 (dq_sites Gen_lanesites.f_dispatch_lane_drain_non_barriers_sites) /\
  model_sites_concurrent_drain = dq_sites Gen_lanesites.f_dispatch_lane_concurrent_drain_sites /\
  model_sites_concurrent_push_head = firstn 2 (dq_sites Gen_lanesites.f_dispatch_lane_concurrent_push_sites) /\
  model_sites_push_waiter_head = firstn 3 (dq_sites Gen_lanesites.f_dispatch_lane_push_waiter_sites).
Proof. vm_compute. repeat split; reflexivity. Qed.

Theorem trace_judges_sound W s : 2 <= W <= 4094 -> reach W s ->
  word_ok W (st s) = true /\ (forall t, lockh s = Some t -> bmode s = true -> owner_ok (st s) t = true).
Proof. intros HW R. split; [exact (word_ok_sound W s HW R) | intros t; exact (owner_ok_sound W s t HW R)]. Qed.
