(* SLaneR_proofs.v — the replay scheduler of Model/SLaneR.v only ever takes steps of the global model: whatever it is
   given (action lists, preferred order, window), every state it passes through is a reachable state of SLane, provided
   the thread ids are valid.  So a recorded round
   that the scheduler consumes entirely IS a run of SLane with the recorded outcomes, and SLane's theorems apply to it. *)
From Coq Require Import ZArith Bool List Lia.
From Verif Require Import Word Conc Gen_consts Gen_dqstate SLane SLaneT SLaneR.
Import ListNotations.
Local Open Scope Z_scope.

Definition sact_ok (a : sact) : bool := (0 <? s_tid a) && (s_tid a <? 1073741824).
Definition qs_ok (qs : list (Z * list sact)) : bool := forallb (fun q => forallb sact_ok (snd q)) qs.

Lemma try_act_step ids s a s' : sact_ok a = true -> try_act ids s a = Some s' -> exists act, step s act s'.
Proof.
  unfold sact_ok. intros H T. apply andb_true_iff in H. destruct H as [H2 H3].
  apply Z.ltb_lt in H2, H3.
  assert (V : valid_tid (s_tid a)) by (unfold valid_tid; lia).
  unfold try_act in T.
  destruct (m_kind (s_act a) =? 0).
  { destruct (begin s (s_tid a) (CAsync (m_arg (s_act a)))) as [s1|] eqn:B; [|discriminate].
    match type of T with (if ?c then _ else _) = _ => destruct c; [|discriminate] end.
    injection T as <-. exists (ABegin (s_tid a) (CAsync (m_arg (s_act a)))). split; assumption. }
  destruct (m_kind (s_act a) =? 1).
  { destruct (begin s (s_tid a) (CWorker (m_arg (s_act a)))) as [s1|] eqn:B; [|discriminate].
    match type of T with (if ?c then _ else _) = _ => destruct c; [|discriminate] end.
    injection T as <-. exists (ABegin (s_tid a) (CWorker (m_arg (s_act a)))). split; assumption. }
  destruct (m_kind (s_act a) =? 2).
  { destruct (gstep s (s_tid a)) as [s1|] eqn:B; [|discriminate].
    match type of T with (if ?c then _ else _) = _ => destruct c; [|discriminate] end.
    injection T as <-. exists (AStep (s_tid a)). split; assumption. }
  destruct (m_kind (s_act a) =? 6); [|discriminate].
  destruct (ostep s (s_tid a)) as [s1|] eqn:B; [|discriminate].
  match type of T with (if ?c then _ else _) = _ => destruct c; [|discriminate] end.
  injection T as <-. exists (AStepO (s_tid a)). split; assumption.
Qed.

Lemma lookup_ok t qs : qs_ok qs = true -> forallb sact_ok (lookup t qs) = true.
Proof.
  induction qs as [|[u l] r IH]; cbn [lookup qs_ok forallb snd]; intros H; [reflexivity|].
  apply andb_true_iff in H. destruct H as [H1 H2]. destruct (u =? t); [exact H1 | apply IH; exact H2].
Qed.

Lemma pop_q_ok t qs : qs_ok qs = true -> qs_ok (pop_q t qs) = true.
Proof.
  induction qs as [|[u l] r IH]; cbn [pop_q qs_ok forallb snd]; intros H; [reflexivity|].
  apply andb_true_iff in H. destruct H as [H1 H2]. destruct (u =? t); cbn [qs_ok forallb snd].
  - apply andb_true_iff. split; [|exact H2]. destruct l; cbn [tl forallb] in *; [reflexivity|].
    apply andb_true_iff in H1. tauto.
  - apply andb_true_iff. split; [exact H1 | apply IH; exact H2].
Qed.

Lemma pick_step ids s qs : qs_ok qs = true -> forall w ord seen t s',
  pick ids s qs ord seen w = Some (t, s') -> exists act, step s act s'.
Proof.
  intros Q. induction w as [|w IH]; intros ord seen t s' P; destruct ord as [|u r]; cbn [pick] in P; try discriminate.
  destruct (existsb (Z.eqb u) seen); [eapply IH; exact P|].
  pose proof (lookup_ok u qs Q) as L.
  destruct (lookup u qs) as [|a l]; [eapply IH; exact P|].
  cbn [forallb] in L. apply andb_true_iff in L. destruct L as [La _].
  destruct (try_act ids s a) as [s1|] eqn:T; [|eapply IH; exact P].
  injection P as _ <-. eapply try_act_step; eassumption.
Qed.

Theorem sched_reach rb : forall fuel w ids s qs ord done,
  qs_ok qs = true -> reach rb s -> reach rb (fst (fst (sched fuel w ids s qs ord done))).
Proof.
  induction fuel as [|f IH]; intros w ids s qs ord done Q R; cbn [sched]; [exact R|].
  destruct ord as [|u r]; [exact R|].
  destruct (pick ids s qs (u :: r) [] w) as [[t s1]|] eqn:P; [|exact R].
  apply IH; [apply pop_q_ok; exact Q|].
  destruct (pick_step ids s qs Q _ _ _ _ _ P) as [act St].
  eapply reach_step; [exact R | exact St].
Qed.

(* what the checker relies on: the state whose dq_state / rootq / list / started the replay of a round reports is reachable
   in SLane *)
Corollary replay_reach rb w qs ord :
  qs_ok qs = true -> reach rb (fst (fst (sched (S (length ord)) w [] (init_state rb) qs ord 0))).
Proof. intros Q. apply sched_reach; [exact Q | apply reach_init; reflexivity]. Qed.

(* ---------------------------------------------------------------- a recorded round, replayed
   One round of harness/c02_slane.c under 40 % schedule perturbation that contains the need_override continuation of a push
   onto a non-empty list (an AStepO action, kind 6, followed by the PA_oprobe / PA_owake steps): the action lists
   SLaneR.abstract read off the thread traces and the order lib/props/c01_slane.py derived from the recorder's stamps and the
   exact dq_state / dq_items_tail chains.  The scheduler consumes every action: the model ends with the recorded dq_state, an
   empty list, nothing in the root queue, every thread idle and the items started in tail-exchange order. *)
(* seed 20 round 22 kind 5 threads 2 items 16 result [162, 0, 9005068950962176, 0, 0, 16, 1, 16, 1, -1] final 9005068950962176 *)
Definition SA (t : Z) (m : mact) (i : Z) : sact := {| s_tid := t; s_act := m; s_id := i |}.
Definition ex_rb : Z := 1.
Definition ex_qs : list (Z * list sact) := [
  (28380, [SA 28380 (MA 1 0 7 (-1) 0 0) (-1);
     SA 28380 (MA 2 0 7 (-1) 0 0) (-1);
     SA 28380 (MA 2 0 8 27021677221146332 0 0) (-1);
     SA 28380 (MA 2 0 9 (-1) 0 0) (-1);
     SA 28380 (MA 2 0 10 (-1) 0 0) (-1);
     SA 28380 (MA 2 0 12 (-1) 139629588127248 0) 0;
     SA 28380 (MA 2 0 14 (-1) 139629588127248 0) 0;
     SA 28380 (MA 2 0 16 (-1) 0 0) (-1);
     SA 28380 (MA 2 0 10 (-1) 0 0) (-1);
     SA 28380 (MA 2 0 12 (-1) 139629453906544 0) 1;
     SA 28380 (MA 2 0 14 (-1) 139629453906544 0) 1;
     SA 28380 (MA 2 0 16 (-1) 0 0) (-1);
     SA 28380 (MA 2 0 10 (-1) 0 0) (-1);
     SA 28380 (MA 2 0 12 (-1) 139629453906624 0) 2;
     SA 28380 (MA 2 0 14 (-1) 139629453906624 0) 2;
     SA 28380 (MA 2 0 16 (-1) 0 0) (-1);
     SA 28380 (MA 2 0 10 (-1) 0 0) (-1);
     SA 28380 (MA 2 0 12 (-1) 139629453906704 0) 3;
     SA 28380 (MA 2 0 14 (-1) 139629453906704 0) 3;
     SA 28380 (MA 2 0 16 (-1) 0 0) (-1);
     SA 28380 (MA 2 0 10 (-1) 0 0) (-1);
     SA 28380 (MA 2 0 11 (-1) 139629588127328 0) 4;
     SA 28380 (MA 2 0 13 (-1) 139629588127328 0) 4;
     SA 28380 (MA 2 0 15 (-1) 0 0) (-1);
     SA 28380 (MA 2 0 9 (-1) 0 0) (-1);
     SA 28380 (MA 2 0 10 (-1) 0 0) (-1);
     SA 28380 (MA 2 0 12 (-1) 139629588127408 0) 5;
     SA 28380 (MA 2 0 14 (-1) 139629588127408 0) 5;
     SA 28380 (MA 2 0 16 (-1) 0 0) (-1);
     SA 28380 (MA 2 0 10 (-1) 0 0) (-1);
     SA 28380 (MA 2 0 11 (-1) 139629588127488 0) 6;
     SA 28380 (MA 2 0 13 (-1) 139629588127488 0) 6;
     SA 28380 (MA 2 0 15 (-1) 0 0) (-1);
     SA 28380 (MA 2 0 17 (-1) 0 1) (-1);
     SA 28380 (MA 2 0 18 (-1) 0 0) (-1);
     SA 28380 (MA 2 0 8 27021677221146332 0 0) (-1);
     SA 28380 (MA 2 0 9 (-1) 0 0) (-1);
     SA 28380 (MA 2 0 10 (-1) 0 0) (-1);
     SA 28380 (MA 2 0 12 (-1) 139629588127568 0) 7;
     SA 28380 (MA 2 0 14 (-1) 139629588127568 0) 7;
     SA 28380 (MA 2 0 16 (-1) 0 0) (-1);
     SA 28380 (MA 2 0 10 (-1) 0 0) (-1);
     SA 28380 (MA 2 0 11 (-1) 139629588127648 0) 8;
     SA 28380 (MA 2 0 13 (-1) 139629588127648 0) 8;
     SA 28380 (MA 2 0 15 (-1) 0 0) (-1);
     SA 28380 (MA 2 0 17 (-1) 0 1) (-1);
     SA 28380 (MA 2 0 18 (-1) 0 0) (-1);
     SA 28380 (MA 2 0 8 27021677221146332 0 0) (-1);
     SA 28380 (MA 2 0 17 (-1) 0 1) (-1);
     SA 28380 (MA 2 0 0 9005068950962176 0 0) (-1);
     SA 28380 (MA 1 0 7 (-1) 0 0) (-1);
     SA 28380 (MA 2 0 7 (-1) 0 0) (-1);
     SA 28380 (MA 2 0 8 27021677221146332 0 0) (-1);
     SA 28380 (MA 2 0 9 (-1) 0 0) (-1);
     SA 28380 (MA 2 0 10 (-1) 0 0) (-1);
     SA 28380 (MA 2 0 12 (-1) 139629588127808 0) 10;
     SA 28380 (MA 2 0 14 (-1) 139629588127808 0) 10;
     SA 28380 (MA 2 0 16 (-1) 0 0) (-1);
     SA 28380 (MA 2 0 10 (-1) 0 0) (-1);
     SA 28380 (MA 2 0 12 (-1) 139629588127888 0) 11;
     SA 28380 (MA 2 0 14 (-1) 139629588127888 0) 11;
     SA 28380 (MA 2 0 16 (-1) 0 0) (-1);
     SA 28380 (MA 2 0 10 (-1) 0 0) (-1);
     SA 28380 (MA 2 0 12 (-1) 139629588127968 0) 12;
     SA 28380 (MA 2 0 14 (-1) 139629588127968 0) 12;
     SA 28380 (MA 2 0 16 (-1) 0 0) (-1);
     SA 28380 (MA 2 0 10 (-1) 0 0) (-1);
     SA 28380 (MA 2 0 11 (-1) 139629588128048 0) 13;
     SA 28380 (MA 2 0 13 (-1) 139629588128048 0) 13;
     SA 28380 (MA 2 0 15 (-1) 0 0) (-1);
     SA 28380 (MA 2 0 17 (-1) 0 1) (-1);
     SA 28380 (MA 2 0 0 9005068950962176 0 0) (-1)]);
  (28381, [SA 28381 (MA 1 0 7 (-1) 0 0) (-1);
     SA 28381 (MA 2 0 7 (-1) 0 0) (-1);
     SA 28381 (MA 2 0 8 27021677221146333 0 0) (-1);
     SA 28381 (MA 2 0 9 (-1) 0 0) (-1);
     SA 28381 (MA 2 0 10 (-1) 0 0) (-1);
     SA 28381 (MA 2 0 11 (-1) 139629588127728 0) 9;
     SA 28381 (MA 2 0 13 (-1) 139629588127728 0) 9;
     SA 28381 (MA 2 0 15 (-1) 0 0) (-1);
     SA 28381 (MA 2 0 17 (-1) 0 1) (-1);
     SA 28381 (MA 2 0 0 9005068950962176 0 0) (-1);
     SA 28381 (MA 1 0 7 (-1) 0 0) (-1);
     SA 28381 (MA 2 0 7 (-1) 0 0) (-1);
     SA 28381 (MA 2 0 8 27021677221146333 0 0) (-1);
     SA 28381 (MA 2 0 9 (-1) 0 0) (-1);
     SA 28381 (MA 2 0 10 (-1) 0 0) (-1);
     SA 28381 (MA 2 0 12 (-1) 139629588128128 0) 14;
     SA 28381 (MA 2 0 14 (-1) 139629588128128 0) 14;
     SA 28381 (MA 2 0 16 (-1) 0 0) (-1);
     SA 28381 (MA 2 0 10 (-1) 0 0) (-1);
     SA 28381 (MA 2 0 11 (-1) 139629588128208 0) 15;
     SA 28381 (MA 2 0 13 (-1) 139629588128208 0) 15;
     SA 28381 (MA 2 0 15 (-1) 0 0) (-1);
     SA 28381 (MA 2 0 17 (-1) 0 1) (-1);
     SA 28381 (MA 2 0 0 9005068950962176 0 0) (-1)]);
  (28488, [SA 28488 (MA 0 2 1 (-1) 0 0) (-1);
     SA 28488 (MA 2 0 3 (-1) 139629588127248 0) 0;
     SA 28488 (MA 2 0 4 (-1) 0 0) (-1);
     SA 28488 (MA 2 0 5 (-1) 0 0) (-1);
     SA 28488 (MA 2 0 0 9005663803932672 0 0) (-1);
     SA 28488 (MA 0 2 1 (-1) 0 0) (-1);
     SA 28488 (MA 2 0 2 (-1) 139629588127328 0) 4;
     SA 28488 (MA 2 0 0 (-1) 0 0) (-1);
     SA 28488 (MA 0 2 1 (-1) 0 0) (-1);
     SA 28488 (MA 2 0 3 (-1) 139629588127408 0) 5;
     SA 28488 (MA 2 0 4 (-1) 0 0) (-1);
     SA 28488 (MA 2 0 5 (-1) 0 0) (-1);
     SA 28488 (MA 2 0 0 27022226976960220 0 0) (-1);
     SA 28488 (MA 0 2 1 (-1) 0 0) (-1);
     SA 28488 (MA 2 0 2 (-1) 139629588127488 0) 6;
     SA 28488 (MA 2 0 0 (-1) 0 0) (-1);
     SA 28488 (MA 0 2 1 (-1) 0 0) (-1);
     SA 28488 (MA 2 0 3 (-1) 139629588127568 0) 7;
     SA 28488 (MA 2 0 4 (-1) 0 0) (-1);
     SA 28488 (MA 2 0 5 (-1) 0 0) (-1);
     SA 28488 (MA 2 0 0 27022226976960220 0 0) (-1);
     SA 28488 (MA 0 2 1 (-1) 0 0) (-1);
     SA 28488 (MA 2 0 2 (-1) 139629588127648 0) 8;
     SA 28488 (MA 2 0 0 (-1) 0 0) (-1);
     SA 28488 (MA 0 2 1 (-1) 0 0) (-1);
     SA 28488 (MA 2 0 3 (-1) 139629588127728 0) 9;
     SA 28488 (MA 2 0 4 (-1) 0 0) (-1);
     SA 28488 (MA 2 0 5 (-1) 0 0) (-1);
     SA 28488 (MA 2 0 6 9005663803932672 0 0) (-1);
     SA 28488 (MA 2 0 0 (-1) 0 0) (-1);
     SA 28488 (MA 0 2 1 (-1) 0 0) (-1);
     SA 28488 (MA 2 0 3 (-1) 139629588127808 0) 10;
     SA 28488 (MA 2 0 4 (-1) 0 0) (-1);
     SA 28488 (MA 2 0 5 (-1) 0 0) (-1);
     SA 28488 (MA 2 0 6 9005663803932672 0 0) (-1);
     SA 28488 (MA 2 0 0 (-1) 0 0) (-1);
     SA 28488 (MA 0 2 1 (-1) 0 0) (-1);
     SA 28488 (MA 2 0 2 (-1) 139629588127888 0) 11;
     SA 28488 (MA 2 0 0 (-1) 0 0) (-1);
     SA 28488 (MA 0 2 1 (-1) 0 0) (-1);
     SA 28488 (MA 2 0 2 (-1) 139629588127968 0) 12;
     SA 28488 (MA 2 0 0 (-1) 0 0) (-1);
     SA 28488 (MA 0 2 1 (-1) 0 0) (-1);
     SA 28488 (MA 2 0 2 (-1) 139629588128048 0) 13;
     SA 28488 (MA 2 0 0 (-1) 0 0) (-1);
     SA 28488 (MA 0 2 1 (-1) 0 0) (-1);
     SA 28488 (MA 2 0 3 (-1) 139629588128128 0) 14;
     SA 28488 (MA 2 0 4 (-1) 0 0) (-1);
     SA 28488 (MA 2 0 5 (-1) 0 0) (-1);
     SA 28488 (MA 2 0 6 9005663803932672 0 0) (-1);
     SA 28488 (MA 2 0 0 (-1) 0 0) (-1);
     SA 28488 (MA 0 2 1 (-1) 0 0) (-1);
     SA 28488 (MA 2 0 2 (-1) 139629588128208 0) 15;
     SA 28488 (MA 2 0 0 (-1) 0 0) (-1)]);
  (28487, [SA 28487 (MA 0 2 1 (-1) 0 0) (-1);
     SA 28487 (MA 2 0 2 (-1) 139629453906544 0) 1;
     SA 28487 (MA 6 0 19 (-1) 0 0) (-1);
     SA 28487 (MA 2 0 20 (-1) 0 0) (-1);
     SA 28487 (MA 2 0 6 9005114048118784 0 0) (-1);
     SA 28487 (MA 2 0 0 (-1) 0 0) (-1);
     SA 28487 (MA 0 2 1 (-1) 0 0) (-1);
     SA 28487 (MA 2 0 2 (-1) 139629453906624 0) 2;
     SA 28487 (MA 2 0 0 (-1) 0 0) (-1);
     SA 28487 (MA 0 2 1 (-1) 0 0) (-1);
     SA 28487 (MA 2 0 2 (-1) 139629453906704 0) 3;
     SA 28487 (MA 2 0 0 (-1) 0 0) (-1)])].
Definition ex_ord : list Z := [28488; 28488; 28487; 28487; 28487; 28487; 28487; 28487; 28487; 28488; 28487; 28487; 28487; 28487; 28488; 28488; 28487; 28488; 28488; 28380; 28380; 28380; 28380; 28380; 28380; 28380; 28380; 28380; 28380; 28380; 28380; 28380; 28380; 28380; 28380; 28380; 28488; 28488; 28380; 28380; 28380; 28380; 28380; 28488; 28488; 28488; 28488; 28488; 28488; 28488; 28380; 28380; 28380; 28380; 28380; 28380; 28380; 28380; 28380; 28380; 28380; 28380; 28380; 28488; 28380; 28488; 28380; 28488; 28488; 28488; 28488; 28488; 28380; 28488; 28380; 28380; 28380; 28380; 28380; 28380; 28380; 28380; 28380; 28380; 28380; 28380; 28488; 28488; 28488; 28488; 28488; 28488; 28381; 28381; 28381; 28381; 28381; 28381; 28381; 28381; 28381; 28381; 28488; 28488; 28488; 28488; 28488; 28488; 28488; 28488; 28488; 28488; 28488; 28488; 28488; 28488; 28488; 28380; 28380; 28380; 28380; 28380; 28380; 28380; 28380; 28380; 28380; 28380; 28380; 28380; 28380; 28380; 28380; 28380; 28380; 28380; 28380; 28380; 28380; 28488; 28488; 28488; 28488; 28488; 28488; 28488; 28488; 28381; 28381; 28381; 28488; 28381; 28381; 28381; 28381; 28381; 28381; 28381; 28381; 28381; 28381; 28381].
Definition ex_result : list Z := [162; 0; 9005068950962176; 0; 0; 16; 1; 16; 1; (-1)].

Lemma demo_replay :
  qs_ok ex_qs = true /\ replay ex_rb 48 ex_qs ex_ord = ex_result /\
  nth 1 ex_result 1 = 0 /\ nth 0 ex_result 0 = Z.of_nat (length ex_ord) /\
  existsb (fun q => existsb (fun a => m_kind (s_act a) =? 6) (snd q)) ex_qs = true.
Proof. vm_compute. repeat split. Qed.
