(* SLaneR_proofs.v — the replay scheduler of Model/SLaneR.v only ever takes steps of the global model: whatever it is
   given (action lists, preferred order, window), every state it passes through is a reachable state of SLane, provided
   the action lists contain SLane actions only (no override wakeup) and the thread ids are valid.  So a recorded round
   that the scheduler consumes entirely IS a run of SLane with the recorded outcomes, and SLane's theorems apply to it. *)
From Coq Require Import ZArith Bool List Lia.
From Verif Require Import Word Conc Gen_consts Gen_dqstate SLane SLaneT SLaneR.
Import ListNotations.
Local Open Scope Z_scope.

Definition sact_ok (a : sact) : bool :=
  (m_kind (s_act a) <? 3) && (0 <? s_tid a) && (s_tid a <? 1073741824).
Definition qs_ok (qs : list (Z * list sact)) : bool := forallb (fun q => forallb sact_ok (snd q)) qs.

Lemma try_act_step s a s' : sact_ok a = true -> try_act s a = Some s' -> exists act, step s act s'.
Proof.
  unfold sact_ok. intros H T. apply andb_true_iff in H. destruct H as [H H3]. apply andb_true_iff in H. destruct H as [H1 H2].
  apply Z.ltb_lt in H1, H2, H3.
  assert (V : valid_tid (s_tid a)) by (unfold valid_tid; lia).
  unfold try_act in T.
  destruct (m_kind (s_act a) =? 0) eqn:K0.
  - destruct (begin s (s_tid a) (CAsync (m_arg (s_act a)))) as [s1|] eqn:B; [|discriminate].
    match type of T with (if ?c then _ else _) = _ => destruct c; [|discriminate] end.
    injection T as <-. exists (ABegin (s_tid a) (CAsync (m_arg (s_act a)))). split; assumption.
  - destruct (m_kind (s_act a) =? 1) eqn:K1.
    + destruct (begin s (s_tid a) (CWorker (m_arg (s_act a)))) as [s1|] eqn:B; [|discriminate].
      match type of T with (if ?c then _ else _) = _ => destruct c; [|discriminate] end.
      injection T as <-. exists (ABegin (s_tid a) (CWorker (m_arg (s_act a)))). split; assumption.
    + destruct (m_kind (s_act a) =? 2) eqn:K2.
      * destruct (gstep s (s_tid a)) as [s1|] eqn:B; [|discriminate].
        match type of T with (if ?c then _ else _) = _ => destruct c; [|discriminate] end.
        injection T as <-. exists (AStep (s_tid a)). split; assumption.
      * apply Z.eqb_neq in K0, K1, K2.
        destruct (m_kind (s_act a) =? 3) eqn:K3; [apply Z.eqb_eq in K3; lia|].
        destruct (m_kind (s_act a) =? 4) eqn:K4; [apply Z.eqb_eq in K4; lia|]. discriminate.
Qed.

Lemma lookup_ok t qs : qs_ok qs = true -> forallb sact_ok (lookup t qs) = true.
Proof.
  induction qs as [|[u l] r IH]; cbn [lookup qs_ok forallb snd]; intros H; [reflexivity|].
  apply andb_true_iff in H. destruct H as [H1 H2]. destruct (u =? t); [exact H1 | apply IH; exact H2].
Qed.

Lemma pop_q_ok t qs : qs_ok qs = true -> qs_ok (pop_q t qs) = true.
Proof.
  induction qs as [|[u l] r IH]; cbn [pop_q qs_ok forallb snd]; intros H; [reflexivity|].
  apply andb_true_iff in H. destruct H as [H1 H2]. destruct (u =? t); cbn [qs_ok forallb snd].
  - apply andb_true_iff. split; [|exact H2]. destruct l; cbn [tl forallb] in *; [reflexivity|].
    apply andb_true_iff in H1. tauto.
  - apply andb_true_iff. split; [exact H1 | apply IH; exact H2].
Qed.

Lemma pick_step s qs : qs_ok qs = true -> forall w ord seen t s',
  pick s qs ord seen w = Some (t, s') -> exists act, step s act s'.
Proof.
  intros Q. induction w as [|w IH]; intros ord seen t s' P; destruct ord as [|u r]; cbn [pick] in P; try discriminate.
  destruct (existsb (Z.eqb u) seen); [eapply IH; exact P|].
  pose proof (lookup_ok u qs Q) as L.
  destruct (lookup u qs) as [|a l]; [eapply IH; exact P|].
  cbn [forallb] in L. apply andb_true_iff in L. destruct L as [La _].
  destruct (try_act s a) as [s1|] eqn:T; [|eapply IH; exact P].
  injection P as _ <-. eapply try_act_step; eassumption.
Qed.

Theorem sched_reach rb : forall fuel w s qs ord done,
  qs_ok qs = true -> reach rb s -> reach rb (fst (fst (sched fuel w s qs ord done))).
Proof.
  induction fuel as [|f IH]; intros w s qs ord done Q R; cbn [sched]; [exact R|].
  destruct ord as [|u r]; [exact R|].
  destruct (pick s qs (u :: r) [] w) as [[t s1]|] eqn:P; [|exact R].
  apply IH; [apply pop_q_ok; exact Q|].
  destruct (pick_step s qs Q _ _ _ _ _ P) as [act St].
  eapply reach_step; [exact R | exact St].
Qed.

(* what the checker relies on: if the replay of a round consumed every action, the state whose dq_state / rootq / list /
   started it reports is reachable in SLane *)
Corollary replay_reach rb w qs ord :
  qs_ok qs = true -> reach rb (fst (fst (sched (S (length ord)) w (init_state rb) qs ord 0))).
Proof. intros Q. apply sched_reach; [exact Q | apply reach_init; reflexivity]. Qed.

(* ---------------------------------------------------------------- a recorded round, replayed
   One round of harness/c02_slane.c (two submitting threads, 16 items, a queue created with a UTILITY QoS attribute, 40 %
   schedule perturbation; it contains a DIRTY retry of the drainer): the action lists SLaneR.abstract read off the three
   thread traces and the order lib/props/c01_slane.py derived from the recorder's stamps and the exact dq_state /
   dq_items_tail chains.  The scheduler consumes all 154 actions: the model ends with the recorded dq_state, an empty list,
   nothing in the root queue, every thread idle and items 0..15 started in that order. *)
(* seed 28 round 27 kind 10 threads 2 items 16 result [154, 0, 9005068950962176, 0, 0, 16, 1, 16, 1, -1] final 9005068950962176 *)
Definition SA (t : Z) (m : mact) (i : Z) : sact := {| s_tid := t; s_act := m; s_id := i |}.
Definition ex_rb : Z := 1.
Definition ex_qs : list (Z * list sact) := [
  (2719, [SA 2719 (MA 1 0 7 (-1) 0 0) (-1);
     SA 2719 (MA 2 0 7 (-1) 0 0) (-1);
     SA 2719 (MA 2 0 8 27021681516087967 0 0) (-1);
     SA 2719 (MA 2 0 9 (-1) 0 0) (-1);
     SA 2719 (MA 2 0 10 (-1) 0 0) (-1);
     SA 2719 (MA 2 0 12 (-1) 139825546009056 0) 0;
     SA 2719 (MA 2 0 14 (-1) 139825546009056 0) 0;
     SA 2719 (MA 2 0 16 (-1) 0 0) (-1);
     SA 2719 (MA 2 0 10 (-1) 0 0) (-1);
     SA 2719 (MA 2 0 12 (-1) 139825546009136 0) 1;
     SA 2719 (MA 2 0 14 (-1) 139825546009136 0) 1;
     SA 2719 (MA 2 0 16 (-1) 0 0) (-1);
     SA 2719 (MA 2 0 10 (-1) 0 0) (-1);
     SA 2719 (MA 2 0 12 (-1) 139826150000944 0) 2;
     SA 2719 (MA 2 0 14 (-1) 139826150000944 0) 2;
     SA 2719 (MA 2 0 16 (-1) 0 0) (-1);
     SA 2719 (MA 2 0 10 (-1) 0 0) (-1);
     SA 2719 (MA 2 0 12 (-1) 139826150001024 0) 3;
     SA 2719 (MA 2 0 14 (-1) 139826150001024 0) 3;
     SA 2719 (MA 2 0 16 (-1) 0 0) (-1);
     SA 2719 (MA 2 0 10 (-1) 0 0) (-1);
     SA 2719 (MA 2 0 12 (-1) 139826150001104 0) 4;
     SA 2719 (MA 2 0 14 (-1) 139826150001104 0) 4;
     SA 2719 (MA 2 0 16 (-1) 0 0) (-1);
     SA 2719 (MA 2 0 10 (-1) 0 0) (-1);
     SA 2719 (MA 2 0 12 (-1) 139826150001184 0) 5;
     SA 2719 (MA 2 0 14 (-1) 139826150001184 0) 5;
     SA 2719 (MA 2 0 16 (-1) 0 0) (-1);
     SA 2719 (MA 2 0 10 (-1) 0 0) (-1);
     SA 2719 (MA 2 0 12 (-1) 139825546009216 0) 6;
     SA 2719 (MA 2 0 14 (-1) 139825546009216 0) 6;
     SA 2719 (MA 2 0 16 (-1) 0 0) (-1);
     SA 2719 (MA 2 0 10 (-1) 0 0) (-1);
     SA 2719 (MA 2 0 11 (-1) 139826150001264 0) 7;
     SA 2719 (MA 2 0 13 (-1) 139826150001264 0) 7;
     SA 2719 (MA 2 0 15 (-1) 0 0) (-1);
     SA 2719 (MA 2 0 17 (-1) 0 1) (-1);
     SA 2719 (MA 2 0 18 (-1) 0 0) (-1);
     SA 2719 (MA 2 0 8 27021681516087967 0 0) (-1);
     SA 2719 (MA 2 0 9 (-1) 0 0) (-1);
     SA 2719 (MA 2 0 10 (-1) 0 0) (-1);
     SA 2719 (MA 2 0 12 (-1) 139826150001344 0) 8;
     SA 2719 (MA 2 0 14 (-1) 139826150001344 0) 8;
     SA 2719 (MA 2 0 16 (-1) 0 0) (-1);
     SA 2719 (MA 2 0 10 (-1) 0 0) (-1);
     SA 2719 (MA 2 0 12 (-1) 139826150001424 0) 9;
     SA 2719 (MA 2 0 14 (-1) 139826150001424 0) 9;
     SA 2719 (MA 2 0 16 (-1) 0 0) (-1);
     SA 2719 (MA 2 0 10 (-1) 0 0) (-1);
     SA 2719 (MA 2 0 11 (-1) 139825546009296 0) 10;
     SA 2719 (MA 2 0 13 (-1) 139825546009296 0) 10;
     SA 2719 (MA 2 0 15 (-1) 0 0) (-1);
     SA 2719 (MA 2 0 17 (-1) 0 1) (-1);
     SA 2719 (MA 2 0 0 9005068950962176 0 0) (-1);
     SA 2719 (MA 1 0 7 (-1) 0 0) (-1);
     SA 2719 (MA 2 0 7 (-1) 0 0) (-1);
     SA 2719 (MA 2 0 8 27021681516087967 0 0) (-1);
     SA 2719 (MA 2 0 9 (-1) 0 0) (-1);
     SA 2719 (MA 2 0 10 (-1) 0 0) (-1);
     SA 2719 (MA 2 0 12 (-1) 139826150001504 0) 11;
     SA 2719 (MA 2 0 14 (-1) 139826150001504 0) 11;
     SA 2719 (MA 2 0 16 (-1) 0 0) (-1);
     SA 2719 (MA 2 0 10 (-1) 0 0) (-1);
     SA 2719 (MA 2 0 11 (-1) 139826150001584 0) 12;
     SA 2719 (MA 2 0 13 (-1) 139826150001584 0) 12;
     SA 2719 (MA 2 0 15 (-1) 0 0) (-1);
     SA 2719 (MA 2 0 17 (-1) 0 1) (-1);
     SA 2719 (MA 2 0 0 9005068950962176 0 0) (-1);
     SA 2719 (MA 1 0 7 (-1) 0 0) (-1);
     SA 2719 (MA 2 0 7 (-1) 0 0) (-1);
     SA 2719 (MA 2 0 8 27021681516087967 0 0) (-1);
     SA 2719 (MA 2 0 9 (-1) 0 0) (-1);
     SA 2719 (MA 2 0 10 (-1) 0 0) (-1);
     SA 2719 (MA 2 0 11 (-1) 139826150001664 0) 13;
     SA 2719 (MA 2 0 13 (-1) 139826150001664 0) 13;
     SA 2719 (MA 2 0 15 (-1) 0 0) (-1);
     SA 2719 (MA 2 0 17 (-1) 0 1) (-1);
     SA 2719 (MA 2 0 0 9005068950962176 0 0) (-1);
     SA 2719 (MA 1 0 7 (-1) 0 0) (-1);
     SA 2719 (MA 2 0 7 (-1) 0 0) (-1);
     SA 2719 (MA 2 0 8 27021681516087967 0 0) (-1);
     SA 2719 (MA 2 0 9 (-1) 0 0) (-1);
     SA 2719 (MA 2 0 10 (-1) 0 0) (-1);
     SA 2719 (MA 2 0 12 (-1) 139826150001744 0) 14;
     SA 2719 (MA 2 0 14 (-1) 139826150001744 0) 14;
     SA 2719 (MA 2 0 16 (-1) 0 0) (-1);
     SA 2719 (MA 2 0 10 (-1) 0 0) (-1);
     SA 2719 (MA 2 0 11 (-1) 139826150001824 0) 15;
     SA 2719 (MA 2 0 13 (-1) 139826150001824 0) 15;
     SA 2719 (MA 2 0 15 (-1) 0 0) (-1);
     SA 2719 (MA 2 0 17 (-1) 0 1) (-1);
     SA 2719 (MA 2 0 0 9005068950962176 0 0) (-1)]);
  (2773, [SA 2773 (MA 0 3 1 (-1) 0 0) (-1);
     SA 2773 (MA 2 0 3 (-1) 139825546009056 0) 0;
     SA 2773 (MA 2 0 4 (-1) 0 0) (-1);
     SA 2773 (MA 2 0 5 (-1) 0 0) (-1);
     SA 2773 (MA 2 0 6 9005668098899968 0 0) (-1);
     SA 2773 (MA 2 0 0 (-1) 0 0) (-1);
     SA 2773 (MA 0 3 1 (-1) 0 0) (-1);
     SA 2773 (MA 2 0 2 (-1) 139825546009136 0) 1;
     SA 2773 (MA 2 0 0 (-1) 0 0) (-1);
     SA 2773 (MA 0 3 1 (-1) 0 0) (-1);
     SA 2773 (MA 2 0 2 (-1) 139825546009216 0) 6;
     SA 2773 (MA 2 0 0 (-1) 0 0) (-1);
     SA 2773 (MA 0 3 1 (-1) 0 0) (-1);
     SA 2773 (MA 2 0 2 (-1) 139825546009296 0) 10;
     SA 2773 (MA 2 0 0 (-1) 0 0) (-1)]);
  (2772, [SA 2772 (MA 0 3 1 (-1) 0 0) (-1);
     SA 2772 (MA 2 0 2 (-1) 139826150000944 0) 2;
     SA 2772 (MA 2 0 0 (-1) 0 0) (-1);
     SA 2772 (MA 0 3 1 (-1) 0 0) (-1);
     SA 2772 (MA 2 0 2 (-1) 139826150001024 0) 3;
     SA 2772 (MA 2 0 0 (-1) 0 0) (-1);
     SA 2772 (MA 0 3 1 (-1) 0 0) (-1);
     SA 2772 (MA 2 0 2 (-1) 139826150001104 0) 4;
     SA 2772 (MA 2 0 0 (-1) 0 0) (-1);
     SA 2772 (MA 0 3 1 (-1) 0 0) (-1);
     SA 2772 (MA 2 0 2 (-1) 139826150001184 0) 5;
     SA 2772 (MA 2 0 0 (-1) 0 0) (-1);
     SA 2772 (MA 0 3 1 (-1) 0 0) (-1);
     SA 2772 (MA 2 0 2 (-1) 139826150001264 0) 7;
     SA 2772 (MA 2 0 0 (-1) 0 0) (-1);
     SA 2772 (MA 0 3 1 (-1) 0 0) (-1);
     SA 2772 (MA 2 0 3 (-1) 139826150001344 0) 8;
     SA 2772 (MA 2 0 4 (-1) 0 0) (-1);
     SA 2772 (MA 2 0 5 (-1) 0 0) (-1);
     SA 2772 (MA 2 0 0 27022231271901855 0 0) (-1);
     SA 2772 (MA 0 3 1 (-1) 0 0) (-1);
     SA 2772 (MA 2 0 2 (-1) 139826150001424 0) 9;
     SA 2772 (MA 2 0 0 (-1) 0 0) (-1);
     SA 2772 (MA 0 3 1 (-1) 0 0) (-1);
     SA 2772 (MA 2 0 3 (-1) 139826150001504 0) 11;
     SA 2772 (MA 2 0 4 (-1) 0 0) (-1);
     SA 2772 (MA 2 0 5 (-1) 0 0) (-1);
     SA 2772 (MA 2 0 6 9005668098899968 0 0) (-1);
     SA 2772 (MA 2 0 0 (-1) 0 0) (-1);
     SA 2772 (MA 0 3 1 (-1) 0 0) (-1);
     SA 2772 (MA 2 0 2 (-1) 139826150001584 0) 12;
     SA 2772 (MA 2 0 0 (-1) 0 0) (-1);
     SA 2772 (MA 0 3 1 (-1) 0 0) (-1);
     SA 2772 (MA 2 0 3 (-1) 139826150001664 0) 13;
     SA 2772 (MA 2 0 4 (-1) 0 0) (-1);
     SA 2772 (MA 2 0 5 (-1) 0 0) (-1);
     SA 2772 (MA 2 0 6 9005668098899968 0 0) (-1);
     SA 2772 (MA 2 0 0 (-1) 0 0) (-1);
     SA 2772 (MA 0 3 1 (-1) 0 0) (-1);
     SA 2772 (MA 2 0 3 (-1) 139826150001744 0) 14;
     SA 2772 (MA 2 0 4 (-1) 0 0) (-1);
     SA 2772 (MA 2 0 5 (-1) 0 0) (-1);
     SA 2772 (MA 2 0 6 9005668098899968 0 0) (-1);
     SA 2772 (MA 2 0 0 (-1) 0 0) (-1);
     SA 2772 (MA 0 3 1 (-1) 0 0) (-1);
     SA 2772 (MA 2 0 2 (-1) 139826150001824 0) 15;
     SA 2772 (MA 2 0 0 (-1) 0 0) (-1)])].
Definition ex_ord : list Z := [2773; 2773; 2773; 2773; 2773; 2773; 2773; 2773; 2719; 2719; 2719; 2719; 2719; 2772; 2772; 2772; 2772; 2772; 2772; 2772; 2772; 2772; 2772; 2772; 2773; 2773; 2773; 2773; 2719; 2719; 2719; 2719; 2772; 2772; 2772; 2772; 2719; 2719; 2772; 2719; 2719; 2719; 2719; 2719; 2719; 2719; 2719; 2719; 2719; 2719; 2719; 2719; 2719; 2719; 2719; 2719; 2719; 2719; 2719; 2719; 2719; 2719; 2719; 2719; 2719; 2772; 2772; 2772; 2772; 2719; 2719; 2719; 2719; 2772; 2772; 2772; 2719; 2719; 2719; 2719; 2773; 2773; 2773; 2719; 2719; 2719; 2719; 2719; 2719; 2719; 2719; 2719; 2772; 2772; 2772; 2772; 2772; 2772; 2772; 2772; 2772; 2719; 2719; 2719; 2719; 2719; 2719; 2719; 2719; 2719; 2719; 2719; 2719; 2719; 2719; 2772; 2772; 2772; 2772; 2772; 2772; 2719; 2719; 2719; 2719; 2719; 2719; 2719; 2719; 2719; 2772; 2719; 2772; 2772; 2772; 2772; 2772; 2772; 2772; 2772; 2719; 2719; 2719; 2719; 2719; 2719; 2719; 2719; 2719; 2719; 2719; 2719; 2719; 2719].
Definition ex_result : list Z := [154; 0; 9005068950962176; 0; 0; 16; 1; 16; 1; (-1)].

Lemma demo_replay :
  qs_ok ex_qs = true /\ replay ex_rb 48 ex_qs ex_ord = ex_result /\
  nth 1 ex_result 1 = 0 /\ nth 0 ex_result 0 = Z.of_nat (length ex_ord).
Proof. vm_compute. repeat split. Qed.
