(* RootQ_live_proofs.v — Part 4 of the root queue proofs (audit finding F3):
   - overcommit queues: with an unclaimed item and a free pool slot some thread is still active in the pool protocol (the
     lost wake-up of RootQ.stall_schedule needs the refused cmpxchg on dgq_pending, which overcommit queues do not have);
   - the exact case split for a state with an unclaimed item;
   - the monitor's repair of the two quiescent shapes as one statement (decision on the bucket computed from the state, the
     poke, the new worker's claim);
   - progress: every thread inside the queue code has an enabled step. *)
From Coq Require Import ZArith Bool List Lia ZifyBool.
From Verif Require Import Word Conc Gen_consts Gen_fields Gen_rootq RootQ RootQ_proofs RootQ_pool_proofs RootQ_wake_proofs.
Import ListNotations.
Local Open Scope Z_scope.

(* a poke past its semaphore signal that is still going to try to create a thread *)
Definition livepoke (p : pc) : bool :=
  match p with
  | PSigPost _ _ _ | PPendReq _ _ _ | PPoolLoad _ _ _ => true
  | PPoolLoop _ rem floor tc => negb (rem >? can_request tc floor)
  | _ => false
  end.
(* a worker at the pool semaphore or on its way to it *)
Definition semphase (p : pc) : bool :=
  match p with
  | PSemDec | PSemTimed | PSemLoad | PSemUndo _ | PSemBlocked => true
  | PCwOut st => negb (st =? ST_READY)
  | _ => false
  end.
Definition act (p : pc) : bool := tok p || livepoke p || semphase p.

Definition InvK (s : gst) : Prop := unclaimed s <> [] -> 1 <= pool s -> exists t, act (pcs s t) = true.

Lemma InvK_init p0 : InvK (init_state p0).
Proof. intros H. exfalso. apply H. reflexivity. Qed.

Lemma invK_keep s s1 t p' :
  InvK s -> pcs s1 = pcs s -> unclaimed (set_pc s1 t p') = unclaimed s -> pool s1 <= pool s ->
  (unclaimed s <> [] -> 1 <= pool s ->
     act p' = true \/ act (pcs s t) = false \/ exists u, u <> t /\ act (pcs s u) = true) ->
  InvK (set_pc s1 t p').
Proof.
  intros IK Ep EU Pl K U' P'. rewrite EU in U'. cbn in P'. assert (P : 1 <= pool s) by lia.
  destruct (K U' P) as [A|[A|(u & Nu & A)]].
  - exists t. cbn. rewrite upd_same. exact A.
  - destruct (IK U' P) as (u & Hu). exists u. cbn. rewrite Ep, upd_other; [exact Hu|]. intros ->. congruence.
  - exists u. cbn. rewrite Ep, upd_other by exact Nu. exact A.
Qed.

Ltac keepK IK :=
  match goal with
  | |- InvK (set_pc ?s1 ?t ?p) => apply (invK_keep _ s1 t p IK); [reflexivity | reflexivity | cbn; lia | intros U P]
  end.
Ltac k_act := left; reflexivity.
Ltac k_src Hpc := right; left; rewrite Hpc; reflexivity.

Theorem invK_step s t e s' : Inv1 s -> InvC s -> InvK s -> gstep true s t e = Some s' -> InvK s'.
Proof.
  intros I1 IC IK H.
  pose proof (C_wf s IC t) as W.
  destruct (pcs s t) eqn:Hpc; gstep_open H Hpc; try unfold call_entry in H; cbn in W.
  all: try solve [ open_case H; kcases; try match goal with c : ctx |- _ => destruct c end;
                   keepK IK; first [ k_act | k_src Hpc ] ].
  - (* PPushXchg: the list of unclaimed items grows *)
    open_case H. intros U' P'. cbn in P'.
    destruct (holder s) as [w|] eqn:Hw.
    + exists w. destruct (holder_chain s w I1 Hw) as (_ & _ & Hp). cbn.
      rewrite upd_other by (intros ->; rewrite Hpc in Hp; exact Hp).
      destruct (pcs s w); cbn in Hp; try contradiction; reflexivity.
    + destruct (Z.eqb_spec (tail s) 0) as [E0|E0].
      * exists t. cbn. rewrite upd_same. unfold act. cbn. match goal with X : ea e = tail s |- _ => rewrite X, E0 end. reflexivity.
      * assert (U : unclaimed s <> []).
        { unfold unclaimed. rewrite Hw. intros C. apply E0. apply (chain_nil_tail s I1 C). }
        destruct (IK U P') as (u & Hu). exists u. cbn. rewrite upd_other; [exact Hu|]. intros ->. rewrite Hpc in Hu. discriminate.
  - (* PPushLink *)
    destruct (Z.eqb_spec prev 0) as [E0|E0]; [subst prev|]; open_case H.
    + apply (invK_keep s (do_head_store s x) t _ IK); try reflexivity; try (cbn; lia); try (intros U P; k_act).
    + keepK IK. right; left. rewrite Hpc. unfold act. cbn. destruct (Z.eqb_spec prev 0); [contradiction|reflexivity].
  - (* PPokeProbe *)
    open_case H; kcases; keepK IK; try k_act; exfalso; apply (unclaimed_tail s I1 U); congruence.
  - (* PSigPost: the post wakes a waiter, which exists *)
    open_case H; kcases; keepK IK; try k_act.
    all: right; right;
      pose proof (C_sem s IC) as B; pose proof (C_ksem s IC) as K;
      assert (Hin : In t (seen s)) by (apply (C_sup s IC); congruence);
      pose proof (tsum_ge is_sigpost (pcs s) (seen s) t (proj1 (proj2 weights_nonneg)) Hin) as G; rewrite Hpc in G; cbn in G;
      assert (Pos : 0 < cnt is_slow s) by (unfold cnt in *; lia);
      destruct (tsum_pos_ex is_slow (pcs s) (seen s) (proj1 weights_nonneg) Pos) as (u & _ & Hu);
      exists u; (split; [intros ->; rewrite Hpc in Hu; cbn in Hu; lia|]);
      destruct (pcs s u); cbn in Hu; try lia; reflexivity.
  - (* PPoolLoad: reads a pool size >= 1: the loop will try the cmpxchg *)
    destruct W as [-> Wf]. open_case H; kcases; keepK IK; left.
    all: unfold act, livepoke, can_request; cbn [tok semphase orb];
      match goal with X : s32 (ea _) = pool _ |- _ => rewrite X end;
      unfold floor_ok in Wf; b2p;
      destruct (Z.ltb_spec (pool s) floor); [lia|]; destruct (Z.gtb_spec 1 (pool s - floor)); [lia|reflexivity].
  - (* PPoolLoop *)
    destruct W as (-> & Wf & _). unfold can_request in H.
    open_case H; kcases; keepK IK.
    all: try k_act.
    all: try (right; left; rewrite Hpc; unfold act, livepoke, can_request; cbn [tok semphase orb];
              repeat match goal with |- context [?a <? ?b] => destruct (Z.ltb_spec a b) end;
              repeat match goal with |- context [?a >? ?b] => destruct (Z.gtb_spec a b) end; try lia; reflexivity).
    (* the weak cmpxchg failed: the loop goes on with the pool size it observed, which is >= 1 *)
    all: left; unfold act, livepoke, can_request; cbn [tok semphase orb];
      match goal with X : s32 (ea _) = pool _ |- _ => rewrite X end;
      unfold floor_ok in Wf; b2p;
      destruct (Z.ltb_spec (pool s) floor); [lia|]; destruct (Z.gtb_spec 1 (pool s - floor)); [lia|reflexivity].
  - (* PCreate *)
    open_case H; intros _ _; exists (ea e); cbn; (rewrite upd_other by assumption); rewrite upd_same; reflexivity.
  - (* PDrainXchg *)
    open_case H.
    all: try (keepK IK; k_act).
    all: intros _ _; exists t; cbn; rewrite upd_same; reflexivity.
  - (* PCwEval *)
    destruct q, pd; open_case H; try discriminate; unfold cw_after, cw_resume, ST_READY; cbn [Z.eqb Pos.eqb]; keepK IK; k_act.
  - (* PCwEvalT *)
    open_case H; keepK IK; try k_act.
    all: unfold quiesced_status, cw_after, cw_resume, ST_WAIT, ST_READY, ST_ABORT in *.
    all: match goal with X : ea _ = tail _ |- _ => rewrite X in * end.
    all: pose proof (unclaimed_tail s I1 U) as Tn; destruct (Z.eqb_spec (tail s) 0); [contradiction|].
    all: destruct (hv =? 0), pd; cbn in *; try discriminate; try k_act; try (exfalso; congruence).
  - (* PCwOut *)
    open_case H; keepK IK. unfold cw_resume. destruct (Z.eqb_spec status ST_READY) as [E0|E0]; k_act.
  - (* PDrainCasTail *)
    pose proof (I_thr s I1 t) as Tt. unfold tinv in Tt. rewrite Hpc in Tt. destruct Tt as [Th Tc].
    open_case H.
    + intros U' _. exfalso. apply U'. unfold unclaimed. cbn.
      destruct (holder_chain s t I1 Th) as (Cn & _ & _).
      destruct (chain s) as [|h' r] eqn:C; [congruence|]. cbn in Tc. subst h'.
      assert (R : r = []).
      { apply (last_cons_eq h r); [rewrite <- C; apply (I_nodup s I1)|]. rewrite <- C, <- (I_tail s I1). assumption. }
      subst r. reflexivity.
    + keepK IK. k_act.
  - (* PDrainStoreHead *)
    pose proof (I_thr s I1 t) as Tt. unfold tinv in Tt. rewrite Hpc in Tt. destruct Tt as (Th & _ & _).
    open_case H. apply (invK_keep s (do_detach s nx (tail s)) t _ IK); try reflexivity; try (cbn; lia); try (intros U P; k_act).
    unfold unclaimed. cbn. rewrite Th. reflexivity.
  - (* PExitInc: the exiting worker pokes *)
    open_case H. intros _ _. exists t. cbn. rewrite upd_same. reflexivity.
Qed.

(* C01_root_overcommit_no_stall *)
Theorem overcommit_active p0 s : valid_init p0 -> reach true p0 s -> unclaimed s <> [] -> 1 <= pool s ->
  exists t, act (pcs s t) = true.
Proof.
  intros V R. assert (X : Inv1 s /\ InvC s /\ InvK s); [|destruct X as (_ & _ & K); exact K].
  induction R as [s E|s [t e] s' R IH St].
  - subst. split; [apply Inv1_init|]. split; [apply InvC_init; exact V|apply InvK_init].
  - destruct IH as (I1 & IC & IK). unfold step in St. cbn [fst snd] in St.
    split; [eapply inv1_step; eauto|]. split; [eapply invC_step; eauto|eapply invK_step; eauto].
Qed.

(* ---- the exact case split for a state with an unclaimed item ---- *)
(* the rest of a push or of a poke after its wake-up duty was discharged, or the moment before an item is invoked: the thread
   has an enabled step (progress, below) and the classification applies to the state it leaves *)
Definition finishing (p : pc) : bool :=
  match p with
  | PPushCall _ | PPushXchg _ _ | PGot _ => true
  | PPushLink _ _ prev => negb (prev =? 0)
  | PSigPost k _ _ | PPendReq k _ _ | PPoolLoad k _ _ | PPoolLoop k _ _ _ => match k with KNull => false | _ => true end
  | _ => false
  end.
Definition in_item (p : pc) : Z := match p with PClient (CIn _) => 1 | _ => 0 end.

Lemma parked_split p : parked p = true -> finishing p = true \/ p = PNone \/ exists c, p = PClient c.
Proof. destruct p; cbn; intros H; try discriminate; auto; eauto. Qed.

Lemma quiescent_pool s : InvC s -> quiescent s -> pool0 s - pool s = cnt in_item s.
Proof.
  intros IC Q. rewrite (C_pool s IC). unfold cnt. induction (seen s) as [|a l IH]; [reflexivity|]. cbn. rewrite IH. f_equal.
  destruct (Q a) as [->|(c & ->)]; [reflexivity|]. destruct c; reflexivity.
Qed.

(* C01_root_unclaimed_item_cases *)
Theorem unclaimed_item_cases oc p0 s : valid_init p0 -> reach oc p0 s -> unclaimed s <> [] ->
  (exists t, tok (pcs s t) = true) \/
  (1 <= surplus s /\ exists t, sem_taker s t) \/
  (1 <= sval s /\ exists t, to_sem (pcs s t) = true) \/
  (exists t, finishing (pcs s t) = true) \/
  (* STALL: nobody is in the pool protocol, the pool has a free slot, nothing is pending, the signals are banked *)
  (oc = false /\ quiescent s /\ 1 <= pool s /\ pend s = 0 /\ ksem s = 0 /\ 1 <= sval s /\ pool0 s - pool s = cnt in_item s) \/
  (* ALL-BUSY: nobody is in the pool protocol and every slot of the pool is a thread inside a work item *)
  (quiescent s /\ pool s <= 0 /\ pend s = 0 /\ ksem s = 0 /\ 1 <= sval s /\ pool0 s - pool s = cnt in_item s).
Proof.
  intros V R U. destruct (all_inv_reach oc p0 s V R) as (I1 & IC & I4).
  destruct (no_lost_wakeup oc p0 s V R U) as [A|[A|[A|[Sv Pk]]]]; [tauto|tauto|tauto|].
  destruct (find_pc finishing s eq_refl (C_sup s IC)) as [F|NF]; [tauto|].
  assert (Q : quiescent s).
  { intros t. destruct (parked_split _ (Pk t)) as [X|X]; [rewrite NF in X; discriminate|exact X]. }
  destruct (quiescent_counts s IC Q) as (Pz & Kz & _). pose proof (quiescent_pool s IC Q) as Pl.
  destruct (Z_le_gt_dec (pool s) 0) as [Le|Gt].
  - right. right. right. right. right. tauto.
  - right. right. right. right. left. split; [|repeat split; auto; lia].
    destruct oc; [|reflexivity]. exfalso.
    assert (R' : reach true p0 s) by exact R.
    destruct (overcommit_active p0 s V R' U) as (t & Ht); [lia|].
    destruct (Q t) as [E|(c & E)]; rewrite E in Ht; discriminate.
Qed.

(* ---- the monitor repairs the two quiescent shapes: one statement ---- *)
(* the pool threads the monitor has registered: every live pool thread (register / unregister bracket the worker's life) *)
Definition registered_workers (s : gst) : list Z := filter (fun t => wk (pcs s t) =? 1) (seen s).
(* what _dispatch_workq_monitor_pools sees of this queue: probe of dq_items_tail, number of registered workers whose
   /proc state is 'R' (the oracle `runnable`) *)
Definition bucket_of (runnable : Z -> bool) (s : gst) : bool * Z :=
  (negb (tail s =? 0), Z.of_nat (length (filter runnable (registered_workers s)))).
Definition claim_schedule (u c : Z) : list (Z * event) := on u [ev_sub_pend 1; ev_xchg_head c].

Lemma grun_app oc : forall tr1 tr2 s, grun oc s (tr1 ++ tr2) = match grun oc s tr1 with Some s1 => grun oc s1 tr2 | None => None end.
Proof.
  induction tr1 as [|[t e] tr1 IH]; intros tr2 s; [reflexivity|]. cbn. destruct (gstep oc s t e); [apply IH|reflexivity].
Qed.

Lemma quiescent_front s : Inv1 s -> quiescent s -> unclaimed s <> [] ->
  holder s = None /\ hstore s = None /\ exists c r, chain s = c :: r /\ head s = c /\ unclaimed s = c :: r /\ is_item c = true.
Proof.
  intros I Q U.
  assert (Hh : holder s = None).
  { destruct (holder s) as [w|] eqn:E; [|reflexivity]. exfalso. destruct (holder_chain s w I E) as (_ & _ & Hp).
    destruct (Q w) as [X|(c & X)]; rewrite X in Hp; exact Hp. }
  assert (Hs : hstore s = None).
  { destruct (hstore s) as [p|] eqn:E; [|reflexivity]. exfalso. destruct (hstore_chain s p I E) as (_ & _ & (c & Hp)).
    destruct (Q p) as [X|(c' & X)]; rewrite X in Hp; discriminate. }
  split; [exact Hh|]. split; [exact Hs|].
  pose proof (I_front s I) as F. unfold front in F. rewrite Hh, Hs in F. unfold unclaimed in *. rewrite Hh in *.
  destruct F as [[C _]|(c & r & C & Hd)]; [contradiction|]. exists c, r. repeat split; auto.
  apply (I_items s I). rewrite C. left. reflexivity.
Qed.

(* a monitor poke with floor f below the pool size, run from a quiescent state with an unclaimed item: it creates worker u
   (pthread_create succeeds) and u's first look claims the oldest unclaimed item *)
Lemma poke_then_claim p0 s m u f :
  valid_init p0 -> reach false p0 s -> quiescent s -> unclaimed s <> [] -> sval s < RQ_LONG_MAX ->
  floor_ok f = true -> f < pool s -> pcs s u = PNone -> u <> m ->
  exists s', grun false s (mon_schedule s m f u ++ claim_schedule u (hd 0 (unclaimed s))) = Some s' /\ reach false p0 s' /\
    hpop s' = hpop s ++ [(hd 0 (unclaimed s), u)] /\ unclaimed s' = tl (unclaimed s) /\ pool s' = pool s - 1 /\ pend s' = 0.
Proof.
  intros V R Q U Sv Ff Fl Pu Nu.
  destruct (all_inv_reach false p0 s V R) as (I1 & IC & _). destruct (invC_reach false p0 s V R) as [_ E0].
  pose proof (unclaimed_tail s I1 U) as Tn.
  - destruct (quiescent_counts s IC Q) as (Pz & Kz & Sz).
    destruct (int_fields_in_range s IC) as (_ & Pr). rewrite E0 in Pr.
    destruct (quiescent_front s I1 Q U) as (Hh & Hs & c & r & C & Hd & Uc & Ic).
    assert (Ff' := Ff). unfold floor_ok in Ff'. apply andb_true_iff in Ff' as [Ff1 Ff2]. apply Z.leb_le in Ff1, Ff2.
    unfold valid_init in V. unfold FLOOR_B, WORKQ_MAX_TRACKED_TIDS, RQ_MAX_PTHREAD_COUNT in *.
    rewrite grun_app.
    destruct (run_call_mon false s m f (Q m) Ff) as (k & S1).
    unfold mon_schedule. cbn [grun]. rewrite S1.
    set (s1 := set_pc s m (PPokeProbe (KClient k) 1 f)).
    assert (E1 : tail s = tail s1) by reflexivity. rewrite E1.
    rewrite (run_probe false s1 m (KClient k) f); [|apply upd_same|exact Tn].
    set (s2 := set_pc s1 m (PSigInc (KClient k) 1 f)).
    assert (E2 : sval s = sval s2) by reflexivity. rewrite E2.
    rewrite (run_siginc_bank false s2 m (KClient k) f); [|apply upd_same|rewrite <- E2; lia].
    set (s3 := set_pc (set_sval s2 (sval s2 + 1)) m (PPendReq (KClient k) 1 f)).
    rewrite (run_pendreq s3 m (KClient k) f); [|apply upd_same|exact Pz].
    set (s4 := set_pc (set_pend s3 1) m (PPoolLoad (KClient k) 1 f)).
    assert (E4 : pool s = pool s4) by reflexivity. rewrite E4.
    rewrite (run_poolload false s4 m (KClient k) f); [|apply upd_same|rewrite <- E4; lia].
    set (s5 := set_pc s4 m (PPoolLoop (KClient k) 1 f (pool s4))).
    assert (E5 : pool s4 = pool s5) by reflexivity. rewrite E5.
    rewrite (run_poolcas false s5 m (KClient k) f); [|apply upd_same|rewrite <- E5, <- E4; lia|rewrite <- E5, <- E4; exact Fl].
    set (s6 := set_pc (set_pool s5 (pool s5 - 1)) m (PCreate (KClient k) 1)).
    rewrite (run_create false s6 m (KClient k) u); [|apply upd_same| |exact Nu].
    2: { cbn. rewrite !upd_other by exact Nu. exact Pu. }
    set (s7 := set_pc (do_create s6 u) m (kret (KClient k))).
    (* the new worker: dec dgq_pending, exchange the head: it finds the oldest unclaimed item *)
    assert (P7 : pcs s7 u = PWStart) by (cbn; rewrite upd_other by exact Nu; apply upd_same).
    rewrite Uc. cbn [hd claim_schedule on map grun].
    assert (G1 : gstep false s7 u (ev_sub_pend 1) = Some (set_pc (set_pend s7 0) u PDrainXchg)).
    { unfold gstep, effect. rewrite P7. cbn [tstep]. unfold ev_sub_pend. rewrite ev_at_refl. cbn. reflexivity. }
    rewrite G1. set (s8 := set_pc (set_pend s7 0) u PDrainXchg).
    assert (H8 : head s8 = c) by exact Hd.
    assert (G2 : gstep false s8 u (ev_xchg_head c) = Some (set_pc (do_claim s8 u c) u (PDrainNext c))).
    { unfold gstep, effect. cbn [pcs s8 set_pc]. rewrite upd_same. cbn [tstep]. unfold ev_xchg_head. rewrite ev_at_refl.
      cbn [ea eb guard andb]. rewrite Z.eqb_refl. destruct (is_item_spec c Ic) as [N0 NM].
      destruct (Z.eqb_spec c 0); [contradiction|]. destruct (Z.eqb_spec c MED); [contradiction|].
      rewrite H8, Z.eqb_refl, Ic. reflexivity. }
    rewrite G2. eexists. split; [reflexivity|]. split.
    + (* reachable: every step above was a step of the model *)
      apply (grun_reach false p0 (mon_schedule s m f u ++ claim_schedule u c) s); [exact R|].
      rewrite grun_app. unfold mon_schedule. cbn [grun]. rewrite S1. fold s1. rewrite E1.
      rewrite (run_probe false s1 m (KClient k) f); [|apply upd_same|exact Tn]. fold s2. rewrite E2.
      rewrite (run_siginc_bank false s2 m (KClient k) f); [|apply upd_same|rewrite <- E2; lia]. fold s3.
      rewrite (run_pendreq s3 m (KClient k) f); [|apply upd_same|exact Pz]. fold s4. rewrite E4.
      rewrite (run_poolload false s4 m (KClient k) f); [|apply upd_same|rewrite <- E4; lia]. fold s5. rewrite E5.
      rewrite (run_poolcas false s5 m (KClient k) f); [|apply upd_same|rewrite <- E5, <- E4; lia|rewrite <- E5, <- E4; exact Fl]. fold s6.
      rewrite (run_create false s6 m (KClient k) u); [|apply upd_same| |exact Nu].
      2: { cbn. rewrite !upd_other by exact Nu. exact Pu. }
      fold s7. cbn [claim_schedule on map grun]. rewrite G1. fold s8. rewrite G2. reflexivity.
    + cbn. unfold unclaimed. cbn. rewrite C. cbn. repeat split; reflexivity.
Qed.

(* what one pass of _dispatch_workq_monitor_pools decides for the bucket at position |pre| *)
Definition soft_floor (target : Z) : Z := Z.max ((1 - WORKQ_OVERSUBSCRIBE_FACTOR) * target) (target - WORKQ_MAX_TRACKED_TIDS).
Definition decision (target soft g' : Z) (b : bool * Z) : option Z :=
  if negb (fst b) then None
  else if snd b =? 0 then Some (target - WORKQ_MAX_TRACKED_TIDS)
  else if (snd b <? target) && (g' + snd b <? soft) then Some (soft_floor target) else None.
Lemma mon_pass_at target soft pre b rest : forall g,
  exists g', nth_error (mon_pass target soft g (pre ++ b :: rest)) (length pre) = Some (decision target soft g' b).
Proof.
  induction pre as [|[pr nr] pre IH]; intros g.
  - exists g. destruct b as [pb nb]. unfold decision. cbn. destruct pb; cbn; [|reflexivity].
    destruct (nb =? 0); [reflexivity|]. destruct ((nb <? target) && (g + nb <? soft)); reflexivity.
  - cbn [app length mon_pass]. destruct pr; cbn [negb].
    + destruct (nr =? 0); [apply IH|]. destruct ((nr <? target) && (g + nr <? soft)); apply IH.
    + apply IH.
Qed.
Lemma decision_floor p0 soft g' b f : valid_init p0 -> decision p0 soft g' b = Some f -> floor_ok f = true /\ f <= 0.
Proof.
  unfold valid_init, decision, soft_floor, floor_ok, FLOOR_B, WORKQ_OVERSUBSCRIBE_FACTOR, WORKQ_MAX_TRACKED_TIDS, RQ_MAX_PTHREAD_COUNT.
  intros V H. destruct (negb (fst b)); [discriminate|].
  assert (X : forall x, - 536870912 <= x <= 0 -> ((- 536870912 <=? x) && (x <=? 0) = true) /\ x <= 0).
  { intros x Hx. split; [apply andb_true_iff; split; apply Z.leb_le; lia|lia]. }
  destruct (snd b =? 0); [injection H as <-; apply X; lia|].
  destruct ((snd b <? p0) && (g' + snd b <? soft)); [injection H as <-; apply X; fold (Z.opp p0); lia|discriminate].
Qed.

(* C01_root_monitor_repairs: the repair of the two quiescent shapes (STALL, ALL-BUSY) of unclaimed_item_cases by one pass
   of the monitor, as one statement about the bucket the pass computes FROM THAT STATE *)
Theorem monitor_repairs p0 s m u runnable pre rest g :
  valid_init p0 -> reach false p0 s -> quiescent s -> unclaimed s <> [] -> sval s < RQ_LONG_MAX -> pcs s u = PNone -> u <> m ->
  let b := bucket_of runnable s in
  let d := nth_error (mon_pass p0 (WORKQ_OVERSUBSCRIBE_FACTOR * p0) g (pre ++ b :: rest)) (length pre) in
  (* the bucket is marked non-empty; the decision is the function `decision` of its runnable count, whatever the other
     buckets look like (they only contribute the global count g') *)
  (fst b = true /\ exists g', d = Some (decision p0 (WORKQ_OVERSUBSCRIBE_FACTOR * p0) g' b)) /\
  (* /proc reports no registered worker runnable (each is blocked inside its item): poke with the hard floor *)
  ((forall t, In t (registered_workers s) -> runnable t = false) -> d = Some (Some (p0 - WORKQ_MAX_TRACKED_TIDS))) /\
  (* whatever poke the pass decides: if its floor is below the pool size, the poke creates worker u (pthread_create
     succeeds) and u's first look claims the oldest unclaimed item *)
  (forall f, d = Some (Some f) -> f < pool s ->
     exists s', grun false s (mon_schedule s m f u ++ claim_schedule u (hd 0 (unclaimed s))) = Some s' /\ reach false p0 s' /\
       hpop s' = hpop s ++ [(hd 0 (unclaimed s), u)] /\ unclaimed s' = tl (unclaimed s) /\ pool s' = pool s - 1 /\ pend s' = 0) /\
  (* the floor is below the pool size: always in the STALL shape; with the hard floor whenever fewer than
     WORKQ_MAX_TRACKED_TIDS pool threads exist *)
  (forall f, d = Some (Some f) -> 1 <= pool s -> f < pool s) /\
  (p0 - pool s < WORKQ_MAX_TRACKED_TIDS -> p0 - WORKQ_MAX_TRACKED_TIDS < pool s).
Proof.
  intros V R Q U Sv Pu Nu b d.
  destruct (all_inv_reach false p0 s V R) as (I1 & IC & _). pose proof (unclaimed_tail s I1 U) as Tn.
  assert (Fb : fst b = true) by (unfold b, bucket_of; cbn; destruct (Z.eqb_spec (tail s) 0); [contradiction|reflexivity]).
  destruct (mon_pass_at p0 (WORKQ_OVERSUBSCRIBE_FACTOR * p0) pre b rest g) as (g' & D). fold d in D.
  split; [split; [exact Fb|exists g'; exact D]|]. split; [|split; [|split]].
  - intros Blk. assert (B : b = (true, 0)).
    { unfold b, bucket_of. destruct (Z.eqb_spec (tail s) 0); [contradiction|]. cbn. f_equal.
      assert (X : filter runnable (registered_workers s) = []); [|rewrite X; reflexivity].
      induction (registered_workers s) as [|a l IH]; [reflexivity|]. cbn. rewrite (Blk a) by (left; reflexivity).
      apply IH. intros t Ht. apply Blk. right. exact Ht. }
    unfold d. rewrite B. apply mon_pass_blocked_bucket.
  - intros f Df Fl. rewrite D in Df. injection Df as Df. destruct (decision_floor _ _ _ _ _ V Df) as [Ff _].
    apply (poke_then_claim p0 s m u f); assumption.
  - intros f Df P1. rewrite D in Df. injection Df as Df. destruct (decision_floor _ _ _ _ _ V Df) as [_ F0]. lia.
  - unfold WORKQ_MAX_TRACKED_TIDS. lia.
Qed.

(* ---- progress: no thread inside the queue code is stuck ---- *)
(* C01_root_progress.  The model has three guards that stop a counter at the limit of its C type (RootQ.effect: the add
   on dgq_pending at PPendReq / PCwEval, the decrement of dsema_value at PSemDec) and the overflow crash of
   dispatch_semaphore_signal; `bounded` is the explicit hypothesis that the state is not at one of these limits.  A
   termination measure is not given: the two spin waits are self-loops of the model (they end through the named threads of
   wait_next_has_linker / mediator_has_replacer, i.e. under fair scheduling only), the weak compare-exchanges may fail
   spuriously, and a pool worker's life has no bound (each timeout may be followed by another look). *)
Definition enabled (oc : bool) (s : gst) (t : Z) : Prop := exists e s', gstep oc s t e = Some s'.
(* the counters are not at the limits where the model has no successor (LONG_MAX banked signals, INT_MAX pending requests) *)
Definition bounded (s : gst) : Prop := RQ_LONG_MIN < sval s < RQ_LONG_MAX /\ pend s < RQ_INT_MAX.
(* the caller of a push owns an object that is not enqueued *)
Definition has_free_item (s : gst) : Prop := exists x, is_item x = true /\ owner s x = None /\ ~ In x (chain s).

Fixpoint zmax (l : list Z) : Z := match l with [] => 0 | x :: r => Z.max x (zmax r) end.
Lemma zmax_ge l x : In x l -> x <= zmax l.
Proof. induction l; cbn; intros H; [contradiction|]. destruct H as [->|H]; [lia|]. specialize (IHl H). lia. Qed.
Lemma fresh_thread s t : InvC s -> exists u, pcs s u = PNone /\ u <> t.
Proof.
  intros IC. exists (1 + Z.max t (zmax (seen s))). split; [|lia].
  destruct (pcs s (1 + Z.max t (zmax (seen s)))) eqn:E; try reflexivity; exfalso;
    assert (In (1 + Z.max t (zmax (seen s))) (seen s)) by (apply (C_sup s IC); congruence);
    apply zmax_ge in H; lia.
Qed.

Lemma s32_of_pend s : InvC s -> s32 (u32z (pend s)) = pend s.
Proof. intros IC. destruct (int_fields_in_range s IC) as [A _]. apply s32_u32z. unfold RQ_INT_MAX in *. lia. Qed.
Lemma s32_of_pool s : InvC s -> s32 (u32z (pool s)) = pool s.
Proof.
  intros IC. destruct (int_fields_in_range s IC) as [_ A]. pose proof (C_p0 s IC). apply s32_u32z.
  unfold FLOOR_B, RQ_MAX_PTHREAD_COUNT in *. lia.
Qed.
Lemma s64_of_sval s : InvC s -> s64 (u64 (sval s)) = sval s.
Proof. intros IC. apply s64_u64. apply (C_sval s IC). Qed.

(* a thread at the undo loop holds a value it read from the 64-bit semaphore word *)
Definition undo_ok (p : pc) : Prop := match p with PSemUndo o => RQ_LONG_MIN <= o <= RQ_LONG_MAX | _ => True end.
Lemma s64_rng x : RQ_LONG_MIN <= s64 x <= RQ_LONG_MAX.
Proof. pose proof (Word.s64_range x). unfold RQ_LONG_MIN, RQ_LONG_MAX. lia. Qed.
Lemma tstep_undo oc p e p' : tstep oc p e = Some p' -> undo_ok p'.
Proof.
  destruct p; cbn [tstep call_entry]; intros H;
  repeat match type of H with
  | (if ?b then _ else _) = _ => destruct b
  | match ?k with _ => _ end = _ => destruct k
  | Some _ = Some _ => injection H as <-
  | None = Some _ => discriminate H
  end; cbn; try exact Logic.I; try apply s64_rng; unfold RQ_LONG_MIN, RQ_LONG_MAX; try lia.
  all: repeat match goal with |- undo_ok (if ?b then _ else _) => destruct b end; try exact Logic.I; try apply s64_rng.
  all: try (destruct k as [c| | |]; try destruct c; exact Logic.I).
  all: try (unfold cw_after, cw_resume; repeat match goal with |- undo_ok (if ?b then _ else _) => destruct b end; exact Logic.I).
  all: unfold call_entry in H; repeat match type of H with
  | (if ?b then _ else _) = _ => destruct b
  | Some _ = Some _ => injection H as <-
  | None = Some _ => discriminate H
  end; exact Logic.I.
Qed.
Lemma effect_pcs oc s t e s1 : effect oc s t e = Some s1 -> forall u, pcs s1 u = pcs s u \/ pcs s1 u = PWStart.
Proof.
  unfold effect, guard. intros H u.
  destruct (pcs s t);
  repeat match type of H with
  | (if ?b then _ else _) = _ => destruct b
  | Some _ = Some _ => injection H as <-
  | None = Some _ => discriminate H
  | _ => progress cbv zeta in H
  end; repeat match goal with |- context [pcs (if ?b then _ else _)] => destruct b end; cbn [pcs set_pend set_pool set_sval set_ksem set_head set_nxt set_owner do_push do_head_store do_claim do_detach do_run do_create];
  try (left; reflexivity).
  unfold upd. destruct (Z.eqb_spec u (ea e)); [right|left]; reflexivity.
Qed.
Lemma undo_reach oc p0 s : reach oc p0 s -> forall t, undo_ok (pcs s t).
Proof.
  induction 1 as [s Hi|s a s' R IH St]; intros t.
  - rewrite Hi. exact Logic.I.
  - destruct a as [u e]. unfold step in St. cbn [fst snd] in St. pose proof (gstep_tstep _ _ _ _ _ St) as Tt.
    unfold gstep in St. destruct (tstep oc (pcs s u) e) as [p'|] eqn:Ts; [|discriminate].
    destruct (effect oc s u e) as [s1|] eqn:Ef; [|discriminate]. injection St as <-. cbn [pcs set_pc]. unfold upd.
    destruct (Z.eqb_spec t u); [eapply tstep_undo; exact Ts|].
    destruct (effect_pcs _ _ _ _ _ Ef t) as [-> | ->]; [apply IH|exact Logic.I].
Qed.

Ltac en ev := exists ev; unfold gstep, effect;
  match goal with Hpc : pcs _ _ = _ |- _ => rewrite Hpc end; cbn [tstep call_entry]; cbv zeta.

Theorem progress oc p0 s t : valid_init p0 -> reach oc p0 s -> bounded s ->
  match pcs s t with
  | PNone | PClient _ => True
  | PPushCall _ => has_free_item s -> enabled oc s t
  | PSemBlocked => 0 < ksem s -> enabled oc s t
  | _ => enabled oc s t
  end.
Proof.
  intros V R (Bs & Bp). destruct (all_inv_reach oc p0 s V R) as (I1 & IC & _).
  pose proof (s32_of_pend s IC) as Ep. pose proof (s32_of_pool s IC) as El. pose proof (s64_of_sval s IC) as Es.
  pose proof (C_wf s IC t) as W. pose proof (undo_reach oc p0 s R t) as T.
  destruct (pcs s t) eqn:Hpc; try exact Logic.I; cbn in W.
  - (* PPushCall *) intros (x & Ix & Ox & Nx).
    en (ev_st_next x 0). unfold ev_st_next. cbn [ek eord eobj eoff eb]. rewrite !Z.eqb_refl, Ix, Ox. cbn [andb is_none guard].
    destruct (memz x (chain s)) eqn:M; [apply memz_In in M; contradiction|]. eexists; reflexivity.
  - (* PPushXchg *) en (ev_xchg_tail (tail s) x). unfold ev_xchg_tail. rewrite ev_at_refl. cbn. rewrite !Z.eqb_refl. eexists; reflexivity.
  - (* PPushLink *) destruct (Z.eqb_spec prev 0) as [E0|E0].
    + subst prev. en (ev_st_head x). unfold ev_st_head. cbn [Z.eqb]. rewrite ev_at_refl. cbn. rewrite Z.eqb_refl. eexists; reflexivity.
    + en (ev_st_next prev x). unfold ev_st_next. destruct (Z.eqb_spec prev 0); [contradiction|]. rewrite ev_at_refl. cbn. rewrite Z.eqb_refl. eexists; reflexivity.
  - (* PPokeProbe *) en (ev_ld_tail_sc (tail s)). unfold ev_ld_tail_sc. rewrite ev_at_refl. cbn. rewrite Z.eqb_refl. eexists; reflexivity.
  - (* PSigInc *) en (ev_sem_add (sval s)). unfold ev_sem_add. rewrite ev_at_refl. cbn [ea eb andb Z.eqb Pos.eqb guard]. rewrite Es.
    assert (E2 : s64 (sval s + 1) = sval s + 1) by (apply s64_id; unfold RQ_LONG_MIN, RQ_LONG_MAX in *; lia). rewrite E2, Z.eqb_refl.
    destruct (Z.gtb_spec (sval s + 1) 0); [eexists; reflexivity|]. destruct (Z.eqb_spec (sval s + 1) RQ_LONG_MIN); [lia|eexists; reflexivity].
  - (* PSigPost *) en (mkEv DV_SEM_POST 0 OBJ_SEM OFF_SEMA 0 1 0 1). rewrite ev_at_refl. eexists; reflexivity.
  - (* PPendReq *) destruct W as [-> Wf]. destruct oc.
    + en (mkEv DV_ADD MO_RELAXED OBJ_Q OFF_PEND 4 (u32z (pend s)) 1 1). rewrite ev_at_refl. cbn. rewrite Ep, Z.eqb_refl.
      destruct (Z.leb_spec (pend s + 1) RQ_INT_MAX); [eexists; reflexivity|lia].
    + en (mkEv DV_CAS MO_RELAXED OBJ_Q OFF_PEND 4 (u32z (pend s)) 1 (if pend s =? 0 then 1 else 0)). rewrite ev_at_refl. cbn.
      rewrite Ep, Z.eqb_refl. destruct (pend s =? 0); eexists; reflexivity.
  - (* PPoolLoad *) en (ev_ld_pool (u32z (pool s))). unfold ev_ld_pool. rewrite ev_at_refl. cbn. rewrite El, Z.eqb_refl. eexists; reflexivity.
  - (* PPoolLoop *) destruct W as (-> & Wf & Wtc). destruct (1 >? can_request tc floor) eqn:G.
    + en (mkEv DV_SUB MO_RELAXED OBJ_Q OFF_PEND 4 (u32z (pend s)) (u32z (1 - can_request tc floor)) 1). rewrite G, ev_at_refl.
      cbn [ea eb andb guard]. rewrite Ep.
      assert (X : s32 (u32z (1 - can_request tc floor)) = 1 - can_request tc floor).
      { apply s32_u32z. unfold can_request, floor_ok, FLOOR_B, RQ_MAX_PTHREAD_COUNT in *. b2p. destruct (tc <? floor); lia. }
      rewrite X, !Z.eqb_refl. eexists; reflexivity.
    + (* the weak compare-exchange may always fail *)
      en (mkEv DV_CASW MO_ACQUIRE OBJ_Q OFF_POOL 4 (u32z (pool s)) (u32z (tc - 1)) 0). rewrite G. cbn [Z.eqb]. rewrite ev_at_refl.
      cbn [ea eb eok andb negb orb guard Z.eqb]. rewrite El.
      assert (X : s32 (u32z (tc - 1)) = tc - 1) by (apply s32_u32z; unfold FLOOR_B, RQ_MAX_PTHREAD_COUNT in *; lia).
      rewrite X, !Z.eqb_refl. eexists; reflexivity.
  - (* PCreate *) destruct (fresh_thread s t IC) as (u & Pu & Nu).
    en (ev_create u). unfold ev_create. cbn. rewrite Pu. cbn. destruct (Z.eqb_spec u t); [contradiction|]. eexists; reflexivity.
  - (* PWStart *) pose proof (worker_start_has_pending s t IC Hpc).
    en (ev_sub_pend (u32z (pend s))). unfold ev_sub_pend. rewrite ev_at_refl. cbn [ea eb andb guard]. rewrite Ep. cbn.
    destruct (Z.ltb_spec (pend s - 1) 0); [lia|]. rewrite Z.eqb_refl. eexists; reflexivity.
  - (* PDrainXchg *) en (ev_xchg_head (head s)). unfold ev_xchg_head. rewrite ev_at_refl. cbn. rewrite !Z.eqb_refl. eexists; reflexivity.
  - (* PDrainCasNull *) en (ev_cas_head (head s) (if head s =? MED then 1 else 0)). unfold ev_cas_head. rewrite ev_at_refl. cbn.
    rewrite Z.eqb_refl. destruct (head s =? MED); eexists; reflexivity.
  - (* PDrainTail *) en (ev_pl_tail (tail s)). unfold ev_pl_tail. rewrite ev_at_refl. cbn. rewrite Z.eqb_refl. eexists; reflexivity.
  - (* PCwEval *) en (mkEv DV_LOAD MO_RELAXED OBJ_Q OFF_HEAD 8 (head s) (head s) 1). rewrite ev_at_refl. cbn. rewrite Z.eqb_refl.
    destruct q; eexists; reflexivity.
  - (* PCwEvalT *) en (mkEv DV_LOAD MO_RELAXED OBJ_Q OFF_TAIL 8 (tail s) (tail s) 1). rewrite ev_at_refl. cbn. rewrite Z.eqb_refl. eexists; reflexivity.
  - (* PCwOut *) assert (1 <= pend s).
    { destruct weights_nonneg as (_ & _ & Wp & _). assert (In t (seen s)) by (apply (C_sup s IC); congruence).
      pose proof (tsum_ge w_pend (pcs s) (seen s) t Wp H) as G. rewrite Hpc in G. cbn in G. rewrite (C_pend s IC). exact G. }
    en (ev_sub_pend (u32z (pend s))). unfold ev_sub_pend. rewrite ev_at_refl. cbn. rewrite Ep, Z.eqb_refl. eexists; reflexivity.
  - (* PDrainNext *) en (ev_pl_next h (nxt s h)). unfold ev_pl_next. rewrite ev_at_refl. cbn. rewrite Z.eqb_refl. eexists; reflexivity.
  - (* PDrainStoreNull *) en (ev_st_head 0). unfold ev_st_head. rewrite ev_at_refl. eexists; reflexivity.
  - (* PDrainCasTail *) en (ev_cas_tail (tail s) (if tail s =? h then 1 else 0)). unfold ev_cas_tail. rewrite ev_at_refl. cbn.
    rewrite Z.eqb_refl. destruct (tail s =? h); eexists; reflexivity.
  - (* PDrainWaitNext: the load is always possible (it spins while the link is not stored: see wait_next_has_linker) *)
    en (mkEv DV_LOAD (if first then MO_ACQUIRE else MO_RELAXED) OBJ_NEXT h 8 (nxt s h) (nxt s h) 1). rewrite ev_at_refl. cbn.
    rewrite Z.eqb_refl. eexists; reflexivity.
  - (* PDrainStoreHead *) en (ev_st_head nx). unfold ev_st_head. rewrite ev_at_refl. cbn. rewrite Z.eqb_refl. eexists; reflexivity.
  - (* PGot *) en ev_callout_begin. eexists; reflexivity.
  - (* PSemDec *) en (ev_sem_sub (sval s)). unfold ev_sem_sub. rewrite ev_at_refl. cbn [ea eb andb Z.eqb Pos.eqb guard]. rewrite Es, Z.eqb_refl.
    destruct (Z.ltb_spec RQ_LONG_MIN (sval s)); [eexists; reflexivity|lia].
  - (* PSemTimed: the timeout may always fire *) en (ev_timedwait_ret 1). unfold ev_timedwait_ret. rewrite ev_at_refl. eexists; reflexivity.
  - (* PSemLoad *) en (ev_pl_sval (sval s)). unfold ev_pl_sval. rewrite ev_at_refl. cbn. rewrite Es, Z.eqb_refl. eexists; reflexivity.
  - (* PSemUndo *) destruct (orig <? 0) eqn:G.
    + en (ev_casw_sval (sval s) (orig + 1) 0). rewrite G. unfold ev_casw_sval. rewrite ev_at_refl. cbn [ea eb eok andb negb orb guard Z.eqb].
      rewrite Es. assert (X : s64 (u64 (orig + 1)) = orig + 1).
      { apply s64_u64. cbn in T. unfold RQ_LONG_MIN, RQ_LONG_MAX in *. lia. }
      rewrite X, !Z.eqb_refl. eexists; reflexivity.
    + en (mkEv DV_SEM_WAIT 0 OBJ_SEM OFF_SEMA 0 0 0 1). rewrite G, ev_at_refl. eexists; reflexivity.
  - (* PSemBlocked *) intros K. en (mkEv DV_SEM_WAIT_RET 0 OBJ_SEM OFF_SEMA 0 0 0 1). rewrite ev_at_refl. cbn.
    destruct (Z.ltb_spec 0 (ksem s)); [eexists; reflexivity|lia].
  - (* PExitInc *) en (ev_add_pool (u32z (pool s))). unfold ev_add_pool. rewrite ev_at_refl. cbn. rewrite El, Z.eqb_refl. eexists; reflexivity.
Qed.

(* ---- the two spin waits end through a named thread ---- *)
(* _dispatch_wait_for_enqueuer(&head->do_next): while the link is not stored, the pusher that has to store it exists, sits
   right at that store, and (progress) can do it; its store ends the wait *)
Theorem wait_next_has_linker oc p0 s t h f : valid_init p0 -> reach oc p0 s -> pcs s t = PDrainWaitNext h f -> nxt s h = 0 ->
  exists u c b, u <> t /\ pcs s u = PPushLink c b h /\ enabled oc s u /\
    forall e s', gstep oc s u e = Some s' -> nxt s' h = b /\ b <> 0 /\ pcs s' t = PDrainWaitNext h f.
Proof.
  intros V R Hpc N0. destruct (all_inv_reach oc p0 s V R) as (I1 & IC & _).
  pose proof (I_thr s I1 t) as T. unfold tinv in T. rewrite Hpc in T. destruct T as (Ho & b & r & Ec).
  assert (A : adjacent h b (chain s)) by (rewrite Ec; left; split; reflexivity).
  assert (Ib : is_item b = true) by (apply (I_items s I1); rewrite Ec; right; left; reflexivity).
  apply is_item_spec in Ib.
  destruct (I_linked s I1 h b A) as [L|(_ & u & c & Hu)]; [exfalso; rewrite N0 in L; lia|].
  assert (Ne : u <> t) by (intros ->; congruence).
  exists u, c, b. split; [exact Ne|]. split; [exact Hu|]. split.
  - (* the link store needs no bound on the counters *)
    assert (Ih : is_item h = true) by (apply (I_items s I1); rewrite Ec; left; reflexivity). apply is_item_spec in Ih.
    en (ev_st_next h b). unfold ev_st_next. destruct (Z.eqb_spec h 0); [tauto|]. rewrite ev_at_refl. cbn. rewrite Z.eqb_refl. eexists; reflexivity.
  - intros e s' G. assert (Ih : is_item h = true) by (apply (I_items s I1); rewrite Ec; left; reflexivity). apply is_item_spec in Ih.
    gstep_open G Hu. destruct (Z.eqb_spec h 0); [tauto|]. repeat split_if G. injection G as <-. cbn. rewrite upd_same.
    split; [reflexivity|]. split; [tauto|]. rewrite upd_other by (intros E; apply Ne; symmetry; exact E). exact Hpc.
Qed.

(* the MEDIATOR marker in dq_items_head (which makes other workers spin in __DISPATCH_ROOT_QUEUE_CONTENDED_WAIT__) always
   has a thread that is going to replace it: the holder of the claimed item before its store to the head (of NULL or of the
   next item), or a worker at its cmpxchg MEDIATOR -> NULL *)
Definition is_castail (p : pc) : bool := match p with PDrainCasTail _ => true | _ => false end.
Definition med_inv (s : gst) : Prop :=
  head s = MED -> (exists w, holder s = Some w /\ is_castail (pcs s w) = false) \/ exists u, pcs s u = PDrainCasNull.
Ltac med_frame M Hpc t :=
  unfold med_inv; cbn; intros Hh; destruct (M Hh) as [(w & W1 & W2)|(u & Hu)];
  [ left; exists w; split; [exact W1|]; rewrite ?(upd_other _ (ea _)) by (intros E; rewrite E in *; congruence);
    destruct (Z.eq_dec w t) as [->|Nw];
    [ rewrite upd_same; unfold cw_after, cw_resume; repeat match goal with |- context [if ?b then _ else _] => destruct b end;
      try reflexivity; try (match goal with k : kont |- _ => destruct k as [[|?]| | |] end; reflexivity)
    | rewrite upd_other by exact Nw; exact W2 ]
  | right; exists u; rewrite ?upd_other; [exact Hu | intros ->; congruence ..] ].
Lemma med_step oc s t e s' : Inv1 s -> med_inv s -> gstep oc s t e = Some s' -> med_inv s'.
Proof.
  intros I M H. destruct (pcs s t) eqn:Hpc; gstep_open H Hpc.
  all: try solve [repeat split_if H; injection H as <-; med_frame M Hpc t].
  - (* PNone *) unfold call_entry in H. repeat split_if H; injection H as <-; med_frame M Hpc t.
  - (* PClient *) unfold call_entry in H. destruct c; repeat split_if H; injection H as <-; med_frame M Hpc t.
  - (* PPushLink: the head store writes an item *)
    destruct (Z.eqb_spec prev 0) as [E0|Np]; [subst prev|]; repeat split_if H; injection H as <-; [|med_frame M Hpc t].
    unfold med_inv. cbn. intros Hh. exfalso.
    pose proof (I_thr s I t) as T. unfold tinv in T. rewrite Hpc in T. cbn in T. destruct T as [_ Hs].
    pose proof (I_front s I) as F. unfold front in F. rewrite Hs in F. destruct (holder s); [contradiction|].
    destruct F as (F1 & (c' & F2) & _). rewrite Hpc in F2. injection F2 as _ Ex.
    assert (X : is_item x = true) by (apply (I_items s I); rewrite Ex; destruct (chain s); [contradiction|left; reflexivity]).
    apply is_item_spec in X. tauto.
  - (* PCreate *) repeat split_if H; injection H as <-;
    repeat match goal with X : (_ && _) = true |- _ => apply andb_true_iff in X as [? ?] end;
    match goal with X : pc_is_none ?p = true |- _ => assert (Pn : p = PNone) by (destruct p; try discriminate X; reflexivity) end;
    unfold med_inv; cbn; intros Hh; (destruct (M Hh) as [(w & W1 & W2)|(u & Hu)];
    [ left; exists w; split; [exact W1|]; destruct (Z.eq_dec w t) as [->|Nw];
      [ rewrite upd_same; try reflexivity; try (destruct k as [[|?]| | |]; reflexivity)
      | rewrite upd_other by exact Nw; unfold upd; destruct (w =? ea e); [reflexivity|exact W2] ]
    | right; exists u; rewrite !upd_other; [exact Hu | intros E; rewrite E, Hu in *; discriminate | intros ->; congruence] ]).
  - (* PDrainXchg *)
    repeat split_if H; injection H as <-; unfold med_inv; cbn; intros Hh.
    all: try (left; exists t; split; [reflexivity|rewrite upd_same; reflexivity]).
    all: try (right; exists t; rewrite upd_same; reflexivity).
    + (* found MEDIATOR: the marker was there already, and its replacer is another thread *)
      match goal with X : (ea e =? head s) = true, Y : (ea e =? MED) = true |- _ => apply Z.eqb_eq in X, Y; rewrite X in Y;
        destruct (M Y) as [(w & W1 & W2)|(u & Hu)] end.
      * left. exists w. split; [exact W1|]. rewrite upd_other; [exact W2|]. intros ->. rewrite Hpc in *.
        pose proof (I_front s I) as F. unfold front in F. rewrite W1 in F. destruct (hstore s); [contradiction|].
        destruct F as (F & _). rewrite Hpc in F. exact F.
      * right. exists u. rewrite upd_other; [exact Hu|intros ->; congruence].
    + (* neither 0, MEDIATOR nor an item: impossible *)
      exfalso. match goal with X : (ea e =? head s) = true |- _ => apply Z.eqb_eq in X; rewrite X in * end.
      destruct (head_values s I) as [E0|[E0|(E0 & _)]];
      repeat match goal with Y : (head _ =? _) = false |- _ => apply Z.eqb_neq in Y end; congruence.
  - (* PDrainCasNull *)
    repeat split_if H; injection H as <-; unfold med_inv; cbn; intros Hh;
    repeat match goal with X : (_ && _) = true |- _ => apply andb_true_iff in X as [? ?] end; exfalso.
    + unfold MED in Hh. discriminate.
    + match goal with X : Bool.eqb false (head s =? MED) = true |- _ => rewrite Hh, Z.eqb_refl in X; discriminate X end.
  - (* PDrainStoreNull *) repeat split_if H; injection H as <-. unfold med_inv. cbn. unfold MED. discriminate.
  - (* PDrainCasTail: the holder at this point is not the replacer *)
    pose proof (I_thr s I t) as T. unfold tinv in T. rewrite Hpc in T. destruct T as [Ht _].
    repeat split_if H; injection H as <-; unfold med_inv; cbn; intros Hh;
    (destruct (M Hh) as [(w & W1 & W2)|(u & Hu)];
     [ exfalso; rewrite Ht in W1; injection W1 as <-; rewrite Hpc in W2; discriminate W2
     | right; exists u; rewrite upd_other; [exact Hu|intros ->; congruence] ]).
  - (* PDrainStoreHead: the new head is an item *)
    repeat split_if H; injection H as <-. unfold med_inv. cbn. intros Hh. exfalso.
    pose proof (I_thr s I t) as T. unfold tinv in T. rewrite Hpc in T. destruct T as (_ & (r & Ec) & _).
    assert (X : is_item nx = true) by (apply (I_items s I); rewrite Ec; right; left; reflexivity).
    apply is_item_spec in X. tauto.
Qed.
Lemma med_reach oc p0 s : valid_init p0 -> reach oc p0 s -> med_inv s.
Proof.
  intros V R. induction R as [s Hi|s a s' R IH St].
  - subst s. unfold med_inv. cbn. unfold MED. discriminate.
  - destruct a as [u e]. destruct (all_inv_reach oc p0 s V R) as (I1 & _). eapply med_step; [exact I1|exact IH|exact St].
Qed.

(* a worker that spins on the MEDIATOR marker waits for a thread that exists and can step: a worker at its cmpxchg
   MEDIATOR -> NULL, or the holder of the claimed item on its way to its store to dq_items_head (if that holder is itself
   waiting for head->do_next, wait_next_has_linker names the pusher it waits for) *)
Theorem mediator_has_replacer oc p0 s : valid_init p0 -> reach oc p0 s -> bounded s -> head s = MED ->
  exists u, enabled oc s u /\ (pcs s u = PDrainCasNull \/ (holder s = Some u /\ is_castail (pcs s u) = false)).
Proof.
  intros V R B Hh. destruct (all_inv_reach oc p0 s V R) as (I1 & _).
  destruct (med_reach oc p0 s V R Hh) as [(w & W1 & W2)|(u & Hu)].
  - exists w. split; [|right; split; assumption].
    pose proof (I_front s I1) as F. unfold front in F. rewrite W1 in F. destruct (hstore s); [contradiction|]. destruct F as (F & _).
    pose proof (progress oc p0 s w V R B) as P. destruct (pcs s w); cbn in F; try contradiction; exact P.
  - exists u. split; [|left; exact Hu]. pose proof (progress oc p0 s u V R B) as P. rewrite Hu in P. exact P.
Qed.

Theorem spin_waits :
  (forall oc p0 s t h f, valid_init p0 -> reach oc p0 s -> pcs s t = PDrainWaitNext h f -> nxt s h = 0 ->
     exists u c b, u <> t /\ pcs s u = PPushLink c b h /\ enabled oc s u /\
       forall e s', gstep oc s u e = Some s' -> nxt s' h = b /\ b <> 0 /\ pcs s' t = PDrainWaitNext h f) /\
  (forall oc p0 s, valid_init p0 -> reach oc p0 s -> bounded s -> head s = MED ->
     exists u, enabled oc s u /\ (pcs s u = PDrainCasNull \/ (holder s = Some u /\ is_castail (pcs s u) = false))).
Proof. split; [exact wait_next_has_linker|exact mediator_has_replacer]. Qed.

(* non-vacuity of the hypotheses of unclaimed_item_cases / monitor_repairs / progress: the stall state *)
Lemma nonvacuous_live :
  valid_init 1 /\ reach false 1 stall_state /\ unclaimed stall_state <> [] /\ quiescent stall_state /\
  sval stall_state < RQ_LONG_MAX /\ bounded stall_state /\ pcs stall_state 4 = PNone /\
  registered_workers stall_state = [] /\ 1 <= pool stall_state /\ pool0 stall_state - pool stall_state = 0 /\
  hpop stall_state = [(16, 2)] /\ map fst (hpush stall_state) = [16; 32].
Proof.
  destruct nonvacuous as (A & B & C & D & E & _ & _ & F & G & H).
  repeat split; try assumption; try reflexivity; try (vm_compute; congruence).
Qed.
