(* Frames_locks.v — the drain-lock disjunct of dispatch_assert_queue tied to the frame stack.
   dispatch_assert_queue(q) passes when q's dq_state word names the calling thread as drain owner OR the frame iterator finds q.
   Proofs/Frames_proofs.v characterises the second disjunct; here the first one is tied down:
   (1) `lock_discipline`: every queue whose drain lock the executing thread holds is one the frame iterator finds.  Under it
       dispatch_assert_queue accepts EXACTLY what find_queue finds (no free word), and for frames_of_path exactly the chain of the
       queue submitted to plus the submitting context.
   (2) For hierarchies of serial lanes under dispatch_async from any number of threads the discipline is a THEOREM about the
       interleaving-level protocol model Model/HLane.v (every dq_state transition = the generated body): by its invariant
       (Properties_C03_hlane: C03_hlane_invariant / C03_hlane_stack_discipline) a thread's tid is the owner field of a lane's word
       exactly when that lane is one of the thread's drain frames past drain_try_lock, and those frames are a path of the forest
       from the lane whose item is running down to the bottom.
   For the other submission paths (sync hand-offs, concurrent queues, apply, thread-bound queues) no protocol model proves the
   discipline: there it stays an explicit hypothesis, observed by the correspondence (probe flag "drain locks within chain / context"). *)
From Coq Require Import ZArith Bool List Lia.
From Verif Require Import Word Bits Fields DqFields Conc Gen_consts Gen_dqstate Lane_fields.
From Verif Require HLane HLane_inv HLane_proofs HLane_progress.
From Verif Require Import Frames Frames_proofs.
Import ListNotations.
Local Open Scope Z_scope.

(* (1) lock_discipline and the theorems under it are at the end of Proofs/Frames_proofs.v (no dependency on the protocol model) *)

(* ------------------------------------------------------------------ (2) serial hierarchies: the discipline from the protocol model *)
(* _dq_state_drain_locked_by on a word given by its fields (same statement as MainQ_fields.locked_by_f, repeated here so that
   this file does not depend on the main-queue development) *)
Lemma land_lxor_distr' a b c : Z.land (Z.lxor a b) c = Z.lxor (Z.land a c) (Z.land b c).
Proof.
  apply Z.bits_inj'. intros n Hn. rewrite !Z.land_spec, !Z.lxor_spec, !Z.land_spec.
  destruct (Z.testbit a n), (Z.testbit b n), (Z.testbit c n); reflexivity.
Qed.
Lemma locked_by_fields r t : wfr r -> 0 < t < 1073741824 -> locked_by_self (enc r) t = (f_owner r =? t).
Proof.
  intros W Ht. pose proof W as W'. unfold wfr in W'.
  unfold locked_by_self, f_dq_state_drain_locked_by, f_dispatch_lock_is_locked_by.
  assert (E : Z.land (Z.lxor (u32 (enc r)) t) 1073741823 = Z.lxor (f_owner r) t).
  { unfold u32. change 4294967296 with (2 ^ 32). rewrite <- Z.land_ones by lia.
    rewrite land_lxor_distr'. rewrite <- Z.land_assoc. change (Z.land (Z.ones 32) 1073741823) with 1073741823.
    rewrite (land_owner t) by lia.
    rewrite enc_vec. vec_land 1073741823. fsimp. rewrite vec_linear. f_equal. lia. }
  rewrite E. unfold nz, b2z.
  destruct (Z.eqb_spec (f_owner r) t) as [->|N].
  - rewrite Z.lxor_nilpotent. reflexivity.
  - destruct (Z.eqb_spec (Z.lxor (f_owner r) t) 0) as [X|X]; [|reflexivity].
    apply Z.lxor_eq in X. contradiction.
Qed.

Lemma dpc_in k l p : HLane_inv.dpc k l = Some p -> In (l, p) k /\ HLane_inv.is_drain p = true.
Proof.
  induction k as [|[x q] k IH]; cbn [HLane_inv.dpc]; [discriminate|].
  destruct (Z.eqb_spec x l) as [->|N]; cbn [andb].
  - destruct (HLane_inv.is_drain q) eqn:D.
    + intros [= <-]. split; [left; reflexivity|exact D].
    + intros H. destruct (IH H). split; [right; assumption|assumption].
  - intros H. destruct (IH H). split; [right; assumption|assumption].
Qed.

(* the drain lock of lane l names thread t exactly when l is one of t's drain frames past drain_try_lock *)
Theorem hlane_locked_iff_on_stack F s t l : HLane.forest_ok F -> HLane.reach F s -> HLane.valid_tid t ->
  (locked_by_self (HLane.st s l) t = true <->
   exists p, In (l, p) (HLane_proofs.dframes (HLane.stk s t)) /\ HLane_inv.locked_pc p = true).
Proof.
  intros OK R Vt. split.
  - intros Lk. destruct (HLane_proofs.Inv_reachable F OK s R) as [L T]. destruct (L l) as [r G].
    destruct G as [Genc Gwf _ _ _ _ _ _ _ _ Glock _ _ _ _ _].
    rewrite Genc, (locked_by_fields r t Gwf Vt) in Lk. apply Z.eqb_eq in Lk.
    unfold HLane.valid_tid in Vt.
    destruct (HLane.token s l) as [[w|]|] eqn:K.
    + destruct Glock as [Vw Glock]. destruct (HLane_inv.dpc (HLane.stk s w) l) as [p|] eqn:Dp; cbn [HLane_inv.lockedb] in Glock.
      * destruct (HLane_inv.locked_pc p) eqn:Lp.
        -- destruct Glock as [Ow _]. assert (Ew : w = t) by congruence. rewrite Ew in Dp.
           destruct (dpc_in _ _ _ Dp) as [Hin Hd]. exists p. split; [|exact Lp].
           unfold HLane_proofs.dframes. apply filter_In. split; [exact Hin|exact Hd].
        -- destruct Glock as [Ow _]. lia.
      * destruct Glock as [Ow _]. lia.
    + destruct Glock as [Ow _]. lia.
    + destruct Glock as [Ow _]. lia.
  - intros [p [Hin Lp]]. destruct (HLane_proofs.stack_discipline F OK s t R) as [_ SD].
    destruct (SD l p Hin) as [_ H]. destruct (H Lp) as [r [E [W [Ow _]]]].
    rewrite E, (locked_by_fields r t W Vt). apply Z.eqb_eq. exact Ow.
Qed.

(* the forest of the protocol model and the queue graph of Frames.v describe the same target edges (0 is NULL in Frames.v) *)
Definition agrees (F : HLane.forest) (g : graph) : Prop :=
  forall l p, HLane.target F l = Some p -> l <> 0 /\ p <> 0 /\ target g l = p.

Lemma path_on_chain F g : agrees F g -> forall ls c, HLane_proofs.path F (c :: ls) -> c <> 0 ->
  forall q, In q (c :: ls) -> on_chain g c q.
Proof.
  intros A. induction ls as [|p ls IH]; intros c P Hc q Hq.
  - destruct Hq as [<-|[]]. apply oc_here. exact Hc.
  - cbn [HLane_proofs.path] in P. destruct P as [E P]. destruct (A c p E) as [_ [Hp Tg]].
    destruct Hq as [<-|Hq]; [apply oc_here; exact Hc|].
    apply oc_next; [exact Hc|]. rewrite Tg. apply IH; assumption.
Qed.

Theorem hlane_lock_discipline F g s t c rest th :
  HLane.forest_ok F -> HLane.reach F s -> HLane.valid_tid t -> agrees F g -> wf_graph g = true ->
  map fst (HLane_proofs.dframes (HLane.stk s t)) = c :: rest -> c <> 0 -> t_cq th = c ->
  lock_discipline g (HLane.st s) t th.
Proof.
  intros OK R Vt A W E Hc Hth q Lk.
  apply (hlane_locked_iff_on_stack F s t q OK R Vt) in Lk. destruct Lk as [p [Hin _]].
  destruct (HLane_proofs.stack_discipline F OK s t R) as [P _]. rewrite E in P.
  assert (Hq : In q (c :: rest)) by (rewrite <- E; apply in_map_iff; exists (q, p); split; [reflexivity|exact Hin]).
  apply find_queue_exact; [exact W|]. rewrite Hth. split; [exact Hc|left]. exact (path_on_chain F g A rest c P Hc q Hq).
Qed.

(* inside a work item of a serial hierarchy (thread t is running a callout of lane c: c is the top drain frame of its stack),
   with the lock words of the reachable protocol state: dispatch_assert_queue accepts exactly the queues of the chain of c,
   dispatch_assert_queue_not exactly the others; whatever frames redirection left out *)
Theorem assert_queue_exact_serial_async F g s t c rest sk q r :
  HLane.forest_ok F -> HLane.reach F s -> HLane.valid_tid t -> agrees F g -> wf_graph g = true ->
  map fst (HLane_proofs.dframes (HLane.stk s t)) = c :: rest -> c <> 0 ->
  lookup g q = Some r -> valid_assert_type r = true ->
  (assert_queue g (HLane.st s q) t (frames_of_path g (PAsync c sk)) q = APass <-> on_chain g c q) /\
  (assert_queue_not g (HLane.st s q) t (frames_of_path g (PAsync c sk)) q = APass <-> ~ on_chain g c q).
Proof.
  intros OK R Vt A W E Hc L V.
  assert (Hcq : t_cq (frames_of_path g (PAsync c sk)) = c) by (apply (path_current_queue g (PAsync c sk) W); exact Hc).
  pose proof (hlane_lock_discipline F g s t c rest _ OK R Vt A W E Hc Hcq) as D.
  destruct (item_assert_queue_disciplined g (PAsync c sk) (HLane.st s) t q r W Hc D L V) as [I1 I2].
  simpl path_top in *. simpl path_ctx in *. split; [rewrite I1; tauto|rewrite I2; tauto].
Qed.

(* ------------------------------------------------------------------ non-vacuity: a reachable protocol state with a thread inside a callout *)
(* lanes 11 and 12 target the serial bottom 10; graph of Frames.v: 11 -> 10 -> root 107, 12 -> 10, 13 -> root 107 *)
Definition F3 : HLane.forest :=
  {| HLane.target := fun l => if (l =? 11) || (l =? 12) then Some 10 else None;
     HLane.depth := fun l => if (l =? 11) || (l =? 12) then 1%nat else 0%nat;
     HLane.rolebits := fun l => if (l =? 11) || (l =? 12) then 0 else 1;
     HLane.prio := fun _ => 0; HLane.fallback := fun l => if l =? 10 then 4 else 0 |}.
Lemma F3_ok : HLane.forest_ok F3.
Proof.
  unfold HLane.forest_ok, F3; cbn [HLane.target HLane.depth HLane.rolebits HLane.prio HLane.fallback]. split; [|split].
  - intros l p. destruct ((l =? 11) || (l =? 12)) eqn:E; [|discriminate]. intros H. injection H as <-.
    cbn. split; [lia|reflexivity].
  - intros l. destruct ((l =? 11) || (l =? 12)); [discriminate|lia].
  - intros l. destruct (l =? 10); lia.
Qed.
Definition g3 : graph :=
  let lane t := {| q_target := t; q_type := 273; q_width := 1; q_bound := false; q_head := false; q_entries := [] |} in
  [(13, lane 107); (12, lane 10); (11, lane 10); (10, lane 107);
   (107, {| q_target := 0; q_type := 328465; q_width := 4095; q_bound := false; q_head := false; q_entries := [] |})].
Lemma g3_agrees : agrees F3 g3.
Proof.
  intros l p. unfold F3; cbn [HLane.target]. destruct (Z.eqb_spec l 11) as [->|N1]; cbn [orb].
  - intros [= <-]. repeat split; try lia.
  - destruct (Z.eqb_spec l 12) as [->|N2]; [|discriminate]. intros [= <-]. repeat split; try lia.
Qed.
(* thread 5 submits an item to lane 11 (lane 11 goes onto lane 10, lane 10 into the root queue); worker 8 pops the bottom,
   locks it, pops lane 11, invokes it (nested), locks it, pops the item: inside the callout *)
Definition acts3 : list HLane.action :=
  let S t := HLane.AStep t false in
  [HLane.ABegin 5 (HLane.CAsync 11 0); S 5; S 5; S 5; S 5; S 5; S 5; S 5; S 5; S 5; S 5;
   HLane.ABegin 8 (HLane.CWorker 10 0); S 8; S 8; S 8; S 8; S 8; S 8; S 8; S 8; S 8; S 8; S 8].
Definition at3 {A} (f : HLane.gst -> A) (d : A) : A :=
  match HLane.run F3 (HLane.init_state F3) acts3 with Some s => f s | None => d end.
Definition facts3 (s : HLane.gst) : list Z * (bool * bool * bool * bool) :=
  (map fst (HLane_proofs.dframes (HLane.stk s 8)),
   (locked_by_self (HLane.st s 11) 8, locked_by_self (HLane.st s 10) 8, locked_by_self (HLane.st s 12) 8, locked_by_self (HLane.st s 11) 5)).

(* facts about the reached state are computed pointwise, each in a lemma of its own (the kernel re-checks one vm_compute per
   lemma and is never asked to convert a term containing the run) *)
Lemma at3_eq {A} (f : HLane.gst -> A) (d v : A) s :
  HLane.run F3 (HLane.init_state F3) acts3 = Some s -> at3 f d = v -> f s = v.
Proof. unfold at3. intros ->. auto. Qed.
Lemma run3_ok : at3 (fun _ => true) false = true.
Proof. vm_compute. reflexivity. Qed.
Lemma run3_facts : at3 facts3 ([], (false, false, false, false)) = ([11; 10], (true, true, false, false)).
Proof. vm_compute. reflexivity. Qed.
Definition asserts3 (s : HLane.gst) : list assert_result * list assert_result :=
  (map (fun q => assert_queue g3 (HLane.st s q) 8 (frames_of_path g3 (PAsync 11 [])) q) [11; 10; 107; 12; 13],
   map (fun q => assert_queue_not g3 (HLane.st s q) 8 (frames_of_path g3 (PAsync 11 [])) q) [11; 10; 107; 12; 13]).
Lemma run3_asserts : at3 asserts3 ([], []) = ([APass; APass; APass; AFail; AFail], [AFail; AFail; AFail; APass; APass]).
Proof. vm_compute. reflexivity. Qed.
Lemma acts3_valid : forallb HLane_progress.act_valid acts3 = true.
Proof. vm_compute. reflexivity. Qed.
Lemma g3_wf : wf_graph g3 = true.
Proof. vm_compute. reflexivity. Qed.

Theorem locks_nonvacuous :
  HLane.forest_ok F3 /\ agrees F3 g3 /\ wf_graph g3 = true /\
  exists s, HLane.reach F3 s /\ facts3 s = ([11; 10], (true, true, false, false)) /\
    (* thread 8 is inside the callout of an item of lane 11 (11 -> 10 -> root 107); 12 -> 10 and 13 -> 107 are off its chain *)
    asserts3 s = ([APass; APass; APass; AFail; AFail], [AFail; AFail; AFail; APass; APass]).
Proof.
  split; [exact F3_ok|]. split; [exact g3_agrees|]. split; [exact g3_wf|].
  pose proof run3_ok as H0. unfold at3 in H0.
  destruct (HLane.run F3 (HLane.init_state F3) acts3) as [s|] eqn:E; [|discriminate]. clear H0.
  exists s. split; [|split].
  - apply (HLane_progress.run_reach F3 acts3 (HLane.init_state F3) s); [|exact acts3_valid|exact E].
    apply Conc.reach_init. reflexivity.
  - exact (at3_eq facts3 _ _ s E run3_facts).
  - exact (at3_eq asserts3 _ _ s E run3_asserts).
Qed.
