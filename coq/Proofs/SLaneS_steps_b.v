(* SLaneS_steps_b.v — preservation of Inv (Proofs/SLaneS_inv.v) by the steps of dispatch_suspend, dispatch_resume
   (fast path, side-counter path, the lock hand-off when the count reaches zero) and dispatch_activate. *)
From Coq Require Import ZArith Bool List Lia.
From Verif Require Import Word Bits Fields DqFields Conc Gen_consts Gen_dqstate Lane_fields SLaneS_fields SLaneS SLaneS_inv
  SLaneS_steps_a.
Import ListNotations.
Local Open Scope Z_scope.

Section StepsB.
Local Ltac Zify.zify_post_hook ::= Z.div_mod_to_equations.

(* the word keeps every field but the suspend bits *)
Lemma ainv_set_hi s r h t p :
  ainv s r -> 0 <= h < 512 -> (0 < f_hi r -> 0 < h) -> lockh s <> Some t ->
  ainv (set_pc (set_st s (enc (set_hi r h))) t p) (set_hi r h).
Proof.
  intros A Hh Hs NL. dA A. pose proof Gwf as W. unfold wfr in W.
  assert (P : forall w, lockh s = Some w -> upd (pcs s) t p w = pcs s w).
  { intros w E. apply upd_other. congruence. }
  unfold inflight in Gorder.
  constructor; sproj; unfold set_hi, mk; cbn [f_owner f_tr f_enq f_mq f_ov f_role f_em f_d f_pb f_wq f_ib f_hi];
    try assumption; try reflexivity.
  - apply wfr_mk; lia.
  - intros Hl. destruct (Gnostrand Hl) as [X|[X|[X|X]]]; auto.
  - intros w E. rewrite P by exact E. intros Hu Hl Hw. destruct (Gdirty w E Hu Hl Hw) as [X|X]; auto.
  - unfold inflight; sproj. destruct (lockh s) as [w|]; [rewrite P by reflexivity|]; exact Gorder.
  - destruct (lockh s) as [w|]; [rewrite P by reflexivity|]; exact Grunning.
Qed.

Lemma ainv_ghost_ext s s' r :
  ainv s r -> st s' = st s -> lst s' = lst s -> rootq s' = rootq s -> pcs s' = pcs s -> nextid s' = nextid s ->
  started s' = started s -> running s' = running s -> token s' = token s -> wakers s' = wakers s -> lockh s' = lockh s ->
  ainv s' r.
Proof. apply ainv_ext. Qed.

(* ---------------------------------------------------------------- dispatch_suspend *)
Lemma suspend_commit ina s r t h p :
  Inv ina s -> ainv s r -> binv s r -> cinv s r -> dinv ina s r ->
  0 <= h < 512 -> 0 < h -> h mod 4 = f_hi r mod 4 ->
  lock_pc (pcs s t) = false -> token_pc (pcs s t) = false -> waker_pc (pcs s t) = false -> rpre_pc (pcs s t) = false ->
  sret_pc (pcs s t) = false -> pcs s t <> PC_rmw -> p <> PC_rmw ->
  lock_pc p = false -> token_pc p = false -> waker_pc p = false -> rpre_pc p = false -> sret_pc p = true ->
  sidelock_pc p = sidelock_pc (pcs s t) -> owned_of p = None -> qos_of p = None -> dead_pc p = false ->
  (* the counting obligations of this particular commit *)
  h / 8 + side_eff (set_pc s t p) = f_hi r / 8 + side_eff s + 1 ->
  ((h / 4) mod 2 = 1 <-> 0 < side_eff (set_pc s t p)) ->
  0 <= side_eff (set_pc s t p) ->
  Inv ina (commit_suspend s t (enc (set_hi r h)) p).
Proof.
  intros I A Bv C D Hh Hpos Hm4 L1 L2 L3 L4 L5 NC NC' P1 P2 P3 P4 P5 P6 P7 P8 P9 Cnt Ssc Se0.
  destruct I as [_ T].
  assert (NL : lockh s <> Some t) by (apply (not_holder_lock s t (T t)); exact L1).
  pose proof (g_enc s r A) as Genc. pose proof (g_wf s r A) as Gwf.
  assert (NSr : ~ In t (sret s)).
  { destruct (T t) as (_ & _ & _ & _ & _ & T6 & _). intros Hin. apply T6 in Hin. congruence. }
  split.
  - exists (set_hi r h). split; [|split; [|split]].
    + apply (ainv_ext (set_pc (set_st s (enc (set_hi r h))) t p)); try reflexivity.
      apply ainv_set_hi; auto.
    + dB Bv.
      assert (SE : side_eff (commit_suspend s t (enc (set_hi r h)) p) = side_eff (set_pc s t p)) by reflexivity.
      constructor; sproj; change (f_hi (set_hi r h)) with h; rewrite ?SE, ?zlen_cons; try assumption; try lia.
      constructor; assumption.
    + intros _. change (f_hi (set_hi r h)) with h. unfold commit_suspend; sproj.
      assert (LN : lic_now (commit_suspend s t (enc (set_hi r h)) p) = lic_now s).
      { apply (lic_now_eq s _ t p); sproj; try reflexivity. intros E. congruence. }
      unfold commit_suspend in LN. rewrite LN.
      rewrite Genc, suspended_word_f by exact Gwf.
      destruct (Z.ltb_spec 0 (f_hi r)) as [Hs|Hs]; cbn [negb].
      * apply C. exact Hs.
      * destruct (lic_now s); cbn [b2z]; lia.
    + eapply (dinv_step ina s _ r _ t p D); sproj; try reflexivity; auto.
  - intros u. destruct (Z.eq_dec u t) as [->|N].
    + destruct (T t) as (T1 & T2 & T3 & T4 & T5 & T6 & T7 & T8 & T9).
      unfold thread_inv. sproj. rewrite upd_same. rewrite P1, P2, P3, P4, P5, P6, P7, P8, P9.
      rewrite L1 in T3. rewrite L2 in T1. rewrite L3 in T2. rewrite L4 in T5.
      self_tac.
    + apply (thread_other s _ t u N (T u)); sproj; [apply upd_other; exact N | try other_iffs N ..].
Qed.

Lemma step_ps_rmw ina rb s t s' : Inv ina s -> pcs s t = PS_rmw -> gstep rb s t = Some s' -> Inv ina s'.
Proof.
  intros I Hpc B. pose proof I as [(r & A & Bv & C & D) T]. unfold gstep in B. rewrite Hpc in B.
  pose proof (g_enc s r A) as Genc. pose proof (g_wf s r A) as Gwf. pose proof Gwf as W. unfold wfr in W.
  rewrite Genc, (suspend_fields r Gwf) in B.
  destruct (Z.ltb_spec (f_hi r) 504) as [H|H].
  - injection B as <-.
    assert (NS : sidelock s <> Some t) by (apply (not_holder_side s t (T t)); rewrite Hpc; reflexivity).
    pose proof (side_eff_other s t PS_ret NS) as SE. dB Bv.
    apply (suspend_commit ina s r t (f_hi r + 8) PS_ret I A); rewrite ?Hpc, ?SE; try reflexivity; try discriminate;
      try assumption; try lia.
    constructor; assumption.
  - injection B as <-. move_tac Hpc.
Qed.

Lemma step_slock ina s t p0 p1 :
  Inv ina s -> pcs s t = p0 -> sidelock s = None ->
  sidelock_pc p0 = false -> sidelock_pc p1 = true -> side_adj p1 = 0 ->
  token_pc p1 = token_pc p0 -> waker_pc p1 = waker_pc p0 -> lock_pc p0 = false -> lock_pc p1 = false ->
  rpre_pc p1 = rpre_pc p0 -> sret_pc p1 = sret_pc p0 -> owned_of p1 = None -> qos_of p1 = None -> dead_pc p1 = false ->
  p0 <> PC_rmw -> p1 <> PC_rmw ->
  Inv ina (set_sidelock (set_pc s t p1) (Some t)).
Proof.
  intros [(r & A & Bv & C & D) T] Hpc SL S0 S1 SA H1 H2 H3 H3' H5 H6 H7 H8 H9 NC NC'.
  assert (NL : lockh s <> Some t) by (apply (not_holder_lock s t (T t)); rewrite Hpc; exact H3).
  split.
  - exists r. split; [|split; [|split]].
    + apply (ainv_ext (set_pc s t p1)); try reflexivity. apply ainv_move; auto; rewrite Hpc.
      * destruct p1; cbn in H3' |- *; try discriminate; try (intros X; discriminate X).
      * destruct p0, p1; cbn in H3, H3' |- *; try discriminate; reflexivity.
      * destruct p0, p1; cbn in H3, H3' |- *; try discriminate; reflexivity.
    + apply (binv_frame s _ r r Bv); sproj; auto.
      unfold side_eff; sproj. rewrite SL, upd_same, SA. reflexivity.
    + apply (cinv_frame s _ r r C); sproj; auto. apply (lic_now_other s t p1 NL).
    + apply (dinv_frame ina s _ r r t p1 D); sproj; auto. rewrite Hpc. exact NC.
  - intros u. destruct (Z.eq_dec u t) as [->|N].
    + destruct (T t) as (T1 & T2 & T3 & T4 & T5 & T6 & T7 & T8 & T9). rewrite Hpc in *.
      unfold thread_inv. sproj. rewrite upd_same. rewrite H1, H2, H5, H6, H7, H8, H9, S1, H3'. rewrite H3 in T3.
      self_tac.
    + apply (thread_other s _ t u N (T u)); sproj; [apply upd_other; exact N | try other_iffs N ..].
Qed.

Lemma step_ps_slock ina rb s t s' : Inv ina s -> pcs s t = PS_slock -> gstep rb s t = Some s' -> Inv ina s'.
Proof.
  intros I Hpc B. unfold gstep in B. rewrite Hpc in B. destruct (sidelock s) eqn:SL; [discriminate|]. injection B as <-.
  apply (step_slock ina s t PS_slock PS_srmw I Hpc SL); try reflexivity; discriminate.
Qed.

(* releasing the side lock *)
Lemma step_sunlock ina s t p0 p1 :
  Inv ina s -> pcs s t = p0 ->
  sidelock_pc p0 = true -> sidelock_pc p1 = false -> side_adj p0 = 0 ->
  token_pc p1 = token_pc p0 -> waker_pc p1 = waker_pc p0 -> lock_pc p0 = false -> lock_pc p1 = false ->
  rpre_pc p1 = rpre_pc p0 -> sret_pc p1 = sret_pc p0 -> owned_of p1 = None -> qos_of p1 = None -> dead_pc p1 = false ->
  p0 <> PC_rmw -> p1 <> PC_rmw ->
  Inv ina (set_sidelock (set_pc s t p1) None).
Proof.
  intros [(r & A & Bv & C & D) T] Hpc S0 S1 SA H1 H2 H3 H3' H5 H6 H7 H8 H9 NC NC'.
  assert (NL : lockh s <> Some t) by (apply (not_holder_lock s t (T t)); rewrite Hpc; exact H3).
  assert (SL : sidelock s = Some t) by (apply (holder_side s t (T t)); rewrite Hpc; exact S0).
  split.
  - exists r. split; [|split; [|split]].
    + apply (ainv_ext (set_pc s t p1)); try reflexivity. apply ainv_move; auto; rewrite Hpc.
      * destruct p1; cbn in H3' |- *; try discriminate; try (intros X; discriminate X).
      * destruct p0, p1; cbn in H3, H3' |- *; try discriminate; reflexivity.
      * destruct p0, p1; cbn in H3, H3' |- *; try discriminate; reflexivity.
    + apply (binv_frame s _ r r Bv); sproj; auto.
      unfold side_eff; sproj. rewrite SL, Hpc, SA. reflexivity.
    + apply (cinv_frame s _ r r C); sproj; auto. apply (lic_now_other s t p1 NL).
    + apply (dinv_frame ina s _ r r t p1 D); sproj; auto. rewrite Hpc. exact NC.
  - intros u. destruct (Z.eq_dec u t) as [->|N].
    + destruct (T t) as (T1 & T2 & T3 & T4 & T5 & T6 & T7 & T8 & T9). rewrite Hpc in *.
      unfold thread_inv. sproj. rewrite upd_same. rewrite H1, H2, H5, H6, H7, H8, H9, S1, H3'. rewrite H3 in T3.
      self_tac.
    + apply (thread_other s _ t u N (T u)); sproj; [apply upd_other; exact N | try other_iffs N ..].
Qed.

Lemma step_ps_sunlock ina rb s t s' : Inv ina s -> pcs s t = PS_sunlock -> gstep rb s t = Some s' -> Inv ina s'.
Proof.
  intros I Hpc B. unfold gstep in B. rewrite Hpc in B. injection B as <-.
  apply (step_sunlock ina s t PS_sunlock PS_ret I Hpc); try reflexivity; discriminate.
Qed.
Lemma step_ps_sretry ina rb s t s' : Inv ina s -> pcs s t = PS_sretry -> gstep rb s t = Some s' -> Inv ina s'.
Proof.
  intros I Hpc B. unfold gstep in B. rewrite Hpc in B. injection B as <-.
  apply (step_sunlock ina s t PS_sretry PS_rmw I Hpc); try reflexivity; discriminate.
Qed.

Lemma side_eff_holder s t : sidelock s = Some t -> side_eff s = side s + side_adj (pcs s t).
Proof. intros E. unfold side_eff. rewrite E. reflexivity. Qed.
Lemma side_eff_holder_set s t p : sidelock s = Some t -> side_eff (set_pc s t p) = side s + side_adj p.
Proof. intros E. unfold side_eff; sproj. rewrite E, upd_same. reflexivity. Qed.

Lemma delta_244 : u64 (delta0 - HAS_SIDE) = 36028797018963968 * 244.
Proof. reflexivity. Qed.
Lemma delta_248 : delta0 = 36028797018963968 * 248.
Proof. reflexivity. Qed.

Lemma step_ps_srmw ina rb s t s' : Inv ina s -> pcs s t = PS_srmw -> gstep rb s t = Some s' -> Inv ina s'.
Proof.
  intros I Hpc B. pose proof I as [(r & A & Bv & C & D) T]. unfold gstep in B. rewrite Hpc in B.
  pose proof (g_enc s r A) as Genc. pose proof (g_wf s r A) as Gwf. pose proof Gwf as W. unfold wfr in W.
  assert (SL : sidelock s = Some t) by (apply (holder_side s t (T t)); rewrite Hpc; reflexivity).
  pose proof (side_eff_holder s t SL) as SE0. rewrite Hpc in SE0. cbn [side_adj] in SE0.
  pose proof (side_eff_holder_set s t PS_sside SL) as SE1. cbn [side_adj] in SE1.
  dB Bv. rewrite Genc in B.
  destruct (Z.eqb_spec (side s) 0) as [S0|S0].
  - rewrite delta_244, (suspend_slow_fields r 244 Gwf ltac:(lia)) in B.
    destruct (Z.ltb_spec (f_hi r) 244) as [H|H]; injection B as <-; [move_tac Hpc|].
    assert (Z0 : (f_hi r / 4) mod 2 = 0).
    { destruct (Z.eq_dec ((f_hi r / 4) mod 2) 1) as [E|E]; [apply Bssc in E; lia | lia]. }
    apply (suspend_commit ina s r t (f_hi r - 244) PS_sside I A); rewrite ?Hpc, ?SE1; try reflexivity; try discriminate;
      try assumption; try lia.
    constructor; assumption.
  - rewrite delta_248, (suspend_slow_fields r 248 Gwf ltac:(lia)) in B.
    destruct (Z.ltb_spec (f_hi r) 248) as [H|H]; injection B as <-; [move_tac Hpc|].
    assert (Z1 : (f_hi r / 4) mod 2 = 1) by (apply Bssc; lia).
    apply (suspend_commit ina s r t (f_hi r - 248) PS_sside I A); rewrite ?Hpc, ?SE1; try reflexivity; try discriminate;
      try assumption; try lia.
    constructor; assumption.
Qed.

Lemma step_ps_sside ina rb s t s' : Inv ina s -> pcs s t = PS_sside -> gstep rb s t = Some s' -> Inv ina s'.
Proof.
  intros I Hpc B. pose proof I as [(r & A & Bv & C & D) T]. unfold gstep in B. rewrite Hpc in B.
  assert (SL : sidelock s = Some t) by (apply (holder_side s t (T t)); rewrite Hpc; reflexivity).
  assert (NL : lockh s <> Some t) by (apply (not_holder_lock s t (T t)); rewrite Hpc; reflexivity).
  destruct (4294967296 <=? side s + HALF); injection B as <-; [move_tac Hpc|].
  pose proof (side_eff_holder s t SL) as SE0. rewrite Hpc in SE0. cbn [side_adj] in SE0.
  split.
  - exists r. split; [|split; [|split]].
    + apply (ainv_ext (set_pc s t PS_sunlock)); try reflexivity. apply ainv_move; auto; rewrite Hpc; try reflexivity. discriminate.
    + dB Bv. unfold HALF.
      assert (SE : side_eff (set_side (set_pc s t PS_sunlock) (side s + 32)) = side_eff s).
      { unfold side_eff at 1; sproj. rewrite SL, upd_same. cbn [side_adj]. lia. }
      constructor; sproj; rewrite ?SE; try assumption; try lia.
    + apply (cinv_frame s _ r r C); sproj; auto. apply (lic_now_other s t PS_sunlock NL).
    + apply (dinv_frame ina s _ r r t PS_sunlock D); sproj; auto; rewrite ?Hpc; discriminate.
  - threads_move_tac s t Hpc.
Qed.

Lemma step_ps_ret ina rb s t s' : Inv ina s -> pcs s t = PS_ret -> gstep rb s t = Some s' -> Inv ina s'.
Proof.
  intros I Hpc B. pose proof I as [(r & A & Bv & C & D) T]. unfold gstep in B. rewrite Hpc in B. injection B as <-.
  assert (NS : sidelock s <> Some t) by (apply (not_holder_side s t (T t)); rewrite Hpc; reflexivity).
  assert (NL : lockh s <> Some t) by (apply (not_holder_lock s t (T t)); rewrite Hpc; reflexivity).
  assert (In t (sret s)) as Hin.
  { destruct (T t) as (_ & _ & _ & _ & _ & T6 & _). apply T6. rewrite Hpc. reflexivity. }
  split.
  - exists r. split; [|split; [|split]].
    + apply (ainv_ext (set_pc s t Idle)); try reflexivity. apply ainv_move; auto; rewrite Hpc; try reflexivity. discriminate.
    + dB Bv. pose proof (side_eff_other s t Idle NS) as SE.
      assert (SE' : side_eff (set_sret (set_susp_done (set_pc s t Idle) (susp_done s + 1)) (remove_z t (sret s))) =
                    side_eff (set_pc s t Idle)) by reflexivity.
      constructor; sproj; rewrite ?SE', ?SE, ?(zlen_remove_z t (sret s) Bnds Hin); try assumption; try lia.
      apply nodup_remove_z. exact Bnds.
    + apply (cinv_frame s _ r r C); sproj; auto. apply (lic_now_other s t Idle NL).
    + apply (dinv_frame ina s _ r r t Idle D); sproj; auto; rewrite ?Hpc; discriminate.
  - intros u. destruct (Z.eq_dec u t) as [->|N].
    + self_inv T t Hpc.
    + apply (thread_other s _ t u N (T u)); sproj; [apply upd_other; exact N | try other_iffs N ..].
Qed.

(* ---------------------------------------------------------------- dispatch_resume *)
Lemma dinv_change ina s s' r r' t p' :
  dinv ina s r -> act_called s = true -> f_hi r' mod 4 <> 3 -> (f_hi r' mod 4 <> 0 -> f_hi r mod 4 <> 0) ->
  started s' = started s -> lockh s' = lockh s -> act_called s' = act_called s -> pcs s' = upd (pcs s) t p' ->
  p' <> PC_rmw -> dinv ina s' r'.
Proof.
  intros [D1 D2 D3 D4 D5] AC H3 H0 E1 E2 E3 E4 NP. constructor; rewrite ?E1, ?E2, ?E3; auto.
  - intros X. congruence.
  - intros X. specialize (D5 X). destruct (Z.eq_dec (f_hi r' mod 4) 0) as [E|E]; [exact E|]. specialize (H0 E). contradiction.
Qed.

(* the decrement of the in-word count by a resumer that was registered as pending *)
Lemma resume_count s s' r r' t :
  binv s r -> In t (rpre s) -> 8 <= f_hi r -> f_hi r <> 9 -> f_hi r' = f_hi r - 8 ->
  side s' = side s -> side_eff s' = side_eff s -> susp_done s' = susp_done s -> sret s' = sret s ->
  rpre s' = remove_z t (rpre s) -> binv s' r'.
Proof.
  intros B Hin H8 H9 Hh E1 E2 E3 E4 E5. dB B.
  constructor; rewrite ?Hh, ?E1, ?E2, ?E3, ?E4, ?E5, ?(zlen_remove_z t (rpre s) Bndr Hin); try assumption; try lia.
  apply nodup_remove_z. exact Bndr.
Qed.

Lemma step_pr_rmw ina rb s t s' : Inv ina s -> valid_tid t -> pcs s t = PR_rmw -> gstep rb s t = Some s' -> Inv ina s'.
Proof.
  intros I Vt Hpc B. pose proof I as [(r & A & Bv & C & D) T]. unfold gstep in B. rewrite Hpc in B.
  pose proof A as A'. dA A'. pose proof Gwf as W. unfold wfr in W.
  assert (NS : sidelock s <> Some t) by (apply (not_holder_side s t (T t)); rewrite Hpc; reflexivity).
  assert (NL : lockh s <> Some t) by (apply (not_holder_lock s t (T t)); rewrite Hpc; reflexivity).
  assert (NK : token s <> Some (Some t)) by (apply (not_holder_token s t (T t)); rewrite Hpc; reflexivity).
  assert (In t (rpre s)) as Hin.
  { destruct (T t) as (_ & _ & _ & _ & T5 & _). apply T5. rewrite Hpc. reflexivity. }
  pose proof (zlen_pos t (rpre s) Hin) as Zp. pose proof (zlen_nonneg (sret s)) as Zs.
  assert (P : forall p w, lockh s = Some w -> upd (pcs s) t p w = pcs s w).
  { intros p w E. apply upd_other. congruence. }
  rewrite Genc in B. change (SLaneS.lockbits t) with (SLaneS_fields.lockbits t) in B.
  rewrite (resume_fields r t Gwf Vt Gpb) in B. unfold NEEDS_ACT, IN_BARRIER, HAS_SIDE in B.
  destruct (Z.eqb_spec (f_hi r) 9) as [H9|H9].
  - (* the last resume of a queue activated while suspended: { sc:1 na:1 } -> { sc:1 }, run the activation *)
    pose proof (set_hi_wf r 8 Gwf ltac:(lia)) as W8.
    rewrite (xor_needs_activation r (set_hi r 8) Gwf W8) in B. change (f_hi (set_hi r 8)) with 8 in B. rewrite H9 in B.
    change (xorb (9 mod 2 =? 1) (8 mod 2 =? 1)) with true in B. cbv iota in B. injection B as <-.
    pose proof (side_eff_other (set_st s (enc (set_hi r 8))) t PR_role NS) as SE.
    split.
    + exists (set_hi r 8). split; [|split; [|split]].
      * apply ainv_set_hi; auto; lia.
      * dB Bv. constructor; sproj; change (f_hi (set_hi r 8)) with 8;
          change (side_eff (set_pc (set_st s (enc (set_hi r 8))) t PR_role)) with (side_eff (set_pc s t PR_role));
          rewrite ?(side_eff_other s t PR_role NS); try assumption; try lia.
      * apply (cinv_frame s _ r _ C); sproj; auto; [lia|]. apply (lic_now_other (set_st s (enc (set_hi r 8))) t PR_role NL).
      * assert (AC : act_called s = true).
        { destruct (act_called s) eqn:E; [reflexivity|]. pose proof (d_act0 ina s r D E) as X. rewrite H9 in X.
          destruct ina; discriminate X. }
        apply (dinv_change ina s _ r _ t PR_role D AC); sproj; try reflexivity; try discriminate;
          change (f_hi (set_hi r 8)) with 8; cbn; lia.
    + threads_move_tac s t Hpc.
  - destruct (Z.ltb_spec (f_hi r) 8) as [H8|H8].
    + (* inline count exhausted: the side counter must hold the rest *)
      dB Bv.
      assert (Z1 : (f_hi r / 4) mod 2 = 1) by (apply Bssc; lia).
      change 144115188075855872 with 144115188075855872 in B. rewrite (has_side_f r Gwf) in B. rewrite Z1 in B.
      cbn [Z.eqb] in B. injection B as <-. move_tac Hpc.
    + cbv zeta in B. set (r2 := set_hi r (f_hi r - 8)) in *.
      pose proof (set_hi_wf r (f_hi r - 8) Gwf ltac:(lia)) as W2. fold r2 in W2.
      destruct (runnable_b r2 && (f_owner r =? 0)) eqn:RO.
      * (* count reaches zero on an unlocked lane: take the full-width lock for the hand-off *)
        apply andb_true_iff in RO. destruct RO as [RB O]. apply Z.eqb_eq in O.
        unfold runnable_b in RB. rewrite !andb_true_iff in RB. destruct RB as [[RB1 RB2] RB3].
        apply Z.ltb_lt in RB1. apply Z.eqb_eq in RB2, RB3. change (f_hi r2) with (f_hi r - 8) in RB3.
        change (f_ib r2) with (f_ib r) in RB2. change (f_wq r2) with (f_wq r) in RB1.
        pose proof (lockh_none_of_free s r A O) as LN.
        set (rl := mk t 0 (f_enq r) (f_mq r) 0 (f_role r) (f_em r) 0 0 4096 1 0) in *.
        assert (Wl : wfr rl) by (subst rl; apply wfr_mk; unfold valid_tid in Vt; lia).
        rewrite (xor_needs_activation r rl Gwf Wl), (xor_in_barrier r rl Gwf Wl) in B.
        rewrite (suspended_word_f rl Wl) in B.
        change (f_hi rl) with 0 in B. change (f_ib rl) with 1 in B. rewrite RB2 in B.
        assert (H8' : f_hi r = 8) by lia. rewrite H8' in B.
        change (xorb (8 mod 2 =? 1) (0 mod 2 =? 1)) with false in B. change (0 <? 0) with false in B.
        change (xorb (0 =? 1) (1 =? 1)) with true in B. cbv iota in B.
        rewrite (max_qos_f r Gwf) in B. injection B as <-.
        unfold inflight in Gorder. rewrite LN in Glock, Gorder, Grunning.
        split.
        -- exists rl. split; [|split; [|split]].
           ++ subst rl. constructor; sproj; unfold mk; cbn [f_tr f_em f_pb f_hi f_role f_enq f_d];
                try assumption; try lia; try reflexivity.
              ** split; [exact Vt | unfold held; cbn; auto].
              ** intros _. right; right; left. discriminate.
              ** intros w E. injection E as <-. rewrite upd_same. discriminate.
              ** unfold inflight; sproj. rewrite upd_same. exact Gorder.
              ** rewrite upd_same. exact Grunning.
           ++ apply (resume_count s _ r rl t Bv Hin); sproj; try reflexivity; try lia.
              ** change (f_hi rl) with 0. lia.
              ** eapply (side_eff_eq s _ t); sproj; try reflexivity. intros E. congruence.
           ++ apply cinv_unsuspended. reflexivity.
           ++ eapply (dinv_step ina s _ r _ t _ D); sproj; rewrite ?Hpc; try reflexivity; try discriminate.
              ** rewrite H8'. reflexivity.
              ** rewrite H8'. intros X. exfalso. apply X. reflexivity.
        -- intros u. destruct (Z.eq_dec u t) as [->|N].
           ++ destruct (T t) as (T1 & T2 & T3 & T4 & T5 & T6 & T7 & T8 & T9). rewrite Hpc in T1, T2, T3, T4, T5, T6, T7, T8, T9.
              unfold thread_inv; sproj; rewrite upd_same.
              cbn [token_pc dlocked_pc rlocked_pc lock_pc waker_pc sidelock_pc rpre_pc sret_pc owned_of qos_of dead_pc orb Z.eqb negb] in *.
              self_tac. lia.
           ++ apply (thread_other s _ t u N (T u)); sproj; [apply upd_other; exact N | try other_iffs N ..].
      * (* still suspended, or locked by a drainer: DIRTY makes the lock holder look again *)
        pose proof (dirtied_wf r2 W2) as Wd.
        rewrite (xor_needs_activation r (dirtied r2) Gwf Wd), (xor_in_barrier r (dirtied r2) Gwf Wd) in B.
        rewrite (suspended_word_f (dirtied r2) Wd), (runnable_f (dirtied r2) Wd) in B.
        change (f_hi (dirtied r2)) with (f_hi r - 8) in B. change (f_ib (dirtied r2)) with (f_ib r) in B.
        assert (Par : xorb (f_hi r mod 2 =? 1) ((f_hi r - 8) mod 2 =? 1) = false).
        { replace ((f_hi r - 8) mod 2) with (f_hi r mod 2) by lia. apply xorb_nilpotent. }
        rewrite Par, xorb_nilpotent in B. cbv iota in B.
        assert (Common : Inv ina (set_pc (set_rpre (set_st s (enc (dirtied r2))) (remove_z t (rpre s))) t Idle)).
        { split.
          - exists (dirtied r2). split; [|split; [|split]].
            + unfold inflight in Gorder.
              subst r2. constructor; sproj; unfold dirtied, set_hi, mk; cbn [f_owner f_tr f_enq f_mq f_ov f_role f_em f_d f_pb f_wq f_ib f_hi];
                try assumption; try lia; try reflexivity.
              * intros Hl. destruct (Gnostrand Hl) as [X|[X|[X|X]]]; auto.
                destruct (Z.ltb_spec 0 (f_hi r - 8)); [right; right; right; assumption|].
                right; right; left. intros LN. rewrite LN in Glock. destruct Glock as (O & Ib & Wq).
                unfold runnable_b in RO. change (f_wq (set_hi r (f_hi r - 8))) with (f_wq r) in RO.
                change (f_ib (set_hi r (f_hi r - 8))) with (f_ib r) in RO. change (f_hi (set_hi r (f_hi r - 8))) with (f_hi r - 8) in RO.
                rewrite O, Ib, Wq in RO. assert (E0 : f_hi r - 8 = 0) by lia. rewrite E0 in RO. discriminate RO.
              * unfold inflight; sproj. destruct (lockh s) as [w|]; [rewrite P by reflexivity|]; exact Gorder.
              * destruct (lockh s) as [w|]; [rewrite P by reflexivity|]; exact Grunning.
            + apply (resume_count s _ r _ t Bv Hin); sproj; try reflexivity; try lia.
              eapply (side_eff_eq s _ t); sproj; try reflexivity. intros E. congruence.
            + apply (cinv_frame s _ r _ C); sproj; auto.
              * change (f_hi (dirtied r2)) with (f_hi r - 8). lia.
              * eapply (lic_now_eq s _ t); sproj; try reflexivity. intros E. congruence.
            + eapply (dinv_step ina s _ r _ t _ D); sproj; rewrite ?Hpc; try reflexivity; try discriminate; auto.
              change (f_hi (dirtied r2)) with (f_hi r - 8). lia.
          - intros u. destruct (Z.eq_dec u t) as [->|N].
            + self_inv T t Hpc.
            + apply (thread_other s _ t u N (T u)); sproj; [apply upd_other; exact N | try other_iffs N ..]. }
        destruct (Z.ltb_spec 0 (f_hi r - 8)) as [Hs|Hs]; [injection B as <-; exact Common|].
        assert (NR : runnable_b (dirtied r2) = false).
        { unfold runnable_b. change (f_wq (dirtied r2)) with (f_wq r). change (f_ib (dirtied r2)) with (f_ib r).
          change (f_hi (dirtied r2)) with (f_hi r - 8).
          unfold runnable_b in RO. change (f_wq r2) with (f_wq r) in RO. change (f_ib r2) with (f_ib r) in RO.
          change (f_hi r2) with (f_hi r - 8) in RO.
          destruct (lockh s) as [w|] eqn:LK.
          - destruct Glock as [Vw (O & Ib & Wq)]. rewrite Wq. reflexivity.
          - destruct Glock as (O & Ib & Wq). rewrite O, Ib, Wq in RO. assert (E0 : f_hi r - 8 = 0) by lia. rewrite E0 in RO.
            discriminate RO. }
        rewrite NR in B. cbn [negb] in B. injection B as <-. exact Common.
Qed.

Lemma step_pr_slock ina rb s t s' : Inv ina s -> pcs s t = PR_slock -> gstep rb s t = Some s' -> Inv ina s'.
Proof.
  intros I Hpc B. unfold gstep in B. rewrite Hpc in B. destruct (sidelock s) eqn:SL; [discriminate|]. injection B as <-.
  apply (step_slock ina s t PR_slock PR_srmw I Hpc SL); try reflexivity; discriminate.
Qed.
Lemma step_pr_sunlock ina rb s t s' : Inv ina s -> pcs s t = PR_sunlock -> gstep rb s t = Some s' -> Inv ina s'.
Proof.
  intros I Hpc B. unfold gstep in B. rewrite Hpc in B. injection B as <-.
  apply (step_sunlock ina s t PR_sunlock Idle I Hpc); try reflexivity; discriminate.
Qed.
Lemma step_pr_sretry ina rb s t s' : Inv ina s -> pcs s t = PR_sretry -> gstep rb s t = Some s' -> Inv ina s'.
Proof.
  intros I Hpc B. unfold gstep in B. rewrite Hpc in B. injection B as <-.
  apply (step_sunlock ina s t PR_sretry PR_rmw I Hpc); try reflexivity; discriminate.
Qed.

Lemma step_pr_srmw ina rb s t s' : Inv ina s -> pcs s t = PR_srmw -> gstep rb s t = Some s' -> Inv ina s'.
Proof.
  intros I Hpc B. pose proof I as [(r & A & Bv & C & D) T]. unfold gstep in B. rewrite Hpc in B.
  pose proof (g_enc s r A) as Genc. pose proof (g_wf s r A) as Gwf. pose proof Gwf as W. unfold wfr in W.
  assert (SL : sidelock s = Some t) by (apply (holder_side s t (T t)); rewrite Hpc; reflexivity).
  assert (NL : lockh s <> Some t) by (apply (not_holder_lock s t (T t)); rewrite Hpc; reflexivity).
  assert (In t (rpre s)) as Hin.
  { destruct (T t) as (_ & _ & _ & _ & T5 & _). apply T5. rewrite Hpc. reflexivity. }
  pose proof (side_eff_holder s t SL) as SE0. rewrite Hpc in SE0. cbn [side_adj] in SE0.
  destruct (Z.eqb_spec (side s) 0) as [S0|S0]; [injection B as <-; move_tac Hpc|].
  rewrite Genc in B.
  assert (Fin : forall d, (d = 244 /\ side s = 32 \/ d = 248 /\ side s <> 32) -> f_hi r + d < 512 ->
            Inv ina (set_rpre (set_pc (set_st s (enc (set_hi r (f_hi r + d)))) t PR_sside) (remove_z t (rpre s)))).
  { intros d Hd Hlt. pose proof Bv as Bv'. dB Bv'.
    assert (Z1 : (f_hi r / 4) mod 2 = 1) by (apply Bssc; lia).
    split.
    - exists (set_hi r (f_hi r + d)). split; [|split; [|split]].
      + apply (ainv_ext (set_pc (set_st s (enc (set_hi r (f_hi r + d)))) t PR_sside)); try reflexivity.
        apply ainv_set_hi; auto; lia.
      + assert (SE : side_eff (set_rpre (set_pc (set_st s (enc (set_hi r (f_hi r + d)))) t PR_sside) (remove_z t (rpre s))) =
                     side s - 32).
        { unfold side_eff; sproj. rewrite SL, upd_same. reflexivity. }
        constructor; sproj; change (f_hi (set_hi r (f_hi r + d))) with (f_hi r + d);
          rewrite ?SE, ?(zlen_remove_z t (rpre s) Bndr Hin); try assumption; try lia.
        apply nodup_remove_z. exact Bndr.
      + apply (cinv_frame s _ r _ C); sproj; auto; [lia|].
        eapply (lic_now_eq s _ t); sproj; try reflexivity. intros E. congruence.
      + eapply (dinv_step ina s _ r _ t _ D); sproj; rewrite ?Hpc; try reflexivity; try discriminate; auto.
        change (f_hi (set_hi r (f_hi r + d))) with (f_hi r + d). lia.
    - intros u. destruct (Z.eq_dec u t) as [->|N].
      + self_inv T t Hpc.
      + apply (thread_other s _ t u N (T u)); sproj; [apply upd_other; exact N | try other_iffs N ..]. }
  unfold HALF in B. destruct (Z.eqb_spec (side s) 32) as [S32|S32].
  - rewrite delta_244, (resume_slow_fields r 244 Gwf ltac:(lia)) in B.
    destruct (Z.ltb_spec (f_hi r + 244) 512) as [H|H]; injection B as <-; [|move_tac Hpc].
    apply (Fin 244); [left; auto | exact H].
  - rewrite delta_248, (resume_slow_fields r 248 Gwf ltac:(lia)) in B.
    destruct (Z.ltb_spec (f_hi r + 248) 512) as [H|H]; injection B as <-; [|move_tac Hpc].
    apply (Fin 248); [right; auto | exact H].
Qed.

Lemma step_pr_sside ina rb s t s' : Inv ina s -> pcs s t = PR_sside -> gstep rb s t = Some s' -> Inv ina s'.
Proof.
  intros I Hpc B. pose proof I as [(r & A & Bv & C & D) T]. unfold gstep in B. rewrite Hpc in B. injection B as <-.
  assert (SL : sidelock s = Some t) by (apply (holder_side s t (T t)); rewrite Hpc; reflexivity).
  assert (NL : lockh s <> Some t) by (apply (not_holder_lock s t (T t)); rewrite Hpc; reflexivity).
  pose proof (side_eff_holder s t SL) as SE0. rewrite Hpc in SE0. cbn [side_adj] in SE0.
  split.
  - exists r. split; [|split; [|split]].
    + apply (ainv_ext (set_pc s t PR_sunlock)); try reflexivity. apply ainv_move; auto; rewrite Hpc; try reflexivity. discriminate.
    + dB Bv. unfold HALF.
      assert (SE : side_eff (set_side (set_pc s t PR_sunlock) (side s - 32)) = side_eff s).
      { unfold side_eff at 1; sproj. rewrite SL, upd_same. cbn [side_adj]. lia. }
      constructor; sproj; rewrite ?SE; try assumption; try lia.
    + apply (cinv_frame s _ r r C); sproj; auto. apply (lic_now_other s t PR_sunlock NL).
    + apply (dinv_frame ina s _ r r t PR_sunlock D); sproj; auto; rewrite ?Hpc; discriminate.
  - threads_move_tac s t Hpc.
Qed.

Lemma step_pr_role ina rb s t s' : 0 <= rb < 2 -> Inv ina s -> pcs s t = PR_role -> gstep rb s t = Some s' -> Inv ina s'.
Proof.
  intros Hrb I Hpc B. pose proof I as [(r & A & Bv & C & D) T]. unfold gstep in B. rewrite Hpc in B.
  pose proof A as A'. dA A'. pose proof Gwf as W. unfold wfr in W.
  assert (NL : lockh s <> Some t) by (apply (not_holder_lock s t (T t)); rewrite Hpc; reflexivity).
  assert (P : forall p w, lockh s = Some w -> upd (pcs s) t p w = pcs s w).
  { intros p w E. apply upd_other. congruence. }
  rewrite Genc in B. unfold ROLE_UNIT in B. rewrite (inherit_fields r rb Gwf ltac:(lia)) in B.
  destruct (f_role r =? rb); injection B as <-; [move_tac Hpc|].
  split.
  - exists (set_role r rb). split.
    + unfold inflight in Gorder.
      constructor; sproj; unfold set_role, mk; cbn [f_owner f_tr f_enq f_mq f_ov f_role f_em f_d f_pb f_wq f_ib f_hi];
        try assumption; try lia; try reflexivity.
      * apply wfr_mk; lia.
      * intros w E. rewrite P by exact E. apply Gdirty. exact E.
      * unfold inflight; sproj. destruct (lockh s) as [w|]; [rewrite P by reflexivity|]; exact Gorder.
      * destruct (lockh s) as [w|]; [rewrite P by reflexivity|]; exact Grunning.
    + bcd_auto ina s r t Hpc.
  - threads_move_tac s t Hpc.
Qed.

(* ---------------------------------------------------------------- dispatch_activate *)
Lemma step_pc_rmw ina rb s t s' : Inv ina s -> pcs s t = PC_rmw -> gstep rb s t = Some s' -> Inv ina s'.
Proof.
  intros I Hpc B. pose proof I as [(r & A & Bv & C & D) T]. unfold gstep in B. rewrite Hpc in B.
  pose proof (g_enc s r A) as Genc. pose proof (g_wf s r A) as Gwf. pose proof Gwf as W. unfold wfr in W.
  assert (NS : sidelock s <> Some t) by (apply (not_holder_side s t (T t)); rewrite Hpc; reflexivity).
  assert (NL : lockh s <> Some t) by (apply (not_holder_lock s t (T t)); rewrite Hpc; reflexivity).
  assert (NR : ~ In t (rpre s)).
  { destruct (T t) as (_ & _ & _ & _ & T5 & _). rewrite Hpc in T5. intros Hin. apply T5 in Hin. discriminate. }
  assert (AC : act_called s = true) by (apply (d_actpc ina s r D t Hpc)).
  rewrite Genc in B. rewrite (activate_fields r Gwf) in B. unfold NEEDS_ACT in B.
  pose proof Bv as Bv'. dB Bv'.
  destruct (Z.eqb_spec (f_hi r) 3) as [H3|H3].
  - (* { i:1 na:1 } -> { sc:1 }: this thread runs the activation and then resumes *)
    pose proof (set_hi_wf r 8 Gwf ltac:(lia)) as W8.
    rewrite (xor_needs_activation r (set_hi r 8) Gwf W8) in B. change (f_hi (set_hi r 8)) with 8 in B. rewrite H3 in B.
    change (xorb (3 mod 2 =? 1) (8 mod 2 =? 1)) with true in B. cbv iota in B. injection B as <-.
    split.
    + exists (set_hi r 8). split; [|split; [|split]].
      * apply (ainv_ext (set_pc (set_st s (enc (set_hi r 8))) t PR_role)); try reflexivity.
        apply ainv_set_hi; auto; lia.
      * assert (SE : side_eff (set_rpre (set_pc (set_st s (enc (set_hi r 8))) t PR_role) (t :: rpre s)) = side_eff s).
        { eapply (side_eff_eq s _ t); sproj; try reflexivity. intros E. congruence. }
        constructor; sproj; change (f_hi (set_hi r 8)) with 8; rewrite ?SE, ?zlen_cons; try assumption; try lia.
        constructor; assumption.
      * apply (cinv_frame s _ r _ C); sproj; auto; [lia|].
        eapply (lic_now_eq s _ t); sproj; try reflexivity. intros E. congruence.
      * apply (dinv_change ina s _ r _ t PR_role D AC); sproj; try reflexivity; try discriminate;
          change (f_hi (set_hi r 8)) with 8; cbn; lia.
    + intros u. destruct (Z.eq_dec u t) as [->|N].
      * self_inv T t Hpc.
      * apply (thread_other s _ t u N (T u)); sproj; [apply upd_other; exact N | try other_iffs N ..].
  - destruct (Z.eqb_spec ((f_hi r / 2) mod 2) 1) as [Hi|Hi].
    + (* { sc:>0 i:1 na:1 } -> { sc:>0 na:1 }: the last dispatch_resume will run the activation *)
      assert (M3 : f_hi r mod 4 = 3) by lia.
      pose proof (set_hi_wf r (f_hi r - 2) Gwf ltac:(lia)) as W2.
      rewrite (xor_needs_activation r (set_hi r (f_hi r - 2)) Gwf W2) in B.
      rewrite (suspended_word_f _ W2) in B. change (f_hi (set_hi r (f_hi r - 2))) with (f_hi r - 2) in B.
      assert (Par : xorb (f_hi r mod 2 =? 1) ((f_hi r - 2) mod 2 =? 1) = false).
      { replace ((f_hi r - 2) mod 2) with (f_hi r mod 2) by lia. apply xorb_nilpotent. }
      rewrite Par in B. assert (Sp : (0 <? f_hi r - 2) = true) by (apply Z.ltb_lt; lia). rewrite Sp in B. cbv iota in B.
      injection B as <-.
      split.
      * exists (set_hi r (f_hi r - 2)). split; [|split; [|split]].
        -- apply ainv_set_hi; auto; lia.
        -- assert (SE : side_eff (set_pc (set_st s (enc (set_hi r (f_hi r - 2)))) t Idle) = side_eff s).
           { eapply (side_eff_eq s _ t); sproj; try reflexivity. intros E. congruence. }
           constructor; sproj; change (f_hi (set_hi r (f_hi r - 2))) with (f_hi r - 2); rewrite ?SE; try assumption; try lia.
        -- apply (cinv_frame s _ r _ C); sproj; auto; [lia|].
           eapply (lic_now_eq s _ t); sproj; try reflexivity. intros E. congruence.
        -- apply (dinv_change ina s _ r _ t Idle D AC); sproj; try reflexivity; try discriminate;
             change (f_hi (set_hi r (f_hi r - 2))) with (f_hi r - 2); lia.
      * threads_move_tac s t Hpc.
    + (* already active *)
      injection B as <-.
      split.
      * exists r. split; [|split; [|split]].
        -- apply ainv_move; auto; rewrite Hpc; try reflexivity. discriminate.
        -- apply (binv_frame s _ r r Bv); sproj; auto. apply (side_eff_other s t Idle NS).
        -- apply (cinv_frame s _ r r C); sproj; auto. apply (lic_now_other s t Idle NL).
        -- apply (dinv_change ina s _ r _ t Idle D AC); sproj; try reflexivity; try discriminate; lia.
      * apply (threads_move s t Idle T); rewrite ?Hpc; try reflexivity; discriminate.
Qed.

(* ---------------------------------------------------------------- the lock hand-off of the last resume *)
Lemma step_pr_bctail ina rb s t q s' : Inv ina s -> pcs s t = PR_bctail q -> gstep rb s t = Some s' -> Inv ina s'.
Proof.
  intros I Hpc B. unfold gstep in B. rewrite Hpc in B. injection B as <-.
  pose proof (qos_in_range ina s t q I) as Q. rewrite Hpc in Q. specialize (Q eq_refl).
  destruct (lst s) eqn:L; move_tac Hpc.
Qed.

Lemma step_pr_bcsusp ina rb s t q s' : Inv ina s -> pcs s t = PR_bcsusp q -> gstep rb s t = Some s' -> Inv ina s'.
Proof.
  intros I Hpc B. unfold gstep in B. rewrite Hpc in B. injection B as <-.
  pose proof (qos_in_range ina s t q I) as Q. rewrite Hpc in Q. specialize (Q eq_refl).
  destruct (suspended_word (st s)) eqn:SW; move_tac Hpc.
Qed.

Lemma step_pr_bchead ina rb s t q s' : Inv ina s -> pcs s t = PR_bchead q -> gstep rb s t = Some s' -> Inv ina s'.
Proof.
  intros I Hpc B. unfold gstep in B. rewrite Hpc in B.
  pose proof (qos_in_range ina s t q I) as Q. rewrite Hpc in Q. specialize (Q eq_refl).
  destruct (lst s) as [|e l]; [discriminate|]. destruct (e_linked e); [|discriminate]. injection B as <-.
  move_tac Hpc.
Qed.

Lemma step_pr_bcxor ina rb s t q s' : Inv ina s -> pcs s t = PR_bcxor q -> gstep rb s t = Some s' -> Inv ina s'.
Proof.
  intros I Hpc B. unfold gstep in B. rewrite Hpc in B. injection B as <-.
  pose proof (qos_in_range ina s t q I) as Q. rewrite Hpc in Q. specialize (Q eq_refl).
  destruct I as [(r & A & Bv & C & D) T].
  assert (K : lockh s = Some t) by (apply (holder_lock s t (T t)); rewrite Hpc; reflexivity).
  pose proof A as A'. dA A'. unfold inflight in Gorder. rewrite K in Glock, Gnostrand, Gdirty, Gorder, Grunning. rewrite Hpc in Gorder, Grunning.
  cbn [inflight_pc running_pc app] in Gorder, Grunning.
  pose proof Gwf as W. unfold wfr in W.
  unfold DIRTY. rewrite Genc. rewrite (xor_dirty_fields r Gwf).
  set (r' := mk (f_owner r) (f_tr r) (f_enq r) (f_mq r) (f_ov r) (f_role r) (f_em r) (1 - f_d r) (f_pb r) (f_wq r) (f_ib r) (f_hi r)).
  split.
  - exists r'. split.
    + subst r'. constructor; sproj; rewrite ?K, ?upd_same; unfold mk; cbn [f_tr f_em f_pb f_hi f_role f_enq f_d];
        try assumption; try lia; try reflexivity.
      * apply wfr_mk; lia.
      * intros w E. injection E as <-. rewrite upd_same. discriminate.
      * unfold inflight; sproj. rewrite ?K, upd_same. exact Gorder.
    + bcd_auto ina s r t Hpc.
  - threads_move_tac s t Hpc.
Qed.

Lemma step_pr_cbc ina rb s t q tg s' : Inv ina s -> pcs s t = PR_cbc q tg -> gstep rb s t = Some s' -> Inv ina s'.
Proof.
  intros I Hpc B. unfold gstep in B. rewrite Hpc in B.
  pose proof (qos_in_range ina s t q I) as Q. rewrite Hpc in Q. specialize (Q eq_refl).
  pose proof I as I'. destruct I' as [(r & A & Bv & C & D) T].
  assert (K : lockh s = Some t) by (apply (holder_lock s t (T t)); rewrite Hpc; reflexivity).
  assert (NK : token s <> Some (Some t)) by (apply (not_holder_token s t (T t)); rewrite Hpc; reflexivity).
  assert (NS : sidelock s <> Some t) by (apply (not_holder_side s t (T t)); rewrite Hpc; reflexivity).
  pose proof A as A'. dA A'. unfold inflight in Gorder. rewrite K in Glock, Gnostrand, Gdirty, Gorder, Grunning. rewrite Hpc in Gorder, Grunning.
  cbn [inflight_pc running_pc app] in Gorder, Grunning.
  destruct Glock as [Vt (O & Ib & Wq)]. pose proof Gwf as W. unfold wfr in W.
  rewrite Genc in B. unfold SERIAL_OWNED, ENQUEUED in B.
  rewrite (cbc_fields r q 1 (b2z tg) (if tg then 2147483648 else 0) Gwf Ib Wq Grole Q) in B by (destruct tg; auto).
  cbv zeta in B.
  replace (18014398509481984 + 2199023255552) with (18014398509481984 + 2199023255552 + 2147483648 * 0) in B by lia.
  rewrite (sub_owned r 0 Gwf Ib Wq) in B by lia.
  pose proof (unown_wf r 0 Gwf ltac:(lia)) as Wu.
  pose proof (merged_wf (unown r 0) q Wu Q) as Wm. unfold wfr in Wm.
  set (m := merged (unown r 0) q) in *.
  (* the common shape of a commit that gives the lock back: new fields r' *)
  assert (Finish : forall r' (tk : bool),
            f_owner r' = 0 -> f_ib r' = 0 -> f_wq r' = 4095 -> f_hi r' = f_hi r -> wfr r' ->
            f_tr r' = 0 -> f_em r' = 0 -> f_pb r' = 0 -> f_role r' < 2 ->
            (if tk then f_enq r = 0 /\ f_enq r' = 1 else f_enq r' = f_enq r) ->
            (lst s <> [] -> tk = true \/ token s <> None \/ wakers s <> [] \/ 0 < f_hi r) ->
            Inv ina (if tk then set_token (set_pc (set_lockh (set_st s (enc r')) None) t PA_rootpush) (Some (Some t))
                     else set_pc (set_lockh (set_st s (enc r')) None) t Idle)).
  { intros r' tk F1 F2 F3 F5 W' F6 F7 F8 F9 Fe NSt.
    assert (Bn : binv (set_lockh (set_st s (enc r')) None) r') by (apply (binv_frame s _ r r' Bv); sproj; auto).
    assert (Cn : cinv (set_lockh (set_st s (enc r')) None) r').
    { intros H. rewrite F5 in H. specialize (C H). unfold lic_now in *. sproj. rewrite K, Hpc in C. exact C. }
    destruct tk.
    - destruct Fe as [Fe0 Fe1].
      assert (Tk : token s = None).
      { destruct (token s) eqn:E; [|reflexivity]. assert (f_enq r = 1) by (apply Genq; congruence). lia. }
      split.
      + exists r'. split; [|split; [|split]].
        * constructor; sproj; try assumption; try lia; try reflexivity.
          -- rewrite Fe1. split; [discriminate | reflexivity].
          -- rewrite Grootq, Tk. reflexivity.
          -- unfold free. auto.
          -- intros _. left. discriminate.
          -- discriminate.
        * apply (binv_frame _ _ r' r' Bn); sproj; auto.
          eapply (side_eff_eq _ _ t); sproj; try reflexivity. intros E. congruence.
        * intros H. specialize (Cn H). unfold lic_now in *. sproj_in Cn. sproj. exact Cn.
        * eapply (dinv_step ina s _ r _ t _ D); sproj; rewrite ?Hpc; try reflexivity; try discriminate.
          -- rewrite F5. reflexivity.
          -- intros X [X1 _]. split; [exact X1 | reflexivity].
      + intros u. destruct (Z.eq_dec u t) as [->|N].
        * self_inv T t Hpc.
        * apply (thread_other s _ t u N (T u)); sproj; [apply upd_other; exact N | try other_iffs N ..].
    - split.
      + exists r'. split; [|split; [|split]].
        * constructor; sproj; try assumption; try lia; try reflexivity.
          -- rewrite Fe. exact Genq.
          -- unfold free. auto.
          -- intros Hl. destruct (NSt Hl) as [X|[X|[X|X]]]; [discriminate X | auto | auto | right; right; right; lia].
          -- discriminate.
        * apply (binv_frame _ _ r' r' Bn); sproj; auto.
          eapply (side_eff_eq _ _ t); sproj; try reflexivity. intros E. congruence.
        * intros H. specialize (Cn H). unfold lic_now in *. sproj_in Cn. sproj. exact Cn.
        * eapply (dinv_step ina s _ r _ t _ D); sproj; rewrite ?Hpc; try reflexivity; try discriminate.
          -- rewrite F5. reflexivity.
          -- intros X [X1 _]. split; [exact X1 | reflexivity].
      + intros u. destruct (Z.eq_dec u t) as [->|N].
        * self_inv T t Hpc.
        * apply (thread_other s _ t u N (T u)); sproj; [apply upd_other; exact N | try other_iffs N ..]. }
  destruct (Z.ltb_spec 0 (f_hi r)) as [Hs|Hs].
  - (* suspended again meanwhile: just give the lock back *)
    set (r' := mk 0 0 (f_enq r) (f_mq m) 0 (f_role r) (f_em r) (f_d r) (f_pb r) 4095 0 (f_hi r)) in *.
    assert (W' : wfr r') by (subst r'; apply wfr_mk; lia).
    rewrite (xor_enqueued (unown r 0) r' Wu W') in B. change (f_enq (unown r 0)) with (f_enq r - 0) in B.
    change (f_enq r') with (f_enq r) in B. rewrite Z.sub_0_r, xorb_nilpotent, andb_false_r in B. injection B as <-.
    apply (Finish r' false); subst r'; unfold mk; cbn [f_owner f_tr f_enq f_mq f_ov f_role f_em f_d f_pb f_wq f_ib f_hi]; try lia; auto.
  - assert (H0 : f_hi r = 0) by lia.
    destruct tg.
    + change (2147483648 =? 2147483648) with true in B. cbv iota in B.
      set (e' := if (f_enq r =? 0) && (f_em r =? 0) then 1 else f_enq r) in *.
      set (r' := mk 0 0 e' (f_mq m) 0 (f_role r) (f_em r) (f_d r) (f_pb r) 4095 0 0) in *.
      assert (He' : e' = 1) by (subst e'; rewrite Gem; destruct (Z.eqb_spec (f_enq r) 0); cbn [andb Z.eqb]; lia).
      assert (W' : wfr r') by (subst r'; apply wfr_mk; lia).
      rewrite (xor_enqueued (unown r 0) r' Wu W') in B. change (f_enq (unown r 0)) with (f_enq r - 0) in B.
      change (f_enq r') with e' in B. rewrite Z.sub_0_r, He' in B. cbn [andb Z.eqb] in B.
      destruct (Z.eqb_spec (f_enq r) 1) as [E1|E1]; cbn [xorb] in B; injection B as <-.
      * apply (Finish r' false); subst r'; unfold mk; cbn [f_owner f_tr f_enq f_mq f_ov f_role f_em f_d f_pb f_wq f_ib f_hi]; try lia; auto.
        intros _. right; left. apply Genq. exact E1.
      * apply (Finish r' true); subst r'; unfold mk; cbn [f_owner f_tr f_enq f_mq f_ov f_role f_em f_d f_pb f_wq f_ib f_hi]; try lia; auto.
    + change (0 =? 2147483648) with false in B. cbv iota in B.
      destruct (Z.eqb_spec (f_d r) 1) as [Dd|Dd].
      * injection B as <-. move_tac Hpc.
      * set (r' := mk 0 0 (f_enq r) 0 0 (f_role r) (f_em r) 0 (f_pb r) 4095 0 0) in *.
        cbn [andb] in B. injection B as <-.
        apply (Finish r' false); subst r'; unfold mk; cbn [f_owner f_tr f_enq f_mq f_ov f_role f_em f_d f_pb f_wq f_ib f_hi]; try lia; auto.
        -- apply wfr_mk; lia.
        -- intros Hl. right; right; left. intros Hw. destruct (Gdirty t eq_refl) as [X|X]; auto; try lia. rewrite Hpc. reflexivity.
Qed.

End StepsB.
