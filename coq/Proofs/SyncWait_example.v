(* SyncWait_example.v — concrete schedules of the synchronous hand-off model (non-vacuity of the C05_sync theorems):
   the events are computed from the current state with the generated rmw bodies, the whole run is evaluated. *)
From Coq Require Import ZArith Bool List Lia.
From Verif Require Import Word Conc Gen_consts Gen_dqstate Gen_lanesites SyncWait SyncWait_word SyncWait_inv SyncWait_proofs.
Import ListNotations.
Local Open Scope Z_scope.

Definition grunf (s : gst) (l : list (Z * (gst -> event))) : option gst :=
  fold_left (fun o '(t, f) => match o with Some s1 => gstep s1 t (f s1) | None => None end) l (Some s).

Lemma grunf_reach l : forall s s', reach s -> Forall (fun x => valid_tid (fst x)) l -> grunf s l = Some s' -> reach s'.
Proof.
  unfold grunf. induction l as [|[t f] l IH]; intros s s' R V H; cbn [fold_left] in H.
  - injection H as <-. exact R.
  - inversion V as [|? ? Vt Vl]; subst. cbn [fst] in Vt. destruct (gstep s t (f s)) as [s1|] eqn:E.
    + apply (IH s1 s'); auto. apply (reach_gstep s t (f s)); auto.
    + exfalso. clear -H. induction l as [|[t' f'] l IHl]; cbn [fold_left] in H; [discriminate H|auto].
Qed.

(* event builders *)
Definition uev (k obj b : Z) : gst -> event := fun _ => mkEv k 0 obj 0 0 0 b 1.
Definition e_call (api : Z) := uev DVU_CALL api 0.
Definition e_ret := uev DVU_RET 0 0.
Definition e_begin (w : Z) := uev DVU_CALLOUT_BEGIN 0 w.
Definition e_end (w : Z) := uev DVU_CALLOUT_END 0 w.
Definition e_tau (v : Z) : gst -> event := fun _ => tau v.
Definition e_loadq : gst -> event := fun s => mkEv DV_LOAD MO_RELAXED 0 OFF_Q 8 (st s) (st s) 1.
Definition e_casq (ord : Z) (body : Z -> rmw_outcome) : gst -> event :=
  fun s => mkEv DV_CASW ord 0 OFF_Q 8 (st s) (match body (st s) with Commit n _ => n | _ => 0 end) 1.
Definition e_xchgt (x : Z) : gst -> event := fun s => mkEv DV_XCHG MO_RELEASE 0 OFF_T 8 (tail_value s) x 1.
Definition e_storeh (x : Z) : gst -> event := fun _ => mkEv DV_STORE MO_RELAXED 0 OFF_H 8 0 x 1.
Definition e_loadh : gst -> event := fun s => mkEv DV_LOAD MO_ACQUIRE 0 OFF_H 8 (head_value s) (head_value s) 1.
Definition e_cast (ok : Z) : gst -> event := fun s => mkEv DV_CAS MO_RELEASE 0 OFF_T 8 (tail_value s) 0 ok.
Definition e_sub (w : Z) : gst -> event := fun s => mkEv DV_SUB MO_ACQUIRE w 0 4 (ev s w) 1 1.
Definition e_eload (w : Z) : gst -> event := fun s => mkEv DV_LOAD MO_ACQUIRE w 0 4 (ev s w) (ev s w) 1.
Definition e_fwait (w : Z) : gst -> event := fun _ => mkEv DV_FUTEX_WAIT 0 w 0 0 MAXV 0 1.
Definition e_fret (w : Z) : gst -> event := fun _ => mkEv DV_FUTEX_WAIT_RET 0 w 0 0 MAXV 0 1.
Definition e_add (w : Z) : gst -> event := fun s => mkEv DV_ADD MO_RELEASE w 0 4 (ev s w) 1 1.
Definition e_fwake (w : Z) : gst -> event := fun _ => mkEv DV_FUTEX_WAKE 0 w 0 0 1 0 1.

(* thread 5 takes the fast path of dispatch_sync_f; 6 (dispatch_sync_f) and 7 (dispatch_async_and_wait_f) arrive while
   it runs, push their contexts and go to sleep; 5 hands the lock to 6, 6 runs its item and hands the lock to 7, 7 runs
   its item and gives the lane back *)
Definition sched1 : list (Z * (gst -> event)) :=
  [ (5, e_call 1); (5, e_tau 0); (5, e_loadq); (5, e_casq 2 (b_fast 5)); (5, e_begin 5);
    (6, e_call 1); (6, e_tau 0); (6, e_loadq); (6, e_loadq); (6, e_xchgt 1000); (6, e_storeh 1000); (6, e_loadq);
    (6, e_casq 3 (fun v => b_pushw 6 v 0)); (6, e_sub 6); (6, e_eload 6); (6, e_fwait 6);
    (7, e_call 3); (7, e_loadq); (7, e_tau 1); (7, e_loadq); (7, e_xchgt 2000); (7, e_tau 0); (7, e_sub 7); (7, e_eload 7);
    (7, e_fwait 7) ].
Definition sched2 : list (Z * (gst -> event)) :=
  [ (5, e_end 5); (5, e_tau 1); (5, e_loadq); (5, e_loadh); (5, e_storeh 2000); (5, e_loadq);
    (5, e_casq 3 (fun v => b_dbw 0 v 6)) ].
Definition sched3 : list (Z * (gst -> event)) :=
  [ (5, e_add 6); (5, e_fwake 6); (5, e_ret);
    (6, e_fret 6); (6, e_eload 6); (6, e_begin 6) ].
Definition sched4 : list (Z * (gst -> event)) :=
  [ (6, e_end 6); (6, e_tau 1); (6, e_loadq); (6, e_loadh); (6, e_storeh 0); (6, e_cast 1); (6, e_loadq);
    (6, e_casq 3 (fun v => b_dbw 0 v 7)); (6, e_add 7); (6, e_fwake 7); (6, e_ret);
    (7, e_fret 7); (7, e_eload 7); (7, e_loadq); (7, e_begin 7); (7, e_end 7); (7, e_tau 0); (7, e_loadq);
    (7, e_casq 3 (fun v => b_cbc 0 v 0)); (7, e_ret) ].

Definition after (l : list (Z * (gst -> event))) : option gst := grunf init_state l.
Definition view (o : option gst) : list Z :=
  match o with
  | None => []
  | Some s => [match holder s with Some h => h | None => 0 end; Z.land (st s) OWNER_MASK;
               match running s with Some h => h | None => 0 end; runs s 5; runs s 6; runs s 7;
               (if ist_fin (ist s 5) then 1 else 0); (if ist_fin (ist s 6) then 1 else 0); (if ist_fin (ist s 7) then 1 else 0);
               (match slp s 6 with Sleeping => 1 | _ => 0 end); (match slp s 7 with Sleeping => 1 | _ => 0 end);
               Z.of_nat (length (lst s)); st s]
  end.

Lemma sched_valid l : Forall (fun x => In (fst x) [5; 6; 7]) l -> Forall (fun x : Z * (gst -> event) => valid_tid (fst x)) l.
Proof.
  apply Forall_impl. intros [t f] H. cbn [fst] in *. unfold valid_tid, OWNER_MASK, DLOCK_OWNER_MASK.
  destruct H as [<-|[<-|[<-|[]]]]; lia.
Qed.

(* thread 5 submits an asynchronous item, worker 6 locks the lane, thread 7 calls dispatch_async_and_wait_f and parks
   behind the item; the worker runs both items itself, clears dsc_func, signals 7 and gives the lane back; 7 returns
   without ever starting its item *)
Definition e_loadt : gst -> event := fun s => mkEv DV_LOAD MO_SEQ_CST 0 OFF_T 8 (tail_value s) (tail_value s) 1.
Definition schedR1 : list (Z * (gst -> event)) :=
  [ (5, e_call 4); (5, e_xchgt 3000); (5, e_storeh 3000); (5, e_loadt); (5, e_loadq); (5, e_casq 3 (fun v => b_wakeup 3 v 0));
    (5, e_tau 0); (5, e_ret);
    (6, e_loadq); (6, e_casq 2 (b_lock 6 7));
    (7, e_call 3); (7, e_loadq); (7, e_tau 1); (7, e_loadq); (7, e_xchgt 4000); (7, e_tau 0); (7, e_sub 7); (7, e_eload 7); (7, e_fwait 7);
    (6, e_tau 1); (6, e_loadh); (6, e_loadq); (6, e_storeh 4000); (6, e_begin 0); (6, e_end 0);
    (6, e_loadq); (6, e_storeh 0); (6, e_cast 1); (6, e_begin 7) ].
Definition schedR2 : list (Z * (gst -> event)) :=
  [ (6, e_end 7); (6, e_add 7); (6, e_fwake 7); (6, e_tau 0); (6, e_loadq); (6, e_casq 3 (b_dunlock OWN));
    (7, e_fret 7); (7, e_eload 7); (7, e_ret) ].

Lemma after_reach l s : Forall (fun x => In (fst x) [5; 6; 7]) l -> after l = Some s -> reach s.
Proof.
  intros V H. apply (grunf_reach l init_state s); [apply reach_init; reflexivity|apply sched_valid; exact V|exact H].
Qed.

Ltac in567 := repeat (constructor; [cbn; tauto|]); constructor.

Lemma nonvacuous_remote :
  (exists s, reach s /\ holder s = Some 6 /\ running s = Some 6 /\ pcs s 6 = W_incall OWN 0 7 /\ slp s 7 = Sleeping /\
             ph s 7 = PhPopR 6 /\ runs s 7 = 1 /\ ist s 7 = IRun) /\
  (exists s, reach s /\ holder s = None /\ st s = init_word /\ runs s 7 = 1 /\ ist s 7 = IFin /\ remote s 7 = true /\
             pcs s 7 = Idle /\ pcs s 6 = Idle /\ early_ret s = false).
Proof.
  split.
  - destruct (after schedR1) as [s|] eqn:E; [|vm_compute in E; discriminate E].
    exists s. split; [apply (after_reach schedR1); [unfold schedR1; in567|exact E]|].
    vm_compute in E. injection E as <-. vm_compute. repeat split.
  - destruct (after (schedR1 ++ schedR2)) as [s|] eqn:E; [|vm_compute in E; discriminate E].
    exists s. split; [apply (after_reach (schedR1 ++ schedR2)); [unfold schedR1, schedR2; cbn [app]; in567|exact E]|].
    vm_compute in E. injection E as <-. vm_compute. repeat split.
Qed.

Lemma nonvacuous :
  (exists s, reach s /\ holder s = Some 6 /\ Z.land (st s) OWNER_MASK = 6 /\ slp s 6 = Sleeping /\ ph s 6 = PhSig 5 /\
             pcs s 5 = G_sig CRet 6 /\ slp s 7 = Sleeping /\ ph s 7 = PhQueued) /\
  (exists s, reach s /\ holder s = None /\ st s = init_word /\ runs s 5 = 1 /\ runs s 6 = 1 /\ runs s 7 = 1 /\
             ist s 6 = IFin /\ ist s 7 = IFin /\ pcs s 6 = Idle /\ pcs s 7 = Idle /\ lst s = []).
Proof.
  split.
  - destruct (after (sched1 ++ sched2)) as [s|] eqn:E; [|vm_compute in E; discriminate E].
    exists s. split; [apply (after_reach (sched1 ++ sched2)); [unfold sched1, sched2; cbn [app]; in567|exact E]|].
    vm_compute in E. injection E as <-. vm_compute. repeat split.
  - destruct (after (sched1 ++ sched2 ++ sched3 ++ sched4)) as [s|] eqn:E; [|vm_compute in E; discriminate E].
    exists s. split; [apply (after_reach (sched1 ++ sched2 ++ sched3 ++ sched4)); [unfold sched1, sched2, sched3, sched4; cbn [app]; in567|exact E]|].
    vm_compute in E. injection E as <-. vm_compute. repeat split.
Qed.
